(* driver.ml — hand-written I/O glue around the extracted model (model.ml).
   Reads one case per line on stdin (tab-separated fields, S-expressions), evaluates the
   extracted Gallina definitions, prints canonical observables.  No logic of its own. *)
open Model

(* ---------- numbers ---------- *)
let rec pos_of_int n =
  if n = 1 then XH else if n land 1 = 1 then XI (pos_of_int (n lsr 1)) else XO (pos_of_int (n lsr 1))
let n_of_int n = if n = 0 then N0 else Npos (pos_of_int n)
let z_of_int n = if n = 0 then Z0 else if n > 0 then Zpos (pos_of_int n) else Zneg (pos_of_int (-n))
let rec int_of_pos = function XH -> 1 | XO p -> 2 * int_of_pos p | XI p -> 2 * int_of_pos p + 1
let int_of_n = function N0 -> 0 | Npos p -> int_of_pos p
let rec int_of_nat = function O -> 0 | S n -> 1 + int_of_nat n
let rec nat_of_int n = if n <= 0 then O else S (nat_of_int (n - 1))
let z10 = z_of_int 10
(* arbitrary-size decimal -> Z (i64 extremes do not fit OCaml's 63-bit int) *)
let z_of_string s =
  let neg = String.length s > 0 && s.[0] = '-' in
  let start = if neg then 1 else 0 in
  let acc = ref Z0 in
  for i = start to String.length s - 1 do
    let d = Char.code s.[i] - 48 in
    if d < 0 || d > 9 then failwith ("bad integer " ^ s);
    acc := Z.add (Z.mul !acc z10) (z_of_int d)
  done;
  if neg then Z.opp !acc else !acc
let rec pos_to_z p = Zpos p
let rec z_to_string z =
  match z with
  | Z0 -> "0"
  | Zneg p -> "-" ^ z_to_string (Zpos p)
  | Zpos _ ->
    let rec go z acc =
      match z with
      | Z0 -> acc
      | _ ->
        let q = Z.div z z10 and r = Z.modulo z z10 in
        let d = (match r with Z0 -> 0 | Zpos p -> int_of_pos p | Zneg _ -> 0) in
        go q (String.make 1 (Char.chr (48 + d)) ^ acc)
    in go z ""

(* ---------- S-expressions ---------- *)
type sexp = A of string | L of sexp list
let parse_sexp (s : string) : sexp =
  let n = String.length s in
  let pos = ref 0 in
  let rec skip () = while !pos < n && (s.[!pos] = ' ') do incr pos done
  and item () =
    skip ();
    if !pos >= n then failwith "sexp: eof"
    else if s.[!pos] = '(' then begin
      incr pos;
      let items = ref [] in
      skip ();
      while !pos < n && s.[!pos] <> ')' do
        items := item () :: !items; skip ()
      done;
      if !pos >= n then failwith "sexp: unclosed";
      incr pos;
      L (List.rev !items)
    end else begin
      let st = !pos in
      while !pos < n && s.[!pos] <> ' ' && s.[!pos] <> '(' && s.[!pos] <> ')' do incr pos done;
      A (String.sub s st (!pos - st))
    end
  in
  let r = item () in
  skip ();
  if !pos <> n then failwith "sexp: trailing";
  r

let str_of = function
  | L (A "s" :: cps) -> List.map (function A x -> n_of_int (int_of_string x) | _ -> failwith "str") cps
  | _ -> failwith "str expected"
let z_of = function A x -> z_of_string x | _ -> failwith "int expected"
let oz_of = function A "n" -> None | x -> Some (z_of x)
let bool_of = function A "1" -> true | A "0" -> false | _ -> failwith "bool expected"

let rec doc_of = function
  | A "null" -> JNull
  | A "nz" -> JNum (NFlt (Z0, Z0))   (* negative zero in the document: the number 0 *)
  | L [A "b"; b] -> JBool (bool_of b)
  | L [A "i"; z] -> JNum (NInt (z_of z))
  | L [A "f"; m; e] -> JNum (NFlt (z_of m, z_of e))
  | L (A "s" :: _) as s -> JStr (str_of s)
  | L (A "a" :: items) -> JArr (List.map doc_of items)
  | L (A "o" :: members) ->
    JObj (List.map (function L [k; v] -> (str_of k, doc_of v) | _ -> failwith "member") members)
  | _ -> failwith "doc"

let literal_of = function
  | L [A "int"; z] -> LInt (z_of z)
  | L [A "flt"; m; e] -> LFloat (z_of m, z_of e)
  | L [A "str"; s] -> LStr (str_of s)
  | L [A "bool"; b] -> LBool (bool_of b)
  | A "null" -> LNull
  | _ -> failwith "literal"
let sqseg_of = function
  | L [A "i"; z] -> SqIndex (z_of z)
  | L [A "n"; s] -> SqName (str_of s)
  | _ -> failwith "sqseg"
let op_of = function
  | A "eq" -> OpEq | A "ne" -> OpNe | A "gt" -> OpGt | A "ge" -> OpGe | A "lt" -> OpLt | A "le" -> OpLe
  | _ -> failwith "op"

let rec segment_of = function
  | L [A "desc"; s] -> SegDesc (segment_of s)
  | L [A "sel"; s] -> SegSel (selector_of s)
  | L (A "sels" :: l) -> SegSels (List.fold_right (fun s acc -> SCons (selector_of s, acc)) l SNil)
  | _ -> failwith "segment"
and selector_of = function
  | L [A "name"; s] -> SelName (str_of s)
  | A "wild" -> SelWild
  | L [A "idx"; z] -> SelIndex (z_of z)
  | L [A "slice"; a; b; c] -> SelSlice (oz_of a, oz_of b, oz_of c)
  | L [A "filter"; f] -> SelFilter (filter_of f)
  | _ -> failwith "selector"
and segments_of l = List.fold_right (fun s acc -> GCons (segment_of s, acc)) l GNil
and filters_of l = List.fold_right (fun f acc -> FCons (filter_of f, acc)) l FNil
and filter_of = function
  | L (A "or" :: l) -> FOr (filters_of l)
  | L (A "and" :: l) -> FAnd (filters_of l)
  | L [A "atom"; a] -> FAtom (atom_of a)
  | _ -> failwith "filter"
and atom_of = function
  | L [A "afilter"; f; b] -> AFilter (filter_of f, bool_of b)
  | L [A "atest"; t; b] -> ATest (test_of t, bool_of b)
  | L [A "cmp"; op; l; r] -> ACmp (op_of op, comparable_of l, comparable_of r)
  | _ -> failwith "atom"
and comparable_of = function
  | L [A "lit"; l] -> CLit (literal_of l)
  | L [A "fn"; f] -> CFn (tfun_of f)
  | L (A "sq" :: A "cur" :: l) -> CSq (SqCur (List.map sqseg_of l))
  | L (A "sq" :: A "root" :: l) -> CSq (SqRoot (List.map sqseg_of l))
  | _ -> failwith "comparable"
and test_of = function
  | L (A "rel" :: l) -> TRel (segments_of l)
  | L (A "abs" :: l) -> TAbs (segments_of l)
  | L [A "tfn"; f] -> TFn (tfun_of f)
  | _ -> failwith "test"
and tfun_of = function
  | L (A "custom" :: name :: args) ->
    FnCustom (str_of name, List.fold_right (fun a acc -> ACons (fnarg_of a, acc)) args ANil)
  | L [A "length"; a] -> FnLength (fnarg_of a)
  | L [A "value"; a] -> FnValue (fnarg_of a)
  | L [A "count"; a] -> FnCount (fnarg_of a)
  | L [A "search"; a; b] -> FnSearch (fnarg_of a, fnarg_of b)
  | L [A "match"; a; b] -> FnMatch (fnarg_of a, fnarg_of b)
  | _ -> failwith "tfun"
and fnarg_of = function
  | L [A "argl"; l] -> ArgLit (literal_of l)
  | L [A "argt"; t] -> ArgTest (test_of t)
  | L [A "argf"; f] -> ArgFilter (filter_of f)
  | _ -> failwith "fnarg"
let query_of = function
  | L (A "q" :: l) -> segments_of l
  | _ -> failwith "query"

(* ---------- printing ---------- *)
let b01 b = if b then "1" else "0"
let cps (s : str) = String.concat "." (List.map (fun c -> string_of_int (int_of_n c)) s)
let step_str = function
  | SName k -> "n:" ^ cps k
  | SIdx i -> "i:" ^ string_of_int (int_of_nat i)
let loc_str (l : loc) = String.concat "/" ("$" :: List.map step_str l)

(* ---------- AST -> S-expression (same format the Rust harness prints) ---------- *)
let sx_str (s : str) = "(s" ^ String.concat "" (List.map (fun c -> " " ^ string_of_int (int_of_n c)) s) ^ ")"
let sx_oz = function None -> "n" | Some z -> z_to_string z
let sx_lit = function
  | LInt z -> "(int " ^ z_to_string z ^ ")"
  | LFloat (m, e) -> "(flt " ^ z_to_string m ^ " " ^ z_to_string e ^ ")"
  | LStr s -> "(str " ^ sx_str s ^ ")"
  | LBool b -> "(bool " ^ b01 b ^ ")"
  | LNull -> "null"
let rec sx_segment = function
  | SegDesc s -> "(desc " ^ sx_segment s ^ ")"
  | SegSel s -> "(sel " ^ sx_selector s ^ ")"
  | SegSels l -> "(sels" ^ sx_selectors l ^ ")"
and sx_selectors = function SNil -> "" | SCons (s, l) -> " " ^ sx_selector s ^ sx_selectors l
and sx_selector = function
  | SelName k -> "(name " ^ sx_str k ^ ")"
  | SelWild -> "wild"
  | SelIndex i -> "(idx " ^ z_to_string i ^ ")"
  | SelSlice (a, b, c) -> "(slice " ^ sx_oz a ^ " " ^ sx_oz b ^ " " ^ sx_oz c ^ ")"
  | SelFilter f -> "(filter " ^ sx_filter f ^ ")"
and sx_segments = function GNil -> "" | GCons (s, l) -> " " ^ sx_segment s ^ sx_segments l
and sx_filters = function FNil -> "" | FCons (f, l) -> " " ^ sx_filter f ^ sx_filters l
and sx_filter = function
  | FOr l -> "(or" ^ sx_filters l ^ ")"
  | FAnd l -> "(and" ^ sx_filters l ^ ")"
  | FAtom a -> "(atom " ^ sx_atom a ^ ")"
and sx_atom = function
  | AFilter (f, n) -> "(afilter " ^ sx_filter f ^ " " ^ b01 n ^ ")"
  | ATest (t, n) -> "(atest " ^ sx_test t ^ " " ^ b01 n ^ ")"
  | ACmp (op, l, r) ->
    let o = (match op with OpEq -> "eq" | OpNe -> "ne" | OpGt -> "gt" | OpGe -> "ge" | OpLt -> "lt" | OpLe -> "le") in
    "(cmp " ^ o ^ " " ^ sx_comparable l ^ " " ^ sx_comparable r ^ ")"
and sx_comparable = function
  | CLit l -> "(lit " ^ sx_lit l ^ ")"
  | CFn f -> "(fn " ^ sx_tfun f ^ ")"
  | CSq q ->
    let (k, segs) = (match q with SqCur l -> ("cur", l) | SqRoot l -> ("root", l)) in
    "(sq " ^ k ^ String.concat "" (List.map (function SqIndex i -> " (i " ^ z_to_string i ^ ")" | SqName n -> " (n " ^ sx_str n ^ ")") segs) ^ ")"
and sx_test = function
  | TRel l -> "(rel" ^ sx_segments l ^ ")"
  | TAbs l -> "(abs" ^ sx_segments l ^ ")"
  | TFn f -> "(tfn " ^ sx_tfun f ^ ")"
and sx_tfun = function
  | FnCustom (n, args) -> "(custom " ^ sx_str n ^ sx_fnargs args ^ ")"
  | FnLength a -> "(length " ^ sx_fnarg a ^ ")"
  | FnValue a -> "(value " ^ sx_fnarg a ^ ")"
  | FnCount a -> "(count " ^ sx_fnarg a ^ ")"
  | FnSearch (a, b) -> "(search " ^ sx_fnarg a ^ " " ^ sx_fnarg b ^ ")"
  | FnMatch (a, b) -> "(match " ^ sx_fnarg a ^ " " ^ sx_fnarg b ^ ")"
and sx_fnarg = function
  | ArgLit l -> "(argl " ^ sx_lit l ^ ")"
  | ArgTest t -> "(argt " ^ sx_test t ^ ")"
  | ArgFilter f -> "(argf " ^ sx_filter f ^ ")"
and sx_fnargs = function ANil -> "" | ACons (a, l) -> " " ^ sx_fnarg a ^ sx_fnargs l
let sx_query q = "(q" ^ sx_segments q ^ ")"

let handle_parse id cps =
  let s = str_of (parse_sexp cps) in
  (match parse_query s with
   | POk q -> Printf.printf "%s\tM\tOK\t%s\n" id (sx_query q)
   | PErr -> Printf.printf "%s\tM\tERR\n" id
   | PInfLit -> Printf.printf "%s\tM\tINF\n" id
   | POutOfFuel -> Printf.printf "%s\tM\tOUTOFFUEL\n" id);
  (match rfc_parse s with
   | RfcValid q -> Printf.printf "%s\tR\tVALID\t%s\n" id (sx_query q)
   | RfcExtension q -> Printf.printf "%s\tR\tEXT\t%s\n" id (sx_query q)
   | RfcIllTyped q -> Printf.printf "%s\tR\tILLTYPED\t%s\n" id (sx_query q)
   | RfcInvalid -> Printf.printf "%s\tR\tINVALID\n" id)

let rec sx_doc = function
  | JNull -> "null"
  | JBool b -> "(b " ^ b01 b ^ ")"
  | JNum (NInt z) -> "(i " ^ z_to_string z ^ ")"
  | JNum (NFlt (m, e)) -> "(f " ^ z_to_string m ^ " " ^ z_to_string e ^ ")"
  | JStr s -> sx_str s
  | JArr l -> "(a" ^ String.concat "" (List.map (fun x -> " " ^ sx_doc x) l) ^ ")"
  | JObj m -> "(o" ^ String.concat "" (List.map (fun (k, v) -> " (" ^ sx_str k ^ " " ^ sx_doc v ^ ")") m) ^ ")"

(* reference / reference_mut: resolved location, and the document after writing [repl] through it *)
let handle_ref id doc path repl =
  let d = doc_of (parse_sexp doc) in
  let p = str_of (parse_sexp path) in
  let r = doc_of (parse_sexp repl) in
  (match m_reference_fast p d with   (* = m_reference p d: RefFast.m_reference_fast_eq *)
   | Some (l, _) ->
     let after = (match set_at d l r with Some d2 -> sx_doc d2 | None -> "SETFAIL") in
     Printf.printf "%s\tM\tOK\t%s\t%s\n" id (loc_str l) after
   | None -> Printf.printf "%s\tM\tNONE\t-\t%s\n" id (sx_doc d));
  (match rfc_reference_fast p d with   (* = rfc_reference p d: RefFast.rfc_reference_fast_eq *)
   | Some (l, _) ->
     let after = (match set_at d l r with Some d2 -> sx_doc d2 | None -> "SETFAIL") in
     Printf.printf "%s\tR\tOK\t%s\t%s\n" id (loc_str l) after
   | None -> Printf.printf "%s\tR\tNONE\t-\t%s\n" id (sx_doc d))

let handle_eval id ast doc =
  let q = query_of (parse_sexp ast) in
  let d = doc_of (parse_sexp doc) in
  (match m_query q d with
   | None -> Printf.printf "%s\tM\tERR\n" id
   | Some ps ->
     Printf.printf "%s\tM\tOK\t%s\n" id
       (String.concat " " (List.map (fun p -> loc_str p.ploc ^ "|" ^ cps p.path) ps)));
  let r = rfc_query q d in
  Printf.printf "%s\tR\tOK\t%s\n" id
    (String.concat " " (List.map (fun (l, _) -> loc_str l ^ "|" ^ cps (np l)) r));
  let s = cur_query q d in
  Printf.printf "%s\tS\tOK\t%s\n" id (String.concat " " (List.map (fun (l, _) -> loc_str l) s));
  let strict = strict_query q d in
  let dotcr = (List.map fst strict <> List.map fst r) in
  Printf.printf "%s\tK\tnames_plain=%s names_single=%s doc_plain=%s exact53=%s wf=%s wfq=%s rx=%s dotcr=%s\n" id
    (b01 (names_plain q)) (b01 (names_single q)) (b01 (doc_plain d)) (b01 (doc_exact53 d))
    (b01 (wf_json d)) (b01 (wf_query q)) (b01 (rx_query_ok q d)) (b01 dotcr)

(* string level, end to end: model parser then model evaluator; RFC recogniser then RFC semantics *)
let handle_str id txt doc =
  let s = str_of (parse_sexp txt) in
  let d = doc_of (parse_sexp doc) in
  (match parse_query s with
   | POk q ->
     (match m_query q d with
      | None -> Printf.printf "%s\tM\tERR\n" id
      | Some ps ->
        Printf.printf "%s\tM\tOK\t%s\n" id
          (String.concat " " (List.map (fun p -> loc_str p.ploc ^ "|" ^ cps p.path) ps)))
   | PErr | PInfLit -> Printf.printf "%s\tM\tERR\n" id
   | POutOfFuel -> Printf.printf "%s\tM\tOUTOFFUEL\n" id);
  (match rfc_parse s with
   | RfcValid q ->
     let r = rfc_query q d in
     Printf.printf "%s\tR\tOK\t%s\n" id
       (String.concat " " (List.map (fun (l, _) -> loc_str l ^ "|" ^ cps (np l)) r));
     let c = cur_query q d in
     Printf.printf "%s\tS\tOK\t%s\n" id (String.concat " " (List.map (fun (l, _) -> loc_str l) c));
     let strict = strict_query q d in
     let dotcr = (List.map fst strict <> List.map fst r) in
     Printf.printf "%s\tK\tnames_plain=%s names_single=%s doc_plain=%s exact53=%s wf=%s wfq=%s rx=%s dotcr=%s\n" id
       (b01 (names_plain q)) (b01 (names_single q)) (b01 (doc_plain d)) (b01 (doc_exact53 d))
       (b01 (wf_json d)) (b01 (wf_query q)) (b01 (rx_query_ok q d)) (b01 dotcr)
   | RfcExtension _ -> Printf.printf "%s\tR\tEXT\n" id
   | RfcIllTyped _ -> Printf.printf "%s\tR\tILLTYPED\n" id
   | RfcInvalid -> Printf.printf "%s\tR\tINVALID\n" id)

let () =
  try
    while true do
      let line = input_line stdin in
      if line <> "" then begin
        match String.split_on_char '\t' line with
        | ["EVAL"; id; ast; doc] ->
          (try handle_eval id ast doc
           with Failure m -> Printf.printf "%s\tM\tBADCASE\t%s\n" id m
              | Stack_overflow -> Printf.printf "%s\tM\tSTACK\n" id)
        | ["STR"; id; cps; doc] ->
          (try handle_str id cps doc
           with Failure m -> Printf.printf "%s\tM\tBADCASE\t%s\n" id m
              | Stack_overflow -> Printf.printf "%s\tM\tSTACK\n" id)
        | ["REF"; id; doc; path; repl] ->
          (try handle_ref id doc path repl
           with Failure m -> Printf.printf "%s\tM\tBADCASE\t%s\n" id m
              | Stack_overflow -> Printf.printf "%s\tM\tSTACK\n" id)
        | "HIST" :: id :: _ -> Printf.printf "%s\tM\tSKIP\n" id
        | ["ROBAST"; id; _; _] -> Printf.printf "%s\tM\tSKIP\n" id
        | ["ROB"; id; cps; _] ->
          (* the model's side of C08: does the string parse (evaluation then cannot fail: C08_eval_never_errs) *)
          (try
             let s = str_of (parse_sexp cps) in
             (match parse_query s with
              | POk _ | PInfLit -> Printf.printf "%s\tM\tOK\n" id
              | PErr -> Printf.printf "%s\tM\tPARSE_ERR\n" id
              | POutOfFuel -> Printf.printf "%s\tM\tOUTOFFUEL\n" id)
           with Failure m -> Printf.printf "%s\tM\tBADCASE\t%s\n" id m
              | Stack_overflow -> Printf.printf "%s\tM\tSTACK\n" id)
        | ["PARSE"; id; cps] ->
          (try handle_parse id cps
           with Failure m -> Printf.printf "%s\tM\tBADCASE\t%s\n" id m
              | Stack_overflow -> Printf.printf "%s\tM\tSTACK\n" id)
        | kind :: id :: _ -> Printf.printf "%s\tM\tUNKNOWN\t%s\n" id kind
        | _ -> ()
      end
    done
  with End_of_file -> ()
