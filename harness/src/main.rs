//! jpharness — runs the real crate (built from /repo's working tree) on the case lines that the
//! extracted Coq model also evaluates, and prints the same canonical observables.
//! Observables are public-API behaviour only: Ok/Err, result locations (found by address inside
//! the caller's document), result path strings, Some/None of `reference`.
use jsonpath_rust::parser::model::*;
use jsonpath_rust::parser::parse_json_path;
use jsonpath_rust::query::queryable::Queryable;
use jsonpath_rust::query::{js_path_process, QueryRef};
use jsonpath_rust::JsonPath;
use serde_json::{Map, Number, Value};
use std::collections::HashMap;
use std::io::{self, BufRead, Write};
use std::panic::{catch_unwind, AssertUnwindSafe};

mod sexp;
mod second;
use sexp::Sexp;

type R<T> = Result<T, String>;

pub(crate) fn cps_to_string(s: &Sexp) -> R<String> {
    match s {
        Sexp::L(items) if matches!(items.first(), Some(Sexp::A(a)) if a == "s") => items[1..]
            .iter()
            .map(|x| match x {
                Sexp::A(a) => a
                    .parse::<u32>()
                    .ok()
                    .and_then(char::from_u32)
                    .ok_or_else(|| format!("bad code point {}", a)),
                _ => Err("code point expected".to_string()),
            })
            .collect(),
        _ => Err("str expected".into()),
    }
}
pub(crate) fn atom<'a>(s: &'a Sexp) -> R<&'a str> {
    match s {
        Sexp::A(a) => Ok(a.as_str()),
        _ => Err("atom expected".into()),
    }
}
pub(crate) fn int(s: &Sexp) -> R<i64> {
    atom(s)?.parse::<i64>().map_err(|e| e.to_string())
}
fn oint(s: &Sexp) -> R<Option<i64>> {
    if atom(s)? == "n" {
        Ok(None)
    } else {
        int(s).map(Some)
    }
}
pub(crate) fn boolean(s: &Sexp) -> R<bool> {
    match atom(s)? {
        "1" => Ok(true),
        "0" => Ok(false),
        _ => Err("bool expected".into()),
    }
}
/// exact m * 2^e as f64 (the generators keep |m| < 2^53; values down to the subnormal range are exact when they are doubles)
pub(crate) fn dyadic(m: i64, e: i64) -> f64 {
    if e < -1000 {
        // 2^e itself may not be representable (subnormal results): scale in two exact steps
        ((m as f64) * 2f64.powi(-1000)) * 2f64.powi((e + 1000) as i32)
    } else {
        (m as f64) * 2f64.powi(e as i32)
    }
}
pub(crate) fn list(s: &Sexp) -> R<&[Sexp]> {
    match s {
        Sexp::L(items) => Ok(items.as_slice()),
        _ => Err("list expected".into()),
    }
}
pub(crate) fn head<'a>(s: &'a Sexp) -> R<(&'a str, &'a [Sexp])> {
    match s {
        Sexp::L(items) if !items.is_empty() => Ok((atom(&items[0])?, &items[1..])),
        Sexp::A(a) => Ok((a.as_str(), &[])),
        _ => Err("tagged list expected".into()),
    }
}

pub fn doc_of(s: &Sexp) -> R<Value> {
    let (tag, args) = head(s)?;
    Ok(match (tag, args.len()) {
        ("null", 0) => Value::Null,
        // negative zero: a document value that is mathematically 0
        ("nz", 0) => Number::from_f64(-0.0).map(Value::Number).ok_or("negative zero")?,
        ("b", 1) => Value::Bool(boolean(&args[0])?),
        ("i", 1) => {
            let a = atom(&args[0])?;
            if let Ok(i) = a.parse::<i64>() {
                Value::from(i)
            } else {
                Value::from(a.parse::<u64>().map_err(|e| e.to_string())?)
            }
        }
        ("f", 2) => Number::from_f64(dyadic(int(&args[0])?, int(&args[1])?))
            .map(Value::Number)
            .ok_or("non-finite float")?,
        ("s", _) => Value::String(cps_to_string(s)?),
        ("a", _) => Value::Array(args.iter().map(doc_of).collect::<R<Vec<_>>>()?),
        ("o", _) => {
            let mut m = Map::new();
            for kv in args {
                let kv = list(kv)?;
                if kv.len() != 2 {
                    return Err("member".into());
                }
                m.insert(cps_to_string(&kv[0])?, doc_of(&kv[1])?);
            }
            Value::Object(m)
        }
        _ => return Err(format!("doc: {}", tag)),
    })
}

fn literal_of(s: &Sexp) -> R<Literal> {
    let (tag, a) = head(s)?;
    Ok(match (tag, a.len()) {
        ("int", 1) => Literal::Int(int(&a[0])?),
        ("flt", 2) => Literal::Float(dyadic(int(&a[0])?, int(&a[1])?)),
        ("str", 1) => Literal::String(cps_to_string(&a[0])?),
        ("bool", 1) => Literal::Bool(boolean(&a[0])?),
        ("null", 0) => Literal::Null,
        _ => return Err(format!("literal: {}", tag)),
    })
}
fn sqseg_of(s: &Sexp) -> R<SingularQuerySegment> {
    let (tag, a) = head(s)?;
    Ok(match (tag, a.len()) {
        ("i", 1) => SingularQuerySegment::Index(int(&a[0])?),
        ("n", 1) => SingularQuerySegment::Name(cps_to_string(&a[0])?),
        _ => return Err("sqseg".into()),
    })
}
fn segment_of(s: &Sexp) -> R<Segment> {
    let (tag, a) = head(s)?;
    Ok(match (tag, a.len()) {
        ("desc", 1) => Segment::Descendant(Box::new(segment_of(&a[0])?)),
        ("sel", 1) => Segment::Selector(selector_of(&a[0])?),
        ("sels", _) => Segment::Selectors(a.iter().map(selector_of).collect::<R<_>>()?),
        _ => return Err(format!("segment: {}", tag)),
    })
}
fn selector_of(s: &Sexp) -> R<Selector> {
    let (tag, a) = head(s)?;
    Ok(match (tag, a.len()) {
        ("name", 1) => Selector::Name(cps_to_string(&a[0])?),
        ("wild", 0) => Selector::Wildcard,
        ("idx", 1) => Selector::Index(int(&a[0])?),
        ("slice", 3) => Selector::Slice(oint(&a[0])?, oint(&a[1])?, oint(&a[2])?),
        ("filter", 1) => Selector::Filter(filter_of(&a[0])?),
        _ => return Err(format!("selector: {}", tag)),
    })
}
fn filter_of(s: &Sexp) -> R<Filter> {
    let (tag, a) = head(s)?;
    Ok(match (tag, a.len()) {
        ("or", _) => Filter::Or(a.iter().map(filter_of).collect::<R<_>>()?),
        ("and", _) => Filter::And(a.iter().map(filter_of).collect::<R<_>>()?),
        ("atom", 1) => Filter::Atom(atom_of(&a[0])?),
        _ => return Err(format!("filter: {}", tag)),
    })
}
fn atom_of(s: &Sexp) -> R<FilterAtom> {
    let (tag, a) = head(s)?;
    Ok(match (tag, a.len()) {
        ("afilter", 2) => FilterAtom::filter(filter_of(&a[0])?, boolean(&a[1])?),
        ("atest", 2) => FilterAtom::test(test_of(&a[0])?, boolean(&a[1])?),
        ("cmp", 3) => {
            let l = comparable_of(&a[1])?;
            let r = comparable_of(&a[2])?;
            FilterAtom::cmp(Box::new(match atom(&a[0])? {
                "eq" => Comparison::Eq(l, r),
                "ne" => Comparison::Ne(l, r),
                "gt" => Comparison::Gt(l, r),
                "ge" => Comparison::Gte(l, r),
                "lt" => Comparison::Lt(l, r),
                "le" => Comparison::Lte(l, r),
                o => return Err(format!("op: {}", o)),
            }))
        }
        _ => return Err(format!("atom: {}", tag)),
    })
}
fn comparable_of(s: &Sexp) -> R<Comparable> {
    let (tag, a) = head(s)?;
    Ok(match tag {
        "lit" if a.len() == 1 => Comparable::Literal(literal_of(&a[0])?),
        "fn" if a.len() == 1 => Comparable::Function(tfun_of(&a[0])?),
        "sq" if !a.is_empty() => {
            let segs = a[1..].iter().map(sqseg_of).collect::<R<Vec<_>>>()?;
            match atom(&a[0])? {
                "cur" => Comparable::SingularQuery(SingularQuery::Current(segs)),
                "root" => Comparable::SingularQuery(SingularQuery::Root(segs)),
                _ => return Err("sq".into()),
            }
        }
        _ => return Err(format!("comparable: {}", tag)),
    })
}
fn test_of(s: &Sexp) -> R<Test> {
    let (tag, a) = head(s)?;
    Ok(match tag {
        "rel" => Test::RelQuery(a.iter().map(segment_of).collect::<R<_>>()?),
        "abs" => Test::AbsQuery(JpQuery::new(a.iter().map(segment_of).collect::<R<_>>()?)),
        "tfn" if a.len() == 1 => Test::Function(Box::new(tfun_of(&a[0])?)),
        _ => return Err(format!("test: {}", tag)),
    })
}
fn tfun_of(s: &Sexp) -> R<TestFunction> {
    let (tag, a) = head(s)?;
    Ok(match (tag, a.len()) {
        ("custom", n) if n >= 1 => TestFunction::Custom(
            cps_to_string(&a[0])?,
            a[1..].iter().map(fnarg_of).collect::<R<_>>()?,
        ),
        ("length", 1) => TestFunction::Length(Box::new(fnarg_of(&a[0])?)),
        ("value", 1) => TestFunction::Value(fnarg_of(&a[0])?),
        ("count", 1) => TestFunction::Count(fnarg_of(&a[0])?),
        ("search", 2) => TestFunction::Search(fnarg_of(&a[0])?, fnarg_of(&a[1])?),
        ("match", 2) => TestFunction::Match(fnarg_of(&a[0])?, fnarg_of(&a[1])?),
        _ => return Err(format!("tfun: {}", tag)),
    })
}
fn fnarg_of(s: &Sexp) -> R<FnArg> {
    let (tag, a) = head(s)?;
    Ok(match (tag, a.len()) {
        ("argl", 1) => FnArg::Literal(literal_of(&a[0])?),
        ("argt", 1) => FnArg::Test(Box::new(test_of(&a[0])?)),
        ("argf", 1) => FnArg::Filter(filter_of(&a[0])?),
        _ => return Err(format!("fnarg: {}", tag)),
    })
}
pub fn query_of(s: &Sexp) -> R<JpQuery> {
    let (tag, a) = head(s)?;
    if tag != "q" {
        return Err("query".into());
    }
    Ok(JpQuery::new(a.iter().map(segment_of).collect::<R<_>>()?))
}

// ---------- printing ----------
fn cps(s: &str) -> String {
    s.chars()
        .map(|c| (c as u32).to_string())
        .collect::<Vec<_>>()
        .join(".")
}
/// address of every node of the document -> its location, rendered like the model's loc_str
pub fn index_doc<'a>(v: &'a Value, loc: String, out: &mut HashMap<usize, String>) {
    out.insert(v as *const Value as usize, loc.clone());
    match v {
        Value::Array(a) => {
            for (i, e) in a.iter().enumerate() {
                index_doc(e, format!("{}/i:{}", loc, i), out);
            }
        }
        Value::Object(m) => {
            for (k, e) in m.iter() {
                index_doc(e, format!("{}/n:{}", loc, cps(k)), out);
            }
        }
        _ => {}
    }
}
fn items(res: Vec<QueryRef<Value>>, index: &HashMap<usize, String>) -> String {
    res.into_iter()
        .map(|r| {
            let path = r.clone().path();
            let v = r.val();
            let loc = index
                .get(&(v as *const Value as usize))
                .cloned()
                .unwrap_or_else(|| "FOREIGN".to_string());
            format!("{}|{}", loc, cps(&path))
        })
        .collect::<Vec<_>>()
        .join(" ")
}

fn sx_str(s: &str) -> String {
    let mut out = String::from("(s");
    for c in s.chars() {
        out.push(' ');
        out.push_str(&(c as u32).to_string());
    }
    out.push(')');
    out
}
/// exact (m, e) with f = m * 2^e, m odd or zero
fn f64_parts(f: f64) -> String {
    if f == 0.0 {
        return "(flt 0 0)".into();
    }
    if !f.is_finite() {
        return "(flt inf)".into();
    }
    let bits = f.to_bits();
    let sign: i128 = if bits >> 63 == 1 { -1 } else { 1 };
    let exp = ((bits >> 52) & 0x7ff) as i64;
    let frac = (bits & 0xfffffffffffff) as i128;
    let (mut m, mut e) = if exp == 0 {
        (frac, -1074i64)
    } else {
        (frac | (1i128 << 52), exp - 1075)
    };
    while m % 2 == 0 {
        m /= 2;
        e += 1;
    }
    format!("(flt {} {})", sign * m, e)
}
fn sx_lit(l: &Literal) -> String {
    match l {
        Literal::Int(i) => format!("(int {})", i),
        Literal::Float(f) => f64_parts(*f),
        Literal::String(s) => format!("(str {})", sx_str(s)),
        Literal::Bool(b) => format!("(bool {})", *b as u8),
        Literal::Null => "null".into(),
    }
}
fn sx_oi(o: &Option<i64>) -> String {
    o.map(|i| i.to_string()).unwrap_or_else(|| "n".into())
}
fn sx_segment(s: &Segment) -> String {
    match s {
        Segment::Descendant(s) => format!("(desc {})", sx_segment(s)),
        Segment::Selector(s) => format!("(sel {})", sx_selector(s)),
        Segment::Selectors(l) => format!(
            "(sels{})",
            l.iter().map(|s| format!(" {}", sx_selector(s))).collect::<String>()
        ),
    }
}
fn sx_selector(s: &Selector) -> String {
    match s {
        Selector::Name(n) => format!("(name {})", sx_str(n)),
        Selector::Wildcard => "wild".into(),
        Selector::Index(i) => format!("(idx {})", i),
        Selector::Slice(a, b, c) => format!("(slice {} {} {})", sx_oi(a), sx_oi(b), sx_oi(c)),
        Selector::Filter(f) => format!("(filter {})", sx_filter(f)),
    }
}
fn sx_filter(f: &Filter) -> String {
    match f {
        Filter::Or(l) => format!("(or{})", l.iter().map(|x| format!(" {}", sx_filter(x))).collect::<String>()),
        Filter::And(l) => format!("(and{})", l.iter().map(|x| format!(" {}", sx_filter(x))).collect::<String>()),
        Filter::Atom(a) => format!("(atom {})", sx_atom(a)),
    }
}
fn sx_atom(a: &FilterAtom) -> String {
    match a {
        FilterAtom::Filter { expr, not } => format!("(afilter {} {})", sx_filter(expr), *not as u8),
        FilterAtom::Test { expr, not } => format!("(atest {} {})", sx_test(expr), *not as u8),
        FilterAtom::Comparison(c) => {
            let (op, l, r) = match &**c {
                Comparison::Eq(l, r) => ("eq", l, r),
                Comparison::Ne(l, r) => ("ne", l, r),
                Comparison::Gt(l, r) => ("gt", l, r),
                Comparison::Gte(l, r) => ("ge", l, r),
                Comparison::Lt(l, r) => ("lt", l, r),
                Comparison::Lte(l, r) => ("le", l, r),
            };
            format!("(cmp {} {} {})", op, sx_comparable(l), sx_comparable(r))
        }
    }
}
fn sx_comparable(c: &Comparable) -> String {
    match c {
        Comparable::Literal(l) => format!("(lit {})", sx_lit(l)),
        Comparable::Function(f) => format!("(fn {})", sx_tfun(f)),
        Comparable::SingularQuery(q) => {
            let (k, segs) = match q {
                SingularQuery::Current(s) => ("cur", s),
                SingularQuery::Root(s) => ("root", s),
            };
            format!(
                "(sq {}{})",
                k,
                segs.iter()
                    .map(|s| match s {
                        SingularQuerySegment::Index(i) => format!(" (i {})", i),
                        SingularQuerySegment::Name(n) => format!(" (n {})", sx_str(n)),
                    })
                    .collect::<String>()
            )
        }
    }
}
fn sx_test(t: &Test) -> String {
    match t {
        Test::RelQuery(l) => format!("(rel{})", l.iter().map(|s| format!(" {}", sx_segment(s))).collect::<String>()),
        Test::AbsQuery(q) => format!(
            "(abs{})",
            q.segments.iter().map(|s| format!(" {}", sx_segment(s))).collect::<String>()
        ),
        Test::Function(f) => format!("(tfn {})", sx_tfun(f)),
    }
}
fn sx_tfun(f: &TestFunction) -> String {
    match f {
        TestFunction::Custom(n, args) => format!(
            "(custom {}{})",
            sx_str(n),
            args.iter().map(|a| format!(" {}", sx_fnarg(a))).collect::<String>()
        ),
        TestFunction::Length(a) => format!("(length {})", sx_fnarg(a)),
        TestFunction::Value(a) => format!("(value {})", sx_fnarg(a)),
        TestFunction::Count(a) => format!("(count {})", sx_fnarg(a)),
        TestFunction::Search(a, b) => format!("(search {} {})", sx_fnarg(a), sx_fnarg(b)),
        TestFunction::Match(a, b) => format!("(match {} {})", sx_fnarg(a), sx_fnarg(b)),
    }
}
fn sx_fnarg(a: &FnArg) -> String {
    match a {
        FnArg::Literal(l) => format!("(argl {})", sx_lit(l)),
        FnArg::Test(t) => format!("(argt {})", sx_test(t)),
        FnArg::Filter(f) => format!("(argf {})", sx_filter(f)),
    }
}
pub fn sx_query(q: &JpQuery) -> String {
    format!("(q{})", q.segments.iter().map(|s| format!(" {}", sx_segment(s))).collect::<String>())
}

// ---------- case handlers ----------
fn run_eval(ast: &str, doc: &str) -> R<String> {
    let q = query_of(&sexp::parse(ast)?)?;
    let d = doc_of(&sexp::parse(doc)?)?;
    let mut index = HashMap::new();
    index_doc(&d, "$".to_string(), &mut index);
    Ok(match js_path_process(&q, &d) {
        Ok(res) => format!("OK\t{}", items(res, &index)),
        Err(_) => "ERR".to_string(),
    })
}

/// C10, patterns the Coq model of the dialect does not cover (Unicode categories, shorthand classes, deep nesting): match()
/// and search() of the crate over an array of subjects against the `regex` crate applied directly, with the whole-string
/// wrapper for match.  A differential test of the glue in test_function.rs only: both sides use the same regex engine.
fn run_rx(pattern: &str, doc: &str) -> R<String> {
    let p = cps_to_string(&sexp::parse(pattern)?)?;
    let d = doc_of(&sexp::parse(doc)?)?;
    let subjects = d.as_array().ok_or("array expected")?.clone();
    // the pattern as a string literal of the query: a backslash of the pattern is written twice
    let lit = p.replace('\\', "\\\\");
    let mut out = vec![];
    for (fname, full) in [("match", true), ("search", false)] {
        let q = format!("$[?{}(@, '{}')]", fname, lit);
        let got: Vec<usize> = match d.query_only_path(&q) {
            Ok(v) => v
                .iter()
                .filter_map(|path| path.trim_start_matches("$[").trim_end_matches(']').parse::<usize>().ok())
                .collect(),
            Err(_) => return Ok(format!("QERR\t{}", q)),
        };
        let alone = regex::Regex::new(&p);
        let re = if full { regex::Regex::new(&format!("^(?:{})$", p)) } else { regex::Regex::new(&p) };
        let want: Vec<usize> = match (alone, re) {
            (Ok(_), Ok(re)) => subjects
                .iter()
                .enumerate()
                .filter(|(_, s)| s.as_str().map_or(false, |t| re.is_match(t)))
                .map(|(i, _)| i)
                .collect(),
            _ => vec![],
        };
        if got != want {
            out.push(format!("{}: crate {:?} regex {:?}", fname, got, want));
        }
    }
    if out.is_empty() {
        Ok("OK".to_string())
    } else {
        Ok(format!("DIFF\t{}", out.join("; ")))
    }
}

/// query string through the three public entry points; they must agree position by position
fn run_e2e(query: &str, doc: &str) -> R<String> {
    let qs = cps_to_string(&sexp::parse(query)?)?;
    let d = doc_of(&sexp::parse(doc)?)?;
    let before = d.clone();
    let mut index = HashMap::new();
    index_doc(&d, "$".to_string(), &mut index);
    let with_path = d.query_with_path(&qs);
    let only_val = d.query(&qs);
    let only_path = d.query_only_path(&qs);
    let out = match (with_path, only_val, only_path) {
        (Ok(wp), Ok(vals), Ok(paths)) => {
            let agree = wp.len() == vals.len()
                && wp.len() == paths.len()
                && wp.iter().zip(vals.iter()).all(|(r, v)| std::ptr::eq(r.clone().val(), *v))
                && wp.iter().zip(paths.iter()).all(|(r, p)| &r.clone().path() == p);
            // a query parsed once gives the same result as parsing at every call
            let parsed = parse_json_path(&qs).map_err(|_| "parse twice".to_string())?;
            let again = js_path_process(&parsed, &d).map_err(|_| "process err".to_string())?;
            let agree2 = again == wp;
            let s = items(wp, &index);
            format!("OK\t{}\tentry={}\tparsed_once={}", s, agree as u8, agree2 as u8)
        }
        (Err(_), Err(_), Err(_)) => "ERR".to_string(),
        _ => "MIXED".to_string(),
    };
    if d != before {
        return Ok(format!("{}\tDOC_CHANGED", out));
    }
    Ok(out)
}

fn sx_doc(v: &Value) -> String {
    match v {
        Value::Null => "null".into(),
        Value::Bool(b) => format!("(b {})", *b as u8),
        Value::Number(n) => {
            if let Some(i) = n.as_i64() {
                format!("(i {})", i)
            } else if let Some(u) = n.as_u64() {
                format!("(i {})", u)
            } else {
                f64_parts(n.as_f64().unwrap_or(0.0)).replacen("(flt", "(f", 1)
            }
        }
        Value::String(s) => sx_str(s),
        Value::Array(a) => format!("(a{})", a.iter().map(|x| format!(" {}", sx_doc(x))).collect::<String>()),
        Value::Object(m) => format!(
            "(o{})",
            m.iter().map(|(k, x)| format!(" ({} {})", sx_str(k), sx_doc(x))).collect::<String>()
        ),
    }
}

/// reference(path): which node (by address); reference_mut(path): the document after `*v = repl`
fn run_ref(doc: &str, path: &str, repl: &str) -> R<String> {
    let d = doc_of(&sexp::parse(doc)?)?;
    let p = cps_to_string(&sexp::parse(path)?)?;
    let r = doc_of(&sexp::parse(repl)?)?;
    let mut index = HashMap::new();
    index_doc(&d, "$".to_string(), &mut index);
    let found = d.reference(p.clone()).map(|v| {
        index
            .get(&(v as *const Value as usize))
            .cloned()
            .unwrap_or_else(|| "FOREIGN".to_string())
    });
    let mut d2 = d.clone();
    let wrote = match d2.reference_mut(p.clone()) {
        Some(v) => {
            *v = r;
            true
        }
        None => false,
    };
    Ok(match (found, wrote) {
        (Some(loc), true) => format!("OK\t{}\t{}", loc, sx_doc(&d2)),
        (None, false) => format!("NONE\t-\t{}", sx_doc(&d2)),
        (a, b) => format!("MIXED\t{:?}\t{}", a, b),
    })
}

#[allow(dead_code)]
fn assert_send_sync<T: Send + Sync>() {}

type Obs = Result<Vec<(usize, String)>, ()>;
fn observe(doc: &Value, q: &str) -> Obs {
    match doc.query_with_path(q) {
        Ok(v) => Ok(v.into_iter().map(|r| (r.clone().val() as *const Value as usize, r.path())).collect()),
        Err(_) => Err(()),
    }
}
fn observe_prepared(doc: &Value, q: &JpQuery) -> Obs {
    match js_path_process(q, doc) {
        Ok(v) => Ok(v.into_iter().map(|r| (r.clone().val() as *const Value as usize, r.path())).collect()),
        Err(_) => Err(()),
    }
}

/// C12: histories, repetitions, parse-once, concurrent use of one parsed query and one document
#[cfg(not(feature = "sendsync"))]
fn run_hist(_ops: &str, _seed: &str) -> R<String> {
    Err("HIST needs the harness built with --features sendsync".into())
}

#[cfg(feature = "sendsync")]
fn run_hist(ops: &str, seed: &str) -> R<String> {
    // the parsed query and the error type can be shared between threads (compile-time fact)
    assert_send_sync::<JpQuery>();
    assert_send_sync::<jsonpath_rust::parser::errors::JsonPathError>();
    let ops = sexp::parse(ops)?;
    let items = list(&ops)?;
    let mut qs: Vec<String> = vec![];
    let mut docs: Vec<std::sync::Arc<Value>> = vec![];
    for it in &items[1..] {
        let kv = list(it)?;
        qs.push(cps_to_string(&kv[0])?);
        docs.push(std::sync::Arc::new(doc_of(&kv[1])?));
    }
    let n = qs.len();
    let snapshot: Vec<Value> = docs.iter().map(|d| (**d).clone()).collect();
    let baseline: Vec<Obs> = (0..n).map(|i| observe(&docs[i], &qs[i])).collect();
    // entry points agree
    for i in 0..n {
        let vals = docs[i].query(&qs[i]);
        let paths = docs[i].query_only_path(&qs[i]);
        match (&baseline[i], vals, paths) {
            (Ok(b), Ok(v), Ok(p)) => {
                if b.len() != v.len() || b.len() != p.len()
                    || !b.iter().zip(v.iter()).all(|(x, y)| x.0 == (*y as *const Value as usize))
                    || !b.iter().zip(p.iter()).all(|(x, y)| &x.1 == y)
                {
                    return Ok(format!("DIFF\tentry points disagree on op {}", i));
                }
            }
            (Err(_), Err(_), Err(_)) => {}
            _ => return Ok(format!("DIFF\tentry points disagree (Ok/Err) on op {}", i)),
        }
    }
    // sequential histories: permutations and repetitions
    let mut state: u64 = seed.parse::<u64>().unwrap_or(1) | 1;
    let mut next = move || {
        state ^= state << 13;
        state ^= state >> 7;
        state ^= state << 17;
        state
    };
    let perms = 40usize;
    for _ in 0..perms {
        let mut order: Vec<usize> = (0..n).collect();
        for i in (1..n).rev() {
            let j = (next() % (i as u64 + 1)) as usize;
            order.swap(i, j);
        }
        for &i in order.iter().chain(order.iter().rev()) {
            if observe(&docs[i], &qs[i]) != baseline[i] {
                return Ok(format!("DIFF\tresult of op {} depends on the history", i));
            }
        }
    }
    // parsed once == parsed at every call
    let mut prepared: Vec<Option<std::sync::Arc<JpQuery>>> = vec![];
    for i in 0..n {
        match parse_json_path(&qs[i]) {
            Ok(q) => {
                if observe_prepared(&docs[i], &q) != baseline[i] || observe_prepared(&docs[i], &q) != baseline[i] {
                    return Ok(format!("DIFF\tprepared query differs on op {}", i));
                }
                prepared.push(Some(std::sync::Arc::new(q)));
            }
            Err(_) => {
                if baseline[i].is_ok() {
                    return Ok(format!("DIFF\tparse succeeded once and failed once on op {}", i));
                }
                prepared.push(None);
            }
        }
    }
    // a parsed query is a value: on ANY document of the batch it gives what its string gives there (what the string gives
    // is computed first, sequentially; a memo kept inside the parsed query or keyed by an address shows up as a difference)
    let cross: Vec<Vec<Obs>> = (0..n).map(|i| (0..n).map(|j| observe(&docs[j], &qs[i])).collect()).collect();
    for i in 0..n {
        if let Some(q) = &prepared[i] {
            for k in 0..n {
                let j = (i + k) % n;
                if observe_prepared(&docs[j], q) != cross[i][j] {
                    return Ok(format!("DIFF\tthe parsed query of op {} differs from its string on the document of op {}", i, j));
                }
            }
            for k in (0..n).rev() {
                let j = (i + k) % n;
                if observe_prepared(&docs[j], q) != cross[i][j] {
                    return Ok(format!("DIFF\tthe parsed query of op {} differs from its string on the document of op {} (second pass)", i, j));
                }
            }
        }
    }
    // many threads share each parsed query and each document
    let threads = 16usize;
    let iters = 60usize;
    let baseline = std::sync::Arc::new(baseline);
    let cross = std::sync::Arc::new(cross);
    let prepared = std::sync::Arc::new(prepared);
    let docs = std::sync::Arc::new(docs);
    let mut handles = vec![];
    for t in 0..threads {
        let (baseline, cross, prepared, docs) = (baseline.clone(), cross.clone(), prepared.clone(), docs.clone());
        handles.push(std::thread::spawn(move || -> Option<usize> {
            for it in 0..iters {
                for k in 0..n {
                    let i = (k * (t + 1) + it) % n;
                    if let Some(q) = &prepared[i] {
                        if observe_prepared(&docs[i], q) != baseline[i] {
                            return Some(i);
                        }
                        // the same parsed query on another document of the batch, while other threads do the same
                        let j = (i + t + it) % n;
                        if it % 4 == 0 && observe_prepared(&docs[j], q) != cross[i][j] {
                            return Some(i);
                        }
                    }
                }
            }
            None
        }));
    }
    for h in handles {
        match h.join() {
            Ok(None) => {}
            Ok(Some(i)) => return Ok(format!("DIFF\tconcurrent evaluation of op {} differs from the sequential one", i)),
            Err(_) => return Ok("DIFF\ta worker thread panicked".to_string()),
        }
    }
    for i in 0..n {
        if *docs[i] != snapshot[i] {
            return Ok(format!("DIFF\tdocument of op {} was changed", i));
        }
    }
    // a digest of what each operation returned in this process (paths only: addresses differ between processes)
    let digest: Vec<String> = baseline
        .iter()
        .map(|o| match o {
            Ok(v) => {
                let mut h: u64 = 1469598103934665603;
                for (_, p) in v {
                    for b in p.bytes().chain(std::iter::once(0u8)) {
                        h ^= b as u64;
                        h = h.wrapping_mul(1099511628211);
                    }
                }
                format!("{}:{:x}", v.len(), h)
            }
            Err(_) => "E".to_string(),
        })
        .collect();
    Ok(format!("OK\tops={} perms={} threads={} iters={}\t{}", n, perms, threads, iters, digest.join(",")))
}

/// C08: a query string against a document through every public entry point.
/// PARSE_ERR = the string is rejected; OK = parsed and evaluated; EVAL_ERR = parsed but evaluation
/// returned Err (forbidden: the only source of Err is an invalid query string).
fn run_rob(query: &str, doc: &str) -> R<String> {
    let qs = cps_to_string(&sexp::parse(query)?)?;
    let d = doc_of(&sexp::parse(doc)?)?;
    let parsed = parse_json_path(&qs);
    let via_api = d.query_with_path(&qs).map(|v| v.len());
    let _ = d.query(&qs);
    let _ = d.query_only_path(&qs);
    let _ = d.reference(qs.clone());
    let mut d2 = d.clone();
    let _ = d2.reference_mut(qs.clone());
    Ok(match parsed {
        Err(_) => {
            if via_api.is_ok() {
                "MIXED".to_string()
            } else {
                "PARSE_ERR".to_string()
            }
        }
        Ok(q) => match js_path_process(&q, &d) {
            Ok(res) => {
                if via_api != Ok(res.len()) {
                    "MIXED".to_string()
                } else {
                    format!("OK\t{}", res.len())
                }
            }
            Err(_) => "EVAL_ERR".to_string(),
        },
    })
}

/// a programmatically built query (integers in the I-JSON range) against a document
fn run_robast(ast: &str, doc: &str) -> R<String> {
    let q = query_of(&sexp::parse(ast)?)?;
    let d = doc_of(&sexp::parse(doc)?)?;
    Ok(match js_path_process(&q, &d) {
        Ok(res) => format!("OK\t{}", res.len()),
        Err(_) => "EVAL_ERR".to_string(),
    })
}

fn run_parse(query: &str) -> R<String> {
    let qs = cps_to_string(&sexp::parse(query)?)?;
    Ok(match parse_json_path(&qs) {
        Ok(q) => format!("OK\t{}", sx_query(&q)),
        Err(_) => "ERR".to_string(),
    })
}

/// All cases run on one worker thread with a fixed 8 MiB stack (the default size of a main thread on Linux), so that
/// what a deep query does to the stack does not depend on the `ulimit -s` of the environment the check runs in.
fn main() {
    let worker = std::thread::Builder::new()
        .name("cases".into())
        .stack_size(8 << 20)
        .spawn(main_loop)
        .expect("spawn worker");
    if worker.join().is_err() {
        std::process::abort();
    }
}

fn main_loop() {
    std::panic::set_hook(Box::new(|_| {}));
    let stdin = io::stdin();
    let stdout = io::stdout();
    let mut out = io::BufWriter::new(stdout.lock());
    for line in stdin.lock().lines() {
        let line = match line {
            Ok(l) => l,
            Err(_) => break,
        };
        if line.is_empty() {
            continue;
        }
        let f: Vec<&str> = line.split('\t').collect();
        if f.len() < 2 {
            continue;
        }
        let id = f[1];
        // announce the case first so that an abort (stack overflow) is attributable
        writeln!(out, "{}\tI\tBEGIN", id).ok();
        out.flush().ok();
        let res = catch_unwind(AssertUnwindSafe(|| match (f[0], f.len()) {
            ("EVAL", 4) => run_eval(f[2], f[3]),
            ("E2E", 4) => run_e2e(f[2], f[3]),
            ("RX", 4) => run_rx(f[2], f[3]),
            ("PARSE", 3) => run_parse(f[2]),
            ("REF", 5) => run_ref(f[2], f[3], f[4]),
            ("HIST", 4) => run_hist(f[2], f[3]),
            ("ROB", 4) => run_rob(f[2], f[3]),
            ("ROBAST", 4) => run_robast(f[2], f[3]),
            ("GEN", 4) => second::run_gen(f[2], f[3]),
            ("GENU", 4) => second::run_genu(f[2], f[3]),
            ("GENS", 4) => second::run_gens(f[2], f[3]),
            _ => Err(format!("unknown case kind {}", f[0])),
        }));
        match res {
            Ok(Ok(s)) => writeln!(out, "{}\tI\t{}", id, s).ok(),
            Ok(Err(e)) => writeln!(out, "{}\tI\tBADCASE\t{}", id, e).ok(),
            Err(_) => writeln!(out, "{}\tI\tPANIC", id).ok(),
        };
    }
    out.flush().ok();
}
