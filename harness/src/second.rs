//! placeholder for the second Queryable implementation (C15), filled in later
pub fn run_gen(_ast: &str, _doc: &str) -> Result<String, String> {
    Err("GEN not implemented".into())
}
