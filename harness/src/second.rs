//! A second, independent implementation of the `Queryable` trait (C15): a JSON-like tree that is
//! NOT serde_json::Value — objects are vectors of (name, value) pairs kept in name order, numbers
//! keep their integer/float kind like serde_json does.  Queries are evaluated over it with the
//! crate's generic engine and the result is compared with the evaluation over serde_json::Value.
use crate::sexp::{self, Sexp};
use jsonpath_rust::query::js_path_process;
use jsonpath_rust::query::queryable::Queryable;
use jsonpath_rust::JsonPath;
use serde_json::Value;
use std::borrow::Cow;
use std::collections::HashMap;
use std::sync::atomic::{AtomicBool, Ordering};

/// Two faithful styles of the numeric accessors (the trait does not say which): serde-like, where
/// `as_f64` answers for every number, and disjoint, where `as_f64` answers only for floats (and for
/// integers that do not fit an i64) and `as_i64` for integers.  Every case runs under both.
static DISJOINT: AtomicBool = AtomicBool::new(false);

#[derive(Debug, Clone, PartialEq)]
pub enum V {
    Null,
    Bool(bool),
    Int(i64),
    UInt(u64),
    Float(f64),
    Str(String),
    Arr(Vec<V>),
    Obj(Vec<(String, V)>),
}

/// The trait asks for `Default` but says nothing about its value: a faithful implementation may
/// return anything.  The engine must use `Queryable::null()` when it means null.
impl Default for V {
    fn default() -> Self {
        V::Arr(vec![V::Int(42)])
    }
}

impl From<&str> for V {
    fn from(s: &str) -> Self {
        V::Str(s.to_string())
    }
}
impl From<String> for V {
    fn from(s: String) -> Self {
        V::Str(s)
    }
}
impl From<bool> for V {
    fn from(b: bool) -> Self {
        V::Bool(b)
    }
}
impl From<i64> for V {
    fn from(i: i64) -> Self {
        V::Int(i)
    }
}
impl From<f64> for V {
    fn from(f: f64) -> Self {
        if f.is_finite() {
            V::Float(f)
        } else {
            V::Null
        }
    }
}
impl From<Vec<V>> for V {
    fn from(v: Vec<V>) -> Self {
        V::Arr(v)
    }
}

impl V {
    fn arr(&self) -> Option<&Vec<V>> {
        match self {
            V::Arr(a) => Some(a),
            _ => None,
        }
    }
}

impl Queryable for V {
    fn get(&self, key: &str) -> Option<&Self> {
        let key = if key.starts_with('\'') && key.ends_with('\'') {
            key.trim_matches(|c| c == '\'')
        } else if key.starts_with('"') && key.ends_with('"') {
            key.trim_matches(|c| c == '"')
        } else {
            key
        };
        match self {
            V::Obj(m) => m.iter().find(|(k, _)| k == key).map(|(_, v)| v),
            _ => None,
        }
    }
    fn as_array(&self) -> Option<&Vec<Self>> {
        self.arr()
    }
    fn as_object(&self) -> Option<Vec<(&String, &Self)>> {
        match self {
            V::Obj(m) => Some(m.iter().map(|(k, v)| (k, v)).collect()),
            _ => None,
        }
    }
    fn as_str(&self) -> Option<&str> {
        match self {
            V::Str(s) => Some(s.as_str()),
            _ => None,
        }
    }
    fn as_i64(&self) -> Option<i64> {
        match self {
            V::Int(i) => Some(*i),
            V::UInt(u) => i64::try_from(*u).ok(),
            _ => None,
        }
    }
    fn as_f64(&self) -> Option<f64> {
        match self {
            V::Int(i) => {
                if DISJOINT.load(Ordering::Relaxed) {
                    None
                } else {
                    Some(*i as f64)
                }
            }
            V::UInt(u) => {
                if DISJOINT.load(Ordering::Relaxed) && i64::try_from(*u).is_ok() {
                    None
                } else {
                    Some(*u as f64)
                }
            }
            V::Float(f) => Some(*f),
            _ => None,
        }
    }
    fn as_bool(&self) -> Option<bool> {
        match self {
            V::Bool(b) => Some(*b),
            _ => None,
        }
    }
    fn null() -> Self {
        V::Null
    }
    fn extension_custom(name: &str, args: Vec<Cow<Self>>) -> Self {
        let two = |f: &dyn Fn(&V, &V) -> V| match args.as_slice() {
            [l, r] => f(l.as_ref(), r.as_ref()),
            _ => V::Null,
        };
        match name {
            "in" => two(&|l, r| r.arr().map(|e| V::Bool(e.iter().any(|x| x == l))).unwrap_or(V::Null)),
            "nin" => two(&|l, r| r.arr().map(|e| V::Bool(!e.iter().any(|x| x == l))).unwrap_or(V::Null)),
            "none_of" => two(&|l, r| match (l.arr(), r.arr()) {
                (Some(a), Some(b)) => V::Bool(a.iter().all(|x| !b.iter().any(|y| x == y))),
                _ => V::Null,
            }),
            "any_of" => two(&|l, r| match (l.arr(), r.arr()) {
                (Some(a), Some(b)) => V::Bool(a.iter().any(|x| b.iter().any(|y| x == y))),
                _ => V::Null,
            }),
            "subset_of" => two(&|l, r| match (l.arr(), r.arr()) {
                (Some(a), Some(b)) => V::Bool(a.iter().all(|x| b.iter().any(|y| x == y))),
                _ => V::Null,
            }),
            _ => V::Null,
        }
    }
}

fn to_v(v: &Value) -> V {
    match v {
        Value::Null => V::Null,
        Value::Bool(b) => V::Bool(*b),
        Value::Number(n) => {
            if let Some(i) = n.as_i64() {
                V::Int(i)
            } else if let Some(u) = n.as_u64() {
                V::UInt(u)
            } else {
                V::Float(n.as_f64().unwrap_or(0.0))
            }
        }
        Value::String(s) => V::Str(s.clone()),
        Value::Array(a) => V::Arr(a.iter().map(to_v).collect()),
        Value::Object(m) => V::Obj(m.iter().map(|(k, x)| (k.clone(), to_v(x))).collect()),
    }
}

fn cps(s: &str) -> String {
    s.chars().map(|c| (c as u32).to_string()).collect::<Vec<_>>().join(".")
}

fn index_v<'a>(v: &'a V, loc: String, out: &mut HashMap<usize, String>) {
    out.insert(v as *const V as usize, loc.clone());
    match v {
        V::Arr(a) => {
            for (i, e) in a.iter().enumerate() {
                index_v(e, format!("{}/i:{}", loc, i), out);
            }
        }
        V::Obj(m) => {
            for (k, e) in m.iter() {
                index_v(e, format!("{}/n:{}", loc, cps(k)), out);
            }
        }
        _ => {}
    }
}

/// evaluates the AST over both representations of the same document
pub fn run_gen(ast: &str, doc: &str) -> Result<String, String> {
    let q = crate::query_of(&sexp::parse(ast)?)?;
    let d: Value = crate::doc_of(&sexp::parse(doc)?)?;
    let v = to_v(&d);
    let mut index = HashMap::new();
    index_v(&v, "$".to_string(), &mut index);
    let mut vindex = HashMap::new();
    crate::index_doc(&d, "$".to_string(), &mut vindex);
    // the disjoint style first: its result must be the same as the serde-like one and as Value's
    DISJOINT.store(true, Ordering::Relaxed);
    let r2 = js_path_process(&q, &v).map(|rs| {
        rs.into_iter()
            .map(|r| {
                let path = r.clone().path();
                (r.val() as *const V as usize, path)
            })
            .collect::<Vec<_>>()
    });
    DISJOINT.store(false, Ordering::Relaxed);
    let rv = js_path_process(&q, &v);
    let rd = js_path_process(&q, &d);
    match (rv, rd) {
        (Ok(rv), Ok(rd)) => {
            let styles_agree = match &r2 {
                Ok(r2) => {
                    r2.len() == rv.len()
                        && r2.iter().zip(rv.iter()).all(|((a, p), r)| *a == (r.clone().val() as *const V as usize) && *p == r.clone().path())
                }
                Err(_) => false,
            };
            let items: Vec<(String, String)> = rv
                .into_iter()
                .map(|r| {
                    let path = r.clone().path();
                    let val = r.val();
                    (
                        index.get(&(val as *const V as usize)).cloned().unwrap_or_else(|| "FOREIGN".to_string()),
                        path,
                    )
                })
                .collect();
            let ditems: Vec<(String, String)> = rd
                .into_iter()
                .map(|r| {
                    let path = r.clone().path();
                    let val = r.val();
                    (
                        vindex.get(&(val as *const Value as usize)).cloned().unwrap_or_else(|| "FOREIGN".to_string()),
                        path,
                    )
                })
                .collect();
            let same = items == ditems && styles_agree;
            Ok(format!(
                "OK\t{}\tsame={}",
                items.iter().map(|(l, p)| format!("{}|{}", l, cps(p))).collect::<Vec<_>>().join(" "),
                same as u8
            ))
        }
        (Err(_), Err(_)) => Ok("ERR".to_string()),
        _ => Ok("MIXED".to_string()),
    }
}


/// builds the second representation directly from the S-expression of a document, keeping the members of every
/// object in the order they are written (a `Queryable` is free to present members in any order; equality of
/// objects must not depend on it, wildcards and descendants must follow it)
fn v_of_sexp(s: &Sexp) -> Result<V, String> {
    let (tag, args) = crate::head(s)?;
    Ok(match (tag, args.len()) {
        ("null", 0) => V::Null,
        ("nz", 0) => V::Float(-0.0),
        ("b", 1) => V::Bool(crate::boolean(&args[0])?),
        ("i", 1) => {
            let a = crate::atom(&args[0])?;
            if let Ok(i) = a.parse::<i64>() {
                V::Int(i)
            } else {
                V::UInt(a.parse::<u64>().map_err(|e| e.to_string())?)
            }
        }
        ("f", 2) => {
            let f = crate::dyadic(crate::int(&args[0])?, crate::int(&args[1])?);
            if !f.is_finite() {
                return Err("non-finite float".into());
            }
            V::Float(f)
        }
        ("s", _) => V::Str(crate::cps_to_string(s)?),
        ("a", _) => V::Arr(args.iter().map(v_of_sexp).collect::<Result<Vec<_>, String>>()?),
        ("o", _) => {
            let mut m = Vec::new();
            for kv in args {
                let kv = crate::list(kv)?;
                if kv.len() != 2 {
                    return Err("member".into());
                }
                m.push((crate::cps_to_string(&kv[0])?, v_of_sexp(&kv[1])?));
            }
            V::Obj(m)
        }
        _ => return Err(format!("doc: {}", tag)),
    })
}

/// evaluates the AST over the second representation only, members in the order given (no serde_json::Value involved)
pub fn run_genu(ast: &str, doc: &str) -> Result<String, String> {
    let q = crate::query_of(&sexp::parse(ast)?)?;
    let v = v_of_sexp(&sexp::parse(doc)?)?;
    let mut index = HashMap::new();
    index_v(&v, "$".to_string(), &mut index);
    let run = |disjoint: bool| {
        DISJOINT.store(disjoint, Ordering::Relaxed);
        let r = js_path_process(&q, &v).map(|rs| {
            rs.into_iter()
                .map(|r| {
                    let path = r.clone().path();
                    (
                        index.get(&(r.val() as *const V as usize)).cloned().unwrap_or_else(|| "FOREIGN".to_string()),
                        path,
                    )
                })
                .collect::<Vec<_>>()
        });
        DISJOINT.store(false, Ordering::Relaxed);
        r
    };
    match (run(true), run(false)) {
        (Ok(a), Ok(b)) => Ok(format!(
            "OK\t{}\tsame={}",
            b.iter().map(|(l, p)| format!("{}|{}", l, cps(p))).collect::<Vec<_>>().join(" "),
            (a == b) as u8
        )),
        (Err(_), Err(_)) => Ok("ERR".to_string()),
        _ => Ok("MIXED".to_string()),
    }
}


/// the public string API over the second representation: `JsonPath` is implemented with its provided methods only, as
/// any user type would
impl JsonPath for V {}

/// evaluates the query STRING through the three entry points of `JsonPath` over the second representation and over
/// serde_json::Value; reports the former, with same=1 when all agree (both styles of the second representation, the
/// three entry points, and Value)
pub fn run_gens(text: &str, doc: &str) -> Result<String, String> {
    let text = crate::cps_to_string(&sexp::parse(text)?)?;
    let d: Value = crate::doc_of(&sexp::parse(doc)?)?;
    let v = to_v(&d);
    let mut index = HashMap::new();
    index_v(&v, "$".to_string(), &mut index);
    let mut vindex = HashMap::new();
    crate::index_doc(&d, "$".to_string(), &mut vindex);
    let run = |disjoint: bool| -> Result<(Vec<(String, String)>, bool), ()> {
        DISJOINT.store(disjoint, Ordering::Relaxed);
        let r = (|| {
            let wp = v.query_with_path(&text).map_err(|_| ())?;
            let items: Vec<(String, String)> = wp
                .into_iter()
                .map(|r| {
                    let path = r.clone().path();
                    (index.get(&(r.val() as *const V as usize)).cloned().unwrap_or_else(|| "FOREIGN".to_string()), path)
                })
                .collect();
            let vals = v.query(&text).map_err(|_| ())?;
            let paths = v.query_only_path(&text).map_err(|_| ())?;
            let entry = vals.len() == items.len()
                && paths.len() == items.len()
                && vals.iter().zip(items.iter()).all(|(x, (l, _))| index.get(&(*x as *const V as usize)) == Some(l))
                && paths.iter().zip(items.iter()).all(|(p, (_, q))| p == q);
            Ok((items, entry))
        })();
        DISJOINT.store(false, Ordering::Relaxed);
        r
    };
    let dv: Result<Vec<(String, String)>, ()> = d.query_with_path(&text).map_err(|_| ()).map(|rs| {
        rs.into_iter()
            .map(|r| {
                let path = r.clone().path();
                (vindex.get(&(r.val() as *const Value as usize)).cloned().unwrap_or_else(|| "FOREIGN".to_string()), path)
            })
            .collect()
    });
    match (run(true), run(false), dv) {
        (Ok((a, ea)), Ok((b, eb)), Ok(dvi)) => Ok(format!(
            "OK\t{}\tsame={}",
            b.iter().map(|(l, p)| format!("{}|{}", l, cps(p))).collect::<Vec<_>>().join(" "),
            (a == b && b == dvi && ea && eb) as u8
        )),
        (Err(_), Err(_), Err(_)) => Ok("PARSE_ERR".to_string()),
        _ => Ok("MIXED".to_string()),
    }
}

#[allow(dead_code)]
fn _unused(_: &Sexp) {}
