#[derive(Debug, Clone)]
pub enum Sexp {
    A(String),
    L(Vec<Sexp>),
}

pub fn parse(s: &str) -> Result<Sexp, String> {
    let b = s.as_bytes();
    let mut pos = 0usize;
    let r = item(b, &mut pos)?;
    skip(b, &mut pos);
    if pos != b.len() {
        return Err("sexp: trailing".into());
    }
    Ok(r)
}
fn skip(b: &[u8], pos: &mut usize) {
    while *pos < b.len() && b[*pos] == b' ' {
        *pos += 1;
    }
}
fn item(b: &[u8], pos: &mut usize) -> Result<Sexp, String> {
    // iterative on nesting would be nicer; documents and queries here are shallow
    skip(b, pos);
    if *pos >= b.len() {
        return Err("sexp: eof".into());
    }
    if b[*pos] == b'(' {
        *pos += 1;
        let mut items = vec![];
        loop {
            skip(b, pos);
            if *pos >= b.len() {
                return Err("sexp: unclosed".into());
            }
            if b[*pos] == b')' {
                *pos += 1;
                return Ok(Sexp::L(items));
            }
            items.push(item(b, pos)?);
        }
    } else {
        let st = *pos;
        while *pos < b.len() && b[*pos] != b' ' && b[*pos] != b'(' && b[*pos] != b')' {
            *pos += 1;
        }
        Ok(Sexp::A(String::from_utf8_lossy(&b[st..*pos]).to_string()))
    }
}
