(* FragParse.v — C06 for the filter-free sublanguage: every query made of child and descendant
   segments with name (quoted or shorthand), wildcard, index and slice selectors and unions of
   them, in its canonical compact spelling, is read by the generated grammar (PEG interpreter) as
   the pair tree defined here.  FragBuild.v turns that tree into the AST. *)
From Coq Require Import List Arith NArith ZArith Bool Lia.
From JP Require Import Base Ast Peg PegFacts NormPath NormPathFacts Dec2Bin Known NpParse.
From JP.gen Require Import Grammar.
Import ListNotations.
Local Open Scope nat_scope.

(* ---------- deterministic symbolic execution (no backtracking over compound expressions) ---------- *)
Ltac red_res := cbn [call_result seq_result rep_result reptail_result alt_result opt_result not_result and_result skip_result
                        call_atomicity emits]; cbv beta iota.
Ltac decide_eqb :=
  repeat match goal with
         | |- context [Nat.eqb ?x ?y] =>
             first [ replace (Nat.eqb x y) with false by (symmetry; apply Nat.eqb_neq; cbn [length]; lia)
                   | replace (Nat.eqb x y) with true by (symmetry; apply Nat.eqb_eq; cbn [length]; lia) ]
         end.

Ltac pegd :=
  first
    [ peg_hook
    | lazymatch goal with
      | |- _ = _ /\ _ = _ => split; reflexivity
      | |- Runs _ _ (EStr _) _ _ _ _ =>
          first [ eapply runs_str_ok; solve [solve_chars] | eapply runs_str_fail; solve [solve_chars] ]
      | |- Runs _ _ (ERange _ _) _ (_ :: _) _ _ =>
          first [ eapply runs_range_ok; solve [solve_chars] | eapply runs_range_fail; solve [solve_chars] ]
      | |- Runs _ _ (ERange _ _) _ [] _ _ => eapply runs_range_nil
      | |- Runs _ _ ESoi _ _ _ _ => eapply runs_soi
      | |- Runs _ _ EEoi _ [] _ _ => eapply runs_eoi_ok
      | |- Runs _ _ EEoi _ (_ :: _) _ _ => eapply runs_eoi_fail
      | |- Runs _ _ ESkip _ _ _ _ =>
          eapply runs_skip; cbv beta iota; change (g_ws grammar) with R_WHITESPACE; pegd
      | |- Runs _ _ (ESeq _ _) _ _ _ _ => eapply runs_seq; [pegd|red_res; pegd|red_res; pegd]
      | |- Runs _ _ (EAlt _ _) _ _ _ _ => eapply runs_alt; [pegd|red_res; pegd]
      | |- Runs _ _ (EOpt _) _ _ _ _ => eapply runs_opt; pegd
      | |- Runs _ _ (ERep _) _ _ _ _ => eapply runs_rep; [pegd|red_res; pegd]
      | |- Runs _ _ (ERepTail _) _ _ _ _ =>
          eapply runs_reptail; [pegd|red_res; pegd|red_res; decide_eqb; cbv beta iota; pegd]
      | |- Runs _ _ (ENot _) _ _ _ _ => eapply runs_not; pegd
      | |- Runs _ _ (EAnd _) _ _ _ _ => eapply runs_and; pegd
      | |- Runs _ _ (ECall ?r) _ _ _ _ =>
          (* the rule body is supplied in normal form (the kernel would otherwise re-reduce the grammar at every step) *)
          let kb := eval cbv in (rule_of r) in
          lazymatch kb with
          | (?k, ?b) => eapply (@runs_call _ grammar _ r k b); [reflexivity|cbn [call_atomicity]; pegd]
          end
      end ].

(* ---------- integers ---------- *)
Definition int_text (z : Z) : str :=
  if Z.ltb z 0 then 45%N :: dec_of_N (Z.to_N (- z)) else dec_of_N (Z.to_N z).

Lemma digit_stop' c rest pos :
  is_digit c = false -> RunsG 3 (ECall R_DIGIT) AAtomic (c :: rest) pos Fail.
Proof.
  intros H. unfold is_digit in H.
  assert (Hc : (c < 48 \/ 57 < c)%N).
  { destruct (N.leb_spec 48 c); destruct (N.leb_spec c 57); cbn in H; try discriminate; lia. }
  destruct Hc; peg_upto.
Qed.

Lemma digit_stop_nil pos : RunsG 3 (ECall R_DIGIT) AAtomic [] pos Fail.
Proof. peg_upto. Qed.

Definition non_digit_head (s : str) : Prop := match s with c :: _ => is_digit c = false | [] => True end.

Lemma digits_body' ds stop pos :
  forallb is_digit ds = true -> non_digit_head stop ->
  RunsG (6 + length ds) (ERep (ECall R_DIGIT)) AAtomic (ds ++ stop) pos (Ok stop (pos + length ds) []).
Proof.
  intros Hd Hs. eapply runs_conv.
  - eapply (runs_rep_chars _ grammar 3 (ECall R_DIGIT) is_digit).
    + intros c r p Hc. apply digit_ok. exact Hc.
    + exact Hd.
    + destruct stop as [|c r]; [apply digit_stop_nil|apply digit_stop'; exact Hs].
  - lia.
  - reflexivity.
Qed.

(* nonzero numbers print with a nonzero first digit *)
Lemma dec_of_N_pos n : (0 < n)%N ->
  exists d r, dec_of_N n = d :: r /\ (49 <= d <= 57)%N /\ forallb is_digit r = true.
Proof.
  intros Hn. destruct (dec_of_N_spec n) as [Hd [_ Hz]].
  destruct (dec_of_N n) as [|d r]; [destruct Hz|]. exists d, r. split; [reflexivity|].
  cbn [forallb] in Hd. apply andb_true_iff in Hd. destruct Hd as [Hd Hr].
  apply is_digit_bounds in Hd. cbn [no_lead_zero] in Hz. split; [|exact Hr].
  destruct (N.eq_dec d 48) as [E|E]; [destruct (Hz E); lia|lia].
Qed.

Ltac peg_hook ::=
  lazymatch goal with
  | |- Runs _ _ (ECall R_WHITESPACE) AAtomic _ _ _ => apply ws_fail; solve_not_ws
  | |- Runs _ _ (ECall R_S) _ _ _ _ => apply S_none; solve_not_ws
  | |- Runs _ _ (ERep (ECall R_single_quoted)) AAtomic (_ ++ 39%N :: _) _ _ => apply single_quoted_body; assumption
  | |- Runs _ _ (ERep (ECall R_DIGIT)) AAtomic (_ ++ _) _ _ => apply digits_body'; assumption
  | |- Runs _ _ (ECall R_string) _ (39%N :: _ ++ 39%N :: _) _ _ => apply string_single; assumption
  end.

Lemma int_runs z stop pos a :
  non_digit_head stop ->
  RunsG (20 + length (int_text z)) (ECall R_int) a (int_text z ++ stop) pos
        (Ok stop (pos + length (int_text z))
            (if emits a then [Pair R_int pos (pos + length (int_text z)) []] else [])).
Proof.
  intros Hs. unfold int_text. destruct (Z.ltb_spec z 0) as [Hneg|Hpos].
  - destruct (dec_of_N_pos (Z.to_N (- z))) as [d [r [E [Hd Hr]]]]; [lia|]. rewrite E.
    cbn [app]. peg_upto.
  - destruct (Z.eq_dec z 0) as [->|Hnz].
    + change (dec_of_N (Z.to_N 0)) with [48%N]. cbn [app].
      destruct stop as [|c r]; [peg_upto|]. cbn [non_digit_head] in Hs. peg_upto.
    + destruct (dec_of_N_pos (Z.to_N z)) as [d [r [E [Hd Hr]]]]; [lia|]. rewrite E.
      cbn [app]. peg_upto.
Qed.

Lemma int_text_head z : exists h t, int_text z = h :: t /\ (h = 45%N \/ is_digit h = true).
Proof.
  unfold int_text. destruct (Z.ltb z 0).
  - eexists _, _. split; [reflexivity|left; reflexivity].
  - destruct (dec_of_N_spec (Z.to_N z)) as [Hd [_ Hz]].
    destruct (dec_of_N (Z.to_N z)) as [|d r]; [destruct Hz|]. exists d, r. split; [reflexivity|right].
    cbn [forallb] in Hd. apply andb_true_iff in Hd. apply Hd.
Qed.

Lemma not_ws_int z stop : not_ws (int_text z ++ stop).
Proof.
  destruct (int_text_head z) as [h [t [E Hh]]]. rewrite E. cbn [app not_ws].
  destruct Hh as [->|Hh]; [repeat split; lia|]. apply is_digit_bounds in Hh. repeat split; lia.
Qed.

Lemma match_str_int_none c0 lit z stop :
  c0 <> 45%N -> is_digit c0 = false -> match_str (c0 :: lit) (int_text z ++ stop) = None.
Proof.
  intros H45 Hd. destruct (int_text_head z) as [h [t [E Hh]]]. rewrite E. cbn [app match_str].
  destruct (N.eqb_spec c0 h) as [->|_]; [|reflexivity].
  destruct Hh as [->|Hh]; [contradiction|congruence].
Qed.

Ltac solve_not_ws ::=
  solve [assumption | apply not_ws_int | cbn [not_ws]; repeat split; lia | exact I].

Ltac peg_hook ::=
  lazymatch goal with
  | |- Runs _ _ (ECall R_WHITESPACE) AAtomic _ _ _ => apply ws_fail; solve_not_ws
  | |- Runs _ _ (ECall R_S) _ _ _ _ => apply S_none; solve_not_ws
  | |- Runs _ _ (ERep (ECall R_single_quoted)) AAtomic (_ ++ 39%N :: _) _ _ => apply single_quoted_body; assumption
  | |- Runs _ _ (ERep (ECall R_DIGIT)) AAtomic (_ ++ _) _ _ => apply digits_body'; assumption
  | |- Runs _ _ (ECall R_string) _ (39%N :: _ ++ 39%N :: _) _ _ => apply string_single; assumption
  | |- Runs _ _ (ECall R_int) _ (int_text _ ++ _) _ _ => apply int_runs; solve [assumption | reflexivity | exact I]
  | |- Runs _ _ (EStr (_ :: _)) _ (int_text _ ++ _) _ _ =>
      eapply runs_str_fail; apply match_str_int_none; [discriminate|reflexivity]
  end.

(* ---------- selectors ---------- *)
Inductive fsel := FName (k : str) | FWild | FIndex (i : Z) | FSlice (a b c : option Z).

Definition oint (o : option Z) : str := match o with Some z => int_text z | None => [] end.
Definition sel_text (s : fsel) : str :=
  match s with
  | FName k => 39%N :: k ++ [39%N]
  | FWild => [42%N]
  | FIndex i => int_text i
  | FSlice a b c => oint a ++ 58%N :: oint b ++ match c with Some z => 58%N :: int_text z | None => [] end
  end.

Definition int_pair (st : nat) (z : Z) : pair rname := Pair R_int st (st + length (int_text z)) [].
Definition slice_kids (pos : nat) (a b c : option Z) : list (pair rname) :=
  let p1 := pos + length (oint a) + 1 in
  let p2 := p1 + length (oint b) in
  match a with Some z => [Pair R_start pos (pos + length (int_text z)) [int_pair pos z]] | None => [] end
  ++ match b with Some z => [Pair R_end p1 (p1 + length (int_text z)) [int_pair p1 z]] | None => [] end
  ++ match c with Some z => [Pair R_step p2 (p2 + 1 + length (int_text z)) [int_pair (p2 + 1) z]] | None => [] end.

Definition sel_pair (pos : nat) (s : fsel) : pair rname :=
  let en := pos + length (sel_text s) in
  match s with
  | FName k => Pair R_selector pos en [Pair R_name_selector pos en [Pair R_string pos en []]]
  | FWild => Pair R_selector pos en [Pair R_wildcard_selector pos en []]
  | FIndex i => Pair R_selector pos en [Pair R_index_selector pos en [Pair R_int pos en []]]
  | FSlice a b c => Pair R_selector pos en [Pair R_slice_selector pos en (slice_kids pos a b c)]
  end.

Definition sel_ok (s : fsel) : Prop :=
  match s with FName k => forallb plain_char k = true | _ => True end.

(* the character after a selector inside brackets *)
Definition sel_stop (c : N) : Prop := c = 44%N \/ c = 93%N.

Ltac norm_len := repeat (rewrite !app_length || cbn [length app emits oint]).
Ltac res_eq ::=
  norm_len;
  repeat match goal with |- context [emits ?a] => is_var a; destruct a; cbn [emits] end;
  repeat (f_equal; try lia); try reflexivity; try lia.
(* the fuel bound is a tree of max over small terms: split it instead of giving lia all the max at once *)
Lemma le_S_add t k L : t <= k + L -> S t <= S k + L.
Proof. lia. Qed.
Ltac bound :=
  norm_len;
  repeat lazymatch goal with
         | |- Nat.max _ _ <= _ => apply Nat.max_lub
         | |- S _ <= S _ + _ => apply le_S_add
         | |- S _ <= S _ => apply le_n_S
         end;
  lia.
Ltac pegd_upto := eapply runs_conv; [pegd|bound|red_res; decide_eqb; cbv beta iota; res_eq].


Lemma selector_runs s c rest pos :
  sel_ok s -> sel_stop c ->
  RunsG (80 + length (sel_text s)) (ECall R_selector) ANonAtomic (sel_text s ++ c :: rest) pos
        (Ok (c :: rest) (pos + length (sel_text s)) [sel_pair pos s]).
Proof.
  intros Hs Hc.
  assert (Hnd : non_digit_head (c :: rest)) by (destruct Hc as [-> | ->]; reflexivity).
  assert (Hnw : not_ws (c :: rest)) by (destruct Hc as [-> | ->]; cbn [not_ws]; repeat split; lia).
  assert (Hc58 : c <> 58%N) by (destruct Hc as [-> | ->]; discriminate).
  assert (Hc45 : c <> 45%N) by (destruct Hc as [-> | ->]; discriminate).
  assert (Hcd : (c < 48 \/ 57 < c)%N) by (destruct Hc as [-> | ->]; lia).
  destruct s as [k| |i|a b c0]; cbn [sel_ok] in Hs; unfold sel_pair, slice_kids, int_pair; cbn [sel_text].
  - cbn [app]. rewrite <- app_assoc. cbn [app]. pegd_upto.
  - cbn [app]. pegd_upto.
  - pegd_upto.
  - destruct a as [za|], b as [zb|], c0 as [zc|]; cbn [oint]; rewrite <- ?app_assoc; cbn [app]; rewrite <- ?app_assoc; cbn [app].
    all: pegd_upto.
Qed.

(* ---------- bracketed selections ---------- *)
Lemma sel_text_head_not_ws s tail : sel_ok s -> not_ws (sel_text s ++ tail).
Proof.
  intros _. destruct s as [k| |i|a b c]; cbn [sel_text].
  - cbn [app not_ws]. repeat split; lia.
  - cbn [app not_ws]. repeat split; lia.
  - apply not_ws_int.
  - destruct a as [za|]; cbn [oint].
    + rewrite <- app_assoc. apply not_ws_int.
    + cbn [app not_ws]. repeat split; lia.
Qed.

Definition comma_iter : expr rname :=
  ESeq (ESeq (ESeq (ECall R_S) (EStr [44%N])) (ECall R_S)) (ECall R_selector).

Definition commas_text (l : list fsel) : str := flat_map (fun s => 44%N :: sel_text s) l.
Fixpoint sels_pairs (pos : nat) (l : list fsel) : list (pair rname) :=
  match l with
  | [] => []
  | s :: l' => sel_pair (pos + 1) s :: sels_pairs (pos + 1 + length (sel_text s)) l'
  end.

Ltac peg_hook ::=
  lazymatch goal with
  | |- Runs _ _ (ECall R_WHITESPACE) AAtomic _ _ _ => apply ws_fail; solve_not_ws
  | |- Runs _ _ (ECall R_S) _ _ _ _ => apply S_none; solve_not_ws
  | |- Runs _ _ (ERep (ECall R_single_quoted)) AAtomic (_ ++ 39%N :: _) _ _ => apply single_quoted_body; assumption
  | |- Runs _ _ (ERep (ECall R_DIGIT)) AAtomic (_ ++ _) _ _ => apply digits_body'; assumption
  | |- Runs _ _ (ECall R_string) _ (39%N :: _ ++ 39%N :: _) _ _ => apply string_single; assumption
  | |- Runs _ _ (ECall R_int) _ (int_text _ ++ _) _ _ => apply int_runs; solve [assumption | reflexivity | exact I]
  | |- Runs _ _ (EStr (_ :: _)) _ (int_text _ ++ _) _ _ =>
      eapply runs_str_fail; apply match_str_int_none; [discriminate|reflexivity]
  | |- Runs _ _ (ECall R_selector) _ (sel_text _ ++ _ :: _) _ _ =>
      apply selector_runs; solve [assumption | left; reflexivity | right; reflexivity]
  end.

Ltac solve_not_ws ::=
  solve [assumption | apply not_ws_int | apply sel_text_head_not_ws; assumption
        | cbn [not_ws]; repeat split; lia | exact I].

Lemma comma_iter_stop rest pos : RunsG 40 comma_iter ANonAtomic (93%N :: rest) pos Fail.
Proof. unfold comma_iter. pegd_upto. Qed.

Lemma comma_iter_step s c r pos :
  sel_ok s -> sel_stop c ->
  RunsG (90 + length (sel_text s)) comma_iter ANonAtomic (44%N :: sel_text s ++ c :: r) pos
        (Ok (c :: r) (pos + 1 + length (sel_text s)) [sel_pair (pos + 1) s]).
Proof. intros Hs Hc. unfold comma_iter. pegd_upto. Qed.

Lemma commas_head l rest : exists c r, commas_text l ++ 93%N :: rest = c :: r /\ sel_stop c.
Proof.
  destruct l as [|s l]; cbn [commas_text flat_map app].
  - exists 93%N, rest. split; [reflexivity|right; reflexivity].
  - eexists _, _. split; [reflexivity|left; reflexivity].
Qed.

Lemma reptail_commas l : forall rest pos,
  Forall sel_ok l ->
  RunsG (100 + length (commas_text l)) (ERepTail comma_iter) ANonAtomic (commas_text l ++ 93%N :: rest) pos
        (Ok (93%N :: rest) (pos + length (commas_text l)) (sels_pairs pos l)).
Proof.
  induction l as [|s l IH]; intros rest pos Hl.
  - cbn [commas_text flat_map app length sels_pairs]. eapply runs_conv.
    + eapply runs_reptail_stop; [apply skip_none; cbn [not_ws]; repeat split; lia|apply comma_iter_stop].
    + lia.
    + f_equal. lia.
  - pose proof (Forall_inv Hl) as Hs. pose proof (Forall_inv_tail Hl) as Hl'.
    unfold commas_text. cbn [flat_map sels_pairs]. fold (commas_text l). rewrite <- app_assoc. cbn [app].
    destruct (commas_head l rest) as [c [r [E Hc]]].
    eapply runs_conv.
    + eapply runs_reptail_more.
      * apply skip_none. cbn [not_ws]. repeat split; lia.
      * rewrite E. apply comma_iter_step; assumption.
      * lia.
      * rewrite <- E. apply IH. exact Hl'.
    + cbn [length]. rewrite app_length. lia.
    + cbn [length]. rewrite app_length. cbn [app]. f_equal. lia.
Qed.

Lemma rep_commas l rest pos :
  Forall sel_ok l ->
  RunsG (102 + length (commas_text l)) (ERep comma_iter) ANonAtomic (commas_text l ++ 93%N :: rest) pos
        (Ok (93%N :: rest) (pos + length (commas_text l)) (sels_pairs pos l)).
Proof.
  intros Hl. destruct l as [|s l].
  - cbn [commas_text flat_map app length sels_pairs]. eapply runs_conv.
    + eapply runs_rep_none. apply comma_iter_stop.
    + lia.
    + f_equal. lia.
  - pose proof (Forall_inv Hl) as Hs. pose proof (Forall_inv_tail Hl) as Hl'.
    unfold commas_text. cbn [flat_map sels_pairs]. fold (commas_text l). rewrite <- app_assoc. cbn [app].
    destruct (commas_head l rest) as [c [r [E Hc]]].
    eapply runs_conv.
    + eapply runs_rep_some.
      * rewrite E. apply comma_iter_step; assumption.
      * rewrite <- E. apply reptail_commas. exact Hl'.
    + cbn [length]. rewrite app_length. lia.
    + cbn [length]. rewrite app_length. cbn [app]. f_equal. lia.
Qed.

Lemma commas_len_ge l : length l <= length (commas_text l).
Proof.
  induction l as [|s l IH]; [cbn; lia|]. unfold commas_text in *. cbn [flat_map]. rewrite app_length. cbn [length]. lia.
Qed.

Definition bracket_text (s : fsel) (l : list fsel) : str := 91%N :: sel_text s ++ commas_text l ++ [93%N].
Definition bracket_pair (pos : nat) (s : fsel) (l : list fsel) : pair rname :=
  Pair R_bracketed_selection pos (pos + length (bracket_text s l))
       (sel_pair (pos + 1) s :: sels_pairs (pos + 1 + length (sel_text s)) l).

Ltac peg_hook ::=
  lazymatch goal with
  | |- Runs _ _ (ECall R_WHITESPACE) AAtomic _ _ _ => apply ws_fail; solve_not_ws
  | |- Runs _ _ (ECall R_S) _ _ _ _ => apply S_none; solve_not_ws
  | |- Runs _ _ (ERep (ECall R_single_quoted)) AAtomic (_ ++ 39%N :: _) _ _ => apply single_quoted_body; assumption
  | |- Runs _ _ (ERep (ECall R_DIGIT)) AAtomic (_ ++ _) _ _ => apply digits_body'; assumption
  | |- Runs _ _ (ECall R_string) _ (39%N :: _ ++ 39%N :: _) _ _ => apply string_single; assumption
  | |- Runs _ _ (ECall R_int) _ (int_text _ ++ _) _ _ => apply int_runs; solve [assumption | reflexivity | exact I]
  | |- Runs _ _ (EStr (_ :: _)) _ (int_text _ ++ _) _ _ =>
      eapply runs_str_fail; apply match_str_int_none; [discriminate|reflexivity]
  | |- Runs _ _ (ECall R_selector) _ (sel_text _ ++ _ :: _) _ _ =>
      apply selector_runs; solve [assumption | left; reflexivity | right; reflexivity]
  | |- Runs _ _ (ERep (ESeq (ESeq (ESeq (ECall R_S) (EStr [44%N])) (ECall R_S)) (ECall R_selector))) ANonAtomic (commas_text _ ++ 93%N :: _) _ _ =>
      apply rep_commas; assumption
  end.

Lemma bracket_runs s l rest pos :
  sel_ok s -> Forall sel_ok l ->
  RunsG (130 + length (bracket_text s l)) (ECall R_bracketed_selection) ANonAtomic (bracket_text s l ++ rest) pos
        (Ok rest (pos + length (bracket_text s l)) [bracket_pair pos s l]).
Proof.
  intros Hs Hl. unfold bracket_pair, bracket_text. cbn [app]. rewrite <- !app_assoc. cbn [app].
  destruct (commas_head l rest) as [c [r [E Hc]]].
  (* the selector is followed by ',' or ']' *)
  assert (Hsel : RunsG (80 + length (sel_text s)) (ECall R_selector) ANonAtomic
                       (sel_text s ++ commas_text l ++ 93%N :: rest) (pos + 1)
                       (Ok (commas_text l ++ 93%N :: rest) (pos + 1 + length (sel_text s)) [sel_pair (pos + 1) s])).
  { rewrite E. apply selector_runs; assumption. }
  assert (Hnw : not_ws (commas_text l ++ 93%N :: rest)).
  { rewrite E. destruct Hc as [-> | ->]; cbn [not_ws]; repeat split; lia. }
  eapply runs_conv.
  - eapply runs_call; [reflexivity|]. cbn [call_atomicity].
    eapply runs_seq.
    { eapply runs_seq.
      { eapply runs_seq.
        { eapply runs_seq.
          { eapply runs_seq; [pegd|red_res; pegd|red_res; pegd]. }
          { red_res. pegd. }
          { red_res. exact Hsel. } }
        { red_res. pegd. }
        { red_res. pegd. } }
      { red_res. pegd. }
      { red_res. pegd. } }
    { red_res. pegd. }
    { red_res. pegd. }
  - pose proof (commas_len_ge l). norm_len. bound.
  - red_res. norm_len. rewrite ?app_nil_r. repeat (f_equal; try lia).
Qed.

(* ---------- member-name-shorthand ---------- *)
Definition name_first_b (c : N) : bool :=
  ((N.leb 97 c && N.leb c 122) || (N.leb 65 c && N.leb c 90) || N.eqb c 95
   || (N.leb 128 c && N.leb c 55295) || (N.leb 57344 c && N.leb c 1114111))%N.
Definition name_char_b (c : N) : bool := name_first_b c || is_digit c.

Lemma name_first_cases c : name_first_b c = true ->
  (97 <= c <= 122 \/ 65 <= c <= 90 \/ c = 95 \/ 128 <= c <= 55295 \/ 57344 <= c <= 1114111)%N.
Proof.
  unfold name_first_b. intros H.
  repeat match type of H with
         | (_ || _)%bool = true => apply orb_true_iff in H; destruct H as [H|H]
         end;
  try (apply andb_true_iff in H; destruct H as [H1 H2]; apply N.leb_le in H1; apply N.leb_le in H2; lia).
  apply N.eqb_eq in H. lia.
Qed.

Lemma name_first_ok c rest pos :
  name_first_b c = true ->
  RunsG 8 (ECall R_name_first) AAtomic (c :: rest) pos (Ok rest (S pos) []).
Proof.
  intros H. apply name_first_cases in H.
  destruct H as [H|[H|[H|[H|H]]]]; pegd_upto.
Qed.

Lemma name_char_ok c rest pos :
  name_char_b c = true ->
  RunsG 12 (ECall R_name_char) AAtomic (c :: rest) pos (Ok rest (S pos) []).
Proof.
  unfold name_char_b. intros H. apply orb_true_iff in H. destruct H as [H|H].
  - apply name_first_cases in H. destruct H as [H|[H|[H|[H|H]]]]; pegd_upto.
  - apply is_digit_bounds in H. pegd_upto.
Qed.

(* what may follow a shorthand name: the end of the query, or the next segment *)
Definition name_stop (s : str) : Prop := match s with [] => True | c :: _ => c = 46%N \/ c = 91%N end.

Lemma name_char_stop stop pos : name_stop stop -> RunsG 12 (ECall R_name_char) AAtomic stop pos Fail.
Proof.
  intros H. destruct stop as [|c r]; [pegd_upto|]. cbn [name_stop] in H. destruct H as [-> | ->]; pegd_upto.
Qed.

Definition name_ok (n : str) : Prop :=
  match n with c :: r => name_first_b c = true /\ forallb name_char_b r = true | [] => False end.

Lemma shorthand_runs n stop pos a :
  name_ok n -> name_stop stop ->
  RunsG (30 + length n) (ECall R_member_name_shorthand) a (n ++ stop) pos
        (Ok stop (pos + length n) (if emits a then [Pair R_member_name_shorthand pos (pos + length n) []] else [])).
Proof.
  intros Hn Hs. destruct n as [|c r]; [destruct Hn|]. destruct Hn as [Hc Hr]. cbn [app].
  assert (Hrep : RunsG (15 + length r) (ERep (ECall R_name_char)) AAtomic (r ++ stop) (S pos)
                       (Ok stop (S pos + length r) [])).
  { eapply runs_conv.
    - eapply (runs_rep_chars _ grammar 12 (ECall R_name_char) name_char_b).
      + intros c0 r0 p0 H0. apply name_char_ok. exact H0.
      + exact Hr.
      + apply name_char_stop. exact Hs.
    - lia.
    - reflexivity. }
  eapply runs_conv.
  - eapply runs_call; [reflexivity|]. cbn [call_atomicity].
    eapply runs_seq.
    { apply (name_first_ok c (r ++ stop) pos Hc). }
    { red_res. pegd. }
    { red_res. exact Hrep. }
  - norm_len. bound.
  - red_res. norm_len. destruct a; cbn [emits]; repeat (f_equal; try lia).
Qed.

(* ---------- segments ---------- *)
Inductive fseg :=
| FBracket (s : fsel) (l : list fsel)        (* [s,...]   *)
| FShort (n : str)                           (* .name     *)
| FDotWild                                   (* .*        *)
| FDescBracket (s : fsel) (l : list fsel)    (* ..[s,...] *)
| FDescShort (n : str)                       (* ..name    *)
| FDescWild.                                 (* ..*       *)

Definition seg_text (g : fseg) : str :=
  match g with
  | FBracket s l => bracket_text s l
  | FShort n => 46%N :: n
  | FDotWild => [46%N; 42%N]
  | FDescBracket s l => 46%N :: 46%N :: bracket_text s l
  | FDescShort n => 46%N :: 46%N :: n
  | FDescWild => [46%N; 46%N; 42%N]
  end.

Definition seg_pair (pos : nat) (g : fseg) : pair rname :=
  let en := pos + length (seg_text g) in
  match g with
  | FBracket s l => Pair R_segment pos en [Pair R_child_segment pos en [bracket_pair pos s l]]
  | FShort n => Pair R_segment pos en [Pair R_child_segment pos en [Pair R_member_name_shorthand (pos + 1) en []]]
  | FDotWild => Pair R_segment pos en [Pair R_child_segment pos en [Pair R_wildcard_selector (pos + 1) en []]]
  | FDescBracket s l => Pair R_segment pos en [Pair R_descendant_segment pos en [bracket_pair (pos + 2) s l]]
  | FDescShort n => Pair R_segment pos en [Pair R_descendant_segment pos en [Pair R_member_name_shorthand (pos + 2) en []]]
  | FDescWild => Pair R_segment pos en [Pair R_descendant_segment pos en [Pair R_wildcard_selector (pos + 2) en []]]
  end.

Definition seg_ok (g : fseg) : Prop :=
  match g with
  | FBracket s l | FDescBracket s l => sel_ok s /\ Forall sel_ok l
  | FShort n | FDescShort n => name_ok n
  | FDotWild | FDescWild => True
  end.

Ltac peg_hook ::=
  lazymatch goal with
  | |- Runs _ _ (ECall R_WHITESPACE) AAtomic _ _ _ => apply ws_fail; solve_not_ws
  | |- Runs _ _ (ECall R_S) _ _ _ _ => apply S_none; solve_not_ws
  | |- Runs _ _ (ECall R_bracketed_selection) _ (bracket_text _ _ ++ _) _ _ => apply bracket_runs; assumption
  | |- Runs _ _ (ECall R_member_name_shorthand) _ (?c :: ?r ++ ?rest) _ _ =>
      change (c :: r ++ rest) with ((c :: r) ++ rest); apply shorthand_runs; assumption
  end.

Lemma segment_runs g rest pos :
  seg_ok g -> name_stop rest ->
  RunsG (170 + length (seg_text g)) (ECall R_segment) ANonAtomic (seg_text g ++ rest) pos
        (Ok rest (pos + length (seg_text g)) [seg_pair pos g]).
Proof.
  intros Hg Hr. destruct g as [s l|n| |s l|n| ]; cbn [seg_ok] in Hg; unfold seg_pair; cbn [seg_text].
  - destruct Hg as [Hs Hl]. pegd_upto.
  - assert (Hn := Hg). destruct n as [|c r]; [destruct Hg|]. destruct Hg as [Hc _].
    apply name_first_cases in Hc. cbn [app]. pegd_upto.
  - cbn [app]. pegd_upto.
  - destruct Hg as [Hs Hl]. cbn [app]. pegd_upto.
  - assert (Hn := Hg). destruct n as [|c r]; [destruct Hg|]. destruct Hg as [Hc _].
    apply name_first_cases in Hc. cbn [app]. pegd_upto.
  - cbn [app]. pegd_upto.
Qed.

(* ---------- the whole query ---------- *)
Definition segs_text (q : list fseg) : str := flat_map seg_text q.
Fixpoint segs_pairs (pos : nat) (q : list fseg) : list (pair rname) :=
  match q with [] => [] | g :: q' => seg_pair pos g :: segs_pairs (pos + length (seg_text g)) q' end.

Lemma seg_text_head g rest : exists c r, seg_text g ++ rest = c :: r /\ (c = 46%N \/ c = 91%N).
Proof.
  destruct g; cbn [seg_text bracket_text app]; eexists _, _; (split; [reflexivity|]); (left; reflexivity) || (right; reflexivity).
Qed.

Lemma segs_text_stop q : name_stop (segs_text q).
Proof.
  destruct q as [|g q]; [exact I|]. unfold segs_text. cbn [flat_map].
  destruct (seg_text_head g (flat_map seg_text q)) as [c [r [E H]]]. rewrite E. exact H.
Qed.

Lemma name_stop_not_ws s : name_stop s -> not_ws s.
Proof. destruct s as [|c r]; [intros _; exact I|]. cbn. intros [-> | ->]; repeat split; lia. Qed.

Lemma seg_len_pos g : 1 <= length (seg_text g).
Proof. destruct g; cbn [seg_text bracket_text length]; rewrite ?app_length; cbn [length]; lia. Qed.

Lemma seg_iter_step' g rest pos :
  seg_ok g -> name_stop rest ->
  RunsG (175 + length (seg_text g)) seg_iter ANonAtomic (seg_text g ++ rest) pos
        (Ok rest (pos + length (seg_text g)) [seg_pair pos g]).
Proof.
  intros Hg Hr. destruct (seg_text_head g rest) as [c [r [E Hc]]]. unfold seg_iter.
  assert (Hw : not_ws (seg_text g ++ rest)) by (rewrite E; apply name_stop_not_ws; exact Hc).
  eapply runs_conv.
  - eapply runs_seq_ok.
    + apply S_none. exact Hw.
    + apply skip_none. exact Hw.
    + apply segment_runs; assumption.
  - lia.
  - reflexivity.
Qed.

Lemma reptail_segs q : forall pos,
  Forall seg_ok q ->
  RunsG (180 + length (segs_text q)) (ERepTail seg_iter) ANonAtomic (segs_text q) pos
        (Ok [] (pos + length (segs_text q)) (segs_pairs pos q)).
Proof.
  induction q as [|g q IH]; intros pos Hq.
  - cbn [segs_text flat_map length segs_pairs]. eapply runs_conv.
    + eapply runs_reptail_stop; [apply skip_none; exact I|apply seg_iter_end].
    + lia.
    + f_equal. lia.
  - pose proof (Forall_inv Hq) as Hg. pose proof (Forall_inv_tail Hq) as Hq'.
    unfold segs_text. cbn [flat_map segs_pairs]. fold (segs_text q).
    pose proof (segs_text_stop q) as Hstop.
    destruct (seg_text_head g (segs_text q)) as [c [r [E Hc]]].
    pose proof (seg_len_pos g) as Hlen.
    eapply runs_conv.
    + eapply runs_reptail_more.
      * apply skip_none. rewrite E. apply name_stop_not_ws. exact Hc.
      * apply seg_iter_step'; assumption.
      * lia.
      * apply IH. exact Hq'.
    + rewrite app_length. lia.
    + rewrite app_length. cbn [app]. f_equal. lia.
Qed.

Definition query_pairs (q : list fseg) : pair rname :=
  let n := S (length (segs_text q)) in
  Pair R_main 0 n [Pair R_jp_query 0 n [Pair R_segments 1 n (segs_pairs 1 q)]; Pair R_EOI n n []].

Lemma main_segs q :
  Forall seg_ok q ->
  RunsG (200 + length (segs_text q)) (ECall R_main) ANonAtomic (36%N :: segs_text q) 0
        (Ok [] (S (length (segs_text q))) [query_pairs q]).
Proof.
  intros Hq. pose proof (name_stop_not_ws _ (segs_text_stop q)) as Hw. unfold query_pairs.
  assert (Hsegs : RunsG (185 + length (segs_text q)) (ECall R_segments) ANonAtomic (segs_text q) 1
                        (Ok [] (1 + length (segs_text q))
                            [Pair R_segments 1 (1 + length (segs_text q)) (segs_pairs 1 q)])).
  { destruct q as [|g q].
    - cbn [segs_text flat_map length segs_pairs]. eapply runs_conv.
      + eapply runs_call_normal_ok; [reflexivity|]. eapply runs_rep_none. apply seg_iter_end.
      + lia.
      + reflexivity.
    - pose proof (Forall_inv Hq) as Hg. pose proof (Forall_inv_tail Hq) as Hq'.
      unfold segs_text. cbn [flat_map segs_pairs]. fold (segs_text q).
      eapply runs_conv.
      + eapply runs_call_normal_ok; [reflexivity|]. eapply runs_rep_some.
        * apply seg_iter_step'; [exact Hg|apply segs_text_stop].
        * apply reptail_segs. exact Hq'.
      + rewrite app_length. lia.
      + rewrite app_length. cbn [emits app]. repeat (f_equal; try lia). }
  eapply runs_conv.
  - eapply runs_call_normal_ok; [reflexivity|].
    eapply runs_seq_ok.
    + eapply runs_seq_ok.
      * apply runs_soi.
      * apply skip_none. cbn [not_ws]. repeat split; lia.
      * eapply runs_call_normal_ok; [reflexivity|].
        eapply runs_seq_ok.
        -- eapply runs_call_silent; [reflexivity|]. eapply runs_str_ok. reflexivity.
        -- apply skip_none. exact Hw.
        -- exact Hsegs.
    + apply skip_none. exact I.
    + apply runs_eoi_ok.
  - cbn [length]. lia.
  - cbn [emits app length g_eoi grammar]. repeat (f_equal; try lia).
Qed.
