(* EvalSteps.v — one-step equations of the evaluator model (Eval.v), for any Queryable instance.
   Mechanical list; every proof is [reflexivity]. *)
From Coq Require Import List NArith ZArith Bool.
From JP Require Import Base Ast Eval.
Import ListNotations.

Section Steps.
  Variable T : Type.
  Variable Q : qops T.
  Variable rx : str -> str -> option bool.
  Variable root : T.

  Notation Esegment := (e_segment Q rx root).
  Notation Eselector := (e_selector Q rx root).
  Notation Eselectors := (e_selectors Q rx root).
  Notation Esegments := (e_segments Q rx root).
  Notation Efelem := (e_felem Q rx root).
  Notation Eany := (e_any Q rx root).
  Notation Eall := (e_all Q rx root).
  Notation Eatom := (e_atom Q rx root).
  Notation Ecomparable := (e_comparable Q rx root).
  Notation Etest := (e_test Q rx root).
  Notation Etfun := (e_tfun Q rx root).
  Notation Efnarg := (e_fnarg Q rx root).
  Notation Efnargs := (e_fnargs Q rx root).
  Lemma estep_0 s d : Esegment (SegDesc s) d = Esegment s (flat_map_data (descend Q) d).
  Proof. reflexivity. Qed.
  Lemma estep_1 x d : Esegment (SegSel x) d = Eselector x d.
  Proof. reflexivity. Qed.
  Lemma estep_2 d : Esegment (SegSels SNil) d = DRef (root_ptr root).
  Proof. reflexivity. Qed.
  Lemma estep_3 s0 l d : Esegment (SegSels (SCons s0 l)) d = Eselectors l d (Eselector s0 d).
  Proof. reflexivity. Qed.
  Lemma estep_4 k d : Eselector (SelName k) d = flat_map_data (fun p => process_key Q p k) d.
  Proof. reflexivity. Qed.
  Lemma estep_5 d : Eselector SelWild d = flat_map_data (process_wildcard Q) d.
  Proof. reflexivity. Qed.
  Lemma estep_6 i d : Eselector (SelIndex i) d = flat_map_data (fun p => process_index Q p i) d.
  Proof. reflexivity. Qed.
  Lemma estep_7 a b c d : Eselector (SelSlice a b c) d = flat_map_data (fun p => process_slice Q p a b c) d.
  Proof. reflexivity. Qed.
  Lemma estep_8 f d : Eselector (SelFilter f) d = fselect Q (Efelem f) d.
  Proof. reflexivity. Qed.
  Lemma estep_9 d acc : Eselectors SNil d acc = acc.
  Proof. reflexivity. Qed.
  Lemma estep_10 s l d acc : Eselectors (SCons s l) d acc = Eselectors l d (reduce acc (Eselector s d)).
  Proof. reflexivity. Qed.
  Lemma estep_11 d : Esegments GNil d = d.
  Proof. reflexivity. Qed.
  Lemma estep_12 s l d : Esegments (GCons s l) d = Esegments l (Esegment s d).
  Proof. reflexivity. Qed.
  Lemma estep_13 l d : Efelem (FOr l) d = d_bool Q (Eany l d).
  Proof. reflexivity. Qed.
  Lemma estep_14 l d : Efelem (FAnd l) d = d_bool Q (Eall l d).
  Proof. reflexivity. Qed.
  Lemma estep_15 a d : Efelem (FAtom a) d = Eatom a d.
  Proof. reflexivity. Qed.
  Lemma estep_16 d : Eany FNil d = false.
  Proof. reflexivity. Qed.
  Lemma estep_17 f l d : Eany (FCons f l) d = val_bool Q (fproc Q (Efelem f) d) || Eany l d.
  Proof. reflexivity. Qed.
  Lemma estep_18 d : Eall FNil d = true.
  Proof. reflexivity. Qed.
  Lemma estep_19 f l d : Eall (FCons f l) d = val_bool Q (fproc Q (Efelem f) d) && Eall l d.
  Proof. reflexivity. Qed.
  Lemma estep_20 f neg d : Eatom (AFilter f neg) d = (if neg then invert_bool Q (fproc Q (Efelem f) d) else fproc Q (Efelem f) d).
  Proof. reflexivity. Qed.
  Lemma estep_21 t neg d : Eatom (ATest t neg) d = (if is_res_bool t then (if neg then invert_bool Q (Etest t d) else Etest t d) else if match Etest t d with DRef _ => true | DRefs [] => false | DRefs _ => true | _ => false end then d_bool Q (negb neg) else d_bool Q neg).
  Proof. reflexivity. Qed.
  Lemma estep_22 op l r d : Eatom (ACmp op l r) d = d_bool Q (compare_data Q op (Ecomparable l d) (Ecomparable r d)).
  Proof. reflexivity. Qed.
  Lemma estep_23 l d : Ecomparable (CLit l) d = e_literal Q l.
  Proof. reflexivity. Qed.
  Lemma estep_24 f d : Ecomparable (CFn f) d = Etfun f d.
  Proof. reflexivity. Qed.
  Lemma estep_25 q d : Ecomparable (CSq q) d = e_squery Q root q d.
  Proof. reflexivity. Qed.
  Lemma estep_26 l d : Etest (TRel l) d = Esegments l d.
  Proof. reflexivity. Qed.
  Lemma estep_27 l d : Etest (TAbs l) d = Esegments l (DRef (root_ptr root)).
  Proof. reflexivity. Qed.
  Lemma estep_28 f d : Etest (TFn f) d = Etfun f d.
  Proof. reflexivity. Qed.
  Lemma estep_29 a d : Etfun (FnLength a) d = fn_length Q (Efnarg a d).
  Proof. reflexivity. Qed.
  Lemma estep_30 a d : Etfun (FnCount a) d = fn_count Q (Efnarg a d).
  Proof. reflexivity. Qed.
  Lemma estep_31 a d : Etfun (FnValue a) d = fn_value (Efnarg a d).
  Proof. reflexivity. Qed.
  Lemma estep_32 a b d : Etfun (FnMatch a b) d = fn_regex Q rx (Efnarg a d) (Efnarg b d) false.
  Proof. reflexivity. Qed.
  Lemma estep_33 a b d : Etfun (FnSearch a b) d = fn_regex Q rx (Efnarg a d) (Efnarg b d) true.
  Proof. reflexivity. Qed.
  Lemma estep_34 name args d : Etfun (FnCustom name args) d = DVal (q_custom Q name (custom_args (Efnargs args d))).
  Proof. reflexivity. Qed.
  Lemma estep_35 l d : Efnarg (ArgLit l) d = e_literal Q l.
  Proof. reflexivity. Qed.
  Lemma estep_36 t d : Efnarg (ArgTest t) d = Etest t d.
  Proof. reflexivity. Qed.
  Lemma estep_37 f d : Efnarg (ArgFilter f) d = fproc Q (Efelem f) d.
  Proof. reflexivity. Qed.
  Lemma estep_38 d : Efnargs ANil d = [].
  Proof. reflexivity. Qed.
  Lemma estep_39 a l d : Efnargs (ACons a l) d = Efnarg a d :: Efnargs l d.
  Proof. reflexivity. Qed.
End Steps.

Global Hint Rewrite estep_0 estep_1 estep_2 estep_3 estep_4 estep_5 estep_6 estep_7 estep_8 estep_9 estep_10 estep_11 estep_12 estep_13 estep_14 estep_15 estep_16 estep_17 estep_18 estep_19 estep_20 estep_21 estep_22 estep_23 estep_24 estep_25 estep_26 estep_27 estep_28 estep_29 estep_30 estep_31 estep_32 estep_33 estep_34 estep_35 estep_36 estep_37 estep_38 estep_39 : esteps.
