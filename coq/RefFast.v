(* RefFast.v — the executable form of the C09 model used by the extracted driver.  [m_reference] and [rfc_reference]
   convert an index step to a unary [nat] before they look at the array, which is fine for proofs and hopeless for running
   `$[4294967296]`; the functions here keep the index in [Z], compare it with the length of the array first, and are PROVED
   equal to the originals on every path and document, so the driver may run them instead. *)
From Coq Require Import List NArith ZArith Bool Lia.
From JP Require Import Base Ast Eval ValueModel Spec NormPath Known Peg Dec2Bin Build Concrete BaseFacts SelFacts Reference.
From JP.gen Require Import Grammar.
Import ListNotations.
Open Scope Z_scope.

Inductive zstep := ZName (k : str) | ZIdx (i : Z).
Definition z_pstep (z : zstep) : pstep := match z with ZName k => PName k | ZIdx i => PIdx (Z.to_nat i) end.
Definition z_step (z : zstep) : step := match z with ZName k => SName k | ZIdx i => SIdx (Z.to_nat i) end.

Fixpoint path_steps_z (q : segments) : option (list zstep) :=
  match q with
  | GNil => Some []
  | GCons (SegSel (SelName name)) l =>
      match path_steps_z l with Some r => Some (ZName (trim_matches (is_c c_quote) name) :: r) | None => None end
  | GCons (SegSel (SelIndex i)) l =>
      if Z.ltb i 0 then None
      else match path_steps_z l with Some r => Some (ZIdx i :: r) | None => None end
  | GCons _ _ => None
  end.

Fixpoint rfc_path_steps_z (q : segments) : option (list zstep) :=
  match q with
  | GNil => Some []
  | GCons (SegSel (SelName raw)) l =>
      match decode_name raw, rfc_path_steps_z l with Some k, Some r => Some (ZName k :: r) | _, _ => None end
  | GCons (SegSel (SelIndex i)) l =>
      if Z.ltb i 0 then None
      else match rfc_path_steps_z l with Some r => Some (ZIdx i :: r) | None => None end
  | GCons _ _ => None
  end.

(* the walk; an index is compared with the length before it is turned into a position *)
Fixpoint walk_z (d : json) (zs : list zstep) : option (loc * json) :=
  match zs with
  | [] => Some ([], d)
  | ZName k :: r =>
      match d with
      | JObj m => match assoc k m with
                  | Some v => match walk_z v r with Some (l, x) => Some (SName k :: l, x) | None => None end
                  | None => None
                  end
      | _ => None
      end
  | ZIdx i :: r =>
      match d with
      | JArr a =>
          if Z.leb (Z.of_nat (length a)) i then None
          else match nth_error a (Z.to_nat i) with
               | Some v => match walk_z v r with Some (l, x) => Some (SIdx (Z.to_nat i) :: l, x) | None => None end
               | None => None
               end
      | _ => None
      end
  end.

Definition m_reference_fast (path : str) (d : json) : option (loc * json) :=
  match parse_query path with
  | POk q => match path_steps_z q with Some zs => walk_z d zs | None => None end
  | _ => None
  end.
Definition rfc_reference_fast (path : str) (d : json) : option (loc * json) :=
  match rfc_parse path with
  | RfcValid q => match rfc_path_steps_z q with Some zs => walk_z d zs | None => None end
  | _ => None
  end.

Lemma nth_error_far {A} (l : list A) i : Z.of_nat (length l) <= i -> nth_error l (Z.to_nat i) = None.
Proof. intros H. apply nth_error_None. lia. Qed.

Lemma path_steps_z_eq q : path_steps q = option_map (map z_pstep) (path_steps_z q).
Proof.
  induction q as [|s l IH]; [reflexivity|]. cbn [path_steps path_steps_z].
  destruct s as [s|s|ss]; try reflexivity. destruct s; try reflexivity.
  - rewrite IH. destruct (path_steps_z l); reflexivity.
  - destruct (Z.ltb i 0); [reflexivity|]. rewrite IH. destruct (path_steps_z l); reflexivity.
Qed.

Lemma rfc_path_steps_z_eq q : rfc_path_steps q = option_map (map z_step) (rfc_path_steps_z q).
Proof.
  induction q as [|s l IH]; [reflexivity|]. cbn [rfc_path_steps rfc_path_steps_z].
  destruct s as [s|s|ss]; try reflexivity. destruct s; try reflexivity.
  - rewrite IH. destruct (decode_name s); [|reflexivity]. destruct (rfc_path_steps_z l); reflexivity.
  - destruct (Z.ltb i 0); [reflexivity|]. rewrite IH. destruct (rfc_path_steps_z l); reflexivity.
Qed.

Lemma walk_z_ref zs : forall d,
  walk_z d zs = match ref_walk d (map z_pstep zs) with Some v => Some (map step_of (map z_pstep zs), v) | None => None end.
Proof.
  induction zs as [|z zs IH]; intros d; [reflexivity|]. destruct z as [k|i]; cbn [walk_z map z_pstep ref_walk step_of].
  - destruct d; try reflexivity. destruct (assoc k _) as [v|]; [|reflexivity]. rewrite IH.
    destruct (ref_walk v _); reflexivity.
  - destruct d as [| | | |a|]; try reflexivity. destruct (Z.leb_spec (Z.of_nat (length a)) i) as [H|H].
    + rewrite (nth_error_far a i H). reflexivity.
    + destruct (nth_error a (Z.to_nat i)) as [v|]; [|reflexivity]. rewrite IH. destruct (ref_walk v _); reflexivity.
Qed.

Lemma walk_z_lookup zs : forall d,
  walk_z d zs = match lookup d (map z_step zs) with Some v => Some (map z_step zs, v) | None => None end.
Proof.
  induction zs as [|z zs IH]; intros d; [reflexivity|]. destruct z as [k|i]; cbn [walk_z map z_step lookup].
  - destruct d; try reflexivity. cbn [child_at]. destruct (assoc k _) as [v|]; [|reflexivity]. rewrite IH.
    destruct (lookup v _); reflexivity.
  - destruct d as [| | | |a|]; try reflexivity. cbn [child_at]. destruct (Z.leb_spec (Z.of_nat (length a)) i) as [H|H].
    + rewrite (nth_error_far a i H). reflexivity.
    + destruct (nth_error a (Z.to_nat i)) as [v|]; [|reflexivity]. rewrite IH. destruct (lookup v _); reflexivity.
Qed.

Theorem m_reference_fast_eq path d : m_reference_fast path d = m_reference path d.
Proof.
  unfold m_reference_fast, m_reference, m_reference_q. destruct (parse_query path) as [q| | |]; try reflexivity.
  rewrite path_steps_z_eq. destruct (path_steps_z q) as [zs|]; [|reflexivity]. cbn [option_map]. apply walk_z_ref.
Qed.

Theorem rfc_reference_fast_eq path d : rfc_reference_fast path d = rfc_reference path d.
Proof.
  unfold rfc_reference_fast, rfc_reference. destruct (rfc_parse path); try reflexivity.
  rewrite rfc_path_steps_z_eq. destruct (rfc_path_steps_z q) as [zs|]; [|reflexivity]. cbn [option_map]. apply walk_z_lookup.
Qed.
Print Assumptions m_reference_fast_eq.
Print Assumptions rfc_reference_fast_eq.
