(* TokenOps.v — comparison operators: every comp_op token of every input is one of the twelve operator spellings of the grammar. *)
From Coq Require Import List Arith NArith Bool Lia.
From JP Require Import Base Ast Peg PegFacts Dec2Bin Build PegTerm TermCheck PegAlpha PegTree TokenFacts TokenMore.
From JP.gen Require Import Grammar.
Import ListNotations.
Local Open Scope nat_scope.

Definition comp_ops : list str :=
  [[61; 61]; [33; 61]; [60; 61]; [62; 61]; [60]; [62]; [105; 110]; [110; 105; 110]; [115; 105; 122; 101];
   [110; 111; 110; 101; 79; 102]; [97; 110; 121; 79; 102]; [115; 117; 98; 115; 101; 116; 79; 102]]%N.

(* a rule whose body is an ordered choice of literals consumes one of them *)
Fixpoint lits (e : expr rname) : option (list str) :=
  match e with
  | EStr l => Some [l]
  | EAlt x y => match lits x, lits y with Some a, Some b => Some (a ++ b) | _, _ => None end
  | _ => None
  end.

Lemma lits_run : forall e ls f a s' st rest' en t,
  lits e = Some ls -> run grammar f e a s' st = Ok rest' en t -> exists v, s' = v ++ rest' /\ In v ls.
Proof.
  induction e; intros ls f a s' st rest' en t Hl Hr; cbn [lits] in Hl; try discriminate.
  - inversion Hl; subst. destruct (inv_str rname grammar _ _ _ _ _ _ _ _ Hr) as [E _]. exists s. split; [exact E|left; reflexivity].
  - destruct (lits e1) as [l1|] eqn:E1; [|discriminate]. destruct (lits e2) as [l2|] eqn:E2; [|discriminate]. inversion Hl; subst.
    destruct (inv_alt rname grammar _ _ _ _ _ _ _ _ _ Hr) as [f' [H|H]].
    + destruct (IHe1 _ _ _ _ _ _ _ _ eq_refl H) as [v [Ev Hv]]. exists v. split; [exact Ev|apply in_or_app; left; exact Hv].
    + destruct (IHe2 _ _ _ _ _ _ _ _ eq_refl H) as [v [Ev Hv]]. exists v. split; [exact Ev|apply in_or_app; right; exact Hv].
Qed.

Theorem comp_op_token_text s st en kids :
  inforest rname (Pair R_comp_op st en kids) (parse_tokens s) -> In (slice s st en) comp_ops.
Proof.
  apply (token_text s R_comp_op st en kids (fun v => In v comp_ops)); [discriminate|].
  intros f a s' rest' t Hr. destruct (inv_call rname grammar _ _ _ _ _ _ _ _ Hr) as [f1 [t1 H1]].
  exact (lits_run (snd (g_rule grammar R_comp_op)) comp_ops f1 (call_atomicity (fst (g_rule grammar R_comp_op)) a) s' st rest' en t1 ltac:(vm_compute; reflexivity) H1).
Qed.
Print Assumptions comp_op_token_text.
