(* ValueModel.v — the shipped instance [impl Queryable for serde_json::Value]
   (src/query/queryable.rs) and the parts of serde_json it relies on, as an instance of [qops]. *)
From Coq Require Import List NArith ZArith Bool.
From JP Require Import Base Ast Eval.
Import ListNotations.
Open Scope Z_scope.

(* serde_json's [impl PartialEq for Value]: structural; numbers compare kind-sensitively
   (PosInt/NegInt/Float never equal across kinds); maps compare as maps. *)
Fixpoint jeqb (a b : json) : bool :=
  match a, b with
  | JNull, JNull => true
  | JBool x, JBool y => Bool.eqb x y
  | JNum x, JNum y => num_kind_eqb x y
  | JStr x, JStr y => str_eqb x y
  | JArr la, JArr lb =>
      (fix go (la lb : list json) : bool :=
         match la, lb with
         | [], [] => true
         | x :: la', y :: lb' => jeqb x y && go la' lb'
         | _, _ => false
         end) la lb
  | JObj ma, JObj mb =>
      Nat.eqb (length ma) (length mb)
      && forallb (fun kv => match assoc (fst kv) mb with
                            | Some y => jeqb (snd kv) y
                            | None => false
                            end) ma
  | _, _ => false
  end.

Fixpoint jsize (j : json) : nat :=
  match j with
  | JArr l => S (fold_right (fun x acc => Nat.max (jsize x) acc) 0%nat l)
  | JObj m => S (fold_right (fun kv acc => Nat.max (jsize (snd kv)) acc) 0%nat m)
  | _ => 1%nat
  end.

Definition is_c (c : N) : N -> bool := N.eqb c.

(* impl Queryable for Value :: get *)
Definition value_get (v : json) (key : str) : option (str * json) :=
  let key' :=
    if starts_with [c_quote] key && ends_with [c_quote] key then trim_matches (is_c c_quote) key
    else if starts_with [c_dquote] key && ends_with [c_dquote] key then trim_matches (is_c c_dquote) key
    else key in
  match v with
  | JObj m => match assoc key' m with Some x => Some (key', x) | None => None end
  | _ => None
  end.

Definition i64_min : Z := - 2 ^ 63.
Definition i64_max : Z := 2 ^ 63 - 1.

Definition value_as_i64 (v : json) : option Z :=
  match v with
  | JNum (NInt z) => if Z.leb i64_min z && Z.leb z i64_max then Some z else None
  | _ => None
  end.
Definition value_as_f64 (v : json) : option dy :=
  match v with JNum n => Some (num_to_dy n) | _ => None end.

Definition jbool (b : bool) : json := JBool b.

Definition s_in : str := [105; 110]%N.
Definition s_nin : str := [110; 105; 110]%N.
Definition s_none_of : str := [110; 111; 110; 101; 95; 111; 102]%N.
Definition s_any_of : str := [97; 110; 121; 95; 111; 102]%N.
Definition s_subset_of : str := [115; 117; 98; 115; 101; 116; 95; 111; 102]%N.

Definition value_custom (name : str) (args : list json) : json :=
  if str_eqb name s_in then
    match args with
    | [lhs; JArr elements] => jbool (existsb (fun item => jeqb item lhs) elements)
    | _ => JNull
    end
  else if str_eqb name s_nin then
    match args with
    | [lhs; JArr elements] => jbool (negb (existsb (fun item => jeqb item lhs) elements))
    | _ => JNull
    end
  else if str_eqb name s_none_of then
    match args with
    | [JArr l; JArr r] => jbool (forallb (fun x => negb (existsb (fun y => jeqb x y) r)) l)
    | _ => JNull
    end
  else if str_eqb name s_any_of then
    match args with
    | [JArr l; JArr r] => jbool (existsb (fun x => existsb (fun y => jeqb x y) r) l)
    | _ => JNull
    end
  else if str_eqb name s_subset_of then
    match args with
    | [JArr l; JArr r] => jbool (forallb (fun x => existsb (fun y => jeqb x y) r) l)
    | _ => JNull
    end
  else JNull.

Definition value_ops : qops json := {|
  q_get := value_get;
  q_as_array := fun v => match v with JArr l => Some l | _ => None end;
  q_as_object := fun v => match v with JObj m => Some m | _ => None end;
  q_as_str := fun v => match v with JStr s => Some s | _ => None end;
  q_as_i64 := value_as_i64;
  q_as_f64 := value_as_f64;
  q_as_bool := fun v => match v with JBool b => Some b | _ => None end;
  q_null := JNull;
  q_of_i64 := fun z => JNum (NInt z);
  q_of_f64 := fun d => JNum (NFlt d);
  q_of_bool := JBool;
  q_of_str := JStr;
  q_eqb := jeqb;
  q_custom := value_custom;
  q_size := jsize
|}.
