(* NpParse.v — the generated grammar (gen/Grammar.v, translated from the .pest file on every run),
   run by the PEG interpreter, reads the Normalized Path of a location as the pair tree of that
   path; parser.rs (Build.v) turns it into [np_query l].  Symbolic execution with the rules of
   PegFacts.v. *)
From Coq Require Import List Arith NArith ZArith Bool Lia.
From JP Require Import Base Ast Peg PegFacts NormPath NormPathFacts Dec2Bin Known.
From JP.gen Require Import Grammar.
Import ListNotations.

Notation RunsG := (Runs grammar).

(* ---------- automation ---------- *)
Ltac solve_chars :=
  cbn [match_str andb];
  repeat match goal with
         | |- context [N.eqb ?a ?b] => destruct (N.eqb_spec a b); try lia
         | |- context [N.leb ?a ?b] => destruct (N.leb_spec a b); try lia
         end;
  cbn [andb]; try reflexivity; try lia.

Ltac peg_hook := fail.

Ltac peg :=
  first
    [ peg_hook
    | lazymatch goal with
      | |- Runs _ _ (EStr _) _ _ _ _ =>
          first [ eapply runs_str_ok; solve [solve_chars] | eapply runs_str_fail; solve [solve_chars] ]
      | |- Runs _ _ (ERange _ _) _ (_ :: _) _ _ =>
          first [ eapply runs_range_ok; solve [solve_chars] | eapply runs_range_fail; solve [solve_chars] ]
      | |- Runs _ _ (ERange _ _) _ [] _ _ => eapply runs_range_nil
      | |- Runs _ _ ESoi _ _ _ _ => eapply runs_soi
      | |- Runs _ _ EEoi _ [] _ _ => eapply runs_eoi_ok
      | |- Runs _ _ EEoi _ (_ :: _) _ _ => eapply runs_eoi_fail
      | |- Runs _ _ ESkip AAtomic _ _ _ => eapply runs_skip_atomic
      | |- Runs _ _ ESkip ACompound _ _ _ => eapply runs_skip_compound
      | |- Runs _ _ ESkip ANonAtomic _ _ _ => eapply runs_skip_none; change (g_ws grammar) with R_WHITESPACE; peg
      | |- Runs _ _ (ESeq _ _) _ _ _ _ =>
          first [ eapply runs_seq_ok; [peg|peg|peg]
                | eapply runs_seq_fail1; peg
                | eapply runs_seq_fail2; [peg|peg|peg] ]
      | |- Runs _ _ (EAlt _ _) _ _ _ _ =>
          first [ eapply runs_alt_l; peg | eapply runs_alt_r; [peg|peg] ]
      | |- Runs _ _ (EOpt _) _ _ _ _ =>
          first [ eapply runs_opt_some; peg | eapply runs_opt_none; peg ]
      | |- Runs _ _ (ERep _) _ _ _ _ =>
          first [ eapply runs_rep_none; peg | eapply runs_rep_some; [peg|peg] ]
      | |- Runs _ _ (ERepTail _) _ _ _ _ =>
          first [ eapply runs_reptail_stop; [peg|peg] | eapply runs_reptail_more; [peg|peg|lia|peg] ]
      | |- Runs _ _ (ENot _) _ _ _ _ => eapply runs_not_ok; peg
      | |- Runs _ _ (ECall ?r) _ _ _ _ =>
          first [ eapply runs_call_silent; [reflexivity|peg]
                | eapply runs_call_normal_ok; [reflexivity|peg]
                | eapply runs_call_normal_fail; [reflexivity|peg]
                | eapply runs_call_atomic_ok; [reflexivity|peg]
                | eapply runs_call_atomic_fail; [reflexivity|peg]
                | eapply runs_call_compound_ok; [reflexivity|peg]
                | eapply runs_call_compound_fail; [reflexivity|peg] ]
      end ].

(* derive with an unknown bound, then weaken to the stated one *)
Ltac res_eq :=
  cbn [length app emits];
  repeat match goal with |- context [emits ?a] => is_var a; destruct a; cbn [emits] end;
  repeat (f_equal; try lia); try reflexivity; try lia.
Ltac peg_upto := eapply runs_conv; [peg|cbn [length]; lia|res_eq].

(* ---------- blank space ---------- *)
Definition not_ws (s : str) : Prop :=
  match s with [] => True | c :: _ => c <> 32%N /\ c <> 9%N /\ c <> 10%N /\ c <> 13%N end.

Lemma ws_fail s pos : not_ws s -> RunsG 8 (ECall R_WHITESPACE) AAtomic s pos Fail.
Proof.
  intros H. destruct s as [|c r].
  - peg_upto.
  - cbn [not_ws] in H. destruct H as [H1 [H2 [H3 H4]]]. peg_upto.
Qed.

Ltac peg_hook ::=
  lazymatch goal with
  | |- Runs _ _ (ECall R_WHITESPACE) AAtomic _ _ Fail => apply ws_fail; solve [assumption | cbn; repeat split; lia | exact I]
  end.

Lemma skip_none s pos : not_ws s -> RunsG 10 ESkip ANonAtomic s pos (Ok s pos []).
Proof. intros H. peg_upto. Qed.

Lemma S_none a s pos : not_ws s -> RunsG 11 (ECall R_S) a s pos (Ok s pos []).
Proof.
  intros H. eapply runs_weaken.
  - eapply runs_call_silent; [reflexivity|]. eapply runs_rep_none.
    (* WHITESPACE is tried in the atomicity of the caller; its body never skips *)
    destruct s as [|c r].
    + peg.
    + cbn [not_ws] in H. destruct H as [H1 [H2 [H3 H4]]]. peg.
  - cbn; lia.
Qed.

(* ---------- name selector: 'k' with k plain ---------- *)
(* a character of a name that needs no escaping in a Normalized Path and is a Unicode scalar value *)
Definition plain_char (c : N) : bool :=
  (N.leb 32 c && negb (N.eqb c 39) && negb (N.eqb c 92)
   && (N.leb c 55295 || (N.leb 57344 c && N.leb c 1114111)))%N.

Lemma single_quoted_char c rest pos :
  plain_char c = true -> RunsG 12 (ECall R_single_quoted) AAtomic (c :: rest) pos (Ok rest (S pos) []).
Proof.
  unfold plain_char. intros H.
  apply andb_true_iff in H. destruct H as [H Hr]. apply andb_true_iff in H. destruct H as [H H92].
  apply andb_true_iff in H. destruct H as [H32 H39].
  apply N.leb_le in H32. apply negb_true_iff in H39. apply negb_true_iff in H92.
  apply N.eqb_neq in H39. apply N.eqb_neq in H92.
  assert (Hr' : (c <= 55295 \/ 57344 <= c <= 1114111)%N).
  { apply orb_true_iff in Hr. destruct Hr as [Hr|Hr]; [left; apply N.leb_le; exact Hr|].
    apply andb_true_iff in Hr. destruct Hr as [Ha Hb]. apply N.leb_le in Ha. apply N.leb_le in Hb. right. lia. }
  clear Hr.
  destruct (N.eq_dec c 34) as [->|H34].
  - peg_upto.
  - assert (Hc : (32 <= c <= 33 \/ 35 <= c <= 38 \/ 40 <= c <= 91 \/ 93 <= c <= 55295 \/ 57344 <= c <= 1114111)%N) by lia.
    destruct Hc as [Hc|[Hc|[Hc|[Hc|Hc]]]]; peg_upto.
Qed.

Lemma single_quoted_stop rest pos :
  RunsG 12 (ECall R_single_quoted) AAtomic (39%N :: rest) pos Fail.
Proof. peg_upto. Qed.

Lemma single_quoted_body k rest pos :
  forallb plain_char k = true ->
  RunsG (15 + length k) (ERep (ECall R_single_quoted)) AAtomic (k ++ 39%N :: rest) pos
        (Ok (39%N :: rest) (pos + length k) []).
Proof.
  intros Hk. eapply runs_conv.
  - eapply (runs_rep_chars _ grammar 12 (ECall R_single_quoted) plain_char).
    + intros c r p Hc. apply single_quoted_char. exact Hc.
    + exact Hk.
    + apply single_quoted_stop.
  - lia.
  - reflexivity.
Qed.

Ltac peg_hook ::=
  lazymatch goal with
  | |- Runs _ _ (ECall R_WHITESPACE) AAtomic _ _ Fail => apply ws_fail; solve [assumption | cbn; repeat split; lia | exact I]
  | |- Runs _ _ (ERep (ECall R_single_quoted)) AAtomic (_ ++ 39%N :: _) _ _ => apply single_quoted_body; assumption
  end.

Lemma string_single k rest pos a :
  forallb plain_char k = true ->
  RunsG (22 + length k) (ECall R_string) a (39%N :: k ++ 39%N :: rest) pos
        (Ok rest (pos + length k + 2) (if emits a then [Pair R_string pos (pos + length k + 2) []] else [])).
Proof. intros Hk. peg_upto. Qed.

(* ---------- index selector: decimal digits ---------- *)
Lemma is_digit_bounds c : is_digit c = true -> (48 <= c <= 57)%N.
Proof.
  unfold is_digit. intros H. apply andb_true_iff in H. destruct H as [H1 H2].
  apply N.leb_le in H1. apply N.leb_le in H2. lia.
Qed.

Lemma digit_ok c rest pos :
  is_digit c = true -> RunsG 3 (ECall R_DIGIT) AAtomic (c :: rest) pos (Ok rest (S pos) []).
Proof. intros H. apply is_digit_bounds in H. peg_upto. Qed.

Lemma digit_stop rest pos : RunsG 3 (ECall R_DIGIT) AAtomic (93%N :: rest) pos Fail.
Proof. peg_upto. Qed.

Lemma digits_body ds rest pos :
  forallb is_digit ds = true ->
  RunsG (6 + length ds) (ERep (ECall R_DIGIT)) AAtomic (ds ++ 93%N :: rest) pos
        (Ok (93%N :: rest) (pos + length ds) []).
Proof.
  intros Hd. eapply runs_conv.
  - eapply (runs_rep_chars _ grammar 3 (ECall R_DIGIT) is_digit).
    + intros c r p Hc. apply digit_ok. exact Hc.
    + exact Hd.
    + apply digit_stop.
  - lia.
  - reflexivity.
Qed.

Ltac peg_hook ::=
  lazymatch goal with
  | |- Runs _ _ (ECall R_WHITESPACE) AAtomic _ _ Fail => apply ws_fail; solve [assumption | cbn; repeat split; lia | exact I]
  | |- Runs _ _ (ERep (ECall R_single_quoted)) AAtomic (_ ++ 39%N :: _) _ _ => apply single_quoted_body; assumption
  | |- Runs _ _ (ERep (ECall R_DIGIT)) AAtomic (_ ++ 93%N :: _) _ _ => apply digits_body; assumption
  end.

(* what [dec_of_nat] prints: digits, the first one is 0 only for the number 0 *)
Definition dec_shape (ds : str) : Prop :=
  match ds with d :: r => forallb is_digit (d :: r) = true /\ (d = 48%N -> r = []) | [] => False end.

Lemma int_digits ds rest pos a :
  dec_shape ds ->
  RunsG (16 + length ds) (ECall R_int) a (ds ++ 93%N :: rest) pos
        (Ok (93%N :: rest) (pos + length ds) (if emits a then [Pair R_int pos (pos + length ds) []] else [])).
Proof.
  destruct ds as [|d r]; [intros []|]. intros [Hd Hz]. cbn [forallb] in Hd.
  apply andb_true_iff in Hd. destruct Hd as [Hd Hr]. apply is_digit_bounds in Hd.
  destruct (N.eq_dec d 48) as [->|Hn].
  - rewrite (Hz eq_refl). cbn [app]. peg_upto.
  - cbn [app]. peg_upto.
Qed.

Ltac solve_not_ws := solve [assumption | cbn [not_ws]; repeat split; lia | exact I].

Ltac peg_hook ::=
  lazymatch goal with
  | |- Runs _ _ (ECall R_WHITESPACE) AAtomic _ _ Fail => apply ws_fail; solve_not_ws
  | |- Runs _ _ (ECall R_S) _ _ _ _ => apply S_none; solve_not_ws
  | |- Runs _ _ (ERep (ECall R_single_quoted)) AAtomic (_ ++ 39%N :: _) _ _ => apply single_quoted_body; assumption
  | |- Runs _ _ (ERep (ECall R_DIGIT)) AAtomic (_ ++ 93%N :: _) _ _ => apply digits_body; assumption
  | |- Runs _ _ (ECall R_string) _ (39%N :: _ ++ 39%N :: _) _ _ => apply string_single; assumption
  | |- Runs _ _ (ECall R_int) _ (?d :: ?r ++ 93%N :: ?rest) _ _ =>
      change (d :: r ++ 93%N :: rest) with ((d :: r) ++ 93%N :: rest); apply int_digits; assumption
  | |- Runs _ _ (ECall R_int) _ (_ ++ 93%N :: _) _ _ => apply int_digits; assumption
  end.

(* the pair tree of a child segment holding one selector *)
Definition seg_pairs (st en : nat) (sel : pair rname) : pair rname :=
  Pair R_segment st en [Pair R_child_segment st en [Pair R_bracketed_selection st en [sel]]].

Definition name_sel_pair (st en : nat) : pair rname :=
  Pair R_selector st en [Pair R_name_selector st en [Pair R_string st en []]].
Definition index_sel_pair (st en : nat) : pair rname :=
  Pair R_selector st en [Pair R_index_selector st en [Pair R_int st en []]].

Lemma segment_name k rest pos :
  forallb plain_char k = true ->
  RunsG (60 + length k) (ECall R_segment) ANonAtomic (91%N :: 39%N :: k ++ 39%N :: 93%N :: rest) pos
        (Ok rest (pos + length k + 4)
            [seg_pairs pos (pos + length k + 4) (name_sel_pair (pos + 1) (pos + length k + 3))]).
Proof. intros Hk. unfold seg_pairs, name_sel_pair. peg_upto. Qed.

Lemma segment_index ds rest pos :
  dec_shape ds ->
  RunsG (60 + length ds) (ECall R_segment) ANonAtomic (91%N :: ds ++ 93%N :: rest) pos
        (Ok rest (pos + length ds + 2)
            [seg_pairs pos (pos + length ds + 2) (index_sel_pair (pos + 1) (pos + length ds + 1))]).
Proof.
  intros Hs. unfold seg_pairs, index_sel_pair.
  assert (Hs' := Hs). destruct ds as [|d r]; [destruct Hs|]. destruct Hs as [Hd Hz].
  cbn [forallb] in Hd. apply andb_true_iff in Hd. destruct Hd as [Hd Hr]. apply is_digit_bounds in Hd.
  change (91%N :: (d :: r) ++ 93%N :: rest) with (91%N :: d :: r ++ 93%N :: rest).
  peg_upto.
Qed.

(* ---------- a step of a Normalized Path ---------- *)
Definition plain_step (s : step) : Prop :=
  match s with SName k => forallb plain_char k = true | SIdx _ => True end.

(* the text of the step when the name needs no escaping *)
Definition step_text (s : step) : str :=
  match s with
  | SName k => 91%N :: 39%N :: k ++ [39%N; 93%N]
  | SIdx i => 91%N :: dec_of_nat i ++ [93%N]
  end.
Definition step_len (s : step) : nat := length (step_text s).

Definition step_pair (pos : nat) (s : step) : pair rname :=
  match s with
  | SName k => seg_pairs pos (pos + step_len s) (name_sel_pair (pos + 1) (pos + length k + 3))
  | SIdx i => seg_pairs pos (pos + step_len s) (index_sel_pair (pos + 1) (pos + length (dec_of_nat i) + 1))
  end.

Fixpoint steps_pairs (pos : nat) (l : loc) : list (pair rname) :=
  match l with [] => [] | s :: l' => step_pair pos s :: steps_pairs (pos + step_len s) l' end.
Definition steps_text (l : loc) : str := flat_map step_text l.

Lemma plain_char_doc c : plain_char c = true -> (N.leb 32 c && negb (N.eqb c 39) && negb (N.eqb c 92) = true)%N.
Proof. unfold plain_char. intros H. apply andb_true_iff in H. apply H. Qed.

Lemma escape_plain_chars k : forallb plain_char k = true -> flat_map np_escape_char k = k.
Proof.
  induction k as [|c k IH]; [reflexivity|]. cbn [forallb]. intros H.
  apply andb_true_iff in H. destruct H as [Hc Hk]. cbn [flat_map]. rewrite (IH Hk).
  apply plain_char_doc in Hc.
  apply andb_true_iff in Hc. destruct Hc as [Hc H92]. apply andb_true_iff in Hc. destruct Hc as [H32 H39].
  apply negb_true_iff in H92. apply negb_true_iff in H39. apply N.leb_le in H32.
  unfold np_escape_char.
  destruct (N.eqb_spec c 8); [lia|]. destruct (N.eqb_spec c 12); [lia|].
  destruct (N.eqb_spec c 10); [lia|]. destruct (N.eqb_spec c 13); [lia|].
  destruct (N.eqb_spec c 9); [lia|]. rewrite H39, H92.
  destruct (N.ltb_spec c 32); [lia|]. reflexivity.
Qed.

Lemma np_step_text s : plain_step s -> np_step s = step_text s.
Proof.
  destruct s as [k|i]; cbn [plain_step np_step step_text]; intros H.
  - rewrite (escape_plain_chars k H). reflexivity.
  - reflexivity.
Qed.

Lemma dec_shape_of_nat i : dec_shape (dec_of_nat i).
Proof.
  unfold dec_of_nat. destruct (dec_of_N_spec (N.of_nat i)) as [Hd [_ Hz]].
  unfold dec_shape. destruct (dec_of_N (N.of_nat i)) as [|d r]; [exact Hz|].
  split; [exact Hd|]. intros E. apply (Hz E).
Qed.

Lemma segment_step s rest pos :
  plain_step s ->
  RunsG (60 + step_len s) (ECall R_segment) ANonAtomic (step_text s ++ rest) pos
        (Ok rest (pos + step_len s) [step_pair pos s]).
Proof.
  destruct s as [k|i]; intros H; cbn [plain_step] in H; unfold step_len, step_pair, step_len; cbn [step_text].
  - eapply runs_conv.
    + replace ((91%N :: 39%N :: k ++ [39%N; 93%N]) ++ rest) with (91%N :: 39%N :: k ++ 39%N :: 93%N :: rest)
        by (cbn [app]; rewrite <- app_assoc; reflexivity).
      apply (segment_name k rest pos H).
    + cbn [length]. rewrite app_length. cbn [length]. lia.
    + cbn [length]. rewrite app_length. cbn [length]. repeat (f_equal; try lia).
  - eapply runs_conv.
    + replace ((91%N :: dec_of_nat i ++ [93%N]) ++ rest) with (91%N :: dec_of_nat i ++ 93%N :: rest)
        by (cbn [app]; rewrite <- app_assoc; reflexivity).
      apply (segment_index (dec_of_nat i) rest pos (dec_shape_of_nat i)).
    + cbn [length]. rewrite app_length. cbn [length]. lia.
    + cbn [length]. rewrite app_length. cbn [length]. repeat (f_equal; try lia).
Qed.

Lemma step_text_head s rest : exists r, step_text s ++ rest = 91%N :: r.
Proof. destruct s; cbn [step_text app]; eexists; reflexivity. Qed.

Lemma step_len_pos s : (2 <= step_len s)%nat.
Proof. destruct s; unfold step_len; cbn [step_text length]; rewrite app_length; cbn [length]; lia. Qed.

Definition seg_iter : expr rname := ESeq (ECall R_S) (ECall R_segment).

Lemma seg_iter_end pos : RunsG 40 seg_iter ANonAtomic [] pos Fail.
Proof. unfold seg_iter. peg_upto. Qed.

Lemma seg_iter_step s rest pos :
  plain_step s ->
  RunsG (62 + step_len s) seg_iter ANonAtomic (step_text s ++ rest) pos
        (Ok rest (pos + step_len s) [step_pair pos s]).
Proof.
  intros H. destruct (step_text_head s rest) as [r E]. unfold seg_iter.
  eapply runs_conv.
  - eapply runs_seq_ok.
    + apply S_none. rewrite E. cbn [not_ws]. repeat split; lia.
    + apply skip_none. rewrite E. cbn [not_ws]. repeat split; lia.
    + apply segment_step. exact H.
  - lia.
  - reflexivity.
Qed.

Lemma reptail_steps l : forall pos,
  Forall plain_step l ->
  RunsG (70 + length l + length (steps_text l)) (ERepTail seg_iter) ANonAtomic (steps_text l) pos
        (Ok [] (pos + length (steps_text l)) (steps_pairs pos l)).
Proof.
  induction l as [|s l IH]; intros pos Hl.
  - cbn [steps_text flat_map length steps_pairs]. eapply runs_conv.
    + eapply runs_reptail_stop; [apply skip_none; exact I|apply seg_iter_end].
    + lia.
    + f_equal. lia.
  - inversion Hl as [|? ? Hs Hl']; subst. unfold steps_text. cbn [flat_map steps_pairs]. fold (steps_text l).
    destruct (step_text_head s (steps_text l)) as [r E].
    eapply runs_conv.
    + eapply runs_reptail_more.
      * apply skip_none. rewrite E. cbn [not_ws]. repeat split; lia.
      * apply seg_iter_step. exact Hs.
      * pose proof (step_len_pos s). lia.
      * apply IH. exact Hl'.
    + rewrite app_length. fold (step_len s). cbn [length]. lia.
    + rewrite app_length. fold (step_len s). cbn [app]. f_equal. lia.
Qed.

Lemma steps_text_not_ws l : not_ws (steps_text l).
Proof.
  destruct l as [|s l]; [exact I|]. unfold steps_text. cbn [flat_map].
  destruct (step_text_head s (flat_map step_text l)) as [r E]. rewrite E. cbn [not_ws]. repeat split; lia.
Qed.

Lemma segments_steps l pos :
  Forall plain_step l ->
  RunsG (75 + length l + length (steps_text l)) (ECall R_segments) ANonAtomic (steps_text l) pos
        (Ok [] (pos + length (steps_text l))
            [Pair R_segments pos (pos + length (steps_text l)) (steps_pairs pos l)]).
Proof.
  intros Hl. destruct l as [|s l].
  - cbn [steps_text flat_map length steps_pairs]. eapply runs_conv.
    + eapply runs_call_normal_ok; [reflexivity|]. eapply runs_rep_none. apply seg_iter_end.
    + lia.
    + cbn [emits]. repeat (f_equal; try lia).
  - inversion Hl as [|? ? Hs Hl']; subst. unfold steps_text. cbn [flat_map steps_pairs]. fold (steps_text l).
    eapply runs_conv.
    + eapply runs_call_normal_ok; [reflexivity|]. eapply runs_rep_some.
      * apply seg_iter_step. exact Hs.
      * apply reptail_steps. exact Hl'.
    + rewrite app_length. fold (step_len s). cbn [length]. lia.
    + rewrite app_length. fold (step_len s). cbn [emits app]. repeat (f_equal; try lia).
Qed.

Definition main_pairs (l : loc) : pair rname :=
  let n := S (length (steps_text l)) in
  Pair R_main 0 n [Pair R_jp_query 0 n [Pair R_segments 1 n (steps_pairs 1 l)]; Pair R_EOI n n []].

Lemma main_steps l :
  Forall plain_step l ->
  RunsG (85 + length l + length (steps_text l)) (ECall R_main) ANonAtomic (36%N :: steps_text l) 0
        (Ok [] (S (length (steps_text l))) [main_pairs l]).
Proof.
  intros Hl. pose proof (steps_text_not_ws l) as Hw. unfold main_pairs.
  eapply runs_conv.
  - eapply runs_call_normal_ok; [reflexivity|].
    eapply runs_seq_ok.
    + eapply runs_seq_ok.
      * apply runs_soi.
      * apply skip_none. cbn [not_ws]. repeat split; lia.
      * eapply runs_call_normal_ok; [reflexivity|].
        eapply runs_seq_ok.
        -- eapply runs_call_silent; [reflexivity|]. eapply runs_str_ok. reflexivity.
        -- apply skip_none. exact Hw.
        -- apply segments_steps. exact Hl.
    + apply skip_none. exact I.
    + apply runs_eoi_ok.
  - cbn [length]. lia.
  - cbn [emits app length g_eoi grammar]. repeat (f_equal; try lia).
Qed.
