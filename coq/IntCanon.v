(* IntCanon.v — the canonical decimal spelling is unique: a digit string without a leading zero (or exactly "0") IS the
   decimal rendering of its value.  With TokenFacts.int_token_canonical: an integer token that parse::<i64> reads as z is
   the text int_text z - no other spelling (01, -0, +1) is ever read as an integer, for every input. *)
From Coq Require Import List Arith NArith ZArith Bool Lia.
From JP Require Import Base Ast Peg PegFacts Dec2Bin Build NormPathFacts FragParse NpBuild PegTerm PegAlpha PegTree TokenFacts.
From JP.gen Require Import Grammar.
Import ListNotations.
Local Open Scope Z_scope.

Lemma digit_val_range c : is_digit c = true -> 0 <= digit_val c <= 9.
Proof. unfold is_digit, digit_val. intros H. apply andb_true_iff in H. destruct H as [H1 H2]. apply N.leb_le in H1. apply N.leb_le in H2. lia. Qed.

Lemma digit_val_inj c d : is_digit c = true -> is_digit d = true -> digit_val c = digit_val d -> c = d.
Proof.
  unfold is_digit, digit_val. intros Hc Hd E. apply andb_true_iff in Hc. apply andb_true_iff in Hd.
  destruct Hc as [H1 H2]. destruct Hd as [H3 H4]. apply N.leb_le in H1, H2, H3, H4. lia.
Qed.

(* value of a digit string, with its bound *)
Lemma digits_val_lin : forall s a, forallb is_digit s = true ->
  exists v, digits_val a s = Some (a * 10 ^ Z.of_nat (length s) + v) /\ 0 <= v < 10 ^ Z.of_nat (length s).
Proof.
  induction s as [|c s IH]; intros a Hs; cbn [digits_val length forallb] in *.
  - exists 0. split; [f_equal; cbn; lia|cbn; lia].
  - apply andb_true_iff in Hs. destruct Hs as [Hc Hs]. rewrite Hc. destruct (IH (a * 10 + digit_val c) Hs) as [v [E Hv]].
    pose proof (digit_val_range c Hc) as Hr.
    exists (digit_val c * 10 ^ Z.of_nat (length s) + v). split.
    + rewrite E. f_equal. rewrite Nat2Z.inj_succ, Z.pow_succ_r by lia. ring.
    + rewrite Nat2Z.inj_succ, Z.pow_succ_r by lia. nia.
Qed.

(* equal length, equal value: equal strings *)
Lemma digits_val_inj_len : forall s1 s2 a1 a2 v,
  length s1 = length s2 -> forallb is_digit s1 = true -> forallb is_digit s2 = true ->
  digits_val a1 s1 = Some v -> digits_val a2 s2 = Some v -> a1 = a2 /\ s1 = s2.
Proof.
  induction s1 as [|c s1 IH]; intros s2 a1 a2 v Hl H1 H2 E1 E2; destruct s2 as [|d s2]; try discriminate.
  - cbn in E1, E2. split; [congruence|reflexivity].
  - cbn [length] in Hl. injection Hl as Hl. cbn [forallb] in H1, H2. apply andb_true_iff in H1. apply andb_true_iff in H2.
    destruct H1 as [Hc H1]. destruct H2 as [Hd H2]. cbn [digits_val] in E1, E2. rewrite Hc in E1. rewrite Hd in E2.
    destruct (IH s2 _ _ v Hl H1 H2 E1 E2) as [Ea ->].
    pose proof (digit_val_range c Hc). pose proof (digit_val_range d Hd).
    assert (a1 = a2 /\ digit_val c = digit_val d) as [-> Ed] by lia.
    split; [reflexivity|]. f_equal. apply digit_val_inj; assumption.
Qed.

Definition nlz (s : str) : Prop := match s with c :: _ => c <> 48%N | [] => False end.

(* a string of digits that does not begin with 0 has a value of exactly its length in digits *)
Lemma nlz_value_bounds s v : nlz s -> forallb is_digit s = true -> digits_val 0 s = Some v ->
  10 ^ (Z.of_nat (length s) - 1) <= v < 10 ^ Z.of_nat (length s).
Proof.
  destruct s as [|c s]; [intros []|]. cbn [nlz forallb digits_val length]. intros Hn Hs E.
  apply andb_true_iff in Hs. destruct Hs as [Hc Hs]. rewrite Hc in E. cbn [Z.mul Z.add] in E.
  destruct (digits_val_lin s (digit_val c) Hs) as [w [Ew Hw]]. rewrite Ew in E. inversion E; subst v. clear E.
  pose proof (digit_val_range c Hc) as Hr.
  assert (Hc1 : 1 <= digit_val c). { unfold digit_val in *. unfold is_digit in Hc. apply andb_true_iff in Hc. destruct Hc as [Ha Hb]. apply N.leb_le in Ha. lia. }
  rewrite Nat2Z.inj_succ. replace (Z.succ (Z.of_nat (length s)) - 1) with (Z.of_nat (length s)) by lia.
  rewrite Z.pow_succ_r by lia. nia.
Qed.

Lemma pow10_mono a b : 0 <= a -> a < b -> 10 ^ a < 10 ^ b.
Proof. intros. apply Z.pow_lt_mono_r; lia. Qed.

Lemma nlz_unique s1 s2 v : nlz s1 -> nlz s2 -> forallb is_digit s1 = true -> forallb is_digit s2 = true ->
  digits_val 0 s1 = Some v -> digits_val 0 s2 = Some v -> s1 = s2.
Proof.
  intros N1 N2 D1 D2 E1 E2.
  pose proof (nlz_value_bounds s1 v N1 D1 E1) as B1. pose proof (nlz_value_bounds s2 v N2 D2 E2) as B2.
  assert (Hl : length s1 = length s2).
  { destruct (Nat.lt_trichotomy (length s1) (length s2)) as [H|[H|H]]; [|exact H|].
    - exfalso. assert (10 ^ Z.of_nat (length s1) <= 10 ^ (Z.of_nat (length s2) - 1)) by (apply Z.pow_le_mono_r; lia). lia.
    - exfalso. assert (10 ^ Z.of_nat (length s2) <= 10 ^ (Z.of_nat (length s1) - 1)) by (apply Z.pow_le_mono_r; lia). lia. }
  destruct (digits_val_inj_len s1 s2 0 0 v Hl D1 D2 E1 E2) as [_ E]. exact E.
Qed.

(* the rendering of a positive number has no leading zero *)
Lemma dec_of_N_nlz n : (0 < n)%N -> nlz (dec_of_N n).
Proof.
  intros Hn. destruct (dec_of_N_spec n) as [_ [_ Hz]]. unfold no_lead_zero in Hz. destruct (dec_of_N n) as [|c r]; [destruct Hz|].
  cbn [nlz]. intros ->. destruct (Hz eq_refl) as [E _]. lia.
Qed.

Lemma nlz_is_dec s v : nlz s -> forallb is_digit s = true -> digits_val 0 s = Some v -> s = dec_of_N (Z.to_N v).
Proof.
  intros Hn Hd E. pose proof (nlz_value_bounds s v Hn Hd E) as B.
  assert (Hv : 0 < v). { assert (0 < 10 ^ (Z.of_nat (length s) - 1)) by (apply Z.pow_pos_nonneg; [lia|destruct s; [destruct Hn|cbn [length]; lia]]). lia. }
  apply (nlz_unique s (dec_of_N (Z.to_N v)) v Hn).
  - apply dec_of_N_nlz. lia.
  - exact Hd.
  - apply dec_of_N_spec.
  - exact E.
  - rewrite dec_of_N_value. f_equal. lia.
Qed.

(* canonical integer text that parse::<i64> reads as z is int_text z *)
Theorem canon_int_round_trip u z : canon_int u = true -> parse_i64 u = Some z -> u = int_text z.
Proof.
  intros Hc Hp. destruct u as [|c r]; [discriminate|]. cbn [canon_int] in Hc.
  destruct (N.eqb_spec c 48) as [->|Hn48].
  - destruct r; [|discriminate]. cbn in Hp. inversion Hp; subst z. reflexivity.
  - destruct (N.eqb_spec c 45) as [->|Hn45].
    + destruct r as [|d r]; [discriminate|]. apply andb_true_iff in Hc. destruct Hc as [Hd1 Hr].
      assert (Hdd : is_digit d = true).
      { unfold is_digit1 in Hd1. unfold is_digit. apply andb_true_iff in Hd1. destruct Hd1 as [A B]. apply N.leb_le in A. apply N.leb_le in B.
        apply andb_true_iff; split; apply N.leb_le; lia. }
      assert (Hnz : nlz (d :: r)).
      { cbn [nlz]. intros ->. unfold is_digit1 in Hd1. cbn in Hd1. discriminate. }
      assert (Hds : forallb is_digit (d :: r) = true) by (cbn [forallb]; rewrite Hdd, Hr; reflexivity).
      unfold parse_i64 in Hp. destruct (digits_val 0 (d :: r)) as [v|] eqn:Ev; [|discriminate].
      destruct (Z.leb (- 2 ^ 63) (- v) && Z.leb (- v) (2 ^ 63 - 1)); [|discriminate]. inversion Hp; subst z.
      pose proof (nlz_value_bounds _ _ Hnz Hds Ev) as B.
      assert (Hv : 0 < v). { assert (0 < 10 ^ (Z.of_nat (length (d :: r)) - 1)) by (apply Z.pow_pos_nonneg; cbn [length]; lia). lia. }
      unfold int_text. destruct (Z.ltb_spec (- v) 0); [|lia]. f_equal.
      replace (- - v) with v by lia. apply nlz_is_dec; assumption.
    + apply andb_true_iff in Hc. destruct Hc as [Hd1 Hr].
      assert (Hdd : is_digit c = true).
      { unfold is_digit1 in Hd1. unfold is_digit. apply andb_true_iff in Hd1. destruct Hd1 as [A B]. apply N.leb_le in A. apply N.leb_le in B.
        apply andb_true_iff; split; apply N.leb_le; lia. }
      assert (Hnz : nlz (c :: r)) by (cbn [nlz]; exact Hn48).
      assert (Hds : forallb is_digit (c :: r) = true) by (cbn [forallb]; rewrite Hdd, Hr; reflexivity).
      assert (Hn43 : c <> 43%N). { intros ->. cbn in Hdd. discriminate. }
      assert (Hp' : match digits_val 0 (c :: r) with
                    | Some v => if Z.leb (- 2 ^ 63) v && Z.leb v (2 ^ 63 - 1) then Some v else None | None => None end = Some z).
      { revert Hp. clear -Hdd. destruct (digit_cases c Hdd) as [->|[->|[->|[->|[->|[->|[->|[->|[->| ->]]]]]]]]]; intros Hp; exact Hp. }
      destruct (digits_val 0 (c :: r)) as [v|] eqn:Ev; [|discriminate].
      destruct (Z.leb (- 2 ^ 63) v && Z.leb v (2 ^ 63 - 1)); [|discriminate]. inversion Hp'; subst z.
      pose proof (nlz_value_bounds _ _ Hnz Hds Ev) as B.
      assert (Hv : 0 < v). { assert (0 < 10 ^ (Z.of_nat (length (c :: r)) - 1)) by (apply Z.pow_pos_nonneg; cbn [length]; lia). lia. }
      unfold int_text. destruct (Z.ltb_spec v 0); [lia|]. apply nlz_is_dec; assumption.
Qed.

Theorem int_token_round_trip s st en kids z :
  inforest rname (Pair R_int st en kids) (parse_tokens s) -> parse_i64 (slice s st en) = Some z -> slice s st en = int_text z.
Proof. intros Hin Hp. apply canon_int_round_trip; [exact (int_token_canonical s st en kids Hin)|exact Hp]. Qed.
Print Assumptions int_token_round_trip.
