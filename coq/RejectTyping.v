(* RejectTyping.v — C07: ill-typed function calls are rejected, at string level.  The grammar accepts every call
   whatever its argument types (FilterParse.fn_runs asks nothing of the types); TestFunction::try_new and the
   test/comparable position checks of parser.rs refuse.  Proved for every call of the five RFC functions whose
   arguments are themselves well-formed, in the context $[?<call>] and $[?!<call>]. *)
From Coq Require Import List Arith NArith ZArith Bool Lia.
From JP Require Import Base Ast Peg PegFacts NormPath NormPathFacts Dec2Bin Known Build BuildSteps
  NpParse NpBuild FragParse FragBuild GenParse GenBuild FilterParse FilterBuild FilterFacts BaseFacts.
From JP.gen Require Import Grammar.
Import ListNotations.
Local Open Scope nat_scope.

Ltac leq := repeat (first [rewrite app_length | progress cbn [length]]); lia.
Ltac list_eq ::= repeat (progress cbn [app] || rewrite <- app_assoc); reflexivity.

Section T.
  Variable sel : Type.
  Variable stext : sel -> str.
  Variable spair : nat -> sel -> pair rname.
  Variable sgood : sel -> Prop.
  Variable sast : sel -> selector.
  Variable sfuel : sel -> nat.
  Variable inp : str.
  Hypothesis b_sel : forall f pre s rest,
    inp = pre ++ stext s ++ rest -> sgood s -> sfuel s <= f ->
    b_selector inp (S f) (spair (length pre) s) = Some (sast s).

  Notation patok := (fun _ : fnarg => True).
  Notation xfn := (xfn sel).
  Notation xarg := (xarg sel).
  Notation ftext := (ftext sel stext).
  Notation argtext := (argtext sel stext).
  Notation fpair := (fpair sel stext spair).
  Notation argpair := (argpair sel stext spair).
  Notation arg_ast := (arg_ast sel sast).
  Notation fn_ast := (fn_ast sel sast).
  Notation arggood := (arggood sel sgood sast patok).
  Notation argfuel := (argfuel sel sfuel).
  Notation arg_walk := (arg_walk inp).

  Definition fn1_untyped (k : fn1) (a : fnarg) : Prop :=
    match k with FLength => is_value_type a = false | _ => is_nodes_type a = false end.

  Lemma try_new_fn1_bad k a : fn1_untyped k a -> tfun_try_new (fn1_name k) [a] = None.
  Proof. destruct k; cbn [fn1_untyped fn1_name]; intros H; unfold tfun_try_new; vm_compute str_eqb; cbv iota; rewrite H; reflexivity. Qed.

  Lemma try_new_fn2_bad k a b : (k = FMatch \/ k = FSearch) -> is_value_type a = false \/ is_value_type b = false ->
    tfun_try_new (fn2_name k) [a; b] = None.
  Proof.
    intros Hk Hab. destruct Hk as [-> | ->]; cbn [fn2_name]; unfold tfun_try_new; vm_compute str_eqb; cbv iota;
      destruct Hab as [H|H]; rewrite H; rewrite ?andb_false_r; reflexivity.
  Qed.

  (* a call with one argument of the wrong type *)
  Lemma bfn_illtyped1 k a fu pre rest :
    inp = pre ++ ftext (XFn1 _ k a) ++ rest -> arggood a -> fn1_untyped k (arg_ast a) -> S (argfuel a) <= fu ->
    b_function_expr inp fu (fpair (length pre) (XFn1 _ k a)) = None.
  Proof.
    intros Ei Hga Hty Hf. destruct fu as [|fu]; [lia|].
    pose proof (proj2 (bfn_all sel stext spair sgood sast patok sfuel inp b_sel) a) as IHa.
    rewrite (fpair_fn1 sel stext spair). rewrite (ftext_fn1 sel stext) in *. repeat (rewrite <- app_assoc in Ei; cbn [app] in Ei).
    rewrite b_function_expr_step. cbn [p_kids].
    rewrite (p_str_at inp _ _ _ _ pre (fn1_name k ++ 40%N :: argtext a ++ [41%N]) rest); [|rewrite Ei; list_eq|reflexivity|leq].
    rewrite (p_str_at inp _ _ _ _ pre (fn1_name k) (40%N :: argtext a ++ 41%N :: rest) Ei eq_refl eq_refl).
    rewrite nth_error_mid. change (negb (N.eqb 40 40)) with false. cbv iota.
    cbn [mapM].
    replace (length pre + length (fn1_name k) + 1) with (length (pre ++ fn1_name k ++ [40%N])) by leq.
    assert (Ha : arg_walk fu (argpair (length (pre ++ fn1_name k ++ [40%N])) a) = Some (arg_ast a))
      by (apply (IHa fu (pre ++ fn1_name k ++ [40%N]) (41%N :: rest)); [rewrite Ei; list_eq|exact Hga|lia]).
    unfold FilterBuild.arg_walk in Ha. rewrite Ha.
    cbn [bind]. apply try_new_fn1_bad. exact Hty.
  Qed.

  (* match / search with an argument that is not of ValueType *)
  Lemma bfn_illtyped2 k a b fu pre rest :
    inp = pre ++ ftext (XFn2 _ k a b) ++ rest -> (k = FMatch \/ k = FSearch) -> arggood a -> arggood b ->
    is_value_type (arg_ast a) = false \/ is_value_type (arg_ast b) = false ->
    S (Nat.max (argfuel a) (argfuel b)) <= fu ->
    b_function_expr inp fu (fpair (length pre) (XFn2 _ k a b)) = None.
  Proof.
    intros Ei Hk Hga Hgb Hty Hf. destruct fu as [|fu]; [lia|].
    pose proof (proj2 (bfn_all sel stext spair sgood sast patok sfuel inp b_sel)) as IH.
    rewrite (fpair_fn2 sel stext spair). rewrite (ftext_fn2 sel stext) in *. repeat (rewrite <- app_assoc in Ei; cbn [app] in Ei).
    rewrite b_function_expr_step. cbn [p_kids].
    rewrite (p_str_at inp _ _ _ _ pre (fn2_name k ++ 40%N :: argtext a ++ 44%N :: argtext b ++ [41%N]) rest); [|rewrite Ei; list_eq|reflexivity|leq].
    rewrite (p_str_at inp _ _ _ _ pre (fn2_name k) (40%N :: argtext a ++ 44%N :: argtext b ++ 41%N :: rest) Ei eq_refl eq_refl).
    rewrite nth_error_mid. change (negb (N.eqb 40 40)) with false. cbv iota.
    cbn [mapM].
    replace (length pre + length (fn2_name k) + 1) with (length (pre ++ fn2_name k ++ [40%N])) by leq.
    assert (Ha : arg_walk fu (argpair (length (pre ++ fn2_name k ++ [40%N])) a) = Some (arg_ast a))
      by (apply (IH a fu (pre ++ fn2_name k ++ [40%N]) (44%N :: argtext b ++ 41%N :: rest)); [rewrite Ei; list_eq|exact Hga|lia]).
    unfold FilterBuild.arg_walk in Ha. rewrite Ha. cbn [bind].
    replace (length (pre ++ fn2_name k ++ [40%N]) + length (argtext a) + 1)
      with (length (pre ++ fn2_name k ++ 40%N :: argtext a ++ [44%N])) by leq.
    assert (Hb : arg_walk fu (argpair (length (pre ++ fn2_name k ++ 40%N :: argtext a ++ [44%N])) b) = Some (arg_ast b))
      by (apply (IH b fu (pre ++ fn2_name k ++ 40%N :: argtext a ++ [44%N]) (41%N :: rest)); [rewrite Ei; list_eq|exact Hgb|lia]).
    unfold FilterBuild.arg_walk in Hb. rewrite Hb.
    cbn [bind]. apply try_new_fn2_bad; assumption.
  Qed.

  Notation fgood := (fgood sel sgood sast patok).
  Notation ffuel := (ffuel sel sfuel).
  Notation atext := (atext sel stext).
  Notation apair := (apair sel stext spair).

  (* a call that parser.rs refuses where a test is expected: an argument of the wrong type, or a well-typed call
     of a ValueType function (length, count, value) used as a test *)
  Inductive fn_refused : xfn -> Prop :=
  | refused_arg1 k a : arggood a -> fn1_untyped k (arg_ast a) -> fn_refused (XFn1 _ k a)
  | refused_arg2 k a b : (k = FMatch \/ k = FSearch) -> arggood a -> arggood b ->
      is_value_type (arg_ast a) = false \/ is_value_type (arg_ast b) = false -> fn_refused (XFn2 _ k a b)
  | refused_value_fn f : fgood f -> is_comparable_fn (fn_ast f) = true -> fn_refused f.

  Lemma bfn_refused f fu pre rest :
    inp = pre ++ ftext f ++ rest -> fn_refused f -> ffuel f <= fu ->
    match b_function_expr inp fu (fpair (length pre) f) with
    | None => True
    | Some tf => is_comparable_fn tf = true
    end.
  Proof.
    intros Ei Hr Hf. destruct Hr as [k a Hga Hty|k a b Hk Hga Hgb Hty|f Hg Hc].
    - rewrite (bfn_illtyped1 k a fu pre rest Ei Hga Hty Hf). exact I.
    - rewrite (bfn_illtyped2 k a b fu pre rest Ei Hk Hga Hgb Hty Hf). exact I.
    - rewrite (proj1 (bfn_all sel stext spair sgood sast patok sfuel inp b_sel) f fu pre rest Ei Hg Hf). exact Hc.
  Qed.

  Lemma batom_fn_refused neg f fu pre rest :
    inp = pre ++ atext (XFnTest _ neg f) ++ rest -> fn_refused f -> 2 + ffuel f <= fu ->
    b_filter_atom inp fu (apair (length pre) (XFnTest _ neg f)) = None.
  Proof.
    intros Ei Hr Hf. destruct fu as [|[|fu]]; try lia.
    cbn [FilterParse.atext FilterParse.apair] in *.
    rewrite b_filter_atom_step. cbn [next_down p_kids bind]. rules. cbn [p_kids].
    rewrite existsb_not by reflexivity.
    rewrite (fold_not_then (is_rule R_test) (b_test inp (S fu)) neg (length pre)); [|reflexivity|reflexivity].
    rewrite b_test_step. cbn [next_down p_kids bind].
    assert (Hr1 : is_rule R_function_expr (fpair (length pre + length (bang neg)) f) = true) by (destruct f; reflexivity).
    assert (Hj : is_rule R_jp_query (fpair (length pre + length (bang neg)) f) = false) by (destruct f; reflexivity).
    assert (Hq : is_rule R_rel_query (fpair (length pre + length (bang neg)) f) = false) by (destruct f; reflexivity).
    rewrite Hj, Hq, Hr1.
    replace (length pre + length (bang neg)) with (length (pre ++ bang neg)) by leq.
    pose proof (bfn_refused f fu (pre ++ bang neg) rest) as Hb.
    destruct (b_function_expr inp fu (fpair (length (pre ++ bang neg)) f)) as [tf|]; cbn [bind]; [|reflexivity].
    rewrite Hb; [reflexivity|rewrite Ei; list_eq|exact Hr|lia].
  Qed.
End T.

(* ---------- the whole query $[?<call>] / $[?!<call>] over plain selectors ---------- *)
Definition call_query (neg : bool) (f : xfn fsel) : list (gseg (SelT 1)) :=
  [GBracket (SelT 1) (inr [[XFnTest (SelT 0) neg f]]) []].

Lemma call_query_text neg f :
  gsegs_text (SelT 1) (stextT 1) (call_query neg f) = 91%N :: 63%N :: (bang neg ++ ftext fsel sel_text f) ++ [93%N].
Proof. cbn. rewrite app_nil_r. reflexivity. Qed.

Theorem illtyped_call_rejected neg (f : xfn fsel) :
  fok fsel sel_ok f -> fn_refused fsel plain_good sel_ast f ->
  parse_query (36%N :: 91%N :: 63%N :: (bang neg ++ ftext fsel sel_text f) ++ [93%N]) = PErr.
Proof.
  intros Hok Href. set (q := call_query neg f). rewrite <- (call_query_text neg f). fold q.
  set (inp := 36%N :: gsegs_text (SelT 1) (stextT 1) q).
  assert (Hq : Forall (gseg_ok (SelT 1) (sokT 1)) q).
  { constructor; [|constructor]. split; [|constructor]. split; [discriminate|]. intros c [<-|[]]. split; [discriminate|].
    intros a [<-|[]]. constructor. exact Hok. }
  pose proof (gquery_not_trimmed (SelT 1) (stextT 1) (sokT 1) q Hq) as Ht. fold inp in Ht.
  unfold parse_query, parse_model. rewrite Ht, str_eqb_refl. cbn [negb]. unfold parse_rule.
  destruct (tower_spec 1) as [H1 [H2 _]].
  pose proof (qdep_len (SelT 1) (stextT 1) (sokT 1) (sdepT 1) (tower_depth 1) q Hq) as Hd.
  assert (Hfuel : 100 + (length q + qdep (SelT 1) (sdepT 1) q) <= parse_fuel inp).
  { unfold parse_fuel, inp. cbn [length]. lia. }
  pose proof (gmain_runs (SelT 1) (stextT 1) (spairT 1) (sokT 1) (sdepT 1) H1 H2 q Hq (parse_fuel inp) Hfuel) as Hrun.
  fold inp in Hrun. rewrite Hrun. unfold gquery_pairs. cbn [next_down p_kids]. unfold b_jp_query. cbn [next_down p_kids bind].
  set (F := ftext fsel sel_text f). set (B := bang neg).
  assert (Hff : ffuel fsel (fun _ => 0) f + 16 <= 8 * length F) by (apply (ffuel_len fsel sel_text (fun _ => 0)); intros s0; lia).
  assert (E5 : exists fu, parse_fuel inp = S (S (S (S (S (S (S (S fu))))))) /\ 2 + ffuel fsel (fun _ => 0) f <= fu).
  { exists (992 + 400 * length inp). unfold parse_fuel. split; [lia|]. unfold inp, q. rewrite (call_query_text neg f). fold F B.
    cbn [length]. rewrite !app_length. cbn [length]. lia. }
  destruct E5 as [fu [E5 Hfu]]. rewrite E5.
  assert (Einp : inp = [36; 91; 63]%N ++ (B ++ F) ++ [93%N]) by (unfold inp, q; rewrite (call_query_text neg f); reflexivity).
  rewrite b_segments_step. unfold q, call_query. cbn [p_kids gsegs_pairs mapM next_down bind]. unfold gseg_pair. cbn [next_down p_kids bind].
  rewrite b_segment_step. rules.
  erewrite (p_str_at inp _ _ _ _ [36%N] (91%N :: 63%N :: (B ++ F) ++ [93%N]) []);
    [|rewrite Einp; rewrite (app_nil_r (91%N :: 63%N :: (B ++ F) ++ [93%N])); reflexivity|reflexivity|].
  2:{ pose proof (f_equal (@length N) (call_query_text neg f)) as Hl. unfold call_query, gsegs_text in Hl. cbn [flat_map] in Hl.
      rewrite app_nil_r in Hl. etransitivity; [apply f_equal; exact Hl|]. reflexivity. }
  cbv zeta. cbn [negb str_eqb trim_start_blank drop_while next_down p_kids bind].
  rewrite b_child_segment_step. unfold gbracket_pair. rules. cbn [p_kids gsels_pairs mapM].
  cbn [spairT spair']. unfold filter_pair. rewrite b_selector_step. cbn [next_down p_kids bind]. rules. cbn [next_down p_kids bind].
  unfold or_pair. rewrite b_logical_expr_step. cbn [p_kids pairs_sep mapM]. unfold and_pair.
  rewrite b_logical_expr_and_step. cbn [p_kids pairs_sep mapM].
  change (1 + 1 + 1) with (length [36; 91; 63]%N).
  rewrite (batom_fn_refused (SelT 0) (stextT 0) sel_pair plain_good sel_ast (fun _ => 0) inp (plain_bspec inp) neg f (S (S fu)) [36; 91; 63]%N [93%N]);
    [reflexivity|exact Einp|exact Href|apply le_S, le_S; exact Hfu].
Qed.
