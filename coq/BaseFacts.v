(* BaseFacts.v — lemmas about strings, association lists, enum_from. *)
From Coq Require Import List NArith ZArith Bool Lia.
From JP Require Import Base.
Import ListNotations.

Lemma str_eqb_refl s : str_eqb s s = true.
Proof. induction s as [|c s IH]; [reflexivity|]. cbn [str_eqb]. rewrite N.eqb_refl. exact IH. Qed.

Lemma str_eqb_eq a b : str_eqb a b = true <-> a = b.
Proof.
  split.
  - revert b. induction a as [|x a IH]; intros [|y b] H; try discriminate; [reflexivity|].
    cbn [str_eqb] in H. apply andb_true_iff in H. destruct H as [H1 H2].
    apply N.eqb_eq in H1. subst. f_equal. apply IH. exact H2.
  - intros ->. apply str_eqb_refl.
Qed.

Lemma str_eqb_sym a b : str_eqb a b = str_eqb b a.
Proof.
  destruct (str_eqb a b) eqn:E.
  - apply str_eqb_eq in E. subst. symmetry. apply str_eqb_refl.
  - destruct (str_eqb b a) eqn:E2; [|reflexivity].
    apply str_eqb_eq in E2. subst. rewrite str_eqb_refl in E. discriminate.
Qed.

Lemma str_eqb_neq a b : str_eqb a b = false <-> a <> b.
Proof.
  split.
  - intros H ->. rewrite str_eqb_refl in H. discriminate.
  - intros H. destruct (str_eqb a b) eqn:E; [|reflexivity]. apply str_eqb_eq in E. contradiction.
Qed.

Lemma enum_from_map {A} (l : list A) i : map snd (enum_from i l) = l.
Proof. revert i. induction l as [|x l IH]; intros i; [reflexivity|]. cbn. f_equal. apply IH. Qed.

Lemma enum_from_length {A} (l : list A) i : length (enum_from i l) = length l.
Proof. revert i. induction l as [|x l IH]; intros i; [reflexivity|]. cbn. f_equal. apply IH. Qed.

Lemma enum_from_nth {A} (l : list A) i n x :
  nth_error l n = Some x -> nth_error (enum_from i l) n = Some ((i + n)%nat, x).
Proof.
  revert i n. induction l as [|y l IH]; intros i [|n] H; try discriminate.
  - cbn in *. inversion H. subst. f_equal. f_equal. lia.
  - cbn in *. rewrite (IH (S i) n H). f_equal. f_equal. lia.
Qed.

Lemma enum_from_app {A} (l1 l2 : list A) i :
  enum_from i (l1 ++ l2) = enum_from i l1 ++ enum_from (i + length l1) l2.
Proof.
  revert i. induction l1 as [|x l1 IH]; intros i; cbn.
  - f_equal. lia.
  - f_equal. rewrite IH. f_equal. f_equal. lia.
Qed.

Lemma flat_map_app' {A B} (f : A -> list B) l1 l2 :
  flat_map f (l1 ++ l2) = flat_map f l1 ++ flat_map f l2.
Proof. induction l1 as [|x l1 IH]; cbn; [reflexivity|]. rewrite IH, app_assoc. reflexivity. Qed.

Lemma flat_map_flat_map {A B C} (f : A -> list B) (g : B -> list C) l :
  flat_map g (flat_map f l) = flat_map (fun x => flat_map g (f x)) l.
Proof. induction l as [|x l IH]; cbn; [reflexivity|]. rewrite flat_map_app', IH. reflexivity. Qed.

Lemma flat_map_map {A B C} (f : A -> B) (g : B -> list C) l :
  flat_map g (map f l) = flat_map (fun x => g (f x)) l.
Proof. induction l as [|x l IH]; cbn; [reflexivity|]. rewrite IH. reflexivity. Qed.

Lemma map_flat_map {A B C} (f : A -> list B) (g : B -> C) l :
  map g (flat_map f l) = flat_map (fun x => map g (f x)) l.
Proof. induction l as [|x l IH]; cbn; [reflexivity|]. rewrite map_app, IH. reflexivity. Qed.

Lemma flat_map_ext' {A B} (f g : A -> list B) l :
  (forall x, In x l -> f x = g x) -> flat_map f l = flat_map g l.
Proof.
  induction l as [|x l IH]; intros H; cbn; [reflexivity|].
  rewrite H by (left; reflexivity). f_equal. apply IH. intros y Hy. apply H. right. exact Hy.
Qed.

Lemma flat_map_nil {A B} (f : A -> list B) l : (forall x, In x l -> f x = []) -> flat_map f l = [].
Proof.
  induction l as [|x l IH]; intros H; cbn; [reflexivity|].
  rewrite H by (left; reflexivity). apply IH. intros y Hy. apply H. right. exact Hy.
Qed.

Lemma flat_map_singleton {A B} (f : A -> B) l : flat_map (fun x => [f x]) l = map f l.
Proof. induction l as [|x l IH]; cbn; [reflexivity|]. rewrite IH. reflexivity. Qed.

Lemma filter_map_comm {A B} (f : A -> B) (p : B -> bool) l :
  filter p (map f l) = map f (filter (fun x => p (f x)) l).
Proof. induction l as [|x l IH]; cbn; [reflexivity|]. destruct (p (f x)); cbn; rewrite IH; reflexivity. Qed.
