(* Base.v — data universe shared by the model of the code and the RFC specification:
   strings as lists of Unicode scalar values, numbers as (kind, exact dyadic value), JSON values,
   locations.  Definitions only (plus the induction principle for [json]); lemmas live in
   BaseFacts.v so that the executables still build when a proof breaks. *)
From Coq Require Import List NArith ZArith Bool Lia.
Import ListNotations.
Open Scope Z_scope.

(** * Strings *)
Definition str := list N.

Fixpoint str_eqb (a b : str) : bool :=
  match a, b with
  | [], [] => true
  | x :: a', y :: b' => N.eqb x y && str_eqb a' b'
  | _, _ => false
  end.

(* Rust [str] ordering is UTF-8 byte order = lexicographic order of scalar values. *)
Fixpoint str_ltb (a b : str) : bool :=
  match a, b with
  | [], [] => false
  | [], _ :: _ => true
  | _ :: _, [] => false
  | x :: a', y :: b' => if N.ltb x y then true else if N.eqb x y then str_ltb a' b' else false
  end.

Fixpoint starts_with (pre s : str) : bool :=
  match pre, s with
  | [], _ => true
  | x :: p', y :: s' => N.eqb x y && starts_with p' s'
  | _ :: _, [] => false
  end.

Definition ends_with (suf s : str) : bool := starts_with (rev suf) (rev s).

Fixpoint drop_while (f : N -> bool) (s : str) : str :=
  match s with
  | [] => []
  | c :: s' => if f c then drop_while f s' else s
  end.

(* Rust [str::trim_matches(pred)]: strips all matching characters from both ends. *)
Definition trim_matches (f : N -> bool) (s : str) : str :=
  rev (drop_while f (rev (drop_while f s))).

(* decimal rendering of a natural number, as [format!("{}", usize)] prints it *)
Fixpoint dec_digits (fuel : nat) (n : N) (acc : str) : str :=
  match fuel with
  | O => acc
  | S f =>
      let d := (48 + N.modulo n 10)%N in
      let q := N.div n 10 in
      if N.eqb q 0 then d :: acc else dec_digits f q (d :: acc)
  end.
Definition dec_of_N (n : N) : str := dec_digits (S (N.size_nat n)) n [].
Definition dec_of_nat (n : nat) : str := dec_of_N (N.of_nat n).

(** * Numbers *)
(* A dyadic rational m * 2^e: the exact value of a finite binary64. *)
Definition dy := (Z * Z)%type.

Definition dy_align (a b : dy) : Z * Z :=
  let '(m1, e1) := a in
  let '(m2, e2) := b in
  let e := Z.min e1 e2 in
  (m1 * 2 ^ (e1 - e), m2 * 2 ^ (e2 - e)).
Definition dy_eqb (a b : dy) : bool := let '(x, y) := dy_align a b in Z.eqb x y.
Definition dy_ltb (a b : dy) : bool := let '(x, y) := dy_align a b in Z.ltb x y.

(* [i64 as f64] / [u64 as f64]: round to nearest, ties to even, at 53 significant bits. *)
Definition round53 (z : Z) : dy :=
  let a := Z.abs z in
  if Z.ltb a (2 ^ 53) then (z, 0)
  else
    let k := Z.log2 a - 52 in
    let q := a / 2 ^ k in
    let r := a mod 2 ^ k in
    let half := 2 ^ (k - 1) in
    let q' := if Z.ltb half r then q + 1
              else if Z.eqb half r then (if Z.even q then q else q + 1)
              else q in
    (Z.sgn z * q', k).

(* What a [serde_json::Number] (or a query literal) holds: the stored kind matters to the code. *)
Inductive num := NInt (z : Z) | NFlt (d : dy).

Definition num_to_dy (n : num) : dy :=
  match n with NInt z => round53 z | NFlt d => d end.

(* [serde_json::Number]'s derived equality: same kind and same value. *)
Definition num_kind_eqb (a b : num) : bool :=
  match a, b with
  | NInt x, NInt y => Z.eqb x y
  | NFlt x, NFlt y => dy_eqb x y
  | _, _ => false
  end.

(** * JSON values *)
Inductive json :=
| JNull
| JBool (b : bool)
| JNum (n : num)
| JStr (s : str)
| JArr (l : list json)
| JObj (m : list (str * json)).

Section JsonInd.
  Variable P : json -> Prop.
  Hypothesis Hnull : P JNull.
  Hypothesis Hbool : forall b, P (JBool b).
  Hypothesis Hnum : forall n, P (JNum n).
  Hypothesis Hstr : forall s, P (JStr s).
  Hypothesis Harr : forall l, Forall P l -> P (JArr l).
  Hypothesis Hobj : forall m, Forall (fun kv => P (snd kv)) m -> P (JObj m).
  Fixpoint json_ind' (j : json) : P j :=
    match j with
    | JNull => Hnull
    | JBool b => Hbool b
    | JNum n => Hnum n
    | JStr s => Hstr s
    | JArr l => Harr l ((fix go (l : list json) : Forall P l :=
                           match l with
                           | [] => Forall_nil _
                           | x :: l' => Forall_cons _ (json_ind' x) (go l')
                           end) l)
    | JObj m => Hobj m ((fix go (m : list (str * json)) : Forall (fun kv => P (snd kv)) m :=
                           match m with
                           | [] => Forall_nil _
                           | kv :: m' => Forall_cons _ (json_ind' (snd kv)) (go m')
                           end) m)
    end.
End JsonInd.

(** * Locations *)
Inductive step := SName (s : str) | SIdx (n : nat).
Definition loc := list step.

Definition step_eqb (a b : step) : bool :=
  match a, b with
  | SName x, SName y => str_eqb x y
  | SIdx x, SIdx y => Nat.eqb x y
  | _, _ => false
  end.

Fixpoint assoc (k : str) (m : list (str * json)) : option json :=
  match m with
  | [] => None
  | (k', v) :: m' => if str_eqb k k' then Some v else assoc k m'
  end.

Definition child_at (j : json) (s : step) : option json :=
  match j, s with
  | JArr l, SIdx n => nth_error l n
  | JObj m, SName k => assoc k m
  | _, _ => None
  end.

Fixpoint lookup (j : json) (l : loc) : option json :=
  match l with
  | [] => Some j
  | s :: l' => match child_at j s with Some c => lookup c l' | None => None end
  end.

(* A node is a location together with the value that lives there. *)
Definition node := (loc * json)%type.

Fixpoint enum_from {A} (i : nat) (l : list A) : list (nat * A) :=
  match l with
  | [] => []
  | x :: l' => (i, x) :: enum_from (S i) l'
  end.

(* children in document order, with the step that leads to each *)
Definition children_steps (j : json) : list (step * json) :=
  match j with
  | JArr l => map (fun '(i, v) => (SIdx i, v)) (enum_from 0 l)
  | JObj m => map (fun '(k, v) => (SName k, v)) m
  | _ => []
  end.

Definition children (n : node) : list node :=
  map (fun '(s, v) => (fst n ++ [s], v)) (children_steps (snd n)).

(* member names unique within every object: always true of a serde_json Value *)
Fixpoint keys_unique (ks : list str) : bool :=
  match ks with
  | [] => true
  | k :: ks' => negb (existsb (str_eqb k) ks') && keys_unique ks'
  end.
Fixpoint wf_json (j : json) : bool :=
  match j with
  | JArr l => forallb wf_json l
  | JObj m => keys_unique (map fst m) && forallb (fun kv => wf_json (snd kv)) m
  | _ => true
  end.
