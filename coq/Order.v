(* Order.v — Theorem B: what the one deviation switch [sel_major] can and cannot change.
   (1) For every query and document the selector-major semantics (what the code computes, by
       Theorem A) is a permutation of the RFC nodelist: same nodes, same multiplicities (C01 is
       untouched by D1), and every filter, test, comparison and function has the same value
       under both.
   (2) When no top-level segment has more than one selector the two semantics are equal, so the
       order is the RFC's (C02 outside the known class D1). *)
From Coq Require Import List NArith ZArith Bool Lia Permutation.
From JP Require Import Base Ast Spec BaseFacts SpecSteps.
Import ListNotations.

Lemma flat_map_app_perm {A B} (f g : A -> list B) l :
  Permutation (flat_map (fun x => f x ++ g x) l) (flat_map f l ++ flat_map g l).
Proof.
  induction l as [|x l IH]; [constructor|]. cbn [flat_map].
  rewrite <- !app_assoc. apply Permutation_app_head.
  rewrite IH. apply Permutation_app_swap_app.
Qed.

Definition fres_equiv (a b : fres) : Prop :=
  match a, b with
  | RNodes x, RNodes y => Permutation x y
  | RValue x, RValue y => x = y
  | RLogical x, RLogical y => x = y
  | _, _ => False
  end.

Lemma perm_singleton_eq {A} (a b : list A) : Permutation a b -> length a = 1%nat -> a = b.
Proof.
  intros Hp Hl. destruct a as [|x [|? ?]]; try discriminate.
  apply Permutation_length_1_inv in Hp. symmetry. exact Hp.
Qed.

Lemma fres_equiv_value a b : fres_equiv a b -> as_value a = as_value b.
Proof.
  destruct a as [x|x|x], b as [y|y|y]; cbn [fres_equiv]; try contradiction; intros H; subst; try reflexivity.
  cbn [as_value]. destruct x as [|n [|? ?]].
  - apply Permutation_nil in H. subst. reflexivity.
  - apply Permutation_length_1_inv in H. subst. reflexivity.
  - pose proof (Permutation_length H) as Hl. destruct y as [|? [|? ?]]; try discriminate. reflexivity.
Qed.
Lemma fres_equiv_logical a b : fres_equiv a b -> as_logical a = as_logical b.
Proof.
  destruct a as [x|x|x], b as [y|y|y]; cbn [fres_equiv]; try contradiction; intros H; subst; try reflexivity.
  cbn [as_logical]. pose proof (Permutation_length H) as Hl. destruct x, y; try discriminate; reflexivity.
Qed.
Lemma fres_equiv_nodes a b : fres_equiv a b -> Permutation (as_nodes a) (as_nodes b).
Proof.
  destruct a as [x|x|x], b as [y|y|y]; cbn [fres_equiv as_nodes]; try contradiction; intros H; subst;
    try constructor. exact H.
Qed.
Lemma perm_count a b : Permutation a b -> rfc_count a = rfc_count b.
Proof. intros H. unfold rfc_count. rewrite (Permutation_length H). reflexivity. Qed.
Lemma perm_value a b : Permutation a b -> rfc_value a = rfc_value b.
Proof.
  intros H. unfold rfc_value. destruct a as [|n [|? ?]].
  - apply Permutation_nil in H. subst. reflexivity.
  - apply Permutation_length_1_inv in H. subst. reflexivity.
  - pose proof (Permutation_length H) as Hl. destruct b as [|? [|? ?]]; try discriminate. reflexivity.
Qed.

Section Order.
  Variable rx_full rx_sub : str -> str -> bool.
  Variable veq : json -> json -> bool.
  Variable root : json.

  Notation T x := (x rx_full rx_sub veq true root).
  Notation F x := (x rx_full rx_sub veq false root).

  Definition Q_segment (s : segment) : Prop :=
    forall ns ns', Permutation ns ns' -> Permutation (T r_segment s ns) (F r_segment s ns').
  Definition Q_selector (s : selector) : Prop := forall n, T r_selector s n = F r_selector s n.
  Definition Q_selectors (l : selectors) : Prop :=
    (forall n, T r_selectors l n = F r_selectors l n) /\
    (forall ns, T r_selectors_major l ns = F r_selectors_major l ns).
  Definition Q_segments (l : segments) : Prop :=
    forall ns ns', Permutation ns ns' -> Permutation (T r_segments l ns) (F r_segments l ns').
  Definition Q_filter (f : filter) : Prop := forall v, T r_holds f v = F r_holds f v.
  Definition Q_filters (l : filters) : Prop :=
    forall v, T r_any l v = F r_any l v /\ T r_all l v = F r_all l v.
  Definition Q_atom (a : atom) : Prop := forall v, T r_atom a v = F r_atom a v.
  Definition Q_comparable (c : comparable) : Prop := forall v, T r_comparable c v = F r_comparable c v.
  Definition Q_test (t : test) : Prop := forall v, fres_equiv (T r_test t v) (F r_test t v).
  Definition Q_tfun (f : tfun) : Prop := forall v, T r_tfun f v = F r_tfun f v.
  Definition Q_fnarg (a : fnarg) : Prop := forall v, fres_equiv (T r_fnarg a v) (F r_fnarg a v).
  Definition Q_fnargs (l : fnargs) : Prop := forall v, T r_fnargs l v = F r_fnargs l v.

  Lemma major_perm_nodewise l ns :
    Permutation (F r_selectors_major l ns) (flat_map (F r_selectors l) ns).
  Proof.
    induction l as [|s l IH]; autorewrite with rsteps.
    - induction ns; [constructor|assumption].
    - rewrite IH. symmetry.
      rewrite (flat_map_ext' (F r_selectors (SCons s l))
                 (fun n => F r_selector s n ++ F r_selectors l n)).
      + apply flat_map_app_perm.
      + intros n _. autorewrite with rsteps. reflexivity.
  Qed.

  Lemma fres_equiv_refl r : fres_equiv r r.
  Proof. destruct r; cbn; [apply Permutation_refl|reflexivity|reflexivity]. Qed.

  Theorem order_all :
    (forall s, Q_segment s) /\ (forall s, Q_selector s) /\ (forall l, Q_selectors l) /\
    (forall l, Q_segments l) /\ (forall f, Q_filter f) /\ (forall l, Q_filters l) /\
    (forall a, Q_atom a) /\ (forall c, Q_comparable c) /\ (forall t, Q_test t) /\
    (forall f, Q_tfun f) /\ (forall a, Q_fnarg a) /\ (forall l, Q_fnargs l).
  Proof.
    apply ast_mutind; unfold Q_segment, Q_selector, Q_selectors, Q_segments, Q_filter, Q_filters,
      Q_atom, Q_comparable, Q_test, Q_tfun, Q_fnarg, Q_fnargs.
    - (* SegDesc *) intros s IH ns ns' Hp. autorewrite with rsteps. apply IH.
      apply Permutation_flat_map. exact Hp.
    - (* SegSel *) intros sel IH ns ns' Hp. autorewrite with rsteps.
      rewrite (flat_map_ext' (T r_selector sel) (F r_selector sel)) by (intros; apply IH).
      apply Permutation_flat_map. exact Hp.
    - (* SegSels *) intros l [IHn IHm] ns ns' Hp. autorewrite with rsteps.
      rewrite IHm. rewrite major_perm_nodewise. apply Permutation_flat_map. exact Hp.
    - intros k n. reflexivity.
    - intros n. reflexivity.
    - intros i n. reflexivity.
    - intros a b c n. reflexivity.
    - (* SelFilter *) intros f IH n. autorewrite with rsteps.
      induction (children n) as [|c cs IHc]; [reflexivity|]. cbn [List.filter]. rewrite IH, IHc. reflexivity.
    - split; reflexivity.
    - (* SCons *) intros s IHs l [IHn IHm]. split.
      + intros n. autorewrite with rsteps. rewrite IHs, IHn. reflexivity.
      + intros ns. autorewrite with rsteps. rewrite IHm.
        rewrite (flat_map_ext' (T r_selector s) (F r_selector s)) by (intros; apply IHs). reflexivity.
    - (* GNil *) intros ns ns' Hp. exact Hp.
    - (* GCons *) intros s IHs l IHl ns ns' Hp. autorewrite with rsteps. apply IHl. apply IHs. exact Hp.
    - (* FOr *) intros l IH v. autorewrite with rsteps. apply IH.
    - (* FAnd *) intros l IH v. autorewrite with rsteps. apply IH.
    - (* FAtom *) intros a IH v. autorewrite with rsteps. apply IH.
    - (* FNil *) intros v. split; reflexivity.
    - (* FCons *) intros f IHf l IHl v. autorewrite with rsteps. rewrite IHf.
      destruct (IHl v) as [-> ->]. split; reflexivity.
    - (* AFilter *) intros f IH neg v. autorewrite with rsteps. rewrite IH. reflexivity.
    - (* ATest *) intros t IH neg v. autorewrite with rsteps. rewrite (fres_equiv_logical _ _ (IH v)). reflexivity.
    - (* ACmp *) intros op l IHl r IHr v. autorewrite with rsteps. rewrite IHl, IHr. reflexivity.
    - (* CLit *) intros l v. reflexivity.
    - (* CFn *) intros f IH v. autorewrite with rsteps. rewrite IH. reflexivity.
    - (* CSq *) intros q v. reflexivity.
    - (* TRel *) intros l IH v. autorewrite with rsteps. cbn [fres_equiv]. apply IH. apply Permutation_refl.
    - (* TAbs *) intros l IH v. autorewrite with rsteps. cbn [fres_equiv]. apply IH. apply Permutation_refl.
    - (* TFn *) intros f IH v. autorewrite with rsteps. rewrite IH. apply fres_equiv_refl.
    - (* FnCustom *) intros name args IH v. autorewrite with rsteps. rewrite IH. reflexivity.
    - (* FnLength *) intros a IH v. autorewrite with rsteps. rewrite (fres_equiv_value _ _ (IH v)). reflexivity.
    - (* FnValue *) intros a IH v. autorewrite with rsteps.
      rewrite (perm_value _ _ (fres_equiv_nodes _ _ (IH v))). reflexivity.
    - (* FnCount *) intros a IH v. autorewrite with rsteps.
      rewrite (perm_count _ _ (fres_equiv_nodes _ _ (IH v))). reflexivity.
    - (* FnSearch *) intros a IHa b IHb v. autorewrite with rsteps.
      rewrite (fres_equiv_value _ _ (IHa v)), (fres_equiv_value _ _ (IHb v)). reflexivity.
    - (* FnMatch *) intros a IHa b IHb v. autorewrite with rsteps.
      rewrite (fres_equiv_value _ _ (IHa v)), (fres_equiv_value _ _ (IHb v)). reflexivity.
    - (* ArgLit *) intros l v. autorewrite with rsteps. reflexivity.
    - (* ArgTest *) intros t IH v. autorewrite with rsteps. apply IH.
    - (* ArgFilter *) intros f IH v. autorewrite with rsteps. cbn [fres_equiv]. apply IH.
    - (* ANil *) intros v. reflexivity.
    - (* ACons *) intros a IHa l IHl v. autorewrite with rsteps.
      rewrite (fres_equiv_value _ _ (IHa v)), IHl. reflexivity.
  Qed.

  (* (1) the code's nodelist is a permutation of the RFC's, for every query and document *)
  Theorem sel_major_is_permutation (q : query) :
    Permutation (r_query rx_full rx_sub veq true root q) (r_query rx_full rx_sub veq false root q).
  Proof.
    destruct order_all as [_ [_ [_ [Hs _]]]]. unfold r_query. apply Hs. apply Permutation_refl.
  Qed.

  (* filters mean the same under both *)
  Theorem sel_major_filters_agree (f : filter) v :
    r_holds rx_full rx_sub veq true root f v = r_holds rx_full rx_sub veq false root f v.
  Proof. destruct order_all as [_ [_ [_ [_ [Hf _]]]]]. apply Hf. Qed.

  (* (2) a query none of whose top-level segments is a multi-selector segment *)
  Fixpoint seg_single (s : segment) : bool :=
    match s with SegDesc s' => seg_single s' | SegSel _ => true | SegSels _ => false end.
  Fixpoint segs_single (l : segments) : bool :=
    match l with GNil => true | GCons s l' => seg_single s && segs_single l' end.

  Lemma seg_single_eq s : seg_single s = true -> forall ns, T r_segment s ns = F r_segment s ns.
  Proof.
    destruct order_all as [_ [Hsel _]].
    induction s as [s IH|sel|l]; intros H ns; try discriminate; autorewrite with rsteps.
    - apply IH. exact H.
    - apply flat_map_ext'. intros n _. apply Hsel.
  Qed.

  Theorem single_selector_order (q : query) :
    segs_single q = true ->
    r_query rx_full rx_sub veq true root q = r_query rx_full rx_sub veq false root q.
  Proof.
    unfold r_query. generalize [(@nil step, root)].
    induction q as [|s l IH]; intros ns H; [reflexivity|].
    cbn [segs_single] in H. apply andb_true_iff in H. destruct H as [Hs Hl].
    autorewrite with rsteps. rewrite (seg_single_eq s Hs). apply IH. exact Hl.
  Qed.
End Order.
