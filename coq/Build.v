(* Build.v — hand model of src/parser.rs and of the constructors in src/parser/model.rs it calls:
   the walk over pest's pair tree, every post-check, every `?` / ok_or / unwrap_or_default as an
   explicit branch.  None = Err(..) (which error is not modelled: errors are not observables). *)
From Coq Require Import List NArith ZArith Bool.
From JP Require Import Base Ast Peg Dec2Bin Known.
From JP.gen Require Import Grammar.
Import ListNotations.
Open Scope Z_scope.

Definition pr := pair rname.
Definition p_rule (p : pr) : rname := match p with Pair r _ _ _ => r end.
Definition p_kids (p : pr) : list pr := match p with Pair _ _ _ k => k end.
(* Pair::as_str *)
Definition p_str (inp : str) (p : pr) : str :=
  match p with Pair _ st en _ => firstn (en - st) (skipn st inp) end.

Definition is_blank (c : N) : bool := N.eqb c 32 || N.eqb c 9 || N.eqb c 10 || N.eqb c 13.
Definition trim_blank (s : str) : str := trim_matches is_blank s.
Definition trim_start_blank (s : str) : str := drop_while is_blank s.

(* char::is_whitespace / str::trim of Rust: Unicode White_Space *)
Definition is_unicode_ws (c : N) : bool :=
  ((N.leb 9 c && N.leb c 13) || N.eqb c 32 || N.eqb c 133 || N.eqb c 160 || N.eqb c 5760
   || (N.leb 8192 c && N.leb c 8202) || N.eqb c 8232 || N.eqb c 8233 || N.eqb c 8239
   || N.eqb c 8287 || N.eqb c 12288)%N.
Definition trim_unicode (s : str) : str := trim_matches is_unicode_ws s.

Definition MAX_VAL : Z := 9007199254740991.
Definition MIN_VAL : Z := -9007199254740991.

Definition is_rule (r : rname) (p : pr) : bool := rname_eqb (p_rule p) r.

(* next_down: rule.into_inner().next().ok_or(..) *)
Definition next_down (p : pr) : option pr := match p_kids p with k :: _ => Some k | [] => None end.

Definition validate_range (v : Z) : option Z :=
  if Z.ltb MAX_VAL v || Z.ltb v MIN_VAL then None else Some v.

(* validate_js_str: no character <= U+001F *)
Definition validate_js_str (s : str) : option str :=
  if forallb (fun c => N.ltb 31 c) s then Some s else None.

Fixpoint contains (c : N) (s : str) : bool :=
  match s with [] => false | x :: s' => N.eqb x c || contains c s' end.

Definition bind {A B} (o : option A) (f : A -> option B) : option B :=
  match o with Some x => f x | None => None end.
Notation "'do' x <- o ; f" := (bind o (fun x => f)) (at level 200, x pattern, o at level 100, f at level 200).

Fixpoint mapM {A B} (f : A -> option B) (l : list A) : option (list B) :=
  match l with
  | [] => Some []
  | x :: l' => do y <- f x; do ys <- mapM f l'; Some (y :: ys)
  end.

Section Build.
  Variable inp : str.
  Notation S_ := (p_str inp).

  (* literal: parse_number / parse_string / bool / null.  [LFloat] needs a finite value: an
     overflowing literal (1e999) is outside every property's domain and reported as its own outcome *)
  Inductive lit_res := LitOk (l : literal) | LitInf | LitErr.

  Definition b_literal (p : pr) : lit_res :=
    match next_down p with
    | None => LitErr
    | Some first =>
        if is_rule R_string first then
          match validate_js_str (trim_unicode (S_ first)) with
          | None => LitErr
          | Some s =>
              (* string[1..len-1] when it starts and ends with the same quote *)
              if (starts_with [39%N] s && ends_with [39%N] s) || (starts_with [34%N] s && ends_with [34%N] s)
              then match s with
                   | _ :: rest => LitOk (LStr (removelast rest))
                   | [] => LitErr
                   end
              else LitErr
          end
        else if is_rule R_number first then
          let num := trim_unicode (S_ first) in
          if contains 46 num || contains 101 num || contains 69 num then
            match parse_f64 num with
            | Some (neg, r) =>
                match f64_signed neg r with
                | FFinite d => LitOk (LFloat d)
                | FInf => LitInf
                end
            | None => LitErr
            end
          else
            match parse_i64 num with
            | Some v => if Z.ltb MAX_VAL v || Z.ltb v MIN_VAL then LitErr else LitOk (LInt v)
            | None => LitErr
            end
        else if is_rule R_bool first then
          if str_eqb (S_ first) [116; 114; 117; 101]%N then LitOk (LBool true)
          else if str_eqb (S_ first) [102; 97; 108; 115; 101]%N then LitOk (LBool false)
          else LitErr
        else if is_rule R_null first then LitOk LNull
        else LitErr
    end.

  (* literals whose value is infinite make the whole parse result [None] with a flag; we carry
     the flag in a global "saw infinity" component: option (ast * bool) would clutter every
     function, so an infinite literal is represented as LFloat (0, 1025) ("2^1025": not a
     binary64), which [has_inf] detects afterwards. *)
  Definition inf_marker : dy := (1, 1025).
  Definition literal_of (p : pr) : option literal :=
    match b_literal p with
    | LitOk l => Some l
    | LitInf => Some (LFloat inf_marker)
    | LitErr => None
    end.

  Definition get_int (p : pr) : option Z := parse_i64 (trim_unicode (S_ p)).

  Definition b_slice (p : pr) : option (option Z * option Z * option Z) :=
    fold_left
      (fun acc r =>
         do (st, en, sp) <- acc;
         if is_rule R_start r then do v <- get_int r; do v' <- validate_range v; Some (Some v', en, sp)
         else if is_rule R_end r then do v <- get_int r; do v' <- validate_range v; Some (st, Some v', sp)
         else if is_rule R_step r then
           match p_kids r with
           | i :: _ => do v <- get_int i; do v' <- validate_range v; Some (st, en, Some v')
           | [] => Some (st, en, None)
           end
         else None)
      (p_kids p) (Some (None, None, None)).

  Definition b_sqsegs (p : pr) : option (list sqseg) :=
    mapM (fun r =>
            if is_rule R_name_segment r then
              do k <- next_down r; Some (SqName (trim_blank (S_ k)))
            else if is_rule R_index_segment r then
              do k <- next_down r; do v <- parse_i64 (trim_unicode (S_ k)); do v' <- validate_range v; Some (SqIndex v')
            else None)
         (p_kids p).

  Definition b_squery (p : pr) : option squery :=
    do q <- next_down p;
    do segs_p <- next_down q;
    do segs <- b_sqsegs segs_p;
    if is_rule R_rel_singular_query q then Some (SqCur segs)
    else if is_rule R_abs_singular_query q then Some (SqRoot segs)
    else None.

  Definition cmp_op_of (s : str) : option cmpop :=
    if str_eqb s [61; 61]%N then Some OpEq
    else if str_eqb s [33; 61]%N then Some OpNe
    else if str_eqb s [62]%N then Some OpGt
    else if str_eqb s [62; 61]%N then Some OpGe
    else if str_eqb s [60]%N then Some OpLt
    else if str_eqb s [60; 61]%N then Some OpLe
    else None.

  Definition fnargs_of_list (l : list fnarg) : fnargs := fold_right ACons ANil l.
  Definition filters_of_list (l : list filter) : filters := fold_right FCons FNil l.
  Definition selectors_of_list (l : list selector) : selectors := fold_right SCons SNil l.

  Definition is_lit (a : fnarg) : bool := match a with ArgLit _ => true | _ => false end.
  Definition is_filter (a : fnarg) : bool := match a with ArgFilter _ => true | _ => false end.

  Definition s_length : str := [108; 101; 110; 103; 116; 104]%N.
  Definition s_value : str := [118; 97; 108; 117; 101]%N.
  Definition s_count : str := [99; 111; 117; 110; 116]%N.
  Definition s_search : str := [115; 101; 97; 114; 99; 104]%N.
  Definition s_match : str := [109; 97; 116; 99; 104]%N.

  Definition is_comparable_fn (f : tfun) : bool :=
    match f with FnLength _ | FnValue _ | FnCount _ => true | _ => false end.

  (* FnArg::is_value_type / is_nodes_type *)
  Definition singular_seg_b (s : segment) : bool :=
    match s with SegSel (SelName _) | SegSel (SelIndex _) => true | _ => false end.
  Fixpoint singular_b (l : segments) : bool :=
    match l with GNil => true | GCons s l' => singular_seg_b s && singular_b l' end.
  Definition is_value_type (a : fnarg) : bool :=
    match a with
    | ArgLit _ => true
    | ArgTest (TRel l) | ArgTest (TAbs l) => singular_b l
    | ArgTest (TFn f) => is_comparable_fn f
    | ArgFilter _ => false
    end.
  Definition is_nodes_type (a : fnarg) : bool :=
    match a with ArgTest (TRel _) | ArgTest (TAbs _) => true | _ => false end.

  (* TestFunction::try_new *)
  Definition tfun_try_new (name : str) (args : list fnarg) : option tfun :=
    let std := str_eqb name s_length || str_eqb name s_value || str_eqb name s_count
               || str_eqb name s_match || str_eqb name s_search in
    match args with
    | [a] =>
        if str_eqb name s_length then (if is_value_type a then Some (FnLength a) else None)
        else if str_eqb name s_value then (if is_nodes_type a then Some (FnValue a) else None)
        else if str_eqb name s_count then (if is_nodes_type a then Some (FnCount a) else None)
        else if std then None
        else Some (FnCustom name (fnargs_of_list args))
    | [a; b] =>
        if str_eqb name s_search then (if is_value_type a && is_value_type b then Some (FnSearch a b) else None)
        else if str_eqb name s_match then (if is_value_type a && is_value_type b then Some (FnMatch a b) else None)
        else if std then None
        else Some (FnCustom name (fnargs_of_list args))
    | _ => if std then None else Some (FnCustom name (fnargs_of_list args))
    end.

  (* the recursive part of the walk, on fuel (the pair tree is finite; fuel = its depth bound) *)
  Fixpoint b_segments (fuel : nat) (p : pr) : option segments :=
    match fuel with
    | O => None
    | S f =>
        do l <- mapM (fun r => do k <- next_down r; b_segment f k) (p_kids p);
        Some (segments_of_list l)
    end
  with b_segment (fuel : nat) (child : pr) : option segment :=
    match fuel with
    | O => None
    | S f =>
        if is_rule R_child_segment child then
          let s := S_ child in
          let val := match s with 46%N :: r => r | _ => [] end in     (* strip_prefix(".").unwrap_or_default() *)
          if negb (str_eqb val (trim_start_blank val)) then None
          else do k <- next_down child; b_child_segment f k
        else if is_rule R_descendant_segment child then
          match nth_error (S_ child) 2 with
          | None => None
          | Some c =>
              if is_blank c then None
              else do k <- next_down child; do s <- b_child_segment f k; Some (SegDesc s)
          end
        else None
    end
  with b_child_segment (fuel : nat) (p : pr) : option segment :=
    match fuel with
    | O => None
    | S f =>
        if is_rule R_wildcard_selector p then Some (SegSel SelWild)
        else if is_rule R_member_name_shorthand p then Some (SegSel (SelName (trim_blank (S_ p))))
        else if is_rule R_bracketed_selection p then
          do sels <- mapM (b_selector f) (p_kids p);
          match sels with
          | [s] => Some (SegSel s)
          | _ => Some (SegSels (selectors_of_list sels))
          end
        else None
    end
  with b_selector (fuel : nat) (p : pr) : option selector :=
    match fuel with
    | O => None
    | S f =>
        do child <- next_down p;
        if is_rule R_name_selector child then
          do s <- validate_js_str (trim_unicode (S_ child)); Some (SelName s)
        else if is_rule R_wildcard_selector child then Some SelWild
        else if is_rule R_index_selector child then
          do v <- parse_i64 (trim_unicode (S_ child)); do v' <- validate_range v; Some (SelIndex v')
        else if is_rule R_slice_selector child then
          do (a, b, c) <- b_slice child; Some (SelSlice a b c)
        else if is_rule R_filter_selector child then
          do le <- next_down child; do fl <- b_logical_expr f le; Some (SelFilter fl)
        else None
    end
  with b_logical_expr (fuel : nat) (p : pr) : option filter :=
    match fuel with
    | O => None
    | S f =>
        do ors <- mapM (b_logical_expr_and f) (p_kids p);
        match ors with
        | [x] => Some x
        | _ => Some (FOr (filters_of_list ors))
        end
    end
  with b_logical_expr_and (fuel : nat) (p : pr) : option filter :=
    match fuel with
    | O => None
    | S f =>
        do ands <- mapM (fun r => do a <- b_filter_atom f r; Some (FAtom a)) (p_kids p);
        match ands with
        | [x] => Some x
        | _ => Some (FAnd (filters_of_list ands))
        end
    end
  with b_filter_atom (fuel : nat) (p : pr) : option atom :=
    match fuel with
    | O => None
    | S f =>
        do rule <- next_down p;
        if is_rule R_paren_expr rule then
          let neg := existsb (is_rule R_not_op) (p_kids rule) in
          (* the last logical_expr child wins; any error inside aborts *)
          do le <- fold_left (fun acc r =>
                                do cur <- acc;
                                if is_rule R_logical_expr r then do e <- b_logical_expr f r; Some (Some e)
                                else Some cur)
                             (p_kids rule) (Some None);
          match le with Some e => Some (AFilter e neg) | None => None end
        else if is_rule R_comp_expr rule then
          match p_kids rule with
          | l :: op :: r :: _ =>
              do lc <- b_comparable f l;
              do rc <- b_comparable f r;
              do o <- cmp_op_of (S_ op);
              Some (ACmp o lc rc)
          | _ => None
          end
        else if is_rule R_test_expr rule then
          let neg := existsb (is_rule R_not_op) (p_kids rule) in
          do te <- fold_left (fun acc r =>
                                do cur <- acc;
                                if is_rule R_test r then do t <- b_test f r; Some (Some t)
                                else Some cur)
                             (p_kids rule) (Some None);
          match te with
          | Some (TFn tf) => if is_comparable_fn tf then None else Some (ATest (TFn tf) neg)
          | Some t => Some (ATest t neg)
          | None => None
          end
        else None
    end
  with b_comparable (fuel : nat) (p : pr) : option comparable :=
    match fuel with
    | O => None
    | S f =>
        do rule <- next_down p;
        if is_rule R_literal rule then do l <- literal_of rule; Some (CLit l)
        else if is_rule R_singular_query rule then do q <- b_squery rule; Some (CSq q)
        else if is_rule R_function_expr rule then
          do tf <- b_function_expr f rule;
          if is_comparable_fn tf then Some (CFn tf) else None
        else None
    end
  with b_test (fuel : nat) (p : pr) : option test :=
    match fuel with
    | O => None
    | S f =>
        do child <- next_down p;
        if is_rule R_jp_query child then
          do sp <- next_down child; do segs <- b_segments f sp; Some (TAbs segs)
        else if is_rule R_rel_query child then
          do sp <- next_down child; do segs <- b_segments f sp; Some (TRel segs)
        else if is_rule R_function_expr child then
          do tf <- b_function_expr f child; Some (TFn tf)
        else None
    end
  with b_function_expr (fuel : nat) (p : pr) : option tfun :=
    match fuel with
    | O => None
    | S f =>
        let fn_str := S_ p in
        match p_kids p with
        | [] => None
        | name_p :: elems =>
            let name := S_ name_p in
            (* nothing between the name and the opening parenthesis *)
            if match nth_error fn_str (length name) with
               | Some c => negb (N.eqb c 40)
               | None => false
               end
            then None
            else
              do args <- mapM (fun arg =>
                                 do next <- next_down arg;
                                 if is_rule R_literal next then do l <- literal_of next; Some (ArgLit l)
                                 else if is_rule R_test next then do t <- b_test f next; Some (ArgTest t)
                                 else if is_rule R_logical_expr next then
                                   do e <- b_logical_expr f next; Some (ArgFilter e)
                                 else None)
                              elems;
              tfun_try_new name args
        end
    end.

  (* jp_query(rule): JpQuery::new(segments(next_down(rule)?)?) *)
  Definition b_jp_query (fuel : nat) (p : pr) : option query :=
    do sp <- next_down p; b_segments fuel sp.
End Build.

Inductive parse_res :=
| POk (q : query)
| PErr
| PInfLit              (* accepted, but contains a literal whose binary64 value is infinite *)
| POutOfFuel.

Definition has_inf_lit (l : literal) : bool :=
  match l with LFloat (m, e) => Z.ltb 1024 e | _ => false end.

(* parse_json_path *)
Definition parse_model (fuel : nat) (s : str) : parse_res :=
  if negb (str_eqb s (trim_blank s)) then PErr
  else
    match parse_rule grammar fuel R_main s with
    | OutOfFuel => POutOfFuel
    | Fail => PErr
    | Ok _ _ toks =>
        match toks with
        | main_p :: _ =>
            match next_down main_p with
            | Some jq =>
                match b_jp_query s fuel jq with
                | Some q => if fa_segments (fun _ => true) (fun l => negb (has_inf_lit l)) q then POk q else PInfLit
                | None => PErr
                end
            | None => PErr
            end
        | [] => PErr
        end
    end.

Definition parse_fuel (s : str) : nat := 1000 + 400 * length s.
Definition parse_query (s : str) : parse_res := parse_model (parse_fuel s) s.
