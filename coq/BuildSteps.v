(* BuildSteps.v — written out mechanically from Build.v (a change of Build.v breaks these proofs): the one-step equation of every
   function of the parser walk at fuel [S f], each proved by reflexivity. *)
From Coq Require Import List NArith ZArith Bool.
From JP Require Import Base Ast Peg Dec2Bin Known Build.
From JP.gen Require Import Grammar.
Import ListNotations.
Open Scope Z_scope.
Notation "'do' x <- o ; f" := (bind o (fun x => f)) (at level 200, x pattern, o at level 100, f at level 200).

Section Steps.
  Variable inp : str.
  Notation S_ := (p_str inp).

  Notation b_segments := (Build.b_segments inp).
  Notation b_segment := (Build.b_segment inp).
  Notation b_child_segment := (Build.b_child_segment inp).
  Notation b_selector := (Build.b_selector inp).
  Notation b_logical_expr := (Build.b_logical_expr inp).
  Notation b_logical_expr_and := (Build.b_logical_expr_and inp).
  Notation b_filter_atom := (Build.b_filter_atom inp).
  Notation b_comparable := (Build.b_comparable inp).
  Notation b_test := (Build.b_test inp).
  Notation b_function_expr := (Build.b_function_expr inp).
  Notation literal_of := (Build.literal_of inp).
  Notation b_slice := (Build.b_slice inp).
  Notation b_squery := (Build.b_squery inp).
  Lemma b_segments_step f p :
    b_segments (S f) p =
        do l <- mapM (fun r => do k <- next_down r; b_segment f k) (p_kids p);
        Some (segments_of_list l).
  Proof. reflexivity. Qed.
  Lemma b_segment_step f child :
    b_segment (S f) child =
        if is_rule R_child_segment child then
          let s := S_ child in
          let val := match s with 46%N :: r => r | _ => [] end in     (* strip_prefix(".").unwrap_or_default() *)
          if negb (str_eqb val (trim_start_blank val)) then None
          else do k <- next_down child; b_child_segment f k
        else if is_rule R_descendant_segment child then
          match nth_error (S_ child) 2 with
          | None => None
          | Some c =>
              if is_blank c then None
              else do k <- next_down child; do s <- b_child_segment f k; Some (SegDesc s)
          end
        else None.
  Proof. reflexivity. Qed.
  Lemma b_child_segment_step f p :
    b_child_segment (S f) p =
        if is_rule R_wildcard_selector p then Some (SegSel SelWild)
        else if is_rule R_member_name_shorthand p then Some (SegSel (SelName (trim_blank (S_ p))))
        else if is_rule R_bracketed_selection p then
          do sels <- mapM (b_selector f) (p_kids p);
          match sels with
          | [s] => Some (SegSel s)
          | _ => Some (SegSels (selectors_of_list sels))
          end
        else None.
  Proof. reflexivity. Qed.
  Lemma b_selector_step f p :
    b_selector (S f) p =
        do child <- next_down p;
        if is_rule R_name_selector child then
          do s <- validate_js_str (trim_unicode (S_ child)); Some (SelName s)
        else if is_rule R_wildcard_selector child then Some SelWild
        else if is_rule R_index_selector child then
          do v <- parse_i64 (trim_unicode (S_ child)); do v' <- validate_range v; Some (SelIndex v')
        else if is_rule R_slice_selector child then
          do (a, b, c) <- b_slice child; Some (SelSlice a b c)
        else if is_rule R_filter_selector child then
          do le <- next_down child; do fl <- b_logical_expr f le; Some (SelFilter fl)
        else None.
  Proof. reflexivity. Qed.
  Lemma b_logical_expr_step f p :
    b_logical_expr (S f) p =
        do ors <- mapM (b_logical_expr_and f) (p_kids p);
        match ors with
        | [x] => Some x
        | _ => Some (FOr (filters_of_list ors))
        end.
  Proof. reflexivity. Qed.
  Lemma b_logical_expr_and_step f p :
    b_logical_expr_and (S f) p =
        do ands <- mapM (fun r => do a <- b_filter_atom f r; Some (FAtom a)) (p_kids p);
        match ands with
        | [x] => Some x
        | _ => Some (FAnd (filters_of_list ands))
        end.
  Proof. reflexivity. Qed.
  Lemma b_filter_atom_step f p :
    b_filter_atom (S f) p =
        do rule <- next_down p;
        if is_rule R_paren_expr rule then
          let neg := existsb (is_rule R_not_op) (p_kids rule) in
          (* the last logical_expr child wins; any error inside aborts *)
          do le <- fold_left (fun acc r =>
                                do cur <- acc;
                                if is_rule R_logical_expr r then do e <- b_logical_expr f r; Some (Some e)
                                else Some cur)
                             (p_kids rule) (Some None);
          match le with Some e => Some (AFilter e neg) | None => None end
        else if is_rule R_comp_expr rule then
          match p_kids rule with
          | l :: op :: r :: _ =>
              do lc <- b_comparable f l;
              do rc <- b_comparable f r;
              do o <- cmp_op_of (S_ op);
              Some (ACmp o lc rc)
          | _ => None
          end
        else if is_rule R_test_expr rule then
          let neg := existsb (is_rule R_not_op) (p_kids rule) in
          do te <- fold_left (fun acc r =>
                                do cur <- acc;
                                if is_rule R_test r then do t <- b_test f r; Some (Some t)
                                else Some cur)
                             (p_kids rule) (Some None);
          match te with
          | Some (TFn tf) => if is_comparable_fn tf then None else Some (ATest (TFn tf) neg)
          | Some t => Some (ATest t neg)
          | None => None
          end
        else None.
  Proof. reflexivity. Qed.
  Lemma b_comparable_step f p :
    b_comparable (S f) p =
        do rule <- next_down p;
        if is_rule R_literal rule then do l <- literal_of rule; Some (CLit l)
        else if is_rule R_singular_query rule then do q <- b_squery rule; Some (CSq q)
        else if is_rule R_function_expr rule then
          do tf <- b_function_expr f rule;
          if is_comparable_fn tf then Some (CFn tf) else None
        else None.
  Proof. reflexivity. Qed.
  Lemma b_test_step f p :
    b_test (S f) p =
        do child <- next_down p;
        if is_rule R_jp_query child then
          do sp <- next_down child; do segs <- b_segments f sp; Some (TAbs segs)
        else if is_rule R_rel_query child then
          do sp <- next_down child; do segs <- b_segments f sp; Some (TRel segs)
        else if is_rule R_function_expr child then
          do tf <- b_function_expr f child; Some (TFn tf)
        else None.
  Proof. reflexivity. Qed.
  Lemma b_function_expr_step f p :
    b_function_expr (S f) p =
        let fn_str := S_ p in
        match p_kids p with
        | [] => None
        | name_p :: elems =>
            let name := S_ name_p in
            (* nothing between the name and the opening parenthesis *)
            if match nth_error fn_str (length name) with
               | Some c => negb (N.eqb c 40)
               | None => false
               end
            then None
            else
              do args <- mapM (fun arg =>
                                 do next <- next_down arg;
                                 if is_rule R_literal next then do l <- literal_of next; Some (ArgLit l)
                                 else if is_rule R_test next then do t <- b_test f next; Some (ArgTest t)
                                 else if is_rule R_logical_expr next then
                                   do e <- b_logical_expr f next; Some (ArgFilter e)
                                 else None)
                              elems;
              tfun_try_new name args
        end.
  Proof. reflexivity. Qed.
End Steps.
