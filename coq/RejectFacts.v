(* RejectFacts.v — C07: whole classes of strings outside the RFC 9535 language are rejected by the
   parser (grammar of this run executed by the PEG interpreter, then parser.rs), for every string
   of the class: strings that do not begin with the root identifier, and strings in which the root
   identifier is followed by a character that cannot begin a segment. *)
From Coq Require Import List Arith NArith ZArith Bool Lia.
From JP Require Import Base Ast Peg PegFacts NormPath Dec2Bin Known Build NpParse BaseFacts.
From JP.gen Require Import Grammar.
Import ListNotations.

(* for goals whose stated result is [Fail] *)
Ltac peg_fail_upto := eapply runs_weaken; [peg|cbn [length]; lia].

Lemma drop_while_length f (s : str) : (length (drop_while f s) <= length s)%nat.
Proof. induction s as [|c s IH]; [cbn; lia|]. cbn [drop_while]. destruct (f c); cbn [length]; lia. Qed.

Lemma trim_matches_length f (s : str) : (length (trim_matches f s) <= length (drop_while f s))%nat.
Proof.
  unfold trim_matches. rewrite rev_length.
  etransitivity; [apply drop_while_length|]. rewrite rev_length. lia.
Qed.

(* a string that survives the trim test of parse_json_path does not begin with blank space *)
Lemma trimmed_not_ws s : str_eqb s (trim_blank s) = true -> not_ws s.
Proof.
  intros H. apply str_eqb_eq in H. destruct s as [|c r]; [exact I|]. cbn [not_ws].
  destruct (is_blank c) eqn:Eb.
  - exfalso. pose proof (trim_matches_length is_blank (c :: r)) as Hl.
    unfold trim_blank in H. rewrite <- H in Hl. cbn [drop_while] in Hl. rewrite Eb in Hl.
    pose proof (drop_while_length is_blank r). cbn [length] in Hl. lia.
  - unfold is_blank in Eb. apply orb_false_iff in Eb. destruct Eb as [Eb E13].
    apply orb_false_iff in Eb. destruct Eb as [Eb E10]. apply orb_false_iff in Eb. destruct Eb as [E32 E9].
    apply N.eqb_neq in E32. apply N.eqb_neq in E9. apply N.eqb_neq in E10. apply N.eqb_neq in E13.
    repeat split; assumption.
Qed.

Lemma parse_fuel_big s : (400 <= parse_fuel s)%nat.
Proof. unfold parse_fuel. lia. Qed.

(* the root identifier is mandatory *)
Theorem no_root_rejected s :
  match s with c :: _ => c <> 36%N | [] => True end -> parse_query s = PErr.
Proof.
  intros Hs. unfold parse_query, parse_model.
  destruct (str_eqb s (trim_blank s)) eqn:Et; [|reflexivity]. cbn [negb].
  pose proof (trimmed_not_ws s Et) as Hw. unfold parse_rule.
  assert (Hrun : Runs grammar 40 (ECall R_main) ANonAtomic s 0 Fail).
  { destruct s as [|c r].
    - peg_fail_upto.
    - cbn [not_ws] in Hw. destruct Hw as [H1 [H2 [H3 H4]]]. peg_fail_upto. }
  rewrite (Hrun (parse_fuel s)); [reflexivity|]. pose proof (parse_fuel_big s). lia.
Qed.

(* after the root identifier only a segment (which begins with '.' or '['), blank space or the end
   of the string can follow *)
Theorem bad_continuation_rejected c rest :
  c <> 46%N -> c <> 91%N -> c <> 32%N -> c <> 9%N -> c <> 10%N -> c <> 13%N ->
  parse_query (36%N :: c :: rest) = PErr.
Proof.
  intros H46 H91 H32 H9 H10 H13. unfold parse_query, parse_model.
  destruct (str_eqb (36%N :: c :: rest) (trim_blank (36%N :: c :: rest))) eqn:Et; [|reflexivity]. cbn [negb].
  unfold parse_rule.
  assert (Hrun : Runs grammar 60 (ECall R_main) ANonAtomic (36%N :: c :: rest) 0 Fail).
  { assert (Hw : not_ws (c :: rest)) by (cbn [not_ws]; repeat split; assumption). peg_fail_upto. }
  rewrite (Hrun (parse_fuel _)); [reflexivity|]. pose proof (parse_fuel_big (36%N :: c :: rest)). lia.
Qed.
