(* GenParse.v — brackets, segments and segment lists over an ABSTRACT kind of selector: whatever is
   known to be read by the rule `selector` (hypothesis [sel_runs]) can be put into bracketed selections,
   child and descendant segments and segment lists, and the generated grammar reads the result as the
   expected pair tree.  Instantiated with the plain selectors of FragParse.v and, recursively, with
   filter selectors (FilterParse.v).  Segment lists may be followed by any text on which no segment
   can start ([seg_stop]): the end of the query, or what follows a query inside a filter. *)
From Coq Require Import List Arith NArith ZArith Bool Lia.
From JP Require Import Base Ast Peg PegFacts NormPath NormPathFacts Dec2Bin Known NpParse FragParse.
From JP.gen Require Import Grammar.
Import ListNotations.
Local Open Scope nat_scope.

(* what may follow a query: nothing, or one of  ] ) , & | = ! < >  *)
Definition qstop_char (c : N) : Prop :=
  c = 93%N \/ c = 41%N \/ c = 44%N \/ c = 38%N \/ c = 124%N \/ c = 61%N \/ c = 33%N \/ c = 60%N \/ c = 62%N.
Definition seg_stop (s : str) : Prop := match s with [] => True | c :: _ => qstop_char c end.

Lemma seg_stop_not_ws s : seg_stop s -> not_ws s.
Proof.
  destruct s as [|c r]; [intros _; exact I|]. cbn [seg_stop not_ws]. unfold qstop_char.
  intros H. repeat split; intros ->; repeat (destruct H as [H|H]; try discriminate).
Qed.

Ltac stop_cases H :=
  unfold qstop_char in H;
  repeat (destruct H as [H|H]); subst.

Lemma name_char_stop_q stop pos : seg_stop stop -> RunsG 12 (ECall R_name_char) AAtomic stop pos Fail.
Proof.
  intros H. destruct stop as [|c r]; [pegd_upto|]. cbn [seg_stop] in H. stop_cases H; pegd_upto.
Qed.

Lemma seg_iter_stop stop pos : seg_stop stop -> RunsG 60 seg_iter ANonAtomic stop pos Fail.
Proof.
  intros H. unfold seg_iter. destruct stop as [|c r]; [pegd_upto|]. cbn [seg_stop] in H.
  assert (Hw : not_ws (c :: r)) by (apply seg_stop_not_ws; exact H).
  stop_cases H; pegd_upto.
Qed.

(* a shorthand name followed by '.', '[' or a stop *)
Definition name_follow (s : str) : Prop :=
  match s with [] => True | c :: _ => c = 46%N \/ c = 91%N \/ qstop_char c end.

Lemma name_char_follow stop pos : name_follow stop -> RunsG 12 (ECall R_name_char) AAtomic stop pos Fail.
Proof.
  intros H. destruct stop as [|c r]; [pegd_upto|]. cbn [name_follow] in H.
  destruct H as [-> |[-> |H]]; [pegd_upto|pegd_upto|]. stop_cases H; pegd_upto.
Qed.

Lemma shorthand_follow n stop pos a :
  name_ok n -> name_follow stop ->
  RunsG (30 + length n) (ECall R_member_name_shorthand) a (n ++ stop) pos
        (Ok stop (pos + length n) (if emits a then [Pair R_member_name_shorthand pos (pos + length n) []] else [])).
Proof.
  intros Hn Hs. destruct n as [|c r]; [destruct Hn|]. destruct Hn as [Hc Hr]. cbn [app].
  assert (Hrep : RunsG (15 + length r) (ERep (ECall R_name_char)) AAtomic (r ++ stop) (S pos)
                       (Ok stop (S pos + length r) [])).
  { eapply runs_conv.
    - eapply (runs_rep_chars _ grammar 12 (ECall R_name_char) name_char_b).
      + intros c0 r0 p0 H0. apply name_char_ok. exact H0.
      + exact Hr.
      + apply name_char_follow. exact Hs.
    - lia.
    - reflexivity. }
  eapply runs_conv.
  - eapply runs_call; [reflexivity|]. cbn [call_atomicity].
    eapply runs_seq.
    { apply (name_first_ok c (r ++ stop) pos Hc). }
    { red_res. pegd. }
    { red_res. exact Hrep. }
  - norm_len. bound.
  - red_res. norm_len. destruct a; cbn [emits]; repeat (f_equal; try lia).
Qed.

Section Gen.
  Variable sel : Type.
  Variable stext : sel -> str.
  Variable spair : nat -> sel -> pair rname.
  Variable sok : sel -> Prop.
  Variable sdep : sel -> nat.
  Hypothesis sel_runs : forall s c rest pos, sok s -> sel_stop c ->
    RunsG (sdep s) (ECall R_selector) ANonAtomic (stext s ++ c :: rest) pos
          (Ok (c :: rest) (pos + length (stext s)) [spair pos s]).
  Hypothesis sel_not_ws : forall s tail, sok s -> not_ws (stext s ++ tail).

  Definition gcommas_text (l : list sel) : str := flat_map (fun s => 44%N :: stext s) l.
  Fixpoint gsels_pairs (pos : nat) (l : list sel) : list (pair rname) :=
    match l with
    | [] => []
    | s :: l' => spair (pos + 1) s :: gsels_pairs (pos + 1 + length (stext s)) l'
    end.
  Definition ldep (l : list sel) : nat := fold_right (fun s acc => Nat.max (sdep s) acc) 0 l.

  Lemma gcomma_iter_step s c r pos :
    sok s -> sel_stop c ->
    RunsG (30 + sdep s) comma_iter ANonAtomic (44%N :: stext s ++ c :: r) pos
          (Ok (c :: r) (pos + 1 + length (stext s)) [spair (pos + 1) s]).
  Proof.
    intros Hs Hc. unfold comma_iter.
    assert (Hnw : not_ws (stext s ++ c :: r)) by (apply sel_not_ws; exact Hs).
    eapply runs_conv.
    - eapply runs_seq.
      { eapply runs_seq.
        { eapply runs_seq; [pegd|red_res; pegd|red_res; pegd]. }
        { red_res. apply skip_none. exact Hnw. }
        { red_res. apply S_none. exact Hnw. } }
      { red_res. apply skip_none. exact Hnw. }
      { red_res. apply sel_runs; assumption. }
    - norm_len. bound.
    - red_res. norm_len. repeat (f_equal; try lia).
  Qed.

  Lemma gcommas_head l rest : exists c r, gcommas_text l ++ 93%N :: rest = c :: r /\ sel_stop c.
  Proof.
    destruct l as [|s l]; cbn [gcommas_text flat_map app].
    - exists 93%N, rest. split; [reflexivity|right; reflexivity].
    - eexists _, _. split; [reflexivity|left; reflexivity].
  Qed.

  Lemma greptail_commas l : forall rest pos,
    Forall sok l ->
    RunsG (50 + length l + ldep l) (ERepTail comma_iter) ANonAtomic (gcommas_text l ++ 93%N :: rest) pos
          (Ok (93%N :: rest) (pos + length (gcommas_text l)) (gsels_pairs pos l)).
  Proof.
    induction l as [|s l IH]; intros rest pos Hl.
    - cbn [gcommas_text flat_map app length gsels_pairs ldep fold_right]. eapply runs_conv.
      + eapply runs_reptail_stop; [apply skip_none; cbn [not_ws]; repeat split; lia|apply comma_iter_stop].
      + lia.
      + f_equal. lia.
    - pose proof (Forall_inv Hl) as Hs. pose proof (Forall_inv_tail Hl) as Hl'.
      unfold gcommas_text. cbn [flat_map gsels_pairs]. fold (gcommas_text l). rewrite <- app_assoc. cbn [app].
      destruct (gcommas_head l rest) as [c [r [E Hc]]].
      eapply runs_conv.
      + eapply runs_reptail_more.
        * apply skip_none. cbn [not_ws]. repeat split; lia.
        * rewrite E. apply gcomma_iter_step; assumption.
        * lia.
        * rewrite <- E. apply IH. exact Hl'.
      + cbn [length ldep fold_right]. fold (ldep l). lia.
      + cbn [length]. rewrite app_length. cbn [app]. f_equal. lia.
  Qed.

  Lemma grep_commas l rest pos :
    Forall sok l ->
    RunsG (52 + length l + ldep l) (ERep comma_iter) ANonAtomic (gcommas_text l ++ 93%N :: rest) pos
          (Ok (93%N :: rest) (pos + length (gcommas_text l)) (gsels_pairs pos l)).
  Proof.
    intros Hl. destruct l as [|s l].
    - cbn [gcommas_text flat_map app length gsels_pairs ldep fold_right]. eapply runs_conv.
      + eapply runs_rep_none. apply comma_iter_stop.
      + lia.
      + f_equal. lia.
    - pose proof (Forall_inv Hl) as Hs. pose proof (Forall_inv_tail Hl) as Hl'.
      unfold gcommas_text. cbn [flat_map gsels_pairs]. fold (gcommas_text l). rewrite <- app_assoc. cbn [app].
      destruct (gcommas_head l rest) as [c [r [E Hc]]].
      eapply runs_conv.
      + eapply runs_rep_some.
        * rewrite E. apply gcomma_iter_step; assumption.
        * rewrite <- E. apply greptail_commas. exact Hl'.
      + cbn [length ldep fold_right]. fold (ldep l). lia.
      + cbn [length]. rewrite app_length. cbn [app]. f_equal. lia.
  Qed.

  Definition gbracket_text (s : sel) (l : list sel) : str := 91%N :: stext s ++ gcommas_text l ++ [93%N].
  Definition gbracket_pair (pos : nat) (s : sel) (l : list sel) : pair rname :=
    Pair R_bracketed_selection pos (pos + length (gbracket_text s l))
         (spair (pos + 1) s :: gsels_pairs (pos + 1 + length (stext s)) l).
  Definition bdep (s : sel) (l : list sel) : nat := 70 + length l + Nat.max (sdep s) (ldep l).

  Lemma gbracket_runs s l rest pos :
    sok s -> Forall sok l ->
    RunsG (bdep s l) (ECall R_bracketed_selection) ANonAtomic (gbracket_text s l ++ rest) pos
          (Ok rest (pos + length (gbracket_text s l)) [gbracket_pair pos s l]).
  Proof.
    intros Hs Hl. unfold gbracket_pair, gbracket_text, bdep. cbn [app]. rewrite <- !app_assoc. cbn [app].
    destruct (gcommas_head l rest) as [c [r [E Hc]]].
    assert (Hsel : RunsG (sdep s) (ECall R_selector) ANonAtomic
                         (stext s ++ gcommas_text l ++ 93%N :: rest) (pos + 1)
                         (Ok (gcommas_text l ++ 93%N :: rest) (pos + 1 + length (stext s)) [spair (pos + 1) s])).
    { rewrite E. apply sel_runs; assumption. }
    assert (Hnw : not_ws (gcommas_text l ++ 93%N :: rest)).
    { rewrite E. destruct Hc as [-> | ->]; cbn [not_ws]; repeat split; lia. }
    assert (Hnw1 : not_ws (stext s ++ gcommas_text l ++ 93%N :: rest)) by (apply sel_not_ws; exact Hs).
    eapply runs_conv.
    - eapply runs_call; [reflexivity|]. cbn [call_atomicity].
      eapply runs_seq.
      { eapply runs_seq.
        { eapply runs_seq.
          { eapply runs_seq.
            { eapply runs_seq; [pegd|red_res; apply skip_none; exact Hnw1|red_res; apply S_none; exact Hnw1]. }
            { red_res. apply skip_none. exact Hnw1. }
            { red_res. exact Hsel. } }
          { red_res. apply skip_none. exact Hnw. }
          { red_res. apply grep_commas. exact Hl. } }
        { red_res. pegd. }
        { red_res. pegd. } }
      { red_res. pegd. }
      { red_res. pegd. }
    - norm_len. bound.
    - red_res. norm_len. rewrite ?app_nil_r. repeat (f_equal; try lia).
  Qed.

  (* ---------- segments ---------- *)
  Inductive gseg :=
  | GBracket (s : sel) (l : list sel)
  | GShort (n : str)
  | GDotWild
  | GDescBracket (s : sel) (l : list sel)
  | GDescShort (n : str)
  | GDescWild.

  Definition gseg_text (g : gseg) : str :=
    match g with
    | GBracket s l => gbracket_text s l
    | GShort n => 46%N :: n
    | GDotWild => [46%N; 42%N]
    | GDescBracket s l => 46%N :: 46%N :: gbracket_text s l
    | GDescShort n => 46%N :: 46%N :: n
    | GDescWild => [46%N; 46%N; 42%N]
    end.

  Definition gseg_pair (pos : nat) (g : gseg) : pair rname :=
    let en := pos + length (gseg_text g) in
    match g with
    | GBracket s l => Pair R_segment pos en [Pair R_child_segment pos en [gbracket_pair pos s l]]
    | GShort n => Pair R_segment pos en [Pair R_child_segment pos en [Pair R_member_name_shorthand (pos + 1) en []]]
    | GDotWild => Pair R_segment pos en [Pair R_child_segment pos en [Pair R_wildcard_selector (pos + 1) en []]]
    | GDescBracket s l => Pair R_segment pos en [Pair R_descendant_segment pos en [gbracket_pair (pos + 2) s l]]
    | GDescShort n => Pair R_segment pos en [Pair R_descendant_segment pos en [Pair R_member_name_shorthand (pos + 2) en []]]
    | GDescWild => Pair R_segment pos en [Pair R_descendant_segment pos en [Pair R_wildcard_selector (pos + 2) en []]]
    end.

  Definition gseg_ok (g : gseg) : Prop :=
    match g with
    | GBracket s l | GDescBracket s l => sok s /\ Forall sok l
    | GShort n | GDescShort n => name_ok n
    | GDotWild | GDescWild => True
    end.

  Definition gdep (g : gseg) : nat :=
    match g with
    | GBracket s l | GDescBracket s l => 40 + bdep s l
    | GShort n | GDescShort n => 80 + length n
    | GDotWild | GDescWild => 60
    end.

  Ltac gen_hook :=
    lazymatch goal with
    | |- Runs _ _ (ECall R_WHITESPACE) AAtomic _ _ _ => apply ws_fail; solve_not_ws
    | |- Runs _ _ (ECall R_S) _ _ _ _ => apply S_none; solve_not_ws
    | |- Runs _ _ (ECall R_bracketed_selection) _ (gbracket_text _ _ ++ _) _ _ => apply gbracket_runs; assumption
    | |- Runs _ _ (ECall R_member_name_shorthand) _ (?c :: ?r ++ ?rest) _ _ =>
        change (c :: r ++ rest) with ((c :: r) ++ rest); apply shorthand_follow; assumption
    end.
  Ltac peg_hook ::= gen_hook.

  Lemma gsegment_runs g rest pos :
    gseg_ok g -> name_follow rest ->
    RunsG (gdep g) (ECall R_segment) ANonAtomic (gseg_text g ++ rest) pos
          (Ok rest (pos + length (gseg_text g)) [gseg_pair pos g]).
  Proof.
    intros Hg Hr. destruct g as [s l|n| |s l|n| ]; cbn [gseg_ok gdep] in *; unfold gseg_pair; cbn [gseg_text].
    - destruct Hg as [Hs Hl]. pegd_upto.
    - assert (Hn := Hg). destruct n as [|c r]; [destruct Hg|]. destruct Hg as [Hc _].
      apply name_first_cases in Hc. cbn [app]. pegd_upto.
    - cbn [app]. pegd_upto.
    - destruct Hg as [Hs Hl]. cbn [app]. pegd_upto.
    - assert (Hn := Hg). destruct n as [|c r]; [destruct Hg|]. destruct Hg as [Hc _].
      apply name_first_cases in Hc. cbn [app]. pegd_upto.
    - cbn [app]. pegd_upto.
  Qed.

  (* ---------- segment lists followed by a stop ---------- *)
  Definition gsegs_text (q : list gseg) : str := flat_map gseg_text q.
  Fixpoint gsegs_pairs (pos : nat) (q : list gseg) : list (pair rname) :=
    match q with [] => [] | g :: q' => gseg_pair pos g :: gsegs_pairs (pos + length (gseg_text g)) q' end.
  Definition qdep (q : list gseg) : nat := fold_right (fun g acc => Nat.max (gdep g) acc) 0 q.

  Lemma gseg_text_head g rest : exists c r, gseg_text g ++ rest = c :: r /\ (c = 46%N \/ c = 91%N).
  Proof.
    destruct g; cbn [gseg_text gbracket_text app]; eexists _, _; (split; [reflexivity|]); (left; reflexivity) || (right; reflexivity).
  Qed.

  Lemma gsegs_follow q stop : seg_stop stop -> name_follow (gsegs_text q ++ stop).
  Proof.
    intros Hs. destruct q as [|g q].
    - cbn [gsegs_text flat_map app]. destruct stop as [|c r]; [exact I|]. cbn [name_follow seg_stop] in *. right. right. exact Hs.
    - unfold gsegs_text. cbn [flat_map]. rewrite <- app_assoc.
      destruct (gseg_text_head g (flat_map gseg_text q ++ stop)) as [c [r [E H]]]. rewrite E. cbn [name_follow].
      destruct H as [-> | ->]; [left|right; left]; reflexivity.
  Qed.

  Lemma gseg_len_pos g : 1 <= length (gseg_text g).
  Proof. destruct g; cbn [gseg_text gbracket_text length]; lia. Qed.

  Lemma gseg_iter_step g rest pos :
    gseg_ok g -> name_follow rest ->
    RunsG (20 + gdep g) seg_iter ANonAtomic (gseg_text g ++ rest) pos
          (Ok rest (pos + length (gseg_text g)) [gseg_pair pos g]).
  Proof.
    intros Hg Hr. destruct (gseg_text_head g rest) as [c [r [E Hc]]]. unfold seg_iter.
    assert (Hw : not_ws (gseg_text g ++ rest)).
    { rewrite E. destruct Hc as [-> | ->]; cbn [not_ws]; repeat split; lia. }
    eapply runs_conv.
    - eapply runs_seq_ok.
      + apply S_none. exact Hw.
      + apply skip_none. exact Hw.
      + apply gsegment_runs; assumption.
    - destruct g; cbn [gdep]; lia.
    - reflexivity.
  Qed.

  Lemma greptail_segs q : forall stop pos,
    Forall gseg_ok q -> seg_stop stop ->
    RunsG (70 + length q + qdep q) (ERepTail seg_iter) ANonAtomic (gsegs_text q ++ stop) pos
          (Ok stop (pos + length (gsegs_text q)) (gsegs_pairs pos q)).
  Proof.
    induction q as [|g q IH]; intros stop pos Hq Hstop.
    - cbn [gsegs_text flat_map length gsegs_pairs app qdep fold_right]. eapply runs_conv.
      + eapply runs_reptail_stop; [apply skip_none; apply seg_stop_not_ws; exact Hstop|apply seg_iter_stop; exact Hstop].
      + lia.
      + f_equal. lia.
    - pose proof (Forall_inv Hq) as Hg. pose proof (Forall_inv_tail Hq) as Hq'.
      unfold gsegs_text. cbn [flat_map gsegs_pairs]. fold (gsegs_text q). rewrite <- app_assoc.
      destruct (gseg_text_head g (gsegs_text q ++ stop)) as [c [r [E Hc]]].
      pose proof (gseg_len_pos g) as Hlen.
      eapply runs_conv.
      + eapply runs_reptail_more.
        * apply skip_none. rewrite E. destruct Hc as [-> | ->]; cbn [not_ws]; repeat split; lia.
        * apply gseg_iter_step; [exact Hg|apply gsegs_follow; exact Hstop].
        * lia.
        * apply IH; assumption.
      + cbn [length qdep fold_right]. fold (qdep q). lia.
      + rewrite app_length. cbn [app]. f_equal. lia.
  Qed.

  (* the rule `segments` on a segment list followed by a stop *)
  Lemma gsegments_runs q stop pos :
    Forall gseg_ok q -> seg_stop stop ->
    RunsG (75 + length q + qdep q) (ECall R_segments) ANonAtomic (gsegs_text q ++ stop) pos
          (Ok stop (pos + length (gsegs_text q)) [Pair R_segments pos (pos + length (gsegs_text q)) (gsegs_pairs pos q)]).
  Proof.
    intros Hq Hstop. destruct q as [|g q].
    - cbn [gsegs_text flat_map length gsegs_pairs app qdep fold_right]. eapply runs_conv.
      + eapply runs_call_normal_ok; [reflexivity|]. eapply runs_rep_none. apply seg_iter_stop. exact Hstop.
      + lia.
      + cbn [emits]. repeat (f_equal; try lia).
    - pose proof (Forall_inv Hq) as Hg. pose proof (Forall_inv_tail Hq) as Hq'.
      unfold gsegs_text. cbn [flat_map gsegs_pairs]. fold (gsegs_text q). rewrite <- app_assoc.
      eapply runs_conv.
      + eapply runs_call_normal_ok; [reflexivity|]. eapply runs_rep_some.
        * apply gseg_iter_step; [exact Hg|apply gsegs_follow; exact Hstop].
        * apply greptail_segs; assumption.
      + cbn [length qdep fold_right]. fold (qdep q). lia.
      + rewrite app_length. cbn [emits app]. repeat (f_equal; try lia).
  Qed.

  (* ---------- the whole query ---------- *)
  Definition gquery_pairs (q : list gseg) : pair rname :=
    let n := S (length (gsegs_text q)) in
    Pair R_main 0 n [Pair R_jp_query 0 n [Pair R_segments 1 n (gsegs_pairs 1 q)]; Pair R_EOI n n []].

  Lemma gsegs_text_not_ws q : not_ws (gsegs_text q).
  Proof.
    destruct q as [|g q]; [exact I|]. unfold gsegs_text. cbn [flat_map].
    destruct (gseg_text_head g (flat_map gseg_text q)) as [c [r [E Hc]]]. rewrite E.
    destruct Hc as [-> | ->]; cbn [not_ws]; repeat split; lia.
  Qed.

  Lemma gmain_runs q :
    Forall gseg_ok q ->
    RunsG (100 + (length q + qdep q)) (ECall R_main) ANonAtomic (36%N :: gsegs_text q) 0
          (Ok [] (S (length (gsegs_text q))) [gquery_pairs q]).
  Proof.
    intros Hq. pose proof (gsegs_text_not_ws q) as Hw. unfold gquery_pairs.
    pose proof (gsegments_runs q [] 1 Hq I) as Hsegs. rewrite app_nil_r in Hsegs.
    eapply runs_conv.
    - eapply runs_call_normal_ok; [reflexivity|].
      eapply runs_seq_ok.
      + eapply runs_seq_ok.
        * apply runs_soi.
        * apply skip_none. cbn [not_ws]. repeat split; lia.
        * eapply runs_call_normal_ok; [reflexivity|].
          eapply runs_seq_ok.
          -- eapply runs_call_silent; [reflexivity|]. eapply runs_str_ok. reflexivity.
          -- apply skip_none. exact Hw.
          -- exact Hsegs.
      + apply skip_none. exact I.
      + apply runs_eoi_ok.
    - cbn [length]. lia.
    - cbn [emits app length g_eoi grammar]. repeat (f_equal; try lia).
  Qed.
End Gen.
