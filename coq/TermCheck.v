(* TermCheck.v — the termination conditions of PegTerm.v hold of the grammar generated from the .pest file of this run
   (checked by computation, rule by rule), hence: parse_query never reports POutOfFuel, for ANY input string. *)
From Coq Require Import List Arith NArith Bool Lia.
From JP Require Import Base Ast Peg PegFacts Build PegTerm.
From JP.gen Require Import Grammar.
Import ListNotations.
Local Open Scope nat_scope.

Notation lhG := (lh rname grammar rule_rank rule_nullable).
Notation boundedG := (bounded rname grammar rule_rank rule_nullable rank_bound).
Notation nullableG := (nullable rname rule_nullable).

Lemma rank_ok_G : forall r b, lhG (mode b) (snd (g_rule grammar r)) <= rule_rank b r.
Proof. intros r b. apply Nat.leb_le. destruct r, b; vm_compute; reflexivity. Qed.

Lemma bounded_ok_G : forall r b, boundedG (mode b) (snd (g_rule grammar r)) = true.
Proof. intros r b. destruct r, b; vm_compute; reflexivity. Qed.

Lemma nullable_ok_G : forall r, nullableG (snd (g_rule grammar r)) = true -> rule_nullable r = true.
Proof. intros r. destruct r; vm_compute; intros H; first [reflexivity | exact H]. Qed.

Lemma skip_ok_G : 5 + rule_rank true (g_ws grammar) <= rank_bound.
Proof. apply Nat.leb_le. vm_compute. reflexivity. Qed.

Lemma ws_atomic_G : isat (call_atomicity (fst (g_rule grammar (g_ws grammar))) AAtomic) = true.
Proof. reflexivity. Qed.

(* the generated matcher never runs out of the fuel parse_query supplies: for every input string *)
Theorem main_never_out_of_fuel (s : str) :
  Peg.run grammar (parse_fuel s) (ECall R_main) ANonAtomic s 0 <> OutOfFuel.
Proof.
  apply (run_fuel rname grammar rule_rank rule_nullable rank_bound rank_ok_G bounded_ok_G nullable_ok_G skip_ok_G ws_atomic_G
           (parse_fuel s) (ECall R_main) ANonAtomic s 0 (length s) (le_n _)).
  - vm_compute. reflexivity.
  - assert (E : lhG ANonAtomic (ECall R_main) <= 100) by (apply Nat.leb_le; vm_compute; reflexivity).
    assert (Hb : rank_bound <= 400) by (apply Nat.leb_le; vm_compute; reflexivity).
    unfold parse_fuel. nia.
Qed.

Theorem parse_never_out_of_fuel (s : str) : parse_query s <> POutOfFuel.
Proof.
  unfold parse_query, parse_model. destruct (negb (str_eqb s (trim_blank s))); [discriminate|].
  pose proof (main_never_out_of_fuel s) as Hm. unfold parse_rule.
  destruct (Peg.run grammar (parse_fuel s) (ECall R_main) ANonAtomic s 0) as [| |rest p toks]; [discriminate|contradiction|].
  destruct toks as [|m ts]; [discriminate|]. destruct (next_down m); [|discriminate].
  destruct (b_jp_query s (parse_fuel s) p0); [|discriminate].
  match goal with |- context [if ?c then _ else _] => destruct c end; discriminate.
Qed.
