(* StrParse.v — the string sublanguage of RFC 9535 in full: both quote styles, the other quote unescaped, every
   escape (\b \f \n \r \t \/ \\, the own quote, \uXXXX with upper- or lower-case hex digits, surrogate pairs).
   The grammar of this run accepts the text of every such string (as the atomic rule `string`), and nothing
   beyond its closing quote. *)
From Coq Require Import List Arith NArith ZArith Bool Lia.
From JP Require Import Base Ast Peg PegFacts NormPath NormPathFacts Dec2Bin Known Build NpParse BaseFacts FragParse RejectFacts RejectMore.
From JP.gen Require Import Grammar.
Import ListNotations.
Local Open Scope nat_scope.

Ltac peg_hook ::= rej_hook.
Ltac solve_not_ws ::= solve [assumption | cbn [not_ws]; repeat split; lia | exact I].
Ltac cbound := apply Nat.leb_le; vm_compute; reflexivity.
Ltac pegn_upto := eapply runs_conv; [pegn|first [cbound|bound]|red_res; decide_eqb; cbv beta iota; res_eq].

(* ---------- hex digits ---------- *)
Definition hex_b (c : N) : bool :=
  is_digit c || (N.leb 65 c && N.leb c 70) || (N.leb 97 c && N.leb c 102).
Lemma hex_cases c : hex_b c = true ->
  (48 <= c <= 57)%N \/ c = 65%N \/ c = 66%N \/ c = 67%N \/ c = 68%N \/ c = 69%N \/ c = 70%N
  \/ c = 97%N \/ c = 98%N \/ c = 99%N \/ c = 100%N \/ c = 101%N \/ c = 102%N.
Proof.
  unfold hex_b. intros H. apply orb_true_iff in H. destruct H as [H|H]; [apply orb_true_iff in H; destruct H as [H|H]|].
  - apply is_digit_bounds in H. left. exact H.
  - apply andb_true_iff in H. destruct H as [H1 H2]. apply N.leb_le in H1. apply N.leb_le in H2. lia.
  - apply andb_true_iff in H. destruct H as [H1 H2]. apply N.leb_le in H1. apply N.leb_le in H2. lia.
Qed.

Lemma hexdig_ok c rest pos :
  hex_b c = true -> RunsG 20 (ECall R_HEXDIG) AAtomic (c :: rest) pos (Ok rest (S pos) []).
Proof.
  intros H. apply hex_cases in H.
  destruct H as [H|H]; [pegn_upto|]. repeat (destruct H as [H|H]; [subst c; pegn_upto|]). subst c. pegn_upto.
Qed.

Ltac str_hook :=
  lazymatch goal with
  | H : hex_b ?c = true |- Runs _ _ (ECall R_HEXDIG) AAtomic (?c :: _) _ _ => apply hexdig_ok; exact H
  end.
Ltac peg_hook ::= str_hook.

(* ---------- \uXXXX ---------- *)
(* first hex digit of a non-surrogate: anything but D/d; or D/d followed by 0..7 *)
Definition nonsur_b (h1 h2 : N) : bool :=
  (hex_b h1 && negb (N.eqb h1 68) && negb (N.eqb h1 100) && hex_b h2)
  || ((N.eqb h1 68 || N.eqb h1 100) && N.leb 48 h2 && N.leb h2 55).
Definition high_b (h1 h2 : N) : bool :=
  (N.eqb h1 68 || N.eqb h1 100)
  && (N.eqb h2 56 || N.eqb h2 57 || N.eqb h2 65 || N.eqb h2 66 || N.eqb h2 97 || N.eqb h2 98).
Definition low_b (h1 h2 : N) : bool :=
  (N.eqb h1 68 || N.eqb h1 100)
  && (N.eqb h2 67 || N.eqb h2 68 || N.eqb h2 69 || N.eqb h2 70 || N.eqb h2 99 || N.eqb h2 100 || N.eqb h2 101 || N.eqb h2 102).

Ltac orcases H :=
  repeat match type of H with
         | (_ || _)%bool = true => apply orb_true_iff in H; destruct H as [H|H]
         end.

Lemma non_surrogate_ok h1 h2 h3 h4 rest pos :
  nonsur_b h1 h2 = true -> hex_b h3 = true -> hex_b h4 = true ->
  RunsG 60 (ECall R_non_surrogate) AAtomic (h1 :: h2 :: h3 :: h4 :: rest) pos (Ok rest (pos + 4) []).
Proof.
  intros H H3 H4. unfold nonsur_b in H. apply orb_true_iff in H. destruct H as [H|H].
  - apply andb_true_iff in H. destruct H as [H H2]. apply andb_true_iff in H. destruct H as [H Hd].
    apply andb_true_iff in H. destruct H as [H1 HD]. apply negb_true_iff in HD. apply negb_true_iff in Hd.
    apply N.eqb_neq in HD. apply N.eqb_neq in Hd. apply hex_cases in H1.
    destruct H1 as [H1|H1]; [pegn_upto|]. repeat (destruct H1 as [H1|H1]; [subst h1; try contradiction; pegn_upto|]).
    subst h1. pegn_upto.
  - apply andb_true_iff in H. destruct H as [H H2b]. apply andb_true_iff in H. destruct H as [H1 H2a].
    apply N.leb_le in H2a. apply N.leb_le in H2b. orcases H1; apply N.eqb_eq in H1; subst h1; pegn_upto.
Qed.

Lemma high_surrogate_ok h1 h2 h3 h4 rest pos :
  high_b h1 h2 = true -> hex_b h3 = true -> hex_b h4 = true ->
  RunsG 60 (ECall R_high_surrogate) AAtomic (h1 :: h2 :: h3 :: h4 :: rest) pos (Ok rest (pos + 4) []).
Proof.
  intros H H3 H4. unfold high_b in H. apply andb_true_iff in H. destruct H as [H1 H2].
  orcases H1; apply N.eqb_eq in H1; subst h1; orcases H2; apply N.eqb_eq in H2; subst h2; pegn_upto.
Qed.

Lemma low_surrogate_ok h1 h2 h3 h4 rest pos :
  low_b h1 h2 = true -> hex_b h3 = true -> hex_b h4 = true ->
  RunsG 60 (ECall R_low_surrogate) AAtomic (h1 :: h2 :: h3 :: h4 :: rest) pos (Ok rest (pos + 4) []).
Proof.
  intros H H3 H4. unfold low_b in H. apply andb_true_iff in H. destruct H as [H1 H2].
  orcases H1; apply N.eqb_eq in H1; subst h1; orcases H2; apply N.eqb_eq in H2; subst h2; pegn_upto.
Qed.

(* a high surrogate is not a non-surrogate: the first alternative of hexchar fails on it *)
Lemma non_surrogate_fails_high h1 h2 rest pos :
  high_b h1 h2 = true -> RunsG 60 (ECall R_non_surrogate) AAtomic (h1 :: h2 :: rest) pos Fail.
Proof.
  intros H. unfold high_b in H. apply andb_true_iff in H. destruct H as [H1 H2].
  orcases H1; apply N.eqb_eq in H1; subst h1; orcases H2; apply N.eqb_eq in H2; subst h2; pegn_upto.
Qed.

(* ---------- the items of a string body ---------- *)
Definition unesc_b (c : N) : bool :=
  (N.leb 32 c && N.leb c 33) || (N.leb 35 c && N.leb c 38) || (N.leb 40 c && N.leb c 91)
  || (N.leb 93 c && N.leb c 55295) || (N.leb 57344 c && N.leb c 1114111).
Definition esc_b (c : N) : bool :=
  N.eqb c 98 || N.eqb c 102 || N.eqb c 110 || N.eqb c 114 || N.eqb c 116 || N.eqb c 47 || N.eqb c 92.

Inductive sitem :=
| IPlain (c : N)                                  (* an unescaped character (neither quote, not the backslash) *)
| IOther                                          (* the other quote character, as it is *)
| IEscQ                                           (* backslash + the quote of this string *)
| IEsc (c : N)                                    (* \b \f \n \r \t \/ \\ *)
| IU (h1 h2 h3 h4 : N)                            (* \uXXXX, not a surrogate *)
| IUPair (h1 h2 h3 h4 l1 l2 l3 l4 : N).           (* \uD8..\uDC.. *)

Definition quote_of (dq : bool) : N := if dq then 34%N else 39%N.
Definition item_text (dq : bool) (it : sitem) : str :=
  match it with
  | IPlain c => [c]
  | IOther => [quote_of (negb dq)]
  | IEscQ => [92%N; quote_of dq]
  | IEsc c => [92%N; c]
  | IU h1 h2 h3 h4 => [92; 117; h1; h2; h3; h4]%N
  | IUPair h1 h2 h3 h4 l1 l2 l3 l4 => [92; 117; h1; h2; h3; h4; 92; 117; l1; l2; l3; l4]%N
  end.
Definition item_ok (it : sitem) : Prop :=
  match it with
  | IPlain c => unesc_b c = true
  | IOther | IEscQ => True
  | IEsc c => esc_b c = true
  | IU h1 h2 h3 h4 => nonsur_b h1 h2 = true /\ hex_b h3 = true /\ hex_b h4 = true
  | IUPair h1 h2 h3 h4 l1 l2 l3 l4 =>
      high_b h1 h2 = true /\ hex_b h3 = true /\ hex_b h4 = true /\ low_b l1 l2 = true /\ hex_b l3 = true /\ hex_b l4 = true
  end.
Definition quoted_rule (dq : bool) : rname := if dq then R_double_quoted else R_single_quoted.

Ltac item_hook :=
  lazymatch goal with
  | H : hex_b ?c = true |- Runs _ _ (ECall R_HEXDIG) AAtomic (?c :: _) _ _ => apply hexdig_ok; exact H
  | |- Runs _ _ (ECall R_non_surrogate) AAtomic (?a :: ?b :: ?c :: ?d :: _) _ _ =>
      first [ apply non_surrogate_ok; assumption | apply non_surrogate_fails_high; assumption ]
  | |- Runs _ _ (ECall R_high_surrogate) AAtomic (_ :: _ :: _ :: _ :: _) _ _ => apply high_surrogate_ok; assumption
  | |- Runs _ _ (ECall R_low_surrogate) AAtomic (_ :: _ :: _ :: _ :: _) _ _ => apply low_surrogate_ok; assumption
  end.
Ltac peg_hook ::= item_hook.

Lemma unesc_cases c : unesc_b c = true ->
  (32 <= c <= 33 \/ 35 <= c <= 38 \/ 40 <= c <= 91 \/ 93 <= c <= 55295 \/ 57344 <= c <= 1114111)%N.
Proof.
  unfold unesc_b. intros H. orcases H; apply andb_true_iff in H; destruct H as [H1 H2];
    apply N.leb_le in H1; apply N.leb_le in H2; lia.
Qed.

Lemma item_runs dq it rest pos :
  item_ok it ->
  RunsG 100 (ECall (quoted_rule dq)) AAtomic (item_text dq it ++ rest) pos (Ok rest (pos + length (item_text dq it)) []).
Proof.
  intros Hok. destruct it as [c| | |c|h1 h2 h3 h4|h1 h2 h3 h4 l1 l2 l3 l4]; cbn [item_ok item_text app] in *.
  - apply unesc_cases in Hok. destruct dq; cbn [quoted_rule]; destruct Hok as [H|[H|[H|[H|H]]]]; pegn_upto.
  - destruct dq; cbn [quoted_rule quote_of negb]; pegn_upto.
  - destruct dq; cbn [quoted_rule quote_of]; pegn_upto.
  - unfold esc_b in Hok. destruct dq; cbn [quoted_rule]; orcases Hok; apply N.eqb_eq in Hok; subst c; pegn_upto.
  - destruct Hok as [H12 [H3 H4]]. destruct dq; cbn [quoted_rule]; pegn_upto.
  - destruct Hok as [Hh [H3 [H4 [Hl [L3 L4]]]]]. destruct dq; cbn [quoted_rule]; pegn_upto.
Qed.

(* ---------- the whole string ---------- *)
Definition body_text (dq : bool) (its : list sitem) : str := flat_map (item_text dq) its.
Definition string_text (dq : bool) (its : list sitem) : str := quote_of dq :: body_text dq its ++ [quote_of dq].

Lemma item_len dq it : 1 <= length (item_text dq it).
Proof. destruct it; cbn [item_text length]; lia. Qed.

Lemma quoted_stop dq rest pos :
  RunsG 100 (ECall (quoted_rule dq)) AAtomic (quote_of dq :: rest) pos Fail.
Proof. destruct dq; cbn [quoted_rule quote_of]; pegn_upto. Qed.

Lemma reptail_items dq its : forall rest pos,
  Forall item_ok its ->
  RunsG (104 + length its) (ERepTail (ECall (quoted_rule dq))) AAtomic (body_text dq its ++ quote_of dq :: rest) pos
        (Ok (quote_of dq :: rest) (pos + length (body_text dq its)) []).
Proof.
  induction its as [|it its IH]; intros rest pos Hok.
  - cbn [body_text flat_map app length]. eapply runs_conv.
    + eapply runs_reptail; [pegd|red_res; apply quoted_stop|red_res; split; reflexivity].
    + bound.
    + red_res. f_equal. lia.
  - pose proof (Forall_inv Hok) as Hit. pose proof (Forall_inv_tail Hok) as Hok'.
    unfold body_text. cbn [flat_map]. fold (body_text dq its). rewrite <- app_assoc.
    pose proof (item_len dq it) as Hlen.
    eapply runs_conv.
    + eapply runs_reptail.
      * pegd.
      * red_res. apply (item_runs dq it (body_text dq its ++ quote_of dq :: rest) pos Hit).
      * red_res. decide_eqb. cbv beta iota. apply (IH rest (pos + length (item_text dq it)) Hok').
    + cbn [length]. bound.
    + red_res. decide_eqb. cbv beta iota. rewrite app_length. f_equal. lia.
Qed.

Lemma rep_items dq its rest pos :
  Forall item_ok its ->
  RunsG (106 + length its) (ERep (ECall (quoted_rule dq))) AAtomic (body_text dq its ++ quote_of dq :: rest) pos
        (Ok (quote_of dq :: rest) (pos + length (body_text dq its)) []).
Proof.
  intros Hok. destruct its as [|it its].
  - cbn [body_text flat_map app length]. eapply runs_conv.
    + eapply runs_rep; [apply quoted_stop|red_res; split; reflexivity].
    + bound.
    + red_res. f_equal. lia.
  - pose proof (Forall_inv Hok) as Hit. pose proof (Forall_inv_tail Hok) as Hok'.
    unfold body_text. cbn [flat_map]. fold (body_text dq its). rewrite <- app_assoc.
    eapply runs_conv.
    + eapply runs_rep.
      * apply (item_runs dq it (body_text dq its ++ quote_of dq :: rest) pos Hit).
      * red_res. apply (reptail_items dq its rest (pos + length (item_text dq it)) Hok').
    + cbn [length]. bound.
    + red_res. rewrite app_length. f_equal. lia.
Qed.

(* the atomic rule `string` reads exactly the text of the string, whatever follows it *)
Theorem string_runs dq its rest pos a :
  Forall item_ok its ->
  RunsG (120 + length its) (ECall R_string) a (string_text dq its ++ rest) pos
        (Ok rest (pos + length (string_text dq its))
            (if emits a then [Pair R_string pos (pos + length (string_text dq its)) []] else [])).
Proof.
  intros Hok. unfold string_text. cbn [app]. rewrite <- app_assoc. cbn [app].
  pose proof (rep_items dq its rest (pos + 1) Hok) as Hrep.
  destruct dq; cbn [quote_of quoted_rule] in *.
  - eapply runs_conv.
    + eapply runs_call; [reflexivity|]. cbn [call_atomicity].
      eapply runs_alt.
      { eapply runs_seq.
        { eapply runs_seq; [pegd|red_res; pegd|red_res; cbn [length]; exact Hrep]. }
        { red_res. pegd. }
        { red_res. pegd. } }
      { red_res. split; reflexivity. }
    + cbn [length]. bound.
    + red_res. cbn [length]. rewrite !app_length. cbn [length]. destruct a; cbn [emits]; repeat (f_equal; try lia).
  - eapply runs_conv.
    + eapply runs_call; [reflexivity|]. cbn [call_atomicity].
      eapply runs_alt.
      { pegd. }
      { red_res. eapply runs_seq.
        { eapply runs_seq; [pegd|red_res; pegd|red_res; cbn [length]; exact Hrep]. }
        { red_res. pegd. }
        { red_res. pegd. } }
    + cbn [length]. bound.
    + red_res. cbn [length]. rewrite !app_length. cbn [length]. destruct a; cbn [emits]; repeat (f_equal; try lia).
Qed.
