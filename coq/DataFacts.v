(* DataFacts.v — algebra of the evaluator's State/Data (reduce, flat_map) seen as nodelists. *)
From Coq Require Import List NArith ZArith Bool Lia.
From JP Require Import Base Ast Eval BaseFacts.
Import ListNotations.

Section Data.
  Variable T : Type.
  Variable Q : qops T.

  Definition node_of' (p : ptr T) : loc * T := (ploc p, inner p).
  Definition nodes_of' (d : data T) : list (loc * T) := map node_of' (refs_of d).
  (* "list-like": a nodelist, not a computed value *)
  Definition ll (d : data T) : Prop := match d with DVal _ => False | _ => True end.

  Lemma refs_flat_map (f : ptr T -> data T) d :
    ll d -> (forall p, ll (f p)) ->
    refs_of (flat_map_data f d) = flat_map (fun p => refs_of (f p)) (refs_of d).
  Proof.
    intros Hd Hf. destruct d as [p|l|v|]; cbn.
    - rewrite app_nil_r. reflexivity.
    - reflexivity.
    - destruct Hd.
    - reflexivity.
  Qed.

  Lemma nodes_flat_map (f : ptr T -> data T) d :
    nodes_of' (flat_map_data f d) = flat_map (fun p => nodes_of' (f p)) (refs_of d).
  Proof.
    unfold nodes_of'. destruct d as [p|l|v|]; cbn.
    - rewrite app_nil_r. reflexivity.
    - rewrite map_flat_map. reflexivity.
    - reflexivity.
    - reflexivity.
  Qed.

  Lemma ll_flat_map (f : ptr T -> data T) d : (forall p, ll (f p)) -> ll (flat_map_data f d).
  Proof. intros Hf. destruct d as [p|l|v|]; cbn; auto. Qed.

  Lemma ll_reduce a b : ll (reduce a b).
  Proof. destruct a, b; cbn; auto. Qed.

  Lemma refs_reduce a b : ll a -> ll b -> refs_of (reduce a b) = refs_of a ++ refs_of b.
  Proof.
    intros Ha Hb. destruct a as [p|l|v|], b as [p2|l2|v2|]; cbn; try contradiction;
      rewrite ?app_nil_r; reflexivity.
  Qed.

  Lemma nodes_reduce a b : ll a -> ll b -> nodes_of' (reduce a b) = nodes_of' a ++ nodes_of' b.
  Proof. intros Ha Hb. unfold nodes_of'. rewrite refs_reduce by assumption. apply map_app. Qed.

  Lemma flat_map_data_nothing (f : ptr T -> data T) : flat_map_data f DNothing = DNothing.
  Proof. reflexivity. Qed.
  Lemma flat_map_data_ref (f : ptr T -> data T) p : flat_map_data f (DRef p) = f p.
  Proof. reflexivity. Qed.
End Data.

Arguments node_of' {T}. Arguments nodes_of' {T}. Arguments ll {T}.
