(* RegexFacts.v — what Theorem A needs from the regex model: on a backslash-free pattern the
   model of the regex crate, run on the pattern that prepare_regex builds, answers what the
   I-Regexp specification says.  (Placeholder model: every pattern is "unsupported" on both
   sides; the real dialect model replaces Regex.v and these two lemmas.) *)
From Coq Require Import List NArith Bool.
From JP Require Import Base Eval Known Regex.

Lemma rx_model_full_ok p s : no_bslash p = true ->
  match rx_model_search (prepare_regex p false) s with Some b => b | None => false end
  = rx_spec_full p s.
Proof. reflexivity. Qed.
Lemma rx_model_sub_ok p s : no_bslash p = true ->
  match rx_model_search (prepare_regex p true) s with Some b => b | None => false end
  = rx_spec_sub p s.
Proof. reflexivity. Qed.
