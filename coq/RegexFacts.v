(* RegexFacts.v — what Theorem A needs from the regex model: for a pattern without backslashes,
   what the code computes (the pattern compiled by itself, then — for match — compiled wrapped in
   ^(?: )$, then searched) is the whole-string / substring match of the parsed pattern. *)
From Coq Require Import List NArith ZArith Bool Lia.
From JP Require Import Base Eval Known Regex.
Import ListNotations.

(* ---------- one-step equations of the parser ---------- *)
Lemma p_alt_step f s :
  p_alt (S f) s =
  match p_cat f s with
  | XOk a (c :: r) =>
      if N.eqb c 124 then match p_alt f r with XOk b r2 => XOk (RAlt a b) r2 | e => e end
      else XOk a (c :: r)
  | x => x
  end.
Proof. reflexivity. Qed.

Lemma p_cat_step f s :
  p_cat (S f) s =
  match s with
  | [] => XOk REps s
  | c :: _ =>
      if N.eqb c 41 || N.eqb c 124 then XOk REps s
      else
        match p_atom f s with
        | XOk a r =>
            match (if is_anchor a then XOk a r else p_quant a r) with
            | XOk q r2 =>
                match p_cat f r2 with
                | XOk REps r3 => XOk q r3
                | XOk rest r3 => XOk (RCat q rest) r3
                | e => e
                end
            | e => e
            end
        | e => e
        end
  end.
Proof. destruct s; reflexivity. Qed.

Definition group_of (f : nat) (body : str) : rp re :=
  match p_alt f body with
  | XOk a (d :: r2) => if N.eqb d 41 then XOk a r2 else XBad
  | XOk _ [] => XBad
  | e => e
  end.

Lemma p_atom_step f s :
  p_atom (S f) s =
  match s with
  | [] => XBad
  | c :: r =>
      if N.eqb c 40 then
        match r with
        | c2 :: r' =>
            if N.eqb c2 63 then
              match r' with
              | c3 :: r'' => if N.eqb c3 58 then group_of f r'' else XUns
              | [] => XUns
              end
            else group_of f r
        | [] => group_of f r
        end
      else if N.eqb c 91 then
        match r with
        | c2 :: r' =>
            if N.eqb c2 94 then
              match class_items (S (length r')) r' [] with XOk rs r2 => XOk (RClass true rs) r2 | XBad => XBad | XUns => XUns end
            else
              match class_items (S (length r)) r [] with XOk rs r2 => XOk (RClass false rs) r2 | XBad => XBad | XUns => XUns end
        | [] => XBad
        end
      else if N.eqb c 46 then XOk (RAny false) r
      else if N.eqb c 94 then XOk RBegin r
      else if N.eqb c 36 then XOk REnd r
      else if N.eqb c 92 then
        match r with
        | e :: r2 => match esc_char e with Some x => XOk (RChar x) r2 | None => XUns end
        | [] => XBad
        end
      else if N.eqb c 42 || N.eqb c 43 || N.eqb c 63 then XBad
      else if N.eqb c 123 || N.eqb c 125 || N.eqb c 93 then XUns
      else XOk (RChar c) r
  end.
Proof. destruct s; reflexivity. Qed.

(* ---------- fuel monotonicity of successful parses ---------- *)
Lemma parse_mono f :
  (forall s r rest, p_alt f s = XOk r rest -> forall f', (f <= f')%nat -> p_alt f' s = XOk r rest) /\
  (forall s r rest, p_cat f s = XOk r rest -> forall f', (f <= f')%nat -> p_cat f' s = XOk r rest) /\
  (forall s r rest, p_atom f s = XOk r rest -> forall f', (f <= f')%nat -> p_atom f' s = XOk r rest).
Proof.
  induction f as [|f [IHa [IHc IHt]]]; [repeat split; intros; discriminate|].
  assert (Hg : forall body r rest f', (f <= f')%nat -> group_of f body = XOk r rest -> group_of f' body = XOk r rest).
  { intros body r rest f' Hf H. unfold group_of in *.
    destruct (p_alt f body) as [a ra| |] eqn:Ea; try discriminate. rewrite (IHa _ _ _ Ea f' Hf). exact H. }
  repeat split; intros s r rest H f' Hf; (destruct f' as [|f']; [lia|]); assert (Hf2 : (f <= f')%nat) by lia.
  - rewrite p_alt_step in *. destruct (p_cat f s) as [a rc| |] eqn:Ec; try discriminate.
    rewrite (IHc _ _ _ Ec f' Hf2). destruct rc as [|c rc]; [exact H|].
    destruct (N.eqb c 124); [|exact H].
    destruct (p_alt f rc) as [b r2| |] eqn:Ea; try discriminate. rewrite (IHa _ _ _ Ea f' Hf2). exact H.
  - rewrite p_cat_step in *. destruct s as [|c s]; [exact H|].
    destruct (N.eqb c 41 || N.eqb c 124); [exact H|].
    destruct (p_atom f (c :: s)) as [a ra| |] eqn:Et; try discriminate. rewrite (IHt _ _ _ Et f' Hf2).
    destruct (if is_anchor a then XOk a ra else p_quant a ra) as [q r2| |]; try discriminate.
    destruct (p_cat f r2) as [rest2 r3| |] eqn:Ec; try discriminate. rewrite (IHc _ _ _ Ec f' Hf2). exact H.
  - rewrite p_atom_step in *. destruct s as [|c s]; [discriminate|].
    destruct (N.eqb c 40); [|exact H].
    destruct s as [|c2 s]; [apply (Hg _ _ _ _ Hf2 H)|].
    destruct (N.eqb c2 63); [|apply (Hg _ _ _ _ Hf2 H)].
    destruct s as [|c3 s]; [discriminate|]. destruct (N.eqb c3 58); [apply (Hg _ _ _ _ Hf2 H)|discriminate].
Qed.

(* ---------- extension: a successful parse is unchanged by a ')' following the input ---------- *)
Lemma take_num_ext s : forall acc seen t,
  (match t with c :: _ => is_digit_c c = false | [] => True end) ->
  take_num (s ++ t) acc seen = (fst (take_num s acc seen), snd (take_num s acc seen) ++ t).
Proof.
  induction s as [|c s IH]; intros acc seen t Ht; cbn [app take_num].
  - destruct t as [|d t]; [reflexivity|]. cbv beta iota in Ht. cbn [take_num fst snd app]. rewrite Ht. reflexivity.
  - destruct (is_digit_c c); [apply IH; exact Ht|reflexivity].
Qed.

Definition close : N := 41%N.
Section Ext.
  Variable t' : str.
  Notation t := (close :: t').

  Lemma after_quant_ext r s q rest : after_quant r s = XOk q rest -> after_quant r (s ++ t) = XOk q (rest ++ t).
  Proof.
    destruct s as [|c s]; cbn [after_quant app].
    - intros H. inversion H. reflexivity.
    - destruct (is_quant_char c); [discriminate|]. intros H. inversion H. reflexivity.
  Qed.

  Lemma p_quant_ext a s q rest : p_quant a s = XOk q rest -> p_quant a (s ++ t) = XOk q (rest ++ t).
  Proof.
    destruct s as [|c s]; cbn [p_quant app].
    - intros H. inversion H. reflexivity.
    - destruct (N.eqb c 42); [apply after_quant_ext|]. destruct (N.eqb c 43); [apply after_quant_ext|].
      destruct (N.eqb c 63); [apply after_quant_ext|].
      destruct (N.eqb c 123); [|intros H; inversion H; reflexivity].
      rewrite (take_num_ext s 0 false t) by reflexivity.
      destruct (take_num s 0 false) as [[lo|] r1]; cbn [fst snd]; [|destruct (r1 ++ t); discriminate || (intros; discriminate)].
      + destruct r1 as [|d r2]; [discriminate|]. cbn [app].
        destruct (N.eqb d 125); [apply after_quant_ext|].
        destruct (N.eqb d 44); [|discriminate].
        rewrite (take_num_ext r2 0 false t) by reflexivity.
        destruct (take_num r2 0 false) as [[hi|] r3]; cbn [fst snd].
        * destruct r3 as [|e r4]; [discriminate|]. cbn [app]. destruct (N.eqb e 125); [|discriminate].
          destruct (Nat.leb lo hi); [apply after_quant_ext|discriminate].
        * destruct r3 as [|e r4]; [discriminate|]. cbn [app]. destruct (N.eqb e 125); [apply after_quant_ext|discriminate].
  Qed.

  Lemma class_char_ext s c rest : class_char s = XOk c rest -> class_char (s ++ t) = XOk c (rest ++ t).
  Proof.
    destruct s as [|x s]; [discriminate|]. cbn [class_char app].
    destruct (N.eqb x 92).
    - destruct s as [|e s]; [discriminate|]. cbn [app]. destruct (esc_char e); [|discriminate].
      intros H. inversion H. reflexivity.
    - destruct (_ || _); [discriminate|]. intros H. inversion H. reflexivity.
  Qed.

  Lemma class_items_ext f : forall s acc rs rest,
    class_items f s acc = XOk rs rest -> forall f', (f <= f')%nat -> class_items f' (s ++ t) acc = XOk rs (rest ++ t).
  Proof.
    induction f as [|f IH]; intros s acc rs rest H f' Hf; [discriminate|].
    destruct f' as [|f']; [lia|]. assert (Hf2 : (f <= f')%nat) by lia.
    cbn [class_items] in *. destruct s as [|c s]; [discriminate|]. cbn [app].
    destruct (N.eqb c 93).
    - destruct acc; [discriminate|]. inversion H. reflexivity.
    - change (c :: s ++ t) with ((c :: s) ++ t).
      destruct (class_char (c :: s)) as [lo r1| |] eqn:Ec; try discriminate.
      rewrite (class_char_ext _ _ _ Ec).
      destruct r1 as [|d r2]; [discriminate|]. cbn [app].
      destruct (N.eqb d 45).
      + destruct r2 as [|e r3]; [discriminate|]. cbn [app]. destruct (N.eqb e 93); [discriminate|].
        change (e :: r3 ++ t) with ((e :: r3) ++ t).
        destruct (class_char (e :: r3)) as [hi r4| |] eqn:Ec2; try discriminate.
        rewrite (class_char_ext _ _ _ Ec2). destruct (N.leb lo hi); [|discriminate].
        apply IH; assumption.
      + change (d :: r2 ++ t) with ((d :: r2) ++ t). apply IH; assumption.
  Qed.

  Lemma parse_ext f :
    (forall s r rest, p_alt f s = XOk r rest -> p_alt f (s ++ t) = XOk r (rest ++ t)) /\
    (forall s r rest, p_cat f s = XOk r rest -> p_cat f (s ++ t) = XOk r (rest ++ t)) /\
    (forall s r rest, p_atom f s = XOk r rest -> p_atom f (s ++ t) = XOk r (rest ++ t)).
  Proof.
    induction f as [|f [IHa [IHc IHt]]]; [repeat split; intros; discriminate|].
    assert (Hg : forall body r rest, group_of f body = XOk r rest -> group_of f (body ++ t) = XOk r (rest ++ t)).
    { intros body r rest H. unfold group_of in *.
      destruct (p_alt f body) as [a ra| |] eqn:Ea; try discriminate. rewrite (IHa _ _ _ Ea).
      destruct ra as [|d r2]; [discriminate|]. cbn [app]. destruct (N.eqb d 41); [|discriminate].
      inversion H. reflexivity. }
    repeat split; intros s r rest H.
    - rewrite p_alt_step in *. destruct (p_cat f s) as [a rc| |] eqn:Ec; try discriminate.
      rewrite (IHc _ _ _ Ec). destruct rc as [|c rc].
      + inversion H. subst. reflexivity.
      + cbn [app]. destruct (N.eqb c 124).
        * destruct (p_alt f rc) as [b r2| |] eqn:Ea; try discriminate. rewrite (IHa _ _ _ Ea).
          inversion H. reflexivity.
        * inversion H. reflexivity.
    - rewrite p_cat_step in *. destruct s as [|c s].
      + inversion H. subst. reflexivity.
      + cbn [app]. destruct (N.eqb c 41 || N.eqb c 124); [inversion H; reflexivity|].
        change (c :: s ++ t) with ((c :: s) ++ t).
        destruct (p_atom f (c :: s)) as [a ra| |] eqn:Et; try discriminate. rewrite (IHt _ _ _ Et).
        assert (Hq : forall q r2, (if is_anchor a then XOk a ra else p_quant a ra) = XOk q r2 ->
                     (if is_anchor a then XOk a (ra ++ t) else p_quant a (ra ++ t)) = XOk q (r2 ++ t)).
        { intros q r2 Hq. destruct (is_anchor a); [inversion Hq; reflexivity|apply p_quant_ext; exact Hq]. }
        destruct (if is_anchor a then XOk a ra else p_quant a ra) as [q r2| |] eqn:Eq; try discriminate.
        rewrite (Hq _ _ eq_refl).
        destruct (p_cat f r2) as [rest2 r3| |] eqn:Ec; try discriminate. rewrite (IHc _ _ _ Ec).
        destruct rest2; inversion H; reflexivity.
    - rewrite p_atom_step in *. destruct s as [|c s]; [discriminate|]. cbn [app].
      destruct (N.eqb c 40).
      + destruct s as [|c2 s].
        * (* "(" alone: the group body is empty and no ')' follows: not a success *)
          unfold group_of in H. destruct f as [|[|f0]]; cbn in H; discriminate.
        * cbn [app]. destruct (N.eqb c2 63).
          -- destruct s as [|c3 s]; [discriminate|]. cbn [app]. destruct (N.eqb c3 58); [apply Hg; exact H|discriminate].
          -- change (c2 :: s ++ t) with ((c2 :: s) ++ t). apply Hg. exact H.
      + destruct (N.eqb c 91).
        * destruct s as [|c2 s]; [discriminate|]. cbn [app]. destruct (N.eqb c2 94).
          -- destruct (class_items (S (length s)) s []) as [rs r2| |] eqn:Ei; try discriminate.
             rewrite (class_items_ext _ _ _ _ _ Ei (S (length (s ++ t)))) by (rewrite app_length; lia).
             inversion H. reflexivity.
          -- destruct (class_items (S (length (c2 :: s))) (c2 :: s) []) as [rs r2| |] eqn:Ei; try discriminate.
             change (c2 :: s ++ t) with ((c2 :: s) ++ t).
             rewrite (class_items_ext _ _ _ _ _ Ei (S (length ((c2 :: s) ++ t)))) by (rewrite app_length; lia).
             inversion H. reflexivity.
        * destruct (N.eqb c 46); [inversion H; reflexivity|].
          destruct (N.eqb c 94); [inversion H; reflexivity|].
          destruct (N.eqb c 36); [inversion H; reflexivity|].
          destruct (N.eqb c 92).
          -- destruct s as [|e s]; [discriminate|]. cbn [app]. destruct (esc_char e); [|discriminate].
             inversion H. reflexivity.
          -- destruct (_ || _); [discriminate|]. destruct (_ || _); [discriminate|]. inversion H. reflexivity.
  Qed.
End Ext.

(* ---------- prepare_regex on a pattern without backslashes ---------- *)
Lemma replace_2bs_no_bslash s : no_bslash s = true -> replace_2bs s = s.
Proof.
  induction s as [|c s IH]; [reflexivity|]. cbn [no_bslash forallb]. intros H.
  apply andb_true_iff in H. destruct H as [Hc Hs]. apply negb_true_iff in Hc.
  cbn [replace_2bs]. destruct s as [|c2 s']; [reflexivity|].
  unfold c_bslash. rewrite Hc. cbn [andb]. f_equal. apply IH. exact Hs.
Qed.

Definition wrap (p : str) : str := [94; 40; 63; 58]%N ++ p ++ [41; 36]%N.

Lemma prepare_search p : no_bslash p = true -> prepare_regex p true = p.
Proof. intros H. unfold prepare_regex. apply replace_2bs_no_bslash. exact H. Qed.
Lemma prepare_match p : no_bslash p = true -> prepare_regex p false = wrap p.
Proof.
  intros H. unfold prepare_regex, wrap. apply replace_2bs_no_bslash.
  unfold no_bslash in *. cbn [app forallb]. rewrite forallb_app, H. reflexivity.
Qed.

(* ---------- the wrapped pattern parses to ^, the pattern, $ ---------- *)
Ltac eqbs := repeat match goal with
                    | |- context [N.eqb ?a ?b] =>
                        let v := eval vm_compute in (N.eqb a b) in
                        match v with true => idtac | false => idtac end;
                        change (N.eqb a b) with v
                    end; cbn [orb andb].

Lemma parse_wrap p r : re_parse p = PValid r -> re_parse (wrap p) = PValid (RCat RBegin (RCat r REnd)).
Proof.
  unfold re_parse. destruct (p_alt (parse_fuel p) p) as [r0 rest| |] eqn:E; try discriminate.
  destruct rest as [|c rest]; [|discriminate]. intros H. inversion H. subst r0. clear H.
  (* the pattern itself, followed by ")$", with the fuel available at that depth *)
  set (k := (3 * length p + 17)%nat).
  assert (Hk : parse_fuel (wrap p) = S (S (S (S (S k))))).
  { unfold parse_fuel, wrap, k. rewrite !app_length. cbn [length]. lia. }
  assert (Hin : p_alt (S k) (p ++ [41; 36]%N) = XOk r [41; 36]%N).
  { destruct (parse_ext [36%N] (parse_fuel p)) as [Ha _]. specialize (Ha p r [] E). cbn [app] in Ha.
    destruct (parse_mono (parse_fuel p)) as [Hm _]. apply (Hm _ _ _ Ha). unfold parse_fuel, k. lia. }
  rewrite Hk. unfold wrap. cbn [app].
  rewrite p_alt_step, p_cat_step. eqbs.
  rewrite p_atom_step. eqbs. cbn [is_anchor].
  rewrite p_cat_step. eqbs. rewrite p_atom_step. eqbs.
  unfold group_of. rewrite Hin. eqbs. cbn [is_anchor].
  assert (Hr : (if is_anchor r then XOk r [36%N] else p_quant r [36%N]) = XOk r [36%N]).
  { destruct (is_anchor r); [reflexivity|]. cbn [p_quant]. eqbs. reflexivity. }
  rewrite Hr. rewrite p_cat_step. eqbs. rewrite p_atom_step. eqbs. cbn [is_anchor].
  rewrite p_cat_step. reflexivity.
Qed.

(* ---------- searching the wrapped expression is matching the whole string ---------- *)
Definition nonempty {A} (l : list A) : bool := match l with [] => false | _ => true end.

Lemma nonempty_nodup l : nonempty (nodup_nat l) = nonempty l.
Proof.
  induction l as [|x l IH]; [reflexivity|]. cbn [nodup_nat].
  destruct (existsb (Nat.eqb x) l) eqn:E; [|reflexivity].
  rewrite IH. destruct l; [discriminate|reflexivity].
Qed.
Lemma nonempty_flat_map {A B} (f : A -> list B) l : nonempty (flat_map f l) = existsb (fun x => nonempty (f x)) l.
Proof.
  induction l as [|x l IH]; [reflexivity|]. cbn [flat_map existsb]. rewrite <- IH.
  destruct (f x); reflexivity.
Qed.

Lemma search_anchored s r : search s (RCat RBegin (RCat r REnd)) = full s r.
Proof.
  unfold search, full.
  assert (H0 : nonempty (ends s (RCat RBegin (RCat r REnd)) 0) = existsb (Nat.eqb (length s)) (ends s r 0)).
  { cbn [ends Nat.eqb flat_map]. rewrite app_nil_r, !nonempty_nodup, nonempty_flat_map.
    induction (ends s r 0) as [|j l IH]; [reflexivity|]. cbn [existsb]. rewrite IH. f_equal.
    rewrite Nat.eqb_sym. destruct (Nat.eqb (length s) j); reflexivity. }
  assert (Hi : forall i, i <> 0%nat -> ends s (RCat RBegin (RCat r REnd)) i = []).
  { intros i Hi. cbn [ends]. destruct (Nat.eqb_spec i 0); [contradiction|]. reflexivity. }
  cbn [seq existsb].
  change (match ends s (RCat RBegin (RCat r REnd)) 0 with [] => false | _ :: _ => true end)
    with (nonempty (ends s (RCat RBegin (RCat r REnd)) 0)).
  rewrite H0.
  assert (Hrest : existsb (fun i => match ends s (RCat RBegin (RCat r REnd)) i with [] => false | _ :: _ => true end)
                    (seq 1 (length s)) = false).
  { apply not_true_is_false. intros Ht. apply existsb_exists in Ht. destruct Ht as [i [Hin Hne]].
    apply in_seq in Hin. rewrite Hi in Hne by lia. discriminate. }
  rewrite Hrest, orb_false_r. reflexivity.
Qed.

(* ---------- the two hypotheses of Theorem A ---------- *)
Theorem rx_model_sub_ok p s : no_bslash p = true -> regex_result rx_model_search p s true = rx_spec_sub p s.
Proof.
  intros H. unfold regex_result, rx_model_search, rx_spec_sub. rewrite (prepare_search p H).
  destruct (re_parse p); reflexivity.
Qed.

Theorem rx_model_full_ok p s : no_bslash p = true -> regex_result rx_model_search p s false = rx_spec_full p s.
Proof.
  intros H. unfold regex_result, rx_model_search, rx_spec_full.
  rewrite (prepare_search p H), (prepare_match p H).
  destruct (re_parse p) as [r| |] eqn:E; try reflexivity.
  rewrite (parse_wrap p r E). apply search_anchored.
Qed.
