(* Reference.v — C09: reference / reference_mut (src/query/queryable.rs, impl Queryable for Value,
   after the repair that walks the path step by step): model, specification, lens laws. *)
From Coq Require Import List NArith ZArith Bool Lia.
From JP Require Import Base Ast Eval ValueModel Spec NormPath Known Peg Dec2Bin Build Concrete BaseFacts SelFacts.
From JP.gen Require Import Grammar.
Import ListNotations.
Open Scope Z_scope.

(* ---------- model ---------- *)
Inductive pstep := PName (k : str) | PIdx (i : nat).

(* path_steps: only name and index selectors; name.trim_matches('\''); usize::try_from(index) *)
Fixpoint path_steps (q : segments) : option (list pstep) :=
  match q with
  | GNil => Some []
  | GCons (SegSel (SelName name)) l =>
      match path_steps l with Some r => Some (PName (trim_matches (is_c c_quote) name) :: r) | None => None end
  | GCons (SegSel (SelIndex i)) l =>
      if Z.ltb i 0 then None
      else match path_steps l with Some r => Some (PIdx (Z.to_nat i) :: r) | None => None end
  | GCons _ _ => None
  end.

Definition step_of (p : pstep) : step := match p with PName k => SName k | PIdx i => SIdx i end.

(* the walk: a name is only looked up in an object, an index only in an array *)
Fixpoint ref_walk (d : json) (ps : list pstep) : option json :=
  match ps with
  | [] => Some d
  | PName k :: r => match d with JObj m => match assoc k m with Some v => ref_walk v r | None => None end | _ => None end
  | PIdx i :: r => match d with JArr l => match nth_error l i with Some v => ref_walk v r | None => None end | _ => None end
  end.

(* reference(path): the location it resolves to (ghost) and the node *)
Definition m_reference_q (q : query) (d : json) : option (loc * json) :=
  match path_steps q with
  | Some ps => match ref_walk d ps with Some v => Some (map step_of ps, v) | None => None end
  | None => None
  end.
Definition m_reference (path : str) (d : json) : option (loc * json) :=
  match parse_query path with POk q => m_reference_q q d | _ => None end.

(* ---------- specification ---------- *)
(* writing a value at a location *)
Fixpoint set_nth {A} (l : list A) (n : nat) (x : A) : list A :=
  match l, n with
  | [], _ => []
  | _ :: l', O => x :: l'
  | y :: l', S n' => y :: set_nth l' n' x
  end.
Fixpoint set_assoc (k : str) (x : json) (m : list (str * json)) : list (str * json) :=
  match m with
  | [] => []
  | (k', v) :: m' => if str_eqb k k' then (k', x) :: m' else (k', v) :: set_assoc k x m'
  end.
Fixpoint set_at (d : json) (l : loc) (x : json) : option json :=
  match l with
  | [] => Some x
  | SIdx i :: l' =>
      match d with
      | JArr a => match nth_error a i with
                  | Some c => match set_at c l' x with Some c' => Some (JArr (set_nth a i c')) | None => None end
                  | None => None
                  end
      | _ => None
      end
  | SName k :: l' =>
      match d with
      | JObj m => match assoc k m with
                  | Some c => match set_at c l' x with Some c' => Some (JObj (set_assoc k c' m)) | None => None end
                  | None => None
                  end
      | _ => None
      end
  end.

(* what RFC 9535 says a path made of name and index selectors designates *)
Fixpoint rfc_path_steps (q : segments) : option loc :=
  match q with
  | GNil => Some []
  | GCons (SegSel (SelName raw)) l =>
      match decode_name raw, rfc_path_steps l with Some k, Some r => Some (SName k :: r) | _, _ => None end
  | GCons (SegSel (SelIndex i)) l =>
      if Z.ltb i 0 then None
      else match rfc_path_steps l with Some r => Some (SIdx (Z.to_nat i) :: r) | None => None end
  | GCons _ _ => None
  end.
Definition rfc_reference (path : str) (d : json) : option (loc * json) :=
  match rfc_parse path with
  | RfcValid q =>
      match rfc_path_steps q with
      | Some l => match lookup d l with Some v => Some (l, v) | None => None end
      | None => None
      end
  | _ => None
  end.

(* the AST of the Normalized Path of a location *)
Definition np_query (l : loc) : segments :=
  fold_right (fun s acc =>
                GCons (SegSel (match s with
                               | SName k => SelName ([39%N] ++ flat_map np_escape_char k ++ [39%N])
                               | SIdx i => SelIndex (Z.of_nat i)
                               end)) acc) GNil l.

(* ---------- theorems ---------- *)
Definition loc_plain (l : loc) : bool :=
  forallb (fun s => match s with SName k => docname_plain k | SIdx _ => true end) l.

Lemma walk_is_lookup d ps : ref_walk d ps = lookup d (map step_of ps).
Proof.
  revert d. induction ps as [|[k|i] ps IH]; intros d; [reflexivity| |];
    destruct d; cbn [ref_walk map step_of lookup child_at]; try reflexivity.
  - destruct (assoc k m); [apply IH|reflexivity].
  - destruct (nth_error l i); [apply IH|reflexivity].
Qed.

Lemma escape_plain' k : docname_plain k = true -> flat_map np_escape_char k = k.
Proof.
  induction k as [|c k IH]; [reflexivity|]. cbn [docname_plain forallb]. intros H.
  apply andb_true_iff in H. destruct H as [Hc Hk]. cbn [flat_map]. rewrite (IH Hk).
  apply andb_true_iff in Hc. destruct Hc as [Hc H92]. apply andb_true_iff in Hc. destruct Hc as [H32 H39].
  apply negb_true_iff in H92. apply negb_true_iff in H39. apply N.leb_le in H32.
  unfold np_escape_char.
  destruct (N.eqb_spec c 8); [lia|]. destruct (N.eqb_spec c 12); [lia|].
  destruct (N.eqb_spec c 10); [lia|]. destruct (N.eqb_spec c 13); [lia|].
  destruct (N.eqb_spec c 9); [lia|]. rewrite H39, H92.
  destruct (N.ltb_spec c 32); [lia|]. reflexivity.
Qed.

Lemma docname_plain_no39 k : docname_plain k = true -> forallb (fun x => negb (N.eqb x 39)) k = true.
Proof.
  unfold docname_plain. rewrite !forallb_forall. intros H x Hx. specialize (H x Hx).
  apply andb_true_iff in H. destruct H as [H _]. apply andb_true_iff in H. apply H.
Qed.

Lemma path_steps_np l : loc_plain l = true ->
  path_steps (np_query l) = Some (map (fun s => match s with SName k => PName k | SIdx i => PIdx i end) l).
Proof.
  induction l as [|s l IH]; [reflexivity|]. cbn [loc_plain forallb]. intros H.
  apply andb_true_iff in H. destruct H as [Hs Hl]. cbn [np_query fold_right]. fold (np_query l).
  destruct s as [k|i]; cbn [path_steps map].
  - rewrite (IH Hl), (escape_plain' k Hs). unfold c_quote.
    change ([39%N] ++ k ++ [39%N]) with (39%N :: k ++ [39%N]).
    rewrite (trim_quoted 39 k (docname_plain_no39 k Hs)). reflexivity.
  - destruct (Z.ltb_spec (Z.of_nat i) 0); [lia|]. rewrite (IH Hl), Nat2Z.id. reflexivity.
Qed.

(* C09, AST level: the Normalized Path of every existing node resolves to exactly that node,
   and the Normalized Path of a location that does not exist resolves to None *)
Theorem reference_np (d : json) (l : loc) :
  loc_plain l = true ->
  m_reference_q (np_query l) d = match lookup d l with Some v => Some (l, v) | None => None end.
Proof.
  intros Hp. unfold m_reference_q. rewrite (path_steps_np l Hp), walk_is_lookup.
  rewrite map_map.
  assert (E : map (fun x => step_of match x with SName k => PName k | SIdx i => PIdx i end) l = l).
  { clear. induction l as [|[k|i] l IH]; [reflexivity| |]; cbn [map step_of]; rewrite IH; reflexivity. }
  rewrite E. reflexivity.
Qed.

(* whatever a path resolves to lives at the resolved location (never a different node) *)
Theorem reference_sound (q : query) (d : json) l v :
  m_reference_q q d = Some (l, v) -> lookup d l = Some v.
Proof.
  unfold m_reference_q. destruct (path_steps q) as [ps|]; [|discriminate].
  destruct (ref_walk d ps) as [x|] eqn:E; [|discriminate]. intros H. inversion H. subst.
  rewrite <- walk_is_lookup. exact E.
Qed.

(* lens laws of writing through a location: the node is replaced and nothing else changes *)
Lemma set_nth_same {A} (l : list A) n x : (n < length l)%nat -> nth_error (set_nth l n x) n = Some x.
Proof.
  revert n. induction l as [|y l IH]; intros [|n] H; cbn in *; try lia; [reflexivity|]. apply IH. lia.
Qed.
Lemma set_nth_other {A} (l : list A) n m x : n <> m -> nth_error (set_nth l n x) m = nth_error l m.
Proof.
  revert n m. induction l as [|y l IH]; intros [|n] [|m] H; cbn; try reflexivity; try contradiction.
  apply IH. lia.
Qed.
Lemma set_assoc_same k x m c : assoc k m = Some c -> assoc k (set_assoc k x m) = Some x.
Proof.
  induction m as [|[k' v] m IH]; [discriminate|]. cbn [assoc set_assoc].
  destruct (str_eqb k k') eqn:E; cbn [assoc]; rewrite E; [reflexivity|]. exact IH.
Qed.
Lemma set_assoc_other k k2 x m : str_eqb k2 k = false -> assoc k2 (set_assoc k x m) = assoc k2 m.
Proof.
  intros Hne. induction m as [|[k' v] m IH]; [reflexivity|]. cbn [assoc set_assoc].
  destruct (str_eqb k k') eqn:E; cbn [assoc].
  - apply str_eqb_eq in E. subst k'. rewrite Hne. reflexivity.
  - rewrite IH. reflexivity.
Qed.

Theorem set_get (d : json) : forall l x d', set_at d l x = Some d' -> lookup d' l = Some x.
Proof.
  revert d. intros d l. revert d. induction l as [|s l IH]; intros d x d' H; cbn [set_at] in H.
  - inversion H. reflexivity.
  - destruct s as [k|i].
    + destruct d as [| | | | |m]; try discriminate. destruct (assoc k m) as [c|] eqn:Ea; [|discriminate].
      destruct (set_at c l x) as [c'|] eqn:Es; [|discriminate]. inversion H. subst.
      cbn [lookup child_at]. rewrite (set_assoc_same k c' m c Ea). eapply IH. exact Es.
    + destruct d as [| | | |a|]; try discriminate. destruct (nth_error a i) as [c|] eqn:En; [|discriminate].
      destruct (set_at c l x) as [c'|] eqn:Es; [|discriminate]. inversion H. subst.
      cbn [lookup child_at]. rewrite set_nth_same by (apply nth_error_Some; congruence). eapply IH. exact Es.
Qed.

(* [l2] does not pass through [l]: it diverges from it at some step *)
Fixpoint diverges (l l2 : loc) : bool :=
  match l, l2 with
  | s :: r, s2 :: r2 => if step_eqb s s2 then diverges r r2 else true
  | _, _ => false
  end.

Lemma step_eqb_name_false k k2 : step_eqb (SName k) (SName k2) = false -> str_eqb k2 k = false.
Proof. cbn. rewrite str_eqb_sym. auto. Qed.

Theorem set_frame (d : json) : forall l l2 x d',
  set_at d l x = Some d' -> diverges l l2 = true -> lookup d' l2 = lookup d l2.
Proof.
  intros l. revert d. induction l as [|s l IH]; intros d l2 x d' H Hd; [discriminate|].
  destruct l2 as [|s2 l2]; [discriminate|]. cbn [diverges] in Hd. cbn [set_at] in H.
  destruct s as [k|i].
  - destruct d as [| | | | |m]; try discriminate. destruct (assoc k m) as [c|] eqn:Ea; [|discriminate].
    destruct (set_at c l x) as [c'|] eqn:Es; [|discriminate]. inversion H. subst. cbn [lookup].
    destruct s2 as [k2|i2]; [|reflexivity]. cbn [child_at].
    destruct (step_eqb (SName k) (SName k2)) eqn:E.
    + cbn in E. apply str_eqb_eq in E. subst k2. rewrite (set_assoc_same k c' m c Ea), Ea. eapply IH; eassumption.
    + rewrite (set_assoc_other k k2 c' m (step_eqb_name_false _ _ E)). reflexivity.
  - destruct d as [| | | |a|]; try discriminate. destruct (nth_error a i) as [c|] eqn:En; [|discriminate].
    destruct (set_at c l x) as [c'|] eqn:Es; [|discriminate]. inversion H. subst. cbn [lookup].
    destruct s2 as [k2|i2]; [reflexivity|]. cbn [child_at].
    destruct (step_eqb (SIdx i) (SIdx i2)) eqn:E.
    + cbn in E. apply Nat.eqb_eq in E. subst i2.
      rewrite set_nth_same by (apply nth_error_Some; congruence). rewrite En. eapply IH; eassumption.
    + cbn in E. apply Nat.eqb_neq in E. rewrite set_nth_other by exact E. reflexivity.
Qed.
