(* RegexSem.v — what the regular expressions of Regex.v mean, independently of the matcher: the
   textbook relation "the substring s[i, j) matches r" (anchors are absolute positions), and the proof
   that the executable position-set matcher [ends] computes exactly it.  C10's match/search statements
   are then about this relation, not about an algorithm. *)
From Coq Require Import List Arith NArith Bool Lia.
From JP Require Import Base Regex.
Import ListNotations.

Section Sem.
  Variable s : str.

  Inductive star (R : nat -> nat -> Prop) : nat -> nat -> Prop :=
  | star_refl i : star R i i
  | star_step i k j : R i k -> star R k j -> star R i j.

  Fixpoint pow (R : nat -> nat -> Prop) (n : nat) (i j : nat) : Prop :=
    match n with O => i = j | S n' => exists k, R i k /\ pow R n' k j end.

  Fixpoint M (r : re) (i j : nat) : Prop :=
    match r with
    | RChar c => nth_error s i = Some c /\ j = S i
    | RAny cr => exists d, nth_error s i = Some d /\ (N.eqb d 10 || (cr && N.eqb d 13)) = false /\ j = S i
    | RClass neg rs => exists d, nth_error s i = Some d /\ xorb neg (in_ranges d rs) = true /\ j = S i
    | REps => j = i
    | RCat a b => exists k, M a i k /\ M b k j
    | RAlt a b => M a i j \/ M b i j
    | RStar a => star (M a) i j
    | RPlus a => exists k, M a i k /\ star (M a) k j
    | ROpt a => j = i \/ M a i j
    | RRep a lo hi =>
        (* the parser only builds {lo,hi} with lo <= hi; then lo + (h - lo) = h *)
        exists n, lo <= n /\ match hi with Some h => n <= lo + (h - lo) | None => True end /\ pow (M a) n i j
    | RBegin => i = 0 /\ j = 0
    | REnd => i = length s /\ j = length s
    end.

  (* ---------- list helpers ---------- *)
  Lemma existsb_eqb_In x l : existsb (Nat.eqb x) l = true <-> In x l.
  Proof.
    rewrite existsb_exists. split.
    - intros [y [Hy E]]. apply Nat.eqb_eq in E. subst. exact Hy.
    - intros H. exists x. split; [exact H|apply Nat.eqb_refl].
  Qed.

  Lemma in_nodup x l : In x (nodup_nat l) <-> In x l.
  Proof.
    induction l as [|y l IH]; [reflexivity|]. cbn [nodup_nat].
    destruct (existsb (Nat.eqb y) l) eqn:E.
    - rewrite IH. split; [intros H; right; exact H|]. intros [<-|H]; [apply existsb_eqb_In; exact E|exact H].
    - cbn [In]. rewrite IH. reflexivity.
  Qed.

  Lemma nodup_NoDup l : NoDup (nodup_nat l).
  Proof.
    induction l as [|y l IH]; [constructor|]. cbn [nodup_nat].
    destruct (existsb (Nat.eqb y) l) eqn:E; [exact IH|]. constructor; [|exact IH].
    rewrite in_nodup. intros H. apply existsb_eqb_In in H. congruence.
  Qed.

  Lemma NoDup_app_intro (l1 l2 : list nat) :
    NoDup l1 -> NoDup l2 -> (forall x, In x l1 -> In x l2 -> False) -> NoDup (l1 ++ l2).
  Proof.
    induction l1 as [|a l1 IH]; intros H1 H2 Hd; [exact H2|]. cbn [app]. inversion H1 as [|? ? Ha Hl]; subst.
    constructor.
    - intros Hin. apply in_app_or in Hin. destruct Hin as [Hin|Hin]; [contradiction|].
      apply (Hd a); [left; reflexivity|exact Hin].
    - apply IH; [exact Hl|exact H2|]. intros x Hx1 Hx2. apply (Hd x); [right; exact Hx1|exact Hx2].
  Qed.

  (* ---------- the closure computes the reflexive-transitive closure ---------- *)
  Section Closure.
    Variable f : nat -> list nat.
    Definition Rf (x y : nat) : Prop := In y (f x).
    Let L := length s.
    Hypothesis Fb : forall x y, x <= L -> In y (f x) -> y <= L.

    Definition next_of (frontier seen : list nat) : list nat :=
      nodup_nat (List.filter (fun j => negb (existsb (Nat.eqb j) seen)) (flat_map f frontier)).

    Lemma in_next y frontier seen :
      In y (next_of frontier seen) <-> (exists x, In x frontier /\ In y (f x)) /\ ~ In y seen.
    Proof.
      unfold next_of. rewrite in_nodup, filter_In, in_flat_map, negb_true_iff. split.
      - intros [H E]. split; [exact H|]. intros Hin. apply existsb_eqb_In in Hin. congruence.
      - intros [H Hn]. split; [exact H|]. destruct (existsb (Nat.eqb y) seen) eqn:E; [|reflexivity].
        apply existsb_eqb_In in E. contradiction.
    Qed.

    Lemma closure_step k frontier seen :
      closure f (S k) frontier seen
      = match next_of frontier seen with [] => seen | _ => closure f k (next_of frontier seen) (seen ++ next_of frontier seen) end.
    Proof. reflexivity. Qed.

    Lemma closure_sound fuel : forall frontier seen y,
      In y (closure f fuel frontier seen) -> In y seen \/ exists x, In x frontier /\ star Rf x y.
    Proof.
      induction fuel as [|k IH]; intros frontier seen y H; [left; exact H|].
      rewrite closure_step in H. destruct (next_of frontier seen) as [|n0 nx] eqn:E; [left; exact H|].
      rewrite <- E in H. destruct (IH _ _ _ H) as [Hs|[x [Hx Hst]]].
      - apply in_app_or in Hs. destruct Hs as [Hs|Hs]; [left; exact Hs|].
        apply in_next in Hs. destruct Hs as [[x [Hx Hy]] _]. right. exists x. split; [exact Hx|].
        eapply star_step; [exact Hy|apply star_refl].
      - apply in_next in Hx. destruct Hx as [[x0 [Hx0 Hy]] _]. right. exists x0. split; [exact Hx0|].
        eapply star_step; [exact Hy|exact Hst].
    Qed.

    Lemma nodup_bounded_length (l : list nat) : NoDup l -> (forall x, In x l -> x <= L) -> length l <= S L.
    Proof.
      intros Hnd Hb. rewrite <- (seq_length (S L) 0). apply NoDup_incl_length; [exact Hnd|].
      intros x Hx. apply in_seq. specialize (Hb x Hx). lia.
    Qed.

    Lemma closure_complete fuel : forall frontier seen,
      incl frontier seen ->
      (forall x, In x seen -> ~ In x frontier -> forall y, In y (f x) -> In y seen) ->
      NoDup seen -> (forall x, In x seen -> x <= L) ->
      L + 2 <= fuel + length seen ->
      incl seen (closure f fuel frontier seen)
      /\ (forall x, In x (closure f fuel frontier seen) -> forall y, In y (f x) -> In y (closure f fuel frontier seen)).
    Proof.
      induction fuel as [|k IH]; intros frontier seen Hfs Hcl Hnd Hb Hfuel.
      - pose proof (nodup_bounded_length seen Hnd Hb). cbn in Hfuel. lia.
      - rewrite closure_step. destruct (next_of frontier seen) as [|n0 nx] eqn:E.
        + split; [apply incl_refl|]. intros x Hx y Hy.
          destruct (in_dec Nat.eq_dec x frontier) as [Hxf|Hxf]; [|apply (Hcl x Hx Hxf y Hy)].
          destruct (in_dec Nat.eq_dec y seen) as [Hys|Hys]; [exact Hys|].
          assert (Hin : In y (next_of frontier seen)) by (apply in_next; split; [exists x; split; assumption|exact Hys]).
          rewrite E in Hin. destruct Hin.
        + rewrite <- E.
          assert (Hnext_b : forall x, In x (next_of frontier seen) -> x <= L).
          { intros x Hx. apply in_next in Hx. destruct Hx as [[x0 [Hx0 Hy]] _].
            apply (Fb x0 x); [apply Hb; apply Hfs; exact Hx0|exact Hy]. }
          destruct (IH (next_of frontier seen) (seen ++ next_of frontier seen)) as [Hinc Hclosed].
          * intros x Hx. apply in_or_app. right. exact Hx.
          * intros x Hx Hnx y Hy. apply in_app_or in Hx. destruct Hx as [Hx|Hx]; [|contradiction].
            apply in_or_app.
            destruct (in_dec Nat.eq_dec x frontier) as [Hxf|Hxf]; [|left; apply (Hcl x Hx Hxf y Hy)].
            destruct (in_dec Nat.eq_dec y seen) as [Hys|Hys]; [left; exact Hys|].
            right. apply in_next. split; [exists x; split; assumption|exact Hys].
          * apply NoDup_app_intro; [exact Hnd|apply nodup_NoDup|].
            intros x Hx Hx2. apply in_next in Hx2. destruct Hx2 as [_ Hn]. contradiction.
          * intros x Hx. apply in_app_or in Hx. destruct Hx as [Hx|Hx]; [apply Hb; exact Hx|apply Hnext_b; exact Hx].
          * rewrite app_length. rewrite E. cbn [length]. cbn in Hfuel. lia.
          * split; [|exact Hclosed]. intros x Hx. apply Hinc. apply in_or_app. left. exact Hx.
    Qed.
  End Closure.

  (* ---------- the matcher computes the relation ---------- *)
  Let L := length s.

  Lemma star_bound (R : nat -> nat -> Prop) :
    (forall x y, x <= L -> R x y -> y <= L) -> forall i j, star R i j -> i <= L -> j <= L.
  Proof. intros HR i j H. induction H as [i|i k j Hik _ IH]; intros Hi; [exact Hi|]. apply IH. apply (HR i k Hi Hik). Qed.

  Lemma pow_bound (R : nat -> nat -> Prop) :
    (forall x y, x <= L -> R x y -> y <= L) -> forall n i j, pow R n i j -> i <= L -> j <= L.
  Proof.
    intros HR n. induction n as [|n IH]; intros i j H Hi; cbn [pow] in H; [subst; exact Hi|].
    destruct H as [k [Hik Hkj]]. apply (IH k j Hkj). apply (HR i k Hi Hik).
  Qed.

  Lemma M_bound r : forall i j, i <= L -> M r i j -> j <= L.
  Proof.
    induction r as [c|cr|neg rs| |a IHa b IHb|a IHa b IHb|a IHa|a IHa|a IHa|a IHa lo hi| | ]; intros i j Hi H; cbn [M] in H.
    - destruct H as [Hn ->]. apply nth_error_Some. congruence.
    - destruct H as [d [Hn [_ ->]]]. apply nth_error_Some. congruence.
    - destruct H as [d [Hn [_ ->]]]. apply nth_error_Some. congruence.
    - subst. exact Hi.
    - destruct H as [k [H1 H2]]. apply (IHb k j); [apply (IHa i k Hi H1)|exact H2].
    - destruct H as [H|H]; [apply (IHa i j Hi H)|apply (IHb i j Hi H)].
    - apply (star_bound (M a) IHa i j H Hi).
    - destruct H as [k [H1 H2]]. apply (star_bound (M a) IHa k j H2). apply (IHa i k Hi H1).
    - destruct H as [->|H]; [exact Hi|apply (IHa i j Hi H)].
    - destruct H as [n [_ [_ H]]]. apply (pow_bound (M a) IHa n i j H Hi).
    - destruct H as [_ ->]. lia.
    - destruct H as [_ ->]. apply le_n.
  Qed.

  Section Iter.
    Variable f : nat -> list nat.
    Variable R : nat -> nat -> Prop.
    Hypothesis Hf : forall x y, x <= L -> (In y (f x) <-> R x y).
    Hypothesis HR : forall x y, x <= L -> R x y -> y <= L.

    Lemma Fb_of : forall x y, x <= length s -> In y (f x) -> y <= length s.
    Proof. intros x y Hx Hy. apply (HR x y Hx). apply Hf; assumption. Qed.

    Lemma star_Rf x y : x <= L -> (star (Rf f) x y <-> star R x y).
    Proof.
      intros Hx. split; intros H.
      - induction H as [i|i k j Hik _ IH]; [apply star_refl|].
        assert (Hr : R i k) by (apply Hf; assumption).
        eapply star_step; [exact Hr|apply IH; apply (HR i k Hx Hr)].
      - induction H as [i|i k j Hik _ IH]; [apply star_refl|].
        eapply star_step; [apply Hf; eassumption|apply IH; apply (HR i k Hx Hik)].
    Qed.

    Lemma closure_spec st y :
      NoDup st -> (forall x, In x st -> x <= L) ->
      (In y (closure f (S L) st st) <-> exists x, In x st /\ star R x y).
    Proof.
      intros Hnd Hb. destruct st as [|x0 st0].
      - cbn. split; [intros []|intros [x [[] _]]].
      - set (st := x0 :: st0) in *. split.
        + intros H. destruct (closure_sound f (S L) st st y H) as [Hs|[x [Hx Hst]]].
          * exists y. split; [exact Hs|apply star_refl].
          * exists x. split; [exact Hx|]. apply star_Rf; [apply Hb; exact Hx|exact Hst].
        + intros [x [Hx Hst]].
          destruct (closure_complete f Fb_of (S L) st st) as [Hinc Hclosed].
          * apply incl_refl.
          * intros z Hz Hnz. contradiction.
          * exact Hnd.
          * exact Hb.
          * unfold st. cbn [length]. fold L. lia.
          * assert (Hxin : In x (closure f (S L) st st)) by (apply Hinc; exact Hx).
            assert (Hxl : x <= L) by (apply Hb; exact Hx).
            clear Hx. induction Hst as [i|i k j Hik _ IH]; [exact Hxin|].
            apply IH; [apply (Hclosed i Hxin k); apply Hf; assumption|apply (HR i k Hxl Hik)].
    Qed.

    Lemma flat_step cur y : (forall x, In x cur -> x <= L) ->
      (In y (nodup_nat (flat_map f cur)) <-> exists x, In x cur /\ R x y).
    Proof.
      intros Hb. rewrite in_nodup, in_flat_map. split; intros [x [Hx H]]; exists x; (split; [exact Hx|]); apply (Hf x y (Hb x Hx)); exact H.
    Qed.

    Lemma iter_ends_spec n : forall from y, (forall x, In x from -> x <= L) ->
      (In y (iter_ends f n from) <-> exists x, In x from /\ pow R n x y).
    Proof.
      induction n as [|n IH]; intros from y Hb; cbn [iter_ends pow].
      - split; [intros H; exists y; split; [exact H|reflexivity]|intros [x [Hx ->]]; exact Hx].
      - rewrite IH.
        + split.
          * intros [k [Hk Hp]]. apply flat_step in Hk; [|exact Hb]. destruct Hk as [x [Hx Hxk]].
            exists x. split; [exact Hx|]. exists k. split; assumption.
          * intros [x [Hx [k [Hxk Hp]]]]. exists k. split; [|exact Hp]. apply flat_step; [exact Hb|]. exists x. split; assumption.
        + intros k Hk. apply flat_step in Hk; [|exact Hb]. destruct Hk as [x [Hx Hxk]]. apply (HR x k (Hb x Hx) Hxk).
    Qed.

    Fixpoint more (k : nat) (cur acc : list nat) : list nat :=
      match k with
      | O => acc
      | S k' => let nxt := nodup_nat (flat_map f cur) in more k' nxt (nodup_nat (acc ++ nxt))
      end.

    Lemma more_spec k : forall cur acc y, (forall x, In x cur -> x <= L) ->
      (In y (more k cur acc) <-> In y acc \/ exists m, 1 <= m <= k /\ exists x, In x cur /\ pow R m x y).
    Proof.
      induction k as [|k IH]; intros cur acc y Hb; cbn [more].
      - split; [intros H; left; exact H|intros [H|[m [Hm _]]]; [exact H|lia]].
      - rewrite IH.
        + rewrite in_nodup, in_app_iff. split.
          * intros [[H|H]|[m [Hm [x [Hx Hp]]]]].
            -- left. exact H.
            -- right. exists 1. split; [lia|]. apply flat_step in H; [|exact Hb]. destruct H as [x [Hx Hxy]].
               exists x. split; [exact Hx|]. exists y. split; [exact Hxy|reflexivity].
            -- right. exists (S m). split; [lia|]. apply flat_step in Hx; [|exact Hb]. destruct Hx as [x0 [Hx0 H0]].
               exists x0. split; [exact Hx0|]. exists x. split; assumption.
          * intros [H|[m [Hm [x [Hx Hp]]]]]; [left; left; exact H|].
            destruct m as [|m]; [lia|]. cbn [pow] in Hp. destruct Hp as [k0 [Hxk Hp]].
            destruct m as [|m].
            -- cbn [pow] in Hp. subst k0. left. right. apply flat_step; [exact Hb|]. exists x. split; assumption.
            -- right. exists (S m). split; [lia|]. exists k0. split; [|exact Hp]. apply flat_step; [exact Hb|]. exists x. split; assumption.
        + intros x Hx. apply flat_step in Hx; [|exact Hb]. destruct Hx as [x0 [Hx0 H0]]. apply (HR x0 x (Hb x0 Hx0) H0).
    Qed.
  End Iter.

  Lemma pow_add (R : nat -> nat -> Prop) n m i j :
    pow R (n + m) i j <-> exists k, pow R n i k /\ pow R m k j.
  Proof.
    revert i. induction n as [|n IH]; intros i; cbn [pow Nat.add].
    - split; [intros H; exists i; split; [reflexivity|exact H]|intros [k [-> H]]; exact H].
    - split.
      + intros [k [Hik H]]. apply IH in H. destruct H as [k2 [H1 H2]]. exists k2. split; [exists k; split; assumption|exact H2].
      + intros [k2 [[k [Hik H1]] H2]]. exists k. split; [exact Hik|]. apply IH. exists k2. split; assumption.
  Qed.

  Lemma star_pow (R : nat -> nat -> Prop) i j : star R i j <-> exists n, pow R n i j.
  Proof.
    split.
    - intros H. induction H as [i|i k j Hik _ [n IH]]; [exists 0; reflexivity|]. exists (S n). exists k. split; assumption.
    - intros [n H]. revert i H. induction n as [|n IH]; intros i H; cbn [pow] in H; [subst; apply star_refl|].
      destruct H as [k [Hik H]]. eapply star_step; [exact Hik|apply IH; exact H].
  Qed.

  Lemma iter_ends_NoDup f n : forall from, NoDup from -> NoDup (iter_ends f n from).
  Proof. induction n as [|n IH]; intros from H; cbn [iter_ends]; [exact H|]. apply IH. apply nodup_NoDup. Qed.

  (* the position-set matcher computes the relation, for every expression and every position *)
  Theorem ends_spec r : forall i j, i <= L -> (In j (ends s r i) <-> M r i j).
  Proof.
    induction r as [c|cr|neg rs| |a IHa b IHb|a IHa b IHb|a IHa|a IHa|a IHa|a IHa lo hi| | ]; intros i j Hi; cbn [ends M].
    - unfold char_at. destruct (nth_error s i) as [d|] eqn:E.
      + destruct (N.eqb_spec c d) as [->|Hne]; cbn [In].
        * split; [intros [<-|[]]; split; reflexivity|intros [_ ->]; left; reflexivity].
        * split; [intros []|intros [Hd _]; congruence].
      + split; [intros []|intros [Hd _]; discriminate].
    - unfold char_at. destruct (nth_error s i) as [d|] eqn:E.
      + destruct (N.eqb d 10 || cr && N.eqb d 13) eqn:Eb; cbn [In].
        * split; [intros []|intros [d' [Hd [Hb _]]]; inversion Hd; subst; congruence].
        * split; [intros [<-|[]]; exists d; repeat split; assumption|intros [d' [_ [_ ->]]]; left; reflexivity].
      + split; [intros []|intros [d' [Hd _]]; discriminate].
    - unfold char_at. destruct (nth_error s i) as [d|] eqn:E.
      + destruct (xorb neg (in_ranges d rs)) eqn:Eb; cbn [In].
        * split; [intros [<-|[]]; exists d; repeat split; assumption|intros [d' [_ [_ ->]]]; left; reflexivity].
        * split; [intros []|intros [d' [Hd [Hb _]]]; inversion Hd; subst; congruence].
      + split; [intros []|intros [d' [Hd _]]; discriminate].
    - cbn [In]. split; [intros [<-|[]]; reflexivity|intros ->; left; reflexivity].
    - rewrite in_nodup, in_flat_map. split.
      + intros [k [Hk Hj]]. apply IHa in Hk; [|exact Hi]. exists k. split; [exact Hk|]. apply IHb; [apply (M_bound a i k Hi Hk)|exact Hj].
      + intros [k [Hk Hj]]. exists k. split; [apply IHa; assumption|]. apply IHb; [apply (M_bound a i k Hi Hk)|exact Hj].
    - rewrite in_nodup, in_app_iff, IHa, IHb by exact Hi. reflexivity.
    - fold L. rewrite (closure_spec (ends s a) (M a) IHa (M_bound a)).
      + split; [intros [x [[<-|[]] H]]; exact H|intros H; exists i; split; [left; reflexivity|exact H]].
      + constructor; [intros []|constructor].
      + intros x [<-|[]]. exact Hi.
    - fold L. rewrite (closure_spec (ends s a) (M a) IHa (M_bound a)).
      + split.
        * intros [k [Hk H]]. rewrite in_nodup in Hk. exists k. split; [apply IHa; assumption|exact H].
        * intros [k [Hk H]]. exists k. split; [rewrite in_nodup; apply IHa; assumption|exact H].
      + apply nodup_NoDup.
      + intros x Hx. rewrite in_nodup in Hx. apply IHa in Hx; [|exact Hi]. apply (M_bound a i x Hi Hx).
    - rewrite in_nodup. cbn [In]. rewrite IHa by exact Hi. split; intros [H|H]; auto.
    - assert (Hbase : forall y, In y (iter_ends (ends s a) lo [i]) <-> pow (M a) lo i y).
      { intros y. rewrite (iter_ends_spec (ends s a) (M a) IHa (M_bound a)).
        - split; [intros [x [[<-|[]] H]]; exact H|intros H; exists i; split; [left; reflexivity|exact H]].
        - intros x [<-|[]]. exact Hi. }
      assert (Hbase_b : forall x, In x (iter_ends (ends s a) lo [i]) -> x <= L).
      { intros x Hx. apply Hbase in Hx. apply (pow_bound (M a) (M_bound a) lo i x Hx Hi). }
      destruct hi as [h|].
      + change ((fix more (k : nat) (cur acc : list nat) {struct k} : list nat :=
                   match k with
                   | 0 => acc
                   | S k' => more k' (nodup_nat (flat_map (ends s a) cur)) (nodup_nat (acc ++ nodup_nat (flat_map (ends s a) cur)))
                   end) (h - lo) (iter_ends (ends s a) lo [i]) (iter_ends (ends s a) lo [i]))
          with (more (ends s a) (h - lo) (iter_ends (ends s a) lo [i]) (iter_ends (ends s a) lo [i])).
        rewrite (more_spec (ends s a) (M a) IHa (M_bound a)) by exact Hbase_b. split.
        * intros [H|[m [Hm [x [Hx Hp]]]]].
          -- exists lo. split; [apply le_n|]. split; [lia|]. apply Hbase. exact H.
          -- exists (lo + m). split; [lia|]. split; [lia|]. apply pow_add. exists x. split; [apply Hbase; exact Hx|exact Hp].
        * intros [n [Hlo [Hhi Hp]]]. replace n with (lo + (n - lo)) in Hp by lia. apply pow_add in Hp.
          destruct Hp as [k [H1 H2]]. destruct (n - lo) as [|m] eqn:Em.
          -- cbn [pow] in H2. subst k. left. apply Hbase. exact H1.
          -- right. exists (S m). split; [lia|]. exists k. split; [apply Hbase; exact H1|exact H2].
      + fold L. rewrite (closure_spec (ends s a) (M a) IHa (M_bound a)).
        * split.
          -- intros [x [Hx Hst]]. apply Hbase in Hx. apply star_pow in Hst. destruct Hst as [m Hm].
             exists (lo + m). split; [lia|]. split; [exact I|]. apply pow_add. exists x. split; assumption.
          -- intros [n [Hlo [_ Hp]]]. replace n with (lo + (n - lo)) in Hp by lia. apply pow_add in Hp.
             destruct Hp as [k [H1 H2]]. exists k. split; [apply Hbase; exact H1|]. apply star_pow. exists (n - lo). exact H2.
        * apply iter_ends_NoDup. constructor; [intros []|constructor].
        * exact Hbase_b.
    - destruct (Nat.eqb_spec i 0) as [->|Hne]; cbn [In].
      + split; [intros [<-|[]]; split; reflexivity|intros [_ ->]; left; reflexivity].
      + split; [intros []|intros [H _]; contradiction].
    - destruct (Nat.eqb_spec i (length s)) as [->|Hne]; cbn [In].
      + split; [intros [<-|[]]; split; reflexivity|intros [_ ->]; left; reflexivity].
      + split; [intros []|intros [H _]; contradiction].
  Qed.
End Sem.

(* match: the whole subject; search: some substring *)
Theorem full_spec s r : full s r = true <-> M s r 0 (length s).
Proof.
  unfold full. rewrite existsb_exists. split.
  - intros [j [Hj E]]. apply Nat.eqb_eq in E. subst j. apply (ends_spec s r 0 (length s)); [lia|exact Hj].
  - intros H. exists (length s). split; [apply (ends_spec s r 0 (length s)); [lia|exact H]|apply Nat.eqb_refl].
Qed.

Theorem search_spec s r : search s r = true <-> exists i j, i <= length s /\ M s r i j.
Proof.
  unfold search. rewrite existsb_exists. split.
  - intros [i [Hi H]]. apply in_seq in Hi. destruct (ends s r i) as [|j l] eqn:E; [discriminate|].
    exists i, j. split; [lia|]. apply (ends_spec s r i j); [lia|]. rewrite E. left. reflexivity.
  - intros [i [j [Hi H]]]. exists i. split; [apply in_seq; lia|].
    apply (ends_spec s r i j Hi) in H. destruct (ends s r i); [destruct H|reflexivity].
Qed.

(* the specification functions of C10, stated on the relation *)
Theorem rx_spec_full_sem p s :
  rx_spec_full p s = true <-> exists r, re_parse p = PValid r /\ M s r 0 (length s).
Proof.
  unfold rx_spec_full. destruct (re_parse p) as [r| |].
  - rewrite full_spec. split; [intros H; exists r; split; [reflexivity|exact H]|intros [r' [E H]]; inversion E; subst; exact H].
  - split; [discriminate|intros [r [E _]]; discriminate].
  - split; [discriminate|intros [r [E _]]; discriminate].
Qed.

Theorem rx_spec_sub_sem p s :
  rx_spec_sub p s = true <-> exists r, re_parse p = PValid r /\ exists i j, i <= length s /\ M s r i j.
Proof.
  unfold rx_spec_sub. destruct (re_parse p) as [r| |].
  - rewrite search_spec. split; [intros H; exists r; split; [reflexivity|exact H]|intros [r' [E H]]; inversion E; subst; exact H].
  - split; [discriminate|intros [r [E _]]; discriminate].
  - split; [discriminate|intros [r [E _]]; discriminate].
Qed.
