(* FragWs.v — optional blank space in the filter-free sublanguage: blank runs (any mix of space, tab, LF,
   CR, of any length) at every place where RFC 9535 allows S -- between segments, after '[', before
   ']', around ',', around the colons of a slice -- do not change the AST.  PEG part. *)
From Coq Require Import List Arith NArith ZArith Bool Lia.
From JP Require Import Base Ast Peg PegFacts NormPath NormPathFacts Dec2Bin Known NpParse FragParse.
From JP.gen Require Import Grammar.
Import ListNotations.
Local Open Scope nat_scope.

Definition blank_b (c : N) : bool := N.eqb c 32 || N.eqb c 9 || N.eqb c 10 || N.eqb c 13.
Definition blank_run (b : str) : Prop := forallb blank_b b = true.

Lemma blank_cases c : blank_b c = true -> c = 32%N \/ c = 9%N \/ c = 10%N \/ c = 13%N.
Proof.
  unfold blank_b. intros H.
  repeat (apply orb_true_iff in H; destruct H as [H|H]); apply N.eqb_eq in H; auto.
Qed.

(* WHITESPACE* (atomic, as the implicit skip runs it) consumes a whole blank run *)
Lemma rep_ws_len : forall n b rest pos,
  length b <= n -> blank_run b -> not_ws rest ->
  RunsG (14 + length b) (ERep (ECall R_WHITESPACE)) AAtomic (b ++ rest) pos (Ok rest (pos + length b) [])
  /\ RunsG (14 + length b) (ERepTail (ECall R_WHITESPACE)) AAtomic (b ++ rest) pos (Ok rest (pos + length b) []).
Proof.
  induction n as [|n IH]; intros b rest pos Hn Hb Hr.
  - destruct b; [|cbn in Hn; lia]. cbn [app length]. split.
    + eapply runs_conv; [eapply runs_rep_none; apply ws_fail; exact Hr|lia|f_equal; lia].
    + eapply runs_conv; [eapply runs_reptail_stop; [apply runs_skip_atomic|apply ws_fail; exact Hr]|lia|f_equal; lia].
  - destruct b as [|c b].
    + cbn [app length]. split.
      * eapply runs_conv; [eapply runs_rep_none; apply ws_fail; exact Hr|lia|f_equal; lia].
      * eapply runs_conv; [eapply runs_reptail_stop; [apply runs_skip_atomic|apply ws_fail; exact Hr]|lia|f_equal; lia].
    + unfold blank_run in Hb. cbn [forallb] in Hb. apply andb_true_iff in Hb. destruct Hb as [Hc Hb].
      cbn [length] in Hn.
      (* one WHITESPACE step: one character, or CR LF together *)
      assert (Hstep : exists b' k, (k = 1 \/ k = 2) /\ length b' + k = S (length b) /\ blank_run b' /\
                 RunsG 8 (ECall R_WHITESPACE) AAtomic ((c :: b) ++ rest) pos (Ok (b' ++ rest) (pos + k) [])).
      { destruct (blank_cases c Hc) as [-> |[-> |[-> | ->]]].
        - exists b, 1. split; [left; reflexivity|]. split; [lia|]. split; [exact Hb|]. cbn [app]. peg_upto.
        - exists b, 1. split; [left; reflexivity|]. split; [lia|]. split; [exact Hb|]. cbn [app]. peg_upto.
        - exists b, 1. split; [left; reflexivity|]. split; [lia|]. split; [exact Hb|]. cbn [app]. peg_upto.
        - destruct b as [|c2 b2].
          + exists [], 1. split; [left; reflexivity|]. split; [cbn [length]; lia|]. split; [reflexivity|]. cbn [app].
            destruct rest as [|r0 rest0]; [peg_upto|]. cbn [not_ws] in Hr. destruct Hr as [H1 [H2 [H3 H4]]]. peg_upto.
          + cbn [forallb] in Hb. apply andb_true_iff in Hb. destruct Hb as [Hc2 Hb2].
            destruct (N.eq_dec c2 10) as [->|Hne].
            * exists b2, 2. split; [right; reflexivity|]. split; [cbn [length]; lia|]. split; [exact Hb2|]. cbn [app]. peg_upto.
            * exists (c2 :: b2), 1. split; [left; reflexivity|]. split; [lia|]. split; [unfold blank_run; cbn [forallb]; rewrite Hc2; exact Hb2|].
              cbn [app]. destruct (blank_cases c2 Hc2) as [-> |[-> |[-> | ->]]]; try contradiction; peg_upto. }
      destruct Hstep as [b' [k [Hk [Hlen [Hb' Hrun]]]]].
      assert (Hb'n : length b' <= n) by lia.
      destruct (IH b' rest (pos + k) Hb'n Hb' Hr) as [_ IHt].
      split.
      * eapply runs_conv.
        -- change (@nil (pair rname)) with (@nil (pair rname) ++ []). eapply runs_rep_some; [exact Hrun|exact IHt].
        -- cbn [length]. lia.
        -- cbn [length app]. f_equal. lia.
      * eapply runs_conv.
        -- change (@nil (pair rname)) with (@nil (pair rname) ++ []).
           eapply runs_reptail_more; [apply runs_skip_atomic|exact Hrun|lia|exact IHt].
        -- cbn [length]. lia.
        -- cbn [length app]. f_equal. lia.
Qed.

Lemma skip_blanks b rest pos :
  blank_run b -> not_ws rest ->
  RunsG (16 + length b) ESkip ANonAtomic (b ++ rest) pos (Ok rest (pos + length b) []).
Proof.
  intros Hb Hr. destruct (rep_ws_len (length b) b rest pos (le_n _) Hb Hr) as [H _].
  intros f Hf. destruct f as [|f]; [lia|]. cbn [run]. change (g_ws grammar) with R_WHITESPACE.
  rewrite H by lia. reflexivity.
Qed.

(* ---------- selectors with layout ---------- *)
Inductive lsel :=
| LPlain (s : fsel)                                   (* quoted name, wildcard, index *)
| LSlice (a b c : option Z) (w1 w2 w3 w4 : str).      (* a w1 ':' w2 b w3 [':' w4 c] *)

Definition lsel_text (s : lsel) : str :=
  match s with
  | LPlain s => sel_text s
  | LSlice a b c w1 w2 w3 w4 =>
      oint a ++ w1 ++ 58%N :: w2 ++ oint b ++ w3 ++ match c with Some z => 58%N :: w4 ++ int_text z | None => [] end
  end.

(* blank runs; a run that has nothing before it to follow is empty (it belongs to the slot before) *)
Definition lsel_ok (s : lsel) : Prop :=
  match s with
  | LPlain (FSlice _ _ _) => False
  | LPlain s => sel_ok s
  | LSlice a b c w1 w2 w3 w4 =>
      blank_run w1 /\ blank_run w2 /\ blank_run w3 /\ blank_run w4
      /\ (a = None -> w1 = []) /\ (b = None -> w3 = []) /\ (c = None -> w4 = [])
  end.
(* the trailing blank run of a slice without step is inside the slice (w3, or w2 when there is no end) *)
Definition tail_ok (s : lsel) (tb : str) : Prop :=
  match s with LSlice _ _ None _ _ _ _ => tb = [] | _ => True end.

Definition lslice_kids (pos : nat) (a b c : option Z) (w1 w2 w3 w4 : str) : list (pair rname) :=
  let p1 := pos + length (oint a) + length w1 + 1 + length w2 in
  let p2 := p1 + length (oint b) + length w3 in
  match a with Some z => [Pair R_start pos (pos + length (int_text z)) [int_pair pos z]] | None => [] end
  ++ match b with Some z => [Pair R_end p1 (p1 + length (int_text z)) [int_pair p1 z]] | None => [] end
  ++ match c with
     | Some z => [Pair R_step p2 (p2 + 1 + length w4 + length (int_text z)) [int_pair (p2 + 1 + length w4) z]]
     | None => []
     end.

Definition lsel_pair (pos : nat) (s : lsel) : pair rname :=
  match s with
  | LPlain s => sel_pair pos s
  | LSlice a b c w1 w2 w3 w4 =>
      let en := pos + length (lsel_text s) in
      Pair R_selector pos en [Pair R_slice_selector pos en (lslice_kids pos a b c w1 w2 w3 w4)]
  end.

Lemma ndh_blank w c r : blank_run w -> is_digit c = false -> non_digit_head (w ++ c :: r).
Proof.
  intros Hw Hc. destruct w as [|x w]; [exact Hc|]. cbn [app non_digit_head].
  unfold blank_run in Hw. cbn [forallb] in Hw. apply andb_true_iff in Hw. destruct Hw as [Hx _].
  destruct (blank_cases x Hx) as [-> |[-> |[-> | ->]]]; reflexivity.
Qed.

Lemma blank_run_nil : blank_run [].
Proof. reflexivity. Qed.

Ltac solve_ndh :=
  solve [ assumption | reflexivity | exact I
        | apply ndh_blank; [assumption|first [reflexivity|assumption]] ].

Ltac peg_hook ::=
  lazymatch goal with
  | |- Runs _ _ (ECall R_WHITESPACE) AAtomic _ _ _ => apply ws_fail; solve_not_ws
  | |- Runs _ _ (ECall R_S) _ _ _ _ => apply S_none; solve_not_ws
  | |- Runs _ _ ESkip ANonAtomic (?w ++ _) _ _ =>
      apply skip_blanks; [assumption|solve_not_ws]
  | |- Runs _ _ (ERep (ECall R_DIGIT)) AAtomic (_ ++ _) _ _ => apply digits_body'; assumption
  | |- Runs _ _ (ECall R_int) _ (int_text _ ++ _) _ _ => apply int_runs; solve_ndh
  | |- Runs _ _ (EStr (_ :: _)) _ (int_text _ ++ _) _ _ =>
      eapply runs_str_fail; apply match_str_int_none; [discriminate|reflexivity]
  | |- Runs _ _ (ECall R_selector) _ (sel_text _ ++ _ :: _) _ _ =>
      apply selector_runs; solve [assumption | left; reflexivity | right; reflexivity]
  end.

Lemma lslice_runs a b c w1 w2 w3 w4 tb c0 rest pos :
  lsel_ok (LSlice a b c w1 w2 w3 w4) -> tail_ok (LSlice a b c w1 w2 w3 w4) tb -> blank_run tb -> sel_stop c0 ->
  RunsG (120 + length (lsel_text (LSlice a b c w1 w2 w3 w4)))
        (ECall R_selector) ANonAtomic (lsel_text (LSlice a b c w1 w2 w3 w4) ++ tb ++ c0 :: rest) pos
        (Ok (tb ++ c0 :: rest) (pos + length (lsel_text (LSlice a b c w1 w2 w3 w4)))
            [lsel_pair pos (LSlice a b c w1 w2 w3 w4)]).
Proof.
  intros [H1 [H2 [H3 [H4 [Ha [Hb Hc]]]]]] Ht Htb Hc0.
  assert (Hnd : non_digit_head (c0 :: rest)) by (destruct Hc0 as [-> | ->]; reflexivity).
  assert (Hnw : not_ws (c0 :: rest)) by (destruct Hc0 as [-> | ->]; cbn [not_ws]; repeat split; lia).
  assert (Hc58 : c0 <> 58%N) by (destruct Hc0 as [-> | ->]; discriminate).
  assert (Hc45 : c0 <> 45%N) by (destruct Hc0 as [-> | ->]; discriminate).
  assert (Hcd : (c0 < 48 \/ 57 < c0)%N) by (destruct Hc0 as [-> | ->]; lia).
  assert (Hdig : is_digit c0 = false) by (destruct Hc0 as [-> | ->]; reflexivity).
  unfold lsel_pair, lslice_kids, int_pair. cbn [lsel_text tail_ok] in *.
  destruct a as [za|]; [|rewrite (Ha eq_refl) in *; clear Ha];
  (destruct b as [zb|]; [|rewrite (Hb eq_refl) in *; clear Hb]);
  (destruct c as [zc|]; [|rewrite (Hc eq_refl) in *; rewrite Ht in *; clear Hc]);
  cbn [oint app]; repeat (progress (rewrite <- ?app_assoc; cbn [app])).
  all: pegd_upto.
Qed.

Ltac peg_hook ::=
  lazymatch goal with
  | |- Runs _ _ (ECall R_WHITESPACE) AAtomic _ _ _ => apply ws_fail; solve_not_ws
  | |- Runs _ _ (ECall R_S) _ _ _ _ => apply S_none; solve_not_ws
  | |- Runs _ _ ESkip ANonAtomic (?w ++ _) _ _ =>
      apply skip_blanks; [assumption|solve_not_ws]
  | |- Runs _ _ (ERep (ECall R_single_quoted)) AAtomic (_ ++ 39%N :: _) _ _ => apply single_quoted_body; assumption
  | |- Runs _ _ (ECall R_string) _ (39%N :: _ ++ 39%N :: _) _ _ => apply string_single; assumption
  | |- Runs _ _ (ERep (ECall R_DIGIT)) AAtomic (_ ++ _) _ _ => apply digits_body'; assumption
  | |- Runs _ _ (ECall R_int) _ (int_text _ ++ _) _ _ => apply int_runs; solve_ndh
  | |- Runs _ _ (EStr (_ :: _)) _ (int_text _ ++ _) _ _ =>
      eapply runs_str_fail; apply match_str_int_none; [discriminate|reflexivity]
  end.

Lemma plain_sel_runs s tb c0 rest pos :
  lsel_ok (LPlain s) -> blank_run tb -> sel_stop c0 ->
  RunsG (120 + length (sel_text s) + length tb) (ECall R_selector) ANonAtomic (sel_text s ++ tb ++ c0 :: rest) pos
        (Ok (tb ++ c0 :: rest) (pos + length (sel_text s)) [sel_pair pos s]).
Proof.
  intros Hs Htb Hc0.
  assert (Hnd : non_digit_head (c0 :: rest)) by (destruct Hc0 as [-> | ->]; reflexivity).
  assert (Hnw : not_ws (c0 :: rest)) by (destruct Hc0 as [-> | ->]; cbn [not_ws]; repeat split; lia).
  assert (Hc58 : c0 <> 58%N) by (destruct Hc0 as [-> | ->]; discriminate).
  assert (Hdig : is_digit c0 = false) by (destruct Hc0 as [-> | ->]; reflexivity).
  destruct s as [k| |i|a b c]; cbn [lsel_ok sel_ok] in Hs; [| | |destruct Hs]; unfold sel_pair; cbn [sel_text].
  - cbn [app]. rewrite <- app_assoc. cbn [app]. pegd_upto.
  - cbn [app]. pegd_upto.
  - pegd_upto.
Qed.

Lemma lsel_runs s tb c0 rest pos :
  lsel_ok s -> tail_ok s tb -> blank_run tb -> sel_stop c0 ->
  RunsG (120 + length (lsel_text s) + length tb) (ECall R_selector) ANonAtomic (lsel_text s ++ tb ++ c0 :: rest) pos
        (Ok (tb ++ c0 :: rest) (pos + length (lsel_text s)) [lsel_pair pos s]).
Proof.
  intros Hs Ht Htb Hc0. destruct s as [s|a b c w1 w2 w3 w4].
  - apply plain_sel_runs; assumption.
  - eapply runs_weaken; [apply lslice_runs; assumption|lia].
Qed.

(* ---------- bracketed selections with layout ---------- *)
(* an item: blanks before the comma, blanks after it, the selector *)
Definition litem := (str * str * lsel)%type.
Definition item_text (it : litem) : str := let '(bp, bq, s) := it in bp ++ 44%N :: bq ++ lsel_text s.
Definition items_text (l : list litem) : str := flat_map item_text l.

(* [ok_after s l blast]: the runs are blank; the run that follows a step-less slice is empty *)
Fixpoint items_ok (prev : lsel) (l : list litem) (blast : str) : Prop :=
  match l with
  | [] => blank_run blast /\ tail_ok prev blast
  | (bp, bq, s) :: l' => blank_run bp /\ tail_ok prev bp /\ blank_run bq /\ lsel_ok s /\ items_ok s l' blast
  end.

Fixpoint items_pairs (pos : nat) (l : list litem) : list (pair rname) :=
  match l with
  | [] => []
  | (bp, bq, s) :: l' =>
      lsel_pair (pos + length bp + 1 + length bq) s
      :: items_pairs (pos + length bp + 1 + length bq + length (lsel_text s)) l'
  end.

Lemma items_follow prev l blast rest :
  items_ok prev l blast ->
  exists tb c0 r, items_text l ++ blast ++ 93%N :: rest = tb ++ c0 :: r
                  /\ blank_run tb /\ tail_ok prev tb /\ sel_stop c0.
Proof.
  destruct l as [|[[bp bq] s] l]; cbn [items_ok items_text flat_map item_text].
  - intros [Hb Ht]. exists blast, 93%N, rest. repeat split; try assumption. right. reflexivity.
  - intros [Hbp [Ht _]]. exists bp, 44%N, (bq ++ lsel_text s ++ flat_map item_text l ++ blast ++ 93%N :: rest).
    repeat split; try assumption; [|left; reflexivity]. repeat (rewrite <- app_assoc; cbn [app]). reflexivity.
Qed.

Lemma lsel_text_not_ws s tail : lsel_ok s -> not_ws (lsel_text s ++ tail).
Proof.
  destruct s as [s|a b c w1 w2 w3 w4]; cbn [lsel_ok lsel_text].
  - intros H. apply sel_text_head_not_ws. destruct s; try exact H; exact I.
  - intros [_ [_ [_ [_ [Ha _]]]]]. destruct a as [za|]; cbn [oint].
    + rewrite <- app_assoc. apply not_ws_int.
    + rewrite (Ha eq_refl). cbn [app not_ws]. repeat split; lia.
Qed.

Lemma comma_iter_stop' rest pos : RunsG 40 comma_iter ANonAtomic (93%N :: rest) pos Fail.
Proof. apply comma_iter_stop. Qed.

Lemma comma_iter_item bq s tb c0 r pos :
  blank_run bq -> lsel_ok s -> tail_ok s tb -> blank_run tb -> sel_stop c0 ->
  RunsG (130 + length bq + length (lsel_text s) + length tb) comma_iter ANonAtomic
        (44%N :: bq ++ lsel_text s ++ tb ++ c0 :: r) pos
        (Ok (tb ++ c0 :: r) (pos + 1 + length bq + length (lsel_text s)) [lsel_pair (pos + 1 + length bq) s]).
Proof.
  intros Hbq Hs Ht Htb Hc0. unfold comma_iter.
  assert (Hnw : not_ws (lsel_text s ++ tb ++ c0 :: r)) by (apply lsel_text_not_ws; exact Hs).
  eapply runs_conv.
  - eapply runs_seq.
    { eapply runs_seq.
      { eapply runs_seq; [pegd|red_res; pegd|red_res; pegd]. }
      { red_res. apply skip_blanks; assumption. }
      { red_res. apply S_none. exact Hnw. } }
    { red_res. apply skip_none. exact Hnw. }
    { red_res. apply lsel_runs; assumption. }
  - norm_len. bound.
  - red_res. norm_len. repeat (f_equal; try lia).
Qed.

Lemma items_len_ge l : length l <= length (items_text l).
Proof.
  induction l as [|[[bp bq] s] l IH]; [cbn; lia|]. unfold items_text in *. cbn [flat_map item_text length].
  repeat rewrite app_length. cbn [length]. lia.
Qed.

Lemma reptail_items l : forall prev blast rest pos,
  items_ok prev l blast ->
  RunsG (140 + length (items_text l) + length blast) (ERepTail comma_iter) ANonAtomic
        (items_text l ++ blast ++ 93%N :: rest) pos
        (Ok (blast ++ 93%N :: rest) (pos + length (items_text l)) (items_pairs pos l)).
Proof.
  induction l as [|[[bp bq] s] l IH]; intros prev blast rest pos Hok.
  - cbn [items_ok] in Hok. destruct Hok as [Hb _]. cbn [items_text flat_map app length items_pairs].
    eapply runs_conv.
    + eapply runs_reptail_stop; [apply skip_blanks; [exact Hb|cbn [not_ws]; repeat split; lia]|apply comma_iter_stop].
    + lia.
    + f_equal. lia.
  - cbn [items_ok] in Hok. destruct Hok as [Hbp [_ [Hbq [Hs Hok']]]].
    destruct (items_follow s l blast rest Hok') as [tb [c0 [r [E [Htb [Ht Hc0]]]]]].
    unfold items_text. cbn [flat_map item_text items_pairs]. fold (items_text l).
    repeat (rewrite <- app_assoc; cbn [app]).
    eapply runs_conv.
    + eapply runs_reptail_more.
      * apply skip_blanks; [exact Hbp|cbn [not_ws]; repeat split; lia].
      * rewrite E. apply comma_iter_item; assumption.
      * lia.
      * rewrite <- E. apply (IH s blast rest _ Hok').
    + assert (Hl : length tb <= length (items_text l) + length blast + 1 + length rest).
      { apply (f_equal (@length N)) in E. repeat rewrite app_length in E. cbn [length] in E. lia. }
      (* the depth of one round is bounded by the text it reads; the rest by induction *)
      repeat rewrite app_length. cbn [length]. repeat rewrite app_length.
      assert (Htb' : length tb <= length (items_text l) + length blast).
      { destruct l as [|[[bp2 bq2] s2] l2].
        - cbn [items_text flat_map app] in E. cbn [items_ok] in Hok'.
          assert (tb = blast).
          { clear - E Htb Hc0 Hok'. destruct Hok' as [Hb _].
            revert blast E Hb. induction tb as [|x tb IHt]; intros blast E Hb.
            - destruct blast as [|y blast]; [reflexivity|]. cbn [app] in E. inversion E. subst.
              unfold blank_run in Hb. cbn [forallb] in Hb. apply andb_true_iff in Hb. destruct Hb as [Hy _].
              destruct Hc0 as [-> | ->]; discriminate.
            - destruct blast as [|y blast].
              + cbn [app] in E. inversion E. subst. unfold blank_run in Htb. cbn [forallb] in Htb.
                apply andb_true_iff in Htb. destruct Htb as [Hx _]. discriminate.
              + cbn [app] in E. inversion E. subst. f_equal. apply IHt; [|assumption|].
                * unfold blank_run in *. cbn [forallb] in Htb. apply andb_true_iff in Htb. apply Htb.
                * unfold blank_run in *. cbn [forallb] in Hb. apply andb_true_iff in Hb. apply Hb. }
          subst tb. cbn [length]. lia.
        - cbn [items_text flat_map item_text] in E. cbn [items_ok] in Hok'. destruct Hok' as [Hbp2 _].
          assert (tb = bp2).
          { clear - E Htb Hc0 Hbp2. repeat (rewrite <- app_assoc in E; cbn [app] in E).
            revert bp2 E Hbp2. induction tb as [|x tb IHt]; intros bp2 E Hb.
            - destruct bp2 as [|y bp2]; [reflexivity|]. cbn [app] in E. inversion E. subst.
              unfold blank_run in Hb. cbn [forallb] in Hb. apply andb_true_iff in Hb. destruct Hb as [Hy _].
              destruct Hc0 as [-> | ->]; discriminate.
            - destruct bp2 as [|y bp2].
              + cbn [app] in E. inversion E. subst. unfold blank_run in Htb. cbn [forallb] in Htb.
                apply andb_true_iff in Htb. destruct Htb as [Hx _]. discriminate.
              + cbn [app] in E. inversion E. subst. f_equal. apply IHt; [|assumption|].
                * unfold blank_run in *. cbn [forallb] in Htb. apply andb_true_iff in Htb. apply Htb.
                * unfold blank_run in *. cbn [forallb] in Hb. apply andb_true_iff in Hb. apply Hb. }
          subst tb. unfold items_text. cbn [flat_map item_text]. repeat rewrite app_length. cbn [length]. lia. }
      lia.
    + repeat rewrite app_length. cbn [length app]. repeat rewrite app_length.
      repeat (f_equal; try lia).
Qed.

(* the text after a selector: the blank run that follows it, then ',' or ']' *)
Definition first_run (l : list litem) (blast : str) : str :=
  match l with [] => blast | (bp, _, _) :: _ => bp end.
Definition after_run (l : list litem) (blast rest : str) : str :=
  match l with
  | [] => 93%N :: rest
  | (_, bq, s) :: l' => 44%N :: bq ++ lsel_text s ++ items_text l' ++ blast ++ 93%N :: rest
  end.

Lemma items_split l blast rest :
  items_text l ++ blast ++ 93%N :: rest = first_run l blast ++ after_run l blast rest.
Proof.
  destruct l as [|[[bp bq] s] l]; [reflexivity|]. unfold items_text. cbn [flat_map item_text first_run after_run].
  fold (items_text l). repeat (rewrite <- app_assoc; cbn [app]). reflexivity.
Qed.

Lemma first_run_ok prev l blast : items_ok prev l blast -> blank_run (first_run l blast) /\ tail_ok prev (first_run l blast).
Proof. destruct l as [|[[bp bq] s] l]; cbn [items_ok first_run]; intros H; split; apply H. Qed.

Lemma first_run_len l blast : length (first_run l blast) <= length (items_text l) + length blast.
Proof.
  destruct l as [|[[bp bq] s] l]; cbn [first_run]; [cbn; lia|]. unfold items_text. cbn [flat_map item_text].
  repeat rewrite app_length. lia.
Qed.

Lemma after_run_stop l blast rest : exists c0 r, after_run l blast rest = c0 :: r /\ sel_stop c0.
Proof.
  destruct l as [|[[bp bq] s] l]; cbn [after_run]; eexists _, _; (split; [reflexivity|]); [right|left]; reflexivity.
Qed.

Definition lbracket_text (b0 : str) (s1 : lsel) (l : list litem) (blast : str) : str :=
  91%N :: b0 ++ lsel_text s1 ++ items_text l ++ blast ++ [93%N].
Definition lbracket_ok (b0 : str) (s1 : lsel) (l : list litem) (blast : str) : Prop :=
  blank_run b0 /\ lsel_ok s1 /\ items_ok s1 l blast.
Definition lbracket_pair (pos : nat) (b0 : str) (s1 : lsel) (l : list litem) (blast : str) : pair rname :=
  Pair R_bracketed_selection pos (pos + length (lbracket_text b0 s1 l blast))
       (lsel_pair (pos + 1 + length b0) s1 :: items_pairs (pos + 1 + length b0 + length (lsel_text s1)) l).

(* after the first selector: skip, the comma items, skip, S, skip, ']' *)
Lemma lbracket_runs b0 s1 l blast rest pos :
  lbracket_ok b0 s1 l blast ->
  RunsG (200 + 2 * length (lbracket_text b0 s1 l blast)) (ECall R_bracketed_selection) ANonAtomic
        (lbracket_text b0 s1 l blast ++ rest) pos
        (Ok rest (pos + length (lbracket_text b0 s1 l blast)) [lbracket_pair pos b0 s1 l blast]).
Proof.
  intros [Hb0 [Hs1 Hok]]. unfold lbracket_pair, lbracket_text. cbn [app]. repeat (rewrite <- app_assoc; cbn [app]).
  destruct (first_run_ok s1 l blast Hok) as [Hfr Hft].
  pose proof (first_run_len l blast) as Hfl.
  destruct (after_run_stop l blast rest) as [c0 [r [Ea Hc0]]].
  rewrite (items_split l blast rest).
  assert (Hnw1 : not_ws (lsel_text s1 ++ first_run l blast ++ after_run l blast rest)) by (apply lsel_text_not_ws; exact Hs1).
  assert (Hnwa : not_ws (after_run l blast rest)).
  { rewrite Ea. destruct Hc0 as [-> | ->]; cbn [not_ws]; repeat split; lia. }
  (* the repetition and what remains after it *)
  assert (Hrep : exists n mid pmid toks,
            n <= 150 + length (items_text l) + length blast + length (items_text l)
            /\ RunsG n (ERep comma_iter) ANonAtomic (after_run l blast rest)
                     (pos + 1 + length b0 + length (lsel_text s1) + length (first_run l blast)) (Ok mid pmid toks)
            /\ toks = items_pairs (pos + 1 + length b0 + length (lsel_text s1)) l
            /\ exists bl, blank_run bl /\ length bl <= length blast /\ mid = bl ++ 93%N :: rest
                 /\ pmid + length bl = pos + 1 + length b0 + length (lsel_text s1) + length (items_text l) + length blast).
  { destruct l as [|[[bp bq] s] l].
    - cbn [after_run first_run items_text flat_map length items_pairs] in *.
      eexists _, _, _, _. split; [|split; [eapply runs_rep_none; apply comma_iter_stop|split; [reflexivity|]]].
      + lia.
      + exists []. split; [reflexivity|]. split; [cbn [length]; lia|]. split; [reflexivity|]. cbn [length]. lia.
    - cbn [after_run first_run items_pairs] in *. cbn [items_ok] in Hok. destruct Hok as [Hbp [_ [Hbq [Hs Hok']]]].
      destruct (first_run_ok s l blast Hok') as [Hfr2 Hft2].
      destruct (after_run_stop l blast rest) as [c2 [r2 [Ea2 Hc2]]].
      pose proof (first_run_len l blast) as Hfl2.
      eexists _, _, _, _. split; [|split; [|split; [reflexivity|]]].
      2:{ eapply runs_conv; [|apply le_n|].
          - eapply runs_rep_some.
            + rewrite (items_split l blast rest), Ea2. apply comma_iter_item; assumption.
            + rewrite <- Ea2, <- (items_split l blast rest). apply (reptail_items l s blast rest _ Hok').
          - cbn [app]. reflexivity. }
      + unfold items_text. cbn [flat_map item_text]. fold (items_text l). repeat rewrite app_length. cbn [length].
        repeat rewrite app_length. lia.
      + exists blast. split; [|split; [apply le_n|split; [reflexivity|]]].
        * clear - Hok'. revert s Hok'. induction l as [|[[bp2 bq2] s2] l IH]; intros s Hok'; cbn [items_ok] in Hok'; [apply Hok'|].
          destruct Hok' as [_ [_ [_ [_ H]]]]. apply (IH s2 H).
        * unfold items_text. cbn [flat_map item_text]. fold (items_text l). repeat rewrite app_length. cbn [length].
          repeat rewrite app_length. f_equal. cbn [app]. lia. }
  destruct Hrep as [n [mid [pmid [toks [Hn [Hrun [Htoks [bl [Hbl [Hbll [Emid Hpm]]]]]]]]]]].
  eapply runs_conv.
  - eapply runs_call; [reflexivity|]. cbn [call_atomicity].
    eapply runs_seq.
    { eapply runs_seq.
      { eapply runs_seq.
        { eapply runs_seq.
          { eapply runs_seq.
            { eapply runs_str_ok. reflexivity. }
            { red_res. apply skip_blanks; [exact Hb0|exact Hnw1]. }
            { red_res. apply S_none. exact Hnw1. } }
          { red_res. apply skip_none. exact Hnw1. }
          { red_res. rewrite Ea. apply lsel_runs; try assumption. } }
        { red_res. rewrite <- Ea. apply skip_blanks; [exact Hfr|exact Hnwa]. }
        { red_res. norm_len. replace (pos + 1 + length b0 + length (lsel_text s1) + length (first_run l blast))
            with (pos + 1 + length b0 + length (lsel_text s1) + length (first_run l blast)) by reflexivity.
          eapply runs_conv; [exact Hrun|apply le_n|reflexivity]. } }
      { red_res. rewrite Emid. apply skip_blanks; [exact Hbl|cbn [not_ws]; repeat split; lia]. }
      { red_res. apply S_none. cbn [not_ws]. repeat split; lia. } }
    { red_res. apply skip_none. cbn [not_ws]. repeat split; lia. }
    { red_res. eapply runs_str_ok. reflexivity. }
  - norm_len. bound.
  - red_res. norm_len. rewrite Htoks. rewrite ?app_nil_r. repeat (f_equal; try lia).
Qed.

(* ---------- segments with layout ---------- *)
Definition name_stop' (s : str) : Prop :=
  match s with [] => True | c :: _ => c = 46%N \/ c = 91%N \/ blank_b c = true end.

Lemma name_char_stop' stop pos : name_stop' stop -> RunsG 12 (ECall R_name_char) AAtomic stop pos Fail.
Proof.
  intros H. destruct stop as [|c r]; [pegd_upto|]. cbn [name_stop'] in H.
  destruct H as [-> |[-> |H]]; [pegd_upto|pegd_upto|].
  destruct (blank_cases c H) as [-> |[-> |[-> | ->]]]; pegd_upto.
Qed.

Lemma shorthand_runs' n stop pos a :
  name_ok n -> name_stop' stop ->
  RunsG (30 + length n) (ECall R_member_name_shorthand) a (n ++ stop) pos
        (Ok stop (pos + length n) (if emits a then [Pair R_member_name_shorthand pos (pos + length n) []] else [])).
Proof.
  intros Hn Hs. destruct n as [|c r]; [destruct Hn|]. destruct Hn as [Hc Hr]. cbn [app].
  assert (Hrep : RunsG (15 + length r) (ERep (ECall R_name_char)) AAtomic (r ++ stop) (S pos)
                       (Ok stop (S pos + length r) [])).
  { eapply runs_conv.
    - eapply (runs_rep_chars _ grammar 12 (ECall R_name_char) name_char_b).
      + intros c0 r0 p0 H0. apply name_char_ok. exact H0.
      + exact Hr.
      + apply name_char_stop'. exact Hs.
    - lia.
    - reflexivity. }
  eapply runs_conv.
  - eapply runs_call; [reflexivity|]. cbn [call_atomicity].
    eapply runs_seq.
    { apply (name_first_ok c (r ++ stop) pos Hc). }
    { red_res. pegd. }
    { red_res. exact Hrep. }
  - norm_len. bound.
  - red_res. norm_len. destruct a; cbn [emits]; repeat (f_equal; try lia).
Qed.

Inductive lseg :=
| LBracket (b0 : str) (s1 : lsel) (l : list litem) (blast : str)
| LShort (n : str)
| LDotWild
| LDescBracket (b0 : str) (s1 : lsel) (l : list litem) (blast : str)
| LDescShort (n : str)
| LDescWild.

Definition lseg_text (g : lseg) : str :=
  match g with
  | LBracket b0 s1 l blast => lbracket_text b0 s1 l blast
  | LShort n => 46%N :: n
  | LDotWild => [46%N; 42%N]
  | LDescBracket b0 s1 l blast => 46%N :: 46%N :: lbracket_text b0 s1 l blast
  | LDescShort n => 46%N :: 46%N :: n
  | LDescWild => [46%N; 46%N; 42%N]
  end.

Definition lseg_pair (pos : nat) (g : lseg) : pair rname :=
  let en := pos + length (lseg_text g) in
  match g with
  | LBracket b0 s1 l blast => Pair R_segment pos en [Pair R_child_segment pos en [lbracket_pair pos b0 s1 l blast]]
  | LShort n => Pair R_segment pos en [Pair R_child_segment pos en [Pair R_member_name_shorthand (pos + 1) en []]]
  | LDotWild => Pair R_segment pos en [Pair R_child_segment pos en [Pair R_wildcard_selector (pos + 1) en []]]
  | LDescBracket b0 s1 l blast =>
      Pair R_segment pos en [Pair R_descendant_segment pos en [lbracket_pair (pos + 2) b0 s1 l blast]]
  | LDescShort n => Pair R_segment pos en [Pair R_descendant_segment pos en [Pair R_member_name_shorthand (pos + 2) en []]]
  | LDescWild => Pair R_segment pos en [Pair R_descendant_segment pos en [Pair R_wildcard_selector (pos + 2) en []]]
  end.

Definition lseg_ok (g : lseg) : Prop :=
  match g with
  | LBracket b0 s1 l blast | LDescBracket b0 s1 l blast => lbracket_ok b0 s1 l blast
  | LShort n | LDescShort n => name_ok n
  | LDotWild | LDescWild => True
  end.

Ltac peg_hook ::=
  lazymatch goal with
  | |- Runs _ _ (ECall R_WHITESPACE) AAtomic _ _ _ => apply ws_fail; solve_not_ws
  | |- Runs _ _ (ECall R_S) _ _ _ _ => apply S_none; solve_not_ws
  | |- Runs _ _ (ECall R_bracketed_selection) _ (lbracket_text _ _ _ _ ++ _) _ _ => apply lbracket_runs; assumption
  | |- Runs _ _ (ECall R_member_name_shorthand) _ (?c :: ?r ++ ?rest) _ _ =>
      change (c :: r ++ rest) with ((c :: r) ++ rest); apply shorthand_runs'; assumption
  end.

Lemma lsegment_runs g rest pos :
  lseg_ok g -> name_stop' rest ->
  RunsG (250 + 2 * length (lseg_text g)) (ECall R_segment) ANonAtomic (lseg_text g ++ rest) pos
        (Ok rest (pos + length (lseg_text g)) [lseg_pair pos g]).
Proof.
  intros Hg Hr. destruct g as [b0 s1 l blast|n| |b0 s1 l blast|n| ]; cbn [lseg_ok] in Hg; unfold lseg_pair; cbn [lseg_text].
  - pegd_upto.
  - assert (Hn := Hg). destruct n as [|c r]; [destruct Hg|]. destruct Hg as [Hc _].
    apply name_first_cases in Hc. cbn [app]. pegd_upto.
  - cbn [app]. pegd_upto.
  - cbn [app]. pegd_upto.
  - assert (Hn := Hg). destruct n as [|c r]; [destruct Hg|]. destruct Hg as [Hc _].
    apply name_first_cases in Hc. cbn [app]. pegd_upto.
  - cbn [app]. pegd_upto.
Qed.

(* ---------- the whole query with layout: a blank run before every segment ---------- *)
Definition lquery := list (str * lseg).
Definition lq_text (q : lquery) : str := flat_map (fun bg => fst bg ++ lseg_text (snd bg)) q.
Fixpoint lq_pairs (pos : nat) (q : lquery) : list (pair rname) :=
  match q with
  | [] => []
  | (bs, g) :: q' => lseg_pair (pos + length bs) g :: lq_pairs (pos + length bs + length (lseg_text g)) q'
  end.
Definition lq_ok (q : lquery) : Prop := Forall (fun bg => blank_run (fst bg) /\ lseg_ok (snd bg)) q.

Lemma lseg_text_head g rest : exists c r, lseg_text g ++ rest = c :: r /\ (c = 46%N \/ c = 91%N).
Proof.
  destruct g; cbn [lseg_text lbracket_text app]; eexists _, _; (split; [reflexivity|]); (left; reflexivity) || (right; reflexivity).
Qed.

Lemma lq_text_stop q : lq_ok q -> name_stop' (lq_text q).
Proof.
  destruct q as [|[bs g] q]; [intros _; exact I|]. intros H. pose proof (Forall_inv H) as [Hb _]. cbn [fst snd] in Hb.
  unfold lq_text. cbn [flat_map fst snd]. destruct bs as [|c bs].
  - cbn [app]. destruct (lseg_text_head g (flat_map (fun bg => fst bg ++ lseg_text (snd bg)) q)) as [c [r [E Hc]]].
    rewrite E. cbn [name_stop']. destruct Hc as [-> | ->]; auto.
  - cbn [app name_stop']. unfold blank_run in Hb. cbn [forallb] in Hb. apply andb_true_iff in Hb. right. right. apply Hb.
Qed.

Lemma lseg_len_pos g : 1 <= length (lseg_text g).
Proof. destruct g; cbn [lseg_text lbracket_text length]; lia. Qed.

Lemma lseg_iter_step g rest pos :
  lseg_ok g -> name_stop' rest ->
  RunsG (255 + 2 * length (lseg_text g)) seg_iter ANonAtomic (lseg_text g ++ rest) pos
        (Ok rest (pos + length (lseg_text g)) [lseg_pair pos g]).
Proof.
  intros Hg Hr. destruct (lseg_text_head g rest) as [c [r [E Hc]]]. unfold seg_iter.
  assert (Hw : not_ws (lseg_text g ++ rest)).
  { rewrite E. destruct Hc as [-> | ->]; cbn [not_ws]; repeat split; lia. }
  eapply runs_conv.
  - eapply runs_seq_ok.
    + apply S_none. exact Hw.
    + apply skip_none. exact Hw.
    + apply lsegment_runs; assumption.
  - lia.
  - reflexivity.
Qed.

Lemma reptail_lsegs q : forall pos,
  lq_ok q ->
  RunsG (260 + 2 * length (lq_text q)) (ERepTail seg_iter) ANonAtomic (lq_text q) pos
        (Ok [] (pos + length (lq_text q)) (lq_pairs pos q)).
Proof.
  induction q as [|[bs g] q IH]; intros pos Hq.
  - cbn [lq_text flat_map length lq_pairs]. eapply runs_conv.
    + eapply runs_reptail_stop; [apply skip_none; exact I|apply seg_iter_end].
    + lia.
    + f_equal. lia.
  - pose proof (Forall_inv Hq) as [Hb Hg]. pose proof (Forall_inv_tail Hq) as Hq'. cbn [fst snd] in Hb, Hg.
    unfold lq_text. cbn [flat_map lq_pairs fst snd]. fold (lq_text q). rewrite <- app_assoc.
    pose proof (lq_text_stop q Hq') as Hstop.
    destruct (lseg_text_head g (lq_text q)) as [c [r [E Hc]]].
    pose proof (lseg_len_pos g) as Hlen.
    eapply runs_conv.
    + eapply runs_reptail_more.
      * apply skip_blanks; [exact Hb|].
        rewrite E. destruct Hc as [-> | ->]; cbn [not_ws]; repeat split; lia.
      * apply lseg_iter_step; assumption.
      * lia.
      * apply IH. exact Hq'.
    + repeat rewrite app_length. lia.
    + repeat rewrite app_length. cbn [app]. f_equal. lia.
Qed.

Definition lquery_pairs (q : lquery) : pair rname :=
  let n := S (length (lq_text q)) in
  let st := match q with (bs, _) :: _ => 1 + length bs | [] => 1 end in
  Pair R_main 0 n [Pair R_jp_query 0 n [Pair R_segments st n (lq_pairs 1 q)]; Pair R_EOI n n []].

Lemma main_lsegs q :
  lq_ok q ->
  RunsG (300 + 2 * length (lq_text q)) (ECall R_main) ANonAtomic (36%N :: lq_text q) 0
        (Ok [] (S (length (lq_text q))) [lquery_pairs q]).
Proof.
  intros Hq. unfold lquery_pairs.
  (* root, the skip after it (which eats the first blank run), the segments *)
  assert (Hjp : RunsG (290 + 2 * length (lq_text q)) (ESeq (ECall R_root) (ECall R_segments)) ANonAtomic
                      (36%N :: lq_text q) 0
                      (Ok [] (1 + length (lq_text q))
                          [Pair R_segments (match q with (bs, _) :: _ => 1 + length bs | [] => 1 end)
                                (1 + length (lq_text q)) (lq_pairs 1 q)])).
  { destruct q as [|[bs g] q].
    - cbn [lq_text flat_map length lq_pairs]. eapply runs_conv.
      + eapply runs_seq_ok.
        * eapply runs_call_silent; [reflexivity|]. eapply runs_str_ok. reflexivity.
        * apply skip_none. exact I.
        * eapply runs_call_normal_ok; [reflexivity|]. eapply runs_rep_none. apply seg_iter_end.
      + lia.
      + reflexivity.
    - pose proof (Forall_inv Hq) as [Hb Hg]. pose proof (Forall_inv_tail Hq) as Hq'. cbn [fst snd] in Hb, Hg.
      unfold lq_text. cbn [flat_map lq_pairs fst snd]. fold (lq_text q). rewrite <- app_assoc.
      destruct (lseg_text_head g (lq_text q)) as [c [r [E Hc]]].
      eapply runs_conv.
      + eapply runs_seq_ok.
        * eapply runs_call_silent; [reflexivity|]. eapply runs_str_ok. reflexivity.
        * apply skip_blanks; [exact Hb|]. rewrite E. destruct Hc as [-> | ->]; cbn [not_ws]; repeat split; lia.
        * eapply runs_call_normal_ok; [reflexivity|]. eapply runs_rep_some.
          -- apply lseg_iter_step; [exact Hg|apply lq_text_stop; exact Hq'].
          -- apply reptail_lsegs. exact Hq'.
      + repeat rewrite app_length. cbn [length]. lia.
      + repeat rewrite app_length. cbn [emits app length]. repeat (f_equal; try lia). }
  eapply runs_conv.
  - eapply runs_call_normal_ok; [reflexivity|].
    eapply runs_seq_ok.
    + eapply runs_seq_ok.
      * apply runs_soi.
      * apply skip_none. cbn [not_ws]. repeat split; lia.
      * eapply runs_call_normal_ok; [reflexivity|]. exact Hjp.
    + apply skip_none. exact I.
    + apply runs_eoi_ok.
  - cbn [length]. lia.
  - cbn [emits app length g_eoi grammar]. repeat (f_equal; try lia).
Qed.
