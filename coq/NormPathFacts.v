(* NormPathFacts.v — the Normalized Path syntax (RFC 9535 2.7) is uniquely decodable: a decoder
   [np_decode] inverts [np] on every location (any names, any indices), hence [np] is injective:
   two nodes have the same Normalized Path exactly when they are at the same location.
   Also: what the decimal printer [dec_of_N] produces (digits only, no leading zero, the value). *)
From Coq Require Import List NArith ZArith Bool Lia.
From JP Require Import Base NormPath Dec2Bin.
Import ListNotations.

Ltac ndm n d := pose proof (N.div_mod' n d); pose proof (N.mod_lt n d ltac:(lia));
  pose proof (N.le_0_l (N.modulo n d)); pose proof (N.le_0_l (N.div n d)).

(* ---------- the decimal printer ---------- *)
Lemma digits_val_app x : forall a y,
  digits_val a (x ++ y) = match digits_val a x with Some v => digits_val v y | None => None end.
Proof.
  induction x as [|c x IH]; intros a y; [reflexivity|]. cbn [app digits_val].
  destruct (is_digit c); [apply IH|reflexivity].
Qed.

Lemma is_digit_of_mod n : is_digit (48 + N.modulo n 10) = true.
Proof. ndm n 10%N. unfold is_digit. apply andb_true_iff. split; apply N.leb_le; lia. Qed.

Lemma digit_val_of_mod n : digit_val (48 + N.modulo n 10) = Z.of_N (N.modulo n 10).
Proof. unfold digit_val. lia. Qed.

(* the first character of the rendering is '0' only for the number 0 *)
Definition no_lead_zero (ds : str) (n : N) : Prop :=
  match ds with c :: r => c = 48%N -> n = 0%N /\ r = [] | [] => False end.

Lemma dec_digits_spec fuel : forall n acc,
  (n < 2 ^ N.of_nat fuel)%N -> (0 < fuel)%nat ->
  exists ds, dec_digits fuel n acc = ds ++ acc
             /\ forallb is_digit ds = true
             /\ (forall a, digits_val a ds = Some (a * 10 ^ Z.of_nat (length ds) + Z.of_N n)%Z)
             /\ no_lead_zero ds n.
Proof.
  induction fuel as [|fuel IH]; intros n acc Hn Hf; [lia|].
  ndm n 10%N. cbn [dec_digits]. destruct (N.eqb_spec (N.div n 10) 0) as [Hq|Hq].
  - exists [(48 + N.modulo n 10)%N]. split; [reflexivity|]. split.
    { cbn [forallb]. rewrite is_digit_of_mod. reflexivity. }
    split.
    { intros a. cbn [digits_val length]. rewrite is_digit_of_mod, digit_val_of_mod.
      f_equal. change (10 ^ Z.of_nat 1)%Z with 10%Z. lia. }
    cbn [no_lead_zero]. intros Hc0. split; [lia|reflexivity].
  - assert (Hq2 : (N.div n 10 < 2 ^ N.of_nat fuel)%N).
    { rewrite Nat2N.inj_succ, N.pow_succ_r' in Hn. lia. }
    assert (Hf2 : (0 < fuel)%nat).
    { destruct fuel; [|lia]. cbn in Hq2. lia. }
    destruct (IH (N.div n 10) ((48 + N.modulo n 10)%N :: acc) Hq2 Hf2) as [ds [E [Hd [Hv Hz]]]].
    exists (ds ++ [(48 + N.modulo n 10)%N]). split.
    { rewrite E, <- app_assoc. reflexivity. }
    split.
    { rewrite forallb_app, Hd. cbn [forallb]. rewrite is_digit_of_mod. reflexivity. }
    split.
    { intros a. rewrite digits_val_app, Hv. cbn [digits_val].
      rewrite is_digit_of_mod, digit_val_of_mod. f_equal.
      rewrite app_length. cbn [length]. rewrite Nat2Z.inj_add.
      rewrite Z.pow_add_r by lia. change (10 ^ Z.of_nat 1)%Z with 10%Z. lia. }
    destruct ds as [|c r]; [contradiction|]. cbn [app no_lead_zero] in *.
    intros Hc. destruct (Hz Hc) as [Hq0 _]. contradiction.
Qed.

Lemma pos_size_bound p : (N.pos p < 2 ^ N.of_nat (Pos.size_nat p))%N.
Proof.
  induction p as [p IH|p IH|]; cbn [Pos.size_nat]; rewrite ?Nat2N.inj_succ, ?N.pow_succ_r'; lia.
Qed.

Lemma size_nat_bound n : (n < 2 ^ N.of_nat (S (N.size_nat n)))%N.
Proof.
  rewrite Nat2N.inj_succ, N.pow_succ_r'. destruct n as [|p]; [cbn; lia|].
  cbn [N.size_nat]. pose proof (pos_size_bound p). lia.
Qed.

Lemma dec_of_N_spec n :
  forallb is_digit (dec_of_N n) = true
  /\ (forall a, digits_val a (dec_of_N n) = Some (a * 10 ^ Z.of_nat (length (dec_of_N n)) + Z.of_N n)%Z)
  /\ no_lead_zero (dec_of_N n) n.
Proof.
  unfold dec_of_N.
  destruct (dec_digits_spec (S (N.size_nat n)) n [] (size_nat_bound n)) as [ds [E H]]; [lia|].
  rewrite E, app_nil_r. exact H.
Qed.

Lemma dec_of_N_value n : digits_val 0 (dec_of_N n) = Some (Z.of_N n).
Proof. destruct (dec_of_N_spec n) as [_ [H _]]. rewrite H. f_equal. Qed.

Lemma dec_of_N_injective n m : dec_of_N n = dec_of_N m -> n = m.
Proof.
  intros E. pose proof (dec_of_N_value n) as H1. rewrite E, dec_of_N_value in H1.
  inversion H1. lia.
Qed.

Lemma take_digits_stop ds : forall c rest,
  forallb is_digit ds = true -> is_digit c = false -> take_digits (ds ++ c :: rest) = (ds, c :: rest).
Proof.
  induction ds as [|d ds IH]; intros c rest Hd Hc; cbn [app take_digits].
  - rewrite Hc. reflexivity.
  - cbn [forallb] in Hd. apply andb_true_iff in Hd. destruct Hd as [H1 H2].
    rewrite H1, (IH c rest H2 Hc). reflexivity.
Qed.

(* ---------- the decoder ---------- *)
Definition hexval (c : N) : N := if N.leb c 57 then (c - 48)%N else (c - 87)%N.

Definition cons_fst (c : N) (o : option (str * str)) : option (str * str) :=
  match o with Some (k, r) => Some (c :: k, r) | None => None end.

Definition unesc_letter (e : N) : N :=
  if N.eqb e 98 then 8%N else if N.eqb e 102 then 12%N else if N.eqb e 110 then 10%N
  else if N.eqb e 114 then 13%N else if N.eqb e 116 then 9%N else e.

(* the body of a normal-single-quoted name up to the closing quote; returns the name and the rest *)
Fixpoint unesc (fuel : nat) (s : str) : option (str * str) :=
  match fuel with
  | O => None
  | S f =>
      match s with
      | [] => None
      | c :: r =>
          if N.eqb c 39 then Some ([], r)
          else if N.eqb c 92 then
            match r with
            | [] => None
            | e :: r2 =>
                if N.eqb e 117 then
                  match r2 with
                  | _ :: _ :: h1 :: h2 :: r3 => cons_fst (16 * hexval h1 + hexval h2)%N (unesc f r3)
                  | _ => None
                  end
                else cons_fst (unesc_letter e) (unesc f r2)
            end
          else cons_fst c (unesc f r)
      end
  end.

Definition unstep (s : str) : option (step * str) :=
  match s with
  | a :: b :: r =>
      if N.eqb a 91 then
        if N.eqb b 39 then
          match unesc (length r) r with
          | Some (k, c :: r') => if N.eqb c 93 then Some (SName k, r') else None
          | _ => None
          end
        else
          let '(ds, rest) := take_digits (b :: r) in
          match digits_val 0 ds, rest with
          | Some v, c :: r' => if N.eqb c 93 then Some (SIdx (Z.to_nat v), r') else None
          | _, _ => None
          end
      else None
  | _ => None
  end.

Fixpoint unsteps (fuel : nat) (s : str) : option loc :=
  match s with
  | [] => Some []
  | _ =>
      match fuel with
      | O => None
      | S f =>
          match unstep s with
          | Some (st, r) => match unsteps f r with Some l => Some (st :: l) | None => None end
          | None => None
          end
      end
  end.

Definition np_decode (s : str) : option loc :=
  match s with c :: r => if N.eqb c 36 then unsteps (length r) r else None | [] => None end.

(* ---------- the decoder inverts the printer ---------- *)
Lemma hexval_hexdig x : (x < 16)%N -> hexval (hexdig x) = x.
Proof.
  intros H. unfold hexval, hexdig. destruct (N.ltb_spec x 10).
  - destruct (N.leb_spec (48 + x) 57); lia.
  - destruct (N.leb_spec (87 + x) 57); lia.
Qed.

Lemma escape_length c : (1 <= length (np_escape_char c))%nat.
Proof.
  unfold np_escape_char.
  repeat match goal with |- context [if ?b then _ else _] => destruct b end; cbn; lia.
Qed.

(* one fuel unit per decoded character *)
Lemma unesc_escape c f tl :
  unesc (S f) (np_escape_char c ++ tl) = cons_fst c (unesc f tl).
Proof.
  unfold np_escape_char.
  destruct (N.eqb_spec c 8) as [->|?]; [reflexivity|].
  destruct (N.eqb_spec c 12) as [->|?]; [reflexivity|].
  destruct (N.eqb_spec c 10) as [->|?]; [reflexivity|].
  destruct (N.eqb_spec c 13) as [->|?]; [reflexivity|].
  destruct (N.eqb_spec c 9) as [->|?]; [reflexivity|].
  destruct (N.eqb_spec c 39) as [->|?]; [reflexivity|].
  destruct (N.eqb_spec c 92) as [->|?]; [reflexivity|].
  destruct (N.ltb_spec c 32) as [Hlt|Hge].
  - cbn [app unesc]. change (N.eqb 92 39) with false. change (N.eqb 92 92) with true.
    change (N.eqb 117 117) with true. cbv iota.
    ndm c 16%N. rewrite !hexval_hexdig by lia.
    replace (16 * (c / 16) + c mod 16)%N with c by lia. reflexivity.
  - cbn [app unesc]. destruct (N.eqb_spec c 39); [contradiction|].
    destruct (N.eqb_spec c 92); [contradiction|]. reflexivity.
Qed.

Lemma unesc_name k : forall fuel rest,
  (length k < fuel)%nat -> unesc fuel (flat_map np_escape_char k ++ 39%N :: rest) = Some (k, rest).
Proof.
  induction k as [|c k IH]; intros fuel rest Hf; destruct fuel as [|fuel]; cbn [length] in Hf; try lia.
  - reflexivity.
  - cbn [flat_map]. rewrite <- app_assoc, unesc_escape, IH by lia. reflexivity.
Qed.

Lemma escaped_length k : (length k <= length (flat_map np_escape_char k))%nat.
Proof.
  induction k as [|c k IH]; [cbn; lia|]. cbn [flat_map length]. rewrite app_length.
  pose proof (escape_length c). lia.
Qed.

Lemma unstep_np_step s rest : unstep (np_step s ++ rest) = Some (s, rest).
Proof.
  destruct s as [k|i]; unfold np_step.
  - rewrite <- !app_assoc. cbn [app unstep]. change (N.eqb 91 91) with true. change (N.eqb 39 39) with true.
    cbv iota. rewrite unesc_name.
    + change (N.eqb 93 93) with true. reflexivity.
    + rewrite app_length. cbn [length]. pose proof (escaped_length k). lia.
  - rewrite <- !app_assoc. cbn [app]. unfold dec_of_nat.
    destruct (dec_of_N_spec (N.of_nat i)) as [Hd [Hv Hz]].
    destruct (dec_of_N (N.of_nat i)) as [|b r] eqn:E; [contradiction|].
    cbn [app unstep]. change (N.eqb 91 91) with true. cbv iota.
    assert (Hb : N.eqb b 39 = false).
    { cbn [forallb] in Hd. apply andb_true_iff in Hd. destruct Hd as [Hb _].
      unfold is_digit in Hb. apply andb_true_iff in Hb. destruct Hb as [Hb _]. apply N.leb_le in Hb.
      apply N.eqb_neq. lia. }
    rewrite Hb. change (b :: r ++ 93%N :: rest) with ((b :: r) ++ 93%N :: rest).
    rewrite (take_digits_stop (b :: r) 93 rest Hd) by reflexivity.
    rewrite Hv. change (N.eqb 93 93) with true. cbv iota. f_equal. f_equal. f_equal. lia.
Qed.

Lemma np_step_length s : (1 <= length (np_step s))%nat.
Proof. destruct s; unfold np_step; rewrite !app_length; cbn [length]; lia. Qed.

Lemma unsteps_np l : forall fuel,
  (length l <= fuel)%nat -> unsteps fuel (flat_map np_step l) = Some l.
Proof.
  induction l as [|s l IH]; intros fuel Hf; [destruct fuel; reflexivity|].
  destruct fuel as [|fuel]; cbn [length] in Hf; [lia|].
  cbn [flat_map]. pose proof (np_step_length s) as Hl.
  destruct (np_step s ++ flat_map np_step l) as [|c0 r0] eqn:E.
  { apply (f_equal (@length N)) in E. rewrite app_length in E. cbn [length] in E. lia. }
  rewrite <- E. cbn [unsteps]. rewrite E at 1. rewrite unstep_np_step, IH by lia. reflexivity.
Qed.

Lemma steps_length l : (length l <= length (flat_map np_step l))%nat.
Proof.
  induction l as [|s l IH]; [cbn; lia|]. cbn [flat_map length]. rewrite app_length.
  pose proof (np_step_length s). lia.
Qed.

(* the decoder recovers the location from its Normalized Path: every name, every index *)
Theorem np_decode_np l : np_decode (np l) = Some l.
Proof.
  unfold np, np_decode. cbn [app]. change (N.eqb 36 36) with true. cbv iota.
  apply unsteps_np. apply steps_length.
Qed.

(* C03: two locations have the same Normalized Path exactly when they are the same location *)
Theorem np_injective l1 l2 : np l1 = np l2 -> l1 = l2.
Proof.
  intros E. pose proof (np_decode_np l1) as H. rewrite E, np_decode_np in H. inversion H. reflexivity.
Qed.
