(* Purity.v — C12: the public entry points as one function, and the API as a state machine whose
   state is empty.  That the real crate has no state to model is the generated obligation
   [footprint = []] (gen/Footprint.v, regenerated from src/ on every run). *)
From Coq Require Import List NArith ZArith Bool.
From JP Require Import Base Ast Eval ValueModel Spec Known Regex Entry Peg Dec2Bin Build.
From JP.gen Require Import Grammar Footprint.
Import ListNotations.

(* query_with_path / query / query_only_path (src/lib.rs, src/query.rs): all three are js_path
   followed by a projection *)
Definition api_with_path (s : str) (d : json) : option (list (json * str)) :=
  match parse_query s with
  | POk q => option_map (map (fun p => (inner p, path p))) (m_query q d)
  | _ => None
  end.
Definition api_query (s : str) (d : json) : option (list json) := option_map (map fst) (api_with_path s d).
Definition api_only_path (s : str) (d : json) : option (list str) := option_map (map snd) (api_with_path s d).

(* a query parsed once and evaluated later (js_path_process on a JpQuery) *)
Definition api_prepared (q : query) (d : json) : option (list (json * str)) :=
  option_map (map (fun p => (inner p, path p))) (m_query q d).

(* the API as a state machine: operations, an (empty) state, outputs *)
Inductive op := OpQuery (s : str) (d : json).
Definition out := option (list (json * str)).
Definition eval_op (o : op) : out := match o with OpQuery s d => api_with_path s d end.
Definition state := unit.
Definition step (st : state) (o : op) : state * out := (tt, eval_op o).
Fixpoint run_history (st : state) (h : list op) : list out :=
  match h with [] => [] | o :: h' => let '(st', r) := step st o in r :: run_history st' h' end.

Lemma entry_points_agree s d :
  api_query s d = option_map (map fst) (api_with_path s d)
  /\ api_only_path s d = option_map (map snd) (api_with_path s d)
  /\ (forall q, parse_query s = POk q -> api_with_path s d = api_prepared q d).
Proof.
  split; [reflexivity|]. split; [reflexivity|]. intros q H. unfold api_with_path, api_prepared. rewrite H. reflexivity.
Qed.

Lemma history_independent h : forall st, run_history st h = map eval_op h.
Proof. induction h as [|o h IH]; intros st; [reflexivity|]. cbn. rewrite IH. reflexivity. Qed.

Lemma history_position (pre post : list op) (o : op) st :
  nth_error (run_history st (pre ++ o :: post)) (length pre) = Some (eval_op o).
Proof.
  rewrite history_independent, map_app. cbn [map].
  rewrite nth_error_app2 by (rewrite map_length; apply le_n).
  rewrite map_length, Nat.sub_diag. reflexivity.
Qed.
