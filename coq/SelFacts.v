(* SelFacts.v — each selector of the model, applied to one pointer of the serde_json instance,
   yields the RFC's nodes for that selector on that node (locations and values). *)
From Coq Require Import List NArith ZArith Bool Lia.
From JP Require Import Base Ast Eval ValueModel Spec BaseFacts DataFacts ValueFacts IndexFacts SliceFacts Known.
Import ListNotations.

Notation node_of := (@node_of' json).
Notation nodes_of := (@nodes_of' json).

(* ---------- names ---------- *)
Lemma normalize_no_bslash s : no_bslash s = true -> normalize_json_key s = s.
Proof.
  induction s as [|c s IH]; [reflexivity|]. cbn [no_bslash forallb]. intros H.
  apply andb_true_iff in H. destruct H as [Hc Hs]. cbn [normalize_json_key].
  unfold c_bslash. apply negb_true_iff in Hc. rewrite Hc. f_equal. apply IH. exact Hs.
Qed.

Lemma trim_quoted q body :
  forallb (fun x => negb (N.eqb x q)) body = true ->
  trim_matches (is_c q) (q :: body ++ [q]) = body.
Proof.
  intros Hb. unfold trim_matches, is_c.
  destruct body as [|x body].
  - cbn [app drop_while]. rewrite !N.eqb_refl. reflexivity.
  - assert (Hx : N.eqb q x = false).
    { cbn in Hb. apply andb_true_iff in Hb. destruct Hb as [Hx _]. apply negb_true_iff in Hx.
      rewrite N.eqb_sym. exact Hx. }
    replace (drop_while (N.eqb q) (q :: (x :: body) ++ [q])) with ((x :: body) ++ [q])
      by (cbn [app drop_while]; rewrite N.eqb_refl, Hx; reflexivity).
    rewrite rev_app_distr. cbn [rev app].
    replace (drop_while (N.eqb q) (q :: rev body ++ [x])) with (drop_while (N.eqb q) (rev body ++ [x]))
      by (cbn [drop_while]; rewrite N.eqb_refl; reflexivity).
    assert (Hd : drop_while (N.eqb q) (rev body ++ [x]) = rev body ++ [x]).
    { destruct (rev body ++ [x]) as [|y r] eqn:Er.
      - destruct (rev body); discriminate.
      - assert (Hy : In y (x :: body)).
        { apply in_rev. cbn [rev]. rewrite Er. left. reflexivity. }
        rewrite forallb_forall in Hb. specialize (Hb y Hy). apply negb_true_iff in Hb.
        cbn [drop_while]. rewrite N.eqb_sym, Hb. reflexivity. }
    rewrite Hd. rewrite rev_app_distr, rev_involutive. reflexivity.
Qed.

Lemma decode_esc_plain q body : forall fuel,
  (length body < fuel)%nat ->
  no_bslash body = true -> no_ctl body = true ->
  forallb (fun x => negb (N.eqb x q)) body = true ->
  decode_esc fuel q body = Some body.
Proof.
  induction body as [|c body IH]; intros fuel Hf Hb Hc Hq.
  - destruct fuel; [cbn in Hf; lia|]. reflexivity.
  - destruct fuel as [|fuel]; [cbn in Hf; lia|].
    cbn [no_bslash no_ctl forallb] in *.
    apply andb_true_iff in Hb. destruct Hb as [Hb1 Hb2].
    apply andb_true_iff in Hc. destruct Hc as [Hc1 Hc2].
    apply andb_true_iff in Hq. destruct Hq as [Hq1 Hq2].
    apply negb_true_iff in Hb1. apply negb_true_iff in Hq1.
    cbn [decode_esc]. rewrite Hb1, Hq1.
    assert (Hlt : N.ltb c 32 = false) by (apply N.ltb_ge; apply N.leb_le; exact Hc1).
    rewrite Hlt, IH; [reflexivity|cbn [length] in Hf; lia|assumption..].
Qed.

Lemma decode_name_quoted q rest :
  (q = 39%N \/ q = 34%N) ->
  no_bslash (q :: rest) = true -> no_ctl (q :: rest) = true -> quoted_ok q (q :: rest) = true ->
  exists body, rest = body ++ [q] /\ forallb (fun x => negb (N.eqb x q)) body = true
               /\ decode_name (q :: rest) = Some body.
Proof.
  intros Hq Hb Hc Hk. unfold quoted_ok in Hk.
  destruct (rev rest) as [|c2 body_rev] eqn:Er; [discriminate|].
  apply andb_true_iff in Hk. destruct Hk as [Hk Hbody].
  apply andb_true_iff in Hk. destruct Hk as [_ Hc2]. apply N.eqb_eq in Hc2. subst c2.
  assert (Erest : rest = rev body_rev ++ [q]).
  { rewrite <- (rev_involutive rest), Er. reflexivity. }
  exists (rev body_rev).
  assert (Hbody' : forallb (fun x => negb (N.eqb x q)) (rev body_rev) = true).
  { rewrite forallb_forall in *. intros y Hy. apply Hbody. apply in_rev. exact Hy. }
  split; [exact Erest|]. split; [exact Hbody'|].
  assert (Hnb : no_bslash (rev body_rev) = true /\ no_ctl (rev body_rev) = true).
  { rewrite Erest in Hb, Hc. cbn [no_bslash no_ctl forallb] in Hb, Hc.
    apply andb_true_iff in Hb. destruct Hb as [_ Hb].
    apply andb_true_iff in Hc. destruct Hc as [_ Hc].
    unfold no_bslash, no_ctl. rewrite forallb_app in Hb, Hc.
    apply andb_true_iff in Hb. apply andb_true_iff in Hc. split; [apply Hb|apply Hc]. }
  cbn [decode_name]. rewrite Er, N.eqb_refl.
  assert (Hor : N.eqb q 39 || N.eqb q 34 = true) by (destruct Hq; subst; reflexivity).
  rewrite Hor. unfold decode_body.
  apply decode_esc_plain; [lia|apply Hnb|apply Hnb|exact Hbody'].
Qed.

Lemma decode_name_plain raw :
  name_plain raw = true ->
  exists k, decode_name raw = Some k /\
    (forall v, value_get v raw = match v with
                                 | JObj m => match assoc k m with Some x => Some (k, x) | None => None end
                                 | _ => None
                                 end).
Proof.
  unfold name_plain. intros H. apply andb_true_iff in H. destruct H as [H Hk].
  apply andb_true_iff in H. destruct H as [Hb Hc].
  destruct raw as [|c rest].
  - exists []. split; [reflexivity|]. intros v. reflexivity.
  - unfold name_kind in Hk.
    destruct (N.eqb_spec c 39) as [->|Hn39].
    + cbn [N.eqb] in Hk.
      destruct (decode_name_quoted 39 rest (or_introl eq_refl) Hb Hc Hk) as [body [Er [Hbody Hd]]].
      exists body. split; [exact Hd|]. intros v. unfold value_get.
      assert (He : ends_with [c_quote] (39%N :: rest) = true).
      { unfold ends_with. cbn [rev]. rewrite Er, rev_app_distr. reflexivity. }
      assert (Hs : starts_with [c_quote] (39%N :: rest) = true) by reflexivity.
      rewrite Hs, He. cbn [andb]. rewrite Er. unfold c_quote. rewrite (trim_quoted 39 body Hbody).
      reflexivity.
    + destruct (N.eqb_spec c 34) as [->|Hn34].
      * cbn [N.eqb] in Hk.
        destruct (decode_name_quoted 34 rest (or_intror eq_refl) Hb Hc Hk) as [body [Er [Hbody Hd]]].
        exists body. split; [exact Hd|]. intros v. unfold value_get.
        assert (Hs1 : starts_with [c_quote] (34%N :: rest) = false) by reflexivity.
        assert (Hs : starts_with [c_dquote] (34%N :: rest) = true) by reflexivity.
        assert (He : ends_with [c_dquote] (34%N :: rest) = true).
        { unfold ends_with. cbn [rev]. rewrite Er, rev_app_distr. reflexivity. }
        rewrite Hs1, Hs, He. cbn [andb]. rewrite Er. unfold c_dquote.
        rewrite (trim_quoted 34 body Hbody). reflexivity.
      * (* shorthand: no quote character at all *)
        exists (c :: rest). split.
        -- cbn [decode_name]. destruct (N.eqb_spec c 39); [contradiction|].
           destruct (N.eqb_spec c 34); [contradiction|]. reflexivity.
        -- intros v. unfold value_get.
           assert (Hs1 : starts_with [c_quote] (c :: rest) = false).
           { cbn [starts_with]. unfold c_quote. destruct (N.eqb_spec 39 c); [congruence|reflexivity]. }
           assert (Hs2 : starts_with [c_dquote] (c :: rest) = false).
           { cbn [starts_with]. unfold c_dquote. destruct (N.eqb_spec 34 c); [congruence|reflexivity]. }
           rewrite Hs1, Hs2. reflexivity.
Qed.

Lemma process_key_sel (p : ptr json) raw :
  name_plain raw = true ->
  ll (process_key J p raw) /\ nodes_of (process_key J p raw) = sel_name raw (node_of p).
Proof.
  intros Hp. destruct (decode_name_plain raw Hp) as [k [Hd Hg]].
  assert (Hnb : no_bslash raw = true).
  { unfold name_plain in Hp. apply andb_true_iff in Hp. destruct Hp as [Hp _].
    apply andb_true_iff in Hp. apply Hp. }
  unfold process_key, sel_name. rewrite (normalize_no_bslash raw Hnb), Hd.
  cbn [q_get J value_ops]. rewrite Hg. cbn [node_of' fst snd].
  destruct (inner p) as [| | | | |m]; try (split; [exact I|reflexivity]).
  destruct (assoc k m) as [x|]; split; try exact I; reflexivity.
Qed.

(* ---------- wildcard ---------- *)
Lemma process_wildcard_sel (p : ptr json) :
  ll (process_wildcard J p) /\ nodes_of (process_wildcard J p) = children (node_of p).
Proof.
  unfold process_wildcard, children, children_steps. cbn [q_as_array q_as_object J value_ops node_of' fst snd].
  destruct (inner p) as [| | | | l | m]; try (split; [exact I|reflexivity]).
  - destruct l as [|x l]; [split; [exact I|reflexivity]|]. split; [exact I|].
    unfold nodes_of'. cbn [refs_of]. rewrite !map_map. apply map_ext. intros [i e]. reflexivity.
  - destruct m as [|kv m]; [split; [exact I|reflexivity]|]. split; [exact I|].
    unfold nodes_of'. cbn [refs_of]. rewrite !map_map. apply map_ext. intros [k v]. reflexivity.
Qed.

(* ---------- index and slice ---------- *)
Lemma process_index_sel (p : ptr json) i :
  ll (process_index J p i) /\ nodes_of (process_index J p i) = sel_index i (node_of p).
Proof.
  unfold sel_index. cbn [node_of' fst snd].
  destruct (inner p) as [| | | | arr | m] eqn:Ei;
    try (rewrite process_index_non_array by (rewrite Ei; reflexivity); split; [exact I|reflexivity]).
  rewrite (process_index_rfc json J p arr i) by (rewrite Ei; reflexivity).
  destruct (rfc_index (Z.of_nat (length arr)) i) as [j|]; [|split; [exact I|reflexivity]].
  destruct (nth_error arr (Z.to_nat j)); split; try exact I; reflexivity.
Qed.

Lemma process_slice_sel (p : ptr json) s e st :
  ll (process_slice J p s e st) /\ nodes_of (process_slice J p s e st) = sel_slice s e st (node_of p).
Proof.
  unfold sel_slice. cbn [node_of' fst snd].
  destruct (inner p) as [| | | | arr | m] eqn:Ei;
    try (rewrite process_slice_non_array by (rewrite Ei; reflexivity); split; [exact I|reflexivity]).
  rewrite (process_slice_rfc json J p arr s e st) by (rewrite Ei; reflexivity).
  split; [exact I|]. unfold nodes_of'. cbn [refs_of].
  rewrite map_flat_map. apply flat_map_ext'. intros j _.
  destruct (nth_error arr (Z.to_nat j)); reflexivity.
Qed.

(* ---------- descendants ---------- *)
Definition is_container (v : json) : bool := match v with JArr _ | JObj _ => true | _ => false end.
Definition container_node (n : node) : bool := is_container (snd n).

Lemma desc_arr_go l : forall loc i,
  (fix go (i : nat) (a : list json) : list node :=
     match a with
     | [] => []
     | x :: a' => descendants_or_self (loc ++ [SIdx i]) x ++ go (S i) a'
     end) i l
  = flat_map (fun '(i, x) => descendants_or_self (loc ++ [SIdx i]) x) (enum_from i l).
Proof. induction l as [|x l IH]; intros loc i; [reflexivity|]. cbn [enum_from flat_map]. rewrite IH. reflexivity. Qed.

Lemma desc_obj_go (m : list (str * json)) : forall loc,
  (fix go (m : list (str * json)) : list node :=
     match m with
     | [] => []
     | (k, v) :: m' => descendants_or_self (loc ++ [SName k]) v ++ go m'
     end) m
  = flat_map (fun '(k, v) => descendants_or_self (loc ++ [SName k]) v) m.
Proof. induction m as [|[k v] m IH]; intros loc; [reflexivity|]. cbn [flat_map]. rewrite IH. reflexivity. Qed.

Lemma desc_arr loc l :
  descendants_or_self loc (JArr l)
  = (loc, JArr l) :: flat_map (fun '(i, x) => descendants_or_self (loc ++ [SIdx i]) x) (enum_from 0 l).
Proof. rewrite <- desc_arr_go. reflexivity. Qed.
Lemma desc_obj loc m :
  descendants_or_self loc (JObj m)
  = (loc, JObj m) :: flat_map (fun '(k, v) => descendants_or_self (loc ++ [SName k]) v) m.
Proof. rewrite <- desc_obj_go. reflexivity. Qed.

Lemma filter_flat_map {A B} (f : A -> list B) (p : B -> bool) l :
  List.filter p (flat_map f l) = flat_map (fun x => List.filter p (f x)) l.
Proof. induction l as [|x l IH]; [reflexivity|]. cbn [flat_map]. rewrite filter_app, IH. reflexivity. Qed.

Lemma in_enum_from {A} (l : list A) i n x : In (n, x) (enum_from i l) -> In x l.
Proof.
  revert i. induction l as [|y l IH]; intros i; [intros []|]. cbn [enum_from].
  intros [E|H]; [inversion E; left; reflexivity|right; eapply IH; exact H].
Qed.

Lemma process_descendant_sel (v : json) : forall fuel (p : ptr json),
  inner p = v -> (jsize v <= fuel)%nat ->
  ll (process_descendant J fuel p) /\
  nodes_of (process_descendant J fuel p)
  = List.filter container_node (descendants_or_self (ploc p) (inner p)).
Proof.
  induction v as [| b | n | s | l IH | m IH] using json_ind'; intros fuel p Hp Hf;
    (destruct fuel as [|fuel]; [cbn [jsize] in Hf; lia|]);
    cbn [process_descendant q_as_array q_as_object J value_ops]; rewrite Hp;
    try (split; [exact I|reflexivity]).
  - (* array *)
    set (kids := map (fun '(i, e) => ptr_idx e (path p) (ploc p) i) (enum_from 0 l)).
    assert (Hll : forall q, In q kids -> ll (process_descendant J fuel q) /\
              nodes_of (process_descendant J fuel q)
              = List.filter container_node (descendants_or_self (ploc q) (inner q))).
    { intros q Hq. subst kids. apply in_map_iff in Hq. destruct Hq as [[i e] [<- Hie]].
      apply in_enum_from in Hie. rewrite Forall_forall in IH.
      apply (IH e Hie); [reflexivity|]. pose proof (jsize_in_arr e l Hie). lia. }
    split.
    + cbn [flat_map_data]. exact I.
    + cbn [flat_map_data reduce]. unfold nodes_of'. cbn [refs_of map].
      rewrite desc_arr. cbn [List.filter container_node snd is_container].
      f_equal; [unfold node_of'; rewrite Hp; reflexivity|].
      rewrite filter_flat_map, map_flat_map.
      subst kids. rewrite flat_map_map. apply flat_map_ext'. intros [i e] Hie.
      destruct (Hll (ptr_idx e (path p) (ploc p) i)) as [_ Hn].
      { apply in_map_iff. exists (i, e). split; [reflexivity|exact Hie]. }
      exact Hn.
  - (* object *)
    set (kids := map (fun '(k, v) => ptr_key v (path p) (ploc p) k k) m).
    assert (Hll : forall q, In q kids -> ll (process_descendant J fuel q) /\
              nodes_of (process_descendant J fuel q)
              = List.filter container_node (descendants_or_self (ploc q) (inner q))).
    { intros q Hq. subst kids. apply in_map_iff in Hq. destruct Hq as [[k e] [<- Hke]].
      rewrite Forall_forall in IH.
      apply (IH (k, e) Hke); [reflexivity|]. pose proof (jsize_in_obj k e m Hke). cbn [snd]. lia. }
    split.
    + cbn [flat_map_data]. exact I.
    + cbn [flat_map_data reduce]. unfold nodes_of'. cbn [refs_of map].
      rewrite desc_obj. cbn [List.filter container_node snd is_container].
      f_equal; [unfold node_of'; rewrite Hp; reflexivity|].
      rewrite filter_flat_map, map_flat_map.
      subst kids. rewrite flat_map_map. apply flat_map_ext'. intros [k e] Hke.
      destruct (Hll (ptr_key e (path p) (ploc p) k k)) as [_ Hn].
      { apply in_map_iff. exists (k, e). split; [reflexivity|exact Hke]. }
      exact Hn.
Qed.

Lemma descend_sel (p : ptr json) :
  ll (descend J p) /\
  nodes_of (descend J p) = List.filter container_node (descendants_or_self (ploc p) (inner p)).
Proof. unfold descend. apply (process_descendant_sel (inner p)); [reflexivity|]. cbn. lia. Qed.

(* ---------- the List.filter selector, given the truth value of the List.filter on each child ---------- *)
Lemma children_of_sel (elem : data json -> data json) (p : ptr json) :
  ll (children_of J elem p) /\
  nodes_of (children_of J elem p)
  = List.filter (fun c => filter_item_of J elem (snd c)) (children (node_of p)).
Proof.
  unfold children_of, children, children_steps. cbn [q_as_array q_as_object J value_ops node_of' fst snd].
  destruct (inner p) as [| | | | l | m]; try (split; [exact I|reflexivity]); split; try exact I.
  - unfold nodes_of'. cbn [refs_of]. rewrite !map_map.
    induction (enum_from 0 l) as [|[i e] r IH]; [reflexivity|].
    cbn [List.filter map fst snd]. destruct (filter_item_of J elem e); cbn [map]; rewrite IH; reflexivity.
  - unfold nodes_of'. cbn [refs_of]. rewrite !map_map.
    induction m as [|[k e] r IH]; [reflexivity|].
    cbn [List.filter map fst snd]. destruct (filter_item_of J elem e); cbn [map]; rewrite IH; reflexivity.
Qed.
