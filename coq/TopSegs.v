(* TopSegs.v — blank space after the dot(s) of a segment: the GRAMMAR accepts `$. a` and `$.. a` (pest's implicit skipping), the
   hand-written checks of parser.rs refuse them.  For EVERY input string: if the parser accepts it, no top-level segment of the
   query has a blank right after its `.` or `..` (the segments of queries nested in filters go through the same function of
   parser.rs; the statement here is about the segments of the query itself). *)
From Coq Require Import List Arith NArith ZArith Bool Lia.
From JP Require Import Base Ast Peg PegFacts Dec2Bin Build BuildFacts PegTerm PegAlpha PegTree TokenFacts.
From JP.gen Require Import Grammar.
Import ListNotations.
Local Open Scope nat_scope.

(* the pairs parser.rs hands to [segment]: main -> jp_query -> segments -> each (segment -> its only child) *)
Definition top_segments (s : str) : list (pair rname) :=
  match parse_tokens s with
  | m :: _ =>
      match next_down m with
      | Some jq => match next_down jq with
                   | Some sp => flat_map (fun r => match next_down r with Some k => [k] | None => [] end) (p_kids sp)
                   | None => []
                   end
      | None => []
      end
  | [] => []
  end.

Definition seg_dot_ok (s : str) (k : pair rname) : Prop :=
  (is_rule R_child_segment k = true ->
     match p_str s k with 46%N :: b :: _ => is_blank b = false | _ => True end)
  /\ (is_rule R_child_segment k = false -> is_rule R_descendant_segment k = true ->
     match nth_error (p_str s k) 2 with Some c => is_blank c = false | None => False end).

Lemma str_eqb_refl_len a b : str_eqb a b = true -> length a = length b.
Proof.
  revert b. induction a as [|x a IH]; intros [|y b] H; cbn [str_eqb] in H; try discriminate; [reflexivity|].
  apply andb_true_iff in H. destruct H as [_ H]. cbn [length]. f_equal. apply IH. exact H.
Qed.

Lemma drop_while_len (f : N -> bool) l : length (drop_while f l) <= length l.
Proof. induction l as [|x l IH]; cbn [drop_while length]; [lia|]. destruct (f x); cbn [length]; lia. Qed.

Lemma no_leading_blank b r : is_blank b = true -> str_eqb (b :: r) (trim_start_blank (b :: r)) = false.
Proof.
  intros Hb. destruct (str_eqb (b :: r) (trim_start_blank (b :: r))) eqn:E; [|reflexivity]. exfalso.
  apply str_eqb_refl_len in E. unfold trim_start_blank in E. cbn [drop_while] in E. rewrite Hb in E.
  pose proof (drop_while_len is_blank r). cbn [length] in E. lia.
Qed.

Lemma b_segment_dot_ok s f k seg : b_segment s f k = Some seg -> seg_dot_ok s k.
Proof.
  intros H. destruct f as [|f]; [discriminate|]. cbn [b_segment] in H. unfold seg_dot_ok. split.
  - intros Hc. rewrite Hc in H. destruct (p_str s k) as [|c0 r0]; [exact I|]. destruct (N.eqb_spec c0 46) as [->|Hn].
    + destruct r0 as [|b r1]; [exact I|]. destruct (is_blank b) eqn:Hb; [|reflexivity].
      rewrite (no_leading_blank b r1 Hb) in H. discriminate.
    + destruct c0 as [|p]; [exact I|]. do 6 (destruct p as [p|p|]; try exact I). contradiction.
  - intros Hc Hd. rewrite Hc, Hd in H. destruct (nth_error (p_str s k) 2) as [c|]; [|discriminate].
    destruct (is_blank c); [discriminate|reflexivity].
Qed.

Theorem accepted_top_segments_dot_ok (s : str) (q : query) :
  parse_query s = POk q -> Forall (seg_dot_ok s) (top_segments s).
Proof.
  unfold parse_query, parse_model, top_segments, parse_tokens. destruct (negb (str_eqb s (trim_blank s))); [discriminate|].
  unfold parse_rule. generalize (parse_fuel s). intros F.
  destruct (Peg.run grammar F (ECall R_main) ANonAtomic s 0) as [| |rest p toks]; try discriminate.
  destruct toks as [|m ts]; [discriminate|]. destruct (next_down m) as [jq|]; [|discriminate].
  unfold b_jp_query. destruct (next_down jq) as [sp|]; [|discriminate]. cbn [bind].
  destruct (b_segments s F sp) as [segs|] eqn:Eb; [|discriminate]. intros _.
  destruct F as [|F]; [discriminate|]. cbn [b_segments] in Eb. apply bind_some in Eb. destruct Eb as [l [El _]].
  clear -El. revert l El. induction (p_kids sp) as [|r rs IH]; intros l El; cbn [flat_map]; [constructor|].
  cbn [mapM] in El. apply bind_some in El. destruct El as [y [Hy H2]]. apply bind_some in H2. destruct H2 as [ys [Hys _]].
  apply bind_some in Hy. destruct Hy as [k [Hk Hseg]]. rewrite Hk. cbn [app]. constructor.
  - exact (b_segment_dot_ok s F k y Hseg).
  - exact (IH ys Hys).
Qed.
Print Assumptions accepted_top_segments_dot_ok.

(* not vacuous: $.a..b has two top-level segments *)
Example top_segments_example : length (top_segments [36; 46; 97; 46; 46; 98]%N) = 2.
Proof. vm_compute. reflexivity. Qed.
