(* C09 — reference / reference_mut resolve a path to exactly its node.  Statements only. *)
From Coq Require Import List NArith ZArith Bool.
From JP Require Import Base Ast Eval ValueModel Spec NormPath Known Build Concrete Reference RefFast NpParse NpBuild StringLevel.
Import ListNotations.

(* the full statement, at string level (false of the code for names that need escaping: D6) *)
Definition C09_full_statement : Prop :=
  forall d l, wf_json d = true ->
  m_reference (np l) d = match lookup d l with Some v => Some (l, v) | None => None end.

(* proved at string level, through the generated grammar and parser.rs: for every document and
   every location whose names are made of Unicode scalar values that need no escaping (outside:
   known class D6) and whose indices are below 2^53, reference(np l) is exactly the node at l when
   it exists and None when it does not *)
Theorem C09_reference_string_partial : forall d l,
  Forall plain_step l -> Forall step_in_range l ->
  m_reference (np l) d = match lookup d l with Some v => Some (l, v) | None => None end.
Proof. exact reference_np_string. Qed.
Print Assumptions C09_reference_string_partial.

(* proved, at AST level, for every document and every location whose names need no escaping
   (outside: known class D6): the Normalized Path of a location resolves to exactly that node
   when it exists, and to None when it does not *)
Theorem C09_reference_partial : forall d l,
  loc_plain l = true ->
  m_reference_q (np_query l) d = match lookup d l with Some v => Some (l, v) | None => None end.
Proof. exact reference_np. Qed.
Print Assumptions C09_reference_partial.

(* for every path whatsoever: what reference returns is the node at the location it resolved to *)
Theorem C09_sound : forall q d l v, m_reference_q q d = Some (l, v) -> lookup d l = Some v.
Proof. exact reference_sound. Qed.
Print Assumptions C09_sound.

(* writing through the resolved location changes that node ... *)
Theorem C09_write_read : forall d l x d', set_at d l x = Some d' -> lookup d' l = Some x.
Proof. exact set_get. Qed.
Print Assumptions C09_write_read.
(* ... and nothing else: every location that does not pass through it keeps its value *)
Theorem C09_frame : forall d l l2 x d',
  set_at d l x = Some d' -> diverges l l2 = true -> lookup d' l2 = lookup d l2.
Proof. exact set_frame. Qed.
Print Assumptions C09_frame.

(* a name is only looked up in an object and an index only in an array *)
Example C09_no_conflation :
  m_reference_q (GCons (SegSel (SelName [39; 49; 39]%N)) GNil) (JArr [JNum (NInt 10); JNum (NInt 20)]) = None
  /\ m_reference_q (GCons (SegSel (SelIndex 1)) GNil) (JObj [([49]%N, JNum (NInt 5))]) = None
  /\ m_reference_q (GCons (SegSel (SelName [39; 97; 47; 98; 39]%N)) GNil)
       (JObj [([97]%N, JObj [([98]%N, JNum (NInt 2))]); ([97; 47; 98]%N, JNum (NInt 1))])
     = Some ([SName [97; 47; 98]%N], JNum (NInt 1)).
Proof. vm_compute. repeat split. Qed.

(* the correspondence run executes [m_reference_fast] / [rfc_reference_fast] (the index stays in Z and is compared with the
   array length before it becomes a position, so that $[4294967296] can be run); they ARE the model and the specification *)
Theorem C09_driver_runs_the_model : forall path d,
  m_reference_fast path d = m_reference path d /\ rfc_reference_fast path d = rfc_reference path d.
Proof. intros path d. split; [apply m_reference_fast_eq|apply rfc_reference_fast_eq]. Qed.
Print Assumptions C09_driver_runs_the_model.
