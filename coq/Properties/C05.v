(* C05 — Filter logic, existence tests and @/$ scoping.  Statements only. *)
From Coq Require Import List NArith ZArith Bool.
From JP Require Import Base Ast Eval ValueModel Spec Known WellFormed Regex Entry DataFacts SelFacts
  ValueFacts Refine Order RegexFacts SpecSteps Build Purity GenParse GenBuild FragParse FilterParse FilterBuild StringLevel SingularFacts.
Import ListNotations.

Notation holds := (r_holds rx_spec_full rx_spec_sub jeqb false).

Lemma filter_semantics_lemma f root v :
  ok_filter f = true ->
  val_bool J (e_felem J rx_model_search root f (cur v)) = holds root f v.
Proof.
  intros H. rewrite (filter_refines rx_model_search rx_spec_full rx_spec_sub rx_model_full_ok rx_model_sub_ok f root v H).
  apply sel_major_filters_agree.
Qed.
(* the code's truth value of a filter on a current node (Filter::filter_item) is the RFC 9535
   truth value of the logical expression, for every nesting of !, &&, ||, parentheses,
   comparisons, existence tests, function tests and filters nested inside filter queries *)
Theorem C05_filter_semantics : forall f root v,
  ok_filter f = true ->
  val_bool J (e_felem J rx_model_search root f (cur v)) = holds root f v.
Proof. exact filter_semantics_lemma. Qed.
Print Assumptions C05_filter_semantics.

Lemma select_children_lemma f root d :
  ok_filter f = true -> ll d ->
  nodes_of (e_selector J rx_model_search root (SelFilter f) d)
  = flat_map (fun n => List.filter (fun c => holds root f (snd c)) (children n)) (nodes_of d).
Proof.
  intros Hok Hd.
  destruct (fselect_sel (e_felem J rx_model_search root f) d) as [_ Hn].
  change (e_selector J rx_model_search root (SelFilter f) d)
    with (fselect J (e_felem J rx_model_search root f) d).
  rewrite Hn. apply BaseFacts.flat_map_ext'. intros n _.
  induction (children n) as [|c cs IH]; [reflexivity|]. cbn [List.filter].
  unfold filter_item_of at 1. fold (cur (snd c)).
  rewrite (filter_semantics_lemma f root (snd c) Hok), IH. reflexivity.
Qed.
(* a filter selector keeps exactly those children (array elements or member values) of each
   input node for which the expression is true, in their original order *)
Theorem C05_select_children_in_order : forall f root d,
  ok_filter f = true -> ll d ->
  nodes_of (e_selector J rx_model_search root (SelFilter f) d)
  = flat_map (fun n => List.filter (fun c => holds root f (snd c)) (children n)) (nodes_of d).
Proof. exact select_children_lemma. Qed.
Print Assumptions C05_select_children_in_order.

(* the same at STRING level, through the whole pipeline (generated grammar, parser.rs, Filter::process):
   for every logical expression e of the tower of FilterParse.v, nested to any depth n, query_with_path on the
   text `$[?e]` returns exactly the children of the root for which the RFC truth value of e holds, in their
   original order (list equality) *)
Theorem C05_string_level_children_in_order : forall n (e : list (list (xatom (SelT n)))) (d : json),
  eok (SelT n) (sokT n) e -> egood (SelT n) (sgoodT lit_arg n) (sastT n) lit_arg e -> wf_json d = true ->
  let f := or_ast (SelT n) (sastT n) e in
  exists ps,
    api_with_path (36%N :: 91%N :: filter_text (SelT n) (stextT n) e ++ [93%N]) d
      = Some (map (fun p => (inner p, path p)) ps)
    /\ map node_of ps = List.filter (fun c => holds d f (snd c)) (children ([], d)).
Proof. exact filter_children_in_order. Qed.
Print Assumptions C05_string_level_children_in_order.

(* $[?@.a==1&&!(@.b||$.c)] on [{"a":1},{"a":1,"b":null},{"a":2}] *)
Example C05_string_level_example :
  let e : list (list (xatom (SelT 0))) :=
    [[XCmp _ OpEq (XCB _ (XCSq false [SQShort [97]%N])) (XCB _ (XCLit (XInt 1%Z)));
      XParen _ true [[XTest _ false false [GShort _ [98]%N]]; [XTest _ false true [GShort _ [99]%N]]]]] in
  let a := [97]%N in let b := [98]%N in
  let d := JArr [JObj [(a, JNum (NInt 1))]; JObj [(a, JNum (NInt 1)); (b, JNull)]; JObj [(a, JNum (NInt 2))]] in
  filter_text (SelT 0) (stextT 0) e = [63;64;46;97;61;61;49;38;38;33;40;64;46;98;124;124;36;46;99;41]%N
  /\ option_map (map fst) (api_with_path (36%N :: 91%N :: filter_text (SelT 0) (stextT 0) e ++ [93%N]) d)
     = Some [JObj [(a, JNum (NInt 1))]].
Proof. vm_compute. split; reflexivity. Qed.

(* Boolean algebra of the RFC semantics: ||, && are orb/andb over the operands in order,
   ! and parentheses are negation and identity (so && binds tighter than || exactly when the
   parser builds Or [.., And [..]], which C06 states) *)
Theorem C05_or : forall root a b v,
  holds root (FOr (FCons a (FCons b FNil))) v = holds root a v || holds root b v.
Proof. intros. autorewrite with rsteps. rewrite orb_false_r. reflexivity. Qed.
Theorem C05_and : forall root a b v,
  holds root (FAnd (FCons a (FCons b FNil))) v = holds root a v && holds root b v.
Proof. intros. autorewrite with rsteps. rewrite andb_true_r. reflexivity. Qed.
Theorem C05_not_paren : forall root f v,
  holds root (FAtom (AFilter f true)) v = negb (holds root f v)
  /\ holds root (FAtom (AFilter f false)) v = holds root f v.
Proof. intros. autorewrite with rsteps. split; [reflexivity|]. destruct (holds root f v); reflexivity. Qed.
Theorem C05_de_morgan : forall root a b v,
  holds root (FAtom (AFilter (FOr (FCons a (FCons b FNil))) true)) v
  = holds root (FAnd (FCons (FAtom (AFilter a true)) (FCons (FAtom (AFilter b true)) FNil))) v.
Proof.
  intros. autorewrite with rsteps. destruct (holds root a v), (holds root b v); reflexivity.
Qed.

(* a query used as a test is true exactly when it selects at least one node, whatever its value *)
Theorem C05_existence : forall root l neg v,
  holds root (FAtom (ATest (TRel l) neg)) v
  = xorb neg (match r_segments rx_spec_full rx_spec_sub jeqb false root l [([], v)] with [] => false | _ => true end).
Proof. intros. autorewrite with rsteps. reflexivity. Qed.
(* the same name/index path written as an operand of a comparison and as a query selects the same nodes (from @ and from $), and so
   the existence test `@.path` holds exactly when the operand `@.path` is not Nothing - for every document and current node *)
Theorem C05_operand_path_is_the_query : forall root l cur,
  r_squery root (SqCur l) cur = r_segments rx_spec_full rx_spec_sub jeqb false root (sq_segs l) [([], cur)]
  /\ r_squery root (SqRoot l) cur = r_segments rx_spec_full rx_spec_sub jeqb false root (sq_segs l) [([], root)].
Proof. exact (squery_as_segments rx_spec_full rx_spec_sub jeqb false). Qed.
Print Assumptions C05_operand_path_is_the_query.
Theorem C05_existence_iff_operand_not_nothing : forall root l cur,
  as_logical (r_test rx_spec_full rx_spec_sub jeqb false root (TRel (sq_segs l)) cur) = true
  <-> r_comparable rx_spec_full rx_spec_sub jeqb false root (CSq (SqCur l)) cur <> None.
Proof. exact (existence_iff_operand rx_spec_full rx_spec_sub jeqb false). Qed.
Print Assumptions C05_existence_iff_operand_not_nothing.
(* both sides occur: @.a[0] on {"a":[null]} exists although its value is null; on {"a":[]} it does not *)
Example C05_existence_operand_example :
  let l := [SqName [97]%N; SqIndex 0] in
  r_comparable rx_spec_full rx_spec_sub jeqb false JNull (CSq (SqCur l)) (JObj [([97]%N, JArr [JNull])]) = Some JNull
  /\ r_comparable rx_spec_full rx_spec_sub jeqb false JNull (CSq (SqCur l)) (JObj [([97]%N, JArr [])]) = None.
Proof. vm_compute. split; reflexivity. Qed.

(* @ is the node under test, $ is the document root, at every nesting level *)
Theorem C05_scoping : forall root l v,
  r_test rx_spec_full rx_spec_sub jeqb false root (TRel l) v
  = RNodes (r_segments rx_spec_full rx_spec_sub jeqb false root l [([], v)])
  /\ r_test rx_spec_full rx_spec_sub jeqb false root (TAbs l) v
  = RNodes (r_segments rx_spec_full rx_spec_sub jeqb false root l [([], root)]).
Proof. intros. autorewrite with rsteps. split; reflexivity. Qed.

(* non-vacuity: existence of members whose value is null, false, 0, "", [], {} *)
Example C05_existence_of_falsy :
  let a := [97]%N in
  let doc := JArr [JObj [(a, JNull)]; JObj [(a, JBool false)]; JObj [(a, JNum (NInt 0))];
                   JObj [(a, JStr [])]; JObj [(a, JArr [])]; JObj [(a, JObj [])]; JObj []] in
  let q := GCons (SegSel (SelFilter (FAtom (ATest (TRel (GCons (SegSel (SelName a)) GNil)) false)))) GNil in
  wf_query q = true /\
  map fst (rfc_query q doc) = [[SIdx 0]; [SIdx 1]; [SIdx 2]; [SIdx 3]; [SIdx 4]; [SIdx 5]] /\
  option_map (map (fun p => ploc p)) (m_query q doc) = Some [[SIdx 0]; [SIdx 1]; [SIdx 2]; [SIdx 3]; [SIdx 4]; [SIdx 5]].
Proof. vm_compute. repeat split. Qed.

(* nested filter on the current node: $[?@[?@.a]] on [[{"a":1}], [{"b":1}]] *)
Example C05_nested_filter :
  let a := [97]%N in
  let inner := FAtom (ATest (TRel (GCons (SegSel (SelName a)) GNil)) false) in
  let q := GCons (SegSel (SelFilter (FAtom (ATest (TRel (GCons (SegSel (SelFilter inner)) GNil)) false)))) GNil in
  let doc := JArr [JArr [JObj [(a, JNum (NInt 1))]]; JArr [JObj [([98]%N, JNum (NInt 1))]]] in
  wf_query q = true /\ map fst (rfc_query q doc) = [[SIdx 0]] /\
  option_map (map (fun p => ploc p)) (m_query q doc) = Some [[SIdx 0]].
Proof. vm_compute. repeat split. Qed.
