(* C03 — Each reported path is the Normalized Path of the reported node.  Statements only. *)
From Coq Require Import List NArith ZArith Bool.
From JP Require Import Base Ast Eval ValueModel Spec NormPath Known WellFormed Regex Entry PathFacts
  NormPathFacts Build Reference Requery NpParse NpBuild StringLevel.
Import ListNotations.

(* the full statement (false of the code today: D6) *)
Definition C03_full_statement : Prop :=
  forall q d ps, m_query q d = Some ps -> Forall (fun p => path p = np (ploc p)) ps.

(* outside the known class D6: member names of the document need no escaping and the top-level
   name selectors are shorthand or single-quoted plain names; then, through every selector kind,
   negative indices, slices, wildcards, filters and the descendant segment, the reported path is
   the Normalized Path of the reported location *)
Theorem C03_path_is_np_partial : forall q d ps,
  segs_path_ok q = true -> doc_plain d = true ->
  m_query q d = Some ps -> Forall (fun p => path p = np (ploc p)) ps.
Proof. exact (fun q d => paths_are_normalized rx_model_search d q). Qed.
Print Assumptions C03_path_is_np_partial.

(* the Normalized Path syntax is uniquely decodable, for every name (any characters, escaped as
   2.7 prescribes) and every index: two locations have the same Normalized Path only if they are
   the same location *)
Theorem C03_np_injective : forall l1 l2, np l1 = np l2 -> l1 = l2.
Proof. exact np_injective. Qed.
Print Assumptions C03_np_injective.

(* two reported results have the same path exactly when they are the same node (location) *)
Theorem C03_same_path_same_node_partial : forall q d ps p1 p2,
  segs_path_ok q = true -> doc_plain d = true -> m_query q d = Some ps ->
  In p1 ps -> In p2 ps -> (path p1 = path p2 <-> ploc p1 = ploc p2).
Proof. exact same_path_same_location. Qed.
Print Assumptions C03_same_path_same_node_partial.

(* re-running a reported path returns exactly that node: the query whose text is the reported
   path ([np_query l] is the AST of the string [np l]) selects the reported node and nothing else,
   and reports the same path again *)
Theorem C03_requery_partial : forall q d ps p,
  wf_query q = true -> segs_path_ok q = true -> doc_plain d = true -> wf_json d = true ->
  m_query q d = Some ps -> In p ps ->
  m_query (np_query (ploc p)) d = Some [p].
Proof. exact requery_reported. Qed.
Print Assumptions C03_requery_partial.

(* the same at string level: the reported path string, parsed (generated grammar + parser.rs)
   and run again, returns exactly the reported node *)
Theorem C03_requery_string_partial : forall q d ps p,
  wf_query q = true -> segs_path_ok q = true -> doc_plain d = true -> wf_json d = true ->
  m_query q d = Some ps -> In p ps ->
  Forall plain_step (ploc p) -> Forall step_in_range (ploc p) ->
  exists q', parse_query (path p) = POk q' /\ m_query q' d = Some [p].
Proof. exact requery_string. Qed.
Print Assumptions C03_requery_string_partial.

(* the Normalized Path of any existing node selects that node; of a missing location, nothing *)
Theorem C03_np_selects_node : forall d l v,
  doc_plain d = true -> lookup d l = Some v ->
  m_query (np_query l) d = Some [ {| inner := v; path := np l; ploc := l |} ].
Proof. exact requery_np. Qed.
Print Assumptions C03_np_selects_node.
Theorem C03_np_missing : forall d l,
  loc_plain l = true -> lookup d l = None -> m_query (np_query l) d = Some [].
Proof. exact requery_absent. Qed.
Print Assumptions C03_np_missing.

(* witness of the known finding D6: $["a"] reports $['"a"'] *)
Example D6_refuted :
  option_map (map (fun p => (path p, np (ploc p))))
    (m_query (GCons (SegSel (SelName [34; 97; 34]%N)) GNil) (JObj [([97]%N, JNum (NInt 1))]))
  = Some [([36; 91; 39; 34; 97; 34; 39; 93]%N, [36; 91; 39; 97; 39; 93]%N)].
Proof. vm_compute. reflexivity. Qed.

Example C03_example :
  option_map (map (fun p => (path p, np (ploc p))))
    (m_query (GCons (SegDesc (SegSel (SelIndex (-1)))) GNil)
             (JObj [([97]%N, JArr [JNum (NInt 1); JArr [JNum (NInt 2)]])]))
  = Some [([36; 91; 39; 97; 39; 93; 91; 49; 93]%N, [36; 91; 39; 97; 39; 93; 91; 49; 93]%N);
          ([36; 91; 39; 97; 39; 93; 91; 49; 93; 91; 48; 93]%N, [36; 91; 39; 97; 39; 93; 91; 49; 93; 91; 48; 93]%N)].
Proof. vm_compute. reflexivity. Qed.

(* non-vacuity of the re-query theorem, and np on a name that needs every kind of escape *)
Example C03_requery_example :
  let d := JObj [([97]%N, JArr [JNum (NInt 1); JArr [JNum (NInt 2)]])] in
  m_query (np_query [SName [97]%N; SIdx 1; SIdx 0]) d
  = Some [ {| inner := JNum (NInt 2); path := np [SName [97]%N; SIdx 1; SIdx 0]; ploc := [SName [97]%N; SIdx 1; SIdx 0] |} ]
  /\ np_decode (np [SName [39; 92; 10; 1; 233]%N; SIdx 10]) = Some [SName [39; 92; 10; 1; 233]%N; SIdx 10].
Proof. vm_compute. split; reflexivity. Qed.
