(* C03 — Each reported path is the Normalized Path of the reported node.  Statements only. *)
From Coq Require Import List NArith ZArith Bool.
From JP Require Import Base Ast Eval ValueModel Spec NormPath Known WellFormed Regex Entry PathFacts.
Import ListNotations.

(* the full statement (false of the code today: D6) *)
Definition C03_full_statement : Prop :=
  forall q d ps, m_query q d = Some ps -> Forall (fun p => path p = np (ploc p)) ps.

(* outside the known class D6: member names of the document need no escaping and the top-level
   name selectors are shorthand or single-quoted plain names; then, through every selector kind,
   negative indices, slices, wildcards, filters and the descendant segment, the reported path is
   the Normalized Path of the reported location *)
Theorem C03_path_is_np_partial : forall q d ps,
  segs_path_ok q = true -> doc_plain d = true ->
  m_query q d = Some ps -> Forall (fun p => path p = np (ploc p)) ps.
Proof. exact (fun q d => paths_are_normalized rx_model_search d q). Qed.
Print Assumptions C03_path_is_np_partial.

(* witness of the known finding D6: $["a"] reports $['"a"'] *)
Example D6_refuted :
  option_map (map (fun p => (path p, np (ploc p))))
    (m_query (GCons (SegSel (SelName [34; 97; 34]%N)) GNil) (JObj [([97]%N, JNum (NInt 1))]))
  = Some [([36; 91; 39; 34; 97; 34; 39; 93]%N, [36; 91; 39; 97; 39; 93]%N)].
Proof. vm_compute. reflexivity. Qed.

Example C03_example :
  option_map (map (fun p => (path p, np (ploc p))))
    (m_query (GCons (SegDesc (SegSel (SelIndex (-1)))) GNil)
             (JObj [([97]%N, JArr [JNum (NInt 1); JArr [JNum (NInt 2)]])]))
  = Some [([36; 91; 39; 97; 39; 93; 91; 49; 93]%N, [36; 91; 39; 97; 39; 93; 91; 49; 93]%N);
          ([36; 91; 39; 97; 39; 93; 91; 49; 93; 91; 48; 93]%N, [36; 91; 39; 97; 39; 93; 91; 49; 93; 91; 48; 93]%N)].
Proof. vm_compute. reflexivity. Qed.
