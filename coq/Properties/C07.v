(* C07 — Every string that is not a valid RFC 9535 query is rejected.  Statements only.
   The whole-language statement is kept visible and is NOT proved (partial): *)
From Coq Require Import List NArith ZArith Bool.
From JP Require Import Base Ast Peg Dec2Bin Known Build Concrete BuildFacts RejectFacts.
From JP.gen Require Import Grammar.
Import ListNotations.

Definition C07_full_statement : Prop :=
  forall s q, parse_query s = POk q -> rfc_parse s = RfcValid q \/ rfc_parse s = RfcExtension q.

(* proved parts, for every input string and every fuel: *)

(* whatever the parser model accepts is well-typed in the sense of RFC 9535 2.4.3 (a value-typed
   function is never a test, a logical-typed one never a comparable, arguments match the declared
   parameter types, arities are exact), unless it calls a function the RFC does not define *)
Theorem C07_typing_partial : forall fuel s q,
  parse_model fuel s = POk q -> x_segments q = false -> t_segments q = true.
Proof. exact accepted_is_well_typed. Qed.
Print Assumptions C07_typing_partial.

(* every integer of an index selector, a slice selector or a singular-query index of an accepted
   query is within the I-JSON range +-(2^53-1) *)
Theorem C07_int_range_partial : forall fuel s q, parse_model fuel s = POk q -> r_segments q = true.
Proof. exact accepted_ints_in_range. Qed.
Print Assumptions C07_int_range_partial.

Lemma blank_ends_rejected fuel s : str_eqb s (trim_blank s) = false -> parse_model fuel s = PErr.
Proof. intros H. unfold parse_model. rewrite H. reflexivity. Qed.
(* leading or trailing blank space is rejected *)
Theorem C07_blank_ends_rejected : forall fuel s,
  str_eqb s (trim_blank s) = false -> parse_model fuel s = PErr.
Proof. exact blank_ends_rejected. Qed.

(* whole classes of strings outside the language are rejected, through the generated grammar run
   by the PEG interpreter (RejectFacts.v; the proofs execute the grammar of this run):
   every string that does not begin with the root identifier $ ... *)
Theorem C07_no_root_rejected : forall s,
  match s with c :: _ => c <> 36%N | [] => True end -> parse_query s = PErr.
Proof. exact no_root_rejected. Qed.
Print Assumptions C07_no_root_rejected.
(* ... and every string in which $ is followed by a character that is neither '.', '[' nor blank
   space (whatever comes after it) *)
Theorem C07_bad_continuation_rejected : forall c rest,
  c <> 46%N -> c <> 91%N -> c <> 32%N -> c <> 9%N -> c <> 10%N -> c <> 13%N ->
  parse_query (36%N :: c :: rest) = PErr.
Proof. exact bad_continuation_rejected. Qed.
Print Assumptions C07_bad_continuation_rejected.

(* near-misses, evaluated inside Coq on the grammar of this run (a test, not the unbounded claim) *)
Definition rejected (s : str) : bool := match parse_query s with PErr => true | _ => false end.
Example C07_near_misses :
  forallb rejected
    [ [36; 46; 97; 32; 98]%N;                          (* $.a b *)
      [36; 91; 48; 49; 93]%N;                          (* $[01] *)
      [36; 91; 45; 48; 93]%N;                          (* $[-0] *)
      [36; 91; 57; 48; 48; 55; 49; 57; 57; 50; 53; 52; 55; 52; 48; 57; 57; 50; 93]%N;    (* $[9007199254740992] *)
      [36; 91; 63; 108; 101; 110; 103; 116; 104; 40; 64; 46; 97; 41; 93]%N;              (* $[?length(@.a)] *)
      [36; 91; 63; 64; 46; 42; 61; 61; 49; 93]%N;      (* $[?@.*==1] *)
      [36; 91; 63; 64; 91; 32; 39; 97; 39; 32; 93; 61; 61; 49; 93]%N;                    (* $[?@[ 'a' ]==1] *)
      [36; 46; 46]%N;                                  (* $.. *)
      [36; 32]%N;                                      (* "$ " *)
      [36; 91; 39; 97; 9; 98; 39; 93]%N                (* $['a<TAB>b'] *)
    ] = true.
Proof. vm_compute. reflexivity. Qed.
