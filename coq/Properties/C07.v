(* C07 — Every string that is not a valid RFC 9535 query is rejected.  Statements only.
   The whole-language statement is kept visible and is NOT proved (partial): *)
From Coq Require Import List NArith ZArith Bool.
From JP Require Import Base Ast Peg Dec2Bin Known Build Concrete BuildFacts FragParse FragBuild FragWs GenParse GenBuild FilterParse FilterBuild RejectFacts RejectMore RejectRange RejectBlank RejectTyping PegAlpha PegTree TokenFacts TokenMore TokenSeg TokenOps TokenStr IntCanon TopSegs.
From JP.gen Require Import Grammar.
Import ListNotations.

Definition C07_full_statement : Prop :=
  forall s q, parse_query s = POk q -> rfc_parse s = RfcValid q \/ rfc_parse s = RfcExtension q.

(* proved parts, for every input string and every fuel: *)

(* whatever the parser model accepts is well-typed in the sense of RFC 9535 2.4.3 (a value-typed
   function is never a test, a logical-typed one never a comparable, arguments match the declared
   parameter types, arities are exact), unless it calls a function the RFC does not define *)
Theorem C07_typing_partial : forall fuel s q,
  parse_model fuel s = POk q -> x_segments q = false -> t_segments q = true.
Proof. exact accepted_is_well_typed. Qed.
Print Assumptions C07_typing_partial.

(* every integer of an index selector, a slice selector or a singular-query index of an accepted
   query is within the I-JSON range +-(2^53-1) *)
Theorem C07_int_range_partial : forall fuel s q, parse_model fuel s = POk q -> r_segments q = true.
Proof. exact accepted_ints_in_range. Qed.
Print Assumptions C07_int_range_partial.

Lemma blank_ends_rejected fuel s : str_eqb s (trim_blank s) = false -> parse_model fuel s = PErr.
Proof. intros H. unfold parse_model. rewrite H. reflexivity. Qed.
(* leading or trailing blank space is rejected *)
Theorem C07_blank_ends_rejected : forall fuel s,
  str_eqb s (trim_blank s) = false -> parse_model fuel s = PErr.
Proof. exact blank_ends_rejected. Qed.

(* whole classes of strings outside the language are rejected, through the generated grammar run
   by the PEG interpreter (RejectFacts.v; the proofs execute the grammar of this run):
   every string that does not begin with the root identifier $ ... *)
Theorem C07_no_root_rejected : forall s,
  match s with c :: _ => c <> 36%N | [] => True end -> parse_query s = PErr.
Proof. exact no_root_rejected. Qed.
Print Assumptions C07_no_root_rejected.
(* ... and every string in which $ is followed by a character that is neither '.', '[' nor blank
   space (whatever comes after it) *)
Theorem C07_bad_continuation_rejected : forall c rest,
  c <> 46%N -> c <> 91%N -> c <> 32%N -> c <> 9%N -> c <> 10%N -> c <> 13%N ->
  parse_query (36%N :: c :: rest) = PErr.
Proof. exact bad_continuation_rejected. Qed.
Print Assumptions C07_bad_continuation_rejected.

(* ---- further classes, each closed under arbitrary continuation (RejectMore.v: the generated grammar is run on the
   fixed prefix with the rest of the string left symbolic; every alternative of every rule on the way fails before
   it can look at the rest) ---- *)

(* integers: leading zeros, -0, an explicit plus sign, a fraction in an index *)
Theorem C07_leading_zero_index_rejected : forall d rest,
  is_digit d = true -> parse_query (36%N :: 91%N :: 48%N :: d :: rest) = PErr.            (* $[0d... *)
Proof. exact leading_zero_index_rejected. Qed.
Print Assumptions C07_leading_zero_index_rejected.
Theorem C07_minus_zero_rejected : forall rest, parse_query (36%N :: 91%N :: 45%N :: 48%N :: rest) = PErr.   (* $[-0... *)
Proof. exact minus_zero_rejected. Qed.
Theorem C07_plus_sign_rejected : forall rest, parse_query (36%N :: 91%N :: 43%N :: rest) = PErr.            (* $[+... *)
Proof. exact plus_sign_rejected. Qed.
Theorem C07_index_fraction_rejected : forall rest, parse_query (36%N :: 91%N :: 49%N :: 46%N :: rest) = PErr.   (* $[1.... *)
Proof. exact index_fraction_rejected. Qed.
Theorem C07_leading_zero_literal_rejected : forall d rest,
  is_digit d = true -> parse_query (36%N :: 91%N :: 63%N :: 64%N :: 61%N :: 61%N :: 48%N :: d :: rest) = PErr.   (* $[?@==0d... *)
Proof. exact leading_zero_literal_rejected. Qed.
Theorem C07_literal_leading_point_rejected : forall rest,
  parse_query (36%N :: 91%N :: 63%N :: 64%N :: 61%N :: 61%N :: 46%N :: rest) = PErr.      (* $[?@==.... *)
Proof. exact literal_leading_point_rejected. Qed.

(* an index outside the I-JSON range, for EVERY such integer: the grammar accepts the digits, parser.rs rejects
   (parse::<i64> fails beyond the i64 range, validate_range inside it) *)
Theorem C07_index_out_of_range_rejected : forall z,
  ~ (MIN_VAL <= z <= MAX_VAL)%Z -> parse_query (36%N :: 91%N :: int_text z ++ [93%N]) = PErr.
Proof. exact index_out_of_range_rejected. Qed.
Print Assumptions C07_index_out_of_range_rejected.

(* blank space after the query (before it: C07_no_root_rejected), for every string and every blank character *)
Theorem C07_trailing_blank_rejected : forall s b, is_blank b = true -> parse_query (s ++ [b]) = PErr.
Proof. exact trailing_blank_rejected. Qed.
Print Assumptions C07_trailing_blank_rejected.

(* structure: empty brackets, an unquoted name in brackets, a shorthand name beginning with a digit, a quoted name
   right after the dot, three dots, the root twice, a stray closing bracket, a slice with a fourth part *)
Theorem C07_empty_brackets_rejected : forall rest, parse_query (36%N :: 91%N :: 93%N :: rest) = PErr.
Proof. exact empty_brackets_rejected. Qed.
Theorem C07_unquoted_name_rejected : forall c rest,
  (97 <= c <= 122)%N \/ (65 <= c <= 90)%N -> parse_query (36%N :: 91%N :: c :: rest) = PErr.
Proof. exact unquoted_name_rejected. Qed.
Theorem C07_shorthand_digit_rejected : forall d rest, is_digit d = true -> parse_query (36%N :: 46%N :: d :: rest) = PErr.
Proof. exact shorthand_digit_rejected. Qed.
Theorem C07_dot_quote_rejected : forall c rest, c = 39%N \/ c = 34%N -> parse_query (36%N :: 46%N :: c :: rest) = PErr.
Proof. exact dot_quote_rejected. Qed.
Theorem C07_triple_dot_rejected : forall rest, parse_query (36%N :: 46%N :: 46%N :: 46%N :: rest) = PErr.
Proof. exact triple_dot_rejected. Qed.
Theorem C07_double_root_rejected : forall rest, parse_query (36%N :: 36%N :: rest) = PErr.
Proof. exact double_root_rejected. Qed.
Theorem C07_stray_close_rejected : forall c rest, c = 93%N \/ c = 41%N -> parse_query (36%N :: c :: rest) = PErr.
Proof. exact stray_close_rejected. Qed.
Theorem C07_slice_four_parts_rejected : forall rest, parse_query (36%N :: 91%N :: 58%N :: 58%N :: 58%N :: rest) = PErr.
Proof. exact slice_four_parts_rejected. Qed.

(* strings: a bad escape, an unescaped control character *)
Theorem C07_bad_escape_rejected : forall rest, parse_query (36%N :: 91%N :: 39%N :: 92%N :: 120%N :: rest) = PErr.   (* $['\x... *)
Proof. exact bad_escape_rejected. Qed.
Theorem C07_control_char_rejected : forall c rest, (c < 32)%N -> parse_query (36%N :: 91%N :: 39%N :: c :: rest) = PErr.
Proof. exact control_char_rejected. Qed.

(* filters: empty, beginning with an operator, one half of a two-character operator (also: blank space inside ==),
   a comparison without right-hand side, literals in upper case *)
Theorem C07_empty_filter_rejected : forall rest, parse_query (36%N :: 91%N :: 63%N :: 93%N :: rest) = PErr.
Proof. exact empty_filter_rejected. Qed.
Theorem C07_filter_bad_start_rejected : forall c rest,
  c = 61%N \/ c = 60%N \/ c = 62%N \/ c = 41%N \/ c = 44%N \/ c = 38%N \/ c = 124%N ->
  parse_query (36%N :: 91%N :: 63%N :: c :: rest) = PErr.
Proof. exact filter_bad_start_rejected. Qed.
Theorem C07_single_equals_rejected : forall c rest,
  c <> 61%N -> parse_query (36%N :: 91%N :: 63%N :: 64%N :: 61%N :: c :: rest) = PErr.     (* $[?@=c... *)
Proof. exact single_equals_rejected. Qed.
Theorem C07_bang_alone_rejected : forall c rest,
  c <> 61%N -> parse_query (36%N :: 91%N :: 63%N :: 64%N :: 33%N :: c :: rest) = PErr.     (* $[?@!c... *)
Proof. exact bang_alone_rejected. Qed.
Theorem C07_single_amp_rejected : forall c rest,
  c <> 38%N -> parse_query (36%N :: 91%N :: 63%N :: 64%N :: 38%N :: c :: rest) = PErr.
Proof. exact single_amp_rejected. Qed.
Theorem C07_single_bar_rejected : forall c rest,
  c <> 124%N -> parse_query (36%N :: 91%N :: 63%N :: 64%N :: 124%N :: c :: rest) = PErr.
Proof. exact single_bar_rejected. Qed.
Theorem C07_missing_operand_rejected : forall rest,
  parse_query (36%N :: 91%N :: 63%N :: 64%N :: 61%N :: 61%N :: 93%N :: rest) = PErr.        (* $[?@==]... *)
Proof. exact missing_operand_rejected. Qed.
Theorem C07_uppercase_literal_rejected : forall c rest,
  (65 <= c <= 90)%N -> parse_query (36%N :: 91%N :: 63%N :: 64%N :: 61%N :: 61%N :: c :: rest) = PErr.   (* $[?@==True ... *)
Proof. exact uppercase_literal_rejected. Qed.
Print Assumptions C07_uppercase_literal_rejected.

(* ---- blank space where the RFC forbids it but the GRAMMAR accepts it (pest skips blanks implicitly between the parts
   of a non-atomic rule): the checks of parser.rs reject.  RejectBlank.v derives the successful run of the grammar,
   with the blank run consumed by the implicit skip, and then the walk of parser.rs that refuses the pair tree ---- *)

(* after the dot of a shorthand: $.<blanks>name<any filter-free continuation>, for every non-empty blank run, every
   shorthand name and every continuation *)
Theorem C07_blank_after_dot_rejected : forall w n q,
  blank_run w -> w <> [] -> name_ok n -> Forall seg_ok q ->
  parse_query (36%N :: 46%N :: w ++ n ++ segs_text q) = PErr.
Proof. exact blank_after_dot_rejected. Qed.
Print Assumptions C07_blank_after_dot_rejected.

(* after the two dots of a descendant segment: $..<blanks>name... *)
Theorem C07_blank_after_dotdot_rejected : forall w n q,
  blank_run w -> w <> [] -> name_ok n -> Forall seg_ok q ->
  parse_query (36%N :: 46%N :: 46%N :: w ++ n ++ segs_text q) = PErr.
Proof. exact blank_after_dotdot_rejected. Qed.
Print Assumptions C07_blank_after_dotdot_rejected.

(* between a function name and its opening parenthesis: $[?match<blanks>(@,'a')], for every non-empty blank run *)
Theorem C07_blank_after_function_name_rejected : forall b w,
  blank_b b = true -> blank_run w ->
  parse_query ([36; 91; 63; 109; 97; 116; 99; 104]%N ++ b :: w ++ [40; 64; 44; 39; 97; 39; 41; 93]%N) = PErr.
Proof. exact match_blank_rejected. Qed.
Print Assumptions C07_blank_after_function_name_rejected.

(* inside the brackets of a singular query in a comparison: $[?@[<blank> ... ]=..., for every bracketed selection with
   any layout whose first character after '[' is blank, and whatever follows the '=' *)
Theorem C07_blank_in_singular_bracket_rejected : forall b b0 s1 l blast rest,
  blank_b b = true -> lbracket_ok (b :: b0) s1 l blast ->
  parse_query (36%N :: 91%N :: 63%N :: 64%N :: lbracket_text (b :: b0) s1 l blast ++ 61%N :: rest) = PErr.
Proof. exact blank_in_singular_bracket_rejected. Qed.
Print Assumptions C07_blank_in_singular_bracket_rejected.

(* ---- ill-typed function calls, at string level.  The grammar accepts every call whatever the types of its arguments;
   TestFunction::try_new and the position checks of parser.rs refuse.  For EVERY call f of the five RFC functions over
   plain selectors whose arguments are themselves well-formed (RejectTyping.fn_refused): an argument of the wrong type
   (a non-singular query or a LogicalType call where ValueType is declared, a literal or a call where NodesType is
   declared), or a well-typed ValueType function (length, count, value) standing as a test -- the texts $[?f] and $[?!f]
   are rejected ---- *)
Theorem C07_illtyped_call_rejected : forall neg (f : xfn fsel),
  fok fsel sel_ok f -> fn_refused fsel plain_good sel_ast f ->
  parse_query (36%N :: 91%N :: 63%N :: (bang neg ++ ftext fsel sel_text f) ++ [93%N]) = PErr.
Proof. exact illtyped_call_rejected. Qed.
Print Assumptions C07_illtyped_call_rejected.

(* the premises are satisfiable:  length(@.* )  (non-singular query as ValueType),  count(1)  (literal as NodesType),
   match(@.a,@.* ),  and the well-typed  length(@.a)  as a test *)
Example C07_illtyped_examples :
  let qa := XAQuery fsel false [GShort fsel [97]%N] in
  let qw := XAQuery fsel false [GDotWild fsel] in
  fn_refused fsel plain_good sel_ast (XFn1 fsel FLength qw)
  /\ fn_refused fsel plain_good sel_ast (XFn1 fsel FCount (XALit fsel (XInt 1%Z)))
  /\ fn_refused fsel plain_good sel_ast (XFn2 fsel FMatch qa qw)
  /\ fn_refused fsel plain_good sel_ast (XFn1 fsel FLength qa)
  /\ ftext fsel sel_text (XFn2 fsel FMatch qa qw) = [109; 97; 116; 99; 104; 40; 64; 46; 97; 44; 64; 46; 42; 41]%N.
Proof.
  cbv zeta. repeat split.
  - apply refused_arg1; [repeat constructor|reflexivity].
  - apply refused_arg1; [cbn; unfold z_ok, MIN_VAL, MAX_VAL; split; discriminate|reflexivity].
  - apply refused_arg2; [left; reflexivity|repeat constructor|repeat constructor|right; reflexivity].
  - apply refused_value_fn; [split; [repeat constructor|reflexivity]|reflexivity].
Qed.

(* ---- for EVERY input string: an accepted query consists of visible characters and TAB / LF / CR only; a control character
   (below U+0020, other than those three) ANYWHERE in the input - not only at a fixed offset as above - is rejected.  The proof
   is generic (PegAlpha.v: what a successful match consumes is made of characters its terminals allow) and is instantiated
   on the grammar generated from the .pest file of this run, whose terminals are checked by computation, rule by rule. *)
Theorem C07_accepted_has_no_control_chars : forall s q,
  parse_query s = POk q -> forallb visible_or_blank s = true.
Proof. exact accepted_has_no_control_chars. Qed.
Print Assumptions C07_accepted_has_no_control_chars.
Theorem C07_control_char_anywhere_rejected : forall pre post c,
  visible_or_blank c = false -> parse_query (pre ++ c :: post) = PErr.
Proof. exact control_char_anywhere_rejected. Qed.
Print Assumptions C07_control_char_anywhere_rejected.
Example C07_control_chars_meant : visible_or_blank 0 = false /\ visible_or_blank 8 = false /\ visible_or_blank 31 = false
  /\ visible_or_blank 9 = true /\ visible_or_blank 32 = true /\ visible_or_blank 127 = true.
Proof. repeat split. Qed.

(* ---- for EVERY input string and EVERY token of the pair tree the grammar hands to parser.rs (PegTree.run_subtree: each pair
   of the tree is witnessed by a successful run of its own rule over its own span; TokenFacts.v inverts the rule):
   an [int] token - index selectors, slice parts, indices of singular queries - is "0" or an optional minus, a non-zero digit
   and digits: a leading zero or -0 is never tokenised as an integer, wherever it stands in the query;
   a [string] token - name selectors, string literals, names in singular queries - has no character below U+0020,
   TAB / LF / CR included. *)
Theorem C07_int_tokens_canonical : forall s st en kids,
  inforest rname (Pair R_int st en kids) (parse_tokens s) -> canon_int (slice s st en) = true.
Proof. exact int_token_canonical. Qed.
Print Assumptions C07_int_tokens_canonical.
Theorem C07_string_tokens_have_no_control_chars : forall s st en kids,
  inforest rname (Pair R_string st en kids) (parse_tokens s) -> forallb ge32 (slice s st en) = true.
Proof. exact string_token_no_control. Qed.
Print Assumptions C07_string_tokens_have_no_control_chars.
Example C07_canonical_means : (forall d r, canon_int (48%N :: d :: r) = false) /\ (forall r, canon_int (45%N :: 48%N :: r) = false)
  /\ canon_int [48%N] = true /\ canon_int [45; 49; 48]%N = true /\ canon_int [43; 49]%N = false /\ ge32 9 = false /\ ge32 32 = true.
Proof. repeat split. Qed.
Example C07_tokens_exist :
  inforest rname (Pair R_int 2 4 []) (parse_tokens ex_input) /\ inforest rname (Pair R_string 6 9 []) (parse_tokens ex_input)
  /\ slice ex_input 2 4 = [49; 50]%N /\ slice ex_input 6 9 = [39; 97; 39]%N.
Proof. exact tokens_exist. Qed.

(* more token facts, same method (TokenMore.v): shorthand names begin with a letter, `_` or a non-ASCII character and go on with
   those or digits (no digit first, no blank, no punctuation); function names are a lower-case letter followed by lower-case
   letters, digits and `_`; a number literal is a canonical integer or -0, optionally followed by a fraction and/or an exponent
   (so 01, -01, .5 are never number tokens); true / false / null tokens are exactly these words. *)
Theorem C07_shorthand_tokens_shape : forall s st en kids,
  inforest rname (Pair R_member_name_shorthand st en kids) (parse_tokens s) -> shorthand_ok (slice s st en).
Proof. exact shorthand_token_shape. Qed.
Print Assumptions C07_shorthand_tokens_shape.
Theorem C07_function_name_tokens_shape : forall s st en kids,
  inforest rname (Pair R_function_name st en kids) (parse_tokens s) -> fname_shape (slice s st en).
Proof. exact function_name_token_shape. Qed.
Print Assumptions C07_function_name_tokens_shape.
Theorem C07_number_tokens_shape : forall s st en kids,
  inforest rname (Pair R_number st en kids) (parse_tokens s) -> number_shape (slice s st en).
Proof. exact number_token_shape. Qed.
Print Assumptions C07_number_tokens_shape.
Theorem C07_number_tokens_no_leading_zero : forall d r, is_digit d = true -> ~ number_shape (48%N :: d :: r).
Proof. exact number_shape_no_leading_zero. Qed.
Theorem C07_bool_null_tokens_exact : forall s st en kids,
  (inforest rname (Pair R_bool st en kids) (parse_tokens s) ->
   slice s st en = [116; 114; 117; 101]%N \/ slice s st en = [102; 97; 108; 115; 101]%N)
  /\ (inforest rname (Pair R_null st en kids) (parse_tokens s) -> slice s st en = [110; 117; 108; 108]%N).
Proof. intros s st en kids. split; [apply bool_token_text|apply null_token_text]. Qed.
Print Assumptions C07_bool_null_tokens_exact.

(* the segments of singular queries (operands of comparisons, TokenSeg.v): an index_segment token is `[`, a canonical integer, `]`;
   a name_segment token is `[`, a string, `]` or `.` and a shorthand name - so no blank space and nothing else inside them *)
Theorem C07_index_segment_tokens_shape : forall s st en kids,
  inforest rname (Pair R_index_segment st en kids) (parse_tokens s) -> index_segment_shape (slice s st en).
Proof. exact index_segment_token_shape. Qed.
Print Assumptions C07_index_segment_tokens_shape.
Theorem C07_name_segment_tokens_shape : forall s st en kids,
  inforest rname (Pair R_name_segment st en kids) (parse_tokens s) -> name_segment_shape (slice s st en).
Proof. exact name_segment_token_shape. Qed.
Print Assumptions C07_name_segment_tokens_shape.
Theorem C07_no_blank_after_bracket_in_index_segment : forall b r, is_blank b = true -> ~ index_segment_shape (91%N :: b :: r).
Proof. exact index_segment_no_blank_after_bracket. Qed.

Theorem C07_comp_op_tokens : forall s st en kids,
  inforest rname (Pair R_comp_op st en kids) (parse_tokens s) -> In (slice s st en) comp_ops.
Proof. exact comp_op_token_text. Qed.
Print Assumptions C07_comp_op_tokens.

(* an integer token that parse::<i64> reads as z IS the canonical decimal text of z (IntCanon.v: a digit string without a leading
   zero is the rendering of its value): no other spelling - 01, -0, +1, 1e0 - is ever read as an integer, for every input *)
Theorem C07_int_token_read_as_z_is_the_text_of_z : forall s st en kids z,
  inforest rname (Pair R_int st en kids) (parse_tokens s) -> parse_i64 (slice s st en) = Some z -> slice s st en = int_text z.
Proof. exact int_token_round_trip. Qed.
Print Assumptions C07_int_token_read_as_z_is_the_text_of_z.

Theorem C07_string_tokens_quoted : forall s st en kids,
  inforest rname (Pair R_string st en kids) (parse_tokens s) -> quoted_shape (slice s st en).
Proof. exact string_token_quoted. Qed.
Print Assumptions C07_string_tokens_quoted.

(* blank space after the dot(s) of a segment is accepted by the GRAMMAR (implicit skipping) and refused by parser.rs: for EVERY
   input the parser accepts, no top-level segment of the query has a blank right after its `.` or `..` (TopSegs.v) *)
Theorem C07_no_blank_after_dot_in_accepted_query : forall s q,
  parse_query s = POk q -> Forall (seg_dot_ok s) (top_segments s).
Proof. exact accepted_top_segments_dot_ok. Qed.
Print Assumptions C07_no_blank_after_dot_in_accepted_query.
Example C07_top_segments_example : length (top_segments [36; 46; 97; 46; 46; 98]%N) = 2%nat.
Proof. exact top_segments_example. Qed.

(* near-misses, evaluated inside Coq on the grammar of this run (a test, not the unbounded claim) *)
Definition rejected (s : str) : bool := match parse_query s with PErr => true | _ => false end.
Example C07_near_misses :
  forallb rejected
    [ [36; 46; 97; 32; 98]%N;                          (* $.a b *)
      [36; 91; 48; 49; 93]%N;                          (* $[01] *)
      [36; 91; 45; 48; 93]%N;                          (* $[-0] *)
      [36; 91; 57; 48; 48; 55; 49; 57; 57; 50; 53; 52; 55; 52; 48; 57; 57; 50; 93]%N;    (* $[9007199254740992] *)
      [36; 91; 63; 108; 101; 110; 103; 116; 104; 40; 64; 46; 97; 41; 93]%N;              (* $[?length(@.a)] *)
      [36; 91; 63; 64; 46; 42; 61; 61; 49; 93]%N;      (* $[?@.*==1] *)
      [36; 91; 63; 64; 91; 32; 39; 97; 39; 32; 93; 61; 61; 49; 93]%N;                    (* $[?@[ 'a' ]==1] *)
      [36; 46; 46]%N;                                  (* $.. *)
      [36; 32]%N;                                      (* "$ " *)
      [36; 91; 39; 97; 9; 98; 39; 93]%N                (* $['a<TAB>b'] *)
    ] = true.
Proof. vm_compute. reflexivity. Qed.
