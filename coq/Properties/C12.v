(* C12 — Entry points agree and evaluation is a pure function.  Statements only.
   Partial by nature: that the crate behaves like the stateless machine below under every thread
   schedule is a runtime fact; what is proved is (a) the obligation, regenerated from the source on
   every run, that there is nothing in src/ that could hold state between calls or be shared
   between threads, and (b) the consequences of statelessness for the model.  Schedules are
   sampled by the S-hist stream (16 threads sharing one parsed query and one document). *)
From Coq Require Import List NArith ZArith Bool.
From JP Require Import Base Ast Eval ValueModel Spec Known Regex Entry Build Purity Properties.C01.
From JP.gen Require Import Footprint.
Import ListNotations.

(* generated obligation: no static mut, no static of interior-mutable type, no thread_local!,
   lazy_static!, Mutex, RwLock, RefCell, Cell, Once*, Lazy*, Atomic*, UnsafeCell, unsafe in src/ *)
Theorem C12_no_shared_state : footprint = [].
Proof. reflexivity. Qed.
Print Assumptions C12_no_shared_state.

(* query, query_only_path and query_with_path return the same nodes position by position, and a
   query parsed once gives what parsing at every call gives *)
Theorem C12_entry_points : forall s d,
  api_query s d = option_map (map fst) (api_with_path s d)
  /\ api_only_path s d = option_map (map snd) (api_with_path s d)
  /\ (forall q, parse_query s = POk q -> api_with_path s d = api_prepared q d).
Proof. exact entry_points_agree. Qed.

(* in every history, after any prefix of other queries and documents, an operation returns what
   it returns alone *)
Theorem C12_history_independent : forall pre post o st,
  nth_error (run_history st (pre ++ o :: post)) (length pre) = Some (eval_op o).
Proof. exact history_position. Qed.
Print Assumptions C12_history_independent.

(* the document is only read: every returned value is the node at its location (C01_borrow) *)
Theorem C12_doc_only_read : forall q d ps,
  WellFormed.wf_query q = true -> wf_json d = true -> m_query q d = Some ps ->
  Forall (fun p => lookup d (ploc p) = Some (inner p)) ps.
Proof. exact C01_borrow. Qed.
