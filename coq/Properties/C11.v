(* C11 — Index and slice arithmetic is exact for all bounds and lengths.
   Only statements here; every proof is [exact lemma].  The model functions are the hand model of
   src/query/selector.rs (process_index, process_slice), generic over the Queryable instance. *)
From Coq Require Import List ZArith.
From JP Require Import Base Ast Eval Spec SliceFacts IndexFacts ValueModel Entry DataFacts SelFacts Build Purity FragParse FragBuild StringLevel.
Import ListNotations.
Open Scope Z_scope.

(* the while-loops of process_slice produce exactly the RFC 9535 2.3.4.2.2 index sequence,
   for every array length and every (start, end, step) in (Z u {absent})^3 *)
Theorem C11_slice : forall len start end_ step,
  0 <= len -> slice_indices len start end_ step = rfc_slice len start end_ step.
Proof. exact slice_indices_rfc. Qed.
Print Assumptions C11_slice.

Theorem C11_slice_in_bounds : forall len start end_ step i,
  0 <= len -> In i (rfc_slice len start end_ step) -> 0 <= i < len.
Proof. exact rfc_slice_in_bounds. Qed.
Print Assumptions C11_slice_in_bounds.

(* at the node level, for any Queryable: the selected pointers are the elements at those indices,
   in that order, with the index as path step and location *)
Theorem C11_slice_nodes : forall T (Q : qops T) (p : ptr T) arr s e st,
  q_as_array Q (inner p) = Some arr ->
  process_slice Q p s e st =
    DRefs (flat_map (fun j => match nth_error arr (Z.to_nat j) with
                              | Some v => [ptr_idx v (path p) (ploc p) (Z.to_nat j)]
                              | None => []
                              end)
             (rfc_slice (Z.of_nat (length arr)) s e st)).
Proof. exact process_slice_rfc. Qed.
Print Assumptions C11_slice_nodes.

Theorem C11_slice_non_array : forall T (Q : qops T) (p : ptr T) s e st,
  q_as_array Q (inner p) = None -> process_slice Q p s e st = DNothing.
Proof. exact process_slice_non_array. Qed.

Theorem C11_step_zero : forall len s e, rfc_slice len s e (Some 0) = [].
Proof. exact rfc_slice_step_zero. Qed.

Theorem C11_index : forall T (Q : qops T) (p : ptr T) arr i,
  q_as_array Q (inner p) = Some arr ->
  process_index Q p i =
    match rfc_index (Z.of_nat (length arr)) i with
    | Some j =>
        match nth_error arr (Z.to_nat j) with
        | Some e => DRef (ptr_idx e (path p) (ploc p) (Z.to_nat j))
        | None => DNothing
        end
    | None => DNothing
    end.
Proof. exact process_index_rfc. Qed.
Print Assumptions C11_index.

Theorem C11_index_non_array : forall T (Q : qops T) (p : ptr T) i,
  q_as_array Q (inner p) = None -> process_index Q p i = DNothing.
Proof. exact process_index_non_array. Qed.

(* both while-loops stop by themselves within len iterations *)
Theorem C11_slice_terminates : forall len start end_ step extra,
  0 <= len ->
  let norm := fun i : Z => if Z.leb 0 i then i else len + i in
  let e := opt_or step 1 in
  (0 < e ->
   let lower := Z.min (Z.max (norm (opt_or start 0)) 0) len in
   let upper := Z.min (Z.max (norm (opt_or end_ len)) 0) len in
   up_loop (S (Z.to_nat len) + extra) lower upper e = up_loop (S (Z.to_nat len)) lower upper e) /\
  (e < 0 ->
   let lower := Z.min (Z.max (norm (opt_or end_ (- len - 1))) (-1)) (len - 1) in
   let upper := Z.min (Z.max (norm (opt_or start (len - 1))) (-1)) (len - 1) in
   down_loop (S (Z.to_nat len) + extra) upper lower e = down_loop (S (Z.to_nat len)) upper lower e).
Proof. exact slice_loops_terminate. Qed.
Print Assumptions C11_slice_terminates.

(* string level, end to end: the TEXT `$[start:end:step]` -- any subset of the three parts, any integers of the
   I-JSON range -- goes through the generated grammar (slice_selector tried before index_selector), parser.rs
   (validate_range on each part) and process_slice, and returns exactly the elements at the index sequence of
   RFC 9535 2.3.4.2.2, in that order (list equality), on every document; nothing on a non-array *)
Theorem C11_string_level_slice : forall a b c (d : json),
  oz_ok a -> oz_ok b -> oz_ok c -> wf_json d = true ->
  exists ps,
    api_with_path (36%N :: 91%N :: sel_text (FSlice a b c) ++ [93%N]) d = Some (map (fun p => (inner p, path p)) ps)
    /\ map node_of ps = sel_slice a b c ([], d).
Proof. exact slice_string_level. Qed.
Print Assumptions C11_string_level_slice.

(* the TEXT `$[i]`: element i, or len+i for negative i, nothing when out of range or on a non-array *)
Theorem C11_string_level_index : forall i (d : json),
  z_ok i -> wf_json d = true ->
  exists ps,
    api_with_path (36%N :: 91%N :: sel_text (FIndex i) ++ [93%N]) d = Some (map (fun p => (inner p, path p)) ps)
    /\ map node_of ps = sel_index i ([], d).
Proof. exact index_string_level. Qed.
Print Assumptions C11_string_level_index.

(* $[5:1:-2] and $[-2] on [0,1,2,3,4,5,6], through the string-level model *)
Example C11_string_level_example :
  let d := JArr (map (fun k => JNum (NInt k)) [0; 1; 2; 3; 4; 5; 6]) in
  sel_text (FSlice (Some 5) (Some 1) (Some (-2))) = [53; 58; 49; 58; 45; 50]%N
  /\ option_map (map fst) (api_with_path (36%N :: 91%N :: sel_text (FSlice (Some 5) (Some 1) (Some (-2))) ++ [93%N]) d)
     = Some [JNum (NInt 5); JNum (NInt 3)]
  /\ option_map (map fst) (api_with_path (36%N :: 91%N :: sel_text (FIndex (-2)) ++ [93%N]) d) = Some [JNum (NInt 5)].
Proof. vm_compute. repeat split; reflexivity. Qed.

(* non-vacuity and RFC 9535 table 9 / 2.3.4.3 examples on a 7-element array *)
Example C11_rfc_examples :
  rfc_slice 7 (Some 1) (Some 3) None = [1; 2]
  /\ rfc_slice 7 (Some 5) None None = [5; 6]
  /\ rfc_slice 7 (Some 1) (Some 5) (Some 2) = [1; 3]
  /\ rfc_slice 7 (Some 5) (Some 1) (Some (-2)) = [5; 3]
  /\ rfc_slice 7 None None (Some (-1)) = [6; 5; 4; 3; 2; 1; 0]
  /\ slice_indices 7 (Some (-9007199254740991)) (Some 9007199254740991) (Some 9007199254740991) = [0]
  /\ rfc_index 7 (-2) = Some 5 /\ rfc_index 7 7 = None /\ rfc_index 7 (-8) = None.
Proof. vm_compute. repeat split. Qed.
