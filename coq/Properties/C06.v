(* C06 — Every valid RFC 9535 query is accepted by the parser.  Statements only.
   The whole-language statement is kept visible and is NOT proved (partial): *)
From Coq Require Import List NArith ZArith Bool.
From JP Require Import Base Ast Peg Dec2Bin Known Build Concrete BuildFacts NormPath Reference NpParse NpBuild FragParse FragBuild FragWs FragWsBuild GenParse GenBuild FilterParse FilterBuild FilterFacts StrParse StrBuild NumParse.
From JP.gen Require Import Grammar.
Import ListNotations.

Definition C06_full_statement : Prop :=
  forall s q, rfc_parse s = RfcValid q -> parse_query s = POk q.

(* proved part: the typing layer of parser.rs / model.rs accepts every well-typed call of a
   function the RFC defines (2.4.3), with exactly the AST the reference recogniser builds *)
Theorem C06_typing_partial : forall f,
  t_tfun f = true ->
  match f with
  | FnLength a => tfun_try_new s_length [a] = Some f
  | FnValue a => tfun_try_new s_value [a] = Some f
  | FnCount a => tfun_try_new s_count [a] = Some f
  | FnSearch a b => tfun_try_new s_search [a; b] = Some f
  | FnMatch a b => tfun_try_new s_match [a; b] = Some f
  | FnCustom _ _ => True
  end.
Proof. exact try_new_accepts_well_typed. Qed.
Print Assumptions C06_typing_partial.

(* proved part, whole pipeline (generated grammar run by the PEG interpreter, then parser.rs): an
   infinite sublanguage is accepted and read as the right AST -- every Normalized Path, for every
   number of steps, every name made of Unicode scalar values that need no escaping (any length)
   and every index up to 2^53-1.  The proof executes the grammar of THIS run symbolically
   (NpParse.v), so an edit of the .pest file that changes how such a path is read breaks it. *)
Theorem C06_normalized_paths_partial : forall l,
  Forall plain_step l -> Forall step_in_range l -> parse_query (np l) = POk (np_query l).
Proof. exact parse_np. Qed.
Print Assumptions C06_normalized_paths_partial.

Example C06_normalized_paths_example :
  let l := [SName [97; 32; 233; 128512]%N; SIdx 0; SIdx 1234; SName []] in
  Forall plain_step l /\ Forall step_in_range l /\ parse_query (np l) = POk (np_query l).
Proof.
  split; [repeat constructor|]. split; [repeat constructor; unfold MAX_VAL; cbn; discriminate|].
  vm_compute. reflexivity.
Qed.

(* proved part, whole pipeline: the entire FILTER-FREE sublanguage in its canonical compact spelling.
   A query is a list of segments (FragParse.fseg): bracketed selections [s1,...,sn] (n >= 1), shorthand
   .name, .*, and their descendant forms ..[...], ..name, ..*; a selector (fsel) is a single-quoted name of
   unescaped scalar values, *, an index, or a slice with any subset of its three parts.  For every such
   query, of any length, with any integers in the I-JSON range, the PEG interpreter over the grammar of
   THIS run followed by the model of parser.rs returns exactly its AST (FragBuild.parse_frag: symbolic
   execution with the deterministic rules of PegFacts.v; every backtracking step of the ordered choices --
   e.g. slice-selector tried and abandoned before index-selector -- is part of the proof). *)
Theorem C06_filter_free_partial : forall q,
  Forall seg_ok q -> Forall seg_range q -> parse_query (36%N :: segs_text q) = POk (query_ast q).
Proof. exact parse_frag. Qed.
Print Assumptions C06_filter_free_partial.

(* $..book[0,1:3,-1:]['a b'].*..[*][::-2] *)
Example C06_filter_free_example :
  let q := [FDescShort [98; 111; 111; 107]%N;
            FBracket (FIndex 0) [FSlice (Some 1) (Some 3) None; FSlice (Some (-1)) None None]%Z;
            FBracket (FName [97; 32; 98]%N) []; FDotWild; FDescBracket FWild [];
            FBracket (FSlice None None (Some (-2))%Z) []] in
  segs_text q = [46;46;98;111;111;107; 91;48;44;49;58;51;44;45;49;58;93; 91;39;97;32;98;39;93; 46;42;
                 46;46;91;42;93; 91;58;58;45;50;93]%N
  /\ parse_query (36%N :: segs_text q) = POk (query_ast q).
Proof. vm_compute. split; reflexivity. Qed.

(* ... and with ALL optional blank space: runs of space, tab, LF, CR of any length at every place where the
   RFC allows S -- before every segment, after '[', before ']', on both sides of ',' and of the colons of a
   slice (FragWs.lquery carries the runs; [lq_ok] says they are blank and canonically attributed) -- the query
   is accepted and read as the AST of its compact spelling *)
Theorem C06_filter_free_blanks_partial : forall q,
  lq_ok q -> lq_range q -> parse_query (36%N :: lq_text q) = POk (query_ast (lq_strip q)).
Proof. exact parse_lfrag. Qed.
Print Assumptions C06_filter_free_blanks_partial.

(* $ [ 0 ,<TAB>1 : 3 ]<LF>..[ * ] .a *)
Example C06_blanks_example :
  let q := [([32]%N, LBracket [32]%N (LPlain (FIndex 0%Z))
                       [([32]%N, [9]%N, LSlice (Some 1%Z) (Some 3%Z) None [32]%N [32]%N [32]%N [])] []);
            ([10]%N, LDescBracket [32]%N (LPlain FWild) [] [32]%N);
            ([32]%N, LShort [97]%N)] in
  lq_text q = [32;91;32;48;32;44;9;49;32;58;32;51;32;93;10;46;46;91;32;42;32;93;32;46;97]%N
  /\ parse_query (36%N :: lq_text q) = POk (query_ast (lq_strip q))
  /\ parse_query (36%N :: lq_text q) = parse_query (36%N :: segs_text (lq_strip q)).
Proof. vm_compute. repeat split; reflexivity. Qed.

(* ... and WITH FILTERS, nested to any depth n.  [SelT n] are the selectors of nesting depth n: a plain
   selector, or a filter selector ?e whose logical expression e (FilterParse.xatom: an or-list of and-lists of
   atoms) combines existence tests @q / $q, comparisons between singular queries and int / string / true /
   false / null literals with the six operators, negation, parentheses, && and ||, where the queries q of the
   tests are again segment lists over [SelT (n-1)]; and CALLS of the five functions of the RFC (FilterParse.xfn):
   length / count / value as comparables, match / search as tests, with literals, queries and nested calls as
   arguments, for every well-typed combination ([fgood]: FnArg::is_value_type / is_nodes_type of model.rs hold
   of the arguments).  For every such query in canonical spelling the PEG
   interpreter over the grammar of this run and the model of parser.rs return exactly its AST
   (FilterFacts.parse_filter).  The proof goes through the ordered choices of the grammar as the parser does:
   e.g. at every existence test, `comp_expr` is tried first, reads the singular prefix of the query as a
   comparable, finds no operator and is abandoned (FilterParse.comp_expr_fails_test).  Not covered: float
   literals, escapes, double quotes, blank space inside filters, logical expressions as function arguments. *)
Theorem C06_with_filters_partial : forall n (q : list (gseg (SelT n))),
  Forall (gseg_ok (SelT n) (sokT n)) q -> Forall (gseg_good (SelT n) (sgoodT (fun _ => True) n)) q ->
  parse_query (36%N :: gsegs_text (SelT n) (stextT n) q)
  = POk (segments_of_list (map (gseg_ast (SelT n) (sastT n)) q)).
Proof. exact (parse_filter (fun _ => True)). Qed.
Print Assumptions C06_with_filters_partial.

(* $[?@.a==1&&!(@.b||$.c[0])].x[?@['k']<'z'] *)
Definition ex_e1 : list (list (xatom (SelT 0))) :=
  [[XCmp _ OpEq (XCB _ (XCSq false [SQShort [97]%N])) (XCB _ (XCLit (XInt 1%Z)));
    XParen _ true [[XTest _ false false [GShort _ [98]%N]];
                   [XTest _ false true [GShort _ [99]%N; GBracket _ (FIndex 0%Z) []]]]]].
Definition ex_e2 : list (list (xatom (SelT 0))) :=
  [[XCmp _ OpLt (XCB _ (XCSq false [SQName [107]%N])) (XCB _ (XCLit (XStr [122]%N)))]].
Definition ex_q1 : list (gseg (SelT 1)) := [GBracket _ (inr ex_e1) []; GShort _ [120]%N; GBracket _ (inr ex_e2) []].
Example C06_with_filters_example :
  gsegs_text (SelT 1) (stextT 1) ex_q1
  = [91;63;64;46;97;61;61;49;38;38;33;40;64;46;98;124;124;36;46;99;91;48;93;41;93;46;120;91;63;64;91;39;107;39;93;60;39;122;39;93]%N
  /\ parse_query (36%N :: gsegs_text (SelT 1) (stextT 1) ex_q1)
     = POk (segments_of_list (map (gseg_ast (SelT 1) (sastT 1)) ex_q1)).
Proof. vm_compute. split; reflexivity. Qed.


(* $[?length(@.a)>=2&&match(@.b,'x.*')].c[?count(@.. * )==value($.n)||!search(@,$.p)]   (no blanks in the text itself) *)
Definition ex_f1 : list (list (xatom (SelT 0))) :=
  [[XCmp _ OpGe (XCF _ (XFn1 _ FLength (XAQuery _ false [GShort _ [97]%N]))) (XCB _ (XCLit (XInt 2%Z)));
    XFnTest _ false (XFn2 _ FMatch (XAQuery _ false [GShort _ [98]%N]) (XALit _ (XStr [120; 46; 42]%N)))]].
Definition ex_f2 : list (list (xatom (SelT 0))) :=
  [[XCmp _ OpEq (XCF _ (XFn1 _ FCount (XAQuery _ false [GDescWild _])))
                (XCF _ (XFn1 _ FValue (XAQuery _ true [GShort _ [110]%N])))];
   [XFnTest _ true (XFn2 _ FSearch (XAQuery _ false []) (XAQuery _ true [GShort _ [112]%N]))]].
Definition ex_q2 : list (gseg (SelT 1)) := [GBracket _ (inr ex_f1) []; GShort _ [99]%N; GBracket _ (inr ex_f2) []].
Example C06_with_functions_example :
  gsegs_text (SelT 1) (stextT 1) ex_q2
  = [91;63;108;101;110;103;116;104;40;64;46;97;41;62;61;50;38;38;109;97;116;99;104;40;64;46;98;44;39;120;46;42;39;41;93;
     46;99;
     91;63;99;111;117;110;116;40;64;46;46;42;41;61;61;118;97;108;117;101;40;36;46;110;41;124;124;33;115;101;97;114;99;104;40;64;44;36;46;112;41;93]%N
  /\ parse_query (36%N :: gsegs_text (SelT 1) (stextT 1) ex_q2)
     = POk (segments_of_list (map (gseg_ast (SelT 1) (sastT 1)) ex_q2)).
Proof. vm_compute. split; reflexivity. Qed.

(* proved part, whole pipeline: the STRING sublanguage in full.  A string body is a list of items (StrParse.sitem):
   an unescaped character (the five ranges of the RFC), the other quote character as it is, the own quote escaped,
   \b \f \n \r \t \/ \\, \uXXXX for every non-surrogate (first hex digit not D/d, or D/d followed by 0-7; hex digits
   in upper or lower case), and surrogate pairs \uD8..-\uDB.. \uDC..-\uDF..; in single or double quotes.  For EVERY
   such string, of any length, the generated grammar and parser.rs accept it as a name selector and as a comparison
   literal and read it as itself (parser.rs keeps the raw spelling of a name and the raw body of a literal) *)
Theorem C06_every_string_as_name_partial : forall dq its,
  Forall item_ok its ->
  parse_query (36%N :: 91%N :: string_text dq its ++ [93%N])
  = POk (GCons (SegSel (SelName (string_text dq its))) GNil).
Proof. exact string_name_selector_accepted. Qed.
Print Assumptions C06_every_string_as_name_partial.

Theorem C06_every_string_as_literal_partial : forall dq its,
  Forall item_ok its ->
  parse_query ([36; 91; 63; 64; 61; 61]%N ++ string_text dq its ++ [93%N])
  = POk (GCons (SegSel (SelFilter (FAtom (ACmp OpEq (CSq (SqCur [])) (CLit (LStr (body_text dq its))))))) GNil).
Proof. exact string_literal_accepted. Qed.
Print Assumptions C06_every_string_as_literal_partial.

(* "\uD83D\uDe00 \u00E9 it's \"x\" \\ \/ \n" in double quotes: a surrogate pair with mixed-case hex, a BMP escape, the
   other quote, the own quote escaped, backslash, solidus, newline escape *)
Example C06_string_example :
  let its := [IUPair 68 56 51 68 68 101 48 48; IPlain 32; IU 48 48 69 57; IPlain 32; IPlain 105; IPlain 116; IOther; IPlain 115;
              IPlain 32; IEscQ; IPlain 120; IEscQ; IPlain 32; IEsc 92; IPlain 32; IEsc 47; IPlain 32; IEsc 110]%N in
  Forall item_ok its
  /\ string_text true its
     = [34; 92;117;68;56;51;68; 92;117;68;101;48;48; 32; 92;117;48;48;69;57; 32; 105;116;39;115; 32; 92;34;120;92;34; 32; 92;92; 32; 92;47; 32; 92;110; 34]%N
  /\ parse_query (36%N :: 91%N :: string_text true its ++ [93%N]) = POk (GCons (SegSel (SelName (string_text true its))) GNil).
Proof. split; [repeat constructor|]. vm_compute. split; reflexivity. Qed.

(* proved part, whole pipeline: NUMBER literals in every format of the grammar.  A number (NumParse.v) is an integer part
   (any integer, or -0), an optional fraction (one or more digits) and an optional exponent (e or E, optional sign, one
   or more digits).  Every number that has a fraction or an exponent -- of any length, with leading zeros in the
   exponent, with -0 -- whose value is finite is accepted as a comparison literal and read as the binary64 nearest to
   its decimal value (num_value_spec: Dec2Bin.dec_to_f64 of the digits and the decimal exponent, as f64::from_str);
   numbers without fraction and exponent are the integers of C06_with_filters_partial *)
Theorem C06_every_number_as_literal_partial : forall i f e d,
  frac_ok f -> expo_ok e -> f <> None \/ e <> None -> num_value i f e = Some d ->
  parse_query ([36; 91; 63; 64; 61; 61]%N ++ num_text i f e ++ [93%N])
  = POk (GCons (SegSel (SelFilter (FAtom (ACmp OpEq (CSq (SqCur [])) (CLit (LFloat d)))))) GNil).
Proof. exact number_literal_accepted. Qed.
Print Assumptions C06_every_number_as_literal_partial.

(* -12.50E+02 = -1250;  1e-0 = 1;  -0.0  (mantissa, binary exponent) *)
Example C06_number_examples :
  num_text (IZ (-12)) (Some (53%N, [48%N])) (Some (true, EPlus, (48%N, [50%N]))) = [45; 49; 50; 46; 53; 48; 69; 43; 48; 50]%N
  /\ num_value (IZ (-12)) (Some (53%N, [48%N])) (Some (true, EPlus, (48%N, [50%N]))) = Some (-5497558138880000, -42)%Z
  /\ num_value (IZ 1) None (Some (false, EMinus, (48%N, []))) = Some (4503599627370496, -52)%Z
  /\ num_value INegZero (Some (48%N, [])) None = Some (0, 0)%Z.
Proof. vm_compute. repeat split; reflexivity. Qed.

(* the parser model, over the grammar generated from the .pest file of this run, accepts the
   RFC's own examples and builds the reference AST (evaluated inside Coq: a test, not the
   unbounded claim) *)
Definition str_of_ascii (l : list nat) : str := map N.of_nat l.
Definition accepted_same (s : str) : bool :=
  match rfc_parse s, parse_query s with
  | RfcValid q, POk q' => true
  | _, _ => false
  end.
Example C06_rfc_examples :
  forallb accepted_same
    [ [36]%N;                                                        (* $ *)
      [36; 46; 115; 116; 111; 114; 101; 46; 98; 111; 111; 107; 91; 42; 93; 46; 97]%N;   (* $.store.book[*].a *)
      [36; 46; 46; 97]%N;                                            (* $..a *)
      [36; 46; 46; 98; 91; 45; 49; 93]%N;                            (* $..b[-1] *)
      [36; 91; 48; 44; 49; 93]%N;                                    (* $[0,1] *)
      [36; 91; 58; 50; 93]%N;                                        (* $[:2] *)
      [36; 91; 63; 64; 46; 105; 93]%N;                               (* $[?@.i] *)
      [36; 91; 63; 64; 46; 112; 60; 49; 48; 93]%N;                   (* $[?@.p<10] *)
      [36; 46; 46; 42]%N;                                            (* $..* *)
      [36; 91; 39; 92; 117; 50; 54; 51; 97; 39; 93]%N;               (* $['☺'] *)
      [36; 91; 63; 108; 101; 110; 103; 116; 104; 40; 64; 46; 97; 41; 62; 61; 50; 93]%N;   (* $[?length(@.a)>=2] *)
      [36; 32; 91; 32; 39; 97; 39; 32; 44; 32; 49; 32; 58; 32; 50; 32; 93]%N              (* $ [ 'a' , 1 : 2 ] *)
    ] = true.
Proof. vm_compute. reflexivity. Qed.
