(* C02 — Results are in RFC 9535 document order, duplicates preserved.  Statements only. *)
From Coq Require Import List NArith ZArith Bool Permutation.
From JP Require Import Base Ast Eval ValueModel Spec Known WellFormed Regex Entry DataFacts SelFacts
  Refine Order SpecFacts RegexFacts Build Purity FragParse FragBuild StringLevel SingularFacts SingularOrder.
Import ListNotations.

(* the full statement (false of the code today: D1) *)
Definition C02_order_full_statement : Prop :=
  forall q d, wf_query q = true ->
  exists ps, m_query q d = Some ps /\ map node_of ps = rfc_query q d.

(* D1, exactly: the code's sequence is the selector-major semantics, for every query *)
Theorem C02_D1_exact : forall q d,
  wf_query q = true -> exists ps, m_query q d = Some ps /\ map node_of ps = cur_query q d.
Proof. exact (js_path_process_refines rx_model_search rx_spec_full rx_spec_sub rx_model_full_ok rx_model_sub_ok). Qed.
Print Assumptions C02_D1_exact.

Lemma C02_partial_lemma q d :
  wf_query q = true -> segs_single q = true ->
  exists ps, m_query q d = Some ps /\ map node_of ps = rfc_query q d.
Proof.
  intros Hw Hs. destruct (C02_D1_exact q d Hw) as [ps [E1 E2]]. exists ps. split; [exact E1|].
  rewrite E2. apply (single_selector_order rx_spec_full rx_spec_sub jeqb d q Hs).
Qed.
(* outside the known class: no top-level multi-selector segment => RFC order, position by position *)
Theorem C02_order_partial : forall q d,
  wf_query q = true -> segs_single q = true ->
  exists ps, m_query q d = Some ps /\ map node_of ps = rfc_query q d.
Proof. exact C02_partial_lemma. Qed.
Print Assumptions C02_order_partial.

Lemma C02_classifier_lemma q d :
  wf_query q = true -> cur_query q d = rfc_query q d ->
  exists ps, m_query q d = Some ps /\ map node_of ps = rfc_query q d.
Proof.
  intros Hw Hc. destruct (C02_D1_exact q d Hw) as [ps [E1 E2]]. exists ps. split; [exact E1|].
  rewrite E2. exact Hc.
Qed.
(* the check's executable classifier: whenever the two semantics agree on (q, d) the model's order
   is the RFC's; a case is in class D1 iff they differ *)
Theorem C02_classifier : forall q d,
  wf_query q = true -> cur_query q d = rfc_query q d ->
  exists ps, m_query q d = Some ps /\ map node_of ps = rfc_query q d.
Proof. exact C02_classifier_lemma. Qed.
Print Assumptions C02_classifier.

(* D1 needs SEVERAL input nodes: a query made of a singular prefix (names and indices), then at most one bracketed selection with
   several selectors, then single-selector segments only, is outside the known class - the multi-selector segment receives at
   most one node (SingularFacts.v), on which selector-major and node-major orders coincide (SingularOrder.v) *)
Lemma C02_after_singular_lemma q d :
  wf_query q = true -> d1_free q = true ->
  exists ps, m_query q d = Some ps /\ map node_of ps = rfc_query q d.
Proof.
  intros Hw Hd. apply C02_classifier_lemma; [exact Hw|].
  exact (d1_free_query rx_spec_full rx_spec_sub jeqb d q Hd).
Qed.
Theorem C02_order_after_singular_prefix : forall q d,
  wf_query q = true -> d1_free q = true ->
  exists ps, m_query q d = Some ps /\ map node_of ps = rfc_query q d.
Proof. exact C02_after_singular_lemma. Qed.
Print Assumptions C02_order_after_singular_prefix.
(* not vacuous, and beyond C02_order_partial: $.a['y','x'].* has a multi-selector segment (segs_single is false) *)
Example C02_after_singular_example :
  let q := GCons (SegSel (SelName [97]%N))
             (GCons (SegSels (SCons (SelName [121]%N) (SCons (SelName [120]%N) SNil))) (GCons (SegSel SelWild) GNil)) in
  let d := JObj [([97]%N, JObj [([120]%N, JArr [JNum (NInt 1)]); ([121]%N, JArr [JNum (NInt 2); JNum (NInt 3)])])] in
  wf_query q = true /\ d1_free q = true /\ segs_single q = false
  /\ map snd (rfc_query q d) = [JNum (NInt 2); JNum (NInt 3); JNum (NInt 1)].
Proof. vm_compute. repeat split. Qed.

(* ordering facts of the RFC semantics, stated so that they can be read *)
Theorem C02_descendants_preorder_arr : forall loc l,
  descendants_or_self loc (JArr l)
  = (loc, JArr l) :: flat_map (fun '(i, x) => descendants_or_self (loc ++ [SIdx i]) x) (enum_from 0 l).
Proof. exact desc_arr'. Qed.
Theorem C02_descendants_preorder_obj : forall loc m,
  descendants_or_self loc (JObj m)
  = (loc, JObj m) :: flat_map (fun '(k, v) => descendants_or_self (loc ++ [SName k]) v) m.
Proof. exact desc_obj'. Qed.


(* string level, end to end, where the code and RFC 9535 agree exactly (one input node): the TEXT `$[s1,...,sn]`
   -- names, wildcards, indices and slices in any mixture -- goes through the generated grammar, parser.rs and
   the evaluator (Data::reduce of state.rs merges the selectors' results) and returns the nodes of s1, then those
   of s2, and so on: list equality, so order and duplicates are exactly those the RFC prescribes *)
Theorem C02_string_level_union : forall s l (d : json),
  sel_ok s -> Forall sel_ok l -> sel_range s -> Forall sel_range l -> wf_json d = true ->
  exists ps,
    api_with_path (36%N :: bracket_text s l) d = Some (map (fun p => (inner p, path p)) ps)
    /\ map node_of ps = flat_map (fun x => plain_sel_nodes x ([], d)) (s :: l).
Proof. exact union_string_level. Qed.
Print Assumptions C02_string_level_union.

(* $[1,0:2,-1,*] on [10,20,30]: 20, 10, 20, 30, 10, 20, 30 *)
Example C02_string_level_example :
  let d := JArr [JNum (NInt 10); JNum (NInt 20); JNum (NInt 30)] in
  let s := FIndex 1%Z in let l := [FSlice (Some 0%Z) (Some 2%Z) None; FIndex (-1)%Z; FWild] in
  bracket_text s l = [91; 49; 44; 48; 58; 50; 44; 45; 49; 44; 42; 93]%N
  /\ option_map (map snd) (api_with_path (36%N :: bracket_text s l) d)
     = Some [[36;91;49;93]; [36;91;48;93]; [36;91;49;93]; [36;91;50;93]; [36;91;48;93]; [36;91;49;93]; [36;91;50;93]]%N.
Proof. vm_compute. split; reflexivity. Qed.

(* witness of the known finding D1: $[*][0,1] on [[1,2],[3,4]] *)
Definition d1_query : query :=
  GCons (SegSel SelWild) (GCons (SegSels (SCons (SelIndex 0) (SCons (SelIndex 1) SNil))) GNil).
Definition d1_doc : json := JArr [JArr [JNum (NInt 1); JNum (NInt 2)]; JArr [JNum (NInt 3); JNum (NInt 4)]].
Example D1_refuted :
  wf_query d1_query = true /\
  map snd (rfc_query d1_query d1_doc) = [JNum (NInt 1); JNum (NInt 2); JNum (NInt 3); JNum (NInt 4)] /\
  option_map (map (fun p => inner p)) (m_query d1_query d1_doc)
  = Some [JNum (NInt 1); JNum (NInt 3); JNum (NInt 2); JNum (NInt 4)].
Proof. vm_compute. repeat split. Qed.

(* duplicates are preserved: $[0,0] yields the node twice *)
Example C02_dup_preserved :
  map fst (rfc_query (GCons (SegSels (SCons (SelIndex 0) (SCons (SelIndex 0) SNil))) GNil) d1_doc)
  = [[SIdx 0]; [SIdx 0]].
Proof. vm_compute. reflexivity. Qed.
