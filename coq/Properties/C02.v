(* C02 — Results are in RFC 9535 document order, duplicates preserved.  Statements only. *)
From Coq Require Import List NArith ZArith Bool Permutation.
From JP Require Import Base Ast Eval ValueModel Spec Known WellFormed Regex Entry DataFacts SelFacts
  Refine Order SpecFacts RegexFacts.
Import ListNotations.

(* the full statement (false of the code today: D1) *)
Definition C02_order_full_statement : Prop :=
  forall q d, wf_query q = true ->
  exists ps, m_query q d = Some ps /\ map node_of ps = rfc_query q d.

(* D1, exactly: the code's sequence is the selector-major semantics, for every query *)
Theorem C02_D1_exact : forall q d,
  wf_query q = true -> exists ps, m_query q d = Some ps /\ map node_of ps = cur_query q d.
Proof. exact (js_path_process_refines rx_model_search rx_spec_full rx_spec_sub rx_model_full_ok rx_model_sub_ok). Qed.
Print Assumptions C02_D1_exact.

Lemma C02_partial_lemma q d :
  wf_query q = true -> segs_single q = true ->
  exists ps, m_query q d = Some ps /\ map node_of ps = rfc_query q d.
Proof.
  intros Hw Hs. destruct (C02_D1_exact q d Hw) as [ps [E1 E2]]. exists ps. split; [exact E1|].
  rewrite E2. apply (single_selector_order rx_spec_full rx_spec_sub jeqb d q Hs).
Qed.
(* outside the known class: no top-level multi-selector segment => RFC order, position by position *)
Theorem C02_order_partial : forall q d,
  wf_query q = true -> segs_single q = true ->
  exists ps, m_query q d = Some ps /\ map node_of ps = rfc_query q d.
Proof. exact C02_partial_lemma. Qed.
Print Assumptions C02_order_partial.

Lemma C02_classifier_lemma q d :
  wf_query q = true -> cur_query q d = rfc_query q d ->
  exists ps, m_query q d = Some ps /\ map node_of ps = rfc_query q d.
Proof.
  intros Hw Hc. destruct (C02_D1_exact q d Hw) as [ps [E1 E2]]. exists ps. split; [exact E1|].
  rewrite E2. exact Hc.
Qed.
(* the check's executable classifier: whenever the two semantics agree on (q, d) the model's order
   is the RFC's; a case is in class D1 iff they differ *)
Theorem C02_classifier : forall q d,
  wf_query q = true -> cur_query q d = rfc_query q d ->
  exists ps, m_query q d = Some ps /\ map node_of ps = rfc_query q d.
Proof. exact C02_classifier_lemma. Qed.
Print Assumptions C02_classifier.

(* ordering facts of the RFC semantics, stated so that they can be read *)
Theorem C02_descendants_preorder_arr : forall loc l,
  descendants_or_self loc (JArr l)
  = (loc, JArr l) :: flat_map (fun '(i, x) => descendants_or_self (loc ++ [SIdx i]) x) (enum_from 0 l).
Proof. exact desc_arr'. Qed.
Theorem C02_descendants_preorder_obj : forall loc m,
  descendants_or_self loc (JObj m)
  = (loc, JObj m) :: flat_map (fun '(k, v) => descendants_or_self (loc ++ [SName k]) v) m.
Proof. exact desc_obj'. Qed.

(* witness of the known finding D1: $[*][0,1] on [[1,2],[3,4]] *)
Definition d1_query : query :=
  GCons (SegSel SelWild) (GCons (SegSels (SCons (SelIndex 0) (SCons (SelIndex 1) SNil))) GNil).
Definition d1_doc : json := JArr [JArr [JNum (NInt 1); JNum (NInt 2)]; JArr [JNum (NInt 3); JNum (NInt 4)]].
Example D1_refuted :
  wf_query d1_query = true /\
  map snd (rfc_query d1_query d1_doc) = [JNum (NInt 1); JNum (NInt 2); JNum (NInt 3); JNum (NInt 4)] /\
  option_map (map (fun p => inner p)) (m_query d1_query d1_doc)
  = Some [JNum (NInt 1); JNum (NInt 3); JNum (NInt 2); JNum (NInt 4)].
Proof. vm_compute. repeat split. Qed.

(* duplicates are preserved: $[0,0] yields the node twice *)
Example C02_dup_preserved :
  map fst (rfc_query (GCons (SegSels (SCons (SelIndex 0) (SCons (SelIndex 0) SNil))) GNil) d1_doc)
  = [[SIdx 0]; [SIdx 0]].
Proof. vm_compute. reflexivity. Qed.
