(* C01 — Selected nodes are exactly the RFC 9535 nodelist.  Statements only. *)
From Coq Require Import List NArith ZArith Bool Permutation.
From JP Require Import Base Ast Eval ValueModel Spec Known WellFormed Regex Entry DataFacts SelFacts
  Refine Order SpecFacts RegexFacts Build FragParse FragBuild Purity GenParse GenBuild FilterParse FilterBuild StringLevel SingularFacts.
Import ListNotations.

(* Theorem A: the model returns exactly the nodelist of the semantics with the switch sel_major
   on (what the code computes: D1), in that order, and never takes the Err arm. *)
Theorem C01_refinement : forall q d,
  wf_query q = true ->
  exists ps, m_query q d = Some ps /\ map node_of ps = cur_query q d.
Proof. exact (js_path_process_refines rx_model_search rx_spec_full rx_spec_sub rx_model_full_ok rx_model_sub_ok). Qed.
Print Assumptions C01_refinement.

(* ... which is a permutation of the RFC nodelist: same nodes, same multiplicities *)
Theorem C01_permutation : forall q d, Permutation (cur_query q d) (rfc_query q d).
Proof. exact (fun q d => sel_major_is_permutation rx_spec_full rx_spec_sub jeqb d q). Qed.
Print Assumptions C01_permutation.

Lemma C01_nodelist_lemma q d :
  wf_query q = true ->
  exists ps, m_query q d = Some ps /\ Permutation (map node_of ps) (rfc_query q d).
Proof.
  intros H. destruct (C01_refinement q d H) as [ps [E1 E2]]. exists ps. split; [exact E1|].
  rewrite E2. apply C01_permutation.
Qed.
(* C01: for every well-formed query (plain names: outside is the known class D7) and every
   document, the model selects exactly the RFC 9535 nodes, counted with multiplicity *)
Theorem C01_nodelist : forall q d,
  wf_query q = true ->
  exists ps, m_query q d = Some ps /\ Permutation (map node_of ps) (rfc_query q d).
Proof. exact C01_nodelist_lemma. Qed.
Print Assumptions C01_nodelist.

(* every node of the RFC nodelist is the value that lives at its location in the document *)
Theorem C01_located : forall q d,
  wf_json d = true -> Forall (fun n => lookup d (fst n) = Some (snd n)) (rfc_query q d).
Proof. exact (fun q d => query_nodes_located rx_spec_full rx_spec_sub jeqb false d q). Qed.
Print Assumptions C01_located.

Lemma C01_borrow_lemma q d ps :
  wf_query q = true -> wf_json d = true -> m_query q d = Some ps ->
  Forall (fun p => lookup d (ploc p) = Some (inner p)) ps.
Proof.
  intros Hq Hd Hm. destruct (C01_refinement q d Hq) as [ps' [E1 E2]].
  rewrite Hm in E1. inversion E1. subst ps'.
  pose proof (query_nodes_located rx_spec_full rx_spec_sub jeqb true d q Hd) as H.
  unfold cur_query, s_query in E2. rewrite <- E2 in H. rewrite Forall_forall in *.
  intros p Hp. apply (H (node_of p)). apply in_map. exact Hp.
Qed.
(* every value the model returns is the node at the reported location of the caller's document *)
Theorem C01_borrow : forall q d ps,
  wf_query q = true -> wf_json d = true -> m_query q d = Some ps ->
  Forall (fun p => lookup d (ploc p) = Some (inner p)) ps.
Proof. exact C01_borrow_lemma. Qed.
Print Assumptions C01_borrow.

(* string level, end to end, for the filter-free sublanguage (segments with name, wildcard, index and
   slice selectors, unions, descendant segments; canonical spelling): query_with_path on the TEXT of the
   query -- generated grammar, parser.rs, evaluator -- returns exactly the RFC 9535 nodes with multiplicity,
   each of them the node at its location in the caller's document *)
Theorem C01_string_level_filter_free : forall (q : list fseg) (d : json),
  Forall seg_ok q -> Forall seg_range q -> wf_json d = true ->
  exists ps,
    api_with_path (36%N :: segs_text q) d = Some (map (fun p => (inner p, path p)) ps)
    /\ Permutation (map node_of ps) (rfc_query (query_ast q) d)
    /\ Forall (fun p => lookup d (ploc p) = Some (inner p)) ps.
Proof. exact frag_end_to_end. Qed.
Print Assumptions C01_string_level_filter_free.

(* ... and for queries WITH FILTERS nested to any depth n (the tower of FilterParse.v: existence tests,
   comparisons between singular queries, literals and calls of length/count/value, match/search with a literal
   pattern as tests, !, parentheses, &&, ||): the text of the query goes
   through the generated grammar, parser.rs, Filter::process and the comparison code, and what comes back is
   exactly the RFC 9535 nodelist with multiplicity, each node the one at its location in the caller's document *)
Theorem C01_string_level_with_filters : forall n (q : list (gseg (SelT n))) (d : json),
  Forall (gseg_ok (SelT n) (sokT n)) q -> Forall (gseg_good (SelT n) (sgoodT lit_arg n)) q -> wf_json d = true ->
  let ast := segments_of_list (map (gseg_ast (SelT n) (sastT n)) q) in
  exists ps,
    api_with_path (36%N :: gsegs_text (SelT n) (stextT n) q) d = Some (map (fun p => (inner p, path p)) ps)
    /\ Permutation (map node_of ps) (rfc_query ast d)
    /\ Forall (fun p => lookup d (ploc p) = Some (inner p)) ps.
Proof. exact filter_end_to_end. Qed.
Print Assumptions C01_string_level_with_filters.

(* RFC 9535 2.3.5.1: a singular query (name and index segments only) selects at most one node - for EVERY document; the RFC
   nodelist first, then what the model of js_path_process returns (through Theorem A) *)
Theorem C01_singular_query_at_most_one_node : forall q d, singular q = true -> (length (rfc_query q d) <= 1)%nat.
Proof. exact singular_rfc_at_most_one. Qed.
Print Assumptions C01_singular_query_at_most_one_node.
Theorem C01_singular_query_model_at_most_one : forall q d ps,
  wf_query q = true -> singular q = true -> m_query q d = Some ps -> (length ps <= 1)%nat.
Proof. exact singular_model_at_most_one. Qed.
Print Assumptions C01_singular_query_model_at_most_one.
(* not vacuous: $.a[-1] is singular and well formed, and selects exactly one node of {"a":[1,2]} *)
Example C01_singular_example :
  let q := GCons (SegSel (SelName [97]%N)) (GCons (SegSel (SelIndex (-1))) GNil) in
  let d := JObj [([97]%N, JArr [JNum (NInt 1); JNum (NInt 2)])] in
  singular q = true /\ wf_query q = true /\ map snd (rfc_query q d) = [JNum (NInt 2)]
  /\ option_map (@length _) (m_query q d) = Some 1%nat.
Proof. vm_compute. repeat split. Qed.

(* non-vacuity: a bookstore-like document, $..book[?@.price<10].title *)
Definition ex_doc : json :=
  JObj [([115; 116; 111; 114; 101]%N,
         JObj [([98; 111; 111; 107]%N,
                JArr [JObj [([112; 114; 105; 99; 101]%N, JNum (NFlt (895, -2)%Z));
                            ([116; 105; 116; 108; 101]%N, JStr [65]%N)];
                      JObj [([112; 114; 105; 99; 101]%N, JNum (NInt 12));
                            ([116; 105; 116; 108; 101]%N, JStr [66]%N)]])])].
Definition ex_query : query :=
  GCons (SegDesc (SegSel (SelName [98; 111; 111; 107]%N)))
    (GCons (SegSel (SelFilter (FAtom (ACmp OpLt (CSq (SqCur [SqName [112; 114; 105; 99; 101]%N]))
                                             (CLit (LInt 300))))))
       (GCons (SegSel (SelName [116; 105; 116; 108; 101]%N)) GNil)).
Example C01_example :
  wf_query ex_query = true /\ wf_json ex_doc = true /\
  map snd (rfc_query ex_query ex_doc) = [JStr [65]%N; JStr [66]%N] /\
  option_map (map node_of) (m_query ex_query ex_doc) = Some (rfc_query ex_query ex_doc).
Proof. vm_compute. repeat split. Qed.

(* the known class D7: a name selector spelled with an escape selects nothing in the code *)
Definition d7_query : query := GCons (SegSel (SelName [39; 97; 92; 110; 98; 39]%N)) GNil.  (* $['a\nb'] *)
Definition d7_doc : json := JObj [([97; 10; 98]%N, JNum (NInt 1))].
Example D7_refuted :
  wf_query d7_query = false /\
  option_map (map node_of) (m_query d7_query d7_doc) = Some [] /\
  rfc_query d7_query d7_doc = [([SName [97; 10; 98]%N], JNum (NInt 1))].
Proof. vm_compute. repeat split. Qed.
