(* C15 — Evaluation depends only on the Queryable view of the data.  Statements only. *)
From Coq Require Import List NArith ZArith Bool.
From JP Require Import Base Ast Eval ValueModel ValueFacts Generic.
Import ListNotations.

(* For every carrier type T, every implementation Q of the trait's accessors and every
   representation function repr that makes Q a faithful view of JSON values (each accessor commutes
   with repr -- for numbers: as_f64 with its fallback to as_i64 shows the same number; constructors produce the corresponding JSON; equality and the extension hook reflect
   the ones of serde_json::Value), evaluating any query over any t : T gives the same Ok/Err, and
   pointer by pointer the same path, the same location and a value whose representation is the
   value obtained by evaluating the query over repr t — in the same order. *)
Theorem C15_generic : forall T (Q : qops T) (repr : T -> json) rx,
  faithful T Q repr ->
  forall (root : T) (q : query),
  option_map (map (map_ptr T repr)) (js_path_process Q rx q root)
  = js_path_process J rx q (repr root).
Proof. exact generic_evaluation. Qed.
Print Assumptions C15_generic.

(* the hypotheses are satisfiable: by the shipped instance itself, and by a carrier that decorates
   every node with data the accessors never show *)
Theorem C15_value_is_faithful : faithful json J (fun x => x).
Proof. exact value_ops_faithful. Qed.
Theorem C15_tagged_is_faithful : faithful tagged tagged_ops untag.
Proof. exact tagged_faithful. Qed.

(* ... and by an implementation whose as_f64 answers only for floats (integers are read through the
   engine's fallback to as_i64): the trait does not say which style a data type must follow *)
Theorem C15_disjoint_is_faithful : faithful json disjoint_ops (fun x => x).
Proof. exact disjoint_faithful. Qed.

(* hence, for instance, the tags of a decorated document cannot influence any result *)
Corollary C15_tags_irrelevant : forall rx (t : tagged) (q : query),
  option_map (map (map_ptr tagged untag)) (js_path_process tagged_ops rx q t)
  = js_path_process J rx q (untag t).
Proof. intros rx. exact (generic_evaluation tagged tagged_ops untag rx tagged_faithful). Qed.
