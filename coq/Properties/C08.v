(* C08 — Parsing and evaluation never panic, abort or hang.  Statements only.
   Partial by nature (stack depth, wall clock, pest / regex / serde_json internals are runtime
   behaviour observed by the harness); what is proved: *)
From Coq Require Import List NArith ZArith Bool.
From JP Require Import Base Ast Eval ValueModel Robust IndexFacts Peg Build PegTerm TermCheck FuelIndep.
From JP.gen Require Import Grammar.
Import ListNotations.
Open Scope Z_scope.

(* the only source of Err is the parser: evaluating ANY query AST against ANY document of ANY
   Queryable implementation never takes js_path_process's Err arm *)
Theorem C08_eval_never_errs : forall T (Q : qops T) rx (q : query) (root : T),
  js_path_process Q rx q root <> None.
Proof. exact eval_never_errs. Qed.
Print Assumptions C08_eval_never_errs.

(* PARSING TERMINATES, for every input string: the matcher generated from the .pest file of this run (Peg.v over
   gen/Grammar.v) never runs out of the fuel parse_query gives it, 1000 + 400 x length.  PegTerm.v proves, for ANY
   grammar, that fuel  length x H + (leftmost height)  suffices when no rule can reach itself without consuming input
   and every sub-expression has leftmost height at most H: along a chain of nested sub-derivations the position never
   decreases, between two consumptions the chain is bounded by the leftmost height, and every repetition step
   consumes.  The rank and nullability tables are proposed by the grammar translator and CHECKED by computation
   against the generated grammar in TermCheck.v (a left-recursive or otherwise ill-founded grammar fails the check). *)
Theorem C08_parser_never_out_of_fuel : forall s : str, parse_query s <> POutOfFuel.
Proof. exact parse_never_out_of_fuel. Qed.
Print Assumptions C08_parser_never_out_of_fuel.

Theorem C08_matcher_terminates_within_fuel : forall s : str,
  Peg.run grammar (parse_fuel s) (ECall R_main) ANonAtomic s 0 <> OutOfFuel.
Proof. exact main_never_out_of_fuel. Qed.
Print Assumptions C08_matcher_terminates_within_fuel.

(* ... and the ANSWER of the parser model is independent of its fuel, for every input string: with any amount of fuel
   beyond what parse_query supplies the result (accepted with this AST / rejected) is the same.  So a rejection by the
   model is never an artefact of bounded recursion: the matcher's outcome is stable (run_mono), and the walk of parser.rs
   only ever descends into the pair tree, whose depth is at most the fuel the matcher used (run_depth, walk_stable) *)
Theorem C08_parse_answer_independent_of_fuel : forall (s : str) (k : nat),
  parse_model (parse_fuel s + k) s = parse_query s.
Proof. exact parse_model_fuel_independent. Qed.
Print Assumptions C08_parse_answer_independent_of_fuel.

(* with start, end and step in the I-JSON range and an array shorter than 2^62, none of the
   additions, subtractions and negations of process_slice leaves the i64 range (no overflow panic
   in debug builds, no wrap-around in release builds), and it computes the model's indices *)
Theorem C08_slice_arith_in_range : forall len start end_ step,
  0 <= len < 2 ^ 62 -> oij start -> oij end_ -> oij step ->
  slice_indices64 len start end_ step = Some (slice_indices len start end_ step).
Proof. exact slice_arith_in_range. Qed.
Print Assumptions C08_slice_arith_in_range.

(* process_index: idx.abs() does not overflow, len - |idx| does not underflow, and array[i] is
   within bounds whenever it is evaluated *)
Theorem C08_index_arith_in_range : forall len idx,
  0 <= len < 2 ^ 62 -> ij idx ->
  exists r, index_checked len idx = Some r /\ match r with Some i => 0 <= i < len | None => True end.
Proof. exact index_arith_in_range. Qed.
Print Assumptions C08_index_arith_in_range.

(* both while-loops of process_slice stop within len iterations *)
Theorem C08_loop_bound : forall len start end_ step extra,
  0 <= len ->
  let norm := fun i : Z => if Z.leb 0 i then i else len + i in
  let e := opt_or step 1 in
  (0 < e ->
   let lower := Z.min (Z.max (norm (opt_or start 0)) 0) len in
   let upper := Z.min (Z.max (norm (opt_or end_ len)) 0) len in
   up_loop (S (Z.to_nat len) + extra) lower upper e = up_loop (S (Z.to_nat len)) lower upper e) /\
  (e < 0 ->
   let lower := Z.min (Z.max (norm (opt_or end_ (- len - 1))) (-1)) (len - 1) in
   let upper := Z.min (Z.max (norm (opt_or start (len - 1))) (-1)) (len - 1) in
   down_loop (S (Z.to_nat len) + extra) upper lower e = down_loop (S (Z.to_nat len)) upper lower e).
Proof. exact slice_loops_terminate. Qed.

(* the overflow that the range hypothesis excludes is real: outside it the checked arithmetic fails *)
Example C08_range_needed :
  slice_indices64 5 (Some 1) None (Some (2 ^ 63 - 1)) = None
  /\ index_checked 5 (- 2 ^ 63) = None.
Proof. vm_compute. split; reflexivity. Qed.
