(* C14 — in, nin, none_of, any_of, subset_of implement set membership.  Statements only. *)
From Coq Require Import List NArith ZArith Bool.
From JP Require Import Base Ast Eval ValueModel Spec Known WellFormed ValueFacts Refine Regex RegexFacts.
Import ListNotations.

Definition n_in := [105; 110]%N.
Definition n_nin := [110; 105; 110]%N.
Definition n_none_of := [110; 111; 110; 101; 95; 111; 102]%N.
Definition n_any_of := [97; 110; 121; 95; 111; 102]%N.
Definition n_subset_of := [115; 117; 98; 115; 101; 116; 95; 111; 102]%N.

(* the model of extension_custom + the argument marshalling of test_function.rs::custom (missing
   arguments are dropped, which changes the arity) computes the specification [ext_fn]: for calls
   with the documented two arguments, and for any other function name *)
Theorem C14_custom_spec : forall name (args : list vtype),
  (is_ext_name name = false \/ length args = 2%nat) ->
  val_bool J (DVal (value_custom name (somes args))) = ext_fn jeqb name args.
Proof. exact (custom_spec rx_model_search rx_spec_full rx_spec_sub rx_model_full_ok rx_model_sub_ok). Qed.
Print Assumptions C14_custom_spec.

(* what the specification says, spelled out *)
Theorem C14_in : forall x l, ext_fn jeqb n_in [Some x; Some (JArr l)] = existsb (fun item => jeqb item x) l.
Proof. reflexivity. Qed.
Theorem C14_nin : forall x l, ext_fn jeqb n_nin [Some x; Some (JArr l)] = negb (existsb (fun item => jeqb item x) l).
Proof. reflexivity. Qed.
Theorem C14_any_of : forall a b,
  ext_fn jeqb n_any_of [Some (JArr a); Some (JArr b)] = existsb (fun x => existsb (fun y => jeqb x y) b) a.
Proof. reflexivity. Qed.
Theorem C14_none_of : forall a b,
  ext_fn jeqb n_none_of [Some (JArr a); Some (JArr b)] = negb (existsb (fun x => existsb (fun y => jeqb x y) b) a).
Proof. reflexivity. Qed.
Theorem C14_subset_of : forall a b,
  ext_fn jeqb n_subset_of [Some (JArr a); Some (JArr b)] = forallb (fun x => existsb (fun y => jeqb x y) b) a.
Proof. reflexivity. Qed.
Theorem C14_empty_subset : forall b, ext_fn jeqb n_subset_of [Some (JArr []); Some (JArr b)] = true.
Proof. reflexivity. Qed.

Lemma bad_args_false name x y :
  (forall l, y <> Some (JArr l)) -> ext_fn jeqb name [x; y] = false.
Proof.
  intros H. unfold ext_fn. destruct x as [x|]; [|reflexivity]. destruct y as [[| | | | l |]|]; try reflexivity.
  exfalso. apply (H l). reflexivity.
Qed.
(* a missing second argument, or one that is not an array, makes the test false (not an error) *)
Theorem C14_bad_args_false : forall name x y,
  (forall l, y <> Some (JArr l)) -> ext_fn jeqb name [x; y] = false.
Proof. exact bad_args_false. Qed.
Theorem C14_missing_first_false : forall name y, ext_fn jeqb name [None; y] = false.
Proof. reflexivity. Qed.
Lemma first_not_array name x l :
  name = n_any_of \/ name = n_none_of \/ name = n_subset_of ->
  (forall a, x <> JArr a) -> ext_fn jeqb name [Some x; Some (JArr l)] = false.
Proof.
  intros Hn Hx. destruct x as [| | | | a |]; try (destruct Hn as [->|[->| ->]]; reflexivity).
  exfalso. apply (Hx a). reflexivity.
Qed.
Theorem C14_first_not_array_false : forall name x l,
  name = n_any_of \/ name = n_none_of \/ name = n_subset_of ->
  (forall a, x <> JArr a) -> ext_fn jeqb name [Some x; Some (JArr l)] = false.
Proof. exact first_not_array. Qed.

Example C14_examples :
  ext_fn jeqb n_in [Some (JNum (NInt 1)); Some (JArr [JNum (NInt 2); JNum (NInt 1)])] = true
  /\ ext_fn jeqb n_nin [Some (JStr [97]%N); Some (JArr [JNum (NInt 2)])] = true
  /\ ext_fn jeqb n_subset_of [Some (JArr [JNum (NInt 1)]); Some (JArr [JNum (NInt 2); JNum (NInt 1)])] = true
  /\ ext_fn jeqb n_any_of [Some (JArr [JNum (NInt 3)]); Some (JArr [JNum (NInt 2); JNum (NInt 1)])] = false
  /\ ext_fn jeqb n_in [Some (JNum (NInt 1)); Some (JNum (NInt 1))] = false.
Proof. vm_compute. repeat split. Qed.
