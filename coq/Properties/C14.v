(* C14 — in, nin, none_of, any_of, subset_of implement set membership.  Statements only. *)
From Coq Require Import List NArith ZArith Bool.
From JP Require Import Base Ast Eval ValueModel Spec Known WellFormed ValueFacts Refine Regex RegexFacts
  Entry DataFacts SelFacts Build Purity GenParse GenBuild FragParse FilterParse FilterBuild StringLevel.
Import ListNotations.

Definition n_in := [105; 110]%N.
Definition n_nin := [110; 105; 110]%N.
Definition n_none_of := [110; 111; 110; 101; 95; 111; 102]%N.
Definition n_any_of := [97; 110; 121; 95; 111; 102]%N.
Definition n_subset_of := [115; 117; 98; 115; 101; 116; 95; 111; 102]%N.

(* the model of extension_custom + the argument marshalling of test_function.rs::custom (missing
   arguments are dropped, which changes the arity) computes the specification [ext_fn]: for calls
   with the documented two arguments, and for any other function name *)
Theorem C14_custom_spec : forall name (args : list vtype),
  (is_ext_name name = false \/ length args = 2%nat) ->
  val_bool J (DVal (value_custom name (somes args))) = ext_fn jeqb name args.
Proof. exact (custom_spec rx_model_search rx_spec_full rx_spec_sub rx_model_full_ok rx_model_sub_ok). Qed.
Print Assumptions C14_custom_spec.

(* what the specification says, spelled out *)
Theorem C14_in : forall x l, ext_fn jeqb n_in [Some x; Some (JArr l)] = existsb (fun item => jeqb item x) l.
Proof. reflexivity. Qed.
Theorem C14_nin : forall x l, ext_fn jeqb n_nin [Some x; Some (JArr l)] = negb (existsb (fun item => jeqb item x) l).
Proof. reflexivity. Qed.
Theorem C14_any_of : forall a b,
  ext_fn jeqb n_any_of [Some (JArr a); Some (JArr b)] = existsb (fun x => existsb (fun y => jeqb x y) b) a.
Proof. reflexivity. Qed.
Theorem C14_none_of : forall a b,
  ext_fn jeqb n_none_of [Some (JArr a); Some (JArr b)] = negb (existsb (fun x => existsb (fun y => jeqb x y) b) a).
Proof. reflexivity. Qed.
Theorem C14_subset_of : forall a b,
  ext_fn jeqb n_subset_of [Some (JArr a); Some (JArr b)] = forallb (fun x => existsb (fun y => jeqb x y) b) a.
Proof. reflexivity. Qed.
Theorem C14_empty_subset : forall b, ext_fn jeqb n_subset_of [Some (JArr []); Some (JArr b)] = true.
Proof. reflexivity. Qed.

Lemma bad_args_false name x y :
  (forall l, y <> Some (JArr l)) -> ext_fn jeqb name [x; y] = false.
Proof.
  intros H. unfold ext_fn. destruct x as [x|]; [|reflexivity]. destruct y as [[| | | | l |]|]; try reflexivity.
  exfalso. apply (H l). reflexivity.
Qed.

(* string level, end to end: the TEXT of a filter that calls in / nin / none_of / any_of / subset_of (two
   ValueType arguments: literals, singular queries, calls of length/count/value), alone or combined with
   everything else of the filter tower, goes through the generated grammar, TestFunction::try_new (the `Custom`
   arm), Queryable::extension_custom and the evaluator, and keeps exactly the children on which the expression
   holds with [ext_fn] -- the set-membership reading stated by the theorems above -- as the value of the call *)
Theorem C14_string_level_calls : forall n (e : list (list (xatom (SelT n)))) (d : json),
  eok (SelT n) (sokT n) e -> egood (SelT n) (sgoodT lit_arg n) (sastT n) lit_arg e -> wf_json d = true ->
  let f := or_ast (SelT n) (sastT n) e in
  exists ps,
    api_with_path (36%N :: 91%N :: filter_text (SelT n) (stextT n) e ++ [93%N]) d
      = Some (map (fun p => (inner p, path p)) ps)
    /\ map node_of ps
       = List.filter (fun c => r_holds rx_spec_full rx_spec_sub jeqb false d f (snd c)) (children ([], d)).
Proof. exact filter_children_in_order. Qed.
Print Assumptions C14_string_level_calls.

(* $[?in(@.a,$[0].l)&&!subset_of(@.s,$[0].l)||nin(@.a,$[0].l)&&any_of(@.s,$[0].l)] *)
Example C14_string_level_example :
  let L := XAQuery (SelT 0) true [GBracket _ (FIndex 0%Z) []; GShort _ [108]%N] in
  let A := XAQuery (SelT 0) false [GShort _ [97]%N] in
  let S_ := XAQuery (SelT 0) false [GShort _ [115]%N] in
  let e : list (list (xatom (SelT 0))) :=
    [[XFnTest _ false (XFn2 _ FIn A L); XFnTest _ true (XFn2 _ FSubsetOf S_ L)];
     [XFnTest _ false (XFn2 _ FNin A L); XFnTest _ false (XFn2 _ FAnyOf S_ L)]] in
  let a := [97]%N in let s := [115]%N in let l := [108]%N in
  let i k := JNum (NInt k) in
  let d := JArr [JObj [(a, i 1); (l, JArr [i 1; i 2; i 3]); (s, JArr [i 1; i 9])];
                 JObj [(a, i 2); (s, JArr [i 3; i 3])];
                 JObj [(a, i 7); (s, JArr [i 8; i 2])];
                 JObj [(a, i 7); (s, JArr [])]] in
  filter_text (SelT 0) (stextT 0) e
  = [63;105;110;40;64;46;97;44;36;91;48;93;46;108;41;38;38;33;115;117;98;115;101;116;95;111;102;40;64;46;115;44;36;91;48;93;46;108;41;
     124;124;110;105;110;40;64;46;97;44;36;91;48;93;46;108;41;38;38;97;110;121;95;111;102;40;64;46;115;44;36;91;48;93;46;108;41]%N
  /\ option_map (map snd) (api_with_path (36%N :: 91%N :: filter_text (SelT 0) (stextT 0) e ++ [93%N]) d)
     = Some [[36; 91; 48; 93]%N; [36; 91; 50; 93]%N].
Proof. vm_compute. split; reflexivity. Qed.

(* a missing second argument, or one that is not an array, makes the test false (not an error) *)
Theorem C14_bad_args_false : forall name x y,
  (forall l, y <> Some (JArr l)) -> ext_fn jeqb name [x; y] = false.
Proof. exact bad_args_false. Qed.
Theorem C14_missing_first_false : forall name y, ext_fn jeqb name [None; y] = false.
Proof. reflexivity. Qed.
Lemma first_not_array name x l :
  name = n_any_of \/ name = n_none_of \/ name = n_subset_of ->
  (forall a, x <> JArr a) -> ext_fn jeqb name [Some x; Some (JArr l)] = false.
Proof.
  intros Hn Hx. destruct x as [| | | | a |]; try (destruct Hn as [->|[->| ->]]; reflexivity).
  exfalso. apply (Hx a). reflexivity.
Qed.
Theorem C14_first_not_array_false : forall name x l,
  name = n_any_of \/ name = n_none_of \/ name = n_subset_of ->
  (forall a, x <> JArr a) -> ext_fn jeqb name [Some x; Some (JArr l)] = false.
Proof. exact first_not_array. Qed.

Example C14_examples :
  ext_fn jeqb n_in [Some (JNum (NInt 1)); Some (JArr [JNum (NInt 2); JNum (NInt 1)])] = true
  /\ ext_fn jeqb n_nin [Some (JStr [97]%N); Some (JArr [JNum (NInt 2)])] = true
  /\ ext_fn jeqb n_subset_of [Some (JArr [JNum (NInt 1)]); Some (JArr [JNum (NInt 2); JNum (NInt 1)])] = true
  /\ ext_fn jeqb n_any_of [Some (JArr [JNum (NInt 3)]); Some (JArr [JNum (NInt 2); JNum (NInt 1)])] = false
  /\ ext_fn jeqb n_in [Some (JNum (NInt 1)); Some (JNum (NInt 1))] = false.
Proof. vm_compute. repeat split. Qed.
