(* C10 — length, count, value, match and search behave as RFC 9535 defines.  Statements only. *)
From Coq Require Import List NArith ZArith Bool.
From JP Require Import Base Ast Eval ValueModel Spec Known WellFormed Regex Entry DataFacts SelFacts
  ValueFacts Refine RegexFacts RegexSem Build Purity GenParse GenBuild FragParse FilterParse FilterBuild StringLevel SingularFacts.
Import ListNotations.

(* length(): Unicode scalar values of a string, elements of an array, members of an object,
   Nothing for anything else (and for Nothing), for every ValueType operand shape *)
Theorem C10_length : forall A,
  vshape A -> vshape (fn_length J A) /\ vt_of (fn_length J A) = rfc_length (vt_of A).
Proof. exact fn_length_spec. Qed.
Print Assumptions C10_length.

(* count(): the number of nodes of the nodelist, 0 when it is empty *)
Theorem C10_count : forall A,
  ll A -> vshape (fn_count J A) /\ vt_of (fn_count J A) = rfc_count (nodes_of A).
Proof. exact fn_count_spec. Qed.
Print Assumptions C10_count.

(* value(): the value of the single node, Nothing otherwise *)
Theorem C10_value : forall A,
  ll A -> vshape (fn_value A) /\ vt_of (fn_value A) = rfc_value (nodes_of A).
Proof. exact fn_value_spec. Qed.
Print Assumptions C10_value.

(* over a singular query (name and index segments only): count() is 0 or 1, and value(@.path) is the very operand @.path of a
   comparison - Nothing exactly when the path selects no node - for every document and current node (SingularFacts.v) *)
Theorem C10_count_of_singular_query : forall root q cur, singular q = true ->
  let c := r_tfun rx_spec_full rx_spec_sub jeqb false root (FnCount (ArgTest (TRel q))) cur in
  c = RValue (Some (jint 0)) \/ c = RValue (Some (jint 1)).
Proof. exact (count_of_singular rx_spec_full rx_spec_sub jeqb false). Qed.
Print Assumptions C10_count_of_singular_query.
Theorem C10_value_of_singular_query_is_the_operand : forall root l cur,
  r_tfun rx_spec_full rx_spec_sub jeqb false root (FnValue (ArgTest (TRel (sq_segs l)))) cur
  = RValue (r_comparable rx_spec_full rx_spec_sub jeqb false root (CSq (SqCur l)) cur).
Proof. exact (value_of_singular_is_operand rx_spec_full rx_spec_sub jeqb false). Qed.
Print Assumptions C10_value_of_singular_query_is_the_operand.
Theorem C10_value_call_compares_as_the_path : forall root l cur op r,
  r_atom rx_spec_full rx_spec_sub jeqb false root (ACmp op (CFn (FnValue (ArgTest (TRel (sq_segs l))))) r) cur
  = r_atom rx_spec_full rx_spec_sub jeqb false root (ACmp op (CSq (SqCur l)) r) cur.
Proof. exact (value_call_compares_as_path rx_spec_full rx_spec_sub jeqb false). Qed.
Print Assumptions C10_value_call_compares_as_the_path.
Example C10_singular_example :
  r_tfun rx_spec_full rx_spec_sub jeqb false JNull (FnCount (ArgTest (TRel (sq_segs [SqName [97]%N])))) (JObj [([97]%N, JNull)])
    = RValue (Some (jint 1))
  /\ r_tfun rx_spec_full rx_spec_sub jeqb false JNull (FnValue (ArgTest (TRel (sq_segs [SqName [97]%N])))) (JObj [([97]%N, JNull)])
    = RValue (Some JNull).
Proof. vm_compute. split; reflexivity. Qed.

(* the whole function layer inside a query: for every well-typed function expression the model
   computes the RFC value (ValueType functions) or truth value (LogicalType functions); results
   flow into comparisons and tests as ordinary values (this is Theorem A's function clause) *)
Theorem C10_functions_refine : forall root f v,
  ok_tfun f = true ->
  (value_fn f = true ->
   vshape (e_tfun J rx_model_search root f (cur v)) /\
   vt_of (e_tfun J rx_model_search root f (cur v))
   = as_value (r_tfun rx_spec_full rx_spec_sub jeqb true root f v)) /\
  (logical_fn f = true ->
   val_bool J (e_tfun J rx_model_search root f (cur v))
   = as_logical (r_tfun rx_spec_full rx_spec_sub jeqb true root f v)).
Proof.
  exact (fun root f v H =>
    proj1 (proj2 (proj2 (proj2 (proj2 (proj2 (proj2 (proj2 (proj2 (proj2
      (refine_all rx_model_search rx_spec_full rx_spec_sub rx_model_full_ok rx_model_sub_ok root)))))))))) f H v).
Qed.
Print Assumptions C10_functions_refine.

(* match(): what the code computes for a backslash-free pattern — the pattern compiled by itself,
   then wrapped in ^(?: )$ and searched — is true exactly when the pattern is a regular expression
   of the dialect and the ENTIRE string matches it; search(): when some substring does; both are
   false for a pattern that is not a regular expression (parser of the regex syntax proved stable
   under the wrapping: parse_wrap; anchored search = whole match: search_anchored) *)
Theorem C10_match : forall p s,
  no_bslash p = true -> regex_result rx_model_search p s false = rx_spec_full p s.
Proof. exact rx_model_full_ok. Qed.
Print Assumptions C10_match.
Theorem C10_search : forall p s,
  no_bslash p = true -> regex_result rx_model_search p s true = rx_spec_sub p s.
Proof. exact rx_model_sub_ok. Qed.
Theorem C10_invalid_pattern_false : forall p s,
  no_bslash p = true -> (forall r, re_parse p <> PValid r) ->
  regex_result rx_model_search p s false = false /\ regex_result rx_model_search p s true = false.
Proof.
  intros p s H Hn. rewrite rx_model_full_ok, rx_model_sub_ok by exact H.
  unfold rx_spec_full, rx_spec_sub. destruct (re_parse p) as [r| |]; [exfalso; apply (Hn r); reflexivity| |]; split; reflexivity.
Qed.

(* ... where "matches" is the textbook relation, not an algorithm: [M s r i j] says that the substring
   s[i, j) belongs to the language of r (RegexSem.v: concatenation splits the substring, | is union,
   * + ? {m,n} are iteration, ^ and $ hold at the two ends of s); the position-set matcher [ends] that
   the specification functions run is proved to compute exactly this relation (ends_spec: breadth-first
   closure with a pigeonhole argument for its fuel) *)
Theorem C10_match_is_language_membership : forall p s,
  rx_spec_full p s = true <-> exists r, re_parse p = PValid r /\ M s r 0 (length s).
Proof. exact rx_spec_full_sem. Qed.
Print Assumptions C10_match_is_language_membership.
Theorem C10_search_is_substring_membership : forall p s,
  rx_spec_sub p s = true <-> exists r, re_parse p = PValid r /\ exists i j : nat, (i <= length s)%nat /\ M s r i j.
Proof. exact rx_spec_sub_sem. Qed.
Print Assumptions C10_search_is_substring_membership.


(* string level, end to end: the TEXT of a filter whose expression calls the functions -- length / count / value
   inside comparisons, match / search (literal pattern) as tests, with literals, queries and nested calls as
   arguments, combined with !, &&, ||, parentheses and nested filters to any depth -- goes through the generated
   grammar, the typing of parser.rs / model.rs, and the evaluator, and keeps exactly the children on which the
   RFC 9535 value of the expression (with the RFC definitions of the five functions, rfc_length etc.) holds *)
Theorem C10_string_level_calls : forall n (e : list (list (xatom (SelT n)))) (d : json),
  eok (SelT n) (sokT n) e -> egood (SelT n) (sgoodT lit_arg n) (sastT n) lit_arg e -> wf_json d = true ->
  let f := or_ast (SelT n) (sastT n) e in
  exists ps,
    api_with_path (36%N :: 91%N :: filter_text (SelT n) (stextT n) e ++ [93%N]) d
      = Some (map (fun p => (inner p, path p)) ps)
    /\ map node_of ps
       = List.filter (fun c => r_holds rx_spec_full rx_spec_sub jeqb false d f (snd c)) (children ([], d)).
Proof. exact filter_children_in_order. Qed.
Print Assumptions C10_string_level_calls.

(* $[?length(@.a)>=2&&match(@.b,'x.*')||count(@.. * )==value($[0].n)]  on three objects *)
Example C10_string_level_example :
  let e : list (list (xatom (SelT 0))) :=
    [[XCmp _ OpGe (XCF _ (XFn1 _ FLength (XAQuery _ false [GShort _ [97]%N]))) (XCB _ (XCLit (XInt 2%Z)));
      XFnTest _ false (XFn2 _ FMatch (XAQuery _ false [GShort _ [98]%N]) (XALit _ (XStr [120; 46; 42]%N)))];
     [XCmp _ OpEq (XCF _ (XFn1 _ FCount (XAQuery _ false [GDescWild _])))
                  (XCF _ (XFn1 _ FValue (XAQuery _ true [GBracket _ (FIndex 0%Z) []; GShort _ [110]%N])))]] in
  let a := [97]%N in let b := [98]%N in let n := [110]%N in
  let d := JArr [JObj [(a, JStr [104; 105]%N); (b, JStr [120; 121]%N); (n, JNum (NInt 3))];
                 JObj [(a, JStr [104]%N); (b, JStr [120]%N)];
                 JObj [(a, JArr [JNum (NInt 1)]); (b, JStr [121]%N)]] in
  option_map (map snd) (api_with_path (36%N :: 91%N :: filter_text (SelT 0) (stextT 0) e ++ [93%N]) d)
  = Some [[36; 91; 48; 93]%N; [36; 91; 50; 93]%N].
Proof. vm_compute. reflexivity. Qed.

(* the anchoring example of the former defect D4, and the unbalanced pattern of D24 *)
Example C10_regex_examples :
  rx_spec_full [97; 124; 98]%N [97; 99]%N = false                 (* a|b does not match "ac" *)
  /\ rx_spec_full [97; 124; 98]%N [98]%N = true
  /\ rx_spec_sub [97; 124; 98]%N [120; 98; 120]%N = true          (* search finds b inside xbx *)
  /\ regex_result rx_model_search [97; 41; 40; 63; 58; 98]%N [97; 98]%N false = false   (* a)(?:b is not a regex *)
  /\ rx_spec_full [97; 46; 99]%N [97; 10; 99]%N = false           (* . does not match LF *)
  /\ rx_spec_full [40; 97; 98; 41; 123; 50; 125]%N [97; 98; 97; 98]%N = true.   (* (ab){2} *)
Proof. vm_compute. repeat split. Qed.

Example C10_examples :
  rfc_length (Some (JStr [128512; 233; 97]%N)) = Some (JNum (NInt 3))
  /\ rfc_length (Some (JArr [JNull; JNull])) = Some (JNum (NInt 2))
  /\ rfc_length (Some (JObj [([97]%N, JNull)])) = Some (JNum (NInt 1))
  /\ rfc_length (Some (JNum (NInt 5))) = None /\ rfc_length None = None
  /\ rfc_count [] = Some (JNum (NInt 0))
  /\ rfc_value [([], JNull)] = Some JNull /\ rfc_value [] = None /\ rfc_value [([], JNull); ([], JNull)] = None.
Proof. vm_compute. repeat split. Qed.
