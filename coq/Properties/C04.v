(* C04 — Filter comparisons follow the RFC 9535 comparison rules.  Statements only. *)
From Coq Require Import List NArith ZArith Bool.
From JP Require Import Base Ast Eval ValueModel Spec Known WellFormed ValueFacts Refine MathCompare SingularFacts.
Import ListNotations.

(* the code's comparison of two operands (literal / singular query result / function result, each
   possibly Nothing) is the RFC relation on the values they denote: all six operators, all JSON
   values of every type and nesting on both sides *)
Theorem C04_table : forall op l r,
  vshape l -> vshape r -> compare_data J op l r = rfc_compare op (vt_of l) (vt_of r).
Proof. exact compare_data_rfc. Qed.
Print Assumptions C04_table.

(* deep equality of eq_json is the RFC's, for any nesting (no well-formedness needed) *)
Theorem C04_deep_eq : forall a b, eq_val J a b = rfc_json_eq a b.
Proof. exact eq_val_rfc. Qed.
Print Assumptions C04_deep_eq.

(* on numbers in the I-JSON range the binary64 reading is the mathematical value *)
Theorem C04_mathematical_value : forall op a b,
  vt_exact53 a = true -> vt_exact53 b = true -> rfc_compare op a b = math_compare op a b.
Proof. exact rfc_compare_math. Qed.
Print Assumptions C04_mathematical_value.

(* derived operators are exactly not ==, < or ==, and the mirrored forms *)
Theorem C04_derived_ops : forall a b,
  rfc_compare OpNe a b = negb (rfc_compare OpEq a b)
  /\ rfc_compare OpLe a b = (rfc_compare OpLt a b || rfc_compare OpEq a b)
  /\ rfc_compare OpGt a b = rfc_compare OpLt b a
  /\ rfc_compare OpGe a b = (rfc_compare OpLt b a || rfc_compare OpEq a b).
Proof. intros a b. repeat split. Qed.

Lemma trichotomy_numbers x y :
  let a := Some (JNum x) in let b := Some (JNum y) in
  (rfc_compare OpLt a b = true /\ rfc_compare OpEq a b = false /\ rfc_compare OpGt a b = false) \/
  (rfc_compare OpLt a b = false /\ rfc_compare OpEq a b = true /\ rfc_compare OpGt a b = false) \/
  (rfc_compare OpLt a b = false /\ rfc_compare OpEq a b = false /\ rfc_compare OpGt a b = true).
Proof. exact (dy_trichotomy (num_f64 x) (num_f64 y)). Qed.
Lemma trichotomy_strings x y :
  let a := Some (JStr x) in let b := Some (JStr y) in
  (rfc_compare OpLt a b = true /\ rfc_compare OpEq a b = false /\ rfc_compare OpGt a b = false) \/
  (rfc_compare OpLt a b = false /\ rfc_compare OpEq a b = true /\ rfc_compare OpGt a b = false) \/
  (rfc_compare OpLt a b = false /\ rfc_compare OpEq a b = false /\ rfc_compare OpGt a b = true).
Proof. exact (str_trichotomy x y). Qed.
(* for two numbers or two strings exactly one of <, ==, > is true *)
Theorem C04_trichotomy_numbers : forall x y,
  let a := Some (JNum x) in let b := Some (JNum y) in
  (rfc_compare OpLt a b = true /\ rfc_compare OpEq a b = false /\ rfc_compare OpGt a b = false) \/
  (rfc_compare OpLt a b = false /\ rfc_compare OpEq a b = true /\ rfc_compare OpGt a b = false) \/
  (rfc_compare OpLt a b = false /\ rfc_compare OpEq a b = false /\ rfc_compare OpGt a b = true).
Proof. exact trichotomy_numbers. Qed.
Theorem C04_trichotomy_strings : forall x y,
  let a := Some (JStr x) in let b := Some (JStr y) in
  (rfc_compare OpLt a b = true /\ rfc_compare OpEq a b = false /\ rfc_compare OpGt a b = false) \/
  (rfc_compare OpLt a b = false /\ rfc_compare OpEq a b = true /\ rfc_compare OpGt a b = false) \/
  (rfc_compare OpLt a b = false /\ rfc_compare OpEq a b = false /\ rfc_compare OpGt a b = true).
Proof. exact trichotomy_strings. Qed.
Print Assumptions C04_trichotomy_numbers.

Lemma lt_only_within_kind a b :
  rfc_lt a b = true ->
  (exists x y, a = Some (JNum x) /\ b = Some (JNum y)) \/ (exists x y, a = Some (JStr x) /\ b = Some (JStr y)).
Proof.
  destruct a as [[| | x | x | |]|], b as [[| | y | y | |]|]; cbn [rfc_lt]; try discriminate; intros _;
    [left|right]; eauto.
Qed.
(* < holds only between two numbers or between two strings, never across types or with Nothing *)
Theorem C04_lt_only_within_kind : forall a b,
  rfc_lt a b = true ->
  (exists x y, a = Some (JNum x) /\ b = Some (JNum y)) \/ (exists x y, a = Some (JStr x) /\ b = Some (JStr y)).
Proof. exact lt_only_within_kind. Qed.

(* two empty query results are equal, an empty result is never equal to a value *)
Theorem C04_nothing : forall v, rfc_eq None None = true /\ rfc_eq None (Some v) = false /\ rfc_eq (Some v) None = false.
Proof. intros v. repeat split. Qed.

(* a singular query as operand (RFC 9535 2.3.5.1, 2.3.5.2.2): for every document, current node and operand, the query selects no
   node and the operand is Nothing, or it selects exactly one node and the operand is that node's value; "several nodes" cannot
   happen (SingularFacts.v), so Nothing means an empty nodelist and nothing else *)
Theorem C04_singular_operand : forall rf rs veq major root q cur,
  (r_squery root q cur = [] /\ r_comparable rf rs veq major root (CSq q) cur = None)
  \/ (exists n, r_squery root q cur = [n] /\ r_comparable rf rs veq major root (CSq q) cur = Some (snd n)).
Proof. exact singular_operand. Qed.
Print Assumptions C04_singular_operand.
(* both cases occur: @.a on {"a":7} and on {"b":7} *)
Example C04_singular_operand_example :
  r_squery JNull (SqCur [SqName [97]%N]) (JObj [([97]%N, JNum (NInt 7))]) = [([SName [97]%N], JNum (NInt 7))]
  /\ r_squery JNull (SqCur [SqName [97]%N]) (JObj [([98]%N, JNum (NInt 7))]) = [].
Proof. vm_compute. split; reflexivity. Qed.

Example C04_examples :
  rfc_compare OpEq (Some (JNum (NInt 1))) (Some (JNum (NFlt (1, 0)%Z))) = true
  /\ rfc_compare OpEq (Some (JArr [JNum (NInt 1)])) (Some (JArr [JNum (NFlt (1, 0)%Z)])) = true
  /\ rfc_compare OpEq (Some (JNum (NFlt (3602879701896397, -55)%Z))) (Some (JNum (NFlt (3602879701896398, -55)%Z))) = false
  /\ rfc_compare OpLt (Some (JStr [97]%N)) (Some (JNum (NInt 1))) = false
  /\ rfc_compare OpLe (Some JNull) (Some JNull) = true
  /\ rfc_compare OpEq (Some (JObj [([97]%N, JNull); ([98]%N, JBool true)])) (Some (JObj [([98]%N, JBool true); ([97]%N, JNull)])) = true.
Proof. vm_compute. repeat split. Qed.
