(* C13 — Equivalent spellings of a query give the same result.  Statements only.
   The semantic half (what differently spelled ASTs denote) is proved here on the RFC semantics
   and carries to the model through Theorem A (C01_refinement).  The syntactic half — blank space
   and layout never change the AST the parser builds — is proved for the filter-free sublanguage
   (C13_blank_space_filter_free, through the generated grammar and parser.rs); for filters it is
   checked on every run by the k-spellings and slot-sweep streams. *)
From Coq Require Import List NArith ZArith Bool.
From JP Require Import Base Ast Eval ValueModel Spec Known WellFormed Regex SpellFacts SpecSteps
  Build FragParse FragBuild FragWs FragWsBuild Entry DataFacts SelFacts Purity GenParse GenBuild FilterParse FilterBuild StringLevel.
From JP Require Import Dec2Bin NumParse RoundScale NumSpell.
Import ListNotations.
Open Scope Z_scope.

(* .name, ['name'] and ["name"] denote the same name selector (for names spelled without escapes) *)
Theorem C13_name_spellings : forall k n,
  no_bslash k = true -> no_ctl k = true ->
  forallb (fun x => negb (N.eqb x 39)) k = true -> forallb (fun x => negb (N.eqb x 34)) k = true ->
  sel_name (39%N :: k ++ [39%N]) n = sel_name (34%N :: k ++ [34%N]) n
  /\ (k <> [] -> sel_name k n = sel_name (39%N :: k ++ [39%N]) n).
Proof. exact name_spellings_agree. Qed.
Print Assumptions C13_name_spellings.

(* [s] and the bare selector s: the parser builds the same AST for both; semantically too *)
Theorem C13_bracket_single_selector : forall root s ns,
  r_segment rx_spec_full rx_spec_sub jeqb false root (SegSels (SCons s SNil)) ns
  = r_segment rx_spec_full rx_spec_sub jeqb false root (SegSel s) ns.
Proof. exact (bracket_single_selector rx_spec_full rx_spec_sub jeqb). Qed.

(* ?expr and ?(expr), and redundant parentheses *)
Theorem C13_redundant_parens : forall root f v,
  r_holds rx_spec_full rx_spec_sub jeqb false root (FAtom (AFilter f false)) v
  = r_holds rx_spec_full rx_spec_sub jeqb false root f v.
Proof.
  intros. autorewrite with rsteps.
  destruct (r_holds rx_spec_full rx_spec_sub jeqb false root f v); reflexivity.
Qed.

(* .* and [*], ..name and ..['name'] are the same AST by construction of the parser (C06's
   recogniser builds SegSel SelWild for both); nothing to prove at the semantic level *)


(* ... and at STRING level, through the whole pipeline: for every logical expression e of the filter tower (any
   nesting depth, function calls included) the texts `$[?e]` and `$[?(e)]` select the same nodes in the same order *)
Theorem C13_string_level_parens : forall n (e : list (list (xatom (SelT n)))) (d : json),
  eok (SelT n) (sokT n) e -> egood (SelT n) (sgoodT lit_arg n) (sastT n) lit_arg e -> wf_json d = true ->
  exists ps1 ps2,
    api_with_path (36%N :: 91%N :: filter_text (SelT n) (stextT n) e ++ [93%N]) d
      = Some (map (fun p => (inner p, path p)) ps1)
    /\ api_with_path (36%N :: 91%N :: 63%N :: 40%N :: or_text (SelT n) (stextT n) e ++ [41%N; 93%N]) d
      = Some (map (fun p => (inner p, path p)) ps2)
    /\ map node_of ps1 = map node_of ps2.
Proof. exact parens_string_level. Qed.
Print Assumptions C13_string_level_parens.


(* `.name` and `['name']` at STRING level, for every shorthand name (any length, any of the characters the RFC
   allows in a shorthand): the two texts go through different rules of the generated grammar and different arms of
   parser.rs, and select the same nodes in the same order on every document *)
Theorem C13_string_level_shorthand : forall n (d : json),
  name_ok n -> wf_json d = true ->
  exists ps1 ps2,
    api_with_path (36%N :: 46%N :: n) d = Some (map (fun p => (inner p, path p)) ps1)
    /\ api_with_path (36%N :: 91%N :: 39%N :: n ++ [39%N; 93%N]) d = Some (map (fun p => (inner p, path p)) ps2)
    /\ map node_of ps1 = map node_of ps2.
Proof. exact shorthand_string_level. Qed.
Print Assumptions C13_string_level_shorthand.

(* integer and float spellings of one number (100, 1e2, 100.0) compare alike, on either side of
   every operator, against every operand *)
Theorem C13_number_spellings : forall n1 n2 op v,
  dy_eqb (num_f64 n1) (num_f64 n2) = true ->
  rfc_compare op (Some (JNum n1)) v = rfc_compare op (Some (JNum n2)) v
  /\ rfc_compare op v (Some (JNum n1)) = rfc_compare op v (Some (JNum n2)).
Proof. exact number_spellings_compare_alike. Qed.
Print Assumptions C13_number_spellings.

Example C13_100 :
  dy_eqb (num_f64 (NInt 100)) (num_f64 (NFlt (25, 2))) = true
  /\ dy_eqb (num_f64 (NInt 100)) (num_f64 (NFlt (100, 0))) = true.
Proof. vm_compute. split; reflexivity. Qed.

(* optional blank space: a filter-free query written with any runs of blank space at the places where
   RFC 9535 allows them is read exactly as its compact spelling (hence gives the same result on every
   document, through every entry point) *)
Theorem C13_blank_space_filter_free : forall q,
  lq_ok q -> lq_range q ->
  parse_query (36%N :: lq_text q) = parse_query (36%N :: segs_text (lq_strip q)).
Proof. exact blanks_irrelevant. Qed.
Print Assumptions C13_blank_space_filter_free.

(* ---- decimal spellings of one number (RoundScale.v, NumSpell.v): the nearest binary64 of a positive rational depends on the
   rational only, so moving the decimal point against the exponent - 3e-1, 0.3, 0.30, 30e-2, 300E-3 - never changes the value the
   parser computes for a literal; any two decimal spellings of one rational differ by such a shift.  (The guards exclude only
   exponents beyond +-400 / below the subnormal range, where dec_to_f64 short-cuts to infinity / zero.) *)
Theorem C13_nearest_double_depends_on_the_rational_only : forall n d k,
  (0 < n)%Z -> (0 < d)%Z -> (0 < k)%Z -> round_ratio (k * n) (k * d) = round_ratio n d.
Proof. exact round_ratio_scale. Qed.
Print Assumptions C13_nearest_double_depends_on_the_rational_only.
Theorem C13_decimal_spellings_same_value : forall i1 f1 e1 i2 f2 e2 m x1 x2 j,
  frac_ok f1 -> expo_ok e1 -> frac_ok f2 -> expo_ok e2 -> ipart_neg i1 = ipart_neg i2 ->
  digits_val 0 (ipart_digits i1 ++ frac_digits f1) = Some m -> expo_val e1 = Some x1 ->
  digits_val 0 (ipart_digits i2 ++ frac_digits f2) = Some (m * 10 ^ j)%Z -> expo_val e2 = Some x2 ->
  (0 < m)%Z -> (0 <= j)%Z ->
  (x2 - Z.of_nat (length (frac_digits f2)) = x1 - Z.of_nat (length (frac_digits f1)) - j)%Z ->
  (x1 - Z.of_nat (length (frac_digits f1)) <= 400)%Z ->
  (- 800 - Z.log2 m <= x1 - Z.of_nat (length (frac_digits f1)))%Z ->
  (- 800 - Z.log2 (m * 10 ^ j) <= x1 - Z.of_nat (length (frac_digits f1)) - j)%Z ->
  num_value i2 f2 e2 = num_value i1 f1 e1.
Proof. exact spellings_same_value. Qed.
Print Assumptions C13_decimal_spellings_same_value.
Example C13_spellings_example :
  num_value (IZ 300) None (Some (true, EMinus, (51%N, []))) = num_value (IZ 3) None (Some (false, EMinus, (49%N, [])))
  /\ num_value (IZ 0) (Some (51%N, [48%N])) None = num_value (IZ 0) (Some (51%N, [])) None
  /\ num_text (IZ 300) None (Some (true, EMinus, (51%N, []))) = [51; 48; 48; 69; 45; 51]%N
  /\ num_text (IZ 3) None (Some (false, EMinus, (49%N, []))) = [51; 101; 45; 49]%N.
Proof. exact spellings_example. Qed.
