(* TokenSeg.v — the segments of singular queries (the operands of comparisons): every [index_segment] token is `[`, a canonical
   integer, `]` and every [name_segment] token is `[`, a string, `]` or `.` and a shorthand name - nothing else inside, in
   particular no blank space (RFC 9535 forbids it inside the brackets of a singular query only through its ABNF; here it is
   the grammar's compound-atomic rules), for every input. *)
From Coq Require Import List Arith NArith Bool Lia.
From JP Require Import Base Ast Peg PegFacts Dec2Bin Build PegTerm TermCheck PegAlpha PegTree TokenFacts TokenMore.
From JP.gen Require Import Grammar.
Import ListNotations.
Local Open Scope nat_scope.

Lemma string_run_text f a s' st rest' en t :
  run grammar f (ECall R_string) a s' st = Ok rest' en t -> exists v, s' = v ++ rest' /\ forallb ge32 v = true.
Proof.
  destruct string_rule_checked as [Hk Hc].
  exact (atomic_rule_alpha rname grammar ge32 rng32 rng32_ok f 80 R_string a s' st rest' en t Hk Hc).
Qed.

Definition index_segment_shape (u : str) : Prop := exists v, u = 91%N :: v ++ [93%N] /\ canon_int v = true.
Definition name_segment_shape (u : str) : Prop :=
  (exists v, u = 91%N :: v ++ [93%N] /\ forallb ge32 v = true) \/ (exists v, u = 46%N :: v /\ shorthand_ok v).

Lemma index_segment_run f a s' st rest' en t :
  run grammar f (ECall R_index_segment) a s' st = Ok rest' en t -> exists u, s' = u ++ rest' /\ index_segment_shape u.
Proof.
  intros Hr. assert (Hat : ACompound <> ANonAtomic) by discriminate.
  destruct (inv_call rname grammar _ _ _ _ _ _ _ _ Hr) as [f1 [t1 H1]].
  change (snd (g_rule grammar R_index_segment)) with (ESeq (ESeq (EStr [91]%N) (ECall R_index_selector)) (EStr [93]%N)) in H1.
  change (call_atomicity (fst (g_rule grammar R_index_segment)) a) with ACompound in H1.
  destruct (inv_seq_atomic rname grammar _ _ _ _ _ _ _ _ _ Hat H1) as [f2 [s2 [p2 [ta [tb [H2 H3]]]]]].
  destruct (inv_seq_atomic rname grammar _ _ _ _ _ _ _ _ _ Hat H2) as [f3 [s1 [p1 [tc [td [H4 H5]]]]]].
  destruct (inv_str rname grammar _ _ _ _ _ _ _ _ H4) as [E4 _]. destruct (inv_str rname grammar _ _ _ _ _ _ _ _ H3) as [E3 _].
  destruct (inv_call rname grammar _ _ _ _ _ _ _ _ H5) as [f4 [t4 H6]].
  change (snd (g_rule grammar R_index_selector)) with (ECall R_int : expr rname) in H6.
  destruct (int_run_canonical _ _ _ _ _ _ _ H6) as [v [Ev Hv]].
  exists (91%N :: v ++ [93%N]). split; [subst s' s1 s2; cbn [app]; rewrite <- app_assoc; reflexivity|]. exists v. split; [reflexivity|exact Hv].
Qed.

Lemma shorthand_run f a s' st rest' en t :
  run grammar f (ECall R_member_name_shorthand) a s' st = Ok rest' en t -> exists v, s' = v ++ rest' /\ shorthand_ok v.
Proof.
  exact (first_rest_shape R_member_name_shorthand R_name_first R_name_char name_first_c name_char_c rng_first rng_char
           rng_first_ok rng_char_ok (fun c H => eq_trans (f_equal (fun b => b || is_digit c) H) eq_refl)
           eq_refl ltac:(vm_compute; reflexivity) ltac:(vm_compute; reflexivity) eq_refl f a s' st rest' en t).
Qed.

Lemma name_segment_run f a s' st rest' en t :
  run grammar f (ECall R_name_segment) a s' st = Ok rest' en t -> exists u, s' = u ++ rest' /\ name_segment_shape u.
Proof.
  intros Hr. assert (Hat : ACompound <> ANonAtomic) by discriminate.
  destruct (inv_call rname grammar _ _ _ _ _ _ _ _ Hr) as [f1 [t1 H1]].
  change (snd (g_rule grammar R_name_segment))
    with (EAlt (ESeq (ESeq (EStr [91]%N) (ECall R_name_selector)) (EStr [93]%N)) (ESeq (EStr [46]%N) (ECall R_member_name_shorthand))) in H1.
  change (call_atomicity (fst (g_rule grammar R_name_segment)) a) with ACompound in H1.
  destruct (inv_alt rname grammar _ _ _ _ _ _ _ _ _ H1) as [f0 [H0|H0]].
  - destruct (inv_seq_atomic rname grammar _ _ _ _ _ _ _ _ _ Hat H0) as [f2 [s2 [p2 [ta [tb [H2 H3]]]]]].
    destruct (inv_seq_atomic rname grammar _ _ _ _ _ _ _ _ _ Hat H2) as [f3 [s1 [p1 [tc [td [H4 H5]]]]]].
    destruct (inv_str rname grammar _ _ _ _ _ _ _ _ H4) as [E4 _]. destruct (inv_str rname grammar _ _ _ _ _ _ _ _ H3) as [E3 _].
    destruct (inv_call rname grammar _ _ _ _ _ _ _ _ H5) as [f4 [t4 H6]].
    change (snd (g_rule grammar R_name_selector)) with (ECall R_string : expr rname) in H6.
    destruct (string_run_text _ _ _ _ _ _ _ H6) as [v [Ev Hv]].
    exists (91%N :: v ++ [93%N]). split; [subst s' s1 s2; cbn [app]; rewrite <- app_assoc; reflexivity|]. left. exists v. split; [reflexivity|exact Hv].
  - destruct (inv_seq_atomic rname grammar _ _ _ _ _ _ _ _ _ Hat H0) as [f2 [s2 [p2 [ta [tb [H2 H3]]]]]].
    destruct (inv_str rname grammar _ _ _ _ _ _ _ _ H2) as [E2 _].
    destruct (shorthand_run _ _ _ _ _ _ _ H3) as [v [Ev Hv]].
    exists (46%N :: v). split; [subst s' s2; reflexivity|]. right. exists v. split; [reflexivity|exact Hv].
Qed.

Theorem index_segment_token_shape s st en kids :
  inforest rname (Pair R_index_segment st en kids) (parse_tokens s) -> index_segment_shape (slice s st en).
Proof.
  apply (token_text s R_index_segment st en kids index_segment_shape); [discriminate|].
  intros f a s' rest' t Hr. exact (index_segment_run _ _ _ _ _ _ _ Hr).
Qed.
Theorem name_segment_token_shape s st en kids :
  inforest rname (Pair R_name_segment st en kids) (parse_tokens s) -> name_segment_shape (slice s st en).
Proof.
  apply (token_text s R_name_segment st en kids name_segment_shape); [discriminate|].
  intros f a s' rest' t Hr. exact (name_segment_run _ _ _ _ _ _ _ Hr).
Qed.
Print Assumptions index_segment_token_shape.
Print Assumptions name_segment_token_shape.

(* a blank right after the opening bracket of a singular-query segment is therefore impossible *)
Lemma index_segment_no_blank_after_bracket b r : is_blank b = true -> ~ index_segment_shape (91%N :: b :: r).
Proof.
  intros Hb [v [E Hv]]. injection E as E. destruct v as [|c v]; [discriminate|]. cbn [app] in E. injection E as Ec _. subst c.
  unfold is_blank in Hb. cbn [canon_int] in Hv.
  destruct (N.eqb_spec b 32) as [->|]; [discriminate|]. destruct (N.eqb_spec b 9) as [->|]; [discriminate|].
  destruct (N.eqb_spec b 10) as [->|]; [discriminate|]. destruct (N.eqb_spec b 13) as [->|]; [discriminate|]. discriminate.
Qed.
