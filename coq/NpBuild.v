(* NpBuild.v — parser.rs (Build.v) turns the pair tree of a Normalized Path into [np_query l];
   composed with NpParse.v: parse_query (np l) = POk (np_query l). *)
From Coq Require Import List Arith NArith ZArith Bool Lia.
From JP Require Import Base Ast Peg PegFacts NormPath NormPathFacts Dec2Bin Known Build BuildSteps
  Reference NpParse BaseFacts.
From JP.gen Require Import Grammar.
Import ListNotations.

(* ---------- strings ---------- *)
Lemma p_str_mid {A} (pre mid rest : list A) st en :
  st = length pre -> en = (length pre + length mid)%nat ->
  firstn (en - st) (skipn st (pre ++ mid ++ rest)) = mid.
Proof.
  intros -> ->. rewrite skipn_app, skipn_all, Nat.sub_diag. cbn [skipn app].
  replace (length pre + length mid - length pre)%nat with (length mid) by lia.
  rewrite firstn_app, firstn_all, Nat.sub_diag. cbn [firstn]. apply app_nil_r.
Qed.

Lemma drop_while_head f c s : f c = false -> drop_while f (c :: s) = c :: s.
Proof. intros H. cbn [drop_while]. rewrite H. reflexivity. Qed.

Lemma trim_ends f a m b : f a = false -> f b = false -> trim_matches f (a :: m ++ [b]) = a :: m ++ [b].
Proof.
  intros Ha Hb. unfold trim_matches. rewrite (drop_while_head f a _ Ha).
  change (a :: m ++ [b]) with ((a :: m) ++ [b]). rewrite rev_app_distr. cbn [rev app].
  rewrite (drop_while_head f b _ Hb).
  change (b :: rev m ++ [a]) with (rev [b] ++ rev (a :: m)). rewrite <- rev_app_distr, rev_involutive. reflexivity.
Qed.

Lemma trim_single f a : f a = false -> trim_matches f [a] = [a].
Proof. intros Ha. unfold trim_matches. cbn [drop_while rev app]. rewrite Ha. cbn [rev app drop_while]. rewrite Ha. reflexivity. Qed.

Lemma trim_no_ends f s :
  (forall c, In c s -> f c = false) -> trim_matches f s = s.
Proof.
  intros H. destruct s as [|a r]; [reflexivity|].
  destruct (exists_last (l := a :: r)) as [m [b E]]; [discriminate|].
  destruct m as [|a' m].
  - cbn [app] in E. rewrite E. apply trim_single. apply H. rewrite E. left. reflexivity.
  - rewrite E. cbn [app]. apply trim_ends; apply H; rewrite E.
    + left. reflexivity.
    + cbn [app]. right. apply in_or_app. right. left. reflexivity.
Qed.

Lemma digit_cases d : is_digit d = true ->
  d = 48%N \/ d = 49%N \/ d = 50%N \/ d = 51%N \/ d = 52%N \/ d = 53%N \/ d = 54%N \/ d = 55%N \/ d = 56%N \/ d = 57%N.
Proof. intros H. apply is_digit_bounds in H. lia. Qed.

Lemma parse_i64_digits d r v :
  is_digit d = true -> digits_val 0 (d :: r) = Some v ->
  (- 2 ^ 63 <= v <= 2 ^ 63 - 1)%Z -> parse_i64 (d :: r) = Some v.
Proof.
  intros Hd Hv Hr.
  assert (E : parse_i64 (d :: r) =
              match digits_val 0 (d :: r) with
              | Some v => if (Z.leb (- 2 ^ 63) v && Z.leb v (2 ^ 63 - 1))%bool then Some v else None
              | None => None
              end).
  { destruct (digit_cases d Hd) as [->|[->|[->|[->|[->|[->|[->|[->|[->| ->]]]]]]]]]; reflexivity. }
  rewrite E, Hv.
  destruct (Z.leb_spec (- 2 ^ 63) v); [|lia]. destruct (Z.leb_spec v (2 ^ 63 - 1)); [|lia]. reflexivity.
Qed.

Lemma digit_not_uws c : is_digit c = true -> is_unicode_ws c = false.
Proof.
  intros H. apply is_digit_bounds in H. unfold is_unicode_ws.
  repeat match goal with
         | |- context [N.eqb ?a ?b] => destruct (N.eqb_spec a b); try lia
         | |- context [N.leb ?a ?b] => destruct (N.leb_spec a b); try lia
         end; reflexivity.
Qed.

Lemma forallb_In {A} (f : A -> bool) l x : forallb f l = true -> In x l -> f x = true.
Proof. intros H Hx. rewrite forallb_forall in H. apply H. exact Hx. Qed.

Section B.
  Variable inp : str.

  Lemma b_selector_name f pre k rest st en :
    inp = pre ++ (39%N :: k ++ [39%N]) ++ rest ->
    st = length pre -> en = (length pre + length (39%N :: k ++ [39%N]))%nat ->
    forallb plain_char k = true ->
    b_selector inp (S f) (name_sel_pair st en) = Some (SelName (39%N :: k ++ [39%N])).
  Proof.
    intros Ei Hst Hen Hk. rewrite b_selector_step. unfold name_sel_pair. cbn [next_down p_kids bind].
    change (is_rule R_name_selector (Pair R_name_selector st en [Pair R_string st en []])) with true. cbv iota.
    unfold p_str. rewrite Ei, (p_str_mid pre _ rest st en Hst Hen).
    unfold trim_unicode. rewrite trim_ends by reflexivity.
    unfold validate_js_str.
    assert (Hv : forallb (fun c => N.ltb 31 c) (39%N :: k ++ [39%N]) = true).
    { cbn [forallb]. rewrite forallb_app. cbn [forallb]. change (N.ltb 31 39) with true. cbn [andb].
      rewrite andb_true_r. rewrite forallb_forall in *. intros c Hc. specialize (Hk c Hc).
      apply plain_char_doc in Hk. apply andb_true_iff in Hk. destruct Hk as [Hk _].
      apply andb_true_iff in Hk. destruct Hk as [Hk _]. apply N.leb_le in Hk. apply N.ltb_lt. lia. }
    rewrite Hv. reflexivity.
  Qed.

  Lemma b_selector_index f pre i rest st en :
    inp = pre ++ dec_of_nat i ++ rest ->
    st = length pre -> en = (length pre + length (dec_of_nat i))%nat ->
    (Z.of_nat i <= MAX_VAL)%Z ->
    b_selector inp (S f) (index_sel_pair st en) = Some (SelIndex (Z.of_nat i)).
  Proof.
    intros Ei Hst Hen Hi. rewrite b_selector_step. unfold index_sel_pair. cbn [next_down p_kids bind].
    change (is_rule R_name_selector (Pair R_index_selector st en [Pair R_int st en []])) with false.
    change (is_rule R_wildcard_selector (Pair R_index_selector st en [Pair R_int st en []])) with false.
    change (is_rule R_index_selector (Pair R_index_selector st en [Pair R_int st en []])) with true. cbv iota.
    unfold p_str. rewrite Ei, (p_str_mid pre _ rest st en Hst Hen).
    pose proof (dec_shape_of_nat i) as Hs. unfold dec_of_nat in *.
    pose proof (dec_of_N_value (N.of_nat i)) as Hv.
    destruct (dec_of_N (N.of_nat i)) as [|d r] eqn:Ed; [destruct Hs|]. destruct Hs as [Hd _].
    unfold trim_unicode. rewrite trim_no_ends.
    2:{ intros c Hc. apply digit_not_uws. apply (forallb_In _ _ _ Hd Hc). }
    cbn [forallb] in Hd. apply andb_true_iff in Hd. destruct Hd as [Hd0 _].
    rewrite (parse_i64_digits d r _ Hd0 Hv).
    2:{ unfold MAX_VAL in Hi. lia. }
    cbn [bind]. unfold validate_range.
    replace (Z.of_N (N.of_nat i)) with (Z.of_nat i) by lia.
    destruct (Z.ltb_spec MAX_VAL (Z.of_nat i)); [lia|].
    destruct (Z.ltb_spec (Z.of_nat i) MIN_VAL); [unfold MIN_VAL in *; lia|]. reflexivity.
  Qed.
End B.

Definition step_seg (s : step) : segment :=
  match s with
  | SName k => SegSel (SelName (39%N :: k ++ [39%N]))
  | SIdx i => SegSel (SelIndex (Z.of_nat i))
  end.
Definition step_in_range (s : step) : Prop :=
  match s with SIdx i => (Z.of_nat i <= MAX_VAL)%Z | SName _ => True end.

Section B2.
  Variable inp : str.

  Lemma b_segment_of_step f pre s rest :
    inp = pre ++ step_text s ++ rest -> plain_step s -> step_in_range s ->
    bind (next_down (step_pair (length pre) s)) (b_segment inp (S (S (S f)))) = Some (step_seg s).
  Proof.
    intros Ei Hp Hr. unfold step_pair.
    assert (Hsel : b_selector inp (S f)
                     match s with
                     | SName k => name_sel_pair (length pre + 1) (length pre + length k + 3)
                     | SIdx i => index_sel_pair (length pre + 1) (length pre + length (dec_of_nat i) + 1)
                     end
                   = Some match s with
                          | SName k => SelName (39%N :: k ++ [39%N])
                          | SIdx i => SelIndex (Z.of_nat i)
                          end).
    { destruct s as [k|i]; cbn [step_text plain_step step_in_range] in *.
      - apply (b_selector_name inp f (pre ++ [91%N]) k (93%N :: rest)).
        + rewrite Ei. rewrite <- !app_assoc. cbn [app]. rewrite <- !app_assoc. reflexivity.
        + rewrite app_length. reflexivity.
        + rewrite app_length. cbn [length]. rewrite app_length. cbn [length]. lia.
        + exact Hp.
      - apply (b_selector_index inp f (pre ++ [91%N]) i (93%N :: rest)).
        + rewrite Ei. rewrite <- !app_assoc. cbn [app]. rewrite <- !app_assoc. reflexivity.
        + rewrite app_length. reflexivity.
        + rewrite app_length. cbn [length]. lia.
        + exact Hr. }
    assert (Htext : p_str inp (Pair R_child_segment (length pre) (length pre + step_len s) []) = step_text s).
    { unfold p_str. rewrite Ei. apply p_str_mid; reflexivity. }
    destruct (step_text_head s []) as [r0 E0]. rewrite app_nil_r in E0.
    destruct s as [k|i]; unfold seg_pairs; cbn [next_down p_kids bind];
      rewrite b_segment_step;
      match goal with |- context [is_rule R_child_segment (Pair R_child_segment ?a ?b ?c)] =>
        change (is_rule R_child_segment (Pair R_child_segment a b c)) with true end; cbv iota;
      match goal with |- context [p_str inp (Pair R_child_segment ?a ?b ?c)] =>
        change (p_str inp (Pair R_child_segment a b c)) with (p_str inp (Pair R_child_segment a b [])) end;
      rewrite Htext, E0; cbv zeta; cbn [negb str_eqb trim_start_blank drop_while];
      cbn [next_down p_kids bind]; rewrite b_child_segment_step;
      match goal with |- context [is_rule R_wildcard_selector (Pair R_bracketed_selection ?a ?b ?c)] =>
        change (is_rule R_wildcard_selector (Pair R_bracketed_selection a b c)) with false;
        change (is_rule R_member_name_shorthand (Pair R_bracketed_selection a b c)) with false;
        change (is_rule R_bracketed_selection (Pair R_bracketed_selection a b c)) with true end; cbv iota;
      cbn [p_kids mapM]; rewrite Hsel; reflexivity.
  Qed.
End B2.

Lemma mapM_steps inp f l : forall pre rest,
  inp = pre ++ steps_text l ++ rest -> Forall plain_step l -> Forall step_in_range l ->
  mapM (fun r => bind (next_down r) (fun k => b_segment inp (S (S (S f))) k)) (steps_pairs (length pre) l)
  = Some (map step_seg l).
Proof.
  induction l as [|s l IH]; intros pre rest Ei Hp Hr; [reflexivity|].
  pose proof (Forall_inv Hp) as Hps. pose proof (Forall_inv_tail Hp) as Hpl.
  pose proof (Forall_inv Hr) as Hrs. pose proof (Forall_inv_tail Hr) as Hrl.
  cbn [steps_pairs mapM map]. unfold steps_text in Ei. cbn [flat_map] in Ei. fold (steps_text l) in Ei.
  rewrite <- app_assoc in Ei.
  change (bind (next_down (step_pair (length pre) s)) (fun k => b_segment inp (S (S (S f))) k))
    with (bind (next_down (step_pair (length pre) s)) (b_segment inp (S (S (S f))))).
  rewrite (b_segment_of_step inp f pre s (steps_text l ++ rest) Ei Hps Hrs). cbn [bind].
  replace (length pre + step_len s)%nat with (length (pre ++ step_text s)) by (rewrite app_length; reflexivity).
  rewrite (IH (pre ++ step_text s) rest); [reflexivity| |exact Hpl|exact Hrl].
  rewrite Ei, <- app_assoc. reflexivity.
Qed.

Lemma segments_of_steps l : Forall plain_step l -> segments_of_list (map step_seg l) = np_query l.
Proof.
  induction l as [|s l IH]; intros Hp; [reflexivity|]. inversion Hp as [|? ? Hs Hl]; subst.
  cbn [map]. unfold segments_of_list, np_query in *. cbn [fold_right]. rewrite (IH Hl).
  destruct s as [k|i]; cbn [step_seg plain_step] in *; [rewrite (escape_plain_chars k Hs)|]; reflexivity.
Qed.

Lemma np_query_no_literals l : fa_segments (fun _ => true) (fun x => negb (has_inf_lit x)) (np_query l) = true.
Proof. induction l as [|[k|i] l IH]; [reflexivity| |]; unfold np_query in *; cbn [fold_right]; exact IH. Qed.

Lemma steps_text_last l : l <> [] -> exists m, steps_text l = m ++ [93%N].
Proof.
  induction l as [|s l IH]; [intros H; contradiction|]. intros _. unfold steps_text. cbn [flat_map]. fold (steps_text l).
  destruct l as [|s2 l].
  - cbn [steps_text flat_map]. rewrite app_nil_r. destruct s as [k|i]; cbn [step_text].
    + exists (91%N :: 39%N :: k ++ [39%N]). cbn [app]. rewrite <- app_assoc. reflexivity.
    + exists (91%N :: dec_of_nat i). reflexivity.
  - destruct IH as [m E]; [discriminate|]. rewrite E. exists (step_text s ++ m). rewrite app_assoc. reflexivity.
Qed.

Lemma np_not_trimmed l : trim_blank (36%N :: steps_text l) = 36%N :: steps_text l.
Proof.
  unfold trim_blank. destruct l as [|s l].
  - apply trim_single. reflexivity.
  - destruct (steps_text_last (s :: l)) as [m E]; [discriminate|]. rewrite E. apply trim_ends; reflexivity.
Qed.

Lemma np_text l : Forall plain_step l -> np l = 36%N :: steps_text l.
Proof.
  intros H. unfold np, steps_text. cbn [app]. f_equal.
  induction l as [|s l IH]; [reflexivity|]. inversion H as [|? ? Hs Hl]; subst.
  cbn [flat_map]. rewrite (np_step_text s Hs), (IH Hl). reflexivity.
Qed.

Lemma steps_len_ge l : (length l <= length (steps_text l))%nat.
Proof.
  induction l as [|s l IH]; [cbn; lia|]. unfold steps_text in *. cbn [flat_map length]. rewrite app_length.
  pose proof (step_len_pos s). unfold step_len in *. lia.
Qed.

(* the parser (generated grammar + parser.rs) reads the Normalized Path of a location as its AST *)
Theorem parse_np l :
  Forall plain_step l -> Forall step_in_range l -> parse_query (np l) = POk (np_query l).
Proof.
  intros Hp Hr. rewrite (np_text l Hp). set (inp := 36%N :: steps_text l).
  pose proof (np_not_trimmed l) as Ht. fold inp in Ht.
  unfold parse_query, parse_model. rewrite Ht, str_eqb_refl. cbn [negb].
  unfold parse_rule.
  assert (Hfuel : (85 + length l + length (steps_text l) <= parse_fuel inp)%nat).
  { unfold parse_fuel, inp. cbn [length]. pose proof (steps_len_ge l). lia. }
  pose proof (main_steps l Hp (parse_fuel inp) Hfuel) as Hrun. fold inp in Hrun. rewrite Hrun.
  unfold main_pairs. cbn [next_down p_kids]. unfold b_jp_query. cbn [next_down p_kids bind].
  assert (E4 : exists f, parse_fuel inp = S (S (S (S f)))).
  { exists (996 + 400 * length inp)%nat. unfold parse_fuel. lia. }
  destruct E4 as [f E4]. rewrite E4. rewrite b_segments_step. cbn [p_kids].
  change 1%nat with (length [36%N]).
  rewrite (mapM_steps inp f l [36%N] [] ); [|unfold inp; rewrite app_nil_r; reflexivity|exact Hp|exact Hr].
  cbn [bind]. rewrite (segments_of_steps l Hp), np_query_no_literals. reflexivity.
Qed.
