(* SpecFacts.v — facts about the RFC semantics itself: every selected node lives at its
   location in the document (C01: "the node that lives at that location"); numbers. *)
From Coq Require Import List NArith ZArith Bool Lia.
From JP Require Import Base Ast Spec BaseFacts SpecSteps.
Import ListNotations.

Definition node_ok (root : json) (n : node) : Prop := lookup root (fst n) = Some (snd n).

Lemma lookup_snoc root l s :
  lookup root (l ++ [s]) = match lookup root l with Some v => child_at v s | None => None end.
Proof.
  revert root. induction l as [|x l IH]; intros root; cbn [app lookup].
  - destruct (child_at root s); reflexivity.
  - destruct (child_at root x); [apply IH|reflexivity].
Qed.

Lemma node_ok_child root n s v :
  node_ok root n -> child_at (snd n) s = Some v -> node_ok root (fst n ++ [s], v).
Proof. unfold node_ok. intros H Hc. cbn [fst snd]. rewrite lookup_snoc, H. exact Hc. Qed.

Lemma nth_error_enum {A} (l : list A) i n x :
  In (n, x) (enum_from i l) -> (i <= n)%nat /\ nth_error l (n - i) = Some x.
Proof.
  revert i. induction l as [|y l IH]; intros i; [intros []|]. cbn [enum_from]. intros [E|H].
  - inversion E. subst. split; [lia|]. rewrite Nat.sub_diag. reflexivity.
  - destruct (IH (S i) H) as [Hle Hn]. split; [lia|].
    replace (n - i)%nat with (S (n - S i)) by lia. exact Hn.
Qed.

Lemma assoc_first_in k v (m : list (str * json)) :
  keys_unique (map fst m) = true -> In (k, v) m -> assoc k m = Some v.
Proof.
  induction m as [|[k2 v2] m IH]; intros Hu Hin; [destruct Hin|].
  cbn [map fst keys_unique] in Hu. apply andb_true_iff in Hu. destruct Hu as [Hn Hu].
  cbn [assoc]. destruct Hin as [E|Hin].
  - inversion E. subst. rewrite str_eqb_refl. reflexivity.
  - destruct (str_eqb k k2) eqn:E.
    + apply str_eqb_eq in E. subst k2. exfalso.
      apply negb_true_iff in Hn.
      assert (existsb (str_eqb k) (map fst m) = true).
      { apply existsb_exists. exists k. split; [|apply str_eqb_refl].
        apply in_map_iff. exists (k, v). split; [reflexivity|exact Hin]. }
      congruence.
    + apply IH; assumption.
Qed.

Lemma children_ok root n :
  wf_json (snd n) = true -> node_ok root n -> Forall (node_ok root) (children n).
Proof.
  intros Hwf Hn. unfold children, children_steps. rewrite Forall_forall. intros c Hc.
  apply in_map_iff in Hc. destruct Hc as [[s v] [<- Hsv]].
  apply node_ok_child; [exact Hn|].
  destruct (snd n) as [| | | | l | m]; try destruct Hsv.
  - apply in_map_iff in Hsv. destruct Hsv as [[i e] [E Hie]]. inversion E. subst.
    destruct (nth_error_enum l 0 i v Hie) as [_ Hnth]. rewrite Nat.sub_0_r in Hnth. exact Hnth.
  - apply in_map_iff in Hsv. destruct Hsv as [[k e] [E Hke]]. inversion E. subst.
    cbn [child_at]. cbn [wf_json] in Hwf. apply andb_true_iff in Hwf. destruct Hwf as [Hu _].
    apply assoc_first_in; assumption.
Qed.

Lemma wf_children n : wf_json (snd n) = true -> Forall (fun c => wf_json (snd c) = true) (children n).
Proof.
  intros Hwf. unfold children, children_steps. rewrite Forall_forall. intros c Hc.
  apply in_map_iff in Hc. destruct Hc as [[s v] [<- Hsv]]. cbn [snd].
  destruct (snd n) as [| | | | l | m]; try destruct Hsv.
  - apply in_map_iff in Hsv. destruct Hsv as [[i e] [E Hie]]. inversion E. subst.
    cbn [wf_json] in Hwf. rewrite forallb_forall in Hwf. apply Hwf.
    destruct (nth_error_enum l 0 i v Hie) as [_ Hnth]. eapply nth_error_In. exact Hnth.
  - apply in_map_iff in Hsv. destruct Hsv as [[k e] [E Hke]]. inversion E. subst.
    cbn [wf_json] in Hwf. apply andb_true_iff in Hwf. destruct Hwf as [_ Hw].
    rewrite forallb_forall in Hw. apply (Hw (k, v) Hke).
Qed.

(* invariant of a nodelist: every node is at its location and well-formed *)
Definition good (root : json) (n : node) : Prop := node_ok root n /\ wf_json (snd n) = true.

Lemma good_children root n : good root n -> Forall (good root) (children n).
Proof.
  intros [Hn Hw]. pose proof (children_ok root n Hw Hn) as H1. pose proof (wf_children n Hw) as H2.
  rewrite Forall_forall in *. intros c Hc. split; [apply H1|apply H2]; exact Hc.
Qed.

Lemma good_sub root n c : good root n -> In c (children n) -> good root c.
Proof. intros Hg Hc. pose proof (good_children root n Hg) as H. rewrite Forall_forall in H. apply H. exact Hc. Qed.

Lemma sel_name_sub k n c : In c (sel_name k n) -> wf_json (snd n) = true -> In c (children n).
Proof.
  unfold sel_name, children, children_steps. destruct (decode_name k) as [key|]; [|intros []].
  destruct (snd n) as [| | | | |m]; try (intros []).
  destruct (assoc key m) as [v|] eqn:Ea; [|intros []]. intros [<-|[]] _.
  apply in_map_iff. exists (SName key, v). split; [reflexivity|].
  apply in_map_iff. exists (key, v). split; [reflexivity|].
  clear -Ea. induction m as [|[k2 v2] m IH]; [discriminate|]. cbn [assoc] in Ea.
  destruct (str_eqb key k2) eqn:E.
  - inversion Ea. subst. apply str_eqb_eq in E. subst. left. reflexivity.
  - right. apply IH. exact Ea.
Qed.

Lemma nth_in_children n (a : list json) j v :
  snd n = JArr a -> nth_error a j = Some v -> In (fst n ++ [SIdx j], v) (children n).
Proof.
  intros Ha Hn. destruct n as [l0 x]. cbn [fst snd] in *. subst x. unfold children, children_steps. cbn [fst snd].
  apply in_map_iff. exists (SIdx j, v). split; [reflexivity|].
  apply in_map_iff. exists (j, v). split; [reflexivity|].
  pose proof (enum_from_nth a 0 j v Hn) as H. cbn [Nat.add] in H. eapply nth_error_In. exact H.
Qed.

Lemma sel_index_sub i n c : In c (sel_index i n) -> In c (children n).
Proof.
  unfold sel_index. destruct (snd n) as [| | | |a|] eqn:Ea; try (intros []).
  destruct (rfc_index (Z.of_nat (length a)) i) as [j|]; [|intros []].
  destruct (nth_error a (Z.to_nat j)) as [v|] eqn:En; [|intros []]. intros [<-|[]].
  apply (nth_in_children n a); assumption.
Qed.

Lemma sel_slice_sub s e st n c : In c (sel_slice s e st n) -> In c (children n).
Proof.
  unfold sel_slice. destruct (snd n) as [| | | |a|] eqn:Ea; try (intros []).
  intros H. apply in_flat_map in H. destruct H as [j [_ H]].
  destruct (nth_error a (Z.to_nat j)) as [v|] eqn:En; [|destruct H]. destruct H as [<-|[]].
  apply (nth_in_children n a); assumption.
Qed.

Lemma desc_arr_go' l : forall loc i,
  (fix go (i : nat) (a : list json) : list node :=
     match a with
     | [] => []
     | x :: a' => descendants_or_self (loc ++ [SIdx i]) x ++ go (S i) a'
     end) i l
  = flat_map (fun '(i, x) => descendants_or_self (loc ++ [SIdx i]) x) (enum_from i l).
Proof. induction l as [|x l IH]; intros loc i; [reflexivity|]. cbn [enum_from flat_map]. rewrite IH. reflexivity. Qed.
Lemma desc_obj_go' (m : list (str * json)) : forall loc,
  (fix go (m : list (str * json)) : list node :=
     match m with
     | [] => []
     | (k, v) :: m' => descendants_or_self (loc ++ [SName k]) v ++ go m'
     end) m
  = flat_map (fun '(k, v) => descendants_or_self (loc ++ [SName k]) v) m.
Proof. induction m as [|[k v] m IH]; intros loc; [reflexivity|]. cbn [flat_map]. rewrite IH. reflexivity. Qed.
Lemma desc_arr' loc l :
  descendants_or_self loc (JArr l)
  = (loc, JArr l) :: flat_map (fun '(i, x) => descendants_or_self (loc ++ [SIdx i]) x) (enum_from 0 l).
Proof. rewrite <- desc_arr_go'. reflexivity. Qed.
Lemma desc_obj' loc m :
  descendants_or_self loc (JObj m)
  = (loc, JObj m) :: flat_map (fun '(k, v) => descendants_or_self (loc ++ [SName k]) v) m.
Proof. rewrite <- desc_obj_go'. reflexivity. Qed.

Lemma good_descendants root (v : json) : forall l,
  good root (l, v) -> Forall (good root) (descendants_or_self l v).
Proof.
  induction v as [| b | n | s | a IH | m IH] using json_ind'; intros l Hg;
    try (constructor; [exact Hg|constructor]).
  - (* array *)
    pose proof (desc_arr' l a) as E.
    rewrite E. constructor; [exact Hg|]. rewrite Forall_forall. intros c Hc.
    apply in_flat_map in Hc. destruct Hc as [[i x] [Hix Hc]].
    destruct (nth_error_enum a 0 i x Hix) as [_ Hnth]. rewrite Nat.sub_0_r in Hnth.
    rewrite Forall_forall in IH. specialize (IH x (nth_error_In _ _ Hnth) (l ++ [SIdx i])).
    rewrite Forall_forall in IH. apply IH; [|exact Hc].
    apply (good_sub root (l, JArr a)); [exact Hg|]. apply (nth_in_children (l, JArr a) a); [reflexivity|exact Hnth].
  - (* object *)
    pose proof (desc_obj' l m) as E.
    rewrite E. constructor; [exact Hg|]. rewrite Forall_forall. intros c Hc.
    apply in_flat_map in Hc. destruct Hc as [[k x] [Hkx Hc]].
    rewrite Forall_forall in IH. specialize (IH (k, x) Hkx (l ++ [SName k])). cbn [snd] in IH.
    rewrite Forall_forall in IH. apply IH; [|exact Hc].
    apply (good_sub root (l, JObj m)); [exact Hg|].
    unfold children, children_steps. cbn [fst snd].
    apply in_map_iff. exists (SName k, x). split; [reflexivity|].
    apply in_map_iff. exists (k, x). split; [reflexivity|exact Hkx].
Qed.

Section Located.
  Variable rx_full rx_sub : str -> str -> bool.
  Variable veq : json -> json -> bool.
  Variable b : bool.
  Variable root : json.
  Notation Rsegment := (r_segment rx_full rx_sub veq b root).
  Notation Rselector := (r_selector rx_full rx_sub veq b root).
  Notation Rselectors := (r_selectors rx_full rx_sub veq b root).
  Notation Rselectors_major := (r_selectors_major rx_full rx_sub veq b root).
  Notation Rsegments := (r_segments rx_full rx_sub veq b root).

  (* every selector selects among the children of its input node *)
  Lemma rselector_sub s n c : wf_json (snd n) = true -> In c (Rselector s n) -> In c (children n).
  Proof.
    intros Hw. destruct s as [k| |i|x y z|f]; autorewrite with rsteps.
    - intros H. apply (sel_name_sub k n c H Hw).
    - auto.
    - apply sel_index_sub.
    - apply sel_slice_sub.
    - intros H. apply filter_In in H. apply H.
  Qed.

  Lemma good_selector s ns :
    Forall (good root) ns -> Forall (good root) (flat_map (Rselector s) ns).
  Proof.
    rewrite !Forall_forall. intros H c Hc. apply in_flat_map in Hc. destruct Hc as [n [Hn Hc]].
    apply (good_sub root n); [apply H; exact Hn|].
    apply (rselector_sub s n c); [apply (H n Hn)|exact Hc].
  Qed.

  Lemma good_selectors l n : good root n -> Forall (good root) (Rselectors l n).
  Proof.
    intros Hg. induction l as [|s l IH]; autorewrite with rsteps; [constructor|].
    apply Forall_app. split; [|exact IH].
    pose proof (good_selector s [n]) as H. cbn [flat_map] in H. rewrite app_nil_r in H.
    apply H. constructor; [exact Hg|constructor].
  Qed.

  Lemma good_selectors_major l ns :
    Forall (good root) ns -> Forall (good root) (Rselectors_major l ns).
  Proof.
    intros Hg. induction l as [|s l IH]; autorewrite with rsteps; [constructor|].
    apply Forall_app. split; [apply good_selector; exact Hg|exact IH].
  Qed.

  Lemma good_segment s : forall ns, Forall (good root) ns -> Forall (good root) (Rsegment s ns).
  Proof.
    induction s as [s IH|sel|l]; intros ns Hg; autorewrite with rsteps.
    - apply IH. rewrite Forall_forall in *. intros c Hc. apply in_flat_map in Hc.
      destruct Hc as [n [Hn Hc]]. pose proof (good_descendants root (snd n) (fst n)) as Hd.
      rewrite Forall_forall in Hd. apply Hd; [|exact Hc]. destruct n. apply Hg. exact Hn.
    - apply good_selector. exact Hg.
    - pose proof (good_selectors_major l ns Hg) as H1.
      assert (H2 : Forall (good root) (flat_map (Rselectors l) ns)).
      { rewrite Forall_forall in *. intros c Hc. apply in_flat_map in Hc.
        destruct Hc as [n [Hn Hc]]. pose proof (good_selectors l n (Hg n Hn)) as H.
        rewrite Forall_forall in H. apply H. exact Hc. }
      destruct b; assumption.
  Qed.

  Lemma good_segments l : forall ns, Forall (good root) ns -> Forall (good root) (Rsegments l ns).
  Proof.
    induction l as [|s l IH]; intros ns Hg; autorewrite with rsteps; [exact Hg|].
    apply IH. apply good_segment. exact Hg.
  Qed.

  (* C01: every node of the RFC nodelist is the value that lives at its location *)
  Theorem query_nodes_located (q : query) :
    wf_json root = true ->
    Forall (fun n => lookup root (fst n) = Some (snd n)) (r_query rx_full rx_sub veq b root q).
  Proof.
    intros Hw. unfold r_query.
    assert (H : Forall (good root) (Rsegments q [([], root)])).
    { apply good_segments. constructor; [|constructor]. split; [reflexivity|exact Hw]. }
    rewrite Forall_forall in *. intros n Hn. apply (H n Hn).
  Qed.
End Located.
