(* Dec2Bin.v — models of the Rust std string-to-number functions parser.rs relies on:
   [str::parse::<i64>] and [str::parse::<f64>] (correctly rounded decimal -> binary64,
   round-to-nearest ties-to-even, subnormals, overflow to infinity).  Modelled, not verified;
   validated by the PARSE correspondence stream (and by Python's float() as a third opinion). *)
From Coq Require Import List NArith ZArith Bool.
From JP Require Import Base.
Import ListNotations.
Open Scope Z_scope.

Definition is_digit (c : N) : bool := (N.leb 48 c && N.leb c 57)%N.
Definition digit_val (c : N) : Z := Z.of_N c - 48.

Fixpoint digits_val (acc : Z) (s : str) : option Z :=
  match s with
  | [] => Some acc
  | c :: s' => if is_digit c then digits_val (acc * 10 + digit_val c) s' else None
  end.

(* i64::from_str: optional sign, at least one digit, digits only, must fit *)
Definition parse_i64 (s : str) : option Z :=
  let '(neg, body) :=
    match s with
    | 45%N :: r => (true, r)
    | 43%N :: r => (false, r)
    | _ => (false, s)
    end in
  match body with
  | [] => None
  | _ =>
      match digits_val 0 body with
      | Some v =>
          let z := if neg then - v else v in
          if Z.leb (- 2 ^ 63) z && Z.leb z (2 ^ 63 - 1) then Some z else None
      | None => None
      end
  end.

Inductive f64res := FFinite (d : dy) | FInf.

(* nearest binary64 to the positive rational num/den (num, den > 0) *)
Definition round_ratio (num den : Z) : f64res :=
  (* e0 = floor(log2(num/den)) up to an error of one; fixed below *)
  let k := Z.log2 num - Z.log2 den in
  let ge_pow := fun e : Z => (* num/den >= 2^e ? *)
    if Z.leb 0 e then Z.leb (den * 2 ^ e) num else Z.leb den (num * 2 ^ (- e)) in
  let lg := if ge_pow (k + 1) then k + 1 else if ge_pow k then k else k - 1 in
  let e := Z.max (lg - 52) (-1074) in                (* exponent of the unit in the last place *)
  (* q = floor(num / (den * 2^e)), r = remainder, scaled to integers *)
  let '(n', d') := if Z.leb 0 e then (num, den * 2 ^ e) else (num * 2 ^ (- e), den) in
  let q := n' / d' in
  let r := n' mod d' in
  let q' := if Z.ltb d' (2 * r) then q + 1
            else if Z.eqb d' (2 * r) then (if Z.even q then q else q + 1)
            else q in
  (* overflow: value >= 2^1024 after rounding *)
  if Z.leb (2 ^ 53 * 2 ^ 971) (q' * 2 ^ e) && Z.leb 0 e then FInf
  else if Z.ltb 971 e then FInf
  else FFinite (q', e).

(* value = digits * 10^exp10 *)
Definition dec_to_f64 (digits exp10 : Z) : f64res :=
  if Z.eqb digits 0 then FFinite (0, 0)
  else if Z.ltb 400 exp10 then FInf                             (* far beyond the largest double *)
  else if Z.ltb exp10 (-800 - Z.log2 digits) then FFinite (0, 0)       (* far below the smallest subnormal *)
  else if Z.leb 0 exp10 then round_ratio (digits * 10 ^ exp10) 1
  else round_ratio digits (10 ^ (- exp10)).

(* split a decimal literal of the grammar's [number] shape: [-] int [. frac] [(e|E) [sign] digits] *)
Fixpoint take_digits (s : str) : str * str :=
  match s with
  | c :: s' => if is_digit c then let '(d, r) := take_digits s' in (c :: d, r) else ([], s)
  | [] => ([], [])
  end.

(* f64::from_str on the strings that can reach it; None = Err.  The sign of zero is dropped
   (never observable here: -0.0 == 0.0 and the AST interchange format has no signed zero). *)
Definition parse_f64 (s : str) : option (bool * f64res) :=
  let '(neg, body) :=
    match s with
    | 45%N :: r => (true, r)
    | 43%N :: r => (false, r)
    | _ => (false, s)
    end in
  let '(ip, r1) := take_digits body in
  let '(fp, r2) :=
    match r1 with
    | 46%N :: r => take_digits r
    | _ => ([], r1)
    end in
  let has_dot := match r1 with 46%N :: _ => true | _ => false end in
  match ip, fp with
  | [], [] => None
  | _, _ =>
      let mant := digits_val 0 (ip ++ fp) in
      let exp_part : option Z :=
        match r2 with
        | [] => Some 0
        | c :: r =>
            if N.eqb c 101 || N.eqb c 69 then
              let '(eneg, eb) :=
                match r with
                | 45%N :: r' => (true, r')
                | 43%N :: r' => (false, r')
                | _ => (false, r)
                end in
              match eb with
              | [] => None
              | _ => match digits_val 0 eb with
                     | Some v => Some (if eneg then - v else v)
                     | None => None
                     end
              end
            else None
        end in
      match mant, exp_part with
      | Some m, Some ex => Some (neg, dec_to_f64 m (ex - Z.of_nat (length fp)))
      | _, _ => None
      end
  end.

Definition f64_signed (neg : bool) (r : f64res) : f64res :=
  match r with
  | FFinite (m, e) => FFinite (if neg then - m else m, e)
  | FInf => FInf
  end.
