(* PegAlpha.v — what a successful run of the matcher consumes is made of characters that the terminals of the grammar
   allow: if every string literal and every range of the grammar lies inside a set P of characters, every accepted input
   consists of characters of P.  For the generated grammar and P = "not a control character, or TAB / LF / CR" this is
   C07's "unescaped control characters are never accepted", for every input string. *)
From Coq Require Import List Arith NArith Bool Lia.
From JP Require Import Base Ast Peg PegFacts Build PegTerm TermCheck.
From JP.gen Require Import Grammar.
Import ListNotations.
Local Open Scope nat_scope.

Section Alpha.
  Variable rname : Type.
  Variable g : peg rname.
  Variable P : N -> bool.
  Variable rng : N -> N -> bool.
  Hypothesis rng_ok : forall lo hi c, rng lo hi = true -> N.leb lo c && N.leb c hi = true -> P c = true.

  Notation expr := (expr rname).
  Notation run := (Peg.run g).

  Fixpoint term_ok (e : expr) : bool :=
    match e with
    | EStr lit => forallb P lit
    | ERange lo hi => rng lo hi
    | ESeq x y | EAlt x y => term_ok x && term_ok y
    | EOpt x | ERep x | ERepTail x | ENot x | EAnd x => term_ok x
    | _ => true
    end.
  Hypothesis rules_ok : forall r, term_ok (snd (g_rule g r)) = true.

  Lemma match_str_prefix lit : forall s rest, match_str lit s = Some rest -> s = lit ++ rest.
  Proof.
    induction lit as [|c lit IH]; intros s rest Hm; cbn [match_str] in Hm.
    - inversion Hm. reflexivity.
    - destruct s as [|d s]; [discriminate|]. destruct (N.eqb_spec c d) as [->|]; [|discriminate].
      cbn [app]. f_equal. apply IH. exact Hm.
  Qed.

  Lemma run_alpha : forall f e a s pos rest p t,
    term_ok e = true -> run f e a s pos = Ok rest p t -> exists u, s = u ++ rest /\ forallb P u = true.
  Proof.
    induction f as [|f IH]; intros e a s pos rest p t He Hr; [discriminate|].
    assert (Hnil : forall x : str, exists u, x = u ++ x /\ forallb P u = true) by (intros x; exists []; split; reflexivity).
    destruct e; cbn [term_ok] in He; cbn [Peg.run] in Hr.
    - destruct (match_str s0 s) as [r|] eqn:E; [|discriminate]. inversion Hr; subst. exists s0. split; [apply match_str_prefix; exact E|exact He].
    - destruct s as [|c r]; [discriminate|]. destruct (N.leb lo c && N.leb c hi) eqn:E; [|discriminate]. inversion Hr; subst.
      exists [c]. split; [reflexivity|]. cbn [forallb]. rewrite (rng_ok lo hi c He E). reflexivity.
    - pose proof (rules_ok r) as Hb. destruct (g_rule g r) as [k body]. cbn [snd] in Hb. destruct k;
        (destruct (run f body _ s pos) as [| |r1 p1 t1] eqn:E; try discriminate; inversion Hr; subst; apply (IH _ _ _ _ _ _ _ Hb E)).
    - apply andb_true_iff in He. destruct He as [H1 H2].
      destruct (run f e1 a s pos) as [| |s1 p1 t1] eqn:E1; try discriminate.
      destruct (run f ESkip a s1 p1) as [| |s2 p2 t2] eqn:E2; try discriminate.
      destruct (run f e2 a s2 p2) as [| |s3 p3 t3] eqn:E3; try discriminate. inversion Hr; subst.
      destruct (IH _ _ _ _ _ _ _ H1 E1) as [u1 [-> F1]]. destruct (IH ESkip _ _ _ _ _ _ eq_refl E2) as [u2 [-> F2]].
      destruct (IH _ _ _ _ _ _ _ H2 E3) as [u3 [-> F3]].
      exists (u1 ++ u2 ++ u3). split; [rewrite <- !app_assoc; reflexivity|]. rewrite !forallb_app, F1, F2, F3. reflexivity.
    - apply andb_true_iff in He. destruct He as [H1 H2].
      destruct (run f e1 a s pos) as [| |s1 p1 t1] eqn:E1; try discriminate.
      + apply (IH _ _ _ _ _ _ _ H2 Hr).
      + inversion Hr; subst. apply (IH _ _ _ _ _ _ _ H1 E1).
    - destruct (run f e a s pos) as [| |s1 p1 t1] eqn:E1; try discriminate.
      + inversion Hr; subst. apply Hnil.
      + inversion Hr; subst. apply (IH _ _ _ _ _ _ _ He E1).
    - destruct (run f e a s pos) as [| |s1 p1 t1] eqn:E1; try discriminate.
      + inversion Hr; subst. apply Hnil.
      + destruct (run f (ERepTail e) a s1 p1) as [| |s2 p2 t2] eqn:E2; try discriminate. inversion Hr; subst.
        destruct (IH _ _ _ _ _ _ _ He E1) as [u1 [-> F1]]. destruct (IH (ERepTail e) _ _ _ _ _ _ He E2) as [u2 [-> F2]].
        exists (u1 ++ u2). split; [rewrite <- app_assoc; reflexivity|]. rewrite forallb_app, F1, F2. reflexivity.
    - destruct (run f ESkip a s pos) as [| |s1 p1 t1] eqn:E1; try discriminate.
      destruct (run f e a s1 p1) as [| |s2 p2 t2] eqn:E2; try discriminate.
      + inversion Hr; subst. apply Hnil.
      + destruct (Nat.eqb p2 pos); [inversion Hr; subst; apply Hnil|].
        destruct (run f (ERepTail e) a s2 p2) as [| |s3 p3 t3] eqn:E3; try discriminate. inversion Hr; subst.
        destruct (IH ESkip _ _ _ _ _ _ eq_refl E1) as [u1 [-> F1]]. destruct (IH _ _ _ _ _ _ _ He E2) as [u2 [-> F2]].
        destruct (IH (ERepTail e) _ _ _ _ _ _ He E3) as [u3 [-> F3]].
        exists (u1 ++ u2 ++ u3). split; [rewrite <- !app_assoc; reflexivity|]. rewrite !forallb_app, F1, F2, F3. reflexivity.
    - destruct (run f e a s pos) as [| |s1 p1 t1] eqn:E1; try discriminate. inversion Hr; subst. apply Hnil.
    - destruct (run f e a s pos) as [| |s1 p1 t1] eqn:E1; try discriminate. inversion Hr; subst. apply Hnil.
    - destruct a.
      + destruct (run f (ERep (ECall (g_ws g))) AAtomic s pos) as [| |s1 p1 t1] eqn:E1; try discriminate. inversion Hr; subst.
        apply (IH (ERep (ECall (g_ws g))) _ _ _ _ _ _ eq_refl E1).
      + inversion Hr; subst. apply Hnil.
      + inversion Hr; subst. apply Hnil.
    - destruct (Nat.eqb pos 0); [|discriminate]. inversion Hr; subst. apply Hnil.
    - destruct s; [|discriminate]. inversion Hr; subst. apply Hnil.
  Qed.
End Alpha.

(* ---------- the generated grammar: no control character other than TAB, LF, CR is ever accepted ---------- *)
Definition visible_or_blank (c : N) : bool := N.leb 32 c || N.eqb c 9 || N.eqb c 10 || N.eqb c 13.
Definition rng_visible (lo hi : N) : bool := N.leb 32 lo.

Lemma rng_visible_ok lo hi c : rng_visible lo hi = true -> N.leb lo c && N.leb c hi = true -> visible_or_blank c = true.
Proof.
  unfold rng_visible, visible_or_blank. intros H1 H2. apply andb_true_iff in H2. destruct H2 as [H2 _].
  apply N.leb_le in H1. apply N.leb_le in H2. destruct (N.leb_spec 32 c); [reflexivity|lia].
Qed.

Lemma grammar_terminals_visible : forall r, term_ok rname visible_or_blank rng_visible (snd (g_rule grammar r)) = true.
Proof. intros r. destruct r; vm_compute; reflexivity. Qed.

Lemma seq_eoi_rest f (x : expr rname) a s pos rest p t :
  Peg.run grammar f (ESeq x EEoi) a s pos = Ok rest p t -> rest = [].
Proof.
  destruct f as [|f]; [discriminate|]. cbn [Peg.run].
  destruct (Peg.run grammar f x a s pos) as [| |s1 p1 t1]; try discriminate.
  destruct (Peg.run grammar f ESkip a s1 p1) as [| |s2 p2 t2]; try discriminate.
  destruct f as [|f]; [discriminate|]. cbn [Peg.run]. destruct s2; [|discriminate]. intros Hr. inversion Hr. reflexivity.
Qed.

Lemma main_consumes_all f s rest p t :
  Peg.run grammar f (ECall R_main) ANonAtomic s 0 = Ok rest p t -> rest = [].
Proof.
  destruct f as [|f]; [discriminate|].
  change (Peg.run grammar (S f) (ECall R_main) ANonAtomic s 0)
    with (match Peg.run grammar f (ESeq (ESeq ESoi (ECall R_jp_query)) EEoi) ANonAtomic s 0 with
          | Ok rest p toks => Ok rest p (if emits ANonAtomic then [Pair R_main 0 p toks] else [])
          | x => x end).
  destruct (Peg.run grammar f (ESeq (ESeq ESoi (ECall R_jp_query)) EEoi) ANonAtomic s 0) as [| |r1 p1 t1] eqn:E; try discriminate.
  intros Hr. inversion Hr. subst. apply (seq_eoi_rest _ _ _ _ _ _ _ _ E).
Qed.

Lemma main_ok_visible F (s rest : str) p toks :
  Peg.run grammar F (ECall R_main) ANonAtomic s 0 = Ok rest p toks -> forallb visible_or_blank s = true.
Proof.
  intros E.
  destruct (run_alpha rname grammar visible_or_blank rng_visible rng_visible_ok grammar_terminals_visible
              F (ECall R_main) ANonAtomic s 0 rest p toks eq_refl E) as [u [Es Hu]].
  rewrite (main_consumes_all F s rest p toks E) in Es. rewrite app_nil_r in Es. subst u. exact Hu.
Qed.

(* every accepted query string consists of visible characters and TAB / LF / CR only *)
Theorem accepted_has_no_control_chars (s : str) (q : query) :
  parse_query s = POk q -> forallb visible_or_blank s = true.
Proof.
  unfold parse_query, parse_model. destruct (negb (str_eqb s (trim_blank s))); [discriminate|]. unfold parse_rule.
  destruct (Peg.run grammar (parse_fuel s) (ECall R_main) ANonAtomic s 0) as [| |rest p toks] eqn:E; try discriminate. intros _.
  exact (main_ok_visible _ _ _ _ _ E).
Qed.

(* the same, read as a rejection: a control character other than TAB / LF / CR anywhere in the input - first, last, inside a
   name, inside a filter, after any prefix - makes the parser answer PErr (not out-of-fuel: TermCheck; not the model's
   abstention PInfLit either) *)
Theorem control_char_anywhere_rejected (pre post : str) (c : N) :
  visible_or_blank c = false -> parse_query (pre ++ c :: post) = PErr.
Proof.
  intros Hc. unfold parse_query, parse_model. destruct (negb (str_eqb _ _)); [reflexivity|]. unfold parse_rule.
  pose proof (main_never_out_of_fuel (pre ++ c :: post)) as Hm.
  destruct (Peg.run grammar (parse_fuel (pre ++ c :: post)) (ECall R_main) ANonAtomic (pre ++ c :: post) 0) as [| |rest p toks] eqn:E;
    [reflexivity|contradiction|].
  apply main_ok_visible in E. rewrite forallb_app in E. cbn [forallb] in E. rewrite Hc in E.
  rewrite andb_false_r in E. discriminate.
Qed.
