(* SingularFacts.v — RFC 9535 2.3.5.1: a singular query (name and index segments only) produces a nodelist of at most one node.
   Proved of the RFC semantics (both settings of the switch sel_major) for EVERY document and every singular segment list,
   and carried to the model of the crate through Theorem A (Refine.v): what `js_path_process` returns for a well-formed
   singular query has at most one element. *)
From Coq Require Import List NArith ZArith Bool Lia.
From JP Require Import Base Ast Eval ValueModel Spec Known WellFormed Regex Entry DataFacts SelFacts Refine RegexFacts.
Import ListNotations.
Local Open Scope nat_scope.

Lemma sel_name_le1 k n : length (sel_name k n) <= 1.
Proof.
  unfold sel_name. destruct (decode_name k) as [k'|]; [|cbn [length]; lia].
  destruct (snd n); cbn [length]; try lia. destruct (assoc k' _); cbn [length]; lia.
Qed.

Lemma sel_index_le1 i n : length (sel_index i n) <= 1.
Proof.
  unfold sel_index. destruct (snd n) as [| | | |a|]; cbn [length]; try lia.
  destruct (rfc_index _ i) as [j|]; cbn [length]; [|lia].
  destruct (nth_error a (Z.to_nat j)); cbn [length]; lia.
Qed.

Lemma flat_map_le1 (f : node -> list node) ns :
  (forall n, length (f n) <= 1) -> length ns <= 1 -> length (flat_map f ns) <= 1.
Proof.
  intros Hf Hn. destruct ns as [|n [|n2 ns]]; cbn [flat_map length] in *; [lia| |lia].
  rewrite app_nil_r. apply Hf.
Qed.

Section Sing.
  Variable rx_full : str -> str -> bool.
  Variable rx_sub : str -> str -> bool.
  Variable veq : json -> json -> bool.
  Variable major : bool.
  Variable root : json.

  Lemma singular_segments_le1 l : singular l = true ->
    forall ns, length ns <= 1 -> length (r_segments rx_full rx_sub veq major root l ns) <= 1.
  Proof.
    induction l as [|s l IH]; intros Hs ns Hn; [exact Hn|].
    cbn [singular] in Hs. apply andb_true_iff in Hs. destruct Hs as [Hs Hl].
    cbn [r_segments]. apply IH; [exact Hl|].
    destruct s as [s'|sel|sl]; try discriminate.
    destruct sel as [k| |i|a b c|f]; try discriminate; cbn [r_segment r_selector].
    - apply flat_map_le1; [intros n; apply sel_name_le1|exact Hn].
    - apply flat_map_le1; [intros n; apply sel_index_le1|exact Hn].
  Qed.

  Lemma singular_query_le1 q : singular q = true -> length (r_query rx_full rx_sub veq major root q) <= 1.
  Proof. intros H. unfold r_query. apply singular_segments_le1; [exact H|cbn [length]; lia]. Qed.
End Sing.

Theorem singular_rfc_at_most_one q d : singular q = true -> length (rfc_query q d) <= 1.
Proof. intros H. unfold rfc_query, s_query. apply singular_query_le1. exact H. Qed.

Theorem singular_model_at_most_one q d ps :
  wf_query q = true -> singular q = true -> m_query q d = Some ps -> length ps <= 1.
Proof.
  intros Hw Hs Hm.
  destruct (js_path_process_refines rx_model_search rx_spec_full rx_spec_sub rx_model_full_ok rx_model_sub_ok q d Hw)
    as [ps' [E1 E2]].
  change (m_query q d = Some ps') in E1. rewrite Hm in E1. injection E1 as <-.
  assert (Hlen : length ps = length (map node_of ps)) by (symmetry; apply map_length).
  rewrite Hlen, E2. unfold cur_query, s_query. apply singular_query_le1. exact Hs.
Qed.

(* ---- the singular queries that are operands of comparisons (Ast.squery: a list of name / index steps from @ or $) ---- *)
Lemma sq_steps_le1 l : forall ns, length ns <= 1 ->
  length (fold_left (fun ns s => flat_map (sq_step s) ns) l ns) <= 1.
Proof.
  induction l as [|s l IH]; intros ns Hn; cbn [fold_left]; [exact Hn|]. apply IH.
  apply flat_map_le1; [|exact Hn]. intros n. destruct s; cbn [sq_step]; [apply sel_index_le1|apply sel_name_le1].
Qed.

Theorem squery_le1 root q cur : length (r_squery root q cur) <= 1.
Proof. destruct q; cbn [r_squery]; apply sq_steps_le1; cbn [length]; lia. Qed.

(* the operand denotes Nothing exactly when the query selects no node, and otherwise the value of its only node: the third
   case of [as_value] (several nodes, read as Nothing) never arises for a comparison operand *)
Theorem singular_operand rf rs veq major root q cur :
  (r_squery root q cur = [] /\ r_comparable rf rs veq major root (CSq q) cur = None)
  \/ (exists n, r_squery root q cur = [n] /\ r_comparable rf rs veq major root (CSq q) cur = Some (snd n)).
Proof.
  pose proof (squery_le1 root q cur) as H. cbn [r_comparable]. unfold as_value.
  destruct (r_squery root q cur) as [|n [|n2 r]]; cbn [length] in H.
  - left. split; reflexivity.
  - right. exists n. split; reflexivity.
  - exfalso. lia.
Qed.

(* ---- the same path written as a comparison operand and as a query (existence test, function argument) selects the same nodes ---- *)
Fixpoint sq_segs (l : list sqseg) : segments :=
  match l with
  | [] => GNil
  | SqIndex i :: r => GCons (SegSel (SelIndex i)) (sq_segs r)
  | SqName k :: r => GCons (SegSel (SelName k)) (sq_segs r)
  end.

Lemma sq_segs_singular l : singular (sq_segs l) = true.
Proof. induction l as [|[i|k] l IH]; cbn [sq_segs singular singular_seg andb]; [reflexivity|exact IH|exact IH]. Qed.

Lemma sq_steps_segments rf rs veq major root l : forall ns,
  fold_left (fun ns s => flat_map (sq_step s) ns) l ns = r_segments rf rs veq major root (sq_segs l) ns.
Proof. induction l as [|s l IH]; intros ns; [reflexivity|]. cbn [fold_left]. rewrite IH. destruct s; reflexivity. Qed.

Theorem squery_as_segments rf rs veq major root l cur :
  r_squery root (SqCur l) cur = r_segments rf rs veq major root (sq_segs l) [([], cur)]
  /\ r_squery root (SqRoot l) cur = r_segments rf rs veq major root (sq_segs l) [([], root)].
Proof. split; cbn [r_squery]; apply sq_steps_segments. Qed.

(* the existence test @.path holds exactly when the operand @.path of a comparison is not Nothing *)
Theorem existence_iff_operand rf rs veq major root l cur :
  as_logical (r_test rf rs veq major root (TRel (sq_segs l)) cur) = true
  <-> r_comparable rf rs veq major root (CSq (SqCur l)) cur <> None.
Proof.
  destruct (singular_operand rf rs veq major root (SqCur l) cur) as [[E1 E2]|[n [E1 E2]]]; rewrite E2;
    destruct (squery_as_segments rf rs veq major root l cur) as [Es _]; rewrite E1 in Es;
    change (r_test rf rs veq major root (TRel (sq_segs l)) cur)
      with (RNodes (r_segments rf rs veq major root (sq_segs l) [([], cur)])); rewrite <- Es; cbn [as_logical]; split; intros H; try discriminate; try reflexivity.
  exfalso. apply H. reflexivity.
Qed.

(* ---- count() and value() over a singular query ---- *)
Theorem count_of_singular rf rs veq major root q cur : singular q = true ->
  let c := r_tfun rf rs veq major root (FnCount (ArgTest (TRel q))) cur in
  c = RValue (Some (jint 0)) \/ c = RValue (Some (jint 1)).
Proof.
  intros Hs c. subst c.
  change (r_tfun rf rs veq major root (FnCount (ArgTest (TRel q))) cur)
    with (RValue (rfc_count (r_segments rf rs veq major root q [([], cur)]))).
  pose proof (singular_segments_le1 rf rs veq major root q Hs [([], cur)]) as H. cbn [length] in H. specialize (H (le_n 1)).
  unfold rfc_count. destruct (r_segments rf rs veq major root q [([], cur)]) as [|n [|n2 r]]; cbn [length] in *.
  - left. reflexivity.
  - right. reflexivity.
  - exfalso. lia.
Qed.

(* value(@.path) is the operand @.path of a comparison *)
Theorem value_of_singular_is_operand rf rs veq major root l cur :
  r_tfun rf rs veq major root (FnValue (ArgTest (TRel (sq_segs l)))) cur
  = RValue (r_comparable rf rs veq major root (CSq (SqCur l)) cur).
Proof.
  change (r_tfun rf rs veq major root (FnValue (ArgTest (TRel (sq_segs l)))) cur)
    with (RValue (rfc_value (r_segments rf rs veq major root (sq_segs l) [([], cur)]))).
  destruct (squery_as_segments rf rs veq major root l cur) as [Es _]. rewrite <- Es.
  change (r_comparable rf rs veq major root (CSq (SqCur l)) cur) with (as_value (RNodes (r_squery root (SqCur l) cur))).
  unfold rfc_value, as_value. destruct (r_squery root (SqCur l) cur) as [|n [|n2 r]]; reflexivity.
Qed.

(* hence a comparison whose operand is value(@.path) has the truth value of the comparison on @.path itself *)
Theorem value_call_compares_as_path rf rs veq major root l cur op r :
  r_atom rf rs veq major root (ACmp op (CFn (FnValue (ArgTest (TRel (sq_segs l))))) r) cur
  = r_atom rf rs veq major root (ACmp op (CSq (SqCur l)) r) cur.
Proof.
  change (r_atom rf rs veq major root (ACmp op (CFn (FnValue (ArgTest (TRel (sq_segs l))))) r) cur)
    with (rfc_compare op (as_value (r_tfun rf rs veq major root (FnValue (ArgTest (TRel (sq_segs l)))) cur))
                         (r_comparable rf rs veq major root r cur)).
  rewrite value_of_singular_is_operand. reflexivity.
Qed.
