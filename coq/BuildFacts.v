(* BuildFacts.v — invariants of everything the parser model constructs (induction over the walk of
   parser.rs): every AST it returns is well-typed in the sense of RFC 9535 2.4.3 — except that
   calls of functions the RFC does not define are let through to the extension hook — and all
   integers of index selectors, slice selectors and singular-query indices are within the
   I-JSON range. *)
From Coq Require Import List NArith ZArith Bool Lia.
From JP Require Import Base Ast Peg Dec2Bin Known Build BuildSteps Concrete.
From JP.gen Require Import Grammar.
Import ListNotations.
Open Scope Z_scope.

(* ---------- the invariant: typing with extension calls let through + integer ranges ---------- *)
Definition oz_ok (o : option Z) : bool := match o with Some z => in_ijson z | None => true end.

Fixpoint v_segment (s : segment) : bool :=
  match s with SegDesc s' => v_segment s' | SegSel x => v_selector x | SegSels l => v_selectors l end
with v_selector (s : selector) : bool :=
  match s with
  | SelIndex i => in_ijson i
  | SelSlice a b c => oz_ok a && oz_ok b && oz_ok c
  | SelFilter f => v_filter f
  | _ => true
  end
with v_selectors (l : selectors) : bool :=
  match l with SNil => true | SCons s l' => v_selector s && v_selectors l' end
with v_segments (l : segments) : bool :=
  match l with GNil => true | GCons s l' => v_segment s && v_segments l' end
with v_filter (f : filter) : bool :=
  match f with FOr l | FAnd l => v_filters l | FAtom a => v_atom a end
with v_filters (l : filters) : bool :=
  match l with FNil => true | FCons f l' => v_filter f && v_filters l' end
with v_atom (a : atom) : bool :=
  match a with
  | AFilter f _ => v_filter f
  | ATest t _ =>
      match t with
      | TRel l | TAbs l => v_segments l
      | TFn f => negb (std_value_fn f) && v_tfun f
      end
  | ACmp _ l r => v_comparable l && v_comparable r
  end
with v_comparable (c : comparable) : bool :=
  match c with
  | CLit _ => true
  | CSq (SqCur l) | CSq (SqRoot l) => sq_in_range l
  | CFn f => std_value_fn f && v_tfun f
  end
with v_tfun (f : tfun) : bool :=
  match f with
  | FnLength a => v_value_arg a
  | FnCount a | FnValue a => v_nodes_arg a
  | FnMatch a b | FnSearch a b => v_value_arg a && v_value_arg b
  | FnCustom _ args => v_any_args args
  end
with v_value_arg (a : fnarg) : bool :=
  match a with
  | ArgLit _ => true
  | ArgTest t =>
      match t with
      | TRel l | TAbs l => singular' l && v_segments l
      | TFn f => std_value_fn f && v_tfun f
      end
  | ArgFilter _ => false
  end
with v_nodes_arg (a : fnarg) : bool :=
  match a with
  | ArgTest t => match t with TRel l | TAbs l => v_segments l | TFn _ => false end
  | _ => false
  end
(* an argument of an extension function: anything, as long as what is inside is valid *)
with v_any_arg (a : fnarg) : bool :=
  match a with
  | ArgLit _ => true
  | ArgTest t => match t with TRel l | TAbs l => v_segments l | TFn f => v_tfun f end
  | ArgFilter f => v_filter f
  end
with v_any_args (l : fnargs) : bool :=
  match l with ANil => true | ACons a l' => v_any_arg a && v_any_args l' end.

(* ---------- small inversion helpers ---------- *)
Lemma bind_some {A B} (o : option A) (f : A -> option B) y :
  bind o f = Some y -> exists x, o = Some x /\ f x = Some y.
Proof. destruct o as [x|]; [intros H; exists x; split; [reflexivity|exact H]|discriminate]. Qed.

Lemma mapM_forall {A B} (f : A -> option B) (P : B -> Prop) l : forall ys,
  mapM f l = Some ys -> (forall x y, In x l -> f x = Some y -> P y) -> Forall P ys.
Proof.
  induction l as [|x l IH]; intros ys H HP; cbn [mapM] in H.
  - inversion H. constructor.
  - apply bind_some in H. destruct H as [y [Hy H2]]. apply bind_some in H2. destruct H2 as [ys' [Hys H3]].
    inversion H3. subst. constructor.
    + apply (HP x y); [left; reflexivity|exact Hy].
    + apply IH; [exact Hys|]. intros x' y' Hin. apply HP. right. exact Hin.
Qed.

Lemma validate_range_ok v v' : validate_range v = Some v' -> v' = v /\ in_ijson v = true.
Proof.
  unfold validate_range, in_ijson, MAX_VAL, MIN_VAL.
  destruct (Z.ltb_spec 9007199254740991 v) as [H1|H1], (Z.ltb_spec v (-9007199254740991)) as [H2|H2];
    cbn [orb]; try discriminate.
  intros E. inversion E. subst. split; [reflexivity|].
  apply andb_true_iff. split; apply Z.leb_le; lia.
Qed.

Lemma v_segments_of_list l : v_segments (segments_of_list l) = forallb v_segment l.
Proof. induction l as [|x l IH]; [reflexivity|]. cbn [segments_of_list v_segments forallb]. rewrite IH. reflexivity. Qed.
Lemma v_selectors_of_list l : v_selectors (selectors_of_list l) = forallb v_selector l.
Proof. induction l as [|x l IH]; [reflexivity|]. cbn. rewrite <- IH. reflexivity. Qed.
Lemma v_filters_of_list l : v_filters (filters_of_list l) = forallb v_filter l.
Proof. induction l as [|x l IH]; [reflexivity|]. cbn. rewrite <- IH. reflexivity. Qed.
Lemma v_any_args_of_list l : v_any_args (fnargs_of_list l) = forallb v_any_arg l.
Proof. induction l as [|x l IH]; [reflexivity|]. cbn. rewrite <- IH. reflexivity. Qed.
Lemma forall_forallb {A} (f : A -> bool) l : Forall (fun x => f x = true) l -> forallb f l = true.
Proof. intros H. apply forallb_forall. rewrite Forall_forall in H. exact H. Qed.

Lemma singular_b_eq l : singular_b l = singular' l.
Proof. induction l as [|s l IH]; [reflexivity|]. cbn. rewrite IH. destruct s as [|[]|]; reflexivity. Qed.

(* ---------- the non-recursive pieces ---------- *)
Lemma b_slice_ok inp p a b c : b_slice inp p = Some (a, b, c) -> oz_ok a && oz_ok b && oz_ok c = true.
Proof.
  unfold b_slice.
  assert (G : forall l acc, (forall a b c, acc = Some (a, b, c) -> oz_ok a && oz_ok b && oz_ok c = true) ->
            forall a b c,
            fold_left (fun acc r =>
               bind acc (fun '(st, en, sp) =>
                 if is_rule R_start r then bind (get_int inp r) (fun v => bind (validate_range v) (fun v' => Some (Some v', en, sp)))
                 else if is_rule R_end r then bind (get_int inp r) (fun v => bind (validate_range v) (fun v' => Some (st, Some v', sp)))
                 else if is_rule R_step r then
                   match p_kids r with
                   | i :: _ => bind (get_int inp i) (fun v => bind (validate_range v) (fun v' => Some (st, en, Some v')))
                   | [] => Some (st, en, None)
                   end
                 else None)) l acc = Some (a, b, c) -> oz_ok a && oz_ok b && oz_ok c = true).
  { induction l as [|r l IH]; intros acc Hacc a0 b0 c0 H; cbn [fold_left] in H.
    - apply Hacc. exact H.
    - eapply IH; [|exact H]. clear H. intros a1 b1 c1 H.
      destruct acc as [[[st en] sp]|]; [|discriminate]. cbn [bind] in H.
      specialize (Hacc st en sp eq_refl). apply andb_true_iff in Hacc. destruct Hacc as [Hacc Hsp].
      apply andb_true_iff in Hacc. destruct Hacc as [Hst Hen].
      destruct (is_rule R_start r).
      + apply bind_some in H. destruct H as [v [_ H]]. apply bind_some in H. destruct H as [v' [Hv H]].
        inversion H. subst. apply validate_range_ok in Hv. destruct Hv as [-> Hv].
        cbn [oz_ok]. rewrite Hv, Hen, Hsp. reflexivity.
      + destruct (is_rule R_end r).
        * apply bind_some in H. destruct H as [v [_ H]]. apply bind_some in H. destruct H as [v' [Hv H]].
          inversion H. subst. apply validate_range_ok in Hv. destruct Hv as [-> Hv].
          cbn [oz_ok]. rewrite Hv, Hst, Hsp. reflexivity.
        * destruct (is_rule R_step r); [|discriminate].
          destruct (p_kids r) as [|i ?].
          -- inversion H. subst. cbn [oz_ok]. rewrite Hst, Hen. reflexivity.
          -- apply bind_some in H. destruct H as [v [_ H]]. apply bind_some in H. destruct H as [v' [Hv H]].
             inversion H. subst. apply validate_range_ok in Hv. destruct Hv as [-> Hv].
             cbn [oz_ok]. rewrite Hv, Hst, Hen. reflexivity. }
  apply G. intros a0 b0 c0 H. inversion H. reflexivity.
Qed.

Lemma b_sqsegs_ok inp p l : b_sqsegs inp p = Some l -> sq_in_range l = true.
Proof.
  unfold b_sqsegs, sq_in_range. intros H. apply forall_forallb.
  eapply mapM_forall; [exact H|]. intros r y _ Hr. cbn beta in Hr.
  destruct (is_rule R_name_segment r).
  - apply bind_some in Hr. destruct Hr as [k [_ Hr]]. inversion Hr. reflexivity.
  - destruct (is_rule R_index_segment r); [|discriminate].
    apply bind_some in Hr. destruct Hr as [k [_ Hr]]. apply bind_some in Hr. destruct Hr as [v [_ Hr]].
    apply bind_some in Hr. destruct Hr as [v' [Hv Hr]]. inversion Hr. subst.
    apply validate_range_ok in Hv. destruct Hv as [-> Hv]. exact Hv.
Qed.

Lemma b_squery_ok inp p q : b_squery inp p = Some q -> v_comparable (CSq q) = true.
Proof.
  unfold b_squery. intros H. apply bind_some in H. destruct H as [x [_ H]].
  apply bind_some in H. destruct H as [sp [_ H]]. apply bind_some in H. destruct H as [segs [Hs H]].
  apply b_sqsegs_ok in Hs.
  destruct (is_rule R_rel_singular_query x); [inversion H; subst; exact Hs|].
  destruct (is_rule R_abs_singular_query x); [inversion H; subst; exact Hs|discriminate].
Qed.

Lemma value_type_arg a : is_value_type a = true -> v_any_arg a = true -> v_value_arg a = true.
Proof.
  destruct a as [l|t|f]; [reflexivity| |discriminate].
  destruct t as [l|l|f]; cbn [is_value_type v_any_arg v_value_arg]; rewrite ?singular_b_eq.
  - intros -> ->. reflexivity.
  - intros -> ->. reflexivity.
  - unfold is_comparable_fn, std_value_fn. intros H1 H2. rewrite H2.
    destruct f; try discriminate; reflexivity.
Qed.
Lemma nodes_type_arg a : is_nodes_type a = true -> v_any_arg a = true -> v_nodes_arg a = true.
Proof.
  destruct a as [l|t|f]; try discriminate. destruct t as [l|l|f]; try discriminate; cbn; auto.
Qed.

Lemma tfun_try_new_ok name args f :
  tfun_try_new name args = Some f -> Forall (fun a => v_any_arg a = true) args -> v_tfun f = true.
Proof.
  unfold tfun_try_new. intros H Hargs.
  assert (Hcustom : v_tfun (FnCustom name (fnargs_of_list args)) = true).
  { cbn [v_tfun]. rewrite v_any_args_of_list. apply forall_forallb. exact Hargs. }
  destruct args as [|a [|b [|c rest]]].
  - destruct (_ || _); [discriminate|]. inversion H. subst. exact Hcustom.
  - inversion Hargs as [|? ? Ha _]; subst.
    destruct (str_eqb name s_length).
    { destruct (is_value_type a) eqn:E; [|discriminate]. inversion H. subst. cbn. apply value_type_arg; assumption. }
    destruct (str_eqb name s_value).
    { destruct (is_nodes_type a) eqn:E; [|discriminate]. inversion H. subst. cbn. apply nodes_type_arg; assumption. }
    destruct (str_eqb name s_count).
    { destruct (is_nodes_type a) eqn:E; [|discriminate]. inversion H. subst. cbn. apply nodes_type_arg; assumption. }
    destruct (_ || _); [discriminate|]. inversion H. subst. exact Hcustom.
  - inversion Hargs as [|? ? Ha Hr]; subst. inversion Hr as [|? ? Hb _]; subst.
    destruct (str_eqb name s_search).
    { destruct (is_value_type a) eqn:E1; [|discriminate]. destruct (is_value_type b) eqn:E2; [|discriminate].
      inversion H. subst. cbn. rewrite !value_type_arg by assumption. reflexivity. }
    destruct (str_eqb name s_match).
    { destruct (is_value_type a) eqn:E1; [|discriminate]. destruct (is_value_type b) eqn:E2; [|discriminate].
      inversion H. subst. cbn. rewrite !value_type_arg by assumption. reflexivity. }
    destruct (_ || _); [discriminate|]. inversion H. subst. exact Hcustom.
  - destruct (_ || _); [discriminate|]. inversion H. subst. exact Hcustom.
Qed.

Definition v_test (t : test) : bool :=
  match t with TRel l | TAbs l => v_segments l | TFn f => v_tfun f end.

(* ---------- the walk ---------- *)
Section Walk.
  Variable inp : str.

  Definition Inv (fuel : nat) : Prop :=
    (forall p q, b_segments inp fuel p = Some q -> v_segments q = true) /\
    (forall p s, b_segment inp fuel p = Some s -> v_segment s = true) /\
    (forall p s, b_child_segment inp fuel p = Some s -> v_segment s = true) /\
    (forall p s, b_selector inp fuel p = Some s -> v_selector s = true) /\
    (forall p f, b_logical_expr inp fuel p = Some f -> v_filter f = true) /\
    (forall p f, b_logical_expr_and inp fuel p = Some f -> v_filter f = true) /\
    (forall p a, b_filter_atom inp fuel p = Some a -> v_atom a = true) /\
    (forall p c, b_comparable inp fuel p = Some c -> v_comparable c = true) /\
    (forall p t, b_test inp fuel p = Some t -> v_test t = true) /\
    (forall p f, b_function_expr inp fuel p = Some f -> v_tfun f = true).

  Lemma fold_last_some {A} (isr : pr -> bool) (g : pr -> option A) (P : A -> Prop) :
    (forall r x, g r = Some x -> P x) ->
    forall l acc x,
    (forall y, acc = Some (Some y) -> P y) ->
    fold_left (fun acc r => bind acc (fun cur => if isr r then bind (g r) (fun e => Some (Some e)) else Some cur)) l acc
    = Some (Some x) -> P x.
  Proof.
    intros Hg. induction l as [|r l IH]; intros acc x Hacc H; cbn [fold_left] in H.
    - apply Hacc. exact H.
    - eapply IH; [|exact H]. intros y Hy. destruct acc as [cur|]; [|discriminate]. cbn [bind] in Hy.
      destruct (isr r).
      + apply bind_some in Hy. destruct Hy as [e [He Hy]]. inversion Hy. subst. eapply Hg. exact He.
      + inversion Hy. subst. apply Hacc. reflexivity.
  Qed.

  Theorem walk_inv : forall fuel, Inv fuel.
  Proof.
    induction fuel as [|f IH]; [repeat split; intros; discriminate|].
    destruct IH as [Isegs [Iseg [Ichild [Isel [Ior [Iand [Iatom [Icmp [Itest Ifn]]]]]]]]].
    repeat split.
    - (* b_segments *)
      intros p q H. rewrite b_segments_step in H. apply bind_some in H. destruct H as [l [Hl H]].
      inversion H. subst. rewrite v_segments_of_list. apply forall_forallb.
      eapply mapM_forall; [exact Hl|]. intros r y _ Hr. apply bind_some in Hr. destruct Hr as [k [_ Hr]].
      eapply Iseg. exact Hr.
    - (* b_segment *)
      intros p s H. rewrite b_segment_step in H.
      destruct (is_rule R_child_segment p).
      + cbv zeta in H. match type of H with (if ?c then _ else _) = _ => destruct c end; [discriminate|].
        apply bind_some in H. destruct H as [k [_ H]]. eapply Ichild. exact H.
      + destruct (is_rule R_descendant_segment p); [|discriminate].
        destruct (nth_error _ 2) as [c|]; [|discriminate]. destruct (is_blank c); [discriminate|].
        apply bind_some in H. destruct H as [k [_ H]]. apply bind_some in H. destruct H as [s' [Hs H]].
        inversion H. subst. cbn [v_segment]. eapply Ichild. exact Hs.
    - (* b_child_segment *)
      intros p s H. rewrite b_child_segment_step in H.
      destruct (is_rule R_wildcard_selector p); [inversion H; reflexivity|].
      destruct (is_rule R_member_name_shorthand p); [inversion H; reflexivity|].
      destruct (is_rule R_bracketed_selection p); [|discriminate].
      apply bind_some in H. destruct H as [sels [Hs H]].
      assert (Hall : Forall (fun x => v_selector x = true) sels).
      { eapply mapM_forall; [exact Hs|]. intros r y _ Hr. eapply Isel. exact Hr. }
      destruct sels as [|s1 [|s2 rest]]; inversion H; subst; cbn [v_segment].
      + reflexivity.
      + inversion Hall. assumption.
      + change (SCons s1 (SCons s2 (selectors_of_list rest))) with (selectors_of_list (s1 :: s2 :: rest)).
        rewrite v_selectors_of_list. apply forall_forallb. exact Hall.
    - (* b_selector *)
      intros p s H. rewrite b_selector_step in H. apply bind_some in H. destruct H as [child [_ H]].
      destruct (is_rule R_name_selector child).
      { apply bind_some in H. destruct H as [x [_ H]]. inversion H. reflexivity. }
      destruct (is_rule R_wildcard_selector child); [inversion H; reflexivity|].
      destruct (is_rule R_index_selector child).
      { apply bind_some in H. destruct H as [v [_ H]]. apply bind_some in H. destruct H as [v' [Hv H]].
        inversion H. subst. apply validate_range_ok in Hv. destruct Hv as [-> Hv]. exact Hv. }
      destruct (is_rule R_slice_selector child).
      { apply bind_some in H. destruct H as [[[a b] c] [Hs H]]. inversion H. subst.
        cbn [v_selector]. eapply b_slice_ok. exact Hs. }
      destruct (is_rule R_filter_selector child); [|discriminate].
      apply bind_some in H. destruct H as [le [_ H]]. apply bind_some in H. destruct H as [fl [Hf H]].
      inversion H. subst. cbn [v_selector]. eapply Ior. exact Hf.
    - (* b_logical_expr *)
      intros p fl H. rewrite b_logical_expr_step in H. apply bind_some in H. destruct H as [ors [Ho H]].
      assert (Hall : Forall (fun x => v_filter x = true) ors).
      { eapply mapM_forall; [exact Ho|]. intros r y _ Hr. eapply Iand. exact Hr. }
      destruct ors as [|o1 [|o2 rest]]; inversion H; subst; cbn [v_filter].
      + reflexivity.
      + inversion Hall. assumption.
      + change (FCons o1 (FCons o2 (filters_of_list rest))) with (filters_of_list (o1 :: o2 :: rest)).
        rewrite v_filters_of_list. apply forall_forallb. exact Hall.
    - (* b_logical_expr_and *)
      intros p fl H. rewrite b_logical_expr_and_step in H. apply bind_some in H. destruct H as [ands [Ha H]].
      assert (Hall : Forall (fun x => v_filter x = true) ands).
      { eapply mapM_forall; [exact Ha|]. intros r y _ Hr. apply bind_some in Hr. destruct Hr as [a [Hat Hr]].
        inversion Hr. subst. cbn [v_filter]. eapply Iatom. exact Hat. }
      destruct ands as [|o1 [|o2 rest]]; inversion H; subst; cbn [v_filter].
      + reflexivity.
      + inversion Hall. assumption.
      + change (FCons o1 (FCons o2 (filters_of_list rest))) with (filters_of_list (o1 :: o2 :: rest)).
        rewrite v_filters_of_list. apply forall_forallb. exact Hall.
    - (* b_filter_atom *)
      intros p a H. rewrite b_filter_atom_step in H. apply bind_some in H. destruct H as [rule [_ H]].
      destruct (is_rule R_paren_expr rule).
      { apply bind_some in H. destruct H as [le [Hle H]]. destruct le as [e|]; [|discriminate].
        inversion H. subst. cbn [v_atom].
        eapply (fold_last_some (is_rule R_logical_expr) (b_logical_expr inp f) (fun e => v_filter e = true));
          [intros r x Hx; eapply Ior; exact Hx| |exact Hle]. intros y Hy. discriminate. }
      destruct (is_rule R_comp_expr rule).
      { destruct (p_kids rule) as [|l [|op [|r rest]]]; try discriminate.
        apply bind_some in H. destruct H as [lc [Hl H]]. apply bind_some in H. destruct H as [rc [Hr H]].
        apply bind_some in H. destruct H as [o [_ H]]. inversion H. subst. cbn [v_atom].
        rewrite (Icmp _ _ Hl), (Icmp _ _ Hr). reflexivity. }
      destruct (is_rule R_test_expr rule); [|discriminate].
      apply bind_some in H. destruct H as [te [Hte H]]. destruct te as [t|]; [|discriminate].
      assert (Ht : v_test t = true).
      { eapply (fold_last_some (is_rule R_test) (b_test inp f) (fun t => v_test t = true));
          [intros r x Hx; eapply Itest; exact Hx| |exact Hte]. intros y Hy. discriminate. }
      destruct t as [l|l|tf].
      + inversion H. subst. exact Ht.
      + inversion H. subst. exact Ht.
      + destruct (is_comparable_fn tf) eqn:E; [discriminate|]. inversion H. subst. cbn [v_atom].
        cbn [v_test] in Ht. rewrite Ht. unfold is_comparable_fn in E. unfold std_value_fn.
        destruct tf; try discriminate; reflexivity.
    - (* b_comparable *)
      intros p c H. rewrite b_comparable_step in H. apply bind_some in H. destruct H as [rule [_ H]].
      destruct (is_rule R_literal rule).
      { apply bind_some in H. destruct H as [l [_ H]]. inversion H. reflexivity. }
      destruct (is_rule R_singular_query rule).
      { apply bind_some in H. destruct H as [q [Hq H]]. inversion H. subst. eapply b_squery_ok. exact Hq. }
      destruct (is_rule R_function_expr rule); [|discriminate].
      apply bind_some in H. destruct H as [tf [Htf H]]. destruct (is_comparable_fn tf) eqn:E; [|discriminate].
      inversion H. subst. cbn [v_comparable]. rewrite (Ifn _ _ Htf).
      unfold is_comparable_fn in E. unfold std_value_fn. destruct tf; try discriminate; reflexivity.
    - (* b_test *)
      intros p t H. rewrite b_test_step in H. apply bind_some in H. destruct H as [child [_ H]].
      destruct (is_rule R_jp_query child).
      { apply bind_some in H. destruct H as [sp [_ H]]. apply bind_some in H. destruct H as [segs [Hs H]].
        inversion H. subst. cbn [v_test]. eapply Isegs. exact Hs. }
      destruct (is_rule R_rel_query child).
      { apply bind_some in H. destruct H as [sp [_ H]]. apply bind_some in H. destruct H as [segs [Hs H]].
        inversion H. subst. cbn [v_test]. eapply Isegs. exact Hs. }
      destruct (is_rule R_function_expr child); [|discriminate].
      apply bind_some in H. destruct H as [tf [Htf H]]. inversion H. subst. cbn [v_test]. eapply Ifn. exact Htf.
    - (* b_function_expr *)
      intros p tf H. rewrite b_function_expr_step in H.
      cbv zeta in H. destruct (p_kids p) as [|name_p elems]; [discriminate|].
      match type of H with (if ?c then _ else _) = _ => destruct c end; [discriminate|].
      apply bind_some in H. destruct H as [args [Hargs H]].
      eapply tfun_try_new_ok; [exact H|].
      eapply mapM_forall; [exact Hargs|]. intros arg y _ Ha. apply bind_some in Ha. destruct Ha as [next [_ Ha]].
      destruct (is_rule R_literal next).
      { apply bind_some in Ha. destruct Ha as [l [_ Ha]]. inversion Ha. reflexivity. }
      destruct (is_rule R_test next).
      { apply bind_some in Ha. destruct Ha as [t [Ht Ha]]. inversion Ha. subst.
        specialize (Itest _ _ Ht). destruct t; exact Itest. }
      destruct (is_rule R_logical_expr next); [|discriminate].
      apply bind_some in Ha. destruct Ha as [e [He Ha]]. inversion Ha. subst. cbn [v_any_arg]. eapply Ior. exact He.
  Qed.
End Walk.

(* ---------- consequences for the public entry point ---------- *)
Theorem parse_model_valid fuel s q : parse_model fuel s = POk q -> v_segments q = true.
Proof.
  unfold parse_model. destruct (negb _); [discriminate|].
  destruct (parse_rule grammar fuel R_main s) as [| |rest pos toks]; try discriminate.
  destruct toks as [|main_p ?]; [discriminate|]. destruct (next_down main_p) as [jq|]; [|discriminate].
  destruct (b_jp_query s fuel jq) as [q'|] eqn:E; [|discriminate].
  destruct (fa_segments _ _ q'); [|discriminate]. intros H. inversion H. subst.
  unfold b_jp_query in E. apply bind_some in E. destruct E as [sp [_ E]].
  destruct (walk_inv s fuel) as [Hs _]. eapply Hs. exact E.
Qed.

(* ---------- the invariant, without extension calls, is RFC well-typedness ---------- *)
Definition t_test (t : test) : bool :=
  match t with TRel l | TAbs l => t_segments l | TFn f => t_tfun f end.

Theorem valid_is_typed :
  (forall s, v_segment s = true -> x_segment s = false -> t_segment s = true) /\
  (forall s, v_selector s = true -> x_selector s = false -> t_selector s = true) /\
  (forall l, v_selectors l = true -> x_selectors l = false -> t_selectors l = true) /\
  (forall l, v_segments l = true -> x_segments l = false -> t_segments l = true) /\
  (forall f, v_filter f = true -> x_filter f = false -> t_filter f = true) /\
  (forall l, v_filters l = true -> x_filters l = false -> t_filters l = true) /\
  (forall a, v_atom a = true -> x_atom a = false -> t_atom a = true) /\
  (forall c, v_comparable c = true -> x_comparable c = false -> t_comparable c = true) /\
  (forall t, v_test t = true -> x_test t = false -> t_test t = true) /\
  (forall f, v_tfun f = true -> x_tfun f = false -> t_tfun f = true) /\
  (forall a, (v_value_arg a = true -> x_fnarg a = false -> t_value_arg a = true) /\
             (v_nodes_arg a = true -> x_fnarg a = false -> t_nodes_arg a = true)) /\
  (forall l : fnargs, True).
Proof.
  apply ast_mutind; try (intros; exact I).
  - (* SegDesc *) intros s IH Hv Hx. cbn in *. auto.
  - intros s IH Hv Hx. cbn in *. auto.
  - intros l IH Hv Hx. cbn in *. auto.
  - reflexivity.
  - reflexivity.
  - reflexivity.
  - reflexivity.
  - intros f IH Hv Hx. cbn in *. auto.
  - reflexivity.
  - (* SCons *) intros s IHs l IHl Hv Hx. cbn [v_selectors x_selectors t_selectors] in *.
    apply andb_true_iff in Hv. destruct Hv. apply orb_false_iff in Hx. destruct Hx.
    rewrite IHs, IHl by assumption. reflexivity.
  - reflexivity.
  - (* GCons *) intros s IHs l IHl Hv Hx. cbn [v_segments x_segments t_segments] in *.
    apply andb_true_iff in Hv. destruct Hv. apply orb_false_iff in Hx. destruct Hx.
    rewrite IHs, IHl by assumption. reflexivity.
  - intros l IH Hv Hx. cbn in *. auto.
  - intros l IH Hv Hx. cbn in *. auto.
  - intros a IH Hv Hx. cbn in *. auto.
  - reflexivity.
  - (* FCons *) intros f IHf l IHl Hv Hx. cbn [v_filters x_filters t_filters] in *.
    apply andb_true_iff in Hv. destruct Hv. apply orb_false_iff in Hx. destruct Hx.
    rewrite IHf, IHl by assumption. reflexivity.
  - (* AFilter *) intros f IH neg Hv Hx. cbn in *. auto.
  - (* ATest *) intros t IH neg Hv Hx. cbn [v_atom x_atom t_atom] in *.
    destruct t as [l|l|f]; cbn [v_test x_test t_test] in *; auto.
    apply andb_true_iff in Hv. destruct Hv as [Hn Hv]. rewrite (IH Hv Hx).
    destruct f; try discriminate; reflexivity.
  - (* ACmp *) intros op l IHl r IHr Hv Hx. cbn [v_atom x_atom t_atom] in *.
    apply andb_true_iff in Hv. destruct Hv. apply orb_false_iff in Hx. destruct Hx.
    rewrite IHl, IHr by assumption. reflexivity.
  - reflexivity.
  - (* CFn *) intros f IH Hv Hx. cbn [v_comparable x_comparable t_comparable] in *.
    apply andb_true_iff in Hv. destruct Hv as [Hs Hv]. rewrite Hs, IH by assumption. reflexivity.
  - intros q _ _. reflexivity.
  - intros l IH Hv Hx. cbn in *. auto.
  - intros l IH Hv Hx. cbn in *. auto.
  - intros f IH Hv Hx. cbn in *. auto.
  - (* FnCustom *) intros name args _ _ Hx. discriminate.
  - (* FnLength *) intros a [IHv _] Hv Hx. cbn in *. auto.
  - intros a [_ IHn] Hv Hx. cbn in *. auto.
  - intros a [_ IHn] Hv Hx. cbn in *. auto.
  - (* FnSearch *) intros a [IHa _] b [IHb _] Hv Hx. cbn [v_tfun x_tfun t_tfun] in *.
    apply andb_true_iff in Hv. destruct Hv. apply orb_false_iff in Hx. destruct Hx.
    rewrite IHa, IHb by assumption. reflexivity.
  - intros a [IHa _] b [IHb _] Hv Hx. cbn [v_tfun x_tfun t_tfun] in *.
    apply andb_true_iff in Hv. destruct Hv. apply orb_false_iff in Hx. destruct Hx.
    rewrite IHa, IHb by assumption. reflexivity.
  - (* ArgLit *) intros l. split; [reflexivity|discriminate].
  - (* ArgTest *) intros t IH. split; intros Hv Hx; cbn [v_value_arg v_nodes_arg x_fnarg t_value_arg t_nodes_arg] in *;
      destruct t as [l|l|f]; cbn [v_test x_test t_test] in *; try discriminate.
    + apply andb_true_iff in Hv. destruct Hv as [Hs Hv]. rewrite Hs, IH by assumption. reflexivity.
    + apply andb_true_iff in Hv. destruct Hv as [Hs Hv]. rewrite Hs, IH by assumption. reflexivity.
    + apply andb_true_iff in Hv. destruct Hv as [Hs Hv]. rewrite Hs, IH by assumption. reflexivity.
    + auto.
    + auto.
  - (* ArgFilter *) intros f IH. split; discriminate.
Qed.

(* C07: whatever the parser model accepts is a well-typed query, or calls an extension function *)
Theorem accepted_is_well_typed fuel s q :
  parse_model fuel s = POk q -> x_segments q = false -> t_segments q = true.
Proof.
  intros H Hx. destruct valid_is_typed as [_ [_ [_ [Hs _]]]]. apply Hs; [|exact Hx].
  eapply parse_model_valid. exact H.
Qed.

(* C07: ... and every integer of an index, a slice or a singular query is within +-(2^53-1) *)
Fixpoint r_segment (s : segment) : bool :=
  match s with SegDesc s' => r_segment s' | SegSel x => r_selector x | SegSels l => r_selectors l end
with r_selector (s : selector) : bool :=
  match s with SelIndex i => in_ijson i | SelSlice a b c => oz_ok a && oz_ok b && oz_ok c | _ => true end
with r_selectors (l : selectors) : bool :=
  match l with SNil => true | SCons s l' => r_selector s && r_selectors l' end.
Fixpoint r_segments (l : segments) : bool :=
  match l with GNil => true | GCons s l' => r_segment s && r_segments l' end.

Lemma v_r_selector s : v_selector s = true -> r_selector s = true.
Proof. destruct s; cbn; auto. Qed.
Lemma v_r_selectors l : v_selectors l = true -> r_selectors l = true.
Proof.
  induction l as [|s l IH]; [reflexivity|]. cbn [v_selectors r_selectors]. intros H.
  apply andb_true_iff in H. destruct H as [H1 H2]. rewrite (v_r_selector _ H1), (IH H2). reflexivity.
Qed.
Lemma v_r_segment s : v_segment s = true -> r_segment s = true.
Proof. induction s as [s IH|x|l]; cbn [v_segment r_segment]; auto using v_r_selector, v_r_selectors. Qed.
Theorem accepted_ints_in_range fuel s q : parse_model fuel s = POk q -> r_segments q = true.
Proof.
  intros H. apply parse_model_valid in H. induction q as [|x l IH]; [reflexivity|].
  cbn [v_segments r_segments] in *. apply andb_true_iff in H. destruct H as [H1 H2].
  rewrite (v_r_segment _ H1), (IH H2). reflexivity.
Qed.

(* C06 (typing direction): TestFunction::try_new accepts every well-typed call of a standard function *)
Lemma value_arg_is_value_type a : t_value_arg a = true -> is_value_type a = true.
Proof.
  destruct a as [l|t|f]; [reflexivity| |discriminate].
  destruct t as [l|l|f]; cbn [t_value_arg is_value_type]; rewrite ?singular_b_eq; intros H;
    apply andb_true_iff in H; destruct H as [H _]; exact H.
Qed.
Lemma nodes_arg_is_nodes_type a : t_nodes_arg a = true -> is_nodes_type a = true.
Proof. destruct a as [l|t|f]; try discriminate. destruct t; try discriminate; reflexivity. Qed.

Theorem try_new_accepts_well_typed f :
  t_tfun f = true ->
  match f with
  | FnLength a => tfun_try_new s_length [a] = Some f
  | FnValue a => tfun_try_new s_value [a] = Some f
  | FnCount a => tfun_try_new s_count [a] = Some f
  | FnSearch a b => tfun_try_new s_search [a; b] = Some f
  | FnMatch a b => tfun_try_new s_match [a; b] = Some f
  | FnCustom _ _ => True
  end.
Proof.
  destruct f as [n args|a|a|a|a b|a b]; cbn [t_tfun]; intros H; try exact I; unfold tfun_try_new.
  - cbn [str_eqb s_length N.eqb Pos.eqb andb]. rewrite (value_arg_is_value_type a H). reflexivity.
  - rewrite (nodes_arg_is_nodes_type a H). reflexivity.
  - rewrite (nodes_arg_is_nodes_type a H). reflexivity.
  - apply andb_true_iff in H. destruct H as [Ha Hb].
    rewrite (value_arg_is_value_type a Ha), (value_arg_is_value_type b Hb). reflexivity.
  - apply andb_true_iff in H. destruct H as [Ha Hb].
    rewrite (value_arg_is_value_type a Ha), (value_arg_is_value_type b Hb). reflexivity.
Qed.
