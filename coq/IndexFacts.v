(* IndexFacts.v — process_index / process_slice at the node level, for every Queryable. *)
From Coq Require Import List NArith ZArith Bool Lia.
From JP Require Import Base Ast Eval Spec SliceFacts.
Import ListNotations.
Open Scope Z_scope.

Section Index.
  Variable T : Type.
  Variable Q : qops T.

  Lemma get_z_some {A} (l : list A) i :
    0 <= i < Z.of_nat (length l) -> exists x, get_z l i = Some (Z.to_nat i, x) /\ nth_error l (Z.to_nat i) = Some x.
  Proof.
    intros H. unfold get_z. destruct (Z.ltb_spec i 0); [lia|].
    destruct (nth_error l (Z.to_nat i)) eqn:E.
    - eauto.
    - apply nth_error_None in E. lia.
  Qed.

  (* [i] selects element i, or len+i for negative i, and nothing when out of range *)
  Theorem process_index_rfc (p : ptr T) arr i :
    q_as_array Q (inner p) = Some arr ->
    process_index Q p i =
      match rfc_index (Z.of_nat (length arr)) i with
      | Some j =>
          match nth_error arr (Z.to_nat j) with
          | Some e => DRef (ptr_idx e (path p) (ploc p) (Z.to_nat j))
          | None => DNothing
          end
      | None => DNothing
      end.
  Proof.
    intros Harr. unfold process_index, rfc_index, len_z. rewrite Harr.
    set (len := Z.of_nat (length arr)). cbv beta zeta.
    destruct (Z.leb_spec 0 i) as [Hi|Hi].
    - destruct (Z.leb_spec 0 i) as [_|?]; [|lia].
      destruct (Z.leb_spec len i) as [Hl|Hl]; destruct (Z.ltb_spec i len); try lia; cbn [andb];
        [reflexivity|].
      destruct (get_z_some arr i) as [x [-> ->]]; [subst len; lia|]. reflexivity.
    - destruct (Z.ltb_spec len (Z.abs i)) as [Hl|Hl];
        destruct (Z.leb_spec 0 (len + i)); try lia; cbn [andb]; [reflexivity|].
      destruct (Z.ltb_spec (len + i) len); [|lia].
      replace (len - Z.abs i) with (len + i) by lia.
      destruct (get_z_some arr (len + i)) as [x [-> ->]]; [subst len; lia|]. reflexivity.
  Qed.

  Theorem process_index_non_array (p : ptr T) i :
    q_as_array Q (inner p) = None -> process_index Q p i = DNothing.
  Proof. intros H. unfold process_index. rewrite H. reflexivity. Qed.

  Lemma filter_some_get_z (arr : list T) idxs :
    (forall i, In i idxs -> 0 <= i < Z.of_nat (length arr)) ->
    filter_some (map (get_z arr) idxs)
    = flat_map (fun j => match nth_error arr (Z.to_nat j) with
                         | Some v => [(Z.to_nat j, v)]
                         | None => []
                         end) idxs.
  Proof.
    induction idxs as [|i idxs IH]; intros H; [reflexivity|].
    cbn [map filter_some flat_map].
    destruct (get_z_some arr i) as [x [-> ->]]; [apply H; left; reflexivity|].
    cbn [app]. f_equal. apply IH. intros j Hj. apply H. right. exact Hj.
  Qed.

  (* [start:end:step] selects exactly the elements at the RFC's index sequence, in that order *)
  Theorem process_slice_rfc (p : ptr T) arr s e st :
    q_as_array Q (inner p) = Some arr ->
    process_slice Q p s e st =
      DRefs (flat_map (fun j => match nth_error arr (Z.to_nat j) with
                                  | Some v => [ptr_idx v (path p) (ploc p) (Z.to_nat j)]
                                  | None => []
                                  end)
                 (rfc_slice (Z.of_nat (length arr)) s e st)).
  Proof.
    intros Harr. unfold process_slice, len_z. rewrite Harr.
    rewrite slice_indices_rfc by lia.
    rewrite filter_some_get_z
      by (intros i Hi; eapply rfc_slice_in_bounds; [lia|exact Hi]).
    f_equal. induction (rfc_slice _ s e st) as [|j js IH]; [reflexivity|].
    cbn [flat_map]. rewrite map_app, IH. f_equal.
    destruct (nth_error arr (Z.to_nat j)); reflexivity.
  Qed.

  Theorem process_slice_non_array (p : ptr T) s e st :
    q_as_array Q (inner p) = None -> process_slice Q p s e st = DNothing.
  Proof. intros H. unfold process_slice. rewrite H. reflexivity. Qed.
End Index.

Theorem rfc_slice_step_zero len s e : rfc_slice len s e (Some 0) = [].
Proof. reflexivity. Qed.

(* The loops stop by themselves: once the fuel reaches len+1 more fuel changes nothing, i.e. the
   Rust while-loops terminate after at most len iterations. *)
Theorem slice_loops_terminate len start end_ step extra :
  0 <= len ->
  let norm := fun i : Z => if Z.leb 0 i then i else len + i in
  let e := opt_or step 1 in
  (0 < e ->
   let lower := Z.min (Z.max (norm (opt_or start 0)) 0) len in
   let upper := Z.min (Z.max (norm (opt_or end_ len)) 0) len in
   up_loop (S (Z.to_nat len) + extra) lower upper e = up_loop (S (Z.to_nat len)) lower upper e) /\
  (e < 0 ->
   let lower := Z.min (Z.max (norm (opt_or end_ (- len - 1))) (-1)) (len - 1) in
   let upper := Z.min (Z.max (norm (opt_or start (len - 1))) (-1)) (len - 1) in
   down_loop (S (Z.to_nat len) + extra) upper lower e = down_loop (S (Z.to_nat len)) upper lower e).
Proof.
  intros Hlen norm e. split; intros He lower upper.
  - assert (Hc : up_count lower upper e <= len)
      by (apply up_count_le_len; subst lower upper; lia).
    rewrite !up_loop_closed by lia. reflexivity.
  - assert (Hc : down_count upper lower e <= len)
      by (apply down_count_le_len; subst lower upper; lia).
    rewrite !down_loop_closed by lia. reflexivity.
Qed.
