(* RejectMore.v — C07: further classes of strings outside the RFC 9535 language, each rejected for every
   member of the class (generated grammar run by the PEG interpreter, then parser.rs). *)
From Coq Require Import List Arith NArith ZArith Bool Lia.
From JP Require Import Base Ast Peg PegFacts NormPath NormPathFacts Dec2Bin Known Build NpParse BaseFacts FragParse RejectFacts.
From JP.gen Require Import Grammar.
Import ListNotations.
Local Open Scope nat_scope.

Ltac rej_hook :=
  lazymatch goal with
  | |- Runs _ _ (ECall R_WHITESPACE) AAtomic _ _ _ => apply ws_fail; solve_not_ws
  | |- Runs _ _ (ECall R_S) _ _ _ _ => apply S_none; solve_not_ws
  end.
Ltac peg_hook ::= rej_hook.
Ltac solve_not_ws ::=
  solve [assumption | cbn [not_ws]; repeat split; lia | exact I].

(* main fails => parse_query rejects *)
Lemma main_fails_rejected s n :
  RunsG n (ECall R_main) ANonAtomic s 0 Fail -> n <= parse_fuel s -> parse_query s = PErr.
Proof.
  intros Hrun Hn. unfold parse_query, parse_model.
  destruct (str_eqb s (trim_blank s)); [|reflexivity]. cbn [negb]. unfold parse_rule.
  rewrite (Hrun (parse_fuel s) Hn). reflexivity.
Qed.

(* pegd with the outcome of every rule call normalised before it is handed upwards (pegd leaves the outcome as
   an unreduced term that every enclosing step reduces again: quadratic when most alternatives fail), and the
   fuel it needs computed (it is a closed term over a concrete prefix) *)
Lemma runs_res n e a s pos r r' : RunsG n e a s pos r -> r = r' -> RunsG n e a s pos r'.
Proof. intros H <-. exact H. Qed.
Lemma runs_le n m e a s pos r : RunsG n e a s pos r -> Nat.leb n m = true -> RunsG m e a s pos r.
Proof. intros H Hle. apply Nat.leb_le in Hle. eapply runs_weaken; eassumption. Qed.
Lemma runs_fuel n m e a s pos r : RunsG n e a s pos r -> n = m -> RunsG m e a s pos r.
Proof. intros H <-. exact H. Qed.

Ltac pegn :=
  first
    [ peg_hook
    | lazymatch goal with
      | |- _ = _ /\ _ = _ => split; reflexivity
      | |- Runs _ _ (EStr _) _ _ _ _ =>
          first [ eapply runs_str_ok; solve [solve_chars] | eapply runs_str_fail; solve [solve_chars] ]
      | |- Runs _ _ (ERange _ _) _ (_ :: _) _ _ =>
          first [ eapply runs_range_ok; solve [solve_chars] | eapply runs_range_fail; solve [solve_chars] ]
      | |- Runs _ _ (ERange _ _) _ [] _ _ => eapply runs_range_nil
      | |- Runs _ _ ESoi _ _ _ _ => eapply runs_soi
      | |- Runs _ _ EEoi _ [] _ _ => eapply runs_eoi_ok
      | |- Runs _ _ EEoi _ (_ :: _) _ _ => eapply runs_eoi_fail
      | |- Runs _ _ ESkip _ _ _ _ =>
          eapply runs_skip; cbv beta iota; change (g_ws grammar) with R_WHITESPACE; pegn
      | |- Runs _ _ (ESeq _ _) _ _ _ _ => eapply runs_seq; [pegn|red_res; pegn|red_res; pegn]
      | |- Runs _ _ (EAlt _ _) _ _ _ _ => eapply runs_alt; [pegn|red_res; pegn]
      | |- Runs _ _ (EOpt _) _ _ _ _ => eapply runs_opt; pegn
      | |- Runs _ _ (ERep _) _ _ _ _ => eapply runs_rep; [pegn|red_res; pegn]
      | |- Runs _ _ (ERepTail _) _ _ _ _ =>
          eapply runs_reptail; [pegn|red_res; pegn|red_res; decide_eqb; cbv beta iota; pegn]
      | |- Runs _ _ (ENot _) _ _ _ _ => eapply runs_not; pegn
      | |- Runs _ _ (EAnd _) _ _ _ _ => eapply runs_and; pegn
      | |- Runs _ _ (ECall ?r) _ _ _ _ =>
          let kb := eval cbv in (rule_of r) in
          lazymatch kb with
          | (?k, ?b) =>
              eapply runs_res;
              [ eapply runs_fuel;
                [ eapply (@runs_call _ grammar _ r k b); [reflexivity|cbn [call_atomicity]; pegn]
                | vm_compute; reflexivity ]
              | red_res; reflexivity ]
          end
      end ].

Ltac reject n :=
  apply (main_fails_rejected _ n); [eapply runs_le; [pegn|vm_compute; reflexivity]|unfold parse_fuel; lia].

(* leading zeros: $[0d...  *)
Theorem leading_zero_index_rejected d rest :
  is_digit d = true -> parse_query (36%N :: 91%N :: 48%N :: d :: rest) = PErr.
Proof.
  intros Hd. apply is_digit_bounds in Hd.
  assert (Hnw : not_ws (d :: rest)) by (cbn [not_ws]; repeat split; lia).
  reject 200.
Qed.

(* -0 is not an integer of the grammar: $[-0... , whatever follows *)
Theorem minus_zero_rejected rest : parse_query (36%N :: 91%N :: 45%N :: 48%N :: rest) = PErr.
Proof. reject 200. Qed.

(* an explicit plus sign: $[+... *)
Theorem plus_sign_rejected rest : parse_query (36%N :: 91%N :: 43%N :: rest) = PErr.
Proof. reject 200. Qed.

(* a fraction or exponent in an index: $[1. ... *)
Theorem index_fraction_rejected rest : parse_query (36%N :: 91%N :: 49%N :: 46%N :: rest) = PErr.
Proof. reject 200. Qed.

(* empty brackets: $[]... *)
Theorem empty_brackets_rejected rest : parse_query (36%N :: 91%N :: 93%N :: rest) = PErr.
Proof. reject 200. Qed.

(* a shorthand name cannot begin with a digit: $.d... *)
Theorem shorthand_digit_rejected d rest :
  is_digit d = true -> parse_query (36%N :: 46%N :: d :: rest) = PErr.
Proof. intros Hd. apply is_digit_bounds in Hd. reject 200. Qed.

(* a single '=' (also: blank space inside '=='): $[?@=c... with c <> '=' *)
Theorem single_equals_rejected c rest :
  c <> 61%N -> parse_query (36%N :: 91%N :: 63%N :: 64%N :: 61%N :: c :: rest) = PErr.
Proof. intros Hc. reject 300. Qed.

(* a comparison without right-hand side: $[?@==]... *)
Theorem missing_operand_rejected rest :
  parse_query (36%N :: 91%N :: 63%N :: 64%N :: 61%N :: 61%N :: 93%N :: rest) = PErr.
Proof. reject 300. Qed.

(* literals are lower case: $[?@==T..., $[?@==N..., $[?@==F... (any upper-case letter) *)
Theorem uppercase_literal_rejected c rest :
  (65 <= c <= 90)%N -> parse_query (36%N :: 91%N :: 63%N :: 64%N :: 61%N :: 61%N :: c :: rest) = PErr.
Proof. intros Hc. reject 300. Qed.

(* leading zero in a number literal: $[?@==0d... *)
Theorem leading_zero_literal_rejected d rest :
  is_digit d = true -> parse_query (36%N :: 91%N :: 63%N :: 64%N :: 61%N :: 61%N :: 48%N :: d :: rest) = PErr.
Proof.
  intros Hd. apply is_digit_bounds in Hd.
  assert (Hnw : not_ws (d :: rest)) by (cbn [not_ws]; repeat split; lia).
  reject 300.
Qed.

(* a number literal cannot begin with the decimal point: $[?@==. ... *)
Theorem literal_leading_point_rejected rest :
  parse_query (36%N :: 91%N :: 63%N :: 64%N :: 61%N :: 61%N :: 46%N :: rest) = PErr.
Proof. reject 300. Qed.

(* a bad escape in a quoted name: $['\x... *)
Theorem bad_escape_rejected rest : parse_query (36%N :: 91%N :: 39%N :: 92%N :: 120%N :: rest) = PErr.
Proof. reject 300. Qed.

(* an unescaped control character in a quoted name: $['c... with c < U+0020 *)
Theorem control_char_rejected c rest :
  (c < 32)%N -> parse_query (36%N :: 91%N :: 39%N :: c :: rest) = PErr.
Proof. intros Hc. reject 300. Qed.

(* the second character of a two-character operator is missing: $[?@!c... with c <> '=' *)
Theorem bang_alone_rejected c rest :
  c <> 61%N -> parse_query (36%N :: 91%N :: 63%N :: 64%N :: 33%N :: c :: rest) = PErr.
Proof. intros Hc. reject 300. Qed.

(* a single '&' or '|': $[?@&c... , $[?@|c... *)
Theorem single_amp_rejected c rest :
  c <> 38%N -> parse_query (36%N :: 91%N :: 63%N :: 64%N :: 38%N :: c :: rest) = PErr.
Proof. intros Hc. reject 300. Qed.
Theorem single_bar_rejected c rest :
  c <> 124%N -> parse_query (36%N :: 91%N :: 63%N :: 64%N :: 124%N :: c :: rest) = PErr.
Proof. intros Hc. reject 300. Qed.

(* a slice with a fourth part: $[:::... *)
Theorem slice_four_parts_rejected rest : parse_query (36%N :: 91%N :: 58%N :: 58%N :: 58%N :: rest) = PErr.
Proof. reject 300. Qed.

(* the root identifier twice: $$... *)
Theorem double_root_rejected rest : parse_query (36%N :: 36%N :: rest) = PErr.
Proof. reject 200. Qed.

(* a closing bracket or parenthesis with nothing open: $]... , $)... *)
Theorem stray_close_rejected c rest : c = 93%N \/ c = 41%N -> parse_query (36%N :: c :: rest) = PErr.
Proof. intros [-> | ->]; reject 200. Qed.

(* three dots: $... c *)
Theorem triple_dot_rejected rest : parse_query (36%N :: 46%N :: 46%N :: 46%N :: rest) = PErr.
Proof. reject 200. Qed.

(* a quoted name (either quote character) outside brackets, right after the dot *)
Theorem dot_quote_rejected c rest : c = 39%N \/ c = 34%N -> parse_query (36%N :: 46%N :: c :: rest) = PErr.
Proof. intros [-> | ->]; reject 200. Qed.

(* an empty filter: $[?]... *)
Theorem empty_filter_rejected rest : parse_query (36%N :: 91%N :: 63%N :: 93%N :: rest) = PErr.
Proof. reject 300. Qed.

(* a filter cannot begin with a comparison operator or a closing parenthesis: $[?c... *)
Theorem filter_bad_start_rejected c rest :
  c = 61%N \/ c = 60%N \/ c = 62%N \/ c = 41%N \/ c = 44%N \/ c = 38%N \/ c = 124%N ->
  parse_query (36%N :: 91%N :: 63%N :: c :: rest) = PErr.
Proof. intros H. repeat (destruct H as [H|H]); subst c; reject 300. Qed.

(* a name selector must be quoted inside brackets: $[l... for a letter l *)
Theorem unquoted_name_rejected c rest :
  (97 <= c <= 122)%N \/ (65 <= c <= 90)%N -> parse_query (36%N :: 91%N :: c :: rest) = PErr.
Proof. intros [Hc|Hc]; reject 300. Qed.
