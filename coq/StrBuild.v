(* StrBuild.v — C06 for the string sublanguage: every RFC 9535 string (both quote styles, every escape, surrogate
   pairs, upper- and lower-case hex) is accepted as a name selector and as a comparison literal, and read as
   itself (parser.rs keeps the raw spelling of a name and the raw body of a literal). *)
From Coq Require Import List Arith NArith ZArith Bool Lia.
From JP Require Import Base Ast Peg PegFacts NormPath NormPathFacts Dec2Bin Known Build BuildSteps NpParse NpBuild
  BaseFacts FragParse FragBuild RejectFacts RejectMore StrParse.
From JP.gen Require Import Grammar.
Import ListNotations.
Local Open Scope nat_scope.

Lemma hex_ge c : hex_b c = true -> (48 <= c)%N.
Proof. intros H. apply hex_cases in H. repeat (destruct H as [H|H]; [lia|]). lia. Qed.

Lemma item_chars dq it c : item_ok it -> In c (item_text dq it) -> (32 <= c)%N.
Proof.
  destruct it as [x| | |x|h1 h2 h3 h4|h1 h2 h3 h4 l1 l2 l3 l4]; cbn [item_ok item_text]; intros Hok Hin.
  - apply unesc_cases in Hok. destruct Hin as [<-|[]]. lia.
  - destruct Hin as [<-|[]]. destruct dq; cbn; lia.
  - destruct Hin as [<-|[<-|[]]]; [lia|destruct dq; cbn; lia].
  - unfold esc_b in Hok. orcases Hok; apply N.eqb_eq in Hok; subst x; destruct Hin as [<-|[<-|[]]]; lia.
  - destruct Hok as [H12 [H3 H4]]. apply hex_ge in H3. apply hex_ge in H4.
    assert (48 <= h1 /\ 48 <= h2)%N.
    { unfold nonsur_b in H12. apply orb_true_iff in H12. destruct H12 as [H|H].
      - repeat (apply andb_true_iff in H; destruct H as [H ?]). split; apply hex_ge; assumption.
      - apply andb_true_iff in H. destruct H as [H Hb]. apply andb_true_iff in H. destruct H as [H1 Ha].
        apply N.leb_le in Ha. split; [|lia]. orcases H1; apply N.eqb_eq in H1; lia. }
    repeat (destruct Hin as [<-|Hin]; [lia|]). destruct Hin.
  - destruct Hok as [Hh [H3 [H4 [Hl [L3 L4]]]]]. apply hex_ge in H3. apply hex_ge in H4. apply hex_ge in L3. apply hex_ge in L4.
    assert (48 <= h1 /\ 48 <= h2)%N.
    { unfold high_b in Hh. apply andb_true_iff in Hh. destruct Hh as [H1 H2].
      orcases H1; apply N.eqb_eq in H1; orcases H2; apply N.eqb_eq in H2; lia. }
    assert (48 <= l1 /\ 48 <= l2)%N.
    { unfold low_b in Hl. apply andb_true_iff in Hl. destruct Hl as [H1 H2].
      orcases H1; apply N.eqb_eq in H1; orcases H2; apply N.eqb_eq in H2; lia. }
    repeat (destruct Hin as [<-|Hin]; [lia|]). destruct Hin.
Qed.

Lemma string_chars dq its : Forall item_ok its -> forallb (fun c => N.ltb 31 c) (string_text dq its) = true.
Proof.
  intros Hok. apply forallb_forall. intros c Hc. apply N.ltb_lt. unfold string_text in Hc.
  assert (Hq : (32 <= quote_of dq)%N) by (destruct dq; cbn; lia).
  destruct Hc as [<-|Hc]; [lia|]. apply in_app_or in Hc. destruct Hc as [Hc|[<-|[]]]; [|lia].
  unfold body_text in Hc. apply in_flat_map in Hc. destruct Hc as [it [Hit Hc]].
  rewrite Forall_forall in Hok. pose proof (item_chars dq it c (Hok it Hit) Hc). lia.
Qed.

Lemma body_len dq its : length its <= length (body_text dq its).
Proof.
  unfold body_text. induction its as [|x l IH]; [cbn; lia|].
  change (flat_map (item_text dq) (x :: l)) with (item_text dq x ++ flat_map (item_text dq) l).
  rewrite app_length. pose proof (item_len dq x). cbn [length]. lia.
Qed.

Lemma string_trim dq its : trim_unicode (string_text dq its) = string_text dq its.
Proof. unfold trim_unicode, string_text. apply trim_ends; destruct dq; reflexivity. Qed.

Lemma string_not_blank_ends dq its : trim_blank (36%N :: 91%N :: string_text dq its ++ [93%N]) = 36%N :: 91%N :: string_text dq its ++ [93%N].
Proof.
  unfold trim_blank. change (36%N :: 91%N :: string_text dq its ++ [93%N]) with (36%N :: (91%N :: string_text dq its) ++ [93%N]).
  apply trim_ends; reflexivity.
Qed.

Ltac sb_hook :=
  lazymatch goal with
  | |- Runs _ _ (ECall R_WHITESPACE) AAtomic _ _ _ => apply ws_fail; solve_not_ws
  | |- Runs _ _ (ECall R_S) _ _ _ _ => apply S_none; solve_not_ws
  | H : Forall item_ok ?its |- Runs _ _ (ECall R_string) _ (string_text _ ?its ++ _) _ _ => apply string_runs; exact H
  end.
Ltac peg_hook ::= sb_hook.

(* every string as a name selector: $[<string>] *)
Theorem string_name_selector_accepted dq its :
  Forall item_ok its ->
  parse_query (36%N :: 91%N :: string_text dq its ++ [93%N])
  = POk (GCons (SegSel (SelName (string_text dq its))) GNil).
Proof.
  intros Hok. set (st := string_text dq its). set (inp := 36%N :: 91%N :: st ++ [93%N]).
  assert (Hnw : not_ws (st ++ [93%N])) by (unfold st, string_text; destruct dq; cbn [quote_of app not_ws]; repeat split; discriminate).
  unfold parse_query, parse_model. unfold inp at 1 2. unfold st at 1 2. rewrite string_not_blank_ends, str_eqb_refl. cbn [negb].
  fold st. fold inp. unfold parse_rule.
  assert (Hrun : RunsG (300 + length its) (ECall R_main) ANonAtomic inp 0
                   (Ok [] (length inp)
                      [Pair R_main 0 (length inp)
                         [Pair R_jp_query 0 (length inp)
                            [Pair R_segments 1 (length inp)
                               [Pair R_segment 1 (length inp)
                                  [Pair R_child_segment 1 (length inp)
                                     [Pair R_bracketed_selection 1 (length inp)
                                        [name_sel_pair 2 (2 + length st)]]]]];
                          Pair R_EOI (length inp) (length inp) []]])).
  { unfold inp, st, name_sel_pair. eapply runs_conv; [pegd| |].
    - norm_len. bound.
    - red_res. decide_eqb. cbv beta iota. norm_len. repeat (first [reflexivity | lia | progress f_equal]). }
  rewrite (Hrun (parse_fuel inp)) by (unfold parse_fuel, inp, st, string_text; cbn [length]; rewrite !app_length; cbn [length];
    rewrite ?app_length; cbn [length]; pose proof (body_len dq its); lia).
  cbn [next_down p_kids]. unfold b_jp_query. cbn [next_down p_kids bind].
  assert (E5 : exists f, parse_fuel inp = S (S (S (S (S f))))) by (exists (995 + 400 * length inp); unfold parse_fuel; lia).
  destruct E5 as [f E5]. rewrite E5. rewrite b_segments_step. cbn [p_kids mapM next_down bind].
  rewrite b_segment_step. rules. cbn [next_down p_kids bind].
  assert (Ei : inp = [36%N] ++ (91%N :: st ++ [93%N]) ++ []) by (unfold inp; rewrite app_nil_r; reflexivity).
  rewrite (p_str_at inp _ _ _ _ [36%N] (91%N :: st ++ [93%N]) [] Ei eq_refl);
    [|unfold inp; cbn [length]; rewrite !app_length; cbn [length]; lia].
  cbv zeta. cbn [negb str_eqb trim_start_blank drop_while next_down p_kids bind].
  rewrite b_child_segment_step. rules. cbn [p_kids mapM].
  assert (Ei2 : inp = [36%N; 91%N] ++ st ++ [93%N]) by reflexivity.
  rewrite b_selector_step. unfold name_sel_pair. cbn [next_down p_kids bind]. rules.
  rewrite (p_str_at inp _ _ _ _ [36%N; 91%N] st [93%N] Ei2 eq_refl eq_refl).
  unfold st. rewrite string_trim. unfold validate_js_str. rewrite (string_chars dq its Hok). reflexivity.
Qed.

(* ---------- every string as a comparison literal: $[?@==<string>] ---------- *)
Ltac peg_hook ::= rej_hook.
Lemma number_fails_string dq its rest pos :
  RunsG 40 (ECall R_number) ANonAtomic (string_text dq its ++ rest) pos Fail.
Proof. unfold string_text. destruct dq; cbn [quote_of app]; pegn_upto. Qed.

Ltac sl_hook :=
  lazymatch goal with
  | |- Runs _ _ (ECall R_WHITESPACE) AAtomic _ _ _ => apply ws_fail; solve_not_ws
  | |- Runs _ _ (ECall R_S) _ _ _ _ => apply S_none; solve_not_ws
  | |- Runs _ _ (ECall R_number) _ (string_text _ _ ++ _) _ _ => apply number_fails_string
  | H : Forall item_ok ?its |- Runs _ _ (ECall R_string) _ (string_text _ ?its ++ _) _ _ => apply string_runs; exact H
  end.
Ltac peg_hook ::= sl_hook.

Lemma removelast_body dq its : removelast (body_text dq its ++ [quote_of dq]) = body_text dq its.
Proof. apply removelast_last. Qed.

Lemma string_ends dq its :
  ((starts_with [39%N] (string_text dq its) && ends_with [39%N] (string_text dq its))
   || (starts_with [34%N] (string_text dq its) && ends_with [34%N] (string_text dq its)))%bool = true.
Proof.
  unfold string_text, ends_with. cbn [rev]. rewrite rev_app_distr. destruct dq; cbn; reflexivity.
Qed.

Theorem string_literal_accepted dq its :
  Forall item_ok its ->
  parse_query ([36; 91; 63; 64; 61; 61]%N ++ string_text dq its ++ [93%N])
  = POk (GCons (SegSel (SelFilter (FAtom (ACmp OpEq (CSq (SqCur [])) (CLit (LStr (body_text dq its))))))) GNil).
Proof.
  intros Hok. set (st := string_text dq its). cbn [app]. set (inp := 36%N :: 91%N :: 63%N :: 64%N :: 61%N :: 61%N :: st ++ [93%N]).
  assert (Hnw : not_ws (st ++ [93%N])) by (unfold st, string_text; destruct dq; cbn [quote_of app not_ws]; repeat split; discriminate).
  assert (Htrim : trim_blank inp = inp).
  { unfold trim_blank, inp. change (36%N :: 91%N :: 63%N :: 64%N :: 61%N :: 61%N :: st ++ [93%N]) with (36%N :: ([91; 63; 64; 61; 61]%N ++ st) ++ [93%N]).
    apply trim_ends; reflexivity. }
  unfold parse_query, parse_model. rewrite Htrim, str_eqb_refl. cbn [negb]. unfold parse_rule.
  set (n := length inp).
  assert (Hrun : RunsG (400 + length its) (ECall R_main) ANonAtomic inp 0
    (Ok [] n
      [Pair R_main 0 n
        [Pair R_jp_query 0 n [Pair R_segments 1 n [Pair R_segment 1 n [Pair R_child_segment 1 n
          [Pair R_bracketed_selection 1 n [Pair R_selector 2 (n - 1) [Pair R_filter_selector 2 (n - 1)
            [Pair R_logical_expr 3 (n - 1) [Pair R_logical_expr_and 3 (n - 1) [Pair R_atom_expr 3 (n - 1)
              [Pair R_comp_expr 3 (n - 1)
                [Pair R_comparable 3 4 [Pair R_singular_query 3 4 [Pair R_rel_singular_query 3 4 [Pair R_singular_query_segments 4 4 []]]];
                 Pair R_comp_op 4 6 [];
                 Pair R_comparable 6 (n - 1) [Pair R_literal 6 (n - 1) [Pair R_string 6 (n - 1) []]]]]]]]]]]]]];
         Pair R_EOI n n []]])).
  { unfold n, inp, st. eapply runs_conv; [pegd| |].
    - norm_len. bound.
    - red_res. decide_eqb. cbv beta iota. norm_len. repeat (first [reflexivity | lia | progress f_equal]). }
  rewrite (Hrun (parse_fuel inp)) by (unfold parse_fuel, inp, st, string_text; cbn [length]; rewrite ?app_length; cbn [length];
    rewrite ?app_length; cbn [length]; pose proof (body_len dq its); lia).
  cbn [next_down p_kids]. unfold b_jp_query. cbn [next_down p_kids bind].
  assert (E5 : exists f, parse_fuel inp = S (S (S (S (S (S (S (S (S (S f)))))))))) by (exists (990 + 400 * length inp); unfold parse_fuel; lia).
  destruct E5 as [f E5]. rewrite E5. rewrite b_segments_step. cbn [p_kids mapM next_down bind].
  rewrite b_segment_step. rules. cbn [next_down p_kids bind].
  assert (Hn : n = 7 + length st) by (unfold n, inp; cbn [length]; rewrite app_length; cbn [length]; lia).
  assert (Ei : inp = [36%N] ++ (91%N :: 63%N :: 64%N :: 61%N :: 61%N :: st ++ [93%N]) ++ []) by (unfold inp; rewrite app_nil_r; reflexivity).
  rewrite (p_str_at inp _ _ _ _ [36%N] (91%N :: 63%N :: 64%N :: 61%N :: 61%N :: st ++ [93%N]) [] Ei eq_refl);
    [|rewrite Hn; cbn [length]; rewrite !app_length; cbn [length]; lia].
  cbv zeta. cbn [negb str_eqb trim_start_blank drop_while next_down p_kids bind].
  rewrite b_child_segment_step. rules. cbn [p_kids mapM].
  rewrite b_selector_step. cbn [next_down p_kids bind]. rules. cbn [next_down p_kids bind].
  rewrite b_logical_expr_step. cbn [p_kids mapM]. rewrite b_logical_expr_and_step. cbn [p_kids mapM].
  rewrite b_filter_atom_step. cbn [next_down p_kids bind]. rules. cbn [p_kids].
  rewrite b_comparable_step. cbn [next_down p_kids bind]. rules.
  unfold b_squery. cbn [next_down p_kids bind]. rules. unfold b_sqsegs. cbn [p_kids mapM bind].
  rewrite b_comparable_step. cbn [next_down p_kids bind]. rules.
  unfold literal_of, b_literal. cbn [next_down p_kids]. rules.
  assert (Ei2 : inp = [36; 91; 63; 64; 61; 61]%N ++ st ++ [93%N]) by reflexivity.
  rewrite (p_str_at inp _ _ _ _ [36; 91; 63; 64; 61; 61]%N st [93%N] Ei2 eq_refl); [|rewrite Hn; cbn [length]; lia].
  unfold st. rewrite string_trim. unfold validate_js_str. rewrite (string_chars dq its Hok). rewrite string_ends.
  unfold string_text at 1. rewrite removelast_body. cbn [bind].
  assert (Ei3 : inp = [36; 91; 63; 64]%N ++ [61; 61]%N ++ (st ++ [93%N])) by reflexivity.
  rewrite (p_str_at inp _ _ _ _ [36; 91; 63; 64]%N [61; 61]%N (st ++ [93%N]) Ei3 eq_refl eq_refl).
  reflexivity.
Qed.
