(* PegFacts.v — reasoning rules for the PEG interpreter [run] (Peg.v), for any grammar.
   [Runs n e a s pos r]: with any fuel >= n, [run] on [e] gives [r] (never OutOfFuel).
   One rule per constructor and outcome; proofs unfold one step of [run]. *)
From Coq Require Import List Arith NArith Bool Lia.
From JP Require Import Base Peg.
Import ListNotations.

Section Rules.
  Variable rname : Type.
  Variable g : peg rname.

  Definition Runs (n : nat) (e : expr rname) (a : atomicity) (s : str) (pos : nat) (r : res rname) : Prop :=
    forall f, (n <= f)%nat -> run g f e a s pos = r.

  Lemma runs_weaken n m e a s pos r : Runs n e a s pos r -> (n <= m)%nat -> Runs m e a s pos r.
  Proof. intros H Hle f Hf. apply H. lia. Qed.

  Lemma runs_conv n m e a s pos r r' :
    Runs n e a s pos r -> (n <= m)%nat -> r = r' -> Runs m e a s pos r'.
  Proof. intros H Hle <-. eapply runs_weaken; eassumption. Qed.

  Ltac start H f Hf :=
    intros f Hf; destruct f as [|f]; [lia|]; cbn [run].

  Lemma runs_str_ok lit a s pos rest :
    match_str lit s = Some rest -> Runs 1 (EStr lit) a s pos (Ok rest (pos + length lit) []).
  Proof. intros H f Hf. destruct f as [|f]; [lia|]. cbn [run]. rewrite H. reflexivity. Qed.

  Lemma runs_str_fail lit a s pos :
    match_str lit s = None -> Runs 1 (EStr lit) a s pos Fail.
  Proof. intros H f Hf. destruct f as [|f]; [lia|]. cbn [run]. rewrite H. reflexivity. Qed.

  Lemma runs_range_ok lo hi a c rest pos :
    (N.leb lo c && N.leb c hi = true) -> Runs 1 (ERange lo hi) a (c :: rest) pos (Ok rest (S pos) []).
  Proof. intros H f Hf. destruct f as [|f]; [lia|]. cbn [run]. rewrite H. reflexivity. Qed.

  Lemma runs_range_fail lo hi a c rest pos :
    (N.leb lo c && N.leb c hi = false) -> Runs 1 (ERange lo hi) a (c :: rest) pos Fail.
  Proof. intros H f Hf. destruct f as [|f]; [lia|]. cbn [run]. rewrite H. reflexivity. Qed.

  Lemma runs_range_nil lo hi a pos : Runs 1 (ERange lo hi) a [] pos Fail.
  Proof. intros f Hf. destruct f as [|f]; [lia|]. reflexivity. Qed.

  Lemma runs_soi a s : Runs 1 ESoi a s 0 (Ok s 0 []).
  Proof. intros f Hf. destruct f as [|f]; [lia|]. reflexivity. Qed.

  Lemma runs_eoi_ok a pos :
    Runs 1 EEoi a [] pos (Ok [] pos (if emits a then [Pair (g_eoi g) pos pos []] else [])).
  Proof. intros f Hf. destruct f as [|f]; [lia|]. reflexivity. Qed.

  Lemma runs_eoi_fail a c rest pos : Runs 1 EEoi a (c :: rest) pos Fail.
  Proof. intros f Hf. destruct f as [|f]; [lia|]. reflexivity. Qed.

  Lemma runs_skip_atomic s pos : Runs 1 ESkip AAtomic s pos (Ok s pos []).
  Proof. intros f Hf. destruct f as [|f]; [lia|]. reflexivity. Qed.
  Lemma runs_skip_compound s pos : Runs 1 ESkip ACompound s pos (Ok s pos []).
  Proof. intros f Hf. destruct f as [|f]; [lia|]. reflexivity. Qed.

  (* the implicit skip when the next character is not blank space *)
  Lemma runs_skip_none n s pos :
    Runs n (ECall (g_ws g)) AAtomic s pos Fail ->
    Runs (S (S n)) ESkip ANonAtomic s pos (Ok s pos []).
  Proof.
    intros H f Hf. destruct f as [|f]; [lia|]. cbn [run].
    destruct f as [|f]; [lia|]. cbn [run]. rewrite H by lia. reflexivity.
  Qed.

  Lemma runs_seq_ok n1 n2 n3 x y a s pos s1 p1 t1 s2 p2 t2 s3 p3 t3 :
    Runs n1 x a s pos (Ok s1 p1 t1) ->
    Runs n2 ESkip a s1 p1 (Ok s2 p2 t2) ->
    Runs n3 y a s2 p2 (Ok s3 p3 t3) ->
    Runs (S (Nat.max n1 (Nat.max n2 n3))) (ESeq x y) a s pos (Ok s3 p3 (t1 ++ t3)).
  Proof.
    intros H1 H2 H3 f Hf. destruct f as [|f]; [lia|]. cbn [run].
    rewrite H1 by lia. rewrite H2 by lia. rewrite H3 by lia. reflexivity.
  Qed.

  Lemma runs_seq_fail1 n1 x y a s pos :
    Runs n1 x a s pos Fail -> Runs (S n1) (ESeq x y) a s pos Fail.
  Proof. intros H1 f Hf. destruct f as [|f]; [lia|]. cbn [run]. rewrite H1 by lia. reflexivity. Qed.

  Lemma runs_seq_fail2 n1 n2 n3 x y a s pos s1 p1 t1 s2 p2 t2 :
    Runs n1 x a s pos (Ok s1 p1 t1) ->
    Runs n2 ESkip a s1 p1 (Ok s2 p2 t2) ->
    Runs n3 y a s2 p2 Fail ->
    Runs (S (Nat.max n1 (Nat.max n2 n3))) (ESeq x y) a s pos Fail.
  Proof.
    intros H1 H2 H3 f Hf. destruct f as [|f]; [lia|]. cbn [run].
    rewrite H1 by lia. rewrite H2 by lia. rewrite H3 by lia. reflexivity.
  Qed.

  Lemma runs_alt_l n x y a s pos s1 p1 t1 :
    Runs n x a s pos (Ok s1 p1 t1) -> Runs (S n) (EAlt x y) a s pos (Ok s1 p1 t1).
  Proof. intros H f Hf. destruct f as [|f]; [lia|]. cbn [run]. rewrite H by lia. reflexivity. Qed.

  Lemma runs_alt_r n1 n2 x y a s pos r :
    Runs n1 x a s pos Fail -> Runs n2 y a s pos r -> Runs (S (Nat.max n1 n2)) (EAlt x y) a s pos r.
  Proof.
    intros H1 H2 f Hf. destruct f as [|f]; [lia|]. cbn [run]. rewrite H1 by lia. apply H2. lia.
  Qed.

  Lemma runs_opt_some n x a s pos s1 p1 t1 :
    Runs n x a s pos (Ok s1 p1 t1) -> Runs (S n) (EOpt x) a s pos (Ok s1 p1 t1).
  Proof. intros H f Hf. destruct f as [|f]; [lia|]. cbn [run]. rewrite H by lia. reflexivity. Qed.

  Lemma runs_opt_none n x a s pos :
    Runs n x a s pos Fail -> Runs (S n) (EOpt x) a s pos (Ok s pos []).
  Proof. intros H f Hf. destruct f as [|f]; [lia|]. cbn [run]. rewrite H by lia. reflexivity. Qed.

  Lemma runs_rep_none n x a s pos :
    Runs n x a s pos Fail -> Runs (S n) (ERep x) a s pos (Ok s pos []).
  Proof. intros H f Hf. destruct f as [|f]; [lia|]. cbn [run]. rewrite H by lia. reflexivity. Qed.

  Lemma runs_rep_some n1 n2 x a s pos s1 p1 t1 s2 p2 t2 :
    Runs n1 x a s pos (Ok s1 p1 t1) ->
    Runs n2 (ERepTail x) a s1 p1 (Ok s2 p2 t2) ->
    Runs (S (Nat.max n1 n2)) (ERep x) a s pos (Ok s2 p2 (t1 ++ t2)).
  Proof.
    intros H1 H2 f Hf. destruct f as [|f]; [lia|]. cbn [run].
    rewrite H1 by lia. rewrite H2 by lia. reflexivity.
  Qed.

  Lemma runs_reptail_stop n1 n2 x a s pos s1 p1 t1 :
    Runs n1 ESkip a s pos (Ok s1 p1 t1) ->
    Runs n2 x a s1 p1 Fail ->
    Runs (S (Nat.max n1 n2)) (ERepTail x) a s pos (Ok s pos []).
  Proof.
    intros H1 H2 f Hf. destruct f as [|f]; [lia|]. cbn [run].
    rewrite H1 by lia. rewrite H2 by lia. reflexivity.
  Qed.

  Lemma runs_reptail_more n1 n2 n3 x a s pos s1 p1 t1 s2 p2 t2 s3 p3 t3 :
    Runs n1 ESkip a s pos (Ok s1 p1 t1) ->
    Runs n2 x a s1 p1 (Ok s2 p2 t2) ->
    p2 <> pos ->
    Runs n3 (ERepTail x) a s2 p2 (Ok s3 p3 t3) ->
    Runs (S (Nat.max n1 (Nat.max n2 n3))) (ERepTail x) a s pos (Ok s3 p3 (t2 ++ t3)).
  Proof.
    intros H1 H2 Hne H3 f Hf. destruct f as [|f]; [lia|]. cbn [run].
    rewrite H1 by lia. rewrite H2 by lia.
    destruct (Nat.eqb_spec p2 pos) as [E|_]; [contradiction|].
    rewrite H3 by lia. reflexivity.
  Qed.

  Lemma runs_not_ok n x a s pos :
    Runs n x a s pos Fail -> Runs (S n) (ENot x) a s pos (Ok s pos []).
  Proof. intros H f Hf. destruct f as [|f]; [lia|]. cbn [run]. rewrite H by lia. reflexivity. Qed.

  (* rule calls, by kind *)
  Lemma runs_call_silent n r body a s pos res :
    g_rule g r = (KSilent, body) -> Runs n body a s pos res -> Runs (S n) (ECall r) a s pos res.
  Proof.
    intros Hr H f Hf. destruct f as [|f]; [lia|]. cbn [run]. rewrite Hr. apply H. lia.
  Qed.

  Lemma runs_call_normal_ok n r body a s pos s1 p1 t1 :
    g_rule g r = (KNormal, body) -> Runs n body a s pos (Ok s1 p1 t1) ->
    Runs (S n) (ECall r) a s pos (Ok s1 p1 (if emits a then [Pair r pos p1 t1] else [])).
  Proof.
    intros Hr H f Hf. destruct f as [|f]; [lia|]. cbn [run]. rewrite Hr, H by lia. reflexivity.
  Qed.
  Lemma runs_call_normal_fail n r body a s pos :
    g_rule g r = (KNormal, body) -> Runs n body a s pos Fail -> Runs (S n) (ECall r) a s pos Fail.
  Proof.
    intros Hr H f Hf. destruct f as [|f]; [lia|]. cbn [run]. rewrite Hr, H by lia. reflexivity.
  Qed.

  Lemma runs_call_atomic_ok n r body a s pos s1 p1 t1 :
    g_rule g r = (KAtomic, body) -> Runs n body AAtomic s pos (Ok s1 p1 t1) ->
    Runs (S n) (ECall r) a s pos (Ok s1 p1 (if emits a then [Pair r pos p1 []] else [])).
  Proof.
    intros Hr H f Hf. destruct f as [|f]; [lia|]. cbn [run]. rewrite Hr, H by lia. reflexivity.
  Qed.
  Lemma runs_call_atomic_fail n r body a s pos :
    g_rule g r = (KAtomic, body) -> Runs n body AAtomic s pos Fail -> Runs (S n) (ECall r) a s pos Fail.
  Proof.
    intros Hr H f Hf. destruct f as [|f]; [lia|]. cbn [run]. rewrite Hr, H by lia. reflexivity.
  Qed.

  Lemma runs_call_compound_ok n r body a s pos s1 p1 t1 :
    g_rule g r = (KCompound, body) -> Runs n body ACompound s pos (Ok s1 p1 t1) ->
    Runs (S n) (ECall r) a s pos (Ok s1 p1 (if emits a then [Pair r pos p1 t1] else [])).
  Proof.
    intros Hr H f Hf. destruct f as [|f]; [lia|]. cbn [run]. rewrite Hr, H by lia. reflexivity.
  Qed.
  Lemma runs_call_compound_fail n r body a s pos :
    g_rule g r = (KCompound, body) -> Runs n body ACompound s pos Fail -> Runs (S n) (ECall r) a s pos Fail.
  Proof.
    intros Hr H f Hf. destruct f as [|f]; [lia|]. cbn [run]. rewrite Hr, H by lia. reflexivity.
  Qed.

  (* a repetition of a one-character recogniser over a run of characters that all match, stopped by the
     first character that does not (atomic context: no skip between iterations) *)
  Lemma runs_reptail_chars n x (P : N -> bool) :
    (forall c rest pos, P c = true -> Runs n x AAtomic (c :: rest) pos (Ok rest (S pos) [])) ->
    forall k stop pos,
      forallb P k = true ->
      Runs n x AAtomic stop (pos + length k) Fail ->
      Runs (S (S n) + length k) (ERepTail x) AAtomic (k ++ stop) pos (Ok stop (pos + length k) []).
  Proof.
    intros Hx k. induction k as [|c k IH]; intros stop pos Hk Hstop.
    - cbn [length app] in *. replace (pos + 0) with pos in * by lia.
      eapply runs_weaken; [eapply runs_reptail_stop; [apply runs_skip_atomic|exact Hstop]|lia].
    - cbn [forallb] in Hk. apply andb_true_iff in Hk. destruct Hk as [Hc Hk].
      cbn [length app] in *. replace (pos + S (length k)) with (S pos + length k) in * by lia.
      eapply runs_weaken.
      + change (@nil (pair rname)) with (@nil (pair rname) ++ []).
        eapply runs_reptail_more; [apply runs_skip_atomic|apply Hx; exact Hc|lia|].
        apply IH; [exact Hk|exact Hstop].
      + lia.
  Qed.

  Lemma runs_rep_chars n x (P : N -> bool) :
    (forall c rest pos, P c = true -> Runs n x AAtomic (c :: rest) pos (Ok rest (S pos) [])) ->
    forall k stop pos,
      forallb P k = true ->
      Runs n x AAtomic stop (pos + length k) Fail ->
      Runs (S (S (S n)) + length k) (ERep x) AAtomic (k ++ stop) pos (Ok stop (pos + length k) []).
  Proof.
    intros Hx k stop pos Hk Hstop. destruct k as [|c k].
    - cbn [length app] in *. replace (pos + 0) with pos in * by lia.
      eapply runs_weaken; [apply runs_rep_none; exact Hstop|lia].
    - cbn [forallb] in Hk. apply andb_true_iff in Hk. destruct Hk as [Hc Hk].
      cbn [length app] in *. replace (pos + S (length k)) with (S pos + length k) in * by lia.
      eapply runs_weaken.
      + change (@nil (pair rname)) with (@nil (pair rname) ++ []).
        eapply runs_rep_some; [apply Hx; exact Hc|].
        apply (runs_reptail_chars n x P Hx k stop (S pos) Hk Hstop).
      + lia.
  Qed.

  (* ---------- deterministic rules: the outcome of a compound expression as a function of the
     outcomes of its parts, whatever they are (no case split, hence no re-derivation) ---------- *)
  Definition seq_result (r1 r2 r3 : res rname) : res rname :=
    match r1 with
    | Ok _ _ t1 =>
        match r2 with
        | Ok _ _ _ => match r3 with Ok s3 p3 t3 => Ok s3 p3 (t1 ++ t3) | r => r end
        | r => r
        end
    | r => r
    end.

  Lemma runs_seq n1 n2 n3 x y a s pos r1 r2 r3 :
    Runs n1 x a s pos r1 ->
    match r1 with Ok s1 p1 _ => Runs n2 ESkip a s1 p1 r2 | _ => n2 = 0 /\ r2 = Fail end ->
    match r1, r2 with Ok _ _ _, Ok s2 p2 _ => Runs n3 y a s2 p2 r3 | _, _ => n3 = 0 /\ r3 = Fail end ->
    Runs (S (Nat.max n1 (Nat.max n2 n3))) (ESeq x y) a s pos (seq_result r1 r2 r3).
  Proof.
    intros H1 H2 H3 f Hf. destruct f as [|f]; [lia|]. cbn [run]. rewrite H1 by lia.
    destruct r1 as [| |s1 p1 t1]; try reflexivity. rewrite H2 by lia.
    destruct r2 as [| |s2 p2 t2]; try reflexivity. rewrite H3 by lia. destruct r3; reflexivity.
  Qed.

  (* results as functions of the partial results: a [match] written in a statement would copy its scrutinee
     into the default branch, and nested alternatives would grow exponentially *)
  Definition alt_result (r1 r2 : res rname) : res rname := match r1 with Fail => r2 | _ => r1 end.
  Definition opt_result (s : str) (pos : nat) (r1 : res rname) : res rname :=
    match r1 with Fail => Ok s pos [] | _ => r1 end.
  Definition not_result (s : str) (pos : nat) (r1 : res rname) : res rname :=
    match r1 with Fail => Ok s pos [] | OutOfFuel => OutOfFuel | Ok _ _ _ => Fail end.
  Definition and_result (s : str) (pos : nat) (r1 : res rname) : res rname :=
    match r1 with Ok _ _ _ => Ok s pos [] | _ => r1 end.
  Definition skip_result (a : atomicity) (s : str) (pos : nat) (r1 : res rname) : res rname :=
    match a with
    | ANonAtomic => match r1 with Ok rest p _ => Ok rest p [] | _ => r1 end
    | _ => Ok s pos []
    end.

  Lemma runs_alt n1 n2 x y a s pos r1 r2 :
    Runs n1 x a s pos r1 ->
    match r1 with Fail => Runs n2 y a s pos r2 | _ => n2 = 0 /\ r2 = Fail end ->
    Runs (S (Nat.max n1 n2)) (EAlt x y) a s pos (alt_result r1 r2).
  Proof.
    intros H1 H2 f Hf. destruct f as [|f]; [lia|]. cbn [run]. rewrite H1 by lia.
    destruct r1; try reflexivity. apply H2. lia.
  Qed.

  Lemma runs_opt n x a s pos r1 :
    Runs n x a s pos r1 -> Runs (S n) (EOpt x) a s pos (opt_result s pos r1).
  Proof. intros H f Hf. destruct f as [|f]; [lia|]. cbn [run]. rewrite H by lia. destruct r1; reflexivity. Qed.

  Lemma runs_not n x a s pos r1 :
    Runs n x a s pos r1 ->
    Runs (S n) (ENot x) a s pos (not_result s pos r1).
  Proof. intros H f Hf. destruct f as [|f]; [lia|]. cbn [run]. rewrite H by lia. destruct r1; reflexivity. Qed.

  Lemma runs_and n x a s pos r1 :
    Runs n x a s pos r1 ->
    Runs (S n) (EAnd x) a s pos (and_result s pos r1).
  Proof. intros H f Hf. destruct f as [|f]; [lia|]. cbn [run]. rewrite H by lia. destruct r1; reflexivity. Qed.

  Definition rep_result (s : str) (pos : nat) (r1 r2 : res rname) : res rname :=
    match r1 with
    | Fail => Ok s pos []
    | OutOfFuel => OutOfFuel
    | Ok _ _ t1 => match r2 with Ok s2 p2 t2 => Ok s2 p2 (t1 ++ t2) | r => r end
    end.

  Lemma runs_rep n1 n2 x a s pos r1 r2 :
    Runs n1 x a s pos r1 ->
    match r1 with Ok s1 p1 _ => Runs n2 (ERepTail x) a s1 p1 r2 | _ => n2 = 0 /\ r2 = Fail end ->
    Runs (S (Nat.max n1 n2)) (ERep x) a s pos (rep_result s pos r1 r2).
  Proof.
    intros H1 H2 f Hf. destruct f as [|f]; [lia|]. cbn [run]. rewrite H1 by lia.
    destruct r1 as [| |s1 p1 t1]; try reflexivity. cbn [rep_result]. rewrite H2 by lia. destruct r2; reflexivity.
  Qed.

  Definition reptail_result (s : str) (pos : nat) (r0 r1 r2 : res rname) : res rname :=
    match r0 with
    | Ok _ _ _ =>
        match r1 with
        | Fail => Ok s pos []
        | OutOfFuel => OutOfFuel
        | Ok _ p2 t2 =>
            if Nat.eqb p2 pos then Ok s pos []
            else match r2 with Ok s3 p3 t3 => Ok s3 p3 (t2 ++ t3) | r => r end
        end
    | r => r
    end.

  Lemma runs_reptail n0 n1 n2 x a s pos r0 r1 r2 :
    Runs n0 ESkip a s pos r0 ->
    match r0 with Ok s1 p1 _ => Runs n1 x a s1 p1 r1 | _ => n1 = 0 /\ r1 = Fail end ->
    match r0, r1 with
    | Ok _ _ _, Ok s2 p2 _ => if Nat.eqb p2 pos then n2 = 0 /\ r2 = Fail else Runs n2 (ERepTail x) a s2 p2 r2
    | _, _ => n2 = 0 /\ r2 = Fail
    end ->
    Runs (S (Nat.max n0 (Nat.max n1 n2))) (ERepTail x) a s pos (reptail_result s pos r0 r1 r2).
  Proof.
    intros H0 H1 H2 f Hf. destruct f as [|f]; [lia|]. cbn [run]. rewrite H0 by lia.
    destruct r0 as [| |s1 p1 t1]; try reflexivity. rewrite H1 by lia.
    destruct r1 as [| |s2 p2 t2]; try reflexivity. cbn [reptail_result].
    destruct (Nat.eqb p2 pos); [reflexivity|]. rewrite H2 by lia. destruct r2; reflexivity.
  Qed.

  Definition call_atomicity (k : rkind) (a : atomicity) : atomicity :=
    match k with
    | KSilent | KNormal => a
    | KAtomic => AAtomic
    | KCompound => ACompound
    | KNonAtomic => ANonAtomic
    end.
  Definition call_result (k : rkind) (r : rname) (a : atomicity) (pos : nat) (r1 : res rname) : res rname :=
    match k with
    | KSilent => r1
    | KAtomic => match r1 with Ok rest p _ => Ok rest p (if emits a then [Pair r pos p []] else []) | x => x end
    | _ => match r1 with Ok rest p toks => Ok rest p (if emits a then [Pair r pos p toks] else []) | x => x end
    end.

  Lemma runs_call n r k body a s pos r1 :
    g_rule g r = (k, body) ->
    Runs n body (call_atomicity k a) s pos r1 ->
    Runs (S n) (ECall r) a s pos (call_result k r a pos r1).
  Proof.
    intros Hr H f Hf. destruct f as [|f]; [lia|]. cbn [run]. rewrite Hr.
    destruct k; cbn [call_atomicity call_result] in *; rewrite H by lia; destruct r1; reflexivity.
  Qed.

  Lemma runs_skip n s pos r1 a :
    match a with ANonAtomic => Runs n (ERep (ECall (g_ws g))) AAtomic s pos r1 | _ => n = 0 /\ r1 = Fail end ->
    Runs (S n) ESkip a s pos (skip_result a s pos r1).
  Proof.
    intros H f Hf. destruct f as [|f]; [lia|]. cbn [run]. destruct a; try reflexivity.
    rewrite H by lia. destruct r1; reflexivity.
  Qed.
End Rules.

Arguments Runs {rname}.
Arguments seq_result {rname}. Arguments rep_result {rname}. Arguments reptail_result {rname}.
Arguments call_result {rname}. Arguments call_atomicity : simpl nomatch.
Arguments alt_result {rname}. Arguments opt_result {rname}. Arguments not_result {rname}.
Arguments and_result {rname}. Arguments skip_result {rname}.
