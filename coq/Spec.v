(* Spec.v — what RFC 9535 says a query means, written to be read against the RFC section by
   section and in the RFC's own vocabulary (nodes = location + value, nodelists, ValueType /
   NodesType / LogicalType).  Nothing of the implementation's mechanics appears here (no
   Ref/Refs/Value, no pointers, no path strings).  The semantics is given on the parser's AST;
   what a raw name or string literal denotes is fixed by [decode_name] / [decode_body]
   (RFC 9535 section 2.3.1.2, table 4).

   One switch: [sel_major].  [false] is the RFC (section 2.5.1.2: for each input node, the
   selectors in turn); [true] describes the known deviation D1 of the code precisely (for each
   selector, all input nodes) so that the refinement theorem can be total. *)
From Coq Require Import List NArith ZArith Bool.
From JP Require Import Base Ast.
Import ListNotations.
Open Scope Z_scope.

(** * 2.3.1.2  Name selector: decoding of string literals *)
Definition hexval (c : N) : option N :=
  if (N.leb 48 c && N.leb c 57)%N then Some (c - 48)%N
  else if (N.leb 65 c && N.leb c 70)%N then Some (c - 55)%N
  else if (N.leb 97 c && N.leb c 102)%N then Some (c - 87)%N
  else None.
Definition hex4 (a b c d : N) : option N :=
  match hexval a, hexval b, hexval c, hexval d with
  | Some x, Some y, Some z, Some w => Some (x * 4096 + y * 256 + z * 16 + w)%N
  | _, _, _, _ => None
  end.
Definition is_high (u : N) : bool := (N.leb 55296 u && N.leb u 56319)%N.   (* D800..DBFF *)
Definition is_low (u : N) : bool := (N.leb 56320 u && N.leb u 57343)%N.    (* DC00..DFFF *)

(* [q] is the quote character of the literal: only that quote may be escaped *)
Fixpoint decode_esc (fuel : nat) (q : N) (s : str) : option str :=
  match fuel with
  | O => None
  | S f =>
    match s with
    | [] => Some []
    | c :: rest =>
        if N.eqb c 92 then                                        (* backslash: an escape *)
          match rest with
          | [] => None
          | e :: r =>
              if N.eqb e 98 then option_map (cons 8%N) (decode_esc f q r)          (* \b *)
              else if N.eqb e 102 then option_map (cons 12%N) (decode_esc f q r)   (* \f *)
              else if N.eqb e 110 then option_map (cons 10%N) (decode_esc f q r)   (* \n *)
              else if N.eqb e 114 then option_map (cons 13%N) (decode_esc f q r)   (* \r *)
              else if N.eqb e 116 then option_map (cons 9%N) (decode_esc f q r)    (* \t *)
              else if N.eqb e 47 then option_map (cons 47%N) (decode_esc f q r)    (* \/ *)
              else if N.eqb e 92 then option_map (cons 92%N) (decode_esc f q r)    (* \\ *)
              else if N.eqb e 117 then                                             (* \uXXXX *)
                match r with
                | a :: b :: c' :: d :: r1 =>
                    match hex4 a b c' d with
                    | Some u =>
                        if is_high u then
                          match r1 with
                          | b1 :: u1 :: a2 :: b2 :: c2 :: d2 :: r2 =>
                              if N.eqb b1 92 && N.eqb u1 117 then
                                match hex4 a2 b2 c2 d2 with
                                | Some l =>
                                    if is_low l
                                    then option_map
                                           (cons (65536 + (u - 55296) * 1024 + (l - 56320))%N)
                                           (decode_esc f q r2)
                                    else None
                                | None => None
                                end
                              else None
                          | _ => None
                          end
                        else if is_low u then None
                        else option_map (cons u) (decode_esc f q r1)
                    | None => None
                    end
                | _ => None
                end
              else if N.eqb e q then option_map (cons q) (decode_esc f q r)        (* the escaped quote *)
              else None
          end
        else if N.eqb c q then None            (* the enclosing quote cannot appear unescaped *)
        else if N.ltb c 32 then None           (* control characters must be escaped *)
        else option_map (cons c) (decode_esc f q rest)
    end
  end.
Definition decode_body (q : N) (s : str) : option str := decode_esc (S (length s)) q s.

(* Raw selector text: 'body', "body" or a shorthand name. *)
Definition decode_name (raw : str) : option str :=
  match raw with
  | c :: rest =>
      if N.eqb c 39 || N.eqb c 34 then
        match rev rest with
        | c2 :: body_rev => if N.eqb c2 c then decode_body c (rev body_rev) else None
        | [] => None
        end
      else Some raw
  | [] => Some raw
  end.

(** * 2.3.5.2.2  Comparisons *)
(* the mathematical value of a number, whatever its stored kind *)
Definition num_val (n : num) : dy := match n with NInt z => (z, 0) | NFlt d => d end.

(* RFC 9535 2.1 / I-JSON (RFC 7493 2.2): numbers are interoperable as IEEE 754 binary64 values.
   [num_f64] is the binary64 a number denotes; it is the mathematical value [num_val] whenever the
   number is an integer of magnitude below 2^53 or a float (lemma [num_f64_exact], SpecFacts).
   The comparison rules below are stated on [num_f64]; C04 restates them on [num_val] under that
   proviso. *)
Definition num_f64 (n : num) : dy := num_to_dy n.

Fixpoint rfc_json_eq (a b : json) : bool :=
  match a, b with
  | JNull, JNull => true
  | JBool x, JBool y => Bool.eqb x y
  | JNum x, JNum y => dy_eqb (num_f64 x) (num_f64 y)
  | JStr x, JStr y => str_eqb x y
  | JArr la, JArr lb =>
      (fix go (la lb : list json) : bool :=
         match la, lb with
         | [], [] => true
         | x :: la', y :: lb' => rfc_json_eq x y && go la' lb'
         | _, _ => false
         end) la lb
  | JObj ma, JObj mb =>
      (* equal as collections of name/value pairs: as many members, and every member of [a] has
         a member of [b] with the same name and an equal value.  Member names are unique within
         an object ([wf_json]; always so in this library), which makes this the lookup form
         [assoc k mb = Some y /\ x == y] (lemma [obj_eq_assoc_form], ValueFacts) *)
      Nat.eqb (length ma) (length mb)
      && forallb (fun kv => existsb (fun kv2 => str_eqb (fst kv) (fst kv2)
                                               && rfc_json_eq (snd kv) (snd kv2)) mb) ma
  | _, _ => false
  end.

(* an instance of ValueType: a JSON value or Nothing *)
Definition vtype := option json.

Definition rfc_eq (a b : vtype) : bool :=
  match a, b with
  | None, None => true
  | Some x, Some y => rfc_json_eq x y
  | _, _ => false
  end.
Definition rfc_lt (a b : vtype) : bool :=
  match a, b with
  | Some (JNum x), Some (JNum y) => dy_ltb (num_f64 x) (num_f64 y)
  | Some (JStr x), Some (JStr y) => str_ltb x y
  | _, _ => false
  end.
Definition rfc_compare (op : cmpop) (a b : vtype) : bool :=
  match op with
  | OpEq => rfc_eq a b
  | OpNe => negb (rfc_eq a b)
  | OpLt => rfc_lt a b
  | OpLe => rfc_lt a b || rfc_eq a b
  | OpGt => rfc_lt b a
  | OpGe => rfc_lt b a || rfc_eq a b
  end.

(** * 2.3.3 / 2.3.4  Index and slice *)
Definition rfc_index (len i : Z) : option Z :=
  let j := if Z.leb 0 i then i else len + i in
  if Z.leb 0 j && Z.ltb j len then Some j else None.

(* closed form of the index sequence of 2.3.4.2.2: Normalize, Bounds, then the arithmetic
   progression from the first bound towards the second *)
Definition rfc_slice (len : Z) (start end_ step : option Z) : list Z :=
  let norm := fun i : Z => if Z.leb 0 i then i else len + i in
  let st := match step with Some s => s | None => 1 end in
  if Z.eqb st 0 then []
  else if Z.ltb 0 st then
    let n_start := norm (match start with Some s => s | None => 0 end) in
    let n_end := norm (match end_ with Some e => e | None => len end) in
    let lower := Z.min (Z.max n_start 0) len in
    let upper := Z.min (Z.max n_end 0) len in
    let count := if Z.ltb lower upper then (upper - lower + st - 1) / st else 0 in
    map (fun k => lower + Z.of_nat k * st) (seq 0 (Z.to_nat count))
  else
    let n_start := norm (match start with Some s => s | None => len - 1 end) in
    let n_end := norm (match end_ with Some e => e | None => - len - 1 end) in
    let upper := Z.min (Z.max n_start (-1)) (len - 1) in
    let lower := Z.min (Z.max n_end (-1)) (len - 1) in
    let count := if Z.ltb lower upper then (upper - lower + (- st) - 1) / (- st) else 0 in
    map (fun k => upper + Z.of_nat k * st) (seq 0 (Z.to_nat count)).

(** * 2.5.2  Descendants, in the order the RFC requires (a node before its descendants,
      array elements in index order, members in the document's member order) *)
Fixpoint descendants_or_self (l : loc) (j : json) : list node :=
  (l, j) ::
  match j with
  | JArr a =>
      (fix go (i : nat) (a : list json) : list node :=
         match a with
         | [] => []
         | x :: a' => descendants_or_self (l ++ [SIdx i]) x ++ go (S i) a'
         end) 0%nat a
  | JObj m =>
      (fix go (m : list (str * json)) : list node :=
         match m with
         | [] => []
         | (k, v) :: m' => descendants_or_self (l ++ [SName k]) v ++ go m'
         end) m
  | _ => []
  end.

(** * 2.4  Function extensions: the type system and the five functions *)
Inductive fres :=
| RNodes (l : list node)      (* NodesType *)
| RValue (v : vtype)          (* ValueType *)
| RLogical (b : bool).        (* LogicalType *)

(* 2.4.2 type conversions at a parameter of the declared type *)
Definition as_value (r : fres) : vtype :=
  match r with
  | RValue v => v
  | RNodes [n] => Some (snd n)      (* singular query: its node's value, *)
  | RNodes _ => None                (* or Nothing when it selects no node *)
  | RLogical _ => None              (* ill-typed; excluded by [well_typed] *)
  end.
Definition as_nodes (r : fres) : list node :=
  match r with RNodes l => l | _ => [] end.
Definition as_logical (r : fres) : bool :=
  match r with
  | RLogical b => b
  | RNodes l => match l with [] => false | _ => true end
  | RValue _ => false               (* ill-typed; excluded by [well_typed] *)
  end.

Definition jint (z : Z) : json := JNum (NInt z).

Definition rfc_length (v : vtype) : vtype :=
  match v with
  | Some (JStr s) => Some (jint (Z.of_nat (length s)))
  | Some (JArr l) => Some (jint (Z.of_nat (length l)))
  | Some (JObj m) => Some (jint (Z.of_nat (length m)))
  | _ => None
  end.
Definition rfc_count (l : list node) : vtype := Some (jint (Z.of_nat (length l))).
Definition rfc_value (l : list node) : vtype :=
  match l with [n] => Some (snd n) | _ => None end.

(* the library's documented extension functions (C14), over the element equality [veq] *)
Section Ext.
  Variable veq : json -> json -> bool.
  Definition ext_in (x : json) (l : list json) : bool := existsb (fun item => veq item x) l.
  Definition ext_any_of (a b : list json) : bool := existsb (fun x => existsb (fun y => veq x y) b) a.
  Definition ext_subset_of (a b : list json) : bool := forallb (fun x => existsb (fun y => veq x y) b) a.
End Ext.

Definition lit_value (l : literal) : vtype :=
  match l with
  | LInt z => Some (JNum (NInt z))
  | LFloat d => Some (JNum (NFlt d))
  | LStr s => None                 (* placeholder, see [lit_denot] *)
  | LBool b => Some (JBool b)
  | LNull => Some JNull
  end.

Section Sem.
  (* I-Regexp (RFC 9485) matching, supplied by Regex spec: [rx_full p s] = the whole of [s]
     matches [p]; [rx_sub p s] = some substring does; both false when [p] is not a valid
     I-Regexp.  Arguments are decoded strings. *)
  Variable rx_full : str -> str -> bool.
  Variable rx_sub : str -> str -> bool.
  (* element equality of the extension functions *)
  Variable ext_veq : json -> json -> bool.
  Variable sel_major : bool.
  Variable root : json.

  (* A string literal denotes its decoded body; which quote enclosed it is not recorded in the
     AST, and the body can contain at most one kind of escaped quote, so both are tried. *)
  Definition lit_denot (l : literal) : vtype :=
    match l with
    | LStr s =>
        match decode_body 39 s with
        | Some d => Some (JStr d)
        | None => match decode_body 34 s with Some d => Some (JStr d) | None => None end
        end
    | _ => lit_value l
    end.

  Definition sel_name (raw : str) (n : node) : list node :=
    match decode_name raw, snd n with
    | Some k, JObj m =>
        match assoc k m with Some v => [(fst n ++ [SName k], v)] | None => [] end
    | _, _ => []
    end.
  Definition sel_index (i : Z) (n : node) : list node :=
    match snd n with
    | JArr a =>
        match rfc_index (Z.of_nat (length a)) i with
        | Some j => match nth_error a (Z.to_nat j) with
                    | Some v => [(fst n ++ [SIdx (Z.to_nat j)], v)]
                    | None => []
                    end
        | None => []
        end
    | _ => []
    end.
  Definition sel_slice (s e st : option Z) (n : node) : list node :=
    match snd n with
    | JArr a =>
        flat_map (fun j => match nth_error a (Z.to_nat j) with
                           | Some v => [(fst n ++ [SIdx (Z.to_nat j)], v)]
                           | None => []
                           end)
                 (rfc_slice (Z.of_nat (length a)) s e st)
    | _ => []
    end.

  Definition sq_step (s : sqseg) (n : node) : list node :=
    match s with
    | SqIndex i => sel_index i n
    | SqName k => sel_name k n
    end.
  Definition r_squery (q : squery) (cur : json) : list node :=
    match q with
    | SqCur l => fold_left (fun ns s => flat_map (sq_step s) ns) l [([], cur)]
    | SqRoot l => fold_left (fun ns s => flat_map (sq_step s) ns) l [([], root)]
    end.

  Definition ext_fn (name : str) (args : list vtype) : bool :=
    match args with
    | [Some x; Some (JArr l)] =>
        if str_eqb name [105; 110]%N then ext_in ext_veq x l
        else if str_eqb name [110; 105; 110]%N then negb (ext_in ext_veq x l)
        else match x with
             | JArr a =>
                 if str_eqb name [97; 110; 121; 95; 111; 102]%N then ext_any_of ext_veq a l
                 else if str_eqb name [110; 111; 110; 101; 95; 111; 102]%N
                 then negb (ext_any_of ext_veq a l)
                 else if str_eqb name [115; 117; 98; 115; 101; 116; 95; 111; 102]%N
                 then ext_subset_of ext_veq a l
                 else false
             | _ => false
             end
    | _ => false       (* missing argument, wrong arity, or not an array: the test is false *)
    end.

  Fixpoint r_segment (s : segment) (ns : list node) : list node :=
    match s with
    | SegDesc s' => r_segment s' (flat_map (fun n => descendants_or_self (fst n) (snd n)) ns)
    | SegSel sel => flat_map (r_selector sel) ns
    | SegSels l =>
        if sel_major then r_selectors_major l ns
        else flat_map (r_selectors l) ns
    end
  with r_selector (s : selector) (n : node) : list node :=
    match s with
    | SelName raw => sel_name raw n
    | SelWild => children n
    | SelIndex i => sel_index i n
    | SelSlice a b c => sel_slice a b c n
    | SelFilter f => List.filter (fun c => r_holds f (snd c)) (children n)
    end
  (* 2.5.1.2: the selectors of a segment, in turn, on one input node *)
  with r_selectors (l : selectors) (n : node) : list node :=
    match l with
    | SNil => []
    | SCons s l' => r_selector s n ++ r_selectors l' n
    end
  (* deviation D1: each selector over the whole input nodelist *)
  with r_selectors_major (l : selectors) (ns : list node) : list node :=
    match l with
    | SNil => []
    | SCons s l' => flat_map (r_selector s) ns ++ r_selectors_major l' ns
    end
  with r_segments (l : segments) (ns : list node) : list node :=
    match l with
    | GNil => ns
    | GCons s l' => r_segments l' (r_segment s ns)
    end
  (* 2.3.5.2: logical expressions; [cur] is the value of the current node @ *)
  with r_holds (f : filter) (cur : json) : bool :=
    match f with
    | FOr l => r_any l cur
    | FAnd l => r_all l cur
    | FAtom a => r_atom a cur
    end
  with r_any (l : filters) (cur : json) : bool :=
    match l with FNil => false | FCons f l' => r_holds f cur || r_any l' cur end
  with r_all (l : filters) (cur : json) : bool :=
    match l with FNil => true | FCons f l' => r_holds f cur && r_all l' cur end
  with r_atom (a : atom) (cur : json) : bool :=
    match a with
    | AFilter f neg => xorb neg (r_holds f cur)
    | ATest t neg => xorb neg (as_logical (r_test t cur))
    | ACmp op l r => rfc_compare op (r_comparable l cur) (r_comparable r cur)
    end
  with r_comparable (c : comparable) (cur : json) : vtype :=
    match c with
    | CLit l => lit_denot l
    | CFn f => as_value (r_tfun f cur)
    | CSq q => as_value (RNodes (r_squery q cur))
    end
  with r_test (t : test) (cur : json) : fres :=
    match t with
    | TRel l => RNodes (r_segments l [([], cur)])
    | TAbs l => RNodes (r_segments l [([], root)])
    | TFn f => r_tfun f cur
    end
  with r_tfun (f : tfun) (cur : json) : fres :=
    match f with
    | FnLength a => RValue (rfc_length (as_value (r_fnarg a cur)))
    | FnCount a => RValue (rfc_count (as_nodes (r_fnarg a cur)))
    | FnValue a => RValue (rfc_value (as_nodes (r_fnarg a cur)))
    | FnMatch a b =>
        RLogical (match as_value (r_fnarg a cur), as_value (r_fnarg b cur) with
                  | Some (JStr s), Some (JStr p) => rx_full p s
                  | _, _ => false
                  end)
    | FnSearch a b =>
        RLogical (match as_value (r_fnarg a cur), as_value (r_fnarg b cur) with
                  | Some (JStr s), Some (JStr p) => rx_sub p s
                  | _, _ => false
                  end)
    | FnCustom name args => RLogical (ext_fn name (r_fnargs args cur))
    end
  with r_fnarg (a : fnarg) (cur : json) : fres :=
    match a with
    | ArgLit l => RValue (lit_denot l)
    | ArgTest t => r_test t cur
    | ArgFilter f => RLogical (r_holds f cur)
    end
  with r_fnargs (l : fnargs) (cur : json) : list vtype :=
    match l with
    | ANil => []
    | ACons a l' => as_value (r_fnarg a cur) :: r_fnargs l' cur
    end.

  (* 2.1.2: the query is applied to the root node; each segment to the previous nodelist *)
  Definition r_query (q : query) : list node := r_segments q [([], root)].
End Sem.
