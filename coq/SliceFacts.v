(* SliceFacts.v — the two while-loops of process_slice equal the closed-form arithmetic
   progressions of the RFC, for every array length and all bounds and steps in Z. *)
From Coq Require Import List NArith ZArith Bool Lia.
From JP Require Import Base Ast Eval Spec.
Import ListNotations.
Open Scope Z_scope.

Ltac Zify.zify_post_hook ::= Z.div_mod_to_equations.

Lemma seq_shift_map {A} (f : nat -> A) n :
  map f (seq 1 n) = map (fun k => f (S k)) (seq 0 n).
Proof. rewrite <- seq_shift, map_map. reflexivity. Qed.

(* number of terms of the progression idx, idx+e, ... below upper *)
Definition up_count (idx upper e : Z) : Z :=
  if Z.ltb idx upper then (upper - idx + e - 1) / e else 0.

Lemma up_count_step idx upper e :
  0 < e -> idx < upper -> up_count idx upper e = 1 + up_count (idx + e) upper e.
Proof.
  intros He Hlt. unfold up_count.
  destruct (Z.ltb_spec idx upper) as [_|?]; [|lia].
  destruct (Z.ltb_spec (idx + e) upper) as [H2|H2].
  - replace (upper - idx + e - 1) with ((upper - (idx + e) + e - 1) + 1 * e) by lia.
    rewrite Z.div_add by lia. lia.
  - assert (H : (upper - idx + e - 1) / e = 1); [|lia].
    symmetry. apply Z.div_unique with (r := upper - idx - 1); lia.
Qed.

Lemma up_count_nonneg idx upper e : 0 < e -> 0 <= up_count idx upper e.
Proof.
  intros He. unfold up_count. destruct (Z.ltb_spec idx upper); [|lia].
  apply Z.div_pos; lia.
Qed.

Lemma up_loop_closed fuel : forall idx upper e,
  0 < e -> up_count idx upper e <= Z.of_nat fuel ->
  up_loop fuel idx upper e
  = map (fun k => idx + Z.of_nat k * e) (seq 0 (Z.to_nat (up_count idx upper e))).
Proof.
  induction fuel as [|fuel IH]; intros idx upper e He Hf.
  - pose proof (up_count_nonneg idx upper e He).
    replace (up_count idx upper e) with 0 by lia. reflexivity.
  - cbn [up_loop]. destruct (Z.ltb_spec idx upper) as [Hlt|Hge].
    + rewrite (up_count_step idx upper e He Hlt) in *.
      pose proof (up_count_nonneg (idx + e) upper e He) as Hnn.
      rewrite Z2Nat.inj_add by lia. change (Z.to_nat 1) with 1%nat.
      cbn [Nat.add seq map]. f_equal; [lia|].
      rewrite IH by lia. rewrite seq_shift_map. apply map_ext. intros k. lia.
    + unfold up_count. destruct (Z.ltb_spec idx upper); [lia|]. reflexivity.
Qed.

Definition down_count (idx lower e : Z) : Z :=
  if Z.ltb lower idx then (idx - lower + (- e) - 1) / (- e) else 0.

Lemma down_count_step idx lower e :
  e < 0 -> lower < idx -> down_count idx lower e = 1 + down_count (idx + e) lower e.
Proof.
  intros He Hlt. unfold down_count.
  destruct (Z.ltb_spec lower idx) as [_|?]; [|lia].
  destruct (Z.ltb_spec lower (idx + e)) as [H2|H2].
  - replace (idx - lower + - e - 1) with ((idx + e - lower + - e - 1) + 1 * (- e)) by lia.
    rewrite Z.div_add by lia. lia.
  - assert (H : (idx - lower + - e - 1) / - e = 1); [|lia].
    symmetry. apply Z.div_unique with (r := idx - lower - 1); lia.
Qed.

Lemma down_count_nonneg idx lower e : e < 0 -> 0 <= down_count idx lower e.
Proof.
  intros He. unfold down_count. destruct (Z.ltb_spec lower idx); [|lia].
  apply Z.div_pos; lia.
Qed.

Lemma down_loop_closed fuel : forall idx lower e,
  e < 0 -> down_count idx lower e <= Z.of_nat fuel ->
  down_loop fuel idx lower e
  = map (fun k => idx + Z.of_nat k * e) (seq 0 (Z.to_nat (down_count idx lower e))).
Proof.
  induction fuel as [|fuel IH]; intros idx lower e He Hf.
  - pose proof (down_count_nonneg idx lower e He).
    replace (down_count idx lower e) with 0 by lia. reflexivity.
  - cbn [down_loop]. destruct (Z.ltb_spec lower idx) as [Hlt|Hge].
    + rewrite (down_count_step idx lower e He Hlt) in *.
      pose proof (down_count_nonneg (idx + e) lower e He) as Hnn.
      rewrite Z2Nat.inj_add by lia. change (Z.to_nat 1) with 1%nat.
      cbn [Nat.add seq map]. f_equal; [lia|].
      rewrite IH by lia. rewrite seq_shift_map. apply map_ext. intros k. lia.
    + unfold down_count. destruct (Z.ltb_spec lower idx); [lia|]. reflexivity.
Qed.

(* the loops run at most len times when the bounds are clamped as the code clamps them *)
Lemma up_count_le_len lower upper e len :
  0 <= len -> 0 < e -> 0 <= lower -> upper <= len -> up_count lower upper e <= len.
Proof.
  intros Hlen He Hl Hu. unfold up_count. destruct (Z.ltb_spec lower upper); [|lia].
  apply Z.div_le_upper_bound; [lia|].
  assert (0 <= (len - 1) * (e - 1)) by (apply Z.mul_nonneg_nonneg; lia). lia.
Qed.
Lemma down_count_le_len upper lower e len :
  0 <= len -> e < 0 -> -1 <= lower -> upper <= len - 1 -> down_count upper lower e <= len.
Proof.
  intros Hlen He Hl Hu. unfold down_count. destruct (Z.ltb_spec lower upper); [|lia].
  apply Z.div_le_upper_bound; [lia|].
  assert (0 <= (len - 1) * (- e - 1)) by (apply Z.mul_nonneg_nonneg; lia). lia.
Qed.

Section Slice.
  Variable T : Type.
  Variable Q : qops T.

  (* C11: the code's index sequence is the RFC's, for all lengths, bounds and steps *)
  Theorem slice_indices_rfc len start end_ step :
    0 <= len -> slice_indices len start end_ step = rfc_slice len start end_ step.
  Proof.
    intros Hlen. unfold slice_indices, rfc_slice, opt_or.
    set (st := match step with Some s => s | None => 1 end).
    destruct (Z.ltb_spec 0 st) as [Hpos|Hnpos].
    - destruct (Z.eqb_spec st 0) as [?|_]; [lia|].
      match goal with |- up_loop _ ?lo ?up _ = _ =>
        set (lower := lo); set (upper := up) end.
      rewrite up_loop_closed; try lia.
      + unfold up_count. reflexivity.
      + pose proof (up_count_le_len lower upper st len Hlen Hpos) as H.
        subst lower upper. lia.
    - destruct (Z.ltb_spec st 0) as [Hneg|Hz].
      + destruct (Z.eqb_spec st 0) as [?|_]; [lia|].
        match goal with |- down_loop _ ?up ?lo _ = _ =>
          set (lower := lo); set (upper := up) end.
        rewrite down_loop_closed; try lia.
        * unfold down_count. reflexivity.
        * pose proof (down_count_le_len upper lower st len Hlen Hneg) as H.
          subst lower upper. lia.
      + assert (st = 0) as -> by lia. reflexivity.
  Qed.

  (* every index the RFC sequence produces addresses an element: [elements.get(i)] never misses *)
  Theorem rfc_slice_in_bounds len start end_ step i :
    0 <= len -> In i (rfc_slice len start end_ step) -> 0 <= i < len.
  Proof.
    intros Hlen. unfold rfc_slice.
    set (st := match step with Some s => s | None => 1 end).
    destruct (Z.eqb_spec st 0) as [|Hnz]; [intros []|].
    destruct (Z.ltb_spec 0 st) as [Hpos|Hnpos].
    - match goal with |- In _ (map _ (seq 0 (Z.to_nat ?c))) -> _ => set (cnt := c) end.
      intros Hin. apply in_map_iff in Hin. destruct Hin as [k [<- Hk]].
      apply in_seq in Hk.
      match goal with cnt := (if ?lo <? ?up then _ else _) |- _ =>
        set (lower := lo) in *; set (upper := up) in * end.
      assert (Hl : 0 <= lower <= len) by (subst lower; lia).
      assert (Hu : 0 <= upper <= len) by (subst upper; lia).
      destruct (Z.ltb_spec lower upper) as [Hlt|Hge]; [|subst cnt; simpl in Hk; lia].
      assert (Hk' : Z.of_nat k < cnt) by lia.
      assert (Hc : (cnt - 1) * st < upper - lower).
      { subst cnt. clearbody lower upper st. 
        assert ((upper - lower + st - 1) / st * st <= upper - lower + st - 1)
          by (rewrite Z.mul_comm; apply Z.mul_div_le; lia).
        lia. }
      nia.
    - assert (Hneg : st < 0) by lia.
      match goal with |- In _ (map _ (seq 0 (Z.to_nat ?c))) -> _ => set (cnt := c) end.
      intros Hin. apply in_map_iff in Hin. destruct Hin as [k [<- Hk]].
      apply in_seq in Hk.
      match goal with cnt := (if ?lo <? ?up then _ else _) |- _ =>
        set (lower := lo) in *; set (upper := up) in * end.
      assert (Hl : -1 <= lower <= len - 1) by (subst lower; lia).
      assert (Hu : -1 <= upper <= len - 1) by (subst upper; lia).
      destruct (Z.ltb_spec lower upper) as [Hlt|Hge]; [|subst cnt; simpl in Hk; lia].
      assert (Hk' : Z.of_nat k < cnt) by lia.
      assert (Hc : (cnt - 1) * (- st) < upper - lower).
      { subst cnt. clearbody lower upper st.
        assert ((upper - lower + - st - 1) / - st * - st <= upper - lower + - st - 1)
          by (rewrite Z.mul_comm; apply Z.mul_div_le; lia).
        lia. }
      nia.
  Qed.
End Slice.
