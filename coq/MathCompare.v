(* MathCompare.v — the comparison rules stated on the mathematical value of numbers, and the
   I-JSON proviso under which the binary64 reading of Spec.v coincides with them; order facts. *)
From Coq Require Import List NArith ZArith Bool Lia.
From JP Require Import Base Ast Spec Known BaseFacts.
Import ListNotations.
Open Scope Z_scope.

Fixpoint math_json_eq (a b : json) : bool :=
  match a, b with
  | JNull, JNull => true
  | JBool x, JBool y => Bool.eqb x y
  | JNum x, JNum y => dy_eqb (num_val x) (num_val y)
  | JStr x, JStr y => str_eqb x y
  | JArr la, JArr lb =>
      (fix go (la lb : list json) : bool :=
         match la, lb with
         | [], [] => true
         | x :: la', y :: lb' => math_json_eq x y && go la' lb'
         | _, _ => false
         end) la lb
  | JObj ma, JObj mb =>
      Nat.eqb (length ma) (length mb)
      && forallb (fun kv => existsb (fun kv2 => str_eqb (fst kv) (fst kv2)
                                               && math_json_eq (snd kv) (snd kv2)) mb) ma
  | _, _ => false
  end.
Definition math_eq (a b : vtype) : bool :=
  match a, b with
  | None, None => true
  | Some x, Some y => math_json_eq x y
  | _, _ => false
  end.
Definition math_lt (a b : vtype) : bool :=
  match a, b with
  | Some (JNum x), Some (JNum y) => dy_ltb (num_val x) (num_val y)
  | Some (JStr x), Some (JStr y) => str_ltb x y
  | _, _ => false
  end.
Definition math_compare (op : cmpop) (a b : vtype) : bool :=
  match op with
  | OpEq => math_eq a b
  | OpNe => negb (math_eq a b)
  | OpLt => math_lt a b
  | OpLe => math_lt a b || math_eq a b
  | OpGt => math_lt b a
  | OpGe => math_lt b a || math_eq a b
  end.

Lemma num_f64_exact n : num_exact53 n = true -> num_f64 n = num_val n.
Proof.
  destruct n as [z|d]; [|reflexivity]. cbn [num_exact53 num_f64 num_to_dy num_val]. intros H.
  unfold round53. rewrite H. reflexivity.
Qed.

Lemma rfc_json_eq_math (a : json) : forall b,
  doc_exact53 a = true -> doc_exact53 b = true -> rfc_json_eq a b = math_json_eq a b.
Proof.
  induction a as [| x | n | s | la IH | ma IH] using json_ind'; intros b Ha Hb;
    destruct b as [| y | n2 | s2 | lb | mb]; try reflexivity.
  - cbn [rfc_json_eq math_json_eq doc_exact53] in *. rewrite !num_f64_exact by assumption. reflexivity.
  - cbn [rfc_json_eq math_json_eq]. cbn [doc_exact53] in Ha, Hb.
    revert lb Hb. induction la as [|x la IHla]; intros [|y lb] Hb; try reflexivity.
    inversion IH as [|? ? Hx Hl]; subst. cbn [forallb] in Ha, Hb.
    apply andb_true_iff in Ha. destruct Ha as [Hxa Hla].
    apply andb_true_iff in Hb. destruct Hb as [Hyb Hlb].
    rewrite (Hx y Hxa Hyb). f_equal. apply IHla; assumption.
  - cbn [rfc_json_eq math_json_eq]. cbn [doc_exact53] in Ha, Hb. f_equal.
    rewrite forallb_forall in Ha, Hb. rewrite Forall_forall in IH.
    assert (Hext : forall l, (forall kv, In kv l -> In kv ma) ->
              forallb (fun kv => existsb (fun kv2 => str_eqb (fst kv) (fst kv2) && rfc_json_eq (snd kv) (snd kv2)) mb) l
              = forallb (fun kv => existsb (fun kv2 => str_eqb (fst kv) (fst kv2) && math_json_eq (snd kv) (snd kv2)) mb) l).
    { induction l as [|kv l IHl]; intros Hin; [reflexivity|]. cbn [forallb].
      rewrite IHl by (intros; apply Hin; right; assumption). f_equal.
      assert (Hkv : In kv ma) by (apply Hin; left; reflexivity).
      clear IHl. induction mb as [|kv2 mb IHmb]; [reflexivity|]. cbn [existsb].
      rewrite (IH kv Hkv (snd kv2)); [| apply Ha; exact Hkv | apply Hb; left; reflexivity].
      f_equal. apply IHmb. intros x Hx. apply Hb. right. exact Hx. }
    apply Hext. auto.
Qed.

Definition vt_exact53 (v : vtype) : bool := match v with Some x => doc_exact53 x | None => true end.

Theorem rfc_compare_math op a b :
  vt_exact53 a = true -> vt_exact53 b = true -> rfc_compare op a b = math_compare op a b.
Proof.
  intros Ha Hb.
  assert (E : rfc_eq a b = math_eq a b).
  { destruct a as [x|], b as [y|]; try reflexivity. apply rfc_json_eq_math; assumption. }
  assert (L : forall a b, vt_exact53 a = true -> vt_exact53 b = true -> rfc_lt a b = math_lt a b).
  { intros [[| | n | | |]|] [[| | n2 | | |]|] H1 H2; try reflexivity.
    cbn [rfc_lt math_lt vt_exact53 doc_exact53] in *. rewrite !num_f64_exact by assumption. reflexivity. }
  destruct op; cbn [rfc_compare math_compare]; rewrite ?E, ?(L a b), ?(L b a) by assumption; reflexivity.
Qed.

(* ---------- order facts ---------- *)
Lemma dy_trichotomy x y :
  (dy_ltb x y = true /\ dy_eqb x y = false /\ dy_ltb y x = false) \/
  (dy_ltb x y = false /\ dy_eqb x y = true /\ dy_ltb y x = false) \/
  (dy_ltb x y = false /\ dy_eqb x y = false /\ dy_ltb y x = true).
Proof.
  destruct x as [m1 e1], y as [m2 e2]. unfold dy_ltb, dy_eqb, dy_align.
  rewrite (Z.min_comm e2 e1).
  set (a := m1 * 2 ^ (e1 - Z.min e1 e2)). set (b := m2 * 2 ^ (e2 - Z.min e1 e2)).
  destruct (Z.ltb_spec a b), (Z.eqb_spec a b), (Z.ltb_spec b a); try lia; auto.
Qed.

Lemma str_trichotomy x : forall y,
  (str_ltb x y = true /\ str_eqb x y = false /\ str_ltb y x = false) \/
  (str_ltb x y = false /\ str_eqb x y = true /\ str_ltb y x = false) \/
  (str_ltb x y = false /\ str_eqb x y = false /\ str_ltb y x = true).
Proof.
  induction x as [|c x IH]; intros [|d y]; cbn [str_ltb str_eqb]; auto.
  destruct (N.ltb_spec c d), (N.eqb_spec c d), (N.ltb_spec d c), (N.eqb_spec d c); try lia; cbn [andb]; auto.
Qed.
