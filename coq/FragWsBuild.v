(* FragWsBuild.v — parser.rs on the pair tree of a filter-free query written with optional blank space:
   the AST is that of the compact spelling.  With FragWs.v: C06/C13 for blank space in the filter-free
   sublanguage. *)
From Coq Require Import List Arith NArith ZArith Bool Lia.
From JP Require Import Base Ast Peg PegFacts NormPath NormPathFacts Dec2Bin Known Build BuildSteps
  NpParse NpBuild FragParse FragBuild FragWs BaseFacts.
From JP.gen Require Import Grammar.
Import ListNotations.
Local Open Scope nat_scope.

Definition lsel_strip (s : lsel) : fsel :=
  match s with LPlain s => s | LSlice a b c _ _ _ _ => FSlice a b c end.
Definition item_strip (it : litem) : fsel := lsel_strip (snd it).
Definition lseg_strip (g : lseg) : fseg :=
  match g with
  | LBracket _ s1 l _ => FBracket (lsel_strip s1) (map item_strip l)
  | LShort n => FShort n
  | LDotWild => FDotWild
  | LDescBracket _ s1 l _ => FDescBracket (lsel_strip s1) (map item_strip l)
  | LDescShort n => FDescShort n
  | LDescWild => FDescWild
  end.
Definition lq_strip (q : lquery) : list fseg := map (fun bg => lseg_strip (snd bg)) q.

Definition lsel_range (s : lsel) : Prop := sel_range (lsel_strip s).
Definition lseg_range (g : lseg) : Prop := seg_range (lseg_strip g).

Ltac list_eq' := repeat (progress cbn [app] || rewrite <- app_assoc); reflexivity.
Ltac len_eq' := repeat rewrite app_length; cbn [length oint]; repeat rewrite app_length; cbn [length]; lia.

Section B.
  Variable inp : str.

  Lemma b_lslice pre a b c w1 w2 w3 w4 rest st en :
    inp = pre ++ lsel_text (LSlice a b c w1 w2 w3 w4) ++ rest ->
    oz_ok a -> oz_ok b -> oz_ok c ->
    b_slice inp (Pair R_slice_selector st en (lslice_kids (length pre) a b c w1 w2 w3 w4)) = Some (a, b, c).
  Proof.
    intros Ei Ha Hb Hc. cbn [lsel_text] in Ei.
    assert (Hstart : forall za kids, a = Some za ->
              get_int inp (Pair R_start (length pre) (length pre + length (int_text za)) kids) = Some za).
    { intros za kids ->. cbn [oint oz_ok] in *.
      apply (get_int_at inp _ _ za pre (w1 ++ 58%N :: w2 ++ oint b ++ w3 ++ match c with Some z => 58%N :: w4 ++ int_text z | None => [] end ++ rest));
        [rewrite Ei; list_eq'|reflexivity|apply z_ok_i64; exact Ha]. }
    assert (Hend : forall zb kids, b = Some zb ->
              get_int inp (Pair R_end (length pre + length (oint a) + length w1 + 1 + length w2)
                                (length pre + length (oint a) + length w1 + 1 + length w2 + length (int_text zb)) kids) = Some zb).
    { intros zb kids ->. cbn [oint oz_ok] in *.
      apply (get_int_at inp _ _ zb (pre ++ oint a ++ w1 ++ 58%N :: w2)
                        (w3 ++ match c with Some z => 58%N :: w4 ++ int_text z | None => [] end ++ rest));
        [rewrite Ei; list_eq'|len_eq'|apply z_ok_i64; exact Hb]. }
    assert (Hstep : forall zc kids, c = Some zc ->
              get_int inp (Pair R_int (length pre + length (oint a) + length w1 + 1 + length w2 + length (oint b) + length w3 + 1 + length w4)
                                (length pre + length (oint a) + length w1 + 1 + length w2 + length (oint b) + length w3 + 1 + length w4
                                 + length (int_text zc)) kids) = Some zc).
    { intros zc kids E. subst c. cbn [oz_ok] in *.
      apply (get_int_at inp _ _ zc (pre ++ oint a ++ w1 ++ 58%N :: w2 ++ oint b ++ w3 ++ 58%N :: w4) rest);
        [rewrite Ei; list_eq'|len_eq'|apply z_ok_i64; exact Hc]. }
    unfold b_slice, lslice_kids, int_pair. cbn [p_kids].
    destruct a as [za|], b as [zb|], c as [zc|]; cbn [oint app fold_left length oz_ok] in *; rules; cbn [p_kids bind];
      rewrite ?(Hstart _ _ eq_refl), ?(Hend _ _ eq_refl), ?(Hstep _ _ eq_refl); cbn [bind];
      rewrite ?validate_range_ok' by assumption; cbn [bind]; rules; cbn [p_kids bind];
      rewrite ?(Hstart _ _ eq_refl), ?(Hend _ _ eq_refl), ?(Hstep _ _ eq_refl); cbn [bind];
      rewrite ?validate_range_ok' by assumption; cbn [bind]; rules; cbn [p_kids bind];
      rewrite ?(Hstart _ _ eq_refl), ?(Hend _ _ eq_refl), ?(Hstep _ _ eq_refl); cbn [bind];
      rewrite ?validate_range_ok' by assumption; cbn [bind]; reflexivity.
  Qed.

  Lemma b_lselector f pre s rest :
    inp = pre ++ lsel_text s ++ rest -> lsel_ok s -> lsel_range s ->
    b_selector inp (S f) (lsel_pair (length pre) s) = Some (sel_ast (lsel_strip s)).
  Proof.
    intros Ei Hs Hr. destruct s as [s|a b c w1 w2 w3 w4]; cbn [lsel_strip lsel_pair] in *.
    - apply (b_selector_frag inp f pre s rest Ei); [destruct s; try exact Hs; exact I|exact Hr].
    - unfold lsel_range in Hr. cbn [lsel_strip sel_range] in Hr. destruct Hr as [Ha [Hb Hc]].
      rewrite b_selector_step. cbn [next_down p_kids bind]. rules.
      rewrite (b_lslice pre a b c w1 w2 w3 w4 rest _ _ Ei Ha Hb Hc). reflexivity.
  Qed.
End B.

Fixpoint items_range (l : list litem) : Prop :=
  match l with [] => True | it :: l' => lsel_range (snd it) /\ items_range l' end.

Lemma items_ok_sels prev l blast : items_ok prev l blast -> Forall (fun it => lsel_ok (snd it)) l.
Proof.
  revert prev. induction l as [|[[bp bq] s] l IH]; intros prev H; [constructor|].
  cbn [items_ok] in H. destruct H as [_ [_ [_ [Hs H]]]]. constructor; [exact Hs|apply (IH s H)].
Qed.

Section B2.
  Variable inp : str.

  Lemma mapM_items f l : forall pre rest,
    inp = pre ++ items_text l ++ rest -> Forall (fun it => lsel_ok (snd it)) l -> items_range l ->
    mapM (b_selector inp (S f)) (items_pairs (length pre) l) = Some (map (fun it => sel_ast (item_strip it)) l).
  Proof.
    induction l as [|[[bp bq] s] l IH]; intros pre rest Ei Hok Hr; [reflexivity|].
    pose proof (Forall_inv Hok) as Hs. pose proof (Forall_inv_tail Hok) as Hok'. cbn [snd] in Hs.
    cbn [items_range snd] in Hr. destruct Hr as [Hrs Hr'].
    unfold items_text in Ei. cbn [flat_map item_text] in Ei. fold (items_text l) in Ei.
    cbn [items_pairs mapM map item_strip snd].
    replace (length pre + length bp + 1 + length bq) with (length (pre ++ bp ++ 44%N :: bq)) by len_eq'.
    rewrite (b_lselector inp f (pre ++ bp ++ 44%N :: bq) s (items_text l ++ rest)); [|rewrite Ei; list_eq'|exact Hs|exact Hrs].
    cbn [bind].
    replace (length (pre ++ bp ++ 44%N :: bq) + length (lsel_text s)) with (length (pre ++ bp ++ 44%N :: bq ++ lsel_text s)) by len_eq'.
    rewrite (IH (pre ++ bp ++ 44%N :: bq ++ lsel_text s) rest); [reflexivity| |exact Hok'|exact Hr'].
    rewrite Ei. list_eq'.
  Qed.

  Lemma b_lbracket f pre b0 s1 l blast rest :
    inp = pre ++ lbracket_text b0 s1 l blast ++ rest ->
    lbracket_ok b0 s1 l blast -> lsel_range s1 -> items_range l ->
    b_child_segment inp (S (S f)) (lbracket_pair (length pre) b0 s1 l blast)
    = Some (bracket_ast (lsel_strip s1) (map item_strip l)).
  Proof.
    intros Ei [Hb0 [Hs1 Hok]] Hr1 Hrl. rewrite b_child_segment_step. unfold lbracket_pair. rules. cbn [p_kids mapM].
    unfold lbracket_text in Ei.
    replace (length pre + 1 + length b0) with (length (pre ++ 91%N :: b0)) by len_eq'.
    rewrite (b_lselector inp f (pre ++ 91%N :: b0) s1 (items_text l ++ blast ++ [93%N] ++ rest)); [|rewrite Ei; list_eq'|exact Hs1|exact Hr1].
    cbn [bind].
    replace (length (pre ++ 91%N :: b0) + length (lsel_text s1)) with (length (pre ++ 91%N :: b0 ++ lsel_text s1)) by len_eq'.
    rewrite (mapM_items f l (pre ++ 91%N :: b0 ++ lsel_text s1) (blast ++ [93%N] ++ rest));
      [|rewrite Ei; list_eq'|apply (items_ok_sels s1 l blast Hok)|exact Hrl].
    cbn [bind]. unfold bracket_ast. destruct l as [|it l]; [reflexivity|].
    cbn [map]. rewrite map_map. reflexivity.
  Qed.
End B2.

Lemma items_range_of l : Forall sel_range (map item_strip l) -> items_range l.
Proof.
  induction l as [|it l IH]; intros H; [exact I|]. cbn [map] in H. cbn [items_range].
  split; [exact (Forall_inv H)|apply IH; exact (Forall_inv_tail H)].
Qed.

Section B3.
  Variable inp : str.

  Lemma b_lsegment f pre g rest :
    inp = pre ++ lseg_text g ++ rest -> lseg_ok g -> lseg_range g ->
    bind (next_down (lseg_pair (length pre) g)) (b_segment inp (S (S (S (S f))))) = Some (seg_ast (lseg_strip g)).
  Proof.
    intros Ei Hg Hr. unfold lseg_range in Hr.
    destruct g as [b0 s1 l blast|n| |b0 s1 l blast|n| ]; cbn [lseg_ok lseg_strip seg_range lseg_text seg_ast] in *;
      unfold lseg_pair; cbn [next_down p_kids bind lseg_text]; rewrite b_segment_step; rules.
    - destruct Hr as [Hr1 Hrl].
      rewrite (p_str_at inp _ _ _ _ pre (lbracket_text b0 s1 l blast) rest Ei eq_refl eq_refl).
      unfold lbracket_text at 1. cbv zeta. cbn [negb str_eqb trim_start_blank drop_while next_down p_kids bind].
      apply (b_lbracket inp (S f) pre b0 s1 l blast rest Ei Hg Hr1 (items_range_of l Hrl)).
    - destruct (name_trim n Hg) as [Ht Hts].
      rewrite (p_str_at inp _ _ _ _ pre (46%N :: n) rest Ei eq_refl eq_refl). cbv zeta.
      rewrite Hts, str_eqb_refl. cbn [negb next_down p_kids bind]. rewrite b_child_segment_step. rules.
      rewrite (p_str_at inp _ _ _ _ (pre ++ [46%N]) n rest); [rewrite Ht; reflexivity|rewrite Ei; list_eq|len_eq|len_eq].
    - rewrite (p_str_at inp _ _ _ _ pre [46%N; 42%N] rest Ei eq_refl eq_refl). cbv zeta.
      cbn [negb str_eqb trim_start_blank drop_while is_blank N.eqb orb andb next_down p_kids bind].
      rewrite b_child_segment_step. rules. reflexivity.
    - destruct Hr as [Hr1 Hrl].
      rewrite (p_str_at inp _ _ _ _ pre (46%N :: 46%N :: lbracket_text b0 s1 l blast) rest Ei eq_refl eq_refl).
      unfold lbracket_text at 1. cbn [nth_error]. change (is_blank 91) with false. cbv iota.
      cbn [next_down p_kids bind].
      replace (length pre + 2) with (length (pre ++ [46%N; 46%N])) by len_eq.
      rewrite (b_lbracket inp (S f) (pre ++ [46%N; 46%N]) b0 s1 l blast rest); [reflexivity|rewrite Ei; list_eq|exact Hg|exact Hr1|apply items_range_of; exact Hrl].
    - destruct (name_trim n Hg) as [Ht Hts]. assert (Hn := Hg). destruct n as [|c r]; [destruct Hg|]. destruct Hg as [Hc _].
      rewrite (p_str_at inp _ _ _ _ pre (46%N :: 46%N :: c :: r) rest Ei eq_refl eq_refl).
      cbn [nth_error]. rewrite (name_char_not_blank c (name_first_char c Hc)).
      cbn [next_down p_kids bind]. rewrite b_child_segment_step. rules.
      rewrite (p_str_at inp _ _ _ _ (pre ++ [46%N; 46%N]) (c :: r) rest); [rewrite Ht; reflexivity|rewrite Ei; list_eq|len_eq|len_eq].
    - rewrite (p_str_at inp _ _ _ _ pre [46%N; 46%N; 42%N] rest Ei eq_refl eq_refl).
      cbn [nth_error]. change (is_blank 42) with false. cbv iota. cbn [next_down p_kids bind].
      rewrite b_child_segment_step. rules. reflexivity.
  Qed.
End B3.

(* ---------- the whole query ---------- *)
Definition lq_range (q : lquery) : Prop := Forall (fun bg => lseg_range (snd bg)) q.

Lemma mapM_lsegs inp f q : forall pre rest,
  inp = pre ++ lq_text q ++ rest -> lq_ok q -> lq_range q ->
  mapM (fun r => bind (next_down r) (fun k => b_segment inp (S (S (S (S f)))) k)) (lq_pairs (length pre) q)
  = Some (map seg_ast (lq_strip q)).
Proof.
  induction q as [|[bs g] q IH]; intros pre rest Ei Hok Hr; [reflexivity|].
  pose proof (Forall_inv Hok) as [Hb Hg]. pose proof (Forall_inv_tail Hok) as Hok'. cbn [fst snd] in Hb, Hg.
  pose proof (Forall_inv Hr) as Hrg. pose proof (Forall_inv_tail Hr) as Hr'. cbn [snd] in Hrg.
  cbn [lq_pairs mapM map lq_strip snd]. unfold lq_text in Ei. cbn [flat_map fst snd] in Ei. fold (lq_text q) in Ei.
  change (bind (next_down (lseg_pair (length pre + length bs) g)) (fun k => b_segment inp (S (S (S (S f)))) k))
    with (bind (next_down (lseg_pair (length pre + length bs) g)) (b_segment inp (S (S (S (S f)))))).
  replace (length pre + length bs) with (length (pre ++ bs)) by (rewrite app_length; reflexivity).
  rewrite (b_lsegment inp f (pre ++ bs) g (lq_text q ++ rest)); [|rewrite Ei; list_eq'|exact Hg|exact Hrg]. cbn [bind].
  replace (length (pre ++ bs) + length (lseg_text g)) with (length (pre ++ bs ++ lseg_text g)) by len_eq'.
  fold (lq_strip q).
  rewrite (IH (pre ++ bs ++ lseg_text g) rest); [reflexivity| |exact Hok'|exact Hr'].
  rewrite Ei. list_eq'.
Qed.

Lemma lseg_text_last g : lseg_ok g -> exists m b, lseg_text g = m ++ [b] /\ is_blank b = false.
Proof.
  assert (Hname : forall n, name_ok n -> exists m b, n = m ++ [b] /\ is_blank b = false).
  { intros n Hn. destruct n as [|c r]; [destruct Hn|]. destruct Hn as [Hc Hr].
    destruct (exists_last (l := c :: r)) as [m [b E]]; [discriminate|]. exists m, b. split; [exact E|].
    apply name_char_not_blank. assert (Hin : In b (c :: r)) by (rewrite E; apply in_or_app; right; left; reflexivity).
    destruct Hin as [<-|Hin]; [apply name_first_char; exact Hc|apply (forallb_In _ _ _ Hr Hin)]. }
  destruct g as [b0 s1 l blast|n| |b0 s1 l blast|n| ]; cbn [lseg_ok lseg_text]; intros Hg.
  - exists (91%N :: b0 ++ lsel_text s1 ++ items_text l ++ blast), 93%N. split; [unfold lbracket_text; list_eq'|reflexivity].
  - destruct (Hname n Hg) as [m [b [E Hb]]]. exists (46%N :: m), b. rewrite E. split; [reflexivity|exact Hb].
  - exists [46%N], 42%N. split; reflexivity.
  - exists (46%N :: 46%N :: 91%N :: b0 ++ lsel_text s1 ++ items_text l ++ blast), 93%N. split; [unfold lbracket_text; list_eq'|reflexivity].
  - destruct (Hname n Hg) as [m [b [E Hb]]]. exists (46%N :: 46%N :: m), b. rewrite E. split; [reflexivity|exact Hb].
  - exists [46%N; 46%N], 42%N. split; reflexivity.
Qed.

Lemma lq_text_last q : q <> [] -> lq_ok q -> exists m b, lq_text q = m ++ [b] /\ is_blank b = false.
Proof.
  induction q as [|[bs g] q IH]; [intros H; contradiction|]. intros _ Hq.
  pose proof (Forall_inv Hq) as [_ Hg]. cbn [snd] in Hg.
  unfold lq_text. cbn [flat_map fst snd]. fold (lq_text q).
  destruct q as [|bg2 q].
  - cbn [lq_text flat_map]. rewrite app_nil_r. destruct (lseg_text_last g Hg) as [m [b [E Hb]]].
    exists (bs ++ m), b. rewrite E. split; [list_eq'|exact Hb].
  - destruct (IH ltac:(discriminate) (Forall_inv_tail Hq)) as [m [b [E Hb]]].
    exists ((bs ++ lseg_text g) ++ m), b. rewrite E. split; [list_eq'|exact Hb].
Qed.

Lemma lfrag_not_trimmed q : lq_ok q -> trim_blank (36%N :: lq_text q) = 36%N :: lq_text q.
Proof.
  intros Hq. unfold trim_blank. destruct q as [|bg q].
  - apply trim_single. reflexivity.
  - destruct (lq_text_last (bg :: q) ltac:(discriminate) Hq) as [m [b [E Hb]]]. rewrite E.
    apply trim_ends; [reflexivity|exact Hb].
Qed.

(* C06 / C13: a filter-free query written with any optional blank space is read as the AST of its compact
   spelling *)
Theorem parse_lfrag q :
  lq_ok q -> lq_range q -> parse_query (36%N :: lq_text q) = POk (query_ast (lq_strip q)).
Proof.
  intros Hok Hr. set (inp := 36%N :: lq_text q).
  pose proof (lfrag_not_trimmed q Hok) as Ht. fold inp in Ht.
  unfold parse_query, parse_model. rewrite Ht, str_eqb_refl. cbn [negb]. unfold parse_rule.
  assert (Hfuel : 300 + 2 * length (lq_text q) <= parse_fuel inp).
  { unfold parse_fuel, inp. cbn [length]. lia. }
  pose proof (main_lsegs q Hok (parse_fuel inp) Hfuel) as Hrun. fold inp in Hrun. rewrite Hrun.
  unfold lquery_pairs. cbn [next_down p_kids]. unfold b_jp_query. cbn [next_down p_kids bind].
  assert (E5 : exists f, parse_fuel inp = S (S (S (S (S f))))).
  { exists (995 + 400 * length inp). unfold parse_fuel. lia. }
  destruct E5 as [f E5]. rewrite E5. rewrite b_segments_step. cbn [p_kids].
  change 1 with (length [36%N]).
  rewrite (mapM_lsegs inp f q [36%N] []); [|unfold inp; rewrite app_nil_r; reflexivity|exact Hok|exact Hr].
  cbn [bind]. fold (query_ast (lq_strip q)). rewrite query_no_lit. reflexivity.
Qed.

(* the strip of an ok layout is an ok compact query *)
Lemma lsel_strip_ok s : lsel_ok s -> sel_ok (lsel_strip s).
Proof. destruct s as [s|]; cbn [lsel_ok lsel_strip sel_ok]; [destruct s; auto; intros []|auto]. Qed.

Lemma lseg_strip_ok g : lseg_ok g -> seg_ok (lseg_strip g).
Proof.
  destruct g as [b0 s1 l blast|n| |b0 s1 l blast|n| ]; cbn [lseg_ok lseg_strip seg_ok]; auto.
  all: intros [_ [Hs1 Hok]]; split; [apply lsel_strip_ok; exact Hs1|].
  all: pose proof (items_ok_sels s1 l blast Hok) as H; clear - H; induction l as [|it l IH]; [constructor|];
       cbn [map]; constructor; [apply lsel_strip_ok; exact (Forall_inv H)|apply IH; exact (Forall_inv_tail H)].
Qed.

(* C13: optional blank space does not change what a filter-free query is read as *)
Theorem blanks_irrelevant q :
  lq_ok q -> lq_range q ->
  parse_query (36%N :: lq_text q) = parse_query (36%N :: segs_text (lq_strip q)).
Proof.
  intros Hok Hr. rewrite (parse_lfrag q Hok Hr). symmetry. apply parse_frag.
  - unfold lq_strip. clear Hr. induction q as [|[bs g] q IH]; [constructor|]. cbn [map snd].
    constructor; [apply lseg_strip_ok; exact (proj2 (Forall_inv Hok))|apply IH; exact (Forall_inv_tail Hok)].
  - unfold lq_strip, lq_range, lseg_range in *. clear Hok. induction q as [|[bs g] q IH]; [constructor|]. cbn [map snd].
    constructor; [exact (Forall_inv Hr)|apply IH; exact (Forall_inv_tail Hr)].
Qed.
