(* Requery.v — C03, last clause: running the Normalized Path of a node as a query returns exactly
   that node (AST level: [np_query l] is the AST of the string [np l]). *)
From Coq Require Import List NArith ZArith Bool Lia.
From JP Require Import Base Ast Eval ValueModel Spec NormPath Known WellFormed Regex Entry
  BaseFacts DataFacts ValueFacts SelFacts Refine SpecSteps SpecFacts PathFacts RegexFacts Reference NormPathFacts.
Import ListNotations.
Open Scope Z_scope.

Definition npq_name (k : str) : str := 39%N :: k ++ [39%N].

Lemma np_query_cons_name k l : docname_plain k = true ->
  np_query (SName k :: l) = GCons (SegSel (SelName (npq_name k))) (np_query l).
Proof. intros H. unfold np_query at 1. cbn [fold_right]. rewrite (escape_plain' k H). reflexivity. Qed.
Lemma np_query_cons_idx i l :
  np_query (SIdx i :: l) = GCons (SegSel (SelIndex (Z.of_nat i))) (np_query l).
Proof. reflexivity. Qed.

Lemma docname_plain_parts k : docname_plain k = true ->
  no_bslash k = true /\ no_ctl k = true /\ forallb (fun x => negb (N.eqb x 39)) k = true.
Proof.
  unfold docname_plain, no_bslash, no_ctl. rewrite !forallb_forall. intros H. repeat split; intros x Hx;
    specialize (H x Hx); apply andb_true_iff in H; destruct H as [H H2];
    apply andb_true_iff in H; destruct H as [H0 H1]; assumption.
Qed.

Lemma forallb_snoc {A} (f : A -> bool) l x : forallb f (l ++ [x]) = forallb f l && f x.
Proof. rewrite forallb_app. cbn [forallb]. rewrite andb_true_r. reflexivity. Qed.

Lemma npq_name_plain k : docname_plain k = true -> name_plain (npq_name k) = true.
Proof.
  intros H. destruct (docname_plain_parts k H) as [Hb [Hc Hq]].
  unfold name_plain, npq_name. cbn [name_kind]. change (N.eqb 39 39) with true. change (N.eqb 1 1) with true.
  cbv iota. unfold no_bslash, no_ctl in *. cbn [forallb]. rewrite !forallb_snoc, Hb, Hc.
  change (negb (N.eqb 39 92)) with true. change (N.leb 32 39) with true. cbn [andb].
  unfold quoted_ok. rewrite rev_app_distr. cbn [rev app]. change (N.eqb 39 39) with true. cbn [andb].
  change (N.eqb 1 1) with true. cbv iota.
  rewrite forallb_forall in *. intros x Hx. apply Hq. apply in_rev. exact Hx.
Qed.

Lemma npq_name_single k : name_single_or_short (npq_name k) = true.
Proof. reflexivity. Qed.

Lemma npq_decode k : docname_plain k = true -> decode_name (npq_name k) = Some k.
Proof.
  intros H. destruct (docname_plain_parts k H) as [Hb [Hc Hq]].
  pose proof (npq_name_plain k H) as Hp. unfold name_plain in Hp.
  apply andb_true_iff in Hp. destruct Hp as [Hp Hk]. apply andb_true_iff in Hp. destruct Hp as [Hb' Hc'].
  destruct (decode_name_quoted 39 (k ++ [39%N]) (or_introl eq_refl) Hb' Hc' Hk) as [body [E [_ Hd]]].
  apply app_inj_tail in E. destruct E as [E _]. subst body. exact Hd.
Qed.

Lemma np_query_wf l : loc_plain l = true -> wf_query (np_query l) = true.
Proof.
  unfold wf_query. induction l as [|[k|i] l IH]; intros H; [reflexivity| |];
    cbn [loc_plain forallb] in H; apply andb_true_iff in H; destruct H as [Hs Hl].
  - rewrite (np_query_cons_name k l Hs). cbn [ok_segments ok_segment ok_selector].
    rewrite (npq_name_plain k Hs). exact (IH Hl).
  - rewrite np_query_cons_idx. cbn [ok_segments ok_segment ok_selector]. exact (IH Hl).
Qed.

Lemma np_query_path_ok l : loc_plain l = true -> segs_path_ok (np_query l) = true.
Proof.
  induction l as [|[k|i] l IH]; intros H; [reflexivity| |];
    cbn [loc_plain forallb] in H; apply andb_true_iff in H; destruct H as [Hs Hl].
  - rewrite (np_query_cons_name k l Hs). cbn [segs_path_ok seg_path_ok sel_path_ok].
    rewrite (npq_name_plain k Hs), npq_name_single. exact (IH Hl).
  - rewrite np_query_cons_idx. cbn [segs_path_ok seg_path_ok sel_path_ok]. exact (IH Hl).
Qed.

Section SpecSide.
  Variable rx_full rx_sub : str -> str -> bool.
  Variable veq : json -> json -> bool.
  Variable b : bool.
  Variable root : json.
  Notation Rsegments := (r_segments rx_full rx_sub veq b root).

  Lemma segments_nil q : Rsegments q [] = [].
  Proof.
    induction q as [|s q IH]; [reflexivity|]. rewrite rstep_13.
    assert (E : r_segment rx_full rx_sub veq b root s [] = []).
    { induction s as [s' IHs|x|l]; [rewrite rstep_0; exact IHs|rewrite rstep_1; reflexivity|].
      rewrite rstep_2. destruct b; [|reflexivity].
      induction l as [|x l IHl]; [reflexivity|]. rewrite rstep_11. exact IHl. }
    rewrite E. exact IH.
  Qed.

  (* the semantics of a Normalized Path: the one node at that location, or nothing *)
  Lemma np_query_sem l : forall pre v,
    loc_plain l = true ->
    Rsegments (np_query l) [(pre, v)]
    = match lookup v l with Some x => [(pre ++ l, x)] | None => [] end.
  Proof.
    induction l as [|[k|i] l IH]; intros pre v H.
    - cbn [np_query fold_right lookup]. rewrite rstep_12, app_nil_r. reflexivity.
    - cbn [loc_plain forallb] in H. apply andb_true_iff in H. destruct H as [Hs Hl].
      rewrite (np_query_cons_name k l Hs), rstep_13, rstep_1. cbn [flat_map]. rewrite rstep_3, app_nil_r.
      unfold sel_name. rewrite (npq_decode k Hs). cbn [fst snd lookup].
      destruct v as [| | | | |m]; cbn [child_at]; try apply segments_nil.
      destruct (assoc k m) as [x|]; [|apply segments_nil].
      etransitivity; [apply (IH (pre ++ [SName k]) x Hl)|]. rewrite <- app_assoc. reflexivity.
    - cbn [loc_plain forallb] in H. apply andb_true_iff in H. destruct H as [_ Hl].
      rewrite np_query_cons_idx, rstep_13, rstep_1. cbn [flat_map]. rewrite rstep_5, app_nil_r.
      unfold sel_index. cbn [fst snd lookup].
      destruct v as [| | | |a|]; cbn [child_at]; try apply segments_nil.
      unfold rfc_index. assert (H0 : Z.leb 0 (Z.of_nat i) = true) by (apply Z.leb_le; lia). rewrite !H0.
      destruct (Z.ltb_spec (Z.of_nat i) (Z.of_nat (length a))) as [Hlt|Hge]; cbn [andb].
      + rewrite Nat2Z.id. destruct (nth_error a i) as [x|] eqn:En.
        * etransitivity; [apply (IH (pre ++ [SIdx i]) x Hl)|]. rewrite <- app_assoc. reflexivity.
        * apply nth_error_None in En. lia.
      + assert (En : nth_error a i = None) by (apply nth_error_None; lia).
        rewrite En. apply segments_nil.
  Qed.
End SpecSide.

(* every location of a document whose member names are plain is plain *)
Lemma lookup_plain l : forall d v, doc_plain d = true -> lookup d l = Some v -> loc_plain l = true.
Proof.
  induction l as [|s l IH]; intros d v Hd Hl; [reflexivity|]. cbn [lookup] in Hl.
  destruct (child_at d s) as [c|] eqn:Ec; [|discriminate].
  destruct d as [| | | |a|m], s as [k|i]; try discriminate; cbn [child_at] in Ec; cbn [loc_plain forallb].
  - apply (IH c v); [|exact Hl]. apply (doc_plain_arr a c Hd). eapply nth_error_In. exact Ec.
  - apply assoc_in in Ec. cbn [doc_plain] in Hd. rewrite forallb_forall in Hd.
    specialize (Hd (k, c) Ec). cbn [fst snd] in Hd. apply andb_true_iff in Hd. destruct Hd as [Hk Hc].
    rewrite Hk. apply (IH c v Hc Hl).
Qed.

(* C03: re-running the Normalized Path of an existing node returns that node, and only it,
   and reports the same path again *)
Theorem requery_np (d : json) l v :
  doc_plain d = true -> lookup d l = Some v ->
  m_query (np_query l) d = Some [ {| inner := v; path := np l; ploc := l |} ].
Proof.
  intros Hd Hl. pose proof (lookup_plain l d v Hd Hl) as Hp.
  destruct (js_path_process_refines rx_model_search rx_spec_full rx_spec_sub rx_model_full_ok rx_model_sub_ok
              (np_query l) d (np_query_wf l Hp)) as [ps [E1 E2]].
  change (m_query (np_query l) d = Some ps) in E1. rewrite E1. f_equal.
  pose proof (paths_are_normalized rx_model_search d (np_query l) ps (np_query_path_ok l Hp) Hd E1) as Hn.
  unfold r_query in E2. rewrite (np_query_sem _ _ _ _ _ l [] d Hp), Hl in E2. cbn [app] in E2.
  destruct ps as [|p [|p2 ps]]; try discriminate. cbn [map] in E2. inversion E2 as [[E3 E4]].
  inversion Hn as [|? ? Hpath _]; subst. destruct p as [pi pp pl]. cbn [Eval.path Eval.ploc Eval.inner] in *.
  subst. reflexivity.
Qed.

(* the Normalized Path of a location that does not exist selects nothing *)
Theorem requery_absent (d : json) l :
  loc_plain l = true -> lookup d l = None -> m_query (np_query l) d = Some [].
Proof.
  intros Hp Hl.
  destruct (js_path_process_refines rx_model_search rx_spec_full rx_spec_sub rx_model_full_ok rx_model_sub_ok
              (np_query l) d (np_query_wf l Hp)) as [ps [E1 E2]].
  change (m_query (np_query l) d = Some ps) in E1. rewrite E1. f_equal.
  unfold r_query in E2. rewrite (np_query_sem _ _ _ _ _ l [] d Hp), Hl in E2.
  destruct ps; [reflexivity|discriminate].
Qed.

(* every node a query reports can be fetched again through its reported path *)
Theorem requery_reported (q : query) (d : json) ps p :
  wf_query q = true -> segs_path_ok q = true -> doc_plain d = true -> wf_json d = true ->
  m_query q d = Some ps -> In p ps ->
  m_query (np_query (ploc p)) d = Some [p].
Proof.
  intros Hq Hpo Hd Hw Hm Hp.
  destruct (js_path_process_refines rx_model_search rx_spec_full rx_spec_sub rx_model_full_ok rx_model_sub_ok
              q d Hq) as [ps' [E1 E2]].
  change (m_query q d = Some ps') in E1. rewrite Hm in E1. inversion E1. subst ps'.
  pose proof (query_nodes_located rx_spec_full rx_spec_sub jeqb true d q Hw) as Hloc.
  rewrite <- E2 in Hloc. rewrite Forall_forall in Hloc.
  specialize (Hloc (node_of p) (in_map _ _ _ Hp)). cbn [fst snd node_of'] in Hloc.
  pose proof (paths_are_normalized rx_model_search d q ps Hpo Hd Hm) as Hn.
  rewrite Forall_forall in Hn. specialize (Hn p Hp).
  rewrite (requery_np d (ploc p) (inner p) Hd Hloc). rewrite <- Hn. destruct p. reflexivity.
Qed.

(* two reported nodes have the same path exactly when they are at the same location *)
Theorem same_path_same_location (q : query) (d : json) ps p1 p2 :
  segs_path_ok q = true -> doc_plain d = true -> m_query q d = Some ps ->
  In p1 ps -> In p2 ps -> (path p1 = path p2 <-> ploc p1 = ploc p2).
Proof.
  intros Hpo Hd Hm H1 H2.
  pose proof (paths_are_normalized rx_model_search d q ps Hpo Hd Hm) as Hn.
  rewrite Forall_forall in Hn. rewrite (Hn p1 H1), (Hn p2 H2). split.
  - apply np_injective.
  - intros ->. reflexivity.
Qed.
