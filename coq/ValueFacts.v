(* ValueFacts.v — the serde_json::Value instance: the comparison code of comparison.rs computes
   the RFC 9535 2.3.5.2.2 relations on every pair of JSON values (any nesting). *)
From Coq Require Import List NArith ZArith Bool Lia.
From JP Require Import Base Ast Eval ValueModel Spec BaseFacts.
Import ListNotations.

Definition J := value_ops.

Lemma num_of_json (v : json) :
  num_of J v = match v with JNum n => Some (num_f64 n) | _ => None end.
Proof. destruct v as [| | n | | |]; try reflexivity. Qed.

Lemma existsb_assoc (P : json -> bool) k (m : list (str * json)) :
  keys_unique (map fst m) = true ->
  existsb (fun '(k2, y) => str_eqb k k2 && P y) m
  = match assoc k m with Some y => P y | None => false end.
Proof.
  induction m as [|[k2 y] m IH]; intros Hu; [reflexivity|].
  cbn [map fst keys_unique] in Hu. apply andb_true_iff in Hu. destruct Hu as [Hn Hu].
  cbn [existsb assoc]. destruct (str_eqb k k2) eqn:E.
  - cbn [andb]. apply str_eqb_eq in E. subst k2.
    destruct (P y); [reflexivity|]. cbn [orb].
    (* no later member has the same name *)
    clear IH. induction m as [|[k3 z] m IH2]; [reflexivity|].
    cbn [map fst existsb] in *. apply negb_true_iff in Hn. apply orb_false_iff in Hn.
    destruct Hn as [Hk Hn]. rewrite Hk. cbn [andb orb].
    apply IH2.
    + apply negb_true_iff. exact Hn.
    + cbn [keys_unique] in Hu. apply andb_true_iff in Hu. apply Hu.
  - cbn [andb orb]. apply IH. exact Hu.
Qed.

Lemma all2_go (f g : json -> json -> bool) la : forall lb,
  (forall x y, In x la -> In y lb -> f x y = g x y) ->
  Nat.eqb (length la) (length lb) && all2 f la lb
  = (fix go (la lb : list json) : bool :=
       match la, lb with
       | [], [] => true
       | x :: la', y :: lb' => g x y && go la' lb'
       | _, _ => false
       end) la lb.
Proof.
  induction la as [|x la IH]; intros [|y lb] H; try reflexivity.
  cbn [length Nat.eqb all2].
  rewrite <- IH by (intros x' y' Hx' Hy'; apply H; right; assumption).
  rewrite H by (left; reflexivity).
  destruct (g x y); cbn [andb]; [reflexivity|]. rewrite andb_false_r. reflexivity.
Qed.

Lemma forallb_ext_in {A} (f g : A -> bool) l :
  (forall x, In x l -> f x = g x) -> forallb f l = forallb g l.
Proof.
  induction l as [|x l IH]; intros H; [reflexivity|]. cbn [forallb].
  rewrite H by (left; reflexivity). f_equal. apply IH. intros y Hy. apply H. right. exact Hy.
Qed.

Lemma assoc_in k (m : list (str * json)) y : assoc k m = Some y -> In (k, y) m.
Proof.
  induction m as [|[k2 z] m IH]; [discriminate|]. cbn [assoc].
  destruct (str_eqb k k2) eqn:E.
  - intros H. inversion H. subst. apply str_eqb_eq in E. subst. left. reflexivity.
  - intros H. right. apply IH. exact H.
Qed.

Lemma jsize_in_arr x la : In x la -> (jsize x < jsize (JArr la))%nat.
Proof.
  cbn [jsize]. induction la as [|y la IH]; [intros []|]. intros [->|H]; cbn [fold_right].
  - lia.
  - specialize (IH H). lia.
Qed.
Lemma jsize_in_obj k x ma : In (k, x) ma -> (jsize x < jsize (JObj ma))%nat.
Proof.
  cbn [jsize]. induction ma as [|[k2 y] ma IH]; [intros []|]. intros [E|H]; cbn [fold_right snd].
  - inversion E. subst. lia.
  - specialize (IH H). lia.
Qed.

(* eq_json (comparison.rs, after the D5/D12 repairs) is the RFC's equality of JSON values *)
Lemma eq_json_rfc (a : json) : forall fuel b,
  (jsize a <= fuel)%nat ->
  eq_json J (S fuel) a b = rfc_json_eq a b.
Proof.
  induction a as [| x | n | s | la IH | ma IH] using json_ind'; intros fuel b Hf;
    cbn [eq_json]; rewrite !num_of_json.
  - destruct b; reflexivity.
  - destruct b; reflexivity.
  - destruct b; reflexivity.
  - destruct b; reflexivity.
  - destruct b as [| | | | lb | mb]; try reflexivity.
    cbn [q_as_array J value_ops rfc_json_eq].
    apply all2_go. intros x y Hx Hy.
    pose proof (jsize_in_arr x la Hx) as Hs.
    destruct fuel as [|fuel]; [lia|].
    rewrite Forall_forall in IH. apply IH; [exact Hx|lia].
  - destruct b as [| | | | lb | mb]; try reflexivity.
    cbn [q_as_array q_as_object J value_ops rfc_json_eq].
    f_equal. apply forallb_ext_in. intros [k x] Hkx. cbn [fst snd].
    pose proof (jsize_in_obj k x ma Hkx) as Hs.
    destruct fuel as [|fuel]; [lia|].
    induction mb as [|[k2 y] mb IHm]; [reflexivity|]. cbn [existsb fst snd].
    rewrite IHm. f_equal. f_equal.
    rewrite Forall_forall in IH. apply (IH (k, x) Hkx). cbn [snd]. lia.
Qed.

Lemma eq_val_rfc a b : eq_val J a b = rfc_json_eq a b.
Proof. unfold eq_val. apply eq_json_rfc. cbn. lia. Qed.

(* on name-unique objects the member-wise form is the lookup form *)
Lemma obj_eq_assoc_form (ma mb : list (str * json)) :
  keys_unique (map fst mb) = true ->
  rfc_json_eq (JObj ma) (JObj mb)
  = Nat.eqb (length ma) (length mb)
    && forallb (fun kv => match assoc (fst kv) mb with
                          | Some y => rfc_json_eq (snd kv) y
                          | None => false
                          end) ma.
Proof.
  intros Hu. cbn [rfc_json_eq]. f_equal. apply forallb_ext_in. intros [k x] _. cbn [fst snd].
  rewrite <- (existsb_assoc (rfc_json_eq x) k mb Hu).
  induction mb as [|[k2 y] mb IH]; [reflexivity|]. cbn [existsb fst snd]. f_equal.
  apply IH. cbn [map fst keys_unique] in Hu. apply andb_true_iff in Hu. apply Hu.
Qed.

Definition scalar (v : json) : bool :=
  match v with JArr _ | JObj _ => false | _ => true end.

Lemma rfc_json_eq_scalar_sym a b : scalar a = true -> rfc_json_eq a b = rfc_json_eq b a.
Proof.
  destruct a, b; try discriminate; try reflexivity; intros _; cbn [rfc_json_eq].
  - destruct b, b0; reflexivity.
  - unfold dy_eqb, dy_align. destruct (num_f64 n) as [m1 e1], (num_f64 n0) as [m2 e2].
    rewrite (Z.min_comm e1 e2). apply Z.eqb_sym.
  - apply str_eqb_sym.
Qed.

Lemma cmp_lt_rfc a b : cmp_lt J a b = rfc_lt (Some a) (Some b).
Proof.
  unfold cmp_lt. rewrite !num_of_json.
  destruct a as [| | n | s | |], b as [| | n2 | s2 | |]; reflexivity.
Qed.
