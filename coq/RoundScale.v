(* RoundScale.v — the nearest binary64 of a positive rational depends on the rational only: round_ratio (k*n) (k*d) = round_ratio n d. *)
From Coq Require Import ZArith Bool Lia.
From JP Require Import Base Dec2Bin.
Local Open Scope Z_scope.

Definition ge_pow (num den e : Z) : bool :=
  if Z.leb 0 e then Z.leb (den * 2 ^ e) num else Z.leb den (num * 2 ^ (- e)).

Lemma ge_pow_scale n d k e : 0 < k -> ge_pow (k * n) (k * d) e = ge_pow n d e.
Proof.
  intros Hk. unfold ge_pow. destruct (Z.leb 0 e).
  - rewrite <- Z.mul_assoc. destruct (Z.leb_spec (d * 2 ^ e) n); destruct (Z.leb_spec (k * (d * 2 ^ e)) (k * n)); try reflexivity; nia.
  - rewrite <- Z.mul_assoc. destruct (Z.leb_spec d (n * 2 ^ (- e))); destruct (Z.leb_spec (k * d) (k * (n * 2 ^ (- e)))); try reflexivity; nia.
Qed.

(* ge_pow is antitone in e *)
Lemma ge_pow_down n d e : 0 < n -> 0 < d -> ge_pow n d (e + 1) = true -> ge_pow n d e = true.
Proof.
  intros Hn Hd. unfold ge_pow. destruct (Z.leb_spec 0 (e + 1)) as [H1|H1]; destruct (Z.leb_spec 0 e) as [H0|H0]; try lia.
  - intros H. apply Z.leb_le in H. apply Z.leb_le. rewrite Z.pow_add_r in H by lia. change (2 ^ 1) with 2 in H.
    assert (0 < 2 ^ e) by (apply Z.pow_pos_nonneg; lia). nia.
  - assert (e = -1) by lia. subst e. cbn. intros H. apply Z.leb_le in H. apply Z.leb_le. lia.
  - intros H. apply Z.leb_le in H. apply Z.leb_le. replace (- e) with (- (e + 1) + 1) by lia. rewrite Z.pow_add_r by lia. change (2 ^ 1) with 2.
    assert (0 < 2 ^ (- (e + 1))) by (apply Z.pow_pos_nonneg; lia). nia.
Qed.

Lemma ge_pow_down_many n d e j : 0 < n -> 0 < d -> 0 <= j -> ge_pow n d (e + j) = true -> ge_pow n d e = true.
Proof.
  intros Hn Hd Hj. revert e. pattern j. apply natlike_ind; [| |exact Hj].
  - intros e. rewrite Z.add_0_r. exact (fun H => H).
  - intros x Hx IH e H. apply IH. apply ge_pow_down; [exact Hn|exact Hd|]. replace (e + x + 1) with (e + Z.succ x) by lia. exact H.
Qed.

(* the bracketing by the bit lengths *)
Lemma log2_bounds n : 0 < n -> 2 ^ Z.log2 n <= n < 2 ^ (Z.log2 n + 1).
Proof. intros H. pose proof (Z.log2_spec n H). replace (Z.log2 n + 1) with (Z.succ (Z.log2 n)) by lia. exact H0. Qed.

Lemma ge_pow_low n d : 0 < n -> 0 < d -> ge_pow n d (Z.log2 n - Z.log2 d - 1) = true.
Proof.
  intros Hn Hd. pose proof (log2_bounds n Hn) as [Ln _]. pose proof (log2_bounds d Hd) as [_ Ld].
  pose proof (Z.log2_nonneg n) as Nn. pose proof (Z.log2_nonneg d) as Nd.
  set (a := Z.log2 n) in *. set (b := Z.log2 d) in *. unfold ge_pow.
  destruct (Z.leb_spec 0 (a - b - 1)) as [Hs|Hs]; apply Z.leb_le.
  - assert (E : 2 ^ a = 2 ^ (b + 1) * 2 ^ (a - b - 1)) by (rewrite <- Z.pow_add_r by lia; f_equal; lia).
    assert (0 < 2 ^ (a - b - 1)) by (apply Z.pow_pos_nonneg; lia). nia.
  - assert (E : 2 ^ (b + 1) = 2 ^ a * 2 ^ (- (a - b - 1))) by (rewrite <- Z.pow_add_r by lia; f_equal; lia).
    assert (0 < 2 ^ (- (a - b - 1))) by (apply Z.pow_pos_nonneg; lia). nia.
Qed.

Lemma ge_pow_high n d : 0 < n -> 0 < d -> ge_pow n d (Z.log2 n - Z.log2 d + 2) = false.
Proof.
  intros Hn Hd. pose proof (log2_bounds n Hn) as [_ Ln]. pose proof (log2_bounds d Hd) as [Ld _].
  pose proof (Z.log2_nonneg n) as Nn. pose proof (Z.log2_nonneg d) as Nd.
  set (a := Z.log2 n) in *. set (b := Z.log2 d) in *. unfold ge_pow.
  destruct (Z.leb_spec 0 (a - b + 2)) as [Hs|Hs]; apply Z.leb_gt.
  - assert (E : 2 ^ b * 2 ^ (a - b + 2) = 2 * 2 ^ (a + 1)).
    { rewrite <- Z.pow_add_r by lia. replace (b + (a - b + 2)) with (Z.succ (a + 1)) by lia. rewrite Z.pow_succ_r by lia. reflexivity. }
    assert (0 < 2 ^ (a - b + 2)) by (apply Z.pow_pos_nonneg; lia). nia.
  - assert (E : 2 ^ (a + 1) * 2 ^ (- (a - b + 2)) * 2 = 2 ^ b).
    { rewrite <- Z.pow_add_r by lia. replace (2 ^ (a + 1 + - (a - b + 2)) * 2) with (2 ^ Z.succ (a + 1 + - (a - b + 2))) by (rewrite Z.pow_succ_r by lia; ring). f_equal. lia. }
    assert (0 < 2 ^ (- (a - b + 2))) by (apply Z.pow_pos_nonneg; lia). nia.
Qed.

(* the exponent chosen by round_ratio, as a function of ge_pow only *)
Definition pick (n d k : Z) : Z := if ge_pow n d (k + 1) then k + 1 else if ge_pow n d k then k else k - 1.

Lemma pick_spec n d : 0 < n -> 0 < d ->
  let lg := pick n d (Z.log2 n - Z.log2 d) in ge_pow n d lg = true /\ ge_pow n d (lg + 1) = false.
Proof.
  intros Hn Hd. cbv zeta. unfold pick. set (k := Z.log2 n - Z.log2 d).
  pose proof (ge_pow_low n d Hn Hd) as Hl. pose proof (ge_pow_high n d Hn Hd) as Hh. fold k in Hl, Hh.
  destruct (ge_pow n d (k + 1)) eqn:E1.
  - split; [exact E1|]. replace (k + 1 + 1) with (k + 2) by lia. exact Hh.
  - destruct (ge_pow n d k) eqn:E0.
    + split; [exact E0|exact E1].
    + split; [exact Hl|]. replace (k - 1 + 1) with k by lia. exact E0.
Qed.

Lemma lg_unique n d x y : 0 < n -> 0 < d ->
  ge_pow n d x = true -> ge_pow n d (x + 1) = false -> ge_pow n d y = true -> ge_pow n d (y + 1) = false -> x = y.
Proof.
  intros Hn Hd X1 X2 Y1 Y2. destruct (Z.lt_trichotomy x y) as [H|[H|H]]; [|exact H|]; exfalso.
  - assert (ge_pow n d (x + 1) = true) by (apply (ge_pow_down_many n d (x + 1) (y - (x + 1)) Hn Hd); [lia|replace (x + 1 + (y - (x + 1))) with y by lia; exact Y1]). congruence.
  - assert (ge_pow n d (y + 1) = true) by (apply (ge_pow_down_many n d (y + 1) (x - (y + 1)) Hn Hd); [lia|replace (y + 1 + (x - (y + 1))) with x by lia; exact X1]). congruence.
Qed.

Lemma pick_scale n d k : 0 < n -> 0 < d -> 0 < k ->
  pick (k * n) (k * d) (Z.log2 (k * n) - Z.log2 (k * d)) = pick n d (Z.log2 n - Z.log2 d).
Proof.
  intros Hn Hd Hk. assert (Hkn : 0 < k * n) by nia. assert (Hkd : 0 < k * d) by nia.
  destruct (pick_spec (k * n) (k * d) Hkn Hkd) as [A1 A2]. destruct (pick_spec n d Hn Hd) as [B1 B2].
  rewrite ge_pow_scale in A1, A2 by exact Hk. exact (lg_unique n d _ _ Hn Hd A1 A2 B1 B2).
Qed.

Theorem round_ratio_scale n d k : 0 < n -> 0 < d -> 0 < k -> round_ratio (k * n) (k * d) = round_ratio n d.
Proof.
  intros Hn Hd Hk. unfold round_ratio. cbv zeta.
  change (if (if Z.leb 0 (Z.log2 (k * n) - Z.log2 (k * d) + 1) then Z.leb (k * d * 2 ^ (Z.log2 (k * n) - Z.log2 (k * d) + 1)) (k * n)
               else Z.leb (k * d) (k * n * 2 ^ (- (Z.log2 (k * n) - Z.log2 (k * d) + 1))))
          then Z.log2 (k * n) - Z.log2 (k * d) + 1
          else if (if Z.leb 0 (Z.log2 (k * n) - Z.log2 (k * d)) then Z.leb (k * d * 2 ^ (Z.log2 (k * n) - Z.log2 (k * d))) (k * n)
                   else Z.leb (k * d) (k * n * 2 ^ (- (Z.log2 (k * n) - Z.log2 (k * d)))))
               then Z.log2 (k * n) - Z.log2 (k * d) else Z.log2 (k * n) - Z.log2 (k * d) - 1)
    with (pick (k * n) (k * d) (Z.log2 (k * n) - Z.log2 (k * d))).
  change (if (if Z.leb 0 (Z.log2 n - Z.log2 d + 1) then Z.leb (d * 2 ^ (Z.log2 n - Z.log2 d + 1)) n
               else Z.leb d (n * 2 ^ (- (Z.log2 n - Z.log2 d + 1))))
          then Z.log2 n - Z.log2 d + 1
          else if (if Z.leb 0 (Z.log2 n - Z.log2 d) then Z.leb (d * 2 ^ (Z.log2 n - Z.log2 d)) n
                   else Z.leb d (n * 2 ^ (- (Z.log2 n - Z.log2 d))))
               then Z.log2 n - Z.log2 d else Z.log2 n - Z.log2 d - 1)
    with (pick n d (Z.log2 n - Z.log2 d)).
  rewrite (pick_scale n d k Hn Hd Hk). set (lg := pick n d (Z.log2 n - Z.log2 d)). set (e := Z.max (lg - 52) (-1074)).
  destruct (Z.leb_spec 0 e) as [He|He].
  - assert (Hp : 0 < 2 ^ e) by (apply Z.pow_pos_nonneg; lia).
    replace (k * d * 2 ^ e) with (k * (d * 2 ^ e)) by ring.
    rewrite Z.div_mul_cancel_l by nia. rewrite Z.mul_mod_distr_l by nia.
    set (dd := d * 2 ^ e). set (r := n mod dd). assert (Hdd : 0 < dd) by (unfold dd; nia).
    assert (E1 : Z.ltb (k * dd) (2 * (k * r)) = Z.ltb dd (2 * r)).
    { destruct (Z.ltb_spec dd (2 * r)); destruct (Z.ltb_spec (k * dd) (2 * (k * r))); try reflexivity; nia. }
    assert (E2 : Z.eqb (k * dd) (2 * (k * r)) = Z.eqb dd (2 * r)).
    { destruct (Z.eqb_spec dd (2 * r)); destruct (Z.eqb_spec (k * dd) (2 * (k * r))); try reflexivity; nia. }
    rewrite E1, E2. reflexivity.
  - assert (Hp : 0 < 2 ^ (- e)) by (apply Z.pow_pos_nonneg; lia).
    replace (k * n * 2 ^ (- e)) with (k * (n * 2 ^ (- e))) by ring.
    rewrite Z.div_mul_cancel_l by nia. rewrite Z.mul_mod_distr_l by nia.
    set (nn := n * 2 ^ (- e)). set (r := nn mod d).
    assert (E1 : Z.ltb (k * d) (2 * (k * r)) = Z.ltb d (2 * r)).
    { destruct (Z.ltb_spec d (2 * r)); destruct (Z.ltb_spec (k * d) (2 * (k * r))); try reflexivity; nia. }
    assert (E2 : Z.eqb (k * d) (2 * (k * r)) = Z.eqb d (2 * r)).
    { destruct (Z.eqb_spec d (2 * r)); destruct (Z.eqb_spec (k * d) (2 * (k * r))); try reflexivity; nia. }
    rewrite E1, E2. reflexivity.
Qed.
Print Assumptions round_ratio_scale.
