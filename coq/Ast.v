(* Ast.v — the query AST of src/parser/model.rs, constructor for constructor.
   Strings are RAW query text, exactly as the Rust AST keeps them: a name selector keeps its quotes
   and escapes ([SelName "'a'"], shorthand [SelName "a"]), a string literal keeps its escapes.
   Lists inside the mutual block are spelled out as their own inductive types so that the
   evaluators are plain mutual structural fixpoints and [Scheme] yields usable induction
   principles (no nested inductives). *)
From Coq Require Import List NArith ZArith Bool.
From JP Require Import Base.
Import ListNotations.

Inductive literal :=
| LInt (z : Z)            (* Literal::Int(i64)   *)
| LFloat (d : dy)         (* Literal::Float(f64), finite; the exact value *)
| LStr (s : str)          (* Literal::String, raw body without the enclosing quotes *)
| LBool (b : bool)
| LNull.

Inductive sqseg := SqIndex (i : Z) | SqName (s : str).
Inductive squery := SqCur (l : list sqseg) | SqRoot (l : list sqseg).

Inductive cmpop := OpEq | OpNe | OpGt | OpGe | OpLt | OpLe.

Inductive segment :=
| SegDesc (s : segment)                  (* Segment::Descendant(Box<Segment>) *)
| SegSel (s : selector)                  (* Segment::Selector *)
| SegSels (l : selectors)                (* Segment::Selectors(Vec<Selector>) *)
with selector :=
| SelName (s : str)
| SelWild
| SelIndex (i : Z)
| SelSlice (a b c : option Z)
| SelFilter (f : filter)
with selectors := SNil | SCons (s : selector) (l : selectors)
with segments := GNil | GCons (s : segment) (l : segments)
with filter :=
| FOr (l : filters)
| FAnd (l : filters)
| FAtom (a : atom)
with filters := FNil | FCons (f : filter) (l : filters)
with atom :=
| AFilter (f : filter) (neg : bool)      (* FilterAtom::Filter { expr, not } *)
| ATest (t : test) (neg : bool)          (* FilterAtom::Test { expr, not }   *)
| ACmp (op : cmpop) (l r : comparable)   (* FilterAtom::Comparison(Box<Comparison>) *)
with comparable :=
| CLit (l : literal)
| CFn (f : tfun)
| CSq (q : squery)
with test :=
| TRel (l : segments)                    (* Test::RelQuery(Vec<Segment>) *)
| TAbs (l : segments)                    (* Test::AbsQuery(JpQuery)      *)
| TFn (f : tfun)                         (* Test::Function(Box<TestFunction>) *)
with tfun :=
| FnCustom (name : str) (args : fnargs)
| FnLength (a : fnarg)
| FnValue (a : fnarg)
| FnCount (a : fnarg)
| FnSearch (a b : fnarg)
| FnMatch (a b : fnarg)
with fnarg :=
| ArgLit (l : literal)
| ArgTest (t : test)
| ArgFilter (f : filter)
with fnargs := ANil | ACons (a : fnarg) (l : fnargs).

Scheme segment_mind := Induction for segment Sort Prop
  with selector_mind := Induction for selector Sort Prop
  with selectors_mind := Induction for selectors Sort Prop
  with segments_mind := Induction for segments Sort Prop
  with filter_mind := Induction for filter Sort Prop
  with filters_mind := Induction for filters Sort Prop
  with atom_mind := Induction for atom Sort Prop
  with comparable_mind := Induction for comparable Sort Prop
  with test_mind := Induction for test Sort Prop
  with tfun_mind := Induction for tfun Sort Prop
  with fnarg_mind := Induction for fnarg Sort Prop
  with fnargs_mind := Induction for fnargs Sort Prop.
Combined Scheme ast_mutind from segment_mind, selector_mind, selectors_mind, segments_mind,
  filter_mind, filters_mind, atom_mind, comparable_mind, test_mind, tfun_mind, fnarg_mind,
  fnargs_mind.

Fixpoint selectors_to_list (l : selectors) : list selector :=
  match l with SNil => [] | SCons s l' => s :: selectors_to_list l' end.
Fixpoint segments_to_list (l : segments) : list segment :=
  match l with GNil => [] | GCons s l' => s :: segments_to_list l' end.
Fixpoint filters_to_list (l : filters) : list filter :=
  match l with FNil => [] | FCons s l' => s :: filters_to_list l' end.
Fixpoint fnargs_to_list (l : fnargs) : list fnarg :=
  match l with ANil => [] | ACons s l' => s :: fnargs_to_list l' end.
Fixpoint segments_of_list (l : list segment) : segments :=
  match l with [] => GNil | s :: l' => GCons s (segments_of_list l') end.

(* JpQuery { segments } *)
Definition query := segments.
