(* SingularOrder.v — the selector-major deviation D1 needs SEVERAL input nodes: a bracketed selection with several selectors
   that follows a singular prefix ($.a[0]['x','y',1:3]...) receives at most one node, on which the crate's order is the RFC's. *)
From Coq Require Import List NArith ZArith Bool Lia Permutation.
From JP Require Import Base Ast Spec BaseFacts SpecSteps WellFormed Order SingularFacts.
Import ListNotations.
Local Open Scope nat_scope.

Fixpoint d1_free (l : segments) : bool :=
  match l with
  | GNil => true
  | GCons s l' =>
      if singular_seg s then d1_free l'
      else match s with SegSels _ => segs_single l' | _ => segs_single l end
  end.

Section SO.
  Variable rx_full rx_sub : str -> str -> bool.
  Variable veq : json -> json -> bool.
  Variable root : json.
  Notation T x := (x rx_full rx_sub veq true root).
  Notation F x := (x rx_full rx_sub veq false root).

  Lemma major_le1 l ns : (length ns <= 1)%nat -> F r_selectors_major l ns = flat_map (F r_selectors l) ns.
  Proof.
    intros Hn. destruct ns as [|n [|n2 r]]; [| |cbn [length] in Hn; exfalso; lia].
    - induction l as [|s l IH]; autorewrite with rsteps; [reflexivity|]. rewrite IH. reflexivity.
    - cbn [flat_map]. rewrite app_nil_r.
      induction l as [|s l IH]; autorewrite with rsteps; [reflexivity|]. rewrite IH. cbn [flat_map]. rewrite app_nil_r. reflexivity.
  Qed.

  Lemma segs_single_eq l : segs_single l = true -> forall ns, T r_segments l ns = F r_segments l ns.
  Proof.
    induction l as [|s l IH]; intros H ns; [reflexivity|].
    cbn [segs_single] in H. apply andb_true_iff in H. destruct H as [Hs Hl].
    autorewrite with rsteps. rewrite (seg_single_eq rx_full rx_sub veq root s Hs). apply IH. exact Hl.
  Qed.

  Lemma singular_seg_single s : singular_seg s = true -> seg_single s = true.
  Proof. destruct s as [s'|sel|l]; try discriminate. reflexivity. Qed.

  Lemma singular_seg_le1 s ns : singular_seg s = true -> (length ns <= 1)%nat -> (length (F r_segment s ns) <= 1)%nat.
  Proof.
    intros Hs Hn. pose proof (singular_segments_le1 rx_full rx_sub veq false root (GCons s GNil)) as H.
    cbn [singular] in H. rewrite Hs in H. specialize (H eq_refl ns Hn). exact H.
  Qed.

  Theorem d1_free_order l : d1_free l = true ->
    forall ns, (length ns <= 1)%nat -> T r_segments l ns = F r_segments l ns.
  Proof.
    induction l as [|s l IH]; intros H ns Hn; [reflexivity|].
    cbn [d1_free] in H. destruct (singular_seg s) eqn:Hs.
    - autorewrite with rsteps. rewrite (seg_single_eq rx_full rx_sub veq root s (singular_seg_single s Hs)).
      apply IH; [exact H|]. apply singular_seg_le1; assumption.
    - destruct s as [s'|sel|sl]; try (apply segs_single_eq; exact H).
      autorewrite with rsteps.
      destruct (order_all rx_full rx_sub veq root) as [_ [_ [Hsels _]]]. destruct (Hsels sl) as [_ Hmaj].
      rewrite Hmaj, (major_le1 sl ns Hn). apply segs_single_eq. exact H.
  Qed.

  Theorem d1_free_query q : d1_free q = true ->
    r_query rx_full rx_sub veq true root q = r_query rx_full rx_sub veq false root q.
  Proof. intros H. unfold r_query. apply d1_free_order; [exact H|cbn [length]; lia]. Qed.
End SO.
