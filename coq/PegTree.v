(* PegTree.v — every pair of the tree a successful match produces is witnessed by a successful run of its own rule at its own
   span (the sub-derivation property), for every grammar, input and fuel.  With it, a fact proved once about the runs of a
   rule (what [int] consumes, what [string] consumes) holds of EVERY token of EVERY accepted input. *)
From Coq Require Import List Arith NArith Bool Lia.
From JP Require Import Base Peg PegFacts PegTerm PegAlpha.
Import ListNotations.
Local Open Scope nat_scope.

Section Tree.
  Variable rname : Type.
  Variable g : peg rname.
  Notation expr := (expr rname).
  Notation pair := (pair rname).
  Notation run := (Peg.run g).

  Fixpoint intree (x t : pair) {struct t} : Prop :=
    match t with
    | Pair _ _ _ kids => x = t \/ (fix go (l : list pair) : Prop := match l with [] => False | k :: l' => intree x k \/ go l' end) kids
    end.
  Fixpoint inforest (x : pair) (l : list pair) : Prop :=
    match l with [] => False | k :: l' => intree x k \/ inforest x l' end.

  Lemma intree_eq x r a b kids : intree x (Pair r a b kids) <-> (x = Pair r a b kids \/ inforest x kids).
  Proof.
    cbn [intree]. assert (E : forall l, (fix go (l : list pair) : Prop := match l with [] => False | k :: l' => intree x k \/ go l' end) l <-> inforest x l).
    { induction l as [|k l IH]; cbn [inforest]; [tauto|]. rewrite IH. tauto. }
    rewrite E. tauto.
  Qed.

  Lemma inforest_app x l1 l2 : inforest x (l1 ++ l2) <-> inforest x l1 \/ inforest x l2.
  Proof. induction l1 as [|k l1 IH]; cbn [app inforest]; [tauto|]. rewrite IH. tauto. Qed.

  (* what a successful run consumes is a prefix of its input, and the position advances by its length *)
  Lemma term_ok_true (e : expr) : term_ok rname (fun _ => true) (fun _ _ => true) e = true.
  Proof. induction e; cbn [term_ok]; try reflexivity; try assumption; try (rewrite IHe1, IHe2; reflexivity). apply forallb_forall. reflexivity. Qed.

  Lemma run_prefix f e a s pos rest p t : run f e a s pos = Ok rest p t -> exists u, s = u ++ rest /\ p = pos + length u.
  Proof.
    intros Hr.
    destruct (run_alpha rname g (fun _ => true) (fun _ _ => true) (fun _ _ _ _ _ => eq_refl) (fun r => term_ok_true _)
                f e a s pos rest p t (term_ok_true e) Hr) as [u [Es _]].
    exists u. split; [exact Es|]. pose proof (run_pos rname g (fun _ _ => 0) 5 (le_n 5) _ _ _ _ _ _ _ _ Hr) as Hp. subst s. rewrite app_length in Hp. lia.
  Qed.

  (* the witness: the pair [x] was produced by a run of its rule over the input from its start to its end *)
  Definition witness (s : str) (pos : nat) (x : pair) : Prop :=
    match x with
    | Pair r st en kids =>
        (r = g_eoi g /\ st = en) \/
        exists f a u s' rest', s = u ++ s' /\ st = pos + length u /\ emits a = true /\ run f (ECall r) a s' st = Ok rest' en [x]
    end.

  Lemma witness_shift s pos s2 p2 u0 x : s = u0 ++ s2 -> p2 = pos + length u0 -> witness s2 p2 x -> witness s pos x.
  Proof.
    intros Es Ep. destruct x as [r st en kids]. cbn [witness]. intros [H|[f [a [u [s' [rest' [E1 [E2 [E3 E4]]]]]]]]]; [left; exact H|].
    right. exists f, a, (u0 ++ u), s', rest'. repeat split; try assumption.
    - subst s s2. rewrite app_assoc. reflexivity.
    - subst p2. rewrite app_length. lia.
  Qed.

  Theorem run_subtree : forall f e a s pos rest p toks x,
    run f e a s pos = Ok rest p toks -> inforest x toks -> witness s pos x.
  Proof.
    induction f as [|f IH]; intros e a s pos rest p toks x Hr Hin; [discriminate|].
    destruct e; cbn [Peg.run] in Hr.
    - destruct (match_str s0 s); [|discriminate]. inversion Hr; subst. destruct Hin.
    - destruct s as [|c r]; [discriminate|]. destruct (N.leb lo c && N.leb c hi); [|discriminate]. inversion Hr; subst. destruct Hin.
    - (* ECall *)
      destruct (g_rule g r) as [k body] eqn:Eg.
      assert (Hself : forall a' toks' kids,
                 run f body a' s pos = Ok rest p toks' ->
                 run (S f) (ECall r) a s pos = Ok rest p [Pair r pos p kids] -> emits a = true ->
                 (inforest x toks' -> witness s pos x) ->
                 (x = Pair r pos p kids \/ inforest x toks') -> witness s pos x).
      { intros a' toks' kids Hb Hc He Hk [->|Hi]; [|exact (Hk Hi)].
        cbn [witness]. right. exists (S f), a, [], s, rest. repeat split; [cbn [length]; lia|exact He|exact Hc]. }
      destruct k.
      + destruct (run f body a s pos) as [| |r1 p1 t1] eqn:Eb; try discriminate. inversion Hr; subst.
        destruct (emits a) eqn:Em; [|destruct Hin]. cbn [inforest] in Hin. destruct Hin as [Hin|[]]. apply intree_eq in Hin.
        apply (Hself a t1 t1 Eb); [cbn [Peg.run]; rewrite Eg, Eb, Em; reflexivity|reflexivity|apply (IH _ _ _ _ _ _ _ _ Eb)|exact Hin].
      + apply (IH _ _ _ _ _ _ _ _ Hr Hin).
      + destruct (run f body AAtomic s pos) as [| |r1 p1 t1] eqn:Eb; try discriminate. inversion Hr; subst.
        destruct (emits a) eqn:Em; [|destruct Hin]. cbn [inforest] in Hin. destruct Hin as [Hin|[]]. apply intree_eq in Hin.
        destruct Hin as [->|[]]. cbn [witness]. right. exists (S f), a, [], s, rest. repeat split; [cbn [length]; lia|exact Em|].
        cbn [Peg.run]. rewrite Eg, Eb, Em. reflexivity.
      + destruct (run f body ACompound s pos) as [| |r1 p1 t1] eqn:Eb; try discriminate. inversion Hr; subst.
        destruct (emits a) eqn:Em; [|destruct Hin]. cbn [inforest] in Hin. destruct Hin as [Hin|[]]. apply intree_eq in Hin.
        apply (Hself ACompound t1 t1 Eb); [cbn [Peg.run]; rewrite Eg, Eb, Em; reflexivity|reflexivity|apply (IH _ _ _ _ _ _ _ _ Eb)|exact Hin].
      + destruct (run f body ANonAtomic s pos) as [| |r1 p1 t1] eqn:Eb; try discriminate. inversion Hr; subst.
        destruct (emits a) eqn:Em; [|destruct Hin]. cbn [inforest] in Hin. destruct Hin as [Hin|[]]. apply intree_eq in Hin.
        apply (Hself ANonAtomic t1 t1 Eb); [cbn [Peg.run]; rewrite Eg, Eb, Em; reflexivity|reflexivity|apply (IH _ _ _ _ _ _ _ _ Eb)|exact Hin].
    - (* ESeq *)
      destruct (run f e1 a s pos) as [| |s1 p1 t1] eqn:E1; try discriminate.
      destruct (run f ESkip a s1 p1) as [| |s2 p2 t2] eqn:E2; try discriminate.
      destruct (run f e2 a s2 p2) as [| |s3 p3 t3] eqn:E3; try discriminate. inversion Hr; subst.
      apply inforest_app in Hin. destruct Hin as [Hin|Hin]; [apply (IH _ _ _ _ _ _ _ _ E1 Hin)|].
      destruct (run_prefix _ _ _ _ _ _ _ _ E1) as [u1 [Es1 Ep1]]. destruct (run_prefix _ _ _ _ _ _ _ _ E2) as [u2 [Es2 Ep2]].
      apply (witness_shift s pos s2 p2 (u1 ++ u2)); [subst s s1; rewrite app_assoc; reflexivity|rewrite app_length; lia|].
      apply (IH _ _ _ _ _ _ _ _ E3 Hin).
    - destruct (run f e1 a s pos) as [| |s1 p1 t1] eqn:E1; try discriminate.
      + apply (IH _ _ _ _ _ _ _ _ Hr Hin).
      + inversion Hr; subst. apply (IH _ _ _ _ _ _ _ _ E1 Hin).
    - destruct (run f e a s pos) as [| |s1 p1 t1] eqn:E1; try discriminate.
      + inversion Hr; subst. destruct Hin.
      + inversion Hr; subst. apply (IH _ _ _ _ _ _ _ _ E1 Hin).
    - (* ERep *)
      destruct (run f e a s pos) as [| |s1 p1 t1] eqn:E1; try discriminate.
      + inversion Hr; subst. destruct Hin.
      + destruct (run f (ERepTail e) a s1 p1) as [| |s2 p2 t2] eqn:E2; try discriminate. inversion Hr; subst.
        apply inforest_app in Hin. destruct Hin as [Hin|Hin]; [apply (IH _ _ _ _ _ _ _ _ E1 Hin)|].
        destruct (run_prefix _ _ _ _ _ _ _ _ E1) as [u1 [Es1 Ep1]].
        apply (witness_shift s pos s1 p1 u1 x Es1 Ep1). apply (IH _ _ _ _ _ _ _ _ E2 Hin).
    - (* ERepTail *)
      destruct (run f ESkip a s pos) as [| |s1 p1 t1] eqn:E1; try discriminate.
      destruct (run f e a s1 p1) as [| |s2 p2 t2] eqn:E2; try discriminate.
      + inversion Hr; subst. destruct Hin.
      + destruct (Nat.eqb p2 pos); [inversion Hr; subst; destruct Hin|].
        destruct (run f (ERepTail e) a s2 p2) as [| |s3 p3 t3] eqn:E3; try discriminate. inversion Hr; subst.
        destruct (run_prefix _ _ _ _ _ _ _ _ E1) as [u1 [Es1 Ep1]]. destruct (run_prefix _ _ _ _ _ _ _ _ E2) as [u2 [Es2 Ep2]].
        apply inforest_app in Hin. destruct Hin as [Hin|Hin].
        * apply (witness_shift s pos s1 p1 u1 x Es1 Ep1). apply (IH _ _ _ _ _ _ _ _ E2 Hin).
        * apply (witness_shift s pos s2 p2 (u1 ++ u2)); [subst s s1; rewrite app_assoc; reflexivity|rewrite app_length; lia|].
          apply (IH _ _ _ _ _ _ _ _ E3 Hin).
    - destruct (run f e a s pos) as [| |s1 p1 t1]; try discriminate. inversion Hr; subst. destruct Hin.
    - destruct (run f e a s pos) as [| |s1 p1 t1]; try discriminate. inversion Hr; subst. destruct Hin.
    - destruct a.
      + destruct (run f (ERep (ECall (g_ws g))) AAtomic s pos) as [| |s1 p1 t1]; try discriminate. inversion Hr; subst. destruct Hin.
      + inversion Hr; subst. destruct Hin.
      + inversion Hr; subst. destruct Hin.
    - destruct (Nat.eqb pos 0); [|discriminate]. inversion Hr; subst. destruct Hin.
    - destruct s; [|discriminate]. inversion Hr; subst. destruct (emits a); [|destruct Hin]. cbn [inforest] in Hin.
      destruct Hin as [Hin|[]]. apply intree_eq in Hin. destruct Hin as [->|[]]. cbn [witness]. left. split; reflexivity.
  Qed.

  (* ---------- inversion rules: from a successful run to the runs of its parts ---------- *)
  Lemma inv_str f lit a s pos rest p t : run f (EStr lit) a s pos = Ok rest p t -> s = lit ++ rest /\ p = pos + length lit.
  Proof.
    destruct f as [|f]; [discriminate|]. cbn [Peg.run]. destruct (match_str lit s) as [r|] eqn:E; [|discriminate].
    intros Hr. inversion Hr; subst. split; [apply match_str_prefix; exact E|reflexivity].
  Qed.
  Lemma inv_range f lo hi a s pos rest p t :
    run f (ERange lo hi) a s pos = Ok rest p t -> exists c, s = c :: rest /\ N.leb lo c && N.leb c hi = true /\ p = S pos.
  Proof.
    destruct f as [|f]; [discriminate|]. cbn [Peg.run]. destruct s as [|c r]; [discriminate|].
    destruct (N.leb lo c && N.leb c hi) eqn:E; [|discriminate]. intros Hr. inversion Hr; subst. exists c. split; [reflexivity|split; [exact E|reflexivity]].
  Qed.
  Lemma inv_alt f x y a s pos rest p t :
    run f (EAlt x y) a s pos = Ok rest p t -> exists f', run f' x a s pos = Ok rest p t \/ run f' y a s pos = Ok rest p t.
  Proof.
    destruct f as [|f]; [discriminate|]. cbn [Peg.run]. intros Hr. exists f.
    destruct (run f x a s pos) as [| |s1 p1 t1]; [right; exact Hr|discriminate|left; exact Hr].
  Qed.
  Lemma inv_opt f x a s pos rest p t :
    run f (EOpt x) a s pos = Ok rest p t -> (rest = s /\ p = pos) \/ exists f', run f' x a s pos = Ok rest p t.
  Proof.
    destruct f as [|f]; [discriminate|]. cbn [Peg.run]. intros Hr.
    destruct (run f x a s pos) as [| |s1 p1 t1] eqn:E; [left; inversion Hr; split; reflexivity|discriminate|right; exists f; rewrite E; exact Hr].
  Qed.
  Lemma inv_seq_atomic f x y a s pos rest p t : a <> ANonAtomic ->
    run f (ESeq x y) a s pos = Ok rest p t ->
    exists f' s1 p1 t1 t3, run f' x a s pos = Ok s1 p1 t1 /\ run f' y a s1 p1 = Ok rest p t3.
  Proof.
    intros Ha. destruct f as [|f]; [discriminate|]. cbn [Peg.run]. intros Hr.
    destruct (run f x a s pos) as [| |s1 p1 t1] eqn:E1; try discriminate.
    destruct (run f ESkip a s1 p1) as [| |s2 p2 t2] eqn:E2; try discriminate.
    destruct (run f y a s2 p2) as [| |s3 p3 t3] eqn:E3; try discriminate. inversion Hr; subst.
    assert (s2 = s1 /\ p2 = p1) as [-> ->].
    { destruct f as [|f']; [discriminate|]. cbn [Peg.run] in E2. destruct a; [contradiction| |]; inversion E2; split; reflexivity. }
    exists f, s1, p1, t1, t3. split; [exact E1|exact E3].
  Qed.
  Lemma inv_call f r a s pos rest p t :
    run f (ECall r) a s pos = Ok rest p t ->
    exists f' t', run f' (snd (g_rule g r)) (call_atomicity (fst (g_rule g r)) a) s pos = Ok rest p t'.
  Proof.
    destruct f as [|f]; [discriminate|]. cbn [Peg.run]. destruct (g_rule g r) as [k body]. cbn [fst snd]. intros Hr. exists f.
    destruct k; cbn [call_atomicity].
    - destruct (run f body a s pos) as [| |s1 p1 t1]; try discriminate. inversion Hr; subst. eexists; reflexivity.
    - exists t. exact Hr.
    - destruct (run f body AAtomic s pos) as [| |s1 p1 t1]; try discriminate. inversion Hr; subst. eexists; reflexivity.
    - destruct (run f body ACompound s pos) as [| |s1 p1 t1]; try discriminate. inversion Hr; subst. eexists; reflexivity.
    - destruct (run f body ANonAtomic s pos) as [| |s1 p1 t1]; try discriminate. inversion Hr; subst. eexists; reflexivity.
  Qed.

  (* ---------- what a rule consumes when no implicit skipping is in force ---------- *)
  Variable P : N -> bool.
  Variable rng : N -> N -> bool.
  Hypothesis rng_ok : forall lo hi c, rng lo hi = true -> N.leb lo c && N.leb c hi = true -> P c = true.

  Definition kind_keeps_atomic (k : rkind) : bool := match k with KNonAtomic => false | _ => true end.

  (* the terminals reachable from [e] within [n] nested calls all lie in P, and no reachable rule switches skipping back on *)
  Fixpoint chk (n : nat) (e : expr) : bool :=
    match n with
    | O => false
    | S n' =>
        match e with
        | EStr lit => forallb P lit
        | ERange lo hi => rng lo hi
        | ECall r => kind_keeps_atomic (fst (g_rule g r)) && chk n' (snd (g_rule g r))
        | ESeq x y | EAlt x y => chk n' x && chk n' y
        | EOpt x | ERep x | ERepTail x | ENot x | EAnd x => chk n' x
        | _ => true
        end
    end.

  Lemma run_alpha_atomic : forall f n e a s pos rest p t,
    a <> ANonAtomic -> chk n e = true -> run f e a s pos = Ok rest p t -> exists u, s = u ++ rest /\ forallb P u = true.
  Proof.
    induction f as [|f IH]; intros n e a s pos rest p t Ha He Hr; [discriminate|].
    assert (Hnil : forall x : str, exists u, x = u ++ x /\ forallb P u = true) by (intros x; exists []; split; reflexivity).
    assert (Hskip : forall s1 p1 s2 p2 t2, run f ESkip a s1 p1 = Ok s2 p2 t2 -> s2 = s1).
    { intros s1 p1 s2 p2 t2 Hs. destruct f as [|f']; [discriminate|]. cbn [Peg.run] in Hs. destruct a; [contradiction| |]; inversion Hs; reflexivity. }
    destruct n as [|n]; [discriminate|].
    destruct e; cbn [chk] in He; cbn [Peg.run] in Hr.
    - destruct (match_str s0 s) as [r|] eqn:E; [|discriminate]. inversion Hr; subst. exists s0. split; [apply match_str_prefix; exact E|exact He].
    - destruct s as [|c r]; [discriminate|]. destruct (N.leb lo c && N.leb c hi) eqn:E; [|discriminate]. inversion Hr; subst.
      exists [c]. split; [reflexivity|]. cbn [forallb]. rewrite (rng_ok lo hi c He E). reflexivity.
    - apply andb_true_iff in He. destruct He as [Hk Hb]. destruct (g_rule g r) as [k body]. cbn [fst snd] in Hk, Hb. destruct k; try discriminate.
      + destruct (run f body a s pos) as [| |r1 p1 t1] eqn:E; try discriminate. inversion Hr; subst. apply (IH _ _ _ _ _ _ _ _ Ha Hb E).
      + apply (IH _ _ _ _ _ _ _ _ Ha Hb Hr).
      + destruct (run f body AAtomic s pos) as [| |r1 p1 t1] eqn:E; try discriminate. inversion Hr; subst.
        apply (IH n body AAtomic _ _ _ _ _ ltac:(discriminate) Hb E).
      + destruct (run f body ACompound s pos) as [| |r1 p1 t1] eqn:E; try discriminate. inversion Hr; subst.
        apply (IH n body ACompound _ _ _ _ _ ltac:(discriminate) Hb E).
    - apply andb_true_iff in He. destruct He as [H1 H2].
      destruct (run f e1 a s pos) as [| |s1 p1 t1] eqn:E1; try discriminate.
      destruct (run f ESkip a s1 p1) as [| |s2 p2 t2] eqn:E2; try discriminate.
      destruct (run f e2 a s2 p2) as [| |s3 p3 t3] eqn:E3; try discriminate. inversion Hr; subst.
      rewrite (Hskip _ _ _ _ _ E2) in E3.
      destruct (IH _ _ _ _ _ _ _ _ Ha H1 E1) as [u1 [-> F1]]. destruct (IH _ _ _ _ _ _ _ _ Ha H2 E3) as [u3 [-> F3]].
      exists (u1 ++ u3). split; [rewrite <- app_assoc; reflexivity|]. rewrite forallb_app, F1, F3. reflexivity.
    - apply andb_true_iff in He. destruct He as [H1 H2].
      destruct (run f e1 a s pos) as [| |s1 p1 t1] eqn:E1; try discriminate.
      + apply (IH _ _ _ _ _ _ _ _ Ha H2 Hr).
      + inversion Hr; subst. apply (IH _ _ _ _ _ _ _ _ Ha H1 E1).
    - destruct (run f e a s pos) as [| |s1 p1 t1] eqn:E1; try discriminate.
      + inversion Hr; subst. apply Hnil.
      + inversion Hr; subst. apply (IH _ _ _ _ _ _ _ _ Ha He E1).
    - destruct (run f e a s pos) as [| |s1 p1 t1] eqn:E1; try discriminate.
      + inversion Hr; subst. apply Hnil.
      + destruct (run f (ERepTail e) a s1 p1) as [| |s2 p2 t2] eqn:E2; try discriminate. inversion Hr; subst.
        destruct (IH _ _ _ _ _ _ _ _ Ha He E1) as [u1 [-> F1]].
        destruct (IH (S n) (ERepTail e) _ _ _ _ _ _ Ha He E2) as [u2 [-> F2]].
        exists (u1 ++ u2). split; [rewrite <- app_assoc; reflexivity|]. rewrite forallb_app, F1, F2. reflexivity.
    - destruct (run f ESkip a s pos) as [| |s1 p1 t1] eqn:E1; try discriminate.
      destruct (run f e a s1 p1) as [| |s2 p2 t2] eqn:E2; try discriminate.
      + inversion Hr; subst. apply Hnil.
      + destruct (Nat.eqb p2 pos); [inversion Hr; subst; apply Hnil|].
        destruct (run f (ERepTail e) a s2 p2) as [| |s3 p3 t3] eqn:E3; try discriminate. inversion Hr; subst.
        rewrite (Hskip _ _ _ _ _ E1) in E2.
        destruct (IH _ _ _ _ _ _ _ _ Ha He E2) as [u2 [-> F2]].
        destruct (IH (S n) (ERepTail e) _ _ _ _ _ _ Ha He E3) as [u3 [-> F3]].
        exists (u2 ++ u3). split; [rewrite <- app_assoc; reflexivity|]. rewrite forallb_app, F2, F3. reflexivity.
    - destruct (run f e a s pos) as [| |s1 p1 t1]; try discriminate. inversion Hr; subst. apply Hnil.
    - destruct (run f e a s pos) as [| |s1 p1 t1]; try discriminate. inversion Hr; subst. apply Hnil.
    - destruct a; [contradiction| |]; inversion Hr; subst; apply Hnil.
    - destruct (Nat.eqb pos 0); [|discriminate]. inversion Hr; subst. apply Hnil.
    - destruct s; [|discriminate]. inversion Hr; subst. apply Hnil.
  Qed.

  (* an atomic rule, called from any context *)
  Lemma atomic_rule_alpha f n r a s pos rest p t :
    fst (g_rule g r) = KAtomic -> chk n (snd (g_rule g r)) = true ->
    run f (ECall r) a s pos = Ok rest p t -> exists u, s = u ++ rest /\ forallb P u = true.
  Proof.
    intros Hk Hb Hr. destruct f as [|f]; [discriminate|]. cbn [Peg.run] in Hr. destruct (g_rule g r) as [k body].
    cbn [fst snd] in Hk, Hb. subst k.
    destruct (run f body AAtomic s pos) as [| |r1 p1 t1] eqn:E; try discriminate. inversion Hr; subst.
    apply (run_alpha_atomic f n body AAtomic _ _ _ _ _ ltac:(discriminate) Hb E).
  Qed.
End Tree.
