(* Regex.v — the regular-expression dialect of match()/search() (C10).
   [re]: abstract syntax.  [re_parse]: a recursive-descent parser for the part of the syntax of the
   `regex` crate that is also I-Regexp (RFC 9485) plus anchors and (?: ) groups, with three
   outcomes: a regular expression, invalid (both the crate and RFC 9485 reject it), or unsupported
   (outside the modelled dialect: the check skips such patterns, nothing is claimed about them).
   [ends]: executable semantics by sets of end positions (anchors are absolute positions).
   The `regex` crate itself is external: this model is validated against it on every run. *)
From Coq Require Import List NArith ZArith Bool.
From JP Require Import Base.
Import ListNotations.

Inductive re :=
| RChar (c : N)
| RAny (cr : bool)                 (* . : any character but LF; [cr] = also excludes CR *)
| RClass (neg : bool) (rs : list (N * N))
| REps
| RCat (a b : re)
| RAlt (a b : re)
| RStar (a : re)
| RPlus (a : re)
| ROpt (a : re)
| RRep (a : re) (lo : nat) (hi : option nat)     (* a{lo,hi} ; hi = None: unbounded *)
| RBegin
| REnd.

Inductive pres := PValid (r : re) | PInvalid | PUnsupported.

(* ---------- parser ---------- *)
Definition is_digit_c (c : N) : bool := (N.leb 48 c && N.leb c 57)%N.
(* punctuation that may be escaped with a backslash: ( ) * + - . ? [ \ ] ^ { | } $ / *)
Definition esc_punct (c : N) : bool :=
  existsb (N.eqb c) [40; 41; 42; 43; 45; 46; 63; 91; 92; 93; 94; 123; 124; 125; 36; 47]%N.
(* characters with a meaning of their own outside a class *)
Definition meta (c : N) : bool :=
  existsb (N.eqb c) [40; 41; 42; 43; 46; 63; 91; 92; 93; 94; 123; 124; 125; 36]%N.

Inductive rp (A : Type) := XOk (x : A) (rest : str) | XBad | XUns.
Arguments XOk {A}. Arguments XBad {A}. Arguments XUns {A}.

Fixpoint take_num (s : str) (acc : nat) (seen : bool) : option nat * str :=
  match s with
  | c :: r => if is_digit_c c then take_num r (acc * 10 + N.to_nat (c - 48)) true
              else ((if seen then Some acc else None), s)
  | [] => ((if seen then Some acc else None), [])
  end.

(* one character of a class (after escapes): returns the character *)
Definition esc_char (c : N) : option N :=
  if esc_punct c then Some c
  else if N.eqb c 110 then Some 10%N else if N.eqb c 114 then Some 13%N else if N.eqb c 116 then Some 9%N
  else None.
Definition class_char (s : str) : rp N :=
  match s with
  | [] => XBad
  | c :: r =>
      if N.eqb c 92 then
        match r with
        | [] => XBad
        | e :: r2 => match esc_char e with Some x => XOk x r2 | None => XUns end
        end
      else if N.eqb c 91 || N.eqb c 93 || N.eqb c 94 || N.eqb c 45 then XUns
      else XOk c r
  end.

Fixpoint class_items (fuel : nat) (s : str) (acc : list (N * N)) : rp (list (N * N)) :=
  match fuel with
  | O => XUns
  | S f =>
      match s with
      | [] => XBad
      | c :: r =>
          if N.eqb c 93 then match acc with [] => XUns | _ => XOk (rev acc) r end      (* ] ; "[]" is not modelled *)
          else
            match class_char s with
            | XOk lo r1 =>
                match r1 with
                | d :: r2 =>
                    if N.eqb d 45 then
                      match r2 with
                      | e :: _ =>
                          if N.eqb e 93 then XUns                   (* trailing '-' : not modelled *)
                          else match class_char r2 with
                               | XOk hi r3 => if N.leb lo hi then class_items f r3 ((lo, hi) :: acc) else XBad
                               | XBad => XBad
                               | XUns => XUns
                               end
                      | [] => XBad
                      end
                    else class_items f r1 ((lo, lo) :: acc)
                | [] => XBad
                end
            | XBad => XBad
            | XUns => XUns
            end
      end
  end.

(* quantifier after an atom; a second quantifier or a lazy/possessive suffix is not modelled *)
Definition is_quant_char (c : N) : bool := N.eqb c 42 || N.eqb c 43 || N.eqb c 63 || N.eqb c 123.
Definition after_quant (r : re) (s : str) : rp re :=
  match s with
  | c :: _ => if is_quant_char c then XUns else XOk r s
  | [] => XOk r s
  end.
Definition p_quant (a : re) (s : str) : rp re :=
  match s with
  | [] => XOk a s
  | c :: r =>
      if N.eqb c 42 then after_quant (RStar a) r
      else if N.eqb c 43 then after_quant (RPlus a) r
      else if N.eqb c 63 then after_quant (ROpt a) r
      else if N.eqb c 123 then
        match take_num r 0 false with
        | (Some lo, d :: r2) =>
            if N.eqb d 125 then after_quant (RRep a lo (Some lo)) r2
            else if N.eqb d 44 then
              match take_num r2 0 false with
              | (Some hi, e :: r3) =>
                  if N.eqb e 125 then (if Nat.leb lo hi then after_quant (RRep a lo (Some hi)) r3 else XBad) else XBad
              | (None, e :: r3) => if N.eqb e 125 then after_quant (RRep a lo None) r3 else XBad
              | _ => XBad
              end
            else XBad
        | _ => XBad
        end
      else XOk a s
  end.

Definition is_anchor (r : re) : bool := match r with RBegin | REnd => true | _ => false end.

(* alt := cat ('|' cat)* ; cat := piece* ; both stop at ')' and at the end of the input *)
Fixpoint p_alt (fuel : nat) (s : str) : rp re :=
  match fuel with
  | O => XUns
  | S f =>
      match p_cat f s with
      | XOk a (c :: r) =>
          if N.eqb c 124 then
            match p_alt f r with
            | XOk b r2 => XOk (RAlt a b) r2
            | e => e
            end
          else XOk a (c :: r)
      | x => x
      end
  end
with p_cat (fuel : nat) (s : str) : rp re :=
  match fuel with
  | O => XUns
  | S f =>
      match s with
      | [] => XOk REps s
      | c :: _ =>
          if N.eqb c 41 || N.eqb c 124 then XOk REps s
          else
            match p_atom f s with
            | XOk a r =>
                match (if is_anchor a then XOk a r else p_quant a r) with
                | XOk q r2 =>
                    match p_cat f r2 with
                    | XOk REps r3 => XOk q r3
                    | XOk rest r3 => XOk (RCat q rest) r3
                    | e => e
                    end
                | e => e
                end
            | e => e
            end
      end
  end
with p_atom (fuel : nat) (s : str) : rp re :=
  match fuel with
  | O => XUns
  | S f =>
      match s with
      | [] => XBad
      | c :: r =>
          if N.eqb c 40 then
            (* ( ... ) or (?: ... ) ; other (? forms are not modelled *)
            let group := fun body : str =>
              match p_alt f body with
              | XOk a (d :: r2) => if N.eqb d 41 then XOk a r2 else XBad
              | XOk _ [] => XBad
              | e => e
              end in
            match r with
            | c2 :: r' =>
                if N.eqb c2 63 then
                  match r' with
                  | c3 :: r'' => if N.eqb c3 58 then group r'' else XUns
                  | [] => XUns
                  end
                else group r
            | [] => group r
            end
          else if N.eqb c 91 then
            match r with
            | c2 :: r' =>
                if N.eqb c2 94 then
                  match class_items (S (length r')) r' [] with XOk rs r2 => XOk (RClass true rs) r2 | XBad => XBad | XUns => XUns end
                else
                  match class_items (S (length r)) r [] with XOk rs r2 => XOk (RClass false rs) r2 | XBad => XBad | XUns => XUns end
            | [] => XBad
            end
          else if N.eqb c 46 then XOk (RAny false) r
          else if N.eqb c 94 then XOk RBegin r
          else if N.eqb c 36 then XOk REnd r
          else if N.eqb c 92 then
            match r with
            | e :: r2 => match esc_char e with Some x => XOk (RChar x) r2 | None => XUns end
            | [] => XBad
            end
          else if N.eqb c 42 || N.eqb c 43 || N.eqb c 63 then XBad              (* nothing to repeat *)
          else if N.eqb c 123 || N.eqb c 125 || N.eqb c 93 then XUns             (* literal braces / bracket: not modelled *)
          else XOk (RChar c) r
      end
  end.

Definition parse_fuel (s : str) : nat := 3 * length s + 4.
Definition re_parse (p : str) : pres :=
  match p_alt (parse_fuel p) p with
  | XOk r [] => PValid r
  | XOk _ (_ :: _) => PInvalid          (* stopped at an unmatched ')' *)
  | XBad => PInvalid
  | XUns => PUnsupported
  end.

(* ---------- semantics: sets of end positions ---------- *)
Fixpoint in_ranges (c : N) (rs : list (N * N)) : bool :=
  match rs with [] => false | (lo, hi) :: r => (N.leb lo c && N.leb c hi) || in_ranges c r end.

Fixpoint nodup_nat (l : list nat) : list nat :=
  match l with [] => [] | x :: r => if existsb (Nat.eqb x) r then nodup_nat r else x :: nodup_nat r end.

Section Ends.
  Variable s : str.
  Definition char_at (i : nat) : option N := nth_error s i.

  (* all positions reachable from [i] by zero or more applications of [f] (at most [fuel] rounds) *)
  Fixpoint closure (f : nat -> list nat) (fuel : nat) (frontier seen : list nat) : list nat :=
    match fuel with
    | O => seen
    | S k =>
        let next := nodup_nat (List.filter (fun j => negb (existsb (Nat.eqb j) seen)) (flat_map f frontier)) in
        match next with
        | [] => seen
        | _ => closure f k next (seen ++ next)
        end
    end.

  Fixpoint iter_ends (f : nat -> list nat) (n : nat) (from : list nat) : list nat :=
    match n with O => from | S k => iter_ends f k (nodup_nat (flat_map f from)) end.

  Fixpoint ends (r : re) (i : nat) : list nat :=
    match r with
    | RChar c => match char_at i with Some d => if N.eqb c d then [S i] else [] | None => [] end
    | RAny cr => match char_at i with
                 | Some d => if N.eqb d 10 || (cr && N.eqb d 13) then [] else [S i]
                 | None => []
                 end
    | RClass neg rs => match char_at i with
                       | Some d => if xorb neg (in_ranges d rs) then [S i] else []
                       | None => []
                       end
    | REps => [i]
    | RCat a b => nodup_nat (flat_map (ends b) (ends a i))
    | RAlt a b => nodup_nat (ends a i ++ ends b i)
    | RStar a => closure (ends a) (S (length s)) [i] [i]
    | RPlus a => let first := nodup_nat (ends a i) in closure (ends a) (S (length s)) first first
    | ROpt a => nodup_nat (i :: ends a i)
    | RRep a lo hi =>
        let base := iter_ends (ends a) lo [i] in
        match hi with
        | None => closure (ends a) (S (length s)) base base
        | Some h =>
            (fix more (k : nat) (cur acc : list nat) : list nat :=
               match k with
               | O => acc
               | S k' => let nxt := nodup_nat (flat_map (ends a) cur) in more k' nxt (nodup_nat (acc ++ nxt))
               end) (Nat.sub h lo) base base
        end
    | RBegin => if Nat.eqb i 0 then [i] else []
    | REnd => if Nat.eqb i (length s) then [i] else []
    end.

  (* Regex::find(s).is_some() / is_match: some substring matches *)
  Definition search (r : re) : bool :=
    existsb (fun i => match ends r i with [] => false | _ => true end) (seq 0 (S (length s))).
  (* the entire string matches *)
  Definition full (r : re) : bool := existsb (Nat.eqb (length s)) (ends r 0).
End Ends.

(* the I-Regexp reading of '.' excludes CR as well as LF (RFC 9485 section 5.3) *)
Fixpoint dot_cr (r : re) : re :=
  match r with
  | RAny _ => RAny true
  | RCat a b => RCat (dot_cr a) (dot_cr b)
  | RAlt a b => RAlt (dot_cr a) (dot_cr b)
  | RStar a => RStar (dot_cr a)
  | RPlus a => RPlus (dot_cr a)
  | ROpt a => ROpt (dot_cr a)
  | RRep a lo hi => RRep (dot_cr a) lo hi
  | x => x
  end.

(* ---------- the two sides ---------- *)
(* model of the crate: Regex::new(pattern).map(|re| re.find(subject).is_some()) *)
Definition rx_model_search (pat subject : str) : option bool :=
  match re_parse pat with
  | PValid r => Some (search subject r)
  | PInvalid => None
  | PUnsupported => None
  end.
(* specification (RFC 9535 2.4.6 / 2.4.7): false unless the pattern is a valid regular expression
   of the dialect; match = the entire string, search = some substring.  The dialect's '.' is the
   one of the `regex` crate (every character but LF); RFC 9485 also excludes CR: where that makes
   a difference is the known class D25 ([rx_strict_*] below give the RFC 9485 reading). *)
Definition rx_spec_full (pat subject : str) : bool :=
  match re_parse pat with PValid r => full subject r | _ => false end.
Definition rx_spec_sub (pat subject : str) : bool :=
  match re_parse pat with PValid r => search subject r | _ => false end.
Definition rx_strict_full (pat subject : str) : bool :=
  match re_parse pat with PValid r => full subject (dot_cr r) | _ => false end.
Definition rx_strict_sub (pat subject : str) : bool :=
  match re_parse pat with PValid r => search subject (dot_cr r) | _ => false end.
(* is the pattern inside the modelled dialect? (the checks skip the others) *)
Definition rx_supported (pat : str) : bool :=
  match re_parse pat with PUnsupported => false | _ => true end.
