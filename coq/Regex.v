(* Regex.v — placeholder until the regex model lands: every pattern is "unsupported". *)
From Coq Require Import List NArith.
From JP Require Import Base.
Definition rx_model_search (pat subject : str) : option bool := None.
Definition rx_spec_full (pat subject : str) : bool := false.
Definition rx_spec_sub (pat subject : str) : bool := false.
