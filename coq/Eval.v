(* Eval.v — hand model of the evaluator (src/query/*.rs), function by function, generic over an
   abstract [Queryable] interface (record [qops]).  Nothing here is "what the code should do":
   the four-way [Data] enum, [reduce]'s catch-all, [flat_map] returning [f data] directly on [Ref],
   empty-path ("internal") pointers, string-formatted paths are all kept.
   Ghost component: a pointer also carries the location [ploc] of its node (the Rust pointer is a
   borrow, whose address the harness turns into a location); it never influences a result. *)
From Coq Require Import List NArith ZArith Bool.
From JP Require Import Base Ast.
Import ListNotations.
Open Scope Z_scope.

(* characters *)
Definition c_quote : N := 39%N.    (* ' *)
Definition c_dquote : N := 34%N.   (* double quote *)
Definition c_bslash : N := 92%N.   (* \ *)
Definition c_slash : N := 47%N.
Definition c_lbr : N := 91%N.
Definition c_rbr : N := 93%N.
Definition c_dollar : N := 36%N.

Section Eval.
  Variable T : Type.

  (* trait Queryable and its supertraits (From<..>, PartialEq), as the evaluator uses them *)
  Record qops := {
    q_get : T -> str -> option (str * T);       (* get(key): the member found, with its real name (ghost) *)
    q_as_array : T -> option (list T);
    q_as_object : T -> option (list (str * T));
    q_as_str : T -> option str;
    q_as_i64 : T -> option Z;
    q_as_f64 : T -> option dy;
    q_as_bool : T -> option bool;
    q_null : T;
    q_of_i64 : Z -> T;
    q_of_f64 : dy -> T;
    q_of_bool : bool -> T;
    q_of_str : str -> T;
    q_eqb : T -> T -> bool;                      (* PartialEq *)
    q_custom : str -> list T -> T;               (* extension_custom *)
    q_size : T -> nat                            (* ghost: bounds the nesting depth (fuel) *)
  }.
  Variable Q : qops.
  (* regex::Regex::new(pattern).map(|r| r.find(subject).is_some()): None = pattern rejected *)
  Variable rx_search : str -> str -> option bool.

  Record ptr := { inner : T; path : str; ploc : loc }.

  Inductive data :=
  | DRef (p : ptr)
  | DRefs (l : list ptr)
  | DVal (v : T)
  | DNothing.

  (* state.rs *)
  Definition ptr_key (v : T) (pth : str) (l : loc) (key ghost : str) : ptr :=
    let pth' :=
      if starts_with [c_quote] key && ends_with [c_quote] key
      then pth ++ [c_lbr] ++ key ++ [c_rbr]
      else pth ++ [c_lbr; c_quote] ++ key ++ [c_quote; c_rbr] in
    {| inner := v; path := pth'; ploc := l ++ [SName ghost] |}.
  Definition ptr_idx (v : T) (pth : str) (l : loc) (i : nat) : ptr :=
    {| inner := v; path := pth ++ [c_lbr] ++ dec_of_nat i ++ [c_rbr]; ploc := l ++ [SIdx i] |}.
  (* Pointer::empty: the "internal" pointer a filter puts around the node under test.
     The ghost location restarts at [] : locations under it are relative and never reported. *)
  Definition ptr_empty (v : T) : ptr := {| inner := v; path := []; ploc := [] |}.
  Definition is_internal (p : ptr) : bool := match path p with [] => true | _ => false end.
  Definition root_ptr (root : T) : ptr := {| inner := root; path := [c_dollar]; ploc := [] |}.

  Definition reduce (a b : data) : data :=
    match a, b with
    | DRef x, DRef y => DRefs [x; y]
    | DRef x, DRefs l => DRefs (x :: l)
    | DRefs l, DRef y => DRefs (l ++ [y])
    | DRefs l, DRefs l2 => DRefs (l ++ l2)
    | DRef x, DNothing => DRef x
    | DRefs l, DNothing => DRefs l
    | DNothing, DRef y => DRef y
    | DNothing, DRefs l => DRefs l
    | _, _ => DNothing
    end.

  Definition refs_of (d : data) : list ptr :=
    match d with DRef p => [p] | DRefs l => l | _ => [] end.

  Definition flat_map_data (f : ptr -> data) (d : data) : data :=
    match d with
    | DRef p => f p
    | DRefs l => DRefs (flat_map (fun p => refs_of (f p)) l)
    | _ => DNothing
    end.

  Definition ok_val (d : data) : option T := match d with DVal v => Some v | _ => None end.
  (* .ok_val().and_then(|v| v.as_bool()).unwrap_or_default() *)
  Definition val_bool (d : data) : bool :=
    match ok_val d with
    | Some v => match q_as_bool Q v with Some b => b | None => false end
    | None => false
    end.
  Definition d_bool (b : bool) : data := DVal (q_of_bool Q b).
  Definition d_i64 (z : Z) : data := DVal (q_of_i64 Q z).
  Definition len_z {A} (l : list A) : Z := Z.of_nat (length l).

  (* selector.rs *)
  Definition process_wildcard (p : ptr) : data :=
    match q_as_array Q (inner p) with
    | Some arr =>
        match arr with
        | [] => DNothing
        | _ => DRefs (map (fun '(i, e) => ptr_idx e (path p) (ploc p) i) (enum_from 0 arr))
        end
    | None =>
        match q_as_object Q (inner p) with
        | Some obj =>
            match obj with
            | [] => DNothing
            | _ => DRefs (map (fun '(k, v) => ptr_key v (path p) (ploc p) k k) obj)
            end
        | None => DNothing
        end
    end.

  Fixpoint up_loop (fuel : nat) (idx upper e : Z) : list Z :=
    match fuel with
    | O => []
    | S f => if Z.ltb idx upper then idx :: up_loop f (idx + e) upper e else []
    end.
  Fixpoint down_loop (fuel : nat) (idx lower e : Z) : list Z :=
    match fuel with
    | O => []
    | S f => if Z.ltb lower idx then idx :: down_loop f (idx + e) lower e else []
    end.

  Definition opt_or {A} (o : option A) (d : A) : A := match o with Some x => x | None => d end.

  (* the index sequence of process_slice's extract_elems, before [elements.get(i)] *)
  Definition slice_indices (len : Z) (start end_ step : option Z) : list Z :=
    let norm := fun i : Z => if Z.leb 0 i then i else len + i in
    let e := opt_or step 1 in
    if Z.ltb 0 e then
      let n_start := norm (opt_or start 0) in
      let n_end := norm (opt_or end_ len) in
      let lower := Z.min (Z.max n_start 0) len in
      let upper := Z.min (Z.max n_end 0) len in
      up_loop (S (Z.to_nat len)) lower upper e
    else if Z.ltb e 0 then
      let n_start := norm (opt_or start (len - 1)) in
      let n_end := norm (opt_or end_ (- len - 1)) in
      let lower := Z.min (Z.max n_end (-1)) (len - 1) in
      let upper := Z.min (Z.max n_start (-1)) (len - 1) in
      down_loop (S (Z.to_nat len)) upper lower e
    else [].

  (* [elements.get(idx as usize)]: a negative idx wraps to a huge usize, hence None *)
  Definition get_z {A} (l : list A) (i : Z) : option (nat * A) :=
    if Z.ltb i 0 then None
    else match nth_error l (Z.to_nat i) with Some x => Some (Z.to_nat i, x) | None => None end.

  Fixpoint filter_some {A} (l : list (option A)) : list A :=
    match l with
    | [] => []
    | Some x :: l' => x :: filter_some l'
    | None :: l' => filter_some l'
    end.

  Definition process_slice (p : ptr) (start end_ step : option Z) : data :=
    match q_as_array Q (inner p) with
    | Some arr =>
        let idxs := slice_indices (len_z arr) start end_ step in
        DRefs (map (fun '(i, e) => ptr_idx e (path p) (ploc p) i)
                 (filter_some (map (get_z arr) idxs)))
    | None => DNothing
    end.

  (* normalize_json_key: only \\ and \/ are decoded, every other escape is kept as written *)
  Fixpoint normalize_json_key (s : str) : str :=
    match s with
    | [] => []
    | c :: s' =>
        if N.eqb c c_bslash then
          match s' with
          | [] => [c_bslash]
          | n :: s'' =>
              if N.eqb n c_bslash then c_bslash :: normalize_json_key s''
              else if N.eqb n c_slash then c_slash :: normalize_json_key s''
              else if N.eqb n c_quote || N.eqb n c_dquote
                      || N.eqb n 98 || N.eqb n 102 || N.eqb n 110 || N.eqb n 114
                      || N.eqb n 116 || N.eqb n 117
              then c_bslash :: n :: normalize_json_key s''
              else c_bslash :: normalize_json_key s'
          end
        else c :: normalize_json_key s'
    end.

  Definition process_key (p : ptr) (key : str) : data :=
    match q_get Q (inner p) (normalize_json_key key) with
    | Some (k, v) => DRef (ptr_key v (path p) (ploc p) key k)
    | None => DNothing
    end.

  Definition process_index (p : ptr) (idx : Z) : data :=
    match q_as_array Q (inner p) with
    | Some arr =>
        if Z.leb 0 idx then
          if Z.leb (len_z arr) idx then DNothing
          else match get_z arr idx with
               | Some (i, e) => DRef (ptr_idx e (path p) (ploc p) i)
               | None => DNothing   (* array[i] would panic: unreachable, see C08 *)
               end
        else
          let abs_idx := Z.abs idx in
          if Z.ltb (len_z arr) abs_idx then DNothing
          else match get_z arr (len_z arr - abs_idx) with
               | Some (i, e) => DRef (ptr_idx e (path p) (ploc p) i)
               | None => DNothing
               end
    | None => DNothing
    end.

  (* segment.rs: process_descendant.  Recursion through as_array/as_object of an abstract T
     is not structural, so it runs on fuel; [q_size] supplies enough (see EvalFacts). *)
  Fixpoint process_descendant (fuel : nat) (p : ptr) : data :=
    match fuel with
    | O => DNothing
    | S f =>
        match q_as_array Q (inner p) with
        | Some arr =>
            reduce (DRef p)
              (flat_map_data (process_descendant f)
                 (DRefs (map (fun '(i, e) => ptr_idx e (path p) (ploc p) i) (enum_from 0 arr))))
        | None =>
            match q_as_object Q (inner p) with
            | Some obj =>
                reduce (DRef p)
                  (flat_map_data (process_descendant f)
                     (DRefs (map (fun '(k, v) => ptr_key v (path p) (ploc p) k k) obj)))
            | None => DNothing
            end
        end
    end.
  Definition descend (p : ptr) : data := process_descendant (S (q_size Q (inner p))) p.

  (* comparable.rs *)
  Definition e_literal (l : literal) : data :=
    DVal (match l with
          | LInt z => q_of_i64 Q z
          | LFloat d => q_of_f64 Q d
          | LStr s => q_of_str Q s
          | LBool b => q_of_bool Q b
          | LNull => q_null Q
          end).

  Definition e_sqseg (s : sqseg) (d : data) : data :=
    match s with
    | SqIndex i => flat_map_data (fun p => process_index p i) d
    | SqName k => flat_map_data (fun p => process_key p k) d
    end.
  Definition e_squery (root : T) (q : squery) (d : data) : data :=
    match q with
    | SqCur l => fold_left (fun acc s => e_sqseg s acc) l d
    | SqRoot l => fold_left (fun acc s => e_sqseg s acc) l (DRef (root_ptr root))
    end.

  (* comparison.rs *)
  Definition num_of (v : T) : option dy :=
    match q_as_f64 Q v with
    | Some d => Some d
    | None => match q_as_i64 Q v with Some z => Some (round53 z) | None => None end
    end.

  Definition cmp_lt (a b : T) : bool :=
    match num_of a, num_of b with
    | Some x, Some y => dy_ltb x y
    | _, _ =>
        match q_as_str Q a, q_as_str Q b with
        | Some x, Some y => str_ltb x y
        | _, _ => false
        end
    end.

  Definition lt_data (l r : data) : bool :=
    match l, r with
    | DVal a, DVal b => cmp_lt a b
    | DVal a, DRef p => cmp_lt a (inner p)
    | DRef p, DVal b => cmp_lt (inner p) b
    | DRef p, DRef q => cmp_lt (inner p) (inner q)
    | _, _ => false
    end.

  Fixpoint all2 {A B} (f : A -> B -> bool) (l : list A) (m : list B) : bool :=
    match l, m with
    | x :: l', y :: m' => f x y && all2 f l' m'
    | _, _ => true           (* zip stops at the shorter list; lengths are compared separately *)
    end.

  Fixpoint eq_json (fuel : nat) (a b : T) : bool :=
    match fuel with
    | O => false
    | S f =>
        match num_of a, num_of b with
        | Some x, Some y => dy_eqb x y
        | _, _ =>
            match q_as_array Q a, q_as_array Q b with
            | Some la, Some lb =>
                Nat.eqb (length la) (length lb) && all2 (eq_json f) la lb
            | _, _ =>
                match q_as_object Q a, q_as_object Q b with
                | Some ma, Some mb =>
                    Nat.eqb (length ma) (length mb)
                    && forallb (fun '(k, x) =>
                                  existsb (fun '(k2, y) => str_eqb k k2 && eq_json f x y) mb) ma
                | _, _ => q_eqb Q a b
                end
            end
        end
    end.
  Definition eq_val (a b : T) : bool := eq_json (S (q_size Q a)) a b.

  Definition ptr_eqb (p q : ptr) : bool := q_eqb Q (inner p) (inner q) && str_eqb (path p) (path q).
  Definition eq_arrays (l : list T) (r : list T) : bool :=
    Nat.eqb (length l) (length r) && all2 eq_val l r.

  Definition eq_data (l r : data) : bool :=
    match l, r with
    | DVal a, DVal b => eq_val a b
    | DVal a, DRef p => eq_val a (inner p)
    | DRef p, DVal b => eq_val b (inner p)
    | DRef p, DRef q => eq_val (inner p) (inner q)
    | DRefs l1, DRefs l2 => Nat.eqb (length l1) (length l2) && all2 ptr_eqb l1 l2
    | DRef p, DRefs l2 =>
        match q_as_array Q (inner p) with
        | Some arr => eq_arrays arr (map inner l2)
        | None => false
        end
    | DNothing, DNothing => true
    | _, _ => false
    end.

  Definition compare_data (op : cmpop) (l r : data) : bool :=
    match op with
    | OpEq => eq_data l r
    | OpNe => negb (eq_data l r)
    | OpGt => lt_data r l
    | OpGe => lt_data r l || eq_data l r
    | OpLt => lt_data l r
    | OpLe => lt_data l r || eq_data l r
    end.

  (* test_function.rs *)
  Definition fn_length (d : data) : data :=
    let from_item := fun v : T =>
      match q_as_str Q v with
      | Some s => d_i64 (len_z s)
      | None =>
          match q_as_array Q v with
          | Some l => d_i64 (len_z l)
          | None =>
              match q_as_object Q v with
              | Some m => d_i64 (len_z m)
              | None => DNothing
              end
          end
      end in
    match d with
    | DRef p => from_item (inner p)
    | DRefs l => d_i64 (len_z l)
    | DVal v => from_item v
    | DNothing => DNothing
    end.

  Definition fn_count (d : data) : data :=
    match d with
    | DRef _ | DVal _ => d_i64 1
    | DRefs l => d_i64 (len_z l)
    | DNothing => d_i64 0
    end.

  Definition fn_value (d : data) : data :=
    match d with
    | DRef _ | DVal _ => d
    | DRefs [p] => DRef p
    | _ => DNothing
    end.

  Fixpoint replace_2bs (s : str) : str :=      (* pattern.replace("\\\\", "\\") *)
    match s with
    | [] => []
    | c :: s' =>
        match s' with
        | c2 :: s'' =>
            if N.eqb c c_bslash && N.eqb c2 c_bslash then c_bslash :: replace_2bs s''
            else c :: replace_2bs s'
        | [] => [c]
        end
    end.
  Definition prepare_regex (pattern : str) (substring : bool) : str :=
    let p := if substring then pattern
             else [94; 40; 63; 58]%N ++ pattern ++ [41; 36]%N in   (* ^(?: ... )$ *)
    replace_2bs p.

  Definition data_str (d : data) : option str :=
    match d with
    | DVal v => q_as_str Q v
    | DRef p => q_as_str Q (inner p)
    | _ => None
    end.
  (* Regex::new(&prepare_regex(p, true)).and_then(|_| Regex::new(&prepare_regex(p, substr)))
     .map(|re| re.find(subject).is_some()).unwrap_or(false) : the pattern must be a regular
     expression by itself, not only once wrapped for anchoring *)
  Definition regex_result (pat subject : str) (substr : bool) : bool :=
    match rx_search (prepare_regex pat true) subject with
    | None => false
    | Some _ =>
        match rx_search (prepare_regex pat substr) subject with
        | Some b => b
        | None => false
        end
    end.
  Definition fn_regex (l r : data) (substr : bool) : data :=
    match data_str l, data_str r with
    | Some subject, Some pat => d_bool (regex_result pat subject substr)
    | _, _ => d_bool false
    end.

  Definition custom_args (ds : list data) : list T :=
    flat_map (fun d => match d with
                       | DVal v => [v]
                       | DRef p => [inner p]
                       | DRefs l => map inner l
                       | DNothing => []
                       end) ds.

  (* filter.rs, given process_elem of the filter as a function [elem] *)
  Definition filter_item_of (elem : data -> data) (v : T) : bool :=
    val_bool (elem (DRef (ptr_empty v))).
  Definition children_of (elem : data -> data) (p : ptr) : data :=
    match q_as_array Q (inner p) with
    | Some arr =>
        DRefs (map (fun '(i, e) => ptr_idx e (path p) (ploc p) i)
                 (List.filter (fun '(i, e) => filter_item_of elem e) (enum_from 0 arr)))
    | None =>
        match q_as_object Q (inner p) with
        | Some obj =>
            DRefs (map (fun '(k, v) => ptr_key v (path p) (ploc p) k k)
                     (List.filter (fun '(k, v) => filter_item_of elem v) obj))
        | None => DNothing
        end
    end.
  (* impl Query for Filter :: process — the condition entry *)
  Definition fproc (elem : data -> data) (d : data) : data :=
    flat_map_data (fun p =>
      if is_internal p then DVal (q_of_bool Q (val_bool (elem (DRef p))))
      else children_of elem p) d.
  (* Filter::select — the filter selector *)
  Definition fselect (elem : data -> data) (d : data) : data :=
    flat_map_data (children_of elem) d.

  Definition invert_bool (d : data) : data := d_bool (negb (val_bool d)).

  Definition is_res_bool (t : test) : bool :=
    match t with
    | TFn (FnCustom _ _) | TFn (FnSearch _ _) | TFn (FnMatch _ _) => true
    | _ => false
    end.

  Section WithRoot.
    Variable root : T.

    Fixpoint e_segment (s : segment) (d : data) : data :=
      match s with
      | SegDesc s' => e_segment s' (flat_map_data descend d)
      | SegSel sel => e_selector sel d
      | SegSels l =>
          (* selectors.map(|s| s.process(step.clone())).reduce(State::reduce)
             .unwrap_or(step.root.into()) *)
          match l with
          | SNil => DRef (root_ptr root)
          | SCons s0 l' => e_selectors l' d (e_selector s0 d)
          end
      end
    with e_selector (s : selector) (d : data) : data :=
      match s with
      | SelName k => flat_map_data (fun p => process_key p k) d
      | SelIndex i => flat_map_data (fun p => process_index p i) d
      | SelWild => flat_map_data process_wildcard d
      | SelSlice a b c => flat_map_data (fun p => process_slice p a b c) d
      | SelFilter f => fselect (e_felem f) d
      end
    (* the fold of [reduce] over the remaining selectors, [acc] being the reduction so far *)
    with e_selectors (l : selectors) (d acc : data) : data :=
      match l with
      | SNil => acc
      | SCons s l' => e_selectors l' d (reduce acc (e_selector s d))
      end
    with e_segments (l : segments) (d : data) : data :=
      match l with
      | GNil => d
      | GCons s l' => e_segments l' (e_segment s d)
      end
    (* Filter::process_elem *)
    with e_felem (f : filter) (d : data) : data :=
      match f with
      | FOr l => d_bool (e_any l d)
      | FAnd l => d_bool (e_all l d)
      | FAtom a => e_atom a d
      end
    with e_any (l : filters) (d : data) : bool :=
      match l with
      | FNil => false
      | FCons f l' => val_bool (fproc (e_felem f) d) || e_any l' d
      end
    with e_all (l : filters) (d : data) : bool :=
      match l with
      | FNil => true
      | FCons f l' => val_bool (fproc (e_felem f) d) && e_all l' d
      end
    with e_atom (a : atom) (d : data) : data :=
      match a with
      | AFilter f neg =>
          let r := fproc (e_felem f) d in
          if neg then invert_bool r else r
      | ATest t neg =>
          let res := e_test t d in
          if is_res_bool t then (if neg then invert_bool res else res)
          else
            let present := match res with
                           | DRef _ => true
                           | DRefs [] => false
                           | DRefs _ => true
                           | _ => false
                           end in
            if present then d_bool (negb neg) else d_bool neg
      | ACmp op l r => d_bool (compare_data op (e_comparable l d) (e_comparable r d))
      end
    with e_comparable (c : comparable) (d : data) : data :=
      match c with
      | CLit l => e_literal l
      | CFn f => e_tfun f d
      | CSq q => e_squery root q d
      end
    with e_test (t : test) (d : data) : data :=
      match t with
      | TRel l => e_segments l d
      | TAbs l => e_segments l (DRef (root_ptr root))
      | TFn f => e_tfun f d
      end
    with e_tfun (f : tfun) (d : data) : data :=
      match f with
      | FnLength a => fn_length (e_fnarg a d)
      | FnCount a => fn_count (e_fnarg a d)
      | FnMatch a b => fn_regex (e_fnarg a d) (e_fnarg b d) false
      | FnSearch a b => fn_regex (e_fnarg a d) (e_fnarg b d) true
      | FnCustom name args => DVal (q_custom Q name (custom_args (e_fnargs args d)))
      | FnValue a => fn_value (e_fnarg a d)
      end
    with e_fnarg (a : fnarg) (d : data) : data :=
      match a with
      | ArgLit l => e_literal l
      | ArgTest t => e_test t d
      | ArgFilter f => fproc (e_felem f) d
      end
    with e_fnargs (l : fnargs) (d : data) : list data :=
      match l with
      | ANil => []
      | ACons a l' => e_fnarg a d :: e_fnargs l' d
      end.
  End WithRoot.

  (* query.rs: js_path_process.  None = Err (the only Err arm is Data::Value). *)
  Definition js_path_process (q : query) (root : T) : option (list ptr) :=
    match e_segments root q (DRef (root_ptr root)) with
    | DRef p => Some [p]
    | DRefs l => Some l
    | DVal _ => None
    | DNothing => Some []
    end.
End Eval.

Arguments q_get {T}. Arguments q_as_array {T}. Arguments q_as_object {T}. Arguments q_as_str {T}.
Arguments q_as_i64 {T}. Arguments q_as_f64 {T}. Arguments q_as_bool {T}. Arguments q_null {T}.
Arguments q_of_i64 {T}. Arguments q_of_f64 {T}. Arguments q_of_bool {T}. Arguments q_of_str {T}.
Arguments q_eqb {T}. Arguments q_custom {T}. Arguments q_size {T}.
Arguments inner {T}. Arguments path {T}. Arguments ploc {T}. Arguments Build_ptr {T}.
Arguments DRef {T}. Arguments DRefs {T}. Arguments DVal {T}. Arguments DNothing {T}.
Arguments ptr_key {T}. Arguments ptr_idx {T}. Arguments ptr_empty {T}. Arguments is_internal {T}.
Arguments root_ptr {T}. Arguments reduce {T}. Arguments refs_of {T}. Arguments flat_map_data {T}.
Arguments ok_val {T}. Arguments val_bool {T}. Arguments d_bool {T}. Arguments d_i64 {T}.
Arguments process_wildcard {T}. Arguments get_z {A}. Arguments filter_some {A}.
Arguments process_slice {T}. Arguments process_key {T}. Arguments process_index {T}.
Arguments process_descendant {T}. Arguments descend {T}. Arguments e_literal {T}.
Arguments e_sqseg {T}. Arguments e_squery {T}. Arguments num_of {T}. Arguments cmp_lt {T}.
Arguments lt_data {T}. Arguments eq_json {T}. Arguments eq_val {T}. Arguments ptr_eqb {T}.
Arguments eq_arrays {T}. Arguments eq_data {T}. Arguments compare_data {T}.
Arguments fn_length {T}. Arguments fn_count {T}. Arguments fn_value {T}. Arguments data_str {T}.
Arguments fn_regex {T}. Arguments custom_args {T}. Arguments filter_item_of {T}.
Arguments children_of {T}. Arguments fproc {T}. Arguments fselect {T}. Arguments invert_bool {T}.
Arguments e_segment {T}. Arguments e_selector {T}. Arguments e_selectors {T}.
Arguments e_segments {T}. Arguments e_felem {T}. Arguments e_any {T}. Arguments e_all {T}.
Arguments e_atom {T}. Arguments e_comparable {T}. Arguments e_test {T}. Arguments e_tfun {T}.
Arguments e_fnarg {T}. Arguments e_fnargs {T}. Arguments js_path_process {T}.
