(* StringLevel.v — the string-level statements of C03, C06 and C09: NpBuild.parse_np (the parser
   reads the text np l as the AST np_query l) composed with the AST-level theorems. *)
From Coq Require Import List Arith NArith ZArith Bool Lia.
From JP Require Import Base Ast Eval ValueModel Spec NormPath Known WellFormed Regex Entry
  Build Reference Requery NpParse NpBuild PathFacts.
Import ListNotations.

Lemma plain_steps_loc_plain l : Forall plain_step l -> loc_plain l = true.
Proof.
  induction l as [|s l IH]; intros H; [reflexivity|].
  pose proof (Forall_inv H) as Hs. pose proof (Forall_inv_tail H) as Hl.
  cbn [loc_plain forallb]. fold (loc_plain l). rewrite (IH Hl), andb_true_r.
  destruct s as [k|i]; [|reflexivity]. cbn [plain_step] in Hs. unfold docname_plain.
  rewrite forallb_forall in *. intros c Hc. apply plain_char_doc. apply Hs. exact Hc.
Qed.

(* C09 at string level: reference(np l) is the node at l, or None when there is none *)
Theorem reference_np_string (d : json) (l : loc) :
  Forall plain_step l -> Forall step_in_range l ->
  m_reference (np l) d = match lookup d l with Some v => Some (l, v) | None => None end.
Proof.
  intros Hp Hr. unfold m_reference. rewrite (parse_np l Hp Hr).
  apply reference_np. apply plain_steps_loc_plain. exact Hp.
Qed.

(* C03 at string level: the reported path, parsed and run again, returns exactly the reported node *)
Theorem requery_string (q : query) (d : json) ps p :
  wf_query q = true -> segs_path_ok q = true -> doc_plain d = true -> wf_json d = true ->
  m_query q d = Some ps -> In p ps ->
  Forall plain_step (ploc p) -> Forall step_in_range (ploc p) ->
  exists q', parse_query (path p) = POk q' /\ m_query q' d = Some [p].
Proof.
  intros Hq Hpo Hd Hw Hm Hin Hp Hr. exists (np_query (ploc p)). split.
  - pose proof (paths_are_normalized rx_model_search d q ps Hpo Hd Hm) as Hn.
    rewrite Forall_forall in Hn. rewrite (Hn p Hin). apply parse_np; assumption.
  - apply (requery_reported q d ps p); assumption.
Qed.

(* ---------- the filter-free sublanguage, end to end at string level ---------- *)
From JP Require Import FragParse FragBuild Purity Refine Order SpecFacts RegexFacts DataFacts SelFacts.
From Coq Require Import Permutation.

Lemma name_char_plain c : name_char_b c = true ->
  (N.leb 32 c && negb (N.eqb c 39) && negb (N.eqb c 34) && negb (N.eqb c 92))%bool = true.
Proof.
  unfold name_char_b. intros H. apply orb_true_iff in H.
  assert (Hc : (48 <= c /\ c <> 92)%N).
  { destruct H as [H|H]; [apply name_first_cases in H; lia|apply is_digit_bounds in H; lia]. }
  destruct (N.leb_spec 32 c); [|lia]. destruct (N.eqb_spec c 39); [lia|]. destruct (N.eqb_spec c 34); [lia|].
  destruct (N.eqb_spec c 92); [lia|]. reflexivity.
Qed.

Lemma shorthand_name_plain n : name_ok n -> name_plain n = true.
Proof.
  destruct n as [|c r]; [intros []|]. intros [Hc Hr].
  assert (Hall : forall x, In x (c :: r) ->
            (N.leb 32 x && negb (N.eqb x 39) && negb (N.eqb x 34) && negb (N.eqb x 92))%bool = true).
  { intros x [<-|Hx]; apply name_char_plain; [apply name_first_char; exact Hc|apply (forallb_In _ _ _ Hr Hx)]. }
  unfold name_plain, no_bslash, no_ctl.
  assert (H1 : forallb (fun x => negb (N.eqb x 92)) (c :: r) = true).
  { apply forallb_forall. intros x Hx. specialize (Hall x Hx). apply andb_true_iff in Hall. apply Hall. }
  assert (H2 : forallb (fun x => N.leb 32 x) (c :: r) = true).
  { apply forallb_forall. intros x Hx. specialize (Hall x Hx). apply andb_true_iff in Hall. destruct Hall as [Hall _].
    apply andb_true_iff in Hall. destruct Hall as [Hall _]. apply andb_true_iff in Hall. apply Hall. }
  assert (H3 : forallb (fun x => negb (N.eqb x 39) && negb (N.eqb x 34)) (c :: r) = true).
  { apply forallb_forall. intros x Hx. specialize (Hall x Hx). apply andb_true_iff in Hall. destruct Hall as [Hall _].
    apply andb_true_iff in Hall. destruct Hall as [Hall H34]. apply andb_true_iff in Hall. destruct Hall as [_ H39].
    rewrite H39, H34. reflexivity. }
  rewrite H1, H2. cbn [andb]. cbn [name_kind].
  pose proof (Hall c (or_introl eq_refl)) as Hcc. apply andb_true_iff in Hcc. destruct Hcc as [Hcc _].
  apply andb_true_iff in Hcc. destruct Hcc as [Hcc H34]. apply andb_true_iff in Hcc. destruct Hcc as [_ H39].
  apply negb_true_iff in H39. apply negb_true_iff in H34. rewrite H39, H34.
  change (N.eqb 0 1) with false. change (N.eqb 0 2) with false. cbv iota. exact H3.
Qed.

Lemma plain_chars_docname k : forallb plain_char k = true -> docname_plain k = true.
Proof.
  unfold docname_plain. rewrite !forallb_forall. intros H c Hc. apply plain_char_doc. apply H. exact Hc.
Qed.

Lemma sel_ast_ok s : sel_ok s -> ok_selector (sel_ast s) = true.
Proof.
  destruct s as [k| |i|a b c]; cbn [sel_ok sel_ast ok_selector]; intros H; try reflexivity.
  apply (npq_name_plain k). apply plain_chars_docname. exact H.
Qed.

Lemma sels_ast_ok l : Forall sel_ok l -> ok_selectors (selectors_of_list (map sel_ast l)) = true.
Proof.
  induction l as [|s l IH]; intros H; [reflexivity|]. unfold selectors_of_list in *. cbn [map fold_right].
  change (ok_selector (sel_ast s) && ok_selectors (fold_right SCons SNil (map sel_ast l)) = true).
  rewrite (sel_ast_ok s (Forall_inv H)), (IH (Forall_inv_tail H)). reflexivity.
Qed.

Lemma bracket_ast_ok s l : sel_ok s -> Forall sel_ok l -> ok_segment (bracket_ast s l) = true.
Proof.
  intros Hs Hl. unfold bracket_ast. destruct l as [|s2 l].
  - apply sel_ast_ok. exact Hs.
  - change (ok_selectors (selectors_of_list (map sel_ast (s :: s2 :: l))) = true). apply sels_ast_ok. constructor; assumption.
Qed.

Lemma seg_ast_ok g : seg_ok g -> ok_segment (seg_ast g) = true.
Proof.
  destruct g as [s l|n| |s l|n| ]; cbn [seg_ok seg_ast]; intros H; try reflexivity.
  - destruct H. apply bracket_ast_ok; assumption.
  - apply (shorthand_name_plain n H).
  - destruct H. apply (bracket_ast_ok s l); assumption.
  - apply (shorthand_name_plain n H).
Qed.

Lemma query_ast_wf q : Forall seg_ok q -> wf_query (query_ast q) = true.
Proof.
  unfold wf_query, query_ast. induction q as [|g q IH]; intros H; [reflexivity|]. cbn [map segments_of_list].
  change (ok_segment (seg_ast g) && ok_segments (segments_of_list (map seg_ast q)) = true).
  rewrite (seg_ast_ok g (Forall_inv H)), (IH (Forall_inv_tail H)). reflexivity.
Qed.

(* C01 at string level for the filter-free sublanguage: query_with_path on the canonical text of any
   such query returns exactly the RFC 9535 nodes (with multiplicity), each a node of the document *)
Theorem frag_end_to_end (q : list fseg) (d : json) :
  Forall seg_ok q -> Forall seg_range q -> wf_json d = true ->
  exists ps,
    api_with_path (36%N :: segs_text q) d = Some (map (fun p => (inner p, path p)) ps)
    /\ Permutation (map node_of ps) (rfc_query (query_ast q) d)
    /\ Forall (fun p => lookup d (ploc p) = Some (inner p)) ps.
Proof.
  intros Hok Hr Hw. unfold api_with_path. rewrite (parse_frag q Hok Hr).
  destruct (js_path_process_refines rx_model_search rx_spec_full rx_spec_sub rx_model_full_ok rx_model_sub_ok
              (query_ast q) d (query_ast_wf q Hok)) as [ps [E1 E2]].
  change (m_query (query_ast q) d = Some ps) in E1. exists ps. rewrite E1. split; [reflexivity|]. split.
  - rewrite E2. apply (sel_major_is_permutation rx_spec_full rx_spec_sub jeqb d (query_ast q)).
  - pose proof (query_nodes_located rx_spec_full rx_spec_sub jeqb true d (query_ast q) Hw) as Hloc.
    unfold cur_query, s_query in E2. rewrite <- E2 in Hloc. rewrite Forall_forall in *.
    intros p Hp. apply (Hloc (node_of p)). apply in_map. exact Hp.
Qed.

(* ---------- queries with filters, end to end at string level ---------- *)
From JP Require Import GenParse GenBuild FilterParse FilterBuild FilterFacts.

Lemma ok_filters_list l : ok_filters (filters_of_list l) = forallb ok_filter l.
Proof. induction l as [|x l IH]; [reflexivity|]. unfold filters_of_list in *. cbn [fold_right forallb]. rewrite <- IH. reflexivity. Qed.
Lemma ok_selectors_list l : ok_selectors (selectors_of_list l) = forallb ok_selector l.
Proof. induction l as [|x l IH]; [reflexivity|]. unfold selectors_of_list in *. cbn [fold_right forallb]. rewrite <- IH. reflexivity. Qed.
Lemma ok_segments_list l : ok_segments (segments_of_list l) = forallb ok_segment l.
Proof. induction l as [|x l IH]; [reflexivity|]. cbn [segments_of_list forallb]. rewrite <- IH. reflexivity. Qed.

Lemma plain_lit_plain k : forallb plain_char k = true -> lit_plain (LStr k) = true.
Proof.
  intros H. pose proof (plain_chars_docname k H) as Hd. destruct (docname_plain_parts k Hd) as [Hb [Hc Hq]].
  unfold lit_plain. rewrite Hb, Hc, Hq. reflexivity.
Qed.

Lemma sqs_ast_ok s : sqs_good s -> sqseg_ok name_plain (sqs_ast s) = true.
Proof.
  destruct s as [k|n|z]; cbn [sqs_good sqs_ast sqseg_ok]; intros H; [|apply shorthand_name_plain; exact H|reflexivity].
  apply (npq_name_plain k). apply plain_chars_docname. exact H.
Qed.

Lemma cmp_ast_ok c : xcmpb_good c -> ok_comparable (cmp_ast c) = true.
Proof.
  destruct c as [[z|k|b| ]|abs l]; cbn [xcmpb_good cmp_ast lit_ast xlit_good]; intros H; try reflexivity.
  - apply plain_lit_plain. exact H.
  - unfold xsq_ast. destruct abs; cbn [ok_comparable squery_ok]; apply forallb_forall; intros x Hx;
      apply in_map_iff in Hx; destruct Hx as [s [<- Hs]]; apply sqs_ast_ok; rewrite Forall_forall in H; apply H; exact Hs.
Qed.

(* what the end-to-end statements ask of the pattern argument of match/search: a literal (a pattern taken from the
   document is rewritten by prepare_regex, known class D14, and is outside Theorem A) *)
Definition lit_arg (a : fnarg) : Prop := match a with ArgLit _ => True | _ => False end.

Lemma singular_b_eq l : singular_b l = singular l.
Proof. induction l as [|s l IH]; [reflexivity|]. cbn [singular_b singular]. rewrite IH. destruct s as [s'|[]|]; reflexivity. Qed.
Lemma comparable_fn_eq f : is_comparable_fn f = value_fn f.
Proof. destruct f; reflexivity. Qed.
Lemma lit_ast_plain l : xlit_good l -> lit_plain (lit_ast l) = true.
Proof. destruct l as [z|k|b| ]; cbn [xlit_good lit_ast]; intros H; try reflexivity. apply plain_lit_plain. exact H. Qed.

Section WfTower.
  Variable sel : Type.
  Variable sast : sel -> selector.
  Variable sgood : sel -> Prop.
  Hypothesis Hs : forall s, sgood s -> ok_selector (sast s) = true.
  Notation patok := lit_arg.

  Lemma gbracket_wf s l : sgood s -> Forall sgood l -> ok_segment (gbracket_ast sel sast s l) = true.
  Proof.
    intros H1 Hl. unfold gbracket_ast. destruct l as [|s2 l]; [apply Hs; exact H1|].
    change (ok_selectors (selectors_of_list (map sast (s :: s2 :: l))) = true).
    rewrite ok_selectors_list. apply forallb_forall. intros x Hx. apply in_map_iff in Hx. destruct Hx as [y [<- Hy]].
    apply Hs. destruct Hy as [<-|Hy]; [exact H1|]. rewrite Forall_forall in Hl. apply Hl. exact Hy.
  Qed.

  Lemma gseg_wf g : gseg_good sel sgood g -> ok_segment (gseg_ast sel sast g) = true.
  Proof.
    destruct g as [s l|n| |s l|n| ]; cbn [gseg_good gseg_ast]; intros H; try reflexivity.
    - destruct H. apply gbracket_wf; assumption.
    - apply (shorthand_name_plain n H).
    - destruct H. apply (gbracket_wf s l); assumption.
    - apply (shorthand_name_plain n H).
  Qed.

  Lemma gsegs_wf q : Forall (gseg_good sel sgood) q -> ok_segments (segments_of_list (map (gseg_ast sel sast) q)) = true.
  Proof.
    intros H. rewrite ok_segments_list. apply forallb_forall. intros x Hx. apply in_map_iff in Hx.
    destruct Hx as [g [<- Hg]]. apply gseg_wf. rewrite Forall_forall in H. apply H. exact Hg.
  Qed.

  Lemma single_or_ok (wrap : list filter -> filter) l :
    (forall l', ok_filter (wrap l') = forallb ok_filter l') ->
    forallb ok_filter l = true -> ok_filter (single_or wrap l) = true.
  Proof.
    intros Hw H. unfold single_or. destruct l as [|x [|y l]]; [rewrite Hw; reflexivity| |rewrite Hw; exact H].
    cbn [forallb] in H. rewrite andb_true_r in H. exact H.
  Qed.

  Lemma fn_wf_all :
    (forall f, fgood sel sgood sast patok f -> ok_tfun (fn_ast sel sast f) = true)
    /\ (forall a, arggood sel sgood sast patok a ->
                  (is_value_type (arg_ast sel sast a) = true -> ok_arg_value (arg_ast sel sast a) = true)
                  /\ (is_nodes_type (arg_ast sel sast a) = true -> ok_arg_nodes (arg_ast sel sast a) = true)).
  Proof.
    apply (xfn_xarg_ind sel).
    - intros k a IH [Hg Hty]. destruct (IH Hg) as [Hv Hn]. destruct k; cbn [fn1_typed] in Hty.
      + apply Hv. exact Hty.
      + apply Hn. exact Hty.
      + apply Hn. exact Hty.
    - intros k a IHa b IHb [Ha [Hb [Hta [Htb Hp]]]]. destruct (IHa Ha) as [Hva _]. destruct (IHb Hb) as [Hvb _].
      specialize (Hva Hta). specialize (Hvb Htb).
      assert (Hb2 : fn2_pat lit_arg k (arg_ast sel sast b) -> (k = FMatch \/ k = FSearch) ->
                    match arg_ast sel sast b with ArgLit l => lit_plain l | _ => false end = true).
      { intros Hp' Hk. assert (Hl : lit_arg (arg_ast sel sast b)) by (destruct Hk as [-> | ->]; exact Hp').
        destruct b as [l|abs q|f]; [|destruct Hl|destruct Hl]. apply lit_ast_plain. exact Hb. }
      assert (Hcus : forall k', (negb (is_ext_name (fn2_name k')) || Nat.eqb 2 2)
                                && (ok_arg_value (arg_ast sel sast a) && (ok_arg_value (arg_ast sel sast b) && true)) = true).
      { intros k'. rewrite Hva, Hvb. rewrite orb_true_r. reflexivity. }
      destruct k.
      + change (ok_arg_value (arg_ast sel sast a) && match arg_ast sel sast b with ArgLit l => lit_plain l | _ => false end = true).
        rewrite Hva, (Hb2 Hp) by auto. reflexivity.
      + change (ok_arg_value (arg_ast sel sast a) && match arg_ast sel sast b with ArgLit l => lit_plain l | _ => false end = true).
        rewrite Hva, (Hb2 Hp) by auto. reflexivity.
      + exact (Hcus FIn).
      + exact (Hcus FNin).
      + exact (Hcus FNoneOf).
      + exact (Hcus FAnyOf).
      + exact (Hcus FSubsetOf).
    - intros l Hg. split; [intros _; apply lit_ast_plain; exact Hg|intros H; discriminate H].
    - intros abs q Hq. change (Forall (gseg_good sel sgood) q) in Hq.
      pose proof (gsegs_wf q Hq) as Hw. split.
      + intros Hv. destruct abs; change (singular (segments_of_list (map (gseg_ast sel sast) q)) && ok_segments (segments_of_list (map (gseg_ast sel sast) q)) = true);
          rewrite <- singular_b_eq; change (singular_b (segments_of_list (map (gseg_ast sel sast) q))) with (is_value_type (arg_ast sel sast (XAQuery sel true q)));
          [rewrite Hv|change (is_value_type (arg_ast sel sast (XAQuery sel true q))) with (is_value_type (arg_ast sel sast (XAQuery sel false q))); rewrite Hv]; exact Hw.
      + intros _. destruct abs; exact Hw.
    - intros f IH Hg. specialize (IH Hg). split; [|intros H; discriminate H].
      intros Hv. change (value_fn (fn_ast sel sast f) && ok_tfun (fn_ast sel sast f) = true).
      change (is_comparable_fn (fn_ast sel sast f) = true) in Hv. rewrite <- comparable_fn_eq, Hv, IH. reflexivity.
  Qed.
  Lemma fn_wf f : fgood sel sgood sast patok f -> ok_tfun (fn_ast sel sast f) = true.
  Proof. apply fn_wf_all. Qed.

  Lemma gcmp_ast_ok c : gcmp_good sel sgood sast patok c -> ok_comparable (gcmp_ast sel sast c) = true.
  Proof.
    destruct c as [c|f]; cbn [gcmp_good gcmp_ast]; intros H; [apply cmp_ast_ok; exact H|].
    destruct H as [Hg Hc]. change (value_fn (fn_ast sel sast f) && ok_tfun (fn_ast sel sast f) = true).
    rewrite <- comparable_fn_eq, Hc, (fn_wf f Hg). reflexivity.
  Qed.

  Definition Watom (a : xatom sel) : Prop := agood sel sgood sast patok a -> ok_atom (atom_ast sel sast a) = true.

  Lemma wf_and c : (forall a, In a c -> Watom a /\ agood sel sgood sast patok a) -> ok_filter (and_ast sel sast c) = true.
  Proof.
    intros Hc. unfold and_ast. apply single_or_ok.
    - intros l'. change (ok_filters (filters_of_list l') = forallb ok_filter l'). apply ok_filters_list.
    - apply forallb_forall. intros x Hx. apply in_map_iff in Hx. destruct Hx as [a [<- Ha]].
      destruct (Hc a Ha) as [HW Hg]. apply (HW Hg).
  Qed.
  Lemma wf_or e : (forall c, In c e -> forall a, In a c -> Watom a /\ agood sel sgood sast patok a) -> ok_filter (or_ast sel sast e) = true.
  Proof.
    intros He. unfold or_ast. apply single_or_ok.
    - intros l'. change (ok_filters (filters_of_list l') = forallb ok_filter l'). apply ok_filters_list.
    - apply forallb_forall. intros x Hx. apply in_map_iff in Hx. destruct Hx as [c [<- Hc]]. apply wf_and. apply He. exact Hc.
  Qed.

  Lemma watom_all : forall n a, (asize sel a <= n)%nat -> Watom a.
  Proof.
    induction n as [|n IH]; intros a Hsz; [destruct a; cbn [asize] in Hsz; lia|].
    intros Hg. destruct a as [neg e|neg abs q|o l r|neg f].
    - destruct (agood_paren_inv sel sgood sast patok neg e Hg) as [Hne He].
      change (ok_filter (or_ast sel sast e) = true). apply wf_or. intros c Hc a Ha. split.
      + apply IH. pose proof (asize_in_paren sel neg e c a Hc Ha). lia.
      + destruct (He c Hc) as [_ H]. apply H. exact Ha.
    - pose proof (agood_test_inv sel sgood sast patok neg abs q Hg) as Hq. cbn [atom_ast].
      destruct abs; change (ok_segments (segments_of_list (map (gseg_ast sel sast) q)) = true); apply gsegs_wf; exact Hq.
    - destruct (agood_cmp_inv sel sgood sast patok o l r Hg) as [Hl Hr]. cbn [atom_ast].
      change (ok_comparable (gcmp_ast sel sast l) && ok_comparable (gcmp_ast sel sast r) = true).
      rewrite !gcmp_ast_ok by assumption. reflexivity.
    - destruct (agood_fn_inv sel sgood sast patok neg f Hg) as [Hf Hnc]. cbn [atom_ast].
      change (logical_fn (fn_ast sel sast f) && ok_tfun (fn_ast sel sast f) = true).
      unfold logical_fn. rewrite <- comparable_fn_eq, Hnc, (fn_wf f Hf). reflexivity.
  Qed.

  Lemma filter_wf e : egood sel sgood sast patok e -> ok_selector (SelFilter (or_ast sel sast e)) = true.
  Proof.
    intros [Hne He]. change (ok_filter (or_ast sel sast e) = true). apply wf_or. intros c Hc a Ha.
    split; [apply (watom_all (asize sel a) a (le_n _))|]. destruct (He c Hc) as [_ H]. apply H. exact Ha.
  Qed.
End WfTower.

Lemma tower_wf n : forall s, sgoodT lit_arg n s -> ok_selector (sastT n s) = true.
Proof.
  induction n as [|n IH].
  - intros s [Hs _]. apply sel_ast_ok. exact Hs.
  - intros [p|e] Hg; cbn [sgoodT sastT sgood' sast'] in *.
    + destruct Hg as [Hs _]. apply sel_ast_ok. exact Hs.
    + apply (filter_wf (SelT n) (sastT n) (sgoodT lit_arg n) IH e Hg).
Qed.

(* C01 / C05 at string level for queries with filters: query_with_path on the canonical text of any query of
   the tower -- grammar, parser.rs, evaluator incl. Filter::process, comparisons, existence tests -- returns
   exactly the RFC 9535 nodes with multiplicity, each of them a node of the caller's document *)
Theorem filter_end_to_end n (q : list (gseg (SelT n))) (d : json) :
  Forall (gseg_ok (SelT n) (sokT n)) q -> Forall (gseg_good (SelT n) (sgoodT lit_arg n)) q -> wf_json d = true ->
  let ast := segments_of_list (map (gseg_ast (SelT n) (sastT n)) q) in
  exists ps,
    api_with_path (36%N :: gsegs_text (SelT n) (stextT n) q) d = Some (map (fun p => (inner p, path p)) ps)
    /\ Permutation (map node_of ps) (rfc_query ast d)
    /\ Forall (fun p => lookup d (ploc p) = Some (inner p)) ps.
Proof.
  intros Hok Hgood Hw ast. unfold api_with_path. rewrite (parse_filter lit_arg n q Hok Hgood). fold ast.
  assert (Hwf : wf_query ast = true) by (apply (gsegs_wf (SelT n) (sastT n) (sgoodT lit_arg n) (tower_wf n) q Hgood)).
  destruct (js_path_process_refines rx_model_search rx_spec_full rx_spec_sub rx_model_full_ok rx_model_sub_ok ast d Hwf) as [ps [E1 E2]].
  change (m_query ast d = Some ps) in E1. exists ps. rewrite E1. split; [reflexivity|]. split.
  - rewrite E2. apply (sel_major_is_permutation rx_spec_full rx_spec_sub jeqb d ast).
  - pose proof (query_nodes_located rx_spec_full rx_spec_sub jeqb true d ast Hw) as Hloc.
    unfold cur_query, s_query in E2. rewrite <- E2 in Hloc. rewrite Forall_forall in *.
    intros p Hp. apply (Hloc (node_of p)). apply in_map. exact Hp.
Qed.

(* C05 at string level: `$[?e]` keeps exactly the children of the root for which the RFC truth value of e
   holds, in their original order (exact list equality, not a permutation) *)
Theorem filter_children_in_order n (e : list (list (xatom (SelT n)))) (d : json) :
  eok (SelT n) (sokT n) e -> egood (SelT n) (sgoodT lit_arg n) (sastT n) lit_arg e -> wf_json d = true ->
  let f := or_ast (SelT n) (sastT n) e in
  exists ps,
    api_with_path (36%N :: 91%N :: filter_text (SelT n) (stextT n) e ++ [93%N]) d
      = Some (map (fun p => (inner p, path p)) ps)
    /\ map node_of ps
       = List.filter (fun c => r_holds rx_spec_full rx_spec_sub jeqb false d f (snd c)) (children ([], d)).
Proof.
  intros Hok Hgood Hw f.
  pose (q := [GBracket (SelT (S n)) (inr e) []]).
  assert (Hq1 : Forall (gseg_ok (SelT (S n)) (sokT (S n))) q) by (constructor; [split; [exact Hok|constructor]|constructor]).
  assert (Hq2 : Forall (gseg_good (SelT (S n)) (sgoodT lit_arg (S n))) q) by (constructor; [split; [exact Hgood|constructor]|constructor]).
  unfold api_with_path.
  pose proof (parse_filter lit_arg (S n) q Hq1 Hq2) as Hp.
  assert (Et : gsegs_text (SelT (S n)) (stextT (S n)) q = 91%N :: filter_text (SelT n) (stextT n) e ++ [93%N]).
  { cbn. rewrite app_nil_r. reflexivity. }
  rewrite Et in Hp. rewrite Hp.
  set (ast := segments_of_list (map (gseg_ast (SelT (S n)) (sastT (S n))) q)).
  assert (Ea : ast = GCons (SegSel (SelFilter f)) GNil) by reflexivity.
  assert (Hwf : wf_query ast = true) by (apply (gsegs_wf (SelT (S n)) (sastT (S n)) (sgoodT lit_arg (S n)) (tower_wf (S n)) q Hq2)).
  destruct (js_path_process_refines rx_model_search rx_spec_full rx_spec_sub rx_model_full_ok rx_model_sub_ok ast d Hwf) as [ps [E1 E2]].
  change (m_query ast d = Some ps) in E1. exists ps. rewrite E1. split; [reflexivity|].
  rewrite E2, Ea. unfold r_query. autorewrite with rsteps. cbn [flat_map]. rewrite app_nil_r.
  autorewrite with rsteps. apply filter_ext. intros c.
  apply (sel_major_filters_agree rx_spec_full rx_spec_sub jeqb d f (snd c)).
Qed.

(* ---------- C11 at string level: one index or slice selector applied to the root ---------- *)
Lemma single_bracket_string_level s (d : json) :
  sel_ok s -> sel_range s -> wf_json d = true ->
  exists ps,
    api_with_path (36%N :: 91%N :: sel_text s ++ [93%N]) d = Some (map (fun p => (inner p, path p)) ps)
    /\ map node_of ps = cur_query (GCons (SegSel (sel_ast s)) GNil) d.
Proof.
  intros Hs Hr Hw. pose (q := [FBracket s []]).
  assert (Hq1 : Forall seg_ok q) by (constructor; [split; [exact Hs|constructor]|constructor]).
  assert (Hq2 : Forall seg_range q) by (constructor; [split; [exact Hr|constructor]|constructor]).
  assert (Et : segs_text q = 91%N :: sel_text s ++ [93%N]).
  { unfold q, segs_text. cbn [flat_map seg_text]. rewrite app_nil_r. unfold bracket_text. cbn [commas_text flat_map app]. reflexivity. }
  unfold api_with_path. rewrite <- Et, (parse_frag q Hq1 Hq2).
  destruct (js_path_process_refines rx_model_search rx_spec_full rx_spec_sub rx_model_full_ok rx_model_sub_ok
              (query_ast q) d (query_ast_wf q Hq1)) as [ps [E1 E2]].
  change (m_query (query_ast q) d = Some ps) in E1. exists ps. rewrite E1. split; [reflexivity|]. exact E2.
Qed.

(* the TEXT `$[start:end:step]` (any subset of the three parts, any integers of the I-JSON range) on any document
   returns exactly the elements at the RFC 9535 2.3.4.2.2 index sequence, in that order -- nothing for a non-array *)
Theorem slice_string_level a b c (d : json) :
  oz_ok a -> oz_ok b -> oz_ok c -> wf_json d = true ->
  exists ps,
    api_with_path (36%N :: 91%N :: sel_text (FSlice a b c) ++ [93%N]) d = Some (map (fun p => (inner p, path p)) ps)
    /\ map node_of ps = sel_slice a b c ([], d).
Proof.
  intros Ha Hb Hc Hw.
  destruct (single_bracket_string_level (FSlice a b c) d I (conj Ha (conj Hb Hc)) Hw) as [ps [E1 E2]].
  exists ps. split; [exact E1|]. rewrite E2. unfold cur_query, s_query, r_query. cbn [sel_ast].
  autorewrite with rsteps. cbn [flat_map]. rewrite app_nil_r. autorewrite with rsteps. reflexivity.
Qed.

(* the TEXT `$[i]`: element i, or len+i for negative i, nothing when out of range or on a non-array *)
Theorem index_string_level i (d : json) :
  z_ok i -> wf_json d = true ->
  exists ps,
    api_with_path (36%N :: 91%N :: sel_text (FIndex i) ++ [93%N]) d = Some (map (fun p => (inner p, path p)) ps)
    /\ map node_of ps = sel_index i ([], d).
Proof.
  intros Hi Hw.
  destruct (single_bracket_string_level (FIndex i) d I Hi Hw) as [ps [E1 E2]].
  exists ps. split; [exact E1|]. rewrite E2. unfold cur_query, s_query, r_query. cbn [sel_ast].
  autorewrite with rsteps. cbn [flat_map]. rewrite app_nil_r. autorewrite with rsteps. reflexivity.
Qed.

(* ---------- C02 at string level: the selectors of one bracketed selection contribute in the order written ---------- *)
Definition plain_sel_nodes (x : fsel) (n : node) : list node :=
  match x with
  | FName k => sel_name (39%N :: k ++ [39%N]) n
  | FWild => children n
  | FIndex i => sel_index i n
  | FSlice a b c => sel_slice a b c n
  end.

Lemma plain_selector_nodes b root x n :
  r_selector rx_spec_full rx_spec_sub jeqb b root (sel_ast x) n = plain_sel_nodes x n.
Proof. destruct x; cbn [sel_ast plain_sel_nodes]; autorewrite with rsteps; reflexivity. Qed.

Lemma selectors_major_single root L n :
  r_selectors_major rx_spec_full rx_spec_sub jeqb true root (selectors_of_list (map sel_ast L)) [n]
  = flat_map (fun x => plain_sel_nodes x n) L.
Proof.
  induction L as [|x L IH]; [unfold selectors_of_list; cbn [map fold_right]; autorewrite with rsteps; reflexivity|].
  unfold selectors_of_list in *. cbn [map fold_right flat_map]. autorewrite with rsteps. cbn [flat_map]. rewrite app_nil_r.
  rewrite plain_selector_nodes, IH. reflexivity.
Qed.

(* the TEXT `$[s1,...,sn]` (names, wildcards, indices, slices in any mixture, n >= 1) returns, on every document, the
   nodes of s1, then those of s2, ... -- list equality, duplicates kept *)
Theorem union_string_level s l (d : json) :
  sel_ok s -> Forall sel_ok l -> sel_range s -> Forall sel_range l -> wf_json d = true ->
  exists ps,
    api_with_path (36%N :: bracket_text s l) d = Some (map (fun p => (inner p, path p)) ps)
    /\ map node_of ps = flat_map (fun x => plain_sel_nodes x ([], d)) (s :: l).
Proof.
  intros Hs Hl Hrs Hrl Hw. pose (q := [FBracket s l]).
  assert (Hq1 : Forall seg_ok q) by (constructor; [split; assumption|constructor]).
  assert (Hq2 : Forall seg_range q) by (constructor; [split; assumption|constructor]).
  assert (Et : segs_text q = bracket_text s l) by (unfold q, segs_text; cbn [flat_map seg_text]; apply app_nil_r).
  unfold api_with_path. rewrite <- Et, (parse_frag q Hq1 Hq2).
  destruct (js_path_process_refines rx_model_search rx_spec_full rx_spec_sub rx_model_full_ok rx_model_sub_ok
              (query_ast q) d (query_ast_wf q Hq1)) as [ps [E1 E2]].
  change (m_query (query_ast q) d = Some ps) in E1. exists ps. rewrite E1. split; [reflexivity|].
  rewrite E2. unfold query_ast, q. cbn [map segments_of_list seg_ast]. unfold cur_query, s_query, r_query.
  unfold bracket_ast. destruct l as [|s2 l].
  - autorewrite with rsteps. cbn [flat_map]. rewrite !app_nil_r. apply plain_selector_nodes.
  - autorewrite with rsteps. apply selectors_major_single.
Qed.

(* ---------- C13 at string level: `?expr` and `?(expr)` ---------- *)
Theorem parens_string_level n (e : list (list (xatom (SelT n)))) (d : json) :
  eok (SelT n) (sokT n) e -> egood (SelT n) (sgoodT lit_arg n) (sastT n) lit_arg e -> wf_json d = true ->
  exists ps1 ps2,
    api_with_path (36%N :: 91%N :: filter_text (SelT n) (stextT n) e ++ [93%N]) d
      = Some (map (fun p => (inner p, path p)) ps1)
    /\ api_with_path (36%N :: 91%N :: 63%N :: 40%N :: or_text (SelT n) (stextT n) e ++ [41%N; 93%N]) d
      = Some (map (fun p => (inner p, path p)) ps2)
    /\ map node_of ps1 = map node_of ps2.
Proof.
  intros Hok Hgood Hw.
  pose (e' := [[XParen (SelT n) false e]]).
  assert (Hok' : eok (SelT n) (sokT n) e').
  { destruct Hok as [Hne He]. split; [discriminate|]. intros c [<-|[]]. split; [discriminate|].
    intros a [<-|[]]. constructor; assumption. }
  assert (Hgood' : egood (SelT n) (sgoodT lit_arg n) (sastT n) lit_arg e').
  { destruct Hgood as [Hne He]. split; [discriminate|]. intros c [<-|[]]. split; [discriminate|].
    intros a [<-|[]]. constructor; assumption. }
  destruct (filter_children_in_order n e d Hok Hgood Hw) as [ps1 [E1 N1]].
  destruct (filter_children_in_order n e' d Hok' Hgood' Hw) as [ps2 [E2 N2]].
  exists ps1, ps2. split; [exact E1|]. split.
  - rewrite <- E2. f_equal. f_equal. f_equal. unfold filter_text, e', or_text, and_text. cbn [join atext bang app].
    rewrite <- app_assoc. reflexivity.
  - rewrite N1, N2. apply filter_ext. intros c. unfold e'.
    change (or_ast (SelT n) (sastT n) [[XParen (SelT n) false e]])
      with (FAtom (AFilter (or_ast (SelT n) (sastT n) e) false)).
    autorewrite with rsteps. rewrite xorb_false_l. reflexivity.
Qed.

(* ---------- C13 at string level: `.name` and `['name']` ---------- *)
From JP Require Import SpellFacts.
Lemma name_ok_chars n : name_ok n ->
  no_bslash n = true /\ no_ctl n = true
  /\ forallb (fun x => negb (N.eqb x 39)) n = true /\ forallb (fun x => negb (N.eqb x 34)) n = true
  /\ forallb plain_char n = true.
Proof.
  destruct n as [|c r]; [intros []|]. intros [Hc Hr].
  assert (Hall : forall x, In x (c :: r) ->
            (N.leb 32 x && negb (N.eqb x 39) && negb (N.eqb x 34) && negb (N.eqb x 92))%bool = true).
  { intros x [<-|Hx]; apply name_char_plain; [apply name_first_char; exact Hc|apply (forallb_In _ _ _ Hr Hx)]. }
  assert (Hp : forall x, In x (c :: r) -> plain_char x = true).
  { intros x Hx. assert (Hb : name_char_b x = true) by (destruct Hx as [<-|Hx]; [apply name_first_char; exact Hc|apply (forallb_In _ _ _ Hr Hx)]).
    unfold name_char_b in Hb. apply orb_true_iff in Hb. unfold plain_char.
    destruct Hb as [Hb|Hb]; [apply name_first_cases in Hb|apply is_digit_bounds in Hb];
      repeat match goal with |- context [N.leb ?a ?b] => destruct (N.leb_spec a b) end;
      repeat match goal with |- context [N.eqb ?a ?b] => destruct (N.eqb_spec a b) end; try lia; reflexivity. }
  unfold no_bslash, no_ctl. repeat split; apply forallb_forall; intros x Hx; try (apply Hp; exact Hx);
    specialize (Hall x Hx); repeat (apply andb_true_iff in Hall; destruct Hall as [Hall ?]); assumption.
Qed.

Theorem shorthand_string_level n (d : json) :
  name_ok n -> wf_json d = true ->
  exists ps1 ps2,
    api_with_path (36%N :: 46%N :: n) d = Some (map (fun p => (inner p, path p)) ps1)
    /\ api_with_path (36%N :: 91%N :: 39%N :: n ++ [39%N; 93%N]) d = Some (map (fun p => (inner p, path p)) ps2)
    /\ map node_of ps1 = map node_of ps2.
Proof.
  intros Hn Hw. destruct (name_ok_chars n Hn) as [Hb [Hc [H39 [H34 Hp]]]].
  destruct (single_bracket_string_level (FName n) d Hp I Hw) as [ps2 [E2 N2]].
  pose (q := [FShort n]).
  assert (Hq1 : Forall seg_ok q) by (constructor; [exact Hn|constructor]).
  assert (Hq2 : Forall seg_range q) by (constructor; [exact I|constructor]).
  assert (Et : segs_text q = 46%N :: n) by (unfold q, segs_text; cbn [flat_map seg_text]; apply app_nil_r).
  assert (E1 : exists ps1, api_with_path (36%N :: 46%N :: n) d = Some (map (fun p => (inner p, path p)) ps1)
                           /\ map node_of ps1 = cur_query (query_ast q) d).
  { unfold api_with_path. rewrite <- Et, (parse_frag q Hq1 Hq2).
    destruct (js_path_process_refines rx_model_search rx_spec_full rx_spec_sub rx_model_full_ok rx_model_sub_ok
                (query_ast q) d (query_ast_wf q Hq1)) as [ps [E1 E1']].
    change (m_query (query_ast q) d = Some ps) in E1. exists ps. rewrite E1. split; [reflexivity|exact E1']. }
  destruct E1 as [ps1 [E1 N1]]. exists ps1, ps2. split; [exact E1|]. split.
  - rewrite <- E2. cbn [sel_text]. f_equal. f_equal. f_equal. cbn [app]. rewrite <- app_assoc. reflexivity.
  - rewrite N1, N2. unfold query_ast, q. cbn [map segments_of_list seg_ast sel_ast].
    unfold cur_query, s_query, r_query. autorewrite with rsteps. cbn [flat_map]. rewrite !app_nil_r. autorewrite with rsteps.
    assert (Hne : n <> []) by (destruct n; [destruct Hn|discriminate]).
    apply (proj2 (name_spellings_agree n ([], d) Hb Hc H39 H34) Hne).
Qed.
