(* StringLevel.v — the string-level statements of C03, C06 and C09: NpBuild.parse_np (the parser
   reads the text np l as the AST np_query l) composed with the AST-level theorems. *)
From Coq Require Import List Arith NArith ZArith Bool Lia.
From JP Require Import Base Ast Eval ValueModel Spec NormPath Known WellFormed Regex Entry
  Build Reference Requery NpParse NpBuild PathFacts.
Import ListNotations.

Lemma plain_steps_loc_plain l : Forall plain_step l -> loc_plain l = true.
Proof.
  induction l as [|s l IH]; intros H; [reflexivity|].
  pose proof (Forall_inv H) as Hs. pose proof (Forall_inv_tail H) as Hl.
  cbn [loc_plain forallb]. fold (loc_plain l). rewrite (IH Hl), andb_true_r.
  destruct s as [k|i]; [|reflexivity]. cbn [plain_step] in Hs. unfold docname_plain.
  rewrite forallb_forall in *. intros c Hc. apply plain_char_doc. apply Hs. exact Hc.
Qed.

(* C09 at string level: reference(np l) is the node at l, or None when there is none *)
Theorem reference_np_string (d : json) (l : loc) :
  Forall plain_step l -> Forall step_in_range l ->
  m_reference (np l) d = match lookup d l with Some v => Some (l, v) | None => None end.
Proof.
  intros Hp Hr. unfold m_reference. rewrite (parse_np l Hp Hr).
  apply reference_np. apply plain_steps_loc_plain. exact Hp.
Qed.

(* C03 at string level: the reported path, parsed and run again, returns exactly the reported node *)
Theorem requery_string (q : query) (d : json) ps p :
  wf_query q = true -> segs_path_ok q = true -> doc_plain d = true -> wf_json d = true ->
  m_query q d = Some ps -> In p ps ->
  Forall plain_step (ploc p) -> Forall step_in_range (ploc p) ->
  exists q', parse_query (path p) = POk q' /\ m_query q' d = Some [p].
Proof.
  intros Hq Hpo Hd Hw Hm Hin Hp Hr. exists (np_query (ploc p)). split.
  - pose proof (paths_are_normalized rx_model_search d q ps Hpo Hd Hm) as Hn.
    rewrite Forall_forall in Hn. rewrite (Hn p Hin). apply parse_np; assumption.
  - apply (requery_reported q d ps p); assumption.
Qed.

(* ---------- the filter-free sublanguage, end to end at string level ---------- *)
From JP Require Import FragParse FragBuild Purity Refine Order SpecFacts RegexFacts DataFacts SelFacts.
From Coq Require Import Permutation.

Lemma name_char_plain c : name_char_b c = true ->
  (N.leb 32 c && negb (N.eqb c 39) && negb (N.eqb c 34) && negb (N.eqb c 92))%bool = true.
Proof.
  unfold name_char_b. intros H. apply orb_true_iff in H.
  assert (Hc : (48 <= c /\ c <> 92)%N).
  { destruct H as [H|H]; [apply name_first_cases in H; lia|apply is_digit_bounds in H; lia]. }
  destruct (N.leb_spec 32 c); [|lia]. destruct (N.eqb_spec c 39); [lia|]. destruct (N.eqb_spec c 34); [lia|].
  destruct (N.eqb_spec c 92); [lia|]. reflexivity.
Qed.

Lemma shorthand_name_plain n : name_ok n -> name_plain n = true.
Proof.
  destruct n as [|c r]; [intros []|]. intros [Hc Hr].
  assert (Hall : forall x, In x (c :: r) ->
            (N.leb 32 x && negb (N.eqb x 39) && negb (N.eqb x 34) && negb (N.eqb x 92))%bool = true).
  { intros x [<-|Hx]; apply name_char_plain; [apply name_first_char; exact Hc|apply (forallb_In _ _ _ Hr Hx)]. }
  unfold name_plain, no_bslash, no_ctl.
  assert (H1 : forallb (fun x => negb (N.eqb x 92)) (c :: r) = true).
  { apply forallb_forall. intros x Hx. specialize (Hall x Hx). apply andb_true_iff in Hall. apply Hall. }
  assert (H2 : forallb (fun x => N.leb 32 x) (c :: r) = true).
  { apply forallb_forall. intros x Hx. specialize (Hall x Hx). apply andb_true_iff in Hall. destruct Hall as [Hall _].
    apply andb_true_iff in Hall. destruct Hall as [Hall _]. apply andb_true_iff in Hall. apply Hall. }
  assert (H3 : forallb (fun x => negb (N.eqb x 39) && negb (N.eqb x 34)) (c :: r) = true).
  { apply forallb_forall. intros x Hx. specialize (Hall x Hx). apply andb_true_iff in Hall. destruct Hall as [Hall _].
    apply andb_true_iff in Hall. destruct Hall as [Hall H34]. apply andb_true_iff in Hall. destruct Hall as [_ H39].
    rewrite H39, H34. reflexivity. }
  rewrite H1, H2. cbn [andb]. cbn [name_kind].
  pose proof (Hall c (or_introl eq_refl)) as Hcc. apply andb_true_iff in Hcc. destruct Hcc as [Hcc _].
  apply andb_true_iff in Hcc. destruct Hcc as [Hcc H34]. apply andb_true_iff in Hcc. destruct Hcc as [_ H39].
  apply negb_true_iff in H39. apply negb_true_iff in H34. rewrite H39, H34.
  change (N.eqb 0 1) with false. change (N.eqb 0 2) with false. cbv iota. exact H3.
Qed.

Lemma plain_chars_docname k : forallb plain_char k = true -> docname_plain k = true.
Proof.
  unfold docname_plain. rewrite !forallb_forall. intros H c Hc. apply plain_char_doc. apply H. exact Hc.
Qed.

Lemma sel_ast_ok s : sel_ok s -> ok_selector (sel_ast s) = true.
Proof.
  destruct s as [k| |i|a b c]; cbn [sel_ok sel_ast ok_selector]; intros H; try reflexivity.
  apply (npq_name_plain k). apply plain_chars_docname. exact H.
Qed.

Lemma sels_ast_ok l : Forall sel_ok l -> ok_selectors (selectors_of_list (map sel_ast l)) = true.
Proof.
  induction l as [|s l IH]; intros H; [reflexivity|]. unfold selectors_of_list in *. cbn [map fold_right].
  change (ok_selector (sel_ast s) && ok_selectors (fold_right SCons SNil (map sel_ast l)) = true).
  rewrite (sel_ast_ok s (Forall_inv H)), (IH (Forall_inv_tail H)). reflexivity.
Qed.

Lemma bracket_ast_ok s l : sel_ok s -> Forall sel_ok l -> ok_segment (bracket_ast s l) = true.
Proof.
  intros Hs Hl. unfold bracket_ast. destruct l as [|s2 l].
  - apply sel_ast_ok. exact Hs.
  - change (ok_selectors (selectors_of_list (map sel_ast (s :: s2 :: l))) = true). apply sels_ast_ok. constructor; assumption.
Qed.

Lemma seg_ast_ok g : seg_ok g -> ok_segment (seg_ast g) = true.
Proof.
  destruct g as [s l|n| |s l|n| ]; cbn [seg_ok seg_ast]; intros H; try reflexivity.
  - destruct H. apply bracket_ast_ok; assumption.
  - apply (shorthand_name_plain n H).
  - destruct H. apply (bracket_ast_ok s l); assumption.
  - apply (shorthand_name_plain n H).
Qed.

Lemma query_ast_wf q : Forall seg_ok q -> wf_query (query_ast q) = true.
Proof.
  unfold wf_query, query_ast. induction q as [|g q IH]; intros H; [reflexivity|]. cbn [map segments_of_list].
  change (ok_segment (seg_ast g) && ok_segments (segments_of_list (map seg_ast q)) = true).
  rewrite (seg_ast_ok g (Forall_inv H)), (IH (Forall_inv_tail H)). reflexivity.
Qed.

(* C01 at string level for the filter-free sublanguage: query_with_path on the canonical text of any
   such query returns exactly the RFC 9535 nodes (with multiplicity), each a node of the document *)
Theorem frag_end_to_end (q : list fseg) (d : json) :
  Forall seg_ok q -> Forall seg_range q -> wf_json d = true ->
  exists ps,
    api_with_path (36%N :: segs_text q) d = Some (map (fun p => (inner p, path p)) ps)
    /\ Permutation (map node_of ps) (rfc_query (query_ast q) d)
    /\ Forall (fun p => lookup d (ploc p) = Some (inner p)) ps.
Proof.
  intros Hok Hr Hw. unfold api_with_path. rewrite (parse_frag q Hok Hr).
  destruct (js_path_process_refines rx_model_search rx_spec_full rx_spec_sub rx_model_full_ok rx_model_sub_ok
              (query_ast q) d (query_ast_wf q Hok)) as [ps [E1 E2]].
  change (m_query (query_ast q) d = Some ps) in E1. exists ps. rewrite E1. split; [reflexivity|]. split.
  - rewrite E2. apply (sel_major_is_permutation rx_spec_full rx_spec_sub jeqb d (query_ast q)).
  - pose proof (query_nodes_located rx_spec_full rx_spec_sub jeqb true d (query_ast q) Hw) as Hloc.
    unfold cur_query, s_query in E2. rewrite <- E2 in Hloc. rewrite Forall_forall in *.
    intros p Hp. apply (Hloc (node_of p)). apply in_map. exact Hp.
Qed.
