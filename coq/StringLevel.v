(* StringLevel.v — the string-level statements of C03, C06 and C09: NpBuild.parse_np (the parser
   reads the text np l as the AST np_query l) composed with the AST-level theorems. *)
From Coq Require Import List Arith NArith ZArith Bool Lia.
From JP Require Import Base Ast Eval ValueModel Spec NormPath Known WellFormed Regex Entry
  Build Reference Requery NpParse NpBuild PathFacts.
Import ListNotations.

Lemma plain_steps_loc_plain l : Forall plain_step l -> loc_plain l = true.
Proof.
  induction l as [|s l IH]; intros H; [reflexivity|].
  pose proof (Forall_inv H) as Hs. pose proof (Forall_inv_tail H) as Hl.
  cbn [loc_plain forallb]. fold (loc_plain l). rewrite (IH Hl), andb_true_r.
  destruct s as [k|i]; [|reflexivity]. cbn [plain_step] in Hs. unfold docname_plain.
  rewrite forallb_forall in *. intros c Hc. apply plain_char_doc. apply Hs. exact Hc.
Qed.

(* C09 at string level: reference(np l) is the node at l, or None when there is none *)
Theorem reference_np_string (d : json) (l : loc) :
  Forall plain_step l -> Forall step_in_range l ->
  m_reference (np l) d = match lookup d l with Some v => Some (l, v) | None => None end.
Proof.
  intros Hp Hr. unfold m_reference. rewrite (parse_np l Hp Hr).
  apply reference_np. apply plain_steps_loc_plain. exact Hp.
Qed.

(* C03 at string level: the reported path, parsed and run again, returns exactly the reported node *)
Theorem requery_string (q : query) (d : json) ps p :
  wf_query q = true -> segs_path_ok q = true -> doc_plain d = true -> wf_json d = true ->
  m_query q d = Some ps -> In p ps ->
  Forall plain_step (ploc p) -> Forall step_in_range (ploc p) ->
  exists q', parse_query (path p) = POk q' /\ m_query q' d = Some [p].
Proof.
  intros Hq Hpo Hd Hw Hm Hin Hp Hr. exists (np_query (ploc p)). split.
  - pose proof (paths_are_normalized rx_model_search d q ps Hpo Hd Hm) as Hn.
    rewrite Forall_forall in Hn. rewrite (Hn p Hin). apply parse_np; assumption.
  - apply (requery_reported q d ps p); assumption.
Qed.
