(* FilterParse.v — filter selectors in the canonical round trip (PEG part): literals, singular queries,
   comparisons, existence tests, negation, parentheses, && and ||, nested to any depth, with queries whose
   bracketed selections may again contain filter selectors. *)
From Coq Require Import List Arith NArith ZArith Bool Lia.
From JP Require Import Base Ast Peg PegFacts NormPath NormPathFacts Dec2Bin Known NpParse FragParse GenParse.
From JP.gen Require Import Grammar.
Import ListNotations.
Local Open Scope nat_scope.

Ltac base_hook :=
  lazymatch goal with
  | |- Runs _ _ (ECall R_WHITESPACE) AAtomic _ _ _ => apply ws_fail; solve_not_ws
  | |- Runs _ _ (ECall R_S) _ _ _ _ => apply S_none; solve_not_ws
  | |- Runs _ _ (ERep (ECall R_single_quoted)) AAtomic (_ ++ 39%N :: _) _ _ => apply single_quoted_body; assumption
  | |- Runs _ _ (ERep (ECall R_DIGIT)) AAtomic (_ ++ _) _ _ => apply digits_body'; assumption
  | |- Runs _ _ (ECall R_string) _ (39%N :: _ ++ 39%N :: _) _ _ => apply string_single; assumption
  | |- Runs _ _ (ECall R_int) _ (int_text _ ++ _) _ _ => apply int_runs; solve [assumption | reflexivity | exact I]
  | |- Runs _ _ (EStr (_ :: _)) _ (int_text _ ++ _) _ _ =>
      eapply runs_str_fail; apply match_str_int_none; [discriminate|reflexivity]
  end.
Ltac peg_hook ::= base_hook.
Ltac solve_not_ws ::=
  solve [assumption | apply not_ws_int | apply seg_stop_not_ws; assumption
        | cbn [not_ws]; repeat split; lia | exact I].

(* ---------- literals ---------- *)
Inductive xlit := XInt (z : Z) | XStr (k : str) | XBool (b : bool) | XNull.

Definition s_true : str := [116; 114; 117; 101]%N.
Definition s_false : str := [102; 97; 108; 115; 101]%N.
Definition s_null : str := [110; 117; 108; 108]%N.

Definition xlit_text (l : xlit) : str :=
  match l with
  | XInt z => int_text z
  | XStr k => 39%N :: k ++ [39%N]
  | XBool true => s_true
  | XBool false => s_false
  | XNull => s_null
  end.
Definition xlit_ok (l : xlit) : Prop := match l with XStr k => forallb plain_char k = true | _ => True end.
Definition xlit_pair (pos : nat) (l : xlit) : pair rname :=
  let en := pos + length (xlit_text l) in
  Pair R_literal pos en
       [match l with
        | XInt _ => Pair R_number pos en []
        | XStr _ => Pair R_string pos en []
        | XBool _ => Pair R_bool pos en []
        | XNull => Pair R_null pos en []
        end].

Lemma qstop_facts c : qstop_char c ->
  is_digit c = false /\ c <> 46%N /\ c <> 101%N /\ c <> 69%N /\ c <> 45%N.
Proof. intros H. stop_cases H; repeat split; discriminate. Qed.

Lemma literal_runs l c rest pos :
  xlit_ok l -> qstop_char c ->
  RunsG (50 + length (xlit_text l)) (ECall R_literal) ANonAtomic (xlit_text l ++ c :: rest) pos
        (Ok (c :: rest) (pos + length (xlit_text l)) [xlit_pair pos l]).
Proof.
  intros Hl Hc. destruct (qstop_facts c Hc) as [Hd [H46 [H101 [H69 H45]]]].
  assert (Hnd : non_digit_head (c :: rest)) by exact Hd.
  unfold xlit_pair. destruct l as [z|k|[|]| ]; cbn [xlit_text xlit_ok] in *.
  - pegd_upto.
  - cbn [app]. rewrite <- app_assoc. cbn [app]. pegd_upto.
  - unfold s_true. cbn [app]. pegd_upto.
  - unfold s_false. cbn [app]. pegd_upto.
  - unfold s_null. cbn [app]. pegd_upto.
Qed.

(* ---------- singular queries ---------- *)
Inductive sqs := SQName (k : str) | SQShort (n : str) | SQIdx (z : Z).
Definition sqs_text (s : sqs) : str :=
  match s with
  | SQName k => 91%N :: 39%N :: k ++ [39%N; 93%N]
  | SQShort n => 46%N :: n
  | SQIdx z => 91%N :: int_text z ++ [93%N]
  end.
Definition sqs_ok (s : sqs) : Prop :=
  match s with SQName k => forallb plain_char k = true | SQShort n => name_ok n | SQIdx _ => True end.
Definition sqs_pair (pos : nat) (s : sqs) : pair rname :=
  let en := pos + length (sqs_text s) in
  match s with
  | SQName k => Pair R_name_segment pos en [Pair R_name_selector (pos + 1) (pos + length k + 3) [Pair R_string (pos + 1) (pos + length k + 3) []]]
  | SQShort n => Pair R_name_segment pos en [Pair R_member_name_shorthand (pos + 1) en []]
  | SQIdx z => Pair R_index_segment pos en
                    [Pair R_index_selector (pos + 1) (pos + 1 + length (int_text z)) [Pair R_int (pos + 1) (pos + 1 + length (int_text z)) []]]
  end.

Definition sq_iter : expr rname := ESeq (ECall R_S) (EAlt (ECall R_name_segment) (ECall R_index_segment)).

Ltac sq_hook :=
  lazymatch goal with
  | |- Runs _ _ (ECall R_WHITESPACE) AAtomic _ _ _ => apply ws_fail; solve_not_ws
  | |- Runs _ _ (ECall R_S) _ _ _ _ => apply S_none; solve_not_ws
  | |- Runs _ _ (ERep (ECall R_single_quoted)) AAtomic (_ ++ 39%N :: _) _ _ => apply single_quoted_body; assumption
  | |- Runs _ _ (ERep (ECall R_DIGIT)) AAtomic (_ ++ _) _ _ => apply digits_body'; assumption
  | |- Runs _ _ (ECall R_string) _ (39%N :: _ ++ 39%N :: _) _ _ => apply string_single; assumption
  | |- Runs _ _ (ECall R_int) _ (int_text _ ++ _) _ _ => apply int_runs; solve [assumption | reflexivity | exact I]
  | |- Runs _ _ (EStr (_ :: _)) _ (int_text _ ++ _) _ _ =>
      eapply runs_str_fail; apply match_str_int_none; [discriminate|reflexivity]
  | |- Runs _ _ (ECall R_member_name_shorthand) _ (?c :: ?r ++ ?rest) _ _ =>
      change (c :: r ++ rest) with ((c :: r) ++ rest); apply shorthand_follow; assumption
  end.
Ltac peg_hook ::= sq_hook.

Lemma sq_iter_step s rest pos :
  sqs_ok s -> name_follow rest ->
  RunsG (70 + length (sqs_text s)) sq_iter ANonAtomic (sqs_text s ++ rest) pos
        (Ok rest (pos + length (sqs_text s)) [sqs_pair pos s]).
Proof.
  intros Hs Hr. unfold sq_iter, sqs_pair. destruct s as [k|n|z]; cbn [sqs_ok sqs_text] in *.
  - cbn [app]. repeat (rewrite <- app_assoc; cbn [app]). pegd_upto.
  - assert (Hn := Hs). destruct n as [|c r]; [destruct Hs|]. destruct Hs as [Hc _].
    apply name_first_cases in Hc. cbn [app]. pegd_upto.
  - cbn [app]. repeat (rewrite <- app_assoc; cbn [app]). pegd_upto.
Qed.

Lemma sq_iter_stop stop pos : seg_stop stop -> RunsG 40 sq_iter ANonAtomic stop pos Fail.
Proof.
  intros H. unfold sq_iter. destruct stop as [|c r]; [pegd_upto|]. cbn [seg_stop] in H.
  assert (Hw : not_ws (c :: r)) by (apply seg_stop_not_ws; exact H).
  stop_cases H; pegd_upto.
Qed.

Definition sqs_list_text (l : list sqs) : str := flat_map sqs_text l.
Fixpoint sqs_pairs (pos : nat) (l : list sqs) : list (pair rname) :=
  match l with [] => [] | s :: l' => sqs_pair pos s :: sqs_pairs (pos + length (sqs_text s)) l' end.

Lemma sqs_text_head s rest : exists c r, sqs_text s ++ rest = c :: r /\ (c = 46%N \/ c = 91%N).
Proof. destruct s; cbn [sqs_text app]; eexists _, _; (split; [reflexivity|]); (left; reflexivity) || (right; reflexivity). Qed.

Lemma sqs_follow l stop : seg_stop stop -> name_follow (sqs_list_text l ++ stop).
Proof.
  intros Hs. destruct l as [|s l].
  - cbn [sqs_list_text flat_map app]. destruct stop as [|c r]; [exact I|]. cbn [name_follow seg_stop] in *. right. right. exact Hs.
  - unfold sqs_list_text. cbn [flat_map]. rewrite <- app_assoc.
    destruct (sqs_text_head s (flat_map sqs_text l ++ stop)) as [c [r [E H]]]. rewrite E. cbn [name_follow].
    destruct H as [-> | ->]; [left|right; left]; reflexivity.
Qed.

Lemma sqs_len_pos s : 1 <= length (sqs_text s).
Proof. destruct s; cbn [sqs_text length]; lia. Qed.

Lemma reptail_sqs l : forall stop pos,
  Forall sqs_ok l -> seg_stop stop ->
  RunsG (80 + length (sqs_list_text l)) (ERepTail sq_iter) ANonAtomic (sqs_list_text l ++ stop) pos
        (Ok stop (pos + length (sqs_list_text l)) (sqs_pairs pos l)).
Proof.
  induction l as [|s l IH]; intros stop pos Hl Hstop.
  - cbn [sqs_list_text flat_map length sqs_pairs app]. eapply runs_conv.
    + eapply runs_reptail_stop; [apply skip_none; apply seg_stop_not_ws; exact Hstop|apply sq_iter_stop; exact Hstop].
    + lia.
    + f_equal. lia.
  - pose proof (Forall_inv Hl) as Hs. pose proof (Forall_inv_tail Hl) as Hl'.
    unfold sqs_list_text. cbn [flat_map sqs_pairs]. fold (sqs_list_text l). rewrite <- app_assoc.
    destruct (sqs_text_head s (sqs_list_text l ++ stop)) as [c [r [E Hc]]].
    pose proof (sqs_len_pos s) as Hlen.
    eapply runs_conv.
    + eapply runs_reptail_more.
      * apply skip_none. rewrite E. destruct Hc as [-> | ->]; cbn [not_ws]; repeat split; lia.
      * apply sq_iter_step; [exact Hs|apply sqs_follow; exact Hstop].
      * lia.
      * apply IH; assumption.
    + rewrite app_length. lia.
    + rewrite app_length. cbn [app]. f_equal. lia.
Qed.

(* @segments / $segments as a comparable *)
Definition xsq_text (abs : bool) (l : list sqs) : str := (if abs then 36%N else 64%N) :: sqs_list_text l.
Definition xsq_pair (pos : nat) (abs : bool) (l : list sqs) : pair rname :=
  let en := pos + length (xsq_text abs l) in
  Pair R_singular_query pos en
       [Pair (if abs then R_abs_singular_query else R_rel_singular_query) pos en
             [Pair R_singular_query_segments (pos + 1) en (sqs_pairs (pos + 1) l)]].

Lemma singular_query_runs abs l stop pos :
  Forall sqs_ok l -> seg_stop stop ->
  RunsG (100 + length (sqs_list_text l)) (ECall R_singular_query) ANonAtomic (xsq_text abs l ++ stop) pos
        (Ok stop (pos + length (xsq_text abs l)) [xsq_pair pos abs l]).
Proof.
  intros Hl Hstop. unfold xsq_pair, xsq_text.
  assert (Hnw : not_ws (sqs_list_text l ++ stop)).
  { destruct l as [|s l]; [apply seg_stop_not_ws; exact Hstop|].
    unfold sqs_list_text. cbn [flat_map]. rewrite <- app_assoc.
    destruct (sqs_text_head s (flat_map sqs_text l ++ stop)) as [c [r [E Hc]]]. rewrite E.
    destruct Hc as [-> | ->]; cbn [not_ws]; repeat split; lia. }
  assert (Hsegs : RunsG (85 + length (sqs_list_text l)) (ECall R_singular_query_segments) ANonAtomic
                        (sqs_list_text l ++ stop) (pos + 1)
                        (Ok stop (pos + 1 + length (sqs_list_text l))
                            [Pair R_singular_query_segments (pos + 1) (pos + 1 + length (sqs_list_text l)) (sqs_pairs (pos + 1) l)])).
  { destruct l as [|s l].
    - cbn [sqs_list_text flat_map length sqs_pairs app]. eapply runs_conv.
      + eapply runs_call_normal_ok; [reflexivity|]. eapply runs_rep_none. apply sq_iter_stop. exact Hstop.
      + lia.
      + cbn [emits]. repeat (f_equal; try lia).
    - pose proof (Forall_inv Hl) as Hs. pose proof (Forall_inv_tail Hl) as Hl'.
      unfold sqs_list_text. cbn [flat_map sqs_pairs]. fold (sqs_list_text l). rewrite <- app_assoc.
      eapply runs_conv.
      + eapply runs_call_normal_ok; [reflexivity|]. eapply runs_rep_some.
        * apply sq_iter_step; [exact Hs|apply sqs_follow; exact Hstop].
        * apply reptail_sqs; assumption.
      + rewrite app_length. lia.
      + rewrite app_length. cbn [emits app]. repeat (f_equal; try lia). }
  destruct abs; cbn [app].
  - eapply runs_conv.
    + eapply runs_call; [reflexivity|]. cbn [call_atomicity].
      eapply runs_alt.
      { pegd. }
      { red_res. eapply runs_call; [reflexivity|]. cbn [call_atomicity].
        eapply runs_seq; [pegd|red_res; apply skip_none; exact Hnw|red_res; exact Hsegs]. }
    + norm_len. bound.
    + red_res. norm_len. repeat (f_equal; try lia).
  - eapply runs_conv.
    + eapply runs_call; [reflexivity|]. cbn [call_atomicity].
      eapply runs_alt.
      { eapply runs_call; [reflexivity|]. cbn [call_atomicity].
        eapply runs_seq; [pegd|red_res; apply skip_none; exact Hnw|red_res; exact Hsegs]. }
      { red_res. split; reflexivity. }
    + norm_len. bound.
    + red_res. norm_len. repeat (f_equal; try lia).
Qed.

(* ---------- comparisons ---------- *)
Inductive xcmpb := XCLit (l : xlit) | XCSq (abs : bool) (l : list sqs).
Definition xcmpb_text (c : xcmpb) : str :=
  match c with XCLit l => xlit_text l | XCSq abs l => xsq_text abs l end.
Definition xcmpb_ok (c : xcmpb) : Prop :=
  match c with XCLit l => xlit_ok l | XCSq _ l => Forall sqs_ok l end.
Definition xcmpb_pair (pos : nat) (c : xcmpb) : pair rname :=
  Pair R_comparable pos (pos + length (xcmpb_text c))
       [match c with XCLit l => xlit_pair pos l | XCSq abs l => xsq_pair pos abs l end].

Ltac cmp_hook :=
  lazymatch goal with
  | |- Runs _ _ (ECall R_WHITESPACE) AAtomic _ _ _ => apply ws_fail; solve_not_ws
  | |- Runs _ _ (ECall R_S) _ _ _ _ => apply S_none; solve_not_ws
  | |- Runs _ _ (ECall R_literal) _ (xlit_text _ ++ _ :: _) _ _ => apply literal_runs; assumption
  | |- Runs _ _ (ECall R_singular_query) _ (xsq_text _ _ ++ _) _ _ => apply singular_query_runs; assumption
  end.
Ltac peg_hook ::= cmp_hook.

Lemma comparable_runs c c0 rest pos :
  xcmpb_ok c -> qstop_char c0 ->
  RunsG (120 + length (xcmpb_text c)) (ECall R_comparable) ANonAtomic (xcmpb_text c ++ c0 :: rest) pos
        (Ok (c0 :: rest) (pos + length (xcmpb_text c)) [xcmpb_pair pos c]).
Proof.
  intros Hc H0. assert (Hst : seg_stop (c0 :: rest)) by exact H0.
  unfold xcmpb_pair. destruct c as [l|abs l]; cbn [xcmpb_ok xcmpb_text] in *.
  - pegd_upto.
  - pose proof (singular_query_runs abs l (c0 :: rest) pos Hc Hst) as Hsq.
    destruct abs; unfold xsq_text in *; cbn [app] in *.
    + eapply runs_conv.
      * eapply runs_call; [reflexivity|]. cbn [call_atomicity].
        eapply runs_alt.
        { eapply runs_alt; [pegd|red_res; exact Hsq]. }
        { red_res. split; reflexivity. }
      * norm_len. bound.
      * red_res. norm_len. repeat (f_equal; try lia).
    + eapply runs_conv.
      * eapply runs_call; [reflexivity|]. cbn [call_atomicity].
        eapply runs_alt.
        { eapply runs_alt; [pegd|red_res; exact Hsq]. }
        { red_res. split; reflexivity. }
      * norm_len. bound.
      * red_res. norm_len. repeat (f_equal; try lia).
Qed.

Definition op_text (o : cmpop) : str :=
  match o with
  | OpEq => [61; 61]%N | OpNe => [33; 61]%N | OpLe => [60; 61]%N | OpGe => [62; 61]%N
  | OpLt => [60]%N | OpGt => [62]%N
  end.

Definition cmp_start (s : str) : Prop :=
  match s with c :: _ => c <> 61%N /\ not_ws s | [] => False end.

Lemma xcmpb_start c tail : xcmpb_ok c -> cmp_start (xcmpb_text c ++ tail).
Proof.
  intros Hc. destruct c as [[z|k|[|]| ]|[|] l]; cbn [xcmpb_text xlit_text xsq_text app cmp_start not_ws];
    try (split; [discriminate|repeat split; discriminate]).
  destruct (int_text_head z) as [h [t [E Hh]]]. rewrite E. cbn [app cmp_start not_ws].
  destruct Hh as [-> |Hh]; [split; [discriminate|repeat split; discriminate]|].
  apply is_digit_bounds in Hh. split; [lia|repeat split; lia].
Qed.

Lemma comp_op_runs o rest pos :
  cmp_start rest ->
  RunsG 20 (ECall R_comp_op) ANonAtomic (op_text o ++ rest) pos
        (Ok rest (pos + length (op_text o)) [Pair R_comp_op pos (pos + length (op_text o)) []]).
Proof.
  intros H. destruct rest as [|c r]; [destruct H|]. cbn [cmp_start] in H. destruct H as [Hc _].
  destruct o; cbn [op_text app]; pegd_upto.
Qed.

Definition xcmp_text (o : cmpop) (l r : xcmpb) : str := xcmpb_text l ++ op_text o ++ xcmpb_text r.
Definition xcmp_pair (pos : nat) (o : cmpop) (l r : xcmpb) : pair rname :=
  let p1 := pos + length (xcmpb_text l) in
  let p2 := p1 + length (op_text o) in
  Pair R_comp_expr pos (pos + length (xcmp_text o l r))
       [xcmpb_pair pos l; Pair R_comp_op p1 p2 []; xcmpb_pair p2 r].

Lemma op_text_head o tail : exists c t, op_text o ++ tail = c :: t /\ qstop_char c.
Proof.
  destruct o; cbn [op_text app]; eexists _, _; (split; [reflexivity|]); unfold qstop_char; auto 10.
Qed.

Lemma comp_expr_runs o l r c0 rest pos :
  xcmpb_ok l -> xcmpb_ok r -> qstop_char c0 ->
  RunsG (140 + length (xcmp_text o l r)) (ECall R_comp_expr) ANonAtomic (xcmp_text o l r ++ c0 :: rest) pos
        (Ok (c0 :: rest) (pos + length (xcmp_text o l r)) [xcmp_pair pos o l r]).
Proof.
  intros Hl Hr H0. unfold xcmp_pair, xcmp_text. repeat rewrite <- app_assoc.
  destruct (op_text_head o (xcmpb_text r ++ c0 :: rest)) as [c1 [t1 [E1 Hc1]]].
  pose proof (xcmpb_start r (c0 :: rest) Hr) as Hstart.
  assert (Hnw_op : not_ws (op_text o ++ xcmpb_text r ++ c0 :: rest)).
  { rewrite E1. apply (seg_stop_not_ws (c1 :: t1)). exact Hc1. }
  assert (Hnw_r : not_ws (xcmpb_text r ++ c0 :: rest)).
  { destruct (xcmpb_text r ++ c0 :: rest); [destruct Hstart|apply Hstart]. }
  assert (Hnw0 : not_ws (c0 :: rest)) by (apply (seg_stop_not_ws (c0 :: rest)); exact H0).
  eapply runs_conv.
  - eapply runs_call; [reflexivity|]. cbn [call_atomicity].
    eapply runs_seq.
    { eapply runs_seq.
      { eapply runs_seq.
        { eapply runs_seq.
          { rewrite E1. apply comparable_runs; assumption. }
          { red_res. rewrite <- E1. apply skip_none. exact Hnw_op. }
          { red_res. apply S_none. exact Hnw_op. } }
        { red_res. apply skip_none. exact Hnw_op. }
        { red_res. apply comp_op_runs. exact Hstart. } }
      { red_res. apply skip_none. exact Hnw_r. }
      { red_res. apply S_none. exact Hnw_r. } }
    { red_res. apply skip_none. exact Hnw_r. }
    { red_res. apply comparable_runs; assumption. }
  - norm_len. bound.
  - red_res. norm_len. repeat (f_equal; try lia).
Qed.

(* ---------- atoms over an abstract kind of selector ---------- *)
(* what may follow an atom: ] ) , | & ; an and-chain: ] ) , | ; a logical expression: ] ) , *)
Definition tstop_char (c : N) : Prop := c = 93%N \/ c = 41%N \/ c = 44%N \/ c = 124%N \/ c = 38%N.
Lemma tstop_qstop c : tstop_char c -> qstop_char c.
Proof. unfold tstop_char, qstop_char. intros H. repeat (destruct H as [H|H]); subst; auto 10. Qed.

Lemma comp_op_fail_on s pos :
  match s with [] => True | c :: _ => c = 46%N \/ c = 91%N \/ tstop_char c end ->
  RunsG 20 (ECall R_comp_op) ANonAtomic s pos Fail.
Proof.
  intros H. destruct s as [|c r]; [pegd_upto|].
  destruct H as [-> |[-> |H]]; [pegd_upto|pegd_upto|]. unfold tstop_char in H.
  repeat (destruct H as [H|H]); subst; pegd_upto.
Qed.

(* ---------- function names ---------- *)
Definition lc_b (c : N) : bool := N.leb 97 c && N.leb c 122.
Definition fnchar_b (c : N) : bool := lc_b c || N.eqb c 95 || is_digit c.
Lemma lc_bounds c : lc_b c = true -> (97 <= c <= 122)%N.
Proof. unfold lc_b. intros H. apply andb_true_iff in H. destruct H as [H1 H2]. apply N.leb_le in H1. apply N.leb_le in H2. lia. Qed.

Ltac peg_hook ::= base_hook.
Lemma fnchar_ok c rest pos :
  fnchar_b c = true -> RunsG 12 (ECall R_function_name_char) AAtomic (c :: rest) pos (Ok rest (S pos) []).
Proof.
  unfold fnchar_b. intros H. apply orb_true_iff in H. destruct H as [H|H]; [apply orb_true_iff in H; destruct H as [H|H]|].
  - apply lc_bounds in H. pegd_upto.
  - apply N.eqb_eq in H. subst c. pegd_upto.
  - apply is_digit_bounds in H. pegd_upto.
Qed.
Lemma fnchar_stop rest pos : RunsG 12 (ECall R_function_name_char) AAtomic (40%N :: rest) pos Fail.
Proof. pegd_upto. Qed.

Definition fname_ok (n : str) : Prop :=
  match n with c :: r => lc_b c = true /\ forallb fnchar_b r = true | [] => False end.

Lemma function_name_runs n rest pos :
  fname_ok n ->
  RunsG (30 + length n) (ECall R_function_name) ANonAtomic (n ++ 40%N :: rest) pos
        (Ok (40%N :: rest) (pos + length n) [Pair R_function_name pos (pos + length n) []]).
Proof.
  intros Hn. destruct n as [|c r]; [destruct Hn|]. destruct Hn as [Hc Hr]. cbn [app].
  assert (Hrep : RunsG (15 + length r) (ERep (ECall R_function_name_char)) AAtomic (r ++ 40%N :: rest) (S pos)
                       (Ok (40%N :: rest) (S pos + length r) [])).
  { eapply runs_conv.
    - eapply (runs_rep_chars _ grammar 12 (ECall R_function_name_char) fnchar_b).
      + intros c0 r0 p0 H0. apply fnchar_ok. exact H0.
      + exact Hr.
      + apply fnchar_stop.
    - lia.
    - reflexivity. }
  apply lc_bounds in Hc.
  eapply runs_conv.
  - eapply runs_call; [reflexivity|]. cbn [call_atomicity].
    eapply runs_seq.
    { pegd. }
    { red_res. pegd. }
    { red_res. exact Hrep. }
  - norm_len. bound.
  - red_res. norm_len. repeat (f_equal; try lia).
Qed.

Inductive fn1 := FLength | FCount | FValue.
Inductive fn2 := FMatch | FSearch | FIn | FNin | FNoneOf | FAnyOf | FSubsetOf.   (* the last five: the crate's extension functions *)
Definition fn1_name (k : fn1) : str :=
  match k with
  | FLength => [108; 101; 110; 103; 116; 104]%N
  | FCount => [99; 111; 117; 110; 116]%N
  | FValue => [118; 97; 108; 117; 101]%N
  end.
Definition fn2_name (k : fn2) : str :=
  match k with
  | FMatch => [109; 97; 116; 99; 104]%N
  | FSearch => [115; 101; 97; 114; 99; 104]%N
  | FIn => [105; 110]%N
  | FNin => [110; 105; 110]%N
  | FNoneOf => [110; 111; 110; 101; 95; 111; 102]%N
  | FAnyOf => [97; 110; 121; 95; 111; 102]%N
  | FSubsetOf => [115; 117; 98; 115; 101; 116; 95; 111; 102]%N
  end.

Lemma fn1_name_ok k : fname_ok (fn1_name k).
Proof. destruct k; split; reflexivity. Qed.
Lemma fn2_name_ok k : fname_ok (fn2_name k).
Proof. destruct k; split; reflexivity. Qed.

Section Atoms.
  Variable sel : Type.
  Variable stext : sel -> str.
  Variable spair : nat -> sel -> pair rname.
  Variable sok : sel -> Prop.
  Variable sdep : sel -> nat.
  Hypothesis sel_runs : forall s c rest pos, sok s -> sel_stop c ->
    RunsG (sdep s) (ECall R_selector) ANonAtomic (stext s ++ c :: rest) pos
          (Ok (c :: rest) (pos + length (stext s)) [spair pos s]).
  Hypothesis sel_not_ws : forall s tail, sok s -> not_ws (stext s ++ tail).
  (* how the singular-segment rules of a comparison see a bracket that holds this selector *)
  Definition sq_alt : expr rname := EAlt (ECall R_name_segment) (ECall R_index_segment).
  Hypothesis sel_sq_close : forall s rest pos, sok s ->
    (exists toks, RunsG (20 + sdep s) sq_alt ANonAtomic (91%N :: stext s ++ 93%N :: rest) pos
                        (Ok rest (pos + length (stext s) + 2) toks))
    \/ RunsG (20 + sdep s) sq_alt ANonAtomic (91%N :: stext s ++ 93%N :: rest) pos Fail.
  Hypothesis sel_sq_comma : forall s rest pos, sok s ->
    RunsG (20 + sdep s) sq_alt ANonAtomic (91%N :: stext s ++ 44%N :: rest) pos Fail.

  Notation gseg := (gseg sel).
  Notation gseg_text := (gseg_text sel stext).
  Notation gsegs_text := (gsegs_text sel stext).
  Notation gseg_ok := (gseg_ok sel sok).
  Notation gdep := (gdep sel sdep).
  Notation qdep := (qdep sel sdep).
  Notation gsegs_pairs := (gsegs_pairs sel stext spair).

  Definition after_sq (s : str) : Prop :=
    match s with [] => True | c :: _ => c = 46%N \/ c = 91%N \/ tstop_char c end.

  Ltac peg_hook ::= sq_hook.

  (* one step of the singular-segment repetition on a general segment: it takes the whole segment, or fails *)
  Lemma sq_iter_on_gseg g rest pos :
    gseg_ok g -> name_follow rest ->
    (exists toks, RunsG (60 + gdep g) sq_iter ANonAtomic (gseg_text g ++ rest) pos (Ok rest (pos + length (gseg_text g)) toks))
    \/ RunsG (60 + gdep g) sq_iter ANonAtomic (gseg_text g ++ rest) pos Fail.
  Proof.
    intros Hg Hr. unfold sq_iter.
    destruct (gseg_text_head sel stext g rest) as [c0 [r0 [E0 Hc0]]].
    assert (Hw : not_ws (gseg_text g ++ rest)).
    { rewrite E0. destruct Hc0 as [-> | ->]; cbn [not_ws]; repeat split; lia. }
    destruct g as [s l|n| |s l|n| ]; cbn [GenParse.gseg_ok GenParse.gdep GenParse.gseg_text] in *.
    - (* [s l] *)
      destruct Hg as [Hs Hl]. unfold gbracket_text. cbn [app]. repeat (rewrite <- app_assoc; cbn [app]).
      destruct l as [|s2 l].
      + cbn [gcommas_text flat_map app].
        destruct (sel_sq_close s rest (pos) Hs) as [[toks H]|H].
        * left. exists toks. eapply runs_conv.
          -- eapply runs_seq_ok; [apply S_none|apply skip_none|exact H]; cbn [not_ws]; repeat split; lia.
          -- unfold bdep. cbn [length ldep fold_right]. lia.
          -- unfold gbracket_text. cbn [gcommas_text flat_map app]. norm_len. repeat (f_equal; try lia).
        * right. eapply runs_weaken.
          -- eapply runs_seq_fail2; [apply S_none|apply skip_none|exact H]; cbn [not_ws]; repeat split; lia.
          -- unfold bdep. cbn [length ldep fold_right]. lia.
      + right. unfold gcommas_text. cbn [flat_map app]. repeat (rewrite <- app_assoc; cbn [app]).
        eapply runs_weaken.
        * eapply runs_seq_fail2; [apply S_none|apply skip_none|apply (sel_sq_comma s _ pos Hs)]; cbn [not_ws]; repeat split; lia.
        * unfold bdep. cbn [length ldep fold_right]. lia.
    - (* .n *)
      left. assert (Hn := Hg). destruct n as [|c r]; [destruct Hg|]. destruct Hg as [Hc _].
      apply name_first_cases in Hc. cbn [app]. eexists. eapply runs_conv; [pegd| |].
      + norm_len. bound.
      + red_res. norm_len. repeat (f_equal; try lia).
    - right. cbn [app]. pegd_upto.
    - right. cbn [app]. pegd_upto.
    - right. cbn [app]. pegd_upto.
    - right. cbn [app]. pegd_upto.
  Qed.

  Definition tstop (s : str) : Prop := match s with [] => False | c :: _ => tstop_char c end.
  Lemma tstop_seg_stop s : tstop s -> seg_stop s.
  Proof. destruct s as [|c r]; [intros []|]. apply tstop_qstop. Qed.
  Lemma tstop_after_sq s : tstop s -> after_sq s.
  Proof. destruct s as [|c r]; [intros []|]. cbn. auto. Qed.
  Lemma after_sq_not_ws s : after_sq s -> not_ws s.
  Proof.
    destruct s as [|c r]; [intros _; exact I|]. cbn [after_sq not_ws]. unfold tstop_char.
    intros H. repeat split; intros ->; repeat (destruct H as [H|H]; try discriminate).
  Qed.

  Lemma gseg_head_after_sq g rest : after_sq (gseg_text g ++ rest).
  Proof.
    destruct (gseg_text_head sel stext g rest) as [c [r [E Hc]]]. rewrite E. cbn [after_sq].
    destruct Hc as [-> | ->]; auto.
  Qed.

  Lemma sq_prefix_tail q : forall stop pos,
    Forall gseg_ok q -> tstop stop ->
    exists rem p toks,
      RunsG (90 + length q + qdep q) (ERepTail sq_iter) ANonAtomic (gsegs_text q ++ stop) pos (Ok rem p toks)
      /\ after_sq rem.
  Proof.
    induction q as [|g q IH]; intros stop pos Hq Hstop.
    - cbn [GenParse.gsegs_text flat_map app length GenParse.qdep fold_right].
      exists stop, pos, []. split; [|apply tstop_after_sq; exact Hstop].
      eapply runs_weaken.
      + eapply runs_reptail_stop; [apply skip_none; apply seg_stop_not_ws, tstop_seg_stop; exact Hstop
                                  |apply sq_iter_stop; apply tstop_seg_stop; exact Hstop].
      + lia.
    - pose proof (Forall_inv Hq) as Hg. pose proof (Forall_inv_tail Hq) as Hq'.
      unfold GenParse.gsegs_text. cbn [flat_map]. fold (gsegs_text q). rewrite <- app_assoc.
      assert (Hw : not_ws (gseg_text g ++ gsegs_text q ++ stop)) by (apply after_sq_not_ws, gseg_head_after_sq).
      assert (Hf : name_follow (gsegs_text q ++ stop)) by (apply gsegs_follow, tstop_seg_stop; exact Hstop).
      pose proof (gseg_len_pos sel stext g) as Hlen.
      destruct (sq_iter_on_gseg g (gsegs_text q ++ stop) pos Hg Hf) as [[toks H]|H].
      + destruct (IH stop (pos + length (gseg_text g)) Hq' Hstop) as [rem [p [toks2 [H2 Ha]]]].
        exists rem, p, (toks ++ toks2). split; [|exact Ha].
        eapply runs_weaken.
        * eapply runs_reptail_more; [apply skip_none; exact Hw|exact H|lia|exact H2].
        * cbn [length GenParse.qdep fold_right]. fold (qdep q). lia.
      + exists (gseg_text g ++ gsegs_text q ++ stop), pos, []. split; [|apply gseg_head_after_sq].
        eapply runs_weaken.
        * eapply runs_reptail_stop; [apply skip_none; exact Hw|exact H].
        * cbn [length GenParse.qdep fold_right]. fold (qdep q). lia.
  Qed.

  Lemma sq_prefix q stop pos :
    Forall gseg_ok q -> tstop stop ->
    exists rem p toks,
      RunsG (95 + length q + qdep q) (ECall R_singular_query_segments) ANonAtomic (gsegs_text q ++ stop) pos (Ok rem p toks)
      /\ after_sq rem.
  Proof.
    intros Hq Hstop. destruct q as [|g q].
    - cbn [GenParse.gsegs_text flat_map app length GenParse.qdep fold_right].
      eexists stop, pos, _. split; [|apply tstop_after_sq; exact Hstop].
      eapply runs_weaken.
      + eapply runs_call_normal_ok; [reflexivity|]. eapply runs_rep_none. apply sq_iter_stop. apply tstop_seg_stop. exact Hstop.
      + lia.
    - pose proof (Forall_inv Hq) as Hg. pose proof (Forall_inv_tail Hq) as Hq'.
      unfold GenParse.gsegs_text. cbn [flat_map]. fold (gsegs_text q). rewrite <- app_assoc.
      assert (Hf : name_follow (gsegs_text q ++ stop)) by (apply gsegs_follow, tstop_seg_stop; exact Hstop).
      destruct (sq_iter_on_gseg g (gsegs_text q ++ stop) pos Hg Hf) as [[toks H]|H].
      + destruct (sq_prefix_tail q stop (pos + length (gseg_text g)) Hq' Hstop) as [rem [p [toks2 [H2 Ha]]]].
        eexists rem, p, _. split; [|exact Ha].
        eapply runs_weaken.
        * eapply runs_call_normal_ok; [reflexivity|]. eapply runs_rep_some; [exact H|exact H2].
        * cbn [length GenParse.qdep fold_right]. fold (qdep q). lia.
      + eexists (gseg_text g ++ gsegs_text q ++ stop), pos, _. split; [|apply gseg_head_after_sq].
        eapply runs_weaken.
        * eapply runs_call_normal_ok; [reflexivity|]. eapply runs_rep_none. exact H.
        * cbn [length GenParse.qdep fold_right]. fold (qdep q). lia.
  Qed.

  Lemma gsegs_not_ws q stop : tstop stop -> not_ws (gsegs_text q ++ stop).
  Proof.
    intros Hs. destruct q as [|g q].
    - apply seg_stop_not_ws, tstop_seg_stop. exact Hs.
    - unfold GenParse.gsegs_text. cbn [flat_map]. rewrite <- app_assoc. apply after_sq_not_ws, gseg_head_after_sq.
  Qed.

  (* a comparison cannot be read where an existence test stands: the comparable takes the singular prefix of
     the query, and no comparison operator follows *)
  Lemma comp_expr_fails_test (abs : bool) q stop pos :
    Forall gseg_ok q -> tstop stop ->
    RunsG (160 + (length q + qdep q)) (ECall R_comp_expr) ANonAtomic
          ((if abs then 36%N else 64%N) :: gsegs_text q ++ stop) pos Fail.
  Proof.
    intros Hq Hstop.
    destruct (sq_prefix q stop (pos + 1) Hq Hstop) as [rem [p [toks [Hsq Ha]]]].
    pose proof (after_sq_not_ws rem Ha) as Hnwr.
    pose proof (gsegs_not_ws q stop Hstop) as Hnwq.
    pose proof (comp_op_fail_on rem p Ha) as Hop.
    destruct abs.
    - eapply runs_conv; [|shelve|shelve].
      eapply runs_call; [reflexivity|]. cbn [call_atomicity].
      eapply runs_seq.
      { eapply runs_seq.
        { eapply runs_seq.
          { eapply runs_seq.
            { (* comparable *)
              eapply runs_call; [reflexivity|]. cbn [call_atomicity].
              eapply runs_alt.
              { eapply runs_alt.
                { pegd. }
                { red_res. eapply runs_call; [reflexivity|]. cbn [call_atomicity].
                  eapply runs_alt.
                  { pegd. }
                  { red_res. eapply runs_call; [reflexivity|]. cbn [call_atomicity].
                    eapply runs_seq; [pegd|red_res; apply skip_none; exact Hnwq|red_res; exact Hsq]. } } }
              { red_res. split; reflexivity. } }
            { red_res. apply skip_none. exact Hnwr. }
            { red_res. apply S_none. exact Hnwr. } }
          { red_res. apply skip_none. exact Hnwr. }
          { red_res. exact Hop. } }
        { red_res. split; reflexivity. }
        { red_res. split; reflexivity. } }
      { red_res. split; reflexivity. }
      { red_res. split; reflexivity. }
      Unshelve.
      + norm_len. bound.
      + red_res. reflexivity.
    - eapply runs_conv; [|shelve|shelve].
      eapply runs_call; [reflexivity|]. cbn [call_atomicity].
      eapply runs_seq.
      { eapply runs_seq.
        { eapply runs_seq.
          { eapply runs_seq.
            { eapply runs_call; [reflexivity|]. cbn [call_atomicity].
              eapply runs_alt.
              { eapply runs_alt.
                { pegd. }
                { red_res. eapply runs_call; [reflexivity|]. cbn [call_atomicity].
                  eapply runs_alt.
                  { eapply runs_call; [reflexivity|]. cbn [call_atomicity].
                    eapply runs_seq; [pegd|red_res; apply skip_none; exact Hnwq|red_res; exact Hsq]. }
                  { red_res. split; reflexivity. } } }
              { red_res. split; reflexivity. } }
            { red_res. apply skip_none. exact Hnwr. }
            { red_res. apply S_none. exact Hnwr. } }
          { red_res. apply skip_none. exact Hnwr. }
          { red_res. exact Hop. } }
        { red_res. split; reflexivity. }
        { red_res. split; reflexivity. } }
      { red_res. split; reflexivity. }
      { red_res. split; reflexivity. }
      Unshelve.
      + norm_len. bound.
      + red_res. reflexivity.
  Qed.

  Lemma tstop_not_ws_early s : tstop s -> not_ws s.
  Proof. intros H. apply after_sq_not_ws, tstop_after_sq. exact H. Qed.

  (* ---------- function calls ---------- *)
  Inductive xfn :=
  | XFn1 (k : fn1) (a : xarg)
  | XFn2 (k : fn2) (a b : xarg)
  with xarg :=
  | XALit (l : xlit)
  | XAQuery (abs : bool) (q : list gseg)
  | XAFn (f : xfn).

  Fixpoint ftext (f : xfn) : str :=
    match f with
    | XFn1 k a => fn1_name k ++ 40%N :: argtext a ++ [41%N]
    | XFn2 k a b => fn2_name k ++ 40%N :: argtext a ++ 44%N :: argtext b ++ [41%N]
    end
  with argtext (a : xarg) : str :=
    match a with
    | XALit l => xlit_text l
    | XAQuery abs q => (if abs then 36%N else 64%N) :: gsegs_text q
    | XAFn f => ftext f
    end.

  Fixpoint fpair (pos : nat) (f : xfn) : pair rname :=
    let en := pos + length (ftext f) in
    match f with
    | XFn1 k a =>
        let p1 := pos + length (fn1_name k) in
        Pair R_function_expr pos en [Pair R_function_name pos p1 []; argpair (p1 + 1) a]
    | XFn2 k a b =>
        let p1 := pos + length (fn2_name k) in
        let p2 := p1 + 1 + length (argtext a) + 1 in
        Pair R_function_expr pos en [Pair R_function_name pos p1 []; argpair (p1 + 1) a; argpair p2 b]
    end
  with argpair (pos : nat) (a : xarg) : pair rname :=
    let en := pos + length (argtext a) in
    Pair R_function_argument pos en
      [match a with
       | XALit l => xlit_pair pos l
       | XAQuery abs q =>
           Pair R_test pos en [Pair (if abs then R_jp_query else R_rel_query) pos en
                                    [Pair R_segments (pos + 1) en (gsegs_pairs (pos + 1) q)]]
       | XAFn f => Pair R_test pos en [fpair pos f]
       end].

  Fixpoint fok (f : xfn) : Prop :=
    match f with XFn1 _ a => argok a | XFn2 _ a b => argok a /\ argok b end
  with argok (a : xarg) : Prop :=
    match a with XALit l => xlit_ok l | XAQuery _ q => Forall gseg_ok q | XAFn f => fok f end.

  Fixpoint fdep (f : xfn) : nat :=
    match f with XFn1 _ a => 100 + argdep a | XFn2 _ a b => 100 + (argdep a + argdep b) end
  with argdep (a : xarg) : nat :=
    match a with
    | XALit l => 80 + length (xlit_text l)
    | XAQuery _ q => 120 + (length q + qdep q)
    | XAFn f => 60 + fdep f
    end.

  Lemma fdep_ge f : 100 <= fdep f.
  Proof. destruct f; cbn [fdep]; lia. Qed.

  Scheme xfn_ind2 := Induction for xfn Sort Prop
  with xarg_ind2 := Induction for xarg Sort Prop.
  Combined Scheme xfn_xarg_ind from xfn_ind2, xarg_ind2.

  Definition argstop (c : N) : Prop := c = 44%N \/ c = 41%N.
  Lemma argstop_tstop c : argstop c -> tstop_char c.
  Proof. unfold argstop, tstop_char. intros [-> | ->]; auto. Qed.

  Lemma ftext_head f tail : exists c t, ftext f ++ tail = c :: t /\ (97 <= c <= 122)%N.
  Proof. destruct f as [[| |] a|[| | | | | |] a b]; cbn [ftext fn1_name fn2_name app]; eexists _, _; (split; [reflexivity|lia]). Qed.

  Lemma argtext_not_ws a tail : argok a -> not_ws (argtext a ++ tail).
  Proof.
    intros H. destruct a as [l|abs q|f]; cbn [argtext argok] in *.
    - pose proof (xcmpb_start (XCLit l) tail H) as Hs. cbn [xcmpb_text] in Hs.
      destruct (xlit_text l ++ tail); [destruct Hs|apply Hs].
    - destruct abs; cbn [app not_ws]; repeat split; discriminate.
    - destruct (ftext_head f tail) as [c [t [E Hc]]]. rewrite E. cbn [not_ws]. repeat split; lia.
  Qed.

  Ltac peg_hook ::= base_hook.
  Lemma literal_fails_fn f tail pos : RunsG 40 (ECall R_literal) ANonAtomic (ftext f ++ tail) pos Fail.
  Proof. destruct f as [[| |] a|[| | | | | |] a b]; cbn [ftext fn1_name fn2_name app]; pegd_upto. Qed.
  Lemma rel_query_fails_fn f tail pos : RunsG 40 (ECall R_rel_query) ANonAtomic (ftext f ++ tail) pos Fail.
  Proof. destruct f as [[| |] a|[| | | | | |] a b]; cbn [ftext fn1_name fn2_name app]; pegd_upto. Qed.
  Lemma jp_query_fails_fn f tail pos : RunsG 40 (ECall R_jp_query) ANonAtomic (ftext f ++ tail) pos Fail.
  Proof. destruct f as [[| |] a|[| | | | | |] a b]; cbn [ftext fn1_name fn2_name app]; pegd_upto. Qed.
  Lemma singular_query_fails_fn f tail pos : RunsG 40 (ECall R_singular_query) ANonAtomic (ftext f ++ tail) pos Fail.
  Proof. destruct f as [[| |] a|[| | | | | |] a b]; cbn [ftext fn1_name fn2_name app]; pegd_upto. Qed.
  Lemma paren_fails_fn f tail pos : RunsG 40 (ECall R_paren_expr) ANonAtomic (ftext f ++ tail) pos Fail.
  Proof. destruct f as [[| |] a|[| | | | | |] a b]; cbn [ftext fn1_name fn2_name app]; pegd_upto. Qed.

  Lemma not_op_none_fn f tail pos :
    RunsG 10 (EOpt (ECall R_not_op)) ANonAtomic (ftext f ++ tail) pos (Ok (ftext f ++ tail) pos []).
  Proof. destruct f as [[| |] a|[| | | | | |] a b]; cbn [ftext fn1_name fn2_name app]; pegd_upto. Qed.

  Definition Pf (f : xfn) : Prop :=
    fok f -> forall rest pos,
      RunsG (fdep f) (ECall R_function_expr) ANonAtomic (ftext f ++ rest) pos
            (Ok rest (pos + length (ftext f)) [fpair pos f]).
  Definition Pa (a : xarg) : Prop :=
    argok a -> forall c rest pos, argstop c ->
      RunsG (argdep a) (ECall R_function_argument) ANonAtomic (argtext a ++ c :: rest) pos
            (Ok (c :: rest) (pos + length (argtext a)) [argpair pos a]).

  Ltac fn_hook :=
    lazymatch goal with
    | |- Runs _ _ (ECall R_WHITESPACE) AAtomic _ _ _ => apply ws_fail; solve_not_ws
    | |- Runs _ _ (ECall R_S) _ _ _ _ => apply S_none; solve_not_ws
    | H : forall c rest pos, argstop c -> Runs _ _ (ECall R_function_argument) _ (argtext ?a ++ c :: rest) pos _
      |- Runs _ _ (ECall R_function_argument) _ (argtext ?a ++ _ :: _) _ _ => apply H; unfold argstop; auto
    | H : forall rest pos, Runs _ _ (ECall R_function_expr) _ (ftext ?f ++ rest) pos _
      |- Runs _ _ (ECall R_function_expr) _ (ftext ?f ++ _) _ _ => apply H
    | H : forall p, Runs _ _ (ECall R_segments) _ (gsegs_text ?q ++ _) p _
      |- Runs _ _ (ECall R_segments) _ (gsegs_text ?q ++ _) _ _ => apply H
    | |- Runs _ _ (ECall R_literal) _ (xlit_text _ ++ _ :: _) _ _ => apply literal_runs; assumption
    | |- Runs _ _ (ECall R_literal) _ (ftext _ ++ _) _ _ => apply literal_fails_fn
    | |- Runs _ _ (ECall R_rel_query) _ (ftext _ ++ _) _ _ => apply rel_query_fails_fn
    | |- Runs _ _ (ECall R_jp_query) _ (ftext _ ++ _) _ _ => apply jp_query_fails_fn
    | |- Runs _ _ (ECall R_singular_query) _ (ftext _ ++ _) _ _ => apply singular_query_fails_fn
    | |- Runs _ _ (ECall R_function_name) _ (fn1_name _ ++ 40%N :: _) _ _ => apply function_name_runs; apply fn1_name_ok
    | |- Runs _ _ (ECall R_function_name) _ (fn2_name _ ++ 40%N :: _) _ _ => apply function_name_runs; apply fn2_name_ok
    end.
  Ltac peg_hook ::= fn_hook.

  Lemma fn_arg_all : (forall f, Pf f) /\ (forall a, Pa a).
  Proof.
    apply xfn_xarg_ind.
    - (* one argument *)
      intros k a IHa Hok rest pos. cbn [fok] in Hok. specialize (IHa Hok).
      pose proof (argtext_not_ws a (41%N :: rest) Hok) as Hnwa.
      assert (Hnw1 : not_ws (41%N :: rest)) by (cbn [not_ws]; repeat split; lia).
      assert (Hlen : length (fn1_name k) <= 6) by (destruct k; cbn [fn1_name length]; lia).
      cbn [ftext fdep fpair]. repeat (rewrite <- app_assoc; cbn [app]).
      pegd_upto.
    - (* two arguments *)
      intros k a IHa b IHb [Hoka Hokb] rest pos. specialize (IHa Hoka). specialize (IHb Hokb).
      pose proof (argtext_not_ws a (44%N :: argtext b ++ 41%N :: rest) Hoka) as Hnwa.
      pose proof (argtext_not_ws b (41%N :: rest) Hokb) as Hnwb.
      assert (Hnw1 : not_ws (41%N :: rest)) by (cbn [not_ws]; repeat split; lia).
      assert (Hnw2 : not_ws (44%N :: argtext b ++ 41%N :: rest)) by (cbn [not_ws]; repeat split; lia).
      assert (Hlen : length (fn2_name k) <= 9) by (destruct k; cbn [fn2_name length]; lia).
      cbn [ftext fdep fpair]. repeat (rewrite <- app_assoc; cbn [app]).
      pegd_upto.
    - (* literal *)
      intros l Hok c rest pos Hc. cbn [argok argtext argdep argpair] in *.
      pose proof (tstop_qstop c (argstop_tstop c Hc)) as Hq.
      pegd_upto.
    - (* query *)
      intros abs q Hq c rest pos Hc. cbn [argok argtext argdep argpair] in *.
      pose proof (argstop_tstop c Hc) as Ht.
      assert (Hss : seg_stop (c :: rest)) by (apply (tstop_seg_stop (c :: rest)); exact Ht).
      pose proof (gsegs_not_ws q (c :: rest) Ht) as Hnwq.
      assert (Hsegs : forall p, RunsG (75 + length q + qdep q) (ECall R_segments) ANonAtomic (gsegs_text q ++ c :: rest) p
                          (Ok (c :: rest) (p + length (gsegs_text q))
                              [Pair R_segments p (p + length (gsegs_text q)) (gsegs_pairs p q)])).
      { intros p. apply (gsegments_runs sel stext spair sok sdep sel_runs sel_not_ws q (c :: rest) p Hq Hss). }
      destruct abs; cbn [app]; pegd_upto.
    - (* nested call *)
      intros f IHf Hok c rest pos Hc. cbn [argok argtext argdep argpair] in *. specialize (IHf Hok).
      pegd_upto.
  Qed.

  Lemma fn_runs f : Pf f.
  Proof. apply fn_arg_all. Qed.

  (* ---------- comparables, function calls included ---------- *)
  Inductive xcmp := XCB (c : xcmpb) | XCF (f : xfn).
  Definition gcmp_text (c : xcmp) : str := match c with XCB c => xcmpb_text c | XCF f => ftext f end.
  Definition gcmp_ok (c : xcmp) : Prop := match c with XCB c => xcmpb_ok c | XCF f => fok f end.
  Definition gcmp_pair (pos : nat) (c : xcmp) : pair rname :=
    match c with
    | XCB c => xcmpb_pair pos c
    | XCF f => Pair R_comparable pos (pos + length (ftext f)) [fpair pos f]
    end.
  Definition gcmp_dep (c : xcmp) : nat :=
    match c with XCB c => 120 + length (xcmpb_text c) | XCF f => 20 + fdep f end.

  Lemma gcomparable_runs c c0 rest pos :
    gcmp_ok c -> qstop_char c0 ->
    RunsG (gcmp_dep c) (ECall R_comparable) ANonAtomic (gcmp_text c ++ c0 :: rest) pos
          (Ok (c0 :: rest) (pos + length (gcmp_text c)) [gcmp_pair pos c]).
  Proof.
    intros Hc H0. destruct c as [c|f]; cbn [gcmp_ok gcmp_text gcmp_dep gcmp_pair] in *.
    - apply comparable_runs; assumption.
    - pose proof (fn_runs f Hc) as Hf. pose proof (fdep_ge f). pegd_upto.
  Qed.

  Lemma gcmp_start c tail : gcmp_ok c -> cmp_start (gcmp_text c ++ tail).
  Proof.
    intros Hc. destruct c as [c|f]; cbn [gcmp_ok gcmp_text] in *.
    - apply xcmpb_start. exact Hc.
    - destruct (ftext_head f tail) as [h [t [E Hh]]]. rewrite E. cbn [cmp_start not_ws]. split; [lia|repeat split; lia].
  Qed.

  Definition gxcmp_text (o : cmpop) (l r : xcmp) : str := gcmp_text l ++ op_text o ++ gcmp_text r.
  Definition gxcmp_pair (pos : nat) (o : cmpop) (l r : xcmp) : pair rname :=
    let p1 := pos + length (gcmp_text l) in
    let p2 := p1 + length (op_text o) in
    Pair R_comp_expr pos (pos + length (gxcmp_text o l r))
         [gcmp_pair pos l; Pair R_comp_op p1 p2 []; gcmp_pair p2 r].

  Lemma gcomp_expr_runs o l r c0 rest pos :
    gcmp_ok l -> gcmp_ok r -> qstop_char c0 ->
    RunsG (40 + (gcmp_dep l + gcmp_dep r)) (ECall R_comp_expr) ANonAtomic (gxcmp_text o l r ++ c0 :: rest) pos
          (Ok (c0 :: rest) (pos + length (gxcmp_text o l r)) [gxcmp_pair pos o l r]).
  Proof.
    intros Hl Hr H0. unfold gxcmp_pair, gxcmp_text. repeat rewrite <- app_assoc.
    destruct (op_text_head o (gcmp_text r ++ c0 :: rest)) as [c1 [t1 [E1 Hc1]]].
    pose proof (gcmp_start r (c0 :: rest) Hr) as Hstart.
    assert (Hnw_op : not_ws (op_text o ++ gcmp_text r ++ c0 :: rest)).
    { rewrite E1. apply (seg_stop_not_ws (c1 :: t1)). exact Hc1. }
    assert (Hnw_r : not_ws (gcmp_text r ++ c0 :: rest)).
    { destruct (gcmp_text r ++ c0 :: rest); [destruct Hstart|apply Hstart]. }
    assert (Hnw0 : not_ws (c0 :: rest)) by (apply (seg_stop_not_ws (c0 :: rest)); exact H0).
    eapply runs_conv.
    - eapply runs_call; [reflexivity|]. cbn [call_atomicity].
      eapply runs_seq.
      { eapply runs_seq.
        { eapply runs_seq.
          { eapply runs_seq.
            { rewrite E1. apply gcomparable_runs; assumption. }
            { red_res. rewrite <- E1. apply skip_none. exact Hnw_op. }
            { red_res. apply S_none. exact Hnw_op. } }
          { red_res. apply skip_none. exact Hnw_op. }
          { red_res. apply comp_op_runs. exact Hstart. } }
        { red_res. apply skip_none. exact Hnw_r. }
        { red_res. apply S_none. exact Hnw_r. } }
      { red_res. apply skip_none. exact Hnw_r. }
      { red_res. apply gcomparable_runs; assumption. }
    - norm_len. bound.
    - red_res. norm_len. repeat (f_equal; try lia).
  Qed.

  (* where a function call stands as a test, a comparison cannot be read: the comparable takes the whole call and
     no comparison operator follows *)
  Lemma comp_expr_fails_fn f stop pos :
    fok f -> tstop stop ->
    RunsG (60 + fdep f) (ECall R_comp_expr) ANonAtomic (ftext f ++ stop) pos Fail.
  Proof.
    intros Hf Hstop. pose proof (fn_runs f Hf) as Hrun. pose proof (fdep_ge f) as Hge.
    pose proof (tstop_not_ws_early stop Hstop) as Hnws.
    assert (Hop : forall p, RunsG 20 (ECall R_comp_op) ANonAtomic stop p Fail).
    { intros p. apply comp_op_fail_on. destruct stop as [|c r]; [exact I|]. right. right. exact Hstop. }
    eapply runs_conv; [|shelve|shelve].
    eapply runs_call; [reflexivity|]. cbn [call_atomicity].
    eapply runs_seq.
    { eapply runs_seq.
      { eapply runs_seq.
        { eapply runs_seq.
          { pegd. }
          { red_res. apply skip_none. exact Hnws. }
          { red_res. apply S_none. exact Hnws. } }
        { red_res. apply skip_none. exact Hnws. }
        { red_res. apply Hop. } }
      { red_res. split; reflexivity. }
      { red_res. split; reflexivity. } }
    { red_res. split; reflexivity. }
    { red_res. split; reflexivity. }
    Unshelve.
    + norm_len. bound.
    + red_res. reflexivity.
  Qed.

  Lemma atom_alts_fail_negfn f tail pos :
    RunsG 40 (EAlt (ECall R_paren_expr) (ECall R_comp_expr)) ANonAtomic (33%N :: ftext f ++ tail) pos Fail.
  Proof. destruct f as [[| |] a|[| | | | | |] a b]; cbn [ftext fn1_name fn2_name app]; pegd_upto. Qed.

  (* ---------- logical expressions ---------- *)
  Inductive xatom :=
  | XParen (neg : bool) (e : list (list xatom))      (* (e) or !(e); e = or-list of and-lists of atoms *)
  | XTest (neg abs : bool) (q : list gseg)           (* @segments / $segments, possibly negated *)
  | XCmp (o : cmpop) (l r : xcmp)
  | XFnTest (neg : bool) (f : xfn).                   (* a function call as a test, possibly negated *)

  Definition join {A} (sep : str) (f : A -> str) : list A -> str :=
    fix go (l : list A) : str :=
      match l with
      | [] => []
      | x :: l' => match l' with [] => f x | _ => f x ++ sep ++ go l' end
      end.
  Definition s_and : str := [38; 38]%N.
  Definition s_or : str := [124; 124]%N.
  Definition bang (neg : bool) : str := if neg then [33%N] else [].

  Fixpoint atext (a : xatom) : str :=
    match a with
    | XParen neg e => bang neg ++ 40%N :: join s_or (join s_and atext) e ++ [41%N]
    | XTest neg abs q => bang neg ++ (if abs then 36%N else 64%N) :: gsegs_text q
    | XCmp o l r => gxcmp_text o l r
    | XFnTest neg f => bang neg ++ ftext f
    end.
  Definition and_text (c : list xatom) : str := join s_and atext c.
  Definition or_text (e : list (list xatom)) : str := join s_or and_text e.

  (* pairs of a separated list: element i starts after the previous one and a separator of length 2 *)
  Definition pairs_sep {A} (len : A -> nat) (mk : nat -> A -> pair rname) : nat -> list A -> list (pair rname) :=
    fix go (pos : nat) (l : list A) : list (pair rname) :=
      match l with [] => [] | x :: l' => mk pos x :: go (pos + len x + 2) l' end.

  Definition not_pairs (neg : bool) (pos : nat) : list (pair rname) :=
    if neg then [Pair R_not_op pos (pos + 1) []] else [].

  Fixpoint apair (pos : nat) (a : xatom) : pair rname :=
    let en := pos + length (atext a) in
    Pair R_atom_expr pos en
      [match a with
       | XParen neg e =>
           let p1 := pos + length (bang neg) + 1 in
           Pair R_paren_expr pos en
                (not_pairs neg pos ++
                 [Pair R_logical_expr p1 (p1 + length (or_text e))
                       (pairs_sep (fun c => length (and_text c))
                                  (fun p c => Pair R_logical_expr_and p (p + length (and_text c))
                                                   (pairs_sep (fun a => length (atext a)) apair p c))
                                  p1 e)])
       | XTest neg abs q =>
           let p1 := pos + length (bang neg) in
           Pair R_test_expr pos en
                (not_pairs neg pos ++
                 [Pair R_test p1 en
                       [Pair (if abs then R_jp_query else R_rel_query) p1 en
                             [Pair R_segments (p1 + 1) en (gsegs_pairs (p1 + 1) q)]]])
       | XCmp o l r => gxcmp_pair pos o l r
       | XFnTest neg f =>
           let p1 := pos + length (bang neg) in
           Pair R_test_expr pos en (not_pairs neg pos ++ [Pair R_test p1 en [fpair p1 f]])
       end].
  Definition and_pair (pos : nat) (c : list xatom) : pair rname :=
    Pair R_logical_expr_and pos (pos + length (and_text c)) (pairs_sep (fun a => length (atext a)) apair pos c).
  Definition or_pair (pos : nat) (e : list (list xatom)) : pair rname :=
    Pair R_logical_expr pos (pos + length (or_text e)) (pairs_sep (fun c => length (and_text c)) and_pair pos e).

  Inductive aok : xatom -> Prop :=
  | aok_paren neg e : e <> [] -> (forall c, In c e -> c <> [] /\ forall a, In a c -> aok a) -> aok (XParen neg e)
  | aok_test neg abs q : Forall gseg_ok q -> aok (XTest neg abs q)
  | aok_cmp o l r : gcmp_ok l -> gcmp_ok r -> aok (XCmp o l r)
  | aok_fn neg f : fok f -> aok (XFnTest neg f).

  Definition lmax {A} (f : A -> nat) (l : list A) : nat := fold_right (fun x acc => Nat.max (f x) acc) 0 l.
  Fixpoint adep (a : xatom) : nat :=
    match a with
    | XParen neg e => 120 + (length e + lmax (fun c => 60 + (length c + lmax adep c)) e)
    | XTest neg abs q => 260 + (length q + qdep q)
    | XCmp o l r => 100 + (gcmp_dep l + gcmp_dep r)
    | XFnTest neg f => 140 + fdep f
    end.
  Definition cdep (c : list xatom) : nat := 60 + (length c + lmax adep c).
  Definition edep (e : list (list xatom)) : nat := 60 + (length e + lmax cdep e).

  Fixpoint asize (a : xatom) : nat :=
    match a with
    | XParen _ e => S (list_sum (map (fun c => S (list_sum (map asize c))) e))
    | _ => 1
    end.

  Lemma asize_in_paren neg e c a : In c e -> In a c -> asize a < asize (XParen neg e).
  Proof.
    intros Hc Ha. cbn [asize].
    assert (H1 : forall (l : list nat) x, In x l -> x <= list_sum l).
    { induction l as [|y l IH]; intros x H; [destruct H|]. change (list_sum (y :: l)) with (y + list_sum l).
      destruct H as [->|H]; [lia|]. specialize (IH x H). lia. }
    assert (H2 : S (list_sum (map asize c)) <= list_sum (map (fun c => S (list_sum (map asize c))) e)).
    { apply H1. apply (in_map (fun c => S (list_sum (map asize c))) e c Hc). }
    assert (H3 : asize a <= list_sum (map asize c)) by (apply H1; apply in_map; exact Ha).
    lia.
  Qed.

  Lemma join_cons {A} sep (f : A -> str) x l : join sep f (x :: l) = f x ++ flat_map (fun y => sep ++ f y) l.
  Proof.
    revert x. induction l as [|y l IH]; intros x; [cbn; rewrite app_nil_r; reflexivity|].
    change (join sep f (x :: y :: l)) with (f x ++ sep ++ join sep f (y :: l)). rewrite (IH y).
    cbn [flat_map]. rewrite <- app_assoc. reflexivity.
  Qed.

  Lemma pairs_sep_cons {A} (len : A -> nat) mk pos x (l : list A) :
    pairs_sep len mk pos (x :: l) = mk pos x :: pairs_sep len mk (pos + len x + 2) l.
  Proof. reflexivity. Qed.

  Definition astop (s : str) : Prop :=
    match s with [] => False | c :: _ => c = 93%N \/ c = 41%N \/ c = 44%N \/ c = 124%N end.
  Definition ostop (s : str) : Prop :=
    match s with [] => False | c :: _ => c = 93%N \/ c = 41%N \/ c = 44%N end.
  Lemma astop_tstop s : astop s -> tstop s.
  Proof. destruct s as [|c r]; [intros []|]. cbn. unfold tstop_char. intros H. repeat (destruct H as [H|H]); subst; auto 10. Qed.
  Lemma ostop_astop s : ostop s -> astop s.
  Proof. destruct s as [|c r]; [intros []|]. cbn. intros H. repeat (destruct H as [H|H]); subst; auto 10. Qed.
  Lemma tstop_not_ws s : tstop s -> not_ws s.
  Proof. intros H. apply seg_stop_not_ws, tstop_seg_stop. exact H. Qed.

  Definition and_iter : expr rname := ESeq (ESeq (EStr s_and) (ECall R_S)) (ECall R_atom_expr).
  Definition or_iter : expr rname := ESeq (ESeq (EStr s_or) (ECall R_S)) (ECall R_logical_expr_and).

  Lemma and_iter_stop stop pos : astop stop -> RunsG 10 and_iter ANonAtomic stop pos Fail.
  Proof.
    intros H. unfold and_iter, s_and. destruct stop as [|c r]; [destruct H|]. cbn [astop] in H.
    repeat (destruct H as [H|H]); subst; pegd_upto.
  Qed.
  Lemma or_iter_stop stop pos : ostop stop -> RunsG 10 or_iter ANonAtomic stop pos Fail.
  Proof.
    intros H. unfold or_iter, s_or. destruct stop as [|c r]; [destruct H|]. cbn [ostop] in H.
    repeat (destruct H as [H|H]); subst; pegd_upto.
  Qed.

  (* the head of an atom is not blank space *)
  Lemma xcmpb_not_ws c tail : xcmpb_ok c -> not_ws (xcmpb_text c ++ tail).
  Proof.
    intros H. pose proof (xcmpb_start c tail H) as Hs. destruct (xcmpb_text c ++ tail); [destruct Hs|apply Hs].
  Qed.
  Lemma atext_not_ws a tail : aok a -> not_ws (atext a ++ tail).
  Proof.
    intros H. destruct H as [neg e _ _|neg abs q _|o l r Hl _|neg f Hf]; cbn [atext].
    - destruct neg; cbn [bang app not_ws]; repeat split; discriminate.
    - destruct neg, abs; cbn [bang app not_ws]; repeat split; discriminate.
    - unfold gxcmp_text. rewrite <- app_assoc. set (t := (op_text o ++ gcmp_text r) ++ tail).
      pose proof (gcmp_start l t Hl) as Hs. destruct (gcmp_text l ++ t); [destruct Hs|apply Hs].
    - destruct neg; cbn [bang app]; [cbn [not_ws]; repeat split; discriminate|].
      destruct (ftext_head f tail) as [h [t [E Hh]]]. rewrite E. cbn [not_ws]. repeat split; lia.
  Qed.

  Definition Patom (a : xatom) : Prop :=
    forall stop pos, aok a -> tstop stop ->
      RunsG (adep a) (ECall R_atom_expr) ANonAtomic (atext a ++ stop) pos
            (Ok stop (pos + length (atext a)) [apair pos a]).

  Definition ands_tail (c : list xatom) : str := flat_map (fun a => s_and ++ atext a) c.

  Lemma and_iter_step a rest pos :
    Patom a -> aok a -> tstop rest ->
    RunsG (20 + adep a) and_iter ANonAtomic (s_and ++ atext a ++ rest) pos
          (Ok rest (pos + 2 + length (atext a)) [apair (pos + 2) a]).
  Proof.
    intros HP Ha Hr. unfold and_iter. pose proof (atext_not_ws a rest Ha) as Hw.
    eapply runs_conv.
    - eapply runs_seq.
      { eapply runs_seq.
        { eapply runs_str_ok. unfold s_and. cbn [app match_str]. rewrite !N.eqb_refl. reflexivity. }
        { red_res. apply skip_none. exact Hw. }
        { red_res. apply S_none. exact Hw. } }
      { red_res. apply skip_none. exact Hw. }
      { red_res. apply HP; assumption. }
    - norm_len. bound.
    - red_res. unfold s_and. norm_len. repeat (f_equal; try lia).
  Qed.

  Lemma ands_tail_head c stop : astop stop -> tstop (ands_tail c ++ stop).
  Proof.
    intros H. destruct c as [|a c]; [apply astop_tstop; exact H|].
    unfold ands_tail, s_and. cbn [flat_map app tstop]. unfold tstop_char. auto 10.
  Qed.

  Lemma reptail_ands c : forall stop pos,
    (forall a, In a c -> Patom a /\ aok a) -> astop stop ->
    RunsG (40 + (length c + lmax adep c)) (ERepTail and_iter) ANonAtomic (ands_tail c ++ stop) pos
          (Ok stop (pos + length (ands_tail c)) (pairs_sep (fun a => length (atext a)) apair (pos + 2) c)).
  Proof.
    induction c as [|a c IH]; intros stop pos Hc Hstop.
    - cbn [ands_tail flat_map app length lmax fold_right pairs_sep]. eapply runs_conv.
      + eapply runs_reptail_stop; [apply skip_none; apply tstop_not_ws, astop_tstop; exact Hstop|apply and_iter_stop; exact Hstop].
      + lia.
      + f_equal. lia.
    - destruct (Hc a (or_introl eq_refl)) as [HP Ha].
      assert (Hc' : forall a0, In a0 c -> Patom a0 /\ aok a0) by (intros a0 H0; apply Hc; right; exact H0).
      unfold ands_tail. cbn [flat_map]. fold (ands_tail c). rewrite pairs_sep_cons.
      repeat rewrite <- app_assoc.
      pose proof (ands_tail_head c stop Hstop) as Ht.
      eapply runs_conv.
      + eapply runs_reptail_more.
        * apply skip_none. unfold s_and. cbn [app not_ws]. repeat split; discriminate.
        * apply and_iter_step; assumption.
        * lia.
        * apply IH; assumption.
      + cbn [length lmax fold_right]. fold (lmax adep c). lia.
      + unfold s_and. norm_len. cbn [app]. repeat (f_equal; try lia).
  Qed.

  Lemma rep_ands c stop pos :
    (forall a, In a c -> Patom a /\ aok a) -> astop stop ->
    RunsG (42 + (length c + lmax adep c)) (ERep and_iter) ANonAtomic (ands_tail c ++ stop) pos
          (Ok stop (pos + length (ands_tail c)) (pairs_sep (fun a => length (atext a)) apair (pos + 2) c)).
  Proof.
    intros Hc Hstop. destruct c as [|a c].
    - cbn [ands_tail flat_map app length lmax fold_right pairs_sep]. eapply runs_conv.
      + eapply runs_rep_none. apply and_iter_stop. exact Hstop.
      + lia.
      + f_equal. lia.
    - destruct (Hc a (or_introl eq_refl)) as [HP Ha].
      assert (Hc' : forall a0, In a0 c -> Patom a0 /\ aok a0) by (intros a0 H0; apply Hc; right; exact H0).
      unfold ands_tail. cbn [flat_map]. fold (ands_tail c). rewrite pairs_sep_cons. repeat rewrite <- app_assoc.
      pose proof (ands_tail_head c stop Hstop) as Ht.
      eapply runs_conv.
      + eapply runs_rep_some; [apply and_iter_step; assumption|apply reptail_ands; assumption].
      + cbn [length lmax fold_right]. fold (lmax adep c). lia.
      + unfold s_and. norm_len. cbn [app]. repeat (f_equal; try lia).
  Qed.

  Definition Pand (c : list xatom) : Prop :=
    forall stop pos, astop stop ->
      RunsG (cdep c) (ECall R_logical_expr_and) ANonAtomic (and_text c ++ stop) pos
            (Ok stop (pos + length (and_text c)) [and_pair pos c]).

  Lemma and_runs c :
    c <> [] -> (forall a, In a c -> Patom a /\ aok a) -> Pand c.
  Proof.
    intros Hne Hc stop pos Hstop. destruct c as [|a c]; [contradiction|]. clear Hne.
    destruct (Hc a (or_introl eq_refl)) as [HP Ha].
    assert (Hc' : forall a0, In a0 c -> Patom a0 /\ aok a0) by (intros a0 H0; apply Hc; right; exact H0).
    unfold and_pair, and_text, cdep. rewrite join_cons. fold (ands_tail c). rewrite pairs_sep_cons. rewrite <- app_assoc.
    pose proof (ands_tail_head c stop Hstop) as Ht. pose proof (tstop_not_ws _ Ht) as Hw.
    eapply runs_conv.
    - eapply runs_call; [reflexivity|]. cbn [call_atomicity].
      eapply runs_seq.
      { eapply runs_seq.
        { apply HP; assumption. }
        { red_res. apply skip_none. exact Hw. }
        { red_res. apply S_none. exact Hw. } }
      { red_res. apply skip_none. exact Hw. }
      { red_res. apply rep_ands; assumption. }
    - cbn [length lmax fold_right]. fold (lmax adep c). norm_len. bound.
    - red_res. norm_len. repeat (f_equal; try lia).
  Qed.

  (* ---------- the or level ---------- *)
  Definition ors_tail (e : list (list xatom)) : str := flat_map (fun c => s_or ++ and_text c) e.

  Lemma and_text_not_ws c tail : c <> [] -> (forall a, In a c -> aok a) -> not_ws (and_text c ++ tail).
  Proof.
    intros Hne Hc. destruct c as [|a c]; [contradiction|]. unfold and_text. rewrite join_cons, <- app_assoc.
    apply atext_not_ws. apply Hc. left. reflexivity.
  Qed.

  Lemma or_iter_step c rest pos :
    Pand c -> c <> [] -> (forall a, In a c -> aok a) -> astop rest ->
    RunsG (20 + cdep c) or_iter ANonAtomic (s_or ++ and_text c ++ rest) pos
          (Ok rest (pos + 2 + length (and_text c)) [and_pair (pos + 2) c]).
  Proof.
    intros HP Hne Hc Hr. unfold or_iter. pose proof (and_text_not_ws c rest Hne Hc) as Hw.
    eapply runs_conv.
    - eapply runs_seq.
      { eapply runs_seq.
        { eapply runs_str_ok. unfold s_or. cbn [app match_str]. rewrite !N.eqb_refl. reflexivity. }
        { red_res. apply skip_none. exact Hw. }
        { red_res. apply S_none. exact Hw. } }
      { red_res. apply skip_none. exact Hw. }
      { red_res. apply HP. exact Hr. }
    - norm_len. bound.
    - red_res. unfold s_or. norm_len. repeat (f_equal; try lia).
  Qed.

  Lemma ors_tail_head e stop : ostop stop -> astop (ors_tail e ++ stop).
  Proof.
    intros H. destruct e as [|c e]; [apply ostop_astop; exact H|].
    unfold ors_tail, s_or. cbn [flat_map app astop]. auto 10.
  Qed.

  Definition cgood (c : list xatom) : Prop := Pand c /\ c <> [] /\ (forall a, In a c -> aok a).

  Lemma reptail_ors e : forall stop pos,
    (forall c, In c e -> cgood c) -> ostop stop ->
    RunsG (40 + (length e + lmax cdep e)) (ERepTail or_iter) ANonAtomic (ors_tail e ++ stop) pos
          (Ok stop (pos + length (ors_tail e)) (pairs_sep (fun c => length (and_text c)) and_pair (pos + 2) e)).
  Proof.
    induction e as [|c e IH]; intros stop pos He Hstop.
    - cbn [ors_tail flat_map app length lmax fold_right pairs_sep]. eapply runs_conv.
      + eapply runs_reptail_stop; [apply skip_none; apply tstop_not_ws, astop_tstop, ostop_astop; exact Hstop|apply or_iter_stop; exact Hstop].
      + lia.
      + f_equal. lia.
    - destruct (He c (or_introl eq_refl)) as [HP [Hne Hc]].
      assert (He' : forall c0, In c0 e -> cgood c0) by (intros c0 H0; apply He; right; exact H0).
      unfold ors_tail. cbn [flat_map]. fold (ors_tail e). rewrite pairs_sep_cons. repeat rewrite <- app_assoc.
      pose proof (ors_tail_head e stop Hstop) as Ht.
      eapply runs_conv.
      + eapply runs_reptail_more.
        * apply skip_none. unfold s_or. cbn [app not_ws]. repeat split; discriminate.
        * apply or_iter_step; assumption.
        * lia.
        * apply IH; assumption.
      + cbn [length lmax fold_right]. fold (lmax cdep e). lia.
      + unfold s_or. norm_len. cbn [app]. repeat (f_equal; try lia).
  Qed.

  Lemma rep_ors e stop pos :
    (forall c, In c e -> cgood c) -> ostop stop ->
    RunsG (42 + (length e + lmax cdep e)) (ERep or_iter) ANonAtomic (ors_tail e ++ stop) pos
          (Ok stop (pos + length (ors_tail e)) (pairs_sep (fun c => length (and_text c)) and_pair (pos + 2) e)).
  Proof.
    intros He Hstop. destruct e as [|c e].
    - cbn [ors_tail flat_map app length lmax fold_right pairs_sep]. eapply runs_conv.
      + eapply runs_rep_none. apply or_iter_stop. exact Hstop.
      + lia.
      + f_equal. lia.
    - destruct (He c (or_introl eq_refl)) as [HP [Hne Hc]].
      assert (He' : forall c0, In c0 e -> cgood c0) by (intros c0 H0; apply He; right; exact H0).
      unfold ors_tail. cbn [flat_map]. fold (ors_tail e). rewrite pairs_sep_cons. repeat rewrite <- app_assoc.
      pose proof (ors_tail_head e stop Hstop) as Ht.
      eapply runs_conv.
      + eapply runs_rep_some; [apply or_iter_step; assumption|apply reptail_ors; assumption].
      + cbn [length lmax fold_right]. fold (lmax cdep e). lia.
      + unfold s_or. norm_len. cbn [app]. repeat (f_equal; try lia).
  Qed.

  Definition Por (e : list (list xatom)) : Prop :=
    forall stop pos, ostop stop ->
      RunsG (edep e) (ECall R_logical_expr) ANonAtomic (or_text e ++ stop) pos
            (Ok stop (pos + length (or_text e)) [or_pair pos e]).

  Lemma or_runs e : e <> [] -> (forall c, In c e -> cgood c) -> Por e.
  Proof.
    intros Hne He stop pos Hstop. destruct e as [|c e]; [contradiction|]. clear Hne.
    destruct (He c (or_introl eq_refl)) as [HP [Hcne Hc]].
    assert (He' : forall c0, In c0 e -> cgood c0) by (intros c0 H0; apply He; right; exact H0).
    unfold or_pair, or_text, edep. rewrite join_cons. fold (ors_tail e). rewrite pairs_sep_cons. rewrite <- app_assoc.
    pose proof (ors_tail_head e stop Hstop) as Ht. pose proof (tstop_not_ws _ (astop_tstop _ Ht)) as Hw.
    eapply runs_conv.
    - eapply runs_call; [reflexivity|]. cbn [call_atomicity].
      eapply runs_seq.
      { eapply runs_seq.
        { apply HP. exact Ht. }
        { red_res. apply skip_none. exact Hw. }
        { red_res. apply S_none. exact Hw. } }
      { red_res. apply skip_none. exact Hw. }
      { red_res. apply rep_ors; assumption. }
    - cbn [length lmax fold_right]. fold (lmax cdep e). norm_len. bound.
    - red_res. norm_len. repeat (f_equal; try lia).
  Qed.

  (* ---------- atoms ---------- *)
  Ltac atom_hook :=
    lazymatch goal with
    | |- Runs _ _ (ECall R_WHITESPACE) AAtomic _ _ _ => apply ws_fail; solve_not_ws
    | |- Runs _ _ (ECall R_S) _ _ _ _ => apply S_none; solve_not_ws
    | |- Runs _ _ (ECall R_int) _ (int_text _ ++ _) _ _ => apply int_runs; solve [assumption | reflexivity | exact I]
    | |- Runs _ _ (EStr (_ :: _)) _ (int_text _ ++ _) _ _ =>
        eapply runs_str_fail; apply match_str_int_none; [discriminate|reflexivity]
    end.
  Ltac peg_hook ::= atom_hook.

  (* a parenthesised expression cannot start where a comparable starts *)
  Lemma paren_fails_cmp c tail pos :
    xcmpb_ok c -> RunsG 40 (ECall R_paren_expr) ANonAtomic (xcmpb_text c ++ tail) pos Fail.
  Proof.
    intros Hc. destruct c as [[z|k|[|]| ]|[|] l]; cbn [xcmpb_text xlit_text xsq_text s_true s_false s_null app].
    all: eapply runs_conv; [pegd|norm_len; bound|red_res; reflexivity].
  Qed.

  Lemma gparen_fails_cmp c tail pos :
    gcmp_ok c -> RunsG 40 (ECall R_paren_expr) ANonAtomic (gcmp_text c ++ tail) pos Fail.
  Proof.
    intros Hc. destruct c as [c|f]; cbn [gcmp_ok gcmp_text] in *; [apply paren_fails_cmp; exact Hc|apply paren_fails_fn].
  Qed.

  Lemma atom_cmp o l r : Patom (XCmp o l r).
  Proof.
    intros stop pos Ha Hstop. inversion Ha as [| |o' l' r' Hl Hr|]; subst.
    destruct stop as [|c0 rest]; [destruct Hstop|]. cbn [tstop] in Hstop. pose proof (tstop_qstop c0 Hstop) as Hq.
    cbn [atext adep apair].
    pose proof (gparen_fails_cmp l (op_text o ++ gcmp_text r ++ c0 :: rest) pos Hl) as Hp.
    unfold gxcmp_text. repeat rewrite <- app_assoc. 
    eapply runs_conv.
    - eapply runs_call; [reflexivity|]. cbn [call_atomicity].
      eapply runs_alt.
      { eapply runs_alt.
        { exact Hp. }
        { red_res. pose proof (gcomp_expr_runs o l r c0 rest pos Hl Hr Hq) as Hc.
          unfold gxcmp_text in Hc. repeat rewrite <- app_assoc in Hc. exact Hc. } }
      { red_res. split; reflexivity. }
    - unfold gxcmp_text. norm_len. bound.
    - red_res. unfold gxcmp_text. norm_len. repeat (f_equal; try lia).
  Qed.

  (* a function call as a test *)
  Lemma atom_fntest neg f : Patom (XFnTest neg f).
  Proof.
    intros stop pos Ha Hstop. inversion Ha as [| | |neg' f' Hf]; subst.
    pose proof (fn_runs f Hf) as Hrun. pose proof (fdep_ge f) as Hge.
    pose proof (tstop_not_ws stop Hstop) as Hnws.
    assert (Hnwf : not_ws (ftext f ++ stop)).
    { destruct (ftext_head f stop) as [h [t [E Hh]]]. rewrite E. cbn [not_ws]. repeat split; lia. }
    cbn [atext adep apair].
    destruct neg; cbn [bang app length not_pairs]; rewrite ?Nat.add_0_r.
    - (* !f(...) *)
      eapply runs_conv.
      + eapply runs_call; [reflexivity|]. cbn [call_atomicity].
        eapply runs_alt.
        { apply atom_alts_fail_negfn. }
        { red_res. eapply runs_call; [reflexivity|]. cbn [call_atomicity].
          eapply runs_seq.
          { eapply runs_seq; [pegd|red_res; apply skip_none; exact Hnwf|red_res; apply S_none; exact Hnwf]. }
          { red_res. apply skip_none. exact Hnwf. }
          { red_res. eapply runs_call; [reflexivity|]. cbn [call_atomicity].
            eapply runs_alt.
            { eapply runs_alt; [apply rel_query_fails_fn|red_res; apply jp_query_fails_fn]. }
            { red_res. apply Hrun. } } }
      + norm_len. bound.
      + red_res. norm_len. repeat (f_equal; try lia).
    - (* f(...) *)
      pose proof (comp_expr_fails_fn f stop pos Hf Hstop) as Hcmp.
      eapply runs_conv.
      + eapply runs_call; [reflexivity|]. cbn [call_atomicity].
        eapply runs_alt.
        { eapply runs_alt; [apply paren_fails_fn|red_res; exact Hcmp]. }
        { red_res. eapply runs_call; [reflexivity|]. cbn [call_atomicity].
          eapply runs_seq.
          { eapply runs_seq; [apply not_op_none_fn|red_res; apply skip_none; exact Hnwf|red_res; apply S_none; exact Hnwf]. }
          { red_res. apply skip_none. exact Hnwf. }
          { red_res. eapply runs_call; [reflexivity|]. cbn [call_atomicity].
            eapply runs_alt.
            { eapply runs_alt; [apply rel_query_fails_fn|red_res; apply jp_query_fails_fn]. }
            { red_res. apply Hrun. } } }
      + norm_len. bound.
      + red_res. norm_len. repeat (f_equal; try lia).
  Qed.

  Lemma atom_test neg abs q : Patom (XTest neg abs q).
  Proof.
    intros stop pos Ha Hstop. inversion Ha as [|neg' abs' q' Hq| |]; subst.
    pose proof (tstop_seg_stop stop Hstop) as Hss.
    pose proof (gsegs_not_ws q stop Hstop) as Hnwq.
    cbn [atext adep apair].
    (* the two rules that read the query itself *)
    assert (Hsegs : forall p, RunsG (75 + length q + qdep q) (ECall R_segments) ANonAtomic (gsegs_text q ++ stop) p
                          (Ok stop (p + length (gsegs_text q))
                              [Pair R_segments p (p + length (gsegs_text q)) (gsegs_pairs p q)])).
    { intros p. apply (gsegments_runs sel stext spair sok sdep sel_runs sel_not_ws q stop p Hq Hss). }
    assert (Hcmp : RunsG (160 + (length q + qdep q)) (ECall R_comp_expr) ANonAtomic
                         ((if abs then 36%N else 64%N) :: gsegs_text q ++ stop) (pos + length (bang neg)) Fail)
      by (apply comp_expr_fails_test; assumption).
    destruct neg, abs; cbn [bang app length not_pairs] in *; rewrite ?Nat.add_0_r in *.
    - (* !$q *)
      eapply runs_conv.
      + eapply runs_call; [reflexivity|]. cbn [call_atomicity].
        eapply runs_alt.
        { eapply runs_alt; [pegd|red_res; pegd]. }
        { red_res. eapply runs_call; [reflexivity|]. cbn [call_atomicity].
          eapply runs_seq.
          { eapply runs_seq; [pegd|red_res; pegd|red_res; pegd]. }
          { red_res. pegd. }
          { red_res. eapply runs_call; [reflexivity|]. cbn [call_atomicity].
            eapply runs_alt.
            { eapply runs_alt.
              { pegd. }
              { red_res. eapply runs_call; [reflexivity|]. cbn [call_atomicity].
                eapply runs_seq; [pegd|red_res; apply skip_none; exact Hnwq|red_res; apply Hsegs]. } }
            { red_res. split; reflexivity. } } }
      + norm_len. bound.
      + red_res. norm_len. repeat (f_equal; try lia).
    - (* !@q *)
      eapply runs_conv.
      + eapply runs_call; [reflexivity|]. cbn [call_atomicity].
        eapply runs_alt.
        { eapply runs_alt; [pegd|red_res; pegd]. }
        { red_res. eapply runs_call; [reflexivity|]. cbn [call_atomicity].
          eapply runs_seq.
          { eapply runs_seq; [pegd|red_res; pegd|red_res; pegd]. }
          { red_res. pegd. }
          { red_res. eapply runs_call; [reflexivity|]. cbn [call_atomicity].
            eapply runs_alt.
            { eapply runs_alt.
              { eapply runs_call; [reflexivity|]. cbn [call_atomicity].
                eapply runs_seq.
                { eapply runs_seq; [pegd|red_res; apply skip_none; exact Hnwq|red_res; apply S_none; exact Hnwq]. }
                { red_res. apply skip_none. exact Hnwq. }
                { red_res. apply Hsegs. } }
              { red_res. split; reflexivity. } }
            { red_res. split; reflexivity. } } }
      + norm_len. bound.
      + red_res. norm_len. repeat (f_equal; try lia).
    - (* $q *)
      eapply runs_conv.
      + eapply runs_call; [reflexivity|]. cbn [call_atomicity].
        eapply runs_alt.
        { eapply runs_alt; [pegd|red_res; exact Hcmp]. }
        { red_res. eapply runs_call; [reflexivity|]. cbn [call_atomicity].
          eapply runs_seq.
          { eapply runs_seq; [pegd|red_res; pegd|red_res; pegd]. }
          { red_res. pegd. }
          { red_res. eapply runs_call; [reflexivity|]. cbn [call_atomicity].
            eapply runs_alt.
            { eapply runs_alt.
              { pegd. }
              { red_res. eapply runs_call; [reflexivity|]. cbn [call_atomicity].
                eapply runs_seq; [pegd|red_res; apply skip_none; exact Hnwq|red_res; apply Hsegs]. } }
            { red_res. split; reflexivity. } } }
      + norm_len. bound.
      + red_res. norm_len. repeat (f_equal; try lia).
    - (* @q *)
      eapply runs_conv.
      + eapply runs_call; [reflexivity|]. cbn [call_atomicity].
        eapply runs_alt.
        { eapply runs_alt; [pegd|red_res; exact Hcmp]. }
        { red_res. eapply runs_call; [reflexivity|]. cbn [call_atomicity].
          eapply runs_seq.
          { eapply runs_seq; [pegd|red_res; pegd|red_res; pegd]. }
          { red_res. pegd. }
          { red_res. eapply runs_call; [reflexivity|]. cbn [call_atomicity].
            eapply runs_alt.
            { eapply runs_alt.
              { eapply runs_call; [reflexivity|]. cbn [call_atomicity].
                eapply runs_seq.
                { eapply runs_seq; [pegd|red_res; apply skip_none; exact Hnwq|red_res; apply S_none; exact Hnwq]. }
                { red_res. apply skip_none. exact Hnwq. }
                { red_res. apply Hsegs. } }
              { red_res. split; reflexivity. } }
            { red_res. split; reflexivity. } } }
      + norm_len. bound.
      + red_res. norm_len. repeat (f_equal; try lia).
  Qed.

  Lemma or_text_not_ws e tail :
    e <> [] -> (forall c, In c e -> c <> [] /\ forall a, In a c -> aok a) -> not_ws (or_text e ++ tail).
  Proof.
    intros Hne He. destruct e as [|c e]; [contradiction|]. unfold or_text. rewrite join_cons, <- app_assoc.
    destruct (He c (or_introl eq_refl)) as [Hc Ha]. apply and_text_not_ws; assumption.
  Qed.

  Lemma por_of e :
    e <> [] -> (forall c, In c e -> c <> [] /\ forall a, In a c -> aok a) ->
    (forall c, In c e -> forall a, In a c -> Patom a) -> Por e.
  Proof.
    intros Hne He HP. apply or_runs; [exact Hne|]. intros c Hc. destruct (He c Hc) as [Hcne Hca].
    split; [|split; assumption]. apply and_runs; [exact Hcne|]. intros a Ha. split; [apply (HP c Hc a Ha)|apply Hca; exact Ha].
  Qed.

  Lemma atom_paren neg e :
    (forall c, In c e -> forall a, In a c -> Patom a) -> Patom (XParen neg e).
  Proof.
    intros HP stop pos Ha Hstop. inversion Ha as [neg' e' Hne He| | |]; subst.
    pose proof (por_of e Hne He HP) as Hor.
    pose proof (tstop_not_ws stop Hstop) as Hnws.
    assert (Hnwe : forall tail, not_ws (or_text e ++ tail)) by (intros tail; apply or_text_not_ws; assumption).
    assert (Hos : ostop (41%N :: stop)) by (cbn; auto).
    cbn [atext adep apair]. fold (or_text e). fold (edep e).
    change (fun c : list xatom => 60 + (length c + lmax adep c)) with cdep.
    destruct neg; cbn [bang app length not_pairs]; repeat (rewrite <- app_assoc; cbn [app]).
    - eapply runs_conv.
      + eapply runs_call; [reflexivity|]. cbn [call_atomicity].
        eapply runs_alt.
        { eapply runs_alt.
          { eapply runs_call; [reflexivity|]. cbn [call_atomicity].
            eapply runs_seq.
            { eapply runs_seq.
              { eapply runs_seq.
                { eapply runs_seq.
                  { eapply runs_seq.
                    { eapply runs_seq; [pegd|red_res; pegd|red_res; pegd]. }
                    { red_res. pegd. }
                    { red_res. pegd. } }
                  { red_res. apply skip_none. apply Hnwe. }
                  { red_res. apply S_none. apply Hnwe. } }
                { red_res. apply skip_none. apply Hnwe. }
                { red_res. apply Hor. exact Hos. } }
              { red_res. pegd. }
              { red_res. pegd. } }
            { red_res. pegd. }
            { red_res. pegd. } }
          { red_res. split; reflexivity. } }
        { red_res. split; reflexivity. }
      + unfold edep. norm_len. bound.
      + red_res. unfold or_pair, or_text, and_text, and_pair. norm_len. rewrite ?app_nil_r.
        change (fun c : list xatom => join s_and atext c) with (join s_and atext).
        repeat (first [reflexivity | lia | progress f_equal]).
    - eapply runs_conv.
      + eapply runs_call; [reflexivity|]. cbn [call_atomicity].
        eapply runs_alt.
        { eapply runs_alt.
          { eapply runs_call; [reflexivity|]. cbn [call_atomicity].
            eapply runs_seq.
            { eapply runs_seq.
              { eapply runs_seq.
                { eapply runs_seq.
                  { eapply runs_seq.
                    { eapply runs_seq; [pegd|red_res; pegd|red_res; pegd]. }
                    { red_res. pegd. }
                    { red_res. pegd. } }
                  { red_res. apply skip_none. apply Hnwe. }
                  { red_res. apply S_none. apply Hnwe. } }
                { red_res. apply skip_none. apply Hnwe. }
                { red_res. apply Hor. exact Hos. } }
              { red_res. pegd. }
              { red_res. pegd. } }
            { red_res. pegd. }
            { red_res. pegd. } }
          { red_res. split; reflexivity. } }
        { red_res. split; reflexivity. }
      + unfold edep. norm_len. bound.
      + red_res. unfold or_pair, or_text, and_text, and_pair. norm_len. rewrite ?app_nil_r.
        change (fun c : list xatom => join s_and atext c) with (join s_and atext).
        repeat (first [reflexivity | lia | progress f_equal]).
  Qed.

  Theorem atom_all : forall n a, asize a <= n -> Patom a.
  Proof.
    induction n as [|n IH]; intros a Hs.
    - destruct a; cbn [asize] in Hs; lia.
    - destruct a as [neg e|neg abs q|o l r|neg f].
      + apply atom_paren. intros c Hc a Ha. apply IH. pose proof (asize_in_paren neg e c a Hc Ha). lia.
      + apply atom_test.
      + apply atom_cmp.
      + apply atom_fntest.
  Qed.

  (* the rule logical_expr on every well-formed expression *)
  Theorem expr_runs e :
    e <> [] -> (forall c, In c e -> c <> [] /\ forall a, In a c -> aok a) -> Por e.
  Proof.
    intros Hne He. apply por_of; [exact Hne|exact He|]. intros c Hc a Ha. apply (atom_all (asize a) a (le_n _)).
  Qed.

  (* ---------- the filter selector ---------- *)
  Definition eok (e : list (list xatom)) : Prop :=
    e <> [] /\ (forall c, In c e -> c <> [] /\ forall a, In a c -> aok a).
  Definition filter_text (e : list (list xatom)) : str := 63%N :: or_text e.
  Definition filter_pair (pos : nat) (e : list (list xatom)) : pair rname :=
    let en := pos + length (filter_text e) in
    Pair R_selector pos en [Pair R_filter_selector pos en [or_pair (pos + 1) e]].

  Lemma filter_selector_runs e c rest pos :
    eok e -> sel_stop c ->
    RunsG (60 + edep e) (ECall R_selector) ANonAtomic (filter_text e ++ c :: rest) pos
          (Ok (c :: rest) (pos + length (filter_text e)) [filter_pair pos e]).
  Proof.
    intros [Hne He] Hc. unfold filter_pair, filter_text. cbn [app].
    assert (Hos : ostop (c :: rest)) by (destruct Hc as [-> | ->]; cbn; auto).
    pose proof (expr_runs e Hne He (c :: rest) (pos + 1) Hos) as Hor.
    pose proof (or_text_not_ws e (c :: rest) Hne He) as Hw.
    eapply runs_conv.
    - eapply runs_call; [reflexivity|]. cbn [call_atomicity].
      eapply runs_alt.
      { eapply runs_alt.
        { eapply runs_alt.
          { eapply runs_alt; [pegd|red_res; pegd]. }
          { red_res. pegd. } }
        { red_res. pegd. } }
      { red_res. eapply runs_call; [reflexivity|]. cbn [call_atomicity].
        eapply runs_seq.
        { eapply runs_seq; [pegd|red_res; apply skip_none; exact Hw|red_res; apply S_none; exact Hw]. }
        { red_res. apply skip_none. exact Hw. }
        { red_res. exact Hor. } }
    - unfold edep. norm_len. bound.
    - red_res. norm_len. repeat (first [reflexivity | lia | progress f_equal]).
  Qed.

  (* a bracket that holds a filter selector is not a singular segment *)
  Lemma filter_sq_fails e tail pos :
    RunsG 40 sq_alt ANonAtomic (91%N :: filter_text e ++ tail) pos Fail.
  Proof. unfold sq_alt, filter_text. cbn [app]. eapply runs_conv; [pegd|norm_len; bound|red_res; reflexivity]. Qed.
End Atoms.

(* ---------- the plain selectors satisfy the hypotheses of the Atoms section ---------- *)
Definition plain_dep (s : fsel) : nat := 80 + length (sel_text s).

Ltac peg_hook ::= sq_hook.

Lemma plain_sq_close s rest pos :
  sel_ok s ->
  (exists toks, RunsG (20 + plain_dep s) sq_alt ANonAtomic (91%N :: sel_text s ++ 93%N :: rest) pos
                      (Ok rest (pos + length (sel_text s) + 2) toks))
  \/ RunsG (20 + plain_dep s) sq_alt ANonAtomic (91%N :: sel_text s ++ 93%N :: rest) pos Fail.
Proof.
  intros Hs. unfold sq_alt, plain_dep. destruct s as [k| |i|a b c]; cbn [sel_ok sel_text] in *.
  - left. eexists. cbn [app]. repeat (rewrite <- app_assoc; cbn [app]).
    eapply runs_conv; [pegd|norm_len; bound|red_res; norm_len; repeat (first [reflexivity | lia | progress f_equal])].
  - right. cbn [app]. eapply runs_conv; [pegd|norm_len; bound|red_res; reflexivity].
  - left. eexists.
    eapply runs_conv; [pegd|norm_len; bound|red_res; norm_len; repeat (first [reflexivity | lia | progress f_equal])].
  - right. destruct a as [za|], b as [zb|], c as [zc|]; cbn [oint app]; repeat (rewrite <- app_assoc; cbn [app]);
      (eapply runs_conv; [pegd|norm_len; bound|red_res; reflexivity]).
Qed.

Lemma plain_sq_comma s rest pos :
  sel_ok s -> RunsG (20 + plain_dep s) sq_alt ANonAtomic (91%N :: sel_text s ++ 44%N :: rest) pos Fail.
Proof.
  intros Hs. unfold sq_alt, plain_dep. destruct s as [k| |i|a b c]; cbn [sel_ok sel_text] in *.
  - cbn [app]. repeat (rewrite <- app_assoc; cbn [app]). eapply runs_conv; [pegd|norm_len; bound|red_res; reflexivity].
  - cbn [app]. eapply runs_conv; [pegd|norm_len; bound|red_res; reflexivity].
  - eapply runs_conv; [pegd|norm_len; bound|red_res; reflexivity].
  - destruct a as [za|], b as [zb|], c as [zc|]; cbn [oint app]; repeat (rewrite <- app_assoc; cbn [app]);
      (eapply runs_conv; [pegd|norm_len; bound|red_res; reflexivity]).
Qed.

(* ---------- the tower: selectors of nesting depth n ---------- *)
Definition SelSpec (sel : Type) (stext : sel -> str) (spair : nat -> sel -> pair rname) (sok : sel -> Prop) (sdep : sel -> nat) : Prop :=
  (forall s c rest pos, sok s -> sel_stop c ->
     RunsG (sdep s) (ECall R_selector) ANonAtomic (stext s ++ c :: rest) pos
           (Ok (c :: rest) (pos + length (stext s)) [spair pos s]))
  /\ (forall s tail, sok s -> not_ws (stext s ++ tail))
  /\ (forall s rest pos, sok s ->
        (exists toks, RunsG (20 + sdep s) sq_alt ANonAtomic (91%N :: stext s ++ 93%N :: rest) pos
                            (Ok rest (pos + length (stext s) + 2) toks))
        \/ RunsG (20 + sdep s) sq_alt ANonAtomic (91%N :: stext s ++ 93%N :: rest) pos Fail)
  /\ (forall s rest pos, sok s ->
        RunsG (20 + sdep s) sq_alt ANonAtomic (91%N :: stext s ++ 44%N :: rest) pos Fail).

Lemma plain_spec : SelSpec fsel sel_text sel_pair sel_ok plain_dep.
Proof.
  split; [|split; [|split]].
  - intros s c rest pos Hs Hc. apply selector_runs; assumption.
  - intros s tail Hs. apply sel_text_head_not_ws. exact Hs.
  - intros s rest pos Hs. apply plain_sq_close. exact Hs.
  - intros s rest pos Hs. apply plain_sq_comma. exact Hs.
Qed.

(* one more level: a selector is a plain one or a filter over expressions whose queries use the level below *)
Section Level.
  Variable sel : Type.
  Variable stext : sel -> str.
  Variable spair : nat -> sel -> pair rname.
  Variable sok : sel -> Prop.
  Variable sdep : sel -> nat.
  Hypothesis Hspec : SelSpec sel stext spair sok sdep.

  Definition sel' : Type := (fsel + list (list (xatom sel)))%type.
  Definition stext' (s : sel') : str :=
    match s with inl p => sel_text p | inr e => filter_text sel stext e end.
  Definition spair' (pos : nat) (s : sel') : pair rname :=
    match s with inl p => sel_pair pos p | inr e => filter_pair sel stext spair pos e end.
  Definition sok' (s : sel') : Prop :=
    match s with inl p => sel_ok p | inr e => eok sel sok e end.
  Definition sdep' (s : sel') : nat :=
    match s with inl p => plain_dep p | inr e => 60 + edep sel sdep e end.

  Lemma level_spec : SelSpec sel' stext' spair' sok' sdep'.
  Proof.
    destruct Hspec as [H1 [H2 [H3 H4]]]. split; [|split; [|split]].
    - intros [p|e] c rest pos Hs Hc; cbn [stext' spair' sok' sdep'] in *.
      + apply selector_runs; assumption.
      + apply (filter_selector_runs sel stext spair sok sdep H1 H2 H3 H4); assumption.
    - intros [p|e] tail Hs; cbn [stext' sok'] in *.
      + apply sel_text_head_not_ws. exact Hs.
      + unfold filter_text. cbn [app not_ws]. repeat split; discriminate.
    - intros [p|e] rest pos Hs; cbn [stext' sok' sdep'] in *.
      + apply plain_sq_close. exact Hs.
      + right. eapply runs_weaken; [apply filter_sq_fails|lia].
    - intros [p|e] rest pos Hs; cbn [stext' sok' sdep'] in *.
      + apply plain_sq_comma. exact Hs.
      + eapply runs_weaken; [apply filter_sq_fails|lia].
  Qed.
End Level.

Fixpoint SelT (n : nat) : Type :=
  match n with O => fsel | S k => sel' (SelT k) end.
Fixpoint stextT (n : nat) : SelT n -> str :=
  match n with O => sel_text | S k => stext' (SelT k) (stextT k) end.
Fixpoint spairT (n : nat) : nat -> SelT n -> pair rname :=
  match n with O => sel_pair | S k => spair' (SelT k) (stextT k) (spairT k) end.
Fixpoint sokT (n : nat) : SelT n -> Prop :=
  match n with O => sel_ok | S k => sok' (SelT k) (sokT k) end.
Fixpoint sdepT (n : nat) : SelT n -> nat :=
  match n with O => plain_dep | S k => sdep' (SelT k) (sdepT k) end.

Theorem tower_spec n : SelSpec (SelT n) (stextT n) (spairT n) (sokT n) (sdepT n).
Proof.
  induction n as [|n IH]; [exact plain_spec|]. cbn [SelT stextT spairT sokT sdepT]. apply level_spec. exact IH.
Qed.
