(* NumSpell.v — two decimal spellings of one number denote the same literal: moving the decimal point against the exponent
   (3e-1, 0.3, 30e-2, 0.30, 300e-3 ...) does not change the binary64 value the parser computes.  Any two decimal spellings of
   one rational differ by such a shift, so this is "number spellings are equivalent" (C13) for the parser's f64 reading. *)
From Coq Require Import List ZArith NArith Bool Lia.
From JP Require Import Base Dec2Bin NumParse RoundScale.
Import ListNotations.
Local Open Scope Z_scope.

Lemma pow10_pos j : 0 <= j -> 0 < 10 ^ j.
Proof. intros. apply Z.pow_pos_nonneg; lia. Qed.

Theorem dec_to_f64_shift m ex j :
  0 < m -> 0 <= j -> ex <= 400 -> - 800 - Z.log2 m <= ex -> - 800 - Z.log2 (m * 10 ^ j) <= ex - j ->
  dec_to_f64 (m * 10 ^ j) (ex - j) = dec_to_f64 m ex.
Proof.
  intros Hm Hj Hex G1 G2. pose proof (pow10_pos j Hj) as Hp. unfold dec_to_f64.
  destruct (Z.eqb_spec (m * 10 ^ j) 0) as [E|_]; [nia|]. destruct (Z.eqb_spec m 0) as [E|_]; [lia|].
  destruct (Z.ltb_spec 400 (ex - j)); [lia|]. destruct (Z.ltb_spec 400 ex); [lia|].
  destruct (Z.ltb_spec (ex - j) (- 800 - Z.log2 (m * 10 ^ j))); [lia|]. destruct (Z.ltb_spec ex (- 800 - Z.log2 m)); [lia|].
  destruct (Z.leb_spec 0 (ex - j)) as [Ha|Ha]; destruct (Z.leb_spec 0 ex) as [Hb|Hb]; try lia.
  - f_equal. rewrite <- Z.mul_assoc, <- Z.pow_add_r by lia. do 2 f_equal. lia.
  - (* ex >= 0 > ex - j *)
    pose proof (pow10_pos (- (ex - j)) ltac:(lia)) as Hq. pose proof (pow10_pos ex Hb) as Hr.
    replace (m * 10 ^ j) with (10 ^ (- (ex - j)) * (m * 10 ^ ex)).
    + replace (10 ^ (- (ex - j))) with (10 ^ (- (ex - j)) * 1) at 2 by ring. apply round_ratio_scale; nia.
    + rewrite (Z.mul_comm m), Z.mul_assoc, <- Z.pow_add_r by lia. replace (- (ex - j) + ex) with j by lia. ring.
  - (* both negative *)
    pose proof (pow10_pos (- ex) ltac:(lia)) as Hq.
    replace (10 ^ (- (ex - j))) with (10 ^ j * 10 ^ (- ex)) by (rewrite <- Z.pow_add_r by lia; f_equal; lia).
    rewrite (Z.mul_comm m). apply round_ratio_scale; lia.
Qed.

Theorem spellings_same_value i1 f1 e1 i2 f2 e2 m x1 x2 j :
  frac_ok f1 -> expo_ok e1 -> frac_ok f2 -> expo_ok e2 -> ipart_neg i1 = ipart_neg i2 ->
  digits_val 0 (ipart_digits i1 ++ frac_digits f1) = Some m -> expo_val e1 = Some x1 ->
  digits_val 0 (ipart_digits i2 ++ frac_digits f2) = Some (m * 10 ^ j) -> expo_val e2 = Some x2 ->
  0 < m -> 0 <= j ->
  x2 - Z.of_nat (length (frac_digits f2)) = x1 - Z.of_nat (length (frac_digits f1)) - j ->
  x1 - Z.of_nat (length (frac_digits f1)) <= 400 ->
  - 800 - Z.log2 m <= x1 - Z.of_nat (length (frac_digits f1)) ->
  - 800 - Z.log2 (m * 10 ^ j) <= x1 - Z.of_nat (length (frac_digits f1)) - j ->
  num_value i2 f2 e2 = num_value i1 f1 e1.
Proof.
  intros F1 E1 F2 E2 Hs D1 X1 D2 X2 Hm Hj Hx G0 G1 G2.
  rewrite (num_value_spec i1 f1 e1 F1 E1), (num_value_spec i2 f2 e2 F2 E2), D1, X1, D2, X2, Hx, Hs.
  rewrite (dec_to_f64_shift m _ j Hm Hj G0 G1 G2). reflexivity.
Qed.
Print Assumptions spellings_same_value.

(* 3e-1 and 300E-3, and 0.3 and 0.30, through the theorem (the hypotheses are decided by computation) *)
Example spellings_example :
  num_value (IZ 300) None (Some (true, EMinus, (51%N, []))) = num_value (IZ 3) None (Some (false, EMinus, (49%N, [])))
  /\ num_value (IZ 0) (Some (51%N, [48%N])) None = num_value (IZ 0) (Some (51%N, [])) None
  /\ num_text (IZ 300) None (Some (true, EMinus, (51%N, []))) = [51; 48; 48; 69; 45; 51]%N
  /\ num_text (IZ 3) None (Some (false, EMinus, (49%N, []))) = [51; 101; 45; 49]%N.
Proof.
  split; [|split; [|split; reflexivity]].
  - apply (spellings_same_value (IZ 3) None (Some (false, EMinus, (49%N, []))) (IZ 300) None (Some (true, EMinus, (51%N, []))) 3 (-1) (-3) 2);
      try (vm_compute; intuition congruence); try reflexivity.
  - apply (spellings_same_value (IZ 0) (Some (51%N, [])) None (IZ 0) (Some (51%N, [48%N])) None 3 0 0 1);
      try (vm_compute; intuition congruence); try reflexivity.
Qed.
