(* PegTerm.v — the PEG interpreter never runs out of the fuel parse_query gives it, for ANY input.
   The argument is the classical one for PEGs without left recursion: along any chain of nested sub-derivations the
   input position never decreases; between two consumptions the chain is bounded by the "leftmost height" of the
   expressions (finite because no rule reaches itself without consuming: the rank table), and every repetition step
   consumes.  The rank and nullability tables are produced by the grammar translator and CHECKED here by computation
   against the generated grammar (TermCheck.v): nothing about them is trusted. *)
From Coq Require Import List Arith NArith Bool Lia.
From JP Require Import Base Peg PegFacts.
Import ListNotations.
Local Open Scope nat_scope.

Section Term.
  Variable rname : Type.
  Variable g : peg rname.
  Variable rk : bool -> rname -> nat.       (* leftmost height of the body of a rule, by atomicity of the body *)
  Variable nl : rname -> bool.              (* may the rule succeed without consuming? (over-approximation) *)
  Variable H : nat.                         (* bound of the leftmost height of every sub-expression *)

  Notation expr := (expr rname).
  Notation run := (run g).

  Definition isat (a : atomicity) : bool := match a with ANonAtomic => false | _ => true end.
  Definition mode (b : bool) : atomicity := if b then AAtomic else ANonAtomic.

  Fixpoint nullable (e : expr) : bool :=
    match e with
    | EStr lit => match lit with [] => true | _ => false end
    | ERange _ _ => false
    | ECall r => nl r
    | ESeq x y => nullable x && nullable y
    | EAlt x y => nullable x || nullable y
    | _ => true
    end.

  Definition skh (a : atomicity) : nat := if isat a then 1 else 4 + rk true (g_ws g).

  Fixpoint lh (a : atomicity) (e : expr) : nat :=
    match e with
    | ECall r => 1 + rk (isat (call_atomicity (fst (g_rule g r)) a)) r
    | ESeq x y => 1 + Nat.max (lh a x) (Nat.max (skh a) (if nullable x then lh a y else 0))
    | EAlt x y => 1 + Nat.max (lh a x) (lh a y)
    | EOpt x | ENot x | EAnd x => 1 + lh a x
    | ERepTail x => 1 + Nat.max (skh a) (lh a x)
    | ERep x => 1 + Nat.max (lh a x) (1 + Nat.max (skh a) (lh a x))
    | ESkip => skh a
    | _ => 1
    end.

  (* every sub-expression (and the repetition tails the interpreter creates) has leftmost height at most H *)
  Fixpoint bounded (a : atomicity) (e : expr) : bool :=
    Nat.leb (lh a e) H &&
    match e with
    | ESeq x y | EAlt x y => bounded a x && bounded a y
    | EOpt x | ENot x | EAnd x | ERepTail x => bounded a x
    | ERep x => bounded a x && Nat.leb (lh a (ERepTail x)) H
    | _ => true
    end.

  (* the conditions on the tables, each decidable by computation on a concrete grammar *)
  Hypothesis rank_ok : forall r b, lh (mode b) (snd (g_rule g r)) <= rk b r.
  Hypothesis bounded_ok : forall r b, bounded (mode b) (snd (g_rule g r)) = true.
  Hypothesis nullable_ok : forall r, nullable (snd (g_rule g r)) = true -> nl r = true.
  Hypothesis skip_ok : 5 + rk true (g_ws g) <= H.

  Lemma lh_mode a e : lh a e = lh (mode (isat a)) e.
  Proof.
    assert (Hs : skh a = skh (mode (isat a))) by (destruct a; reflexivity).
    assert (Hc : forall k, isat (call_atomicity k a) = isat (call_atomicity k (mode (isat a)))) by (intros k; destruct k, a; reflexivity).
    induction e; cbn [lh]; rewrite ?Hs, ?Hc; try reflexivity; try (rewrite IHe; reflexivity); try (rewrite IHe1, IHe2; reflexivity).
  Qed.
  Lemma bounded_mode a e : bounded a e = bounded (mode (isat a)) e.
  Proof.
    induction e; cbn [bounded]; rewrite <- ?lh_mode; try reflexivity; try (rewrite IHe; reflexivity); try (rewrite IHe1, IHe2; reflexivity).
    all: rewrite IHe; f_equal; f_equal; cbn [lh]; rewrite <- lh_mode; destruct a; reflexivity.
  Qed.

  (* ---------- positions follow consumption ---------- *)
  Lemma match_str_len lit : forall s rest, match_str lit s = Some rest -> length s = length lit + length rest.
  Proof.
    induction lit as [|c lit IH]; intros s rest Hm; cbn [match_str] in Hm.
    - inversion Hm. reflexivity.
    - destruct s as [|d s]; [discriminate|]. destruct (N.eqb c d); [|discriminate]. cbn [length]. rewrite (IH s rest Hm). reflexivity.
  Qed.

  Lemma run_pos : forall f e a s pos rest p t,
    run f e a s pos = Ok rest p t -> p + length rest = pos + length s.
  Proof.
    induction f as [|f IH]; intros e a s pos rest p t Hr; [discriminate|].
    destruct e; cbn [Peg.run] in Hr.
    - destruct (match_str s0 s) as [r|] eqn:E; [|discriminate]. inversion Hr; subst. rewrite (match_str_len _ _ _ E). lia.
    - destruct s as [|c r]; [discriminate|]. destruct (N.leb lo c && N.leb c hi); [|discriminate]. inversion Hr; subst. cbn [length]. lia.
    - destruct (g_rule g r) as [k body]. destruct k;
        (destruct (run f body _ s pos) as [| |r1 p1 t1] eqn:E; try discriminate; inversion Hr; subst; apply (IH _ _ _ _ _ _ _ E)).
    - destruct (run f e1 a s pos) as [| |s1 p1 t1] eqn:E1; try discriminate.
      destruct (run f ESkip a s1 p1) as [| |s2 p2 t2] eqn:E2; try discriminate.
      destruct (run f e2 a s2 p2) as [| |s3 p3 t3] eqn:E3; try discriminate. inversion Hr; subst.
      pose proof (IH _ _ _ _ _ _ _ E1). pose proof (IH _ _ _ _ _ _ _ E2). pose proof (IH _ _ _ _ _ _ _ E3). lia.
    - destruct (run f e1 a s pos) as [| |s1 p1 t1] eqn:E1; try discriminate.
      + apply (IH _ _ _ _ _ _ _ Hr).
      + inversion Hr; subst. apply (IH _ _ _ _ _ _ _ E1).
    - destruct (run f e a s pos) as [| |s1 p1 t1] eqn:E1; try discriminate.
      + inversion Hr; subst. reflexivity.
      + inversion Hr; subst. apply (IH _ _ _ _ _ _ _ E1).
    - destruct (run f e a s pos) as [| |s1 p1 t1] eqn:E1; try discriminate.
      + inversion Hr; subst. reflexivity.
      + destruct (run f (ERepTail e) a s1 p1) as [| |s2 p2 t2] eqn:E2; try discriminate. inversion Hr; subst.
        pose proof (IH _ _ _ _ _ _ _ E1). pose proof (IH _ _ _ _ _ _ _ E2). lia.
    - destruct (run f ESkip a s pos) as [| |s1 p1 t1] eqn:E1; try discriminate.
      destruct (run f e a s1 p1) as [| |s2 p2 t2] eqn:E2; try discriminate.
      + inversion Hr; subst. reflexivity.
      + destruct (Nat.eqb p2 pos); [inversion Hr; subst; reflexivity|].
        destruct (run f (ERepTail e) a s2 p2) as [| |s3 p3 t3] eqn:E3; try discriminate. inversion Hr; subst.
        pose proof (IH _ _ _ _ _ _ _ E1). pose proof (IH _ _ _ _ _ _ _ E2). pose proof (IH _ _ _ _ _ _ _ E3). lia.
    - destruct (run f e a s pos) as [| |s1 p1 t1] eqn:E1; try discriminate. inversion Hr; subst. reflexivity.
    - destruct (run f e a s pos) as [| |s1 p1 t1] eqn:E1; try discriminate. inversion Hr; subst. reflexivity.
    - destruct a.
      + destruct (run f (ERep (ECall (g_ws g))) AAtomic s pos) as [| |s1 p1 t1] eqn:E1; try discriminate. inversion Hr; subst.
        apply (IH _ _ _ _ _ _ _ E1).
      + inversion Hr; subst. reflexivity.
      + inversion Hr; subst. reflexivity.
    - destruct (Nat.eqb pos 0); [|discriminate]. inversion Hr; subst. reflexivity.
    - destruct s; [|discriminate]. inversion Hr; subst. reflexivity.
  Qed.

  Lemma run_len f e a s pos rest p t : run f e a s pos = Ok rest p t -> length rest <= length s /\ pos <= p.
  Proof.
    intros Hr. pose proof (run_pos _ _ _ _ _ _ _ _ Hr) as Hp.
    assert (Hle : length rest <= length s); [|lia].
    revert e a s pos rest p t Hr Hp. induction f as [|f IH]; intros e a s pos rest p t Hr Hp; [discriminate|].
    destruct e; cbn [Peg.run] in Hr.
    - destruct (match_str s0 s) as [r|] eqn:E; [|discriminate]. inversion Hr; subst. rewrite (match_str_len _ _ _ E). lia.
    - destruct s as [|c r]; [discriminate|]. destruct (N.leb lo c && N.leb c hi); [|discriminate]. inversion Hr; subst. cbn [length]. lia.
    - destruct (g_rule g r) as [k body]. destruct k;
        (destruct (run f body _ s pos) as [| |r1 p1 t1] eqn:E; try discriminate; inversion Hr; subst;
         apply (IH _ _ _ _ _ _ _ E (run_pos _ _ _ _ _ _ _ _ E))).
    - destruct (run f e1 a s pos) as [| |s1 p1 t1] eqn:E1; try discriminate.
      destruct (run f ESkip a s1 p1) as [| |s2 p2 t2] eqn:E2; try discriminate.
      destruct (run f e2 a s2 p2) as [| |s3 p3 t3] eqn:E3; try discriminate. inversion Hr; subst.
      pose proof (IH _ _ _ _ _ _ _ E1 (run_pos _ _ _ _ _ _ _ _ E1)). pose proof (IH _ _ _ _ _ _ _ E2 (run_pos _ _ _ _ _ _ _ _ E2)).
      pose proof (IH _ _ _ _ _ _ _ E3 (run_pos _ _ _ _ _ _ _ _ E3)). lia.
    - destruct (run f e1 a s pos) as [| |s1 p1 t1] eqn:E1; try discriminate.
      + apply (IH _ _ _ _ _ _ _ Hr Hp).
      + inversion Hr; subst. apply (IH _ _ _ _ _ _ _ E1 (run_pos _ _ _ _ _ _ _ _ E1)).
    - destruct (run f e a s pos) as [| |s1 p1 t1] eqn:E1; try discriminate.
      + inversion Hr; subst. lia.
      + inversion Hr; subst. apply (IH _ _ _ _ _ _ _ E1 (run_pos _ _ _ _ _ _ _ _ E1)).
    - destruct (run f e a s pos) as [| |s1 p1 t1] eqn:E1; try discriminate.
      + inversion Hr; subst. lia.
      + destruct (run f (ERepTail e) a s1 p1) as [| |s2 p2 t2] eqn:E2; try discriminate. inversion Hr; subst.
        pose proof (IH _ _ _ _ _ _ _ E1 (run_pos _ _ _ _ _ _ _ _ E1)). pose proof (IH _ _ _ _ _ _ _ E2 (run_pos _ _ _ _ _ _ _ _ E2)). lia.
    - destruct (run f ESkip a s pos) as [| |s1 p1 t1] eqn:E1; try discriminate.
      destruct (run f e a s1 p1) as [| |s2 p2 t2] eqn:E2; try discriminate.
      + inversion Hr; subst. lia.
      + destruct (Nat.eqb p2 pos); [inversion Hr; subst; lia|].
        destruct (run f (ERepTail e) a s2 p2) as [| |s3 p3 t3] eqn:E3; try discriminate. inversion Hr; subst.
        pose proof (IH _ _ _ _ _ _ _ E1 (run_pos _ _ _ _ _ _ _ _ E1)). pose proof (IH _ _ _ _ _ _ _ E2 (run_pos _ _ _ _ _ _ _ _ E2)).
        pose proof (IH _ _ _ _ _ _ _ E3 (run_pos _ _ _ _ _ _ _ _ E3)). lia.
    - destruct (run f e a s pos) as [| |s1 p1 t1] eqn:E1; try discriminate. inversion Hr; subst. lia.
    - destruct (run f e a s pos) as [| |s1 p1 t1] eqn:E1; try discriminate. inversion Hr; subst. lia.
    - destruct a.
      + destruct (run f (ERep (ECall (g_ws g))) AAtomic s pos) as [| |s1 p1 t1] eqn:E1; try discriminate. inversion Hr; subst.
        apply (IH _ _ _ _ _ _ _ E1 (run_pos _ _ _ _ _ _ _ _ E1)).
      + inversion Hr; subst. lia.
      + inversion Hr; subst. lia.
    - destruct (Nat.eqb pos 0); [|discriminate]. inversion Hr; subst. lia.
    - destruct s; [|discriminate]. inversion Hr; subst. lia.
  Qed.

  (* ---------- an expression that is not nullable consumes ---------- *)
  Lemma run_consumes : forall f e a s pos rest p t,
    nullable e = false -> run f e a s pos = Ok rest p t -> length rest < length s.
  Proof.
    induction f as [|f IH]; intros e a s pos rest p t Hn Hr; [discriminate|].
    destruct e; cbn [nullable] in Hn; try discriminate; cbn [Peg.run] in Hr.
    - destruct s0 as [|c lit]; [discriminate|]. destruct (match_str (c :: lit) s) as [r|] eqn:E; [|discriminate].
      inversion Hr; subst. rewrite (match_str_len _ _ _ E). cbn [length]. lia.
    - destruct s as [|c r]; [discriminate|]. destruct (N.leb lo c && N.leb c hi); [|discriminate]. inversion Hr; subst. cbn [length]. lia.
    - assert (Hb : nullable (snd (g_rule g r)) = false).
      { destruct (nullable (snd (g_rule g r))) eqn:E; [|reflexivity]. rewrite (nullable_ok r E) in Hn. discriminate. }
      destruct (g_rule g r) as [k body]. cbn [snd] in Hb. destruct k;
        (destruct (run f body _ s pos) as [| |r1 p1 t1] eqn:E; try discriminate; inversion Hr; subst; apply (IH _ _ _ _ _ _ _ Hb E)).
    - destruct (run f e1 a s pos) as [| |s1 p1 t1] eqn:E1; try discriminate.
      destruct (run f ESkip a s1 p1) as [| |s2 p2 t2] eqn:E2; try discriminate.
      destruct (run f e2 a s2 p2) as [| |s3 p3 t3] eqn:E3; try discriminate. inversion Hr; subst.
      destruct (run_len _ _ _ _ _ _ _ _ E1) as [L1 _]. destruct (run_len _ _ _ _ _ _ _ _ E2) as [L2 _]. destruct (run_len _ _ _ _ _ _ _ _ E3) as [L3 _].
      apply andb_false_iff in Hn. destruct Hn as [Hn|Hn].
      + pose proof (IH _ _ _ _ _ _ _ Hn E1). lia.
      + pose proof (IH _ _ _ _ _ _ _ Hn E3). lia.
    - apply orb_false_iff in Hn. destruct Hn as [Hn1 Hn2].
      destruct (run f e1 a s pos) as [| |s1 p1 t1] eqn:E1; try discriminate.
      + apply (IH _ _ _ _ _ _ _ Hn2 Hr).
      + inversion Hr; subst. apply (IH _ _ _ _ _ _ _ Hn1 E1).
  Qed.

  Hypothesis ws_atomic : isat (call_atomicity (fst (g_rule g (g_ws g))) AAtomic) = true.

  Lemma skh_pos a : 1 <= skh a.
  Proof. unfold skh. destruct (isat a); lia. Qed.
  Lemma lh_pos a e : 1 <= lh a e.
  Proof. destruct e; cbn [lh]; try lia. apply skh_pos. Qed.
  Lemma bounded_lh a e : bounded a e = true -> lh a e <= H.
  Proof. destruct e; cbn [bounded]; intros Hb; apply andb_true_iff in Hb; destruct Hb as [Hb _]; apply Nat.leb_le in Hb; exact Hb. Qed.

  Lemma body_bounded r a :
    bounded (call_atomicity (fst (g_rule g r)) a) (snd (g_rule g r)) = true
    /\ lh (call_atomicity (fst (g_rule g r)) a) (snd (g_rule g r)) <= rk (isat (call_atomicity (fst (g_rule g r)) a)) r.
  Proof.
    split.
    - rewrite bounded_mode. apply bounded_ok.
    - rewrite lh_mode. apply rank_ok.
  Qed.

  Lemma ws_rep_bounded : bounded AAtomic (ERep (ECall (g_ws g))) = true /\ lh AAtomic (ERep (ECall (g_ws g))) = 3 + rk true (g_ws g).
  Proof.
    cbn [bounded lh]. rewrite ws_atomic. unfold skh. cbn [isat].
    assert (E : Nat.max (1 + rk true (g_ws g)) (1 + Nat.max 1 (1 + rk true (g_ws g))) = 2 + rk true (g_ws g)) by lia.
    split; [|lia].
    repeat (apply andb_true_iff; split); try reflexivity; apply Nat.leb_le; lia.
  Qed.

  (* ---------- the fuel never runs out ---------- *)
  Theorem run_fuel : forall f e a s pos n,
    length s <= n -> bounded a e = true -> n * H + lh a e <= f -> run f e a s pos <> OutOfFuel.
  Proof.
    induction f as [|f IH]; intros e a s pos n Hs Hb Hf.
    - pose proof (lh_pos a e). lia.
    - pose proof (bounded_lh a e Hb) as HbH.
      destruct e; cbn [Peg.run].
      + destruct (match_str s0 s); discriminate.
      + destruct s as [|c r]; [discriminate|]. destruct (N.leb lo c && N.leb c hi); discriminate.
      + (* call *)
        destruct (body_bounded r a) as [Hbb Hbr]. cbn [lh] in Hf.
        destruct (g_rule g r) as [k body] eqn:Er. cbn [fst snd] in *.
        assert (Hrun : run f body (call_atomicity k a) s pos <> OutOfFuel) by (apply (IH _ _ _ _ n Hs Hbb); lia).
        destruct k; cbn [call_atomicity] in Hrun; destruct (run f body _ s pos); try discriminate; try contradiction; exact Hrun.
      + (* sequence *)
        cbn [bounded] in Hb. apply andb_true_iff in Hb. destruct Hb as [_ Hb]. apply andb_true_iff in Hb. destruct Hb as [Hb1 Hb2].
        cbn [lh] in Hf, HbH.
        assert (H1 : run f e1 a s pos <> OutOfFuel) by (apply (IH _ _ _ _ n Hs Hb1); lia).
        destruct (run f e1 a s pos) as [| |s1 p1 t1] eqn:E1; try discriminate; [contradiction|].
        destruct (run_len _ _ _ _ _ _ _ _ E1) as [L1 _].
        assert (H2 : run f ESkip a s1 p1 <> OutOfFuel).
        { apply (IH _ _ _ _ n); [lia| |cbn [lh]; lia]. cbn [bounded lh]. rewrite andb_true_r. apply Nat.leb_le. lia. }
        destruct (run f ESkip a s1 p1) as [| |s2 p2 t2] eqn:E2; try discriminate; [contradiction|].
        destruct (run_len _ _ _ _ _ _ _ _ E2) as [L2 _].
        assert (H3 : run f e2 a s2 p2 <> OutOfFuel).
        { destruct (nullable e1) eqn:En.
          - apply (IH _ _ _ _ n); [lia|exact Hb2|lia].
          - pose proof (run_consumes _ _ _ _ _ _ _ _ En E1) as Hc. pose proof (bounded_lh a e2 Hb2).
            destruct n as [|n']; [lia|]. apply (IH _ _ _ _ n'); [lia|exact Hb2|]. cbn [Nat.mul] in Hf. lia. }
        destruct (run f e2 a s2 p2); try discriminate; contradiction.
      + (* choice *)
        cbn [bounded] in Hb. apply andb_true_iff in Hb. destruct Hb as [_ Hb]. apply andb_true_iff in Hb. destruct Hb as [Hb1 Hb2].
        cbn [lh] in Hf.
        assert (H1 : run f e1 a s pos <> OutOfFuel) by (apply (IH _ _ _ _ n Hs Hb1); lia).
        destruct (run f e1 a s pos) as [| |s1 p1 t1] eqn:E1; try discriminate; [|contradiction].
        apply (IH _ _ _ _ n Hs Hb2). lia.
      + (* option *)
        cbn [bounded] in Hb. apply andb_true_iff in Hb. destruct Hb as [_ Hb1]. cbn [lh] in Hf.
        assert (H1 : run f e a s pos <> OutOfFuel) by (apply (IH _ _ _ _ n Hs Hb1); lia).
        destruct (run f e a s pos); try discriminate; contradiction.
      + (* repetition *)
        cbn [bounded] in Hb. apply andb_true_iff in Hb. destruct Hb as [_ Hb]. apply andb_true_iff in Hb. destruct Hb as [Hb1 Hbt].
        apply Nat.leb_le in Hbt. cbn [lh] in Hf, Hbt.
        assert (H1 : run f e a s pos <> OutOfFuel) by (apply (IH _ _ _ _ n Hs Hb1); lia).
        destruct (run f e a s pos) as [| |s1 p1 t1] eqn:E1; try discriminate; [contradiction|].
        destruct (run_len _ _ _ _ _ _ _ _ E1) as [L1 _].
        assert (H2 : run f (ERepTail e) a s1 p1 <> OutOfFuel).
        { apply (IH _ _ _ _ n); [lia| |cbn [lh]; lia]. cbn [bounded]. rewrite Hb1, andb_true_r. apply Nat.leb_le. cbn [lh]. lia. }
        destruct (run f (ERepTail e) a s1 p1); try discriminate; contradiction.
      + (* repetition tail *)
        assert (Hbt := Hb). cbn [bounded] in Hb. apply andb_true_iff in Hb. destruct Hb as [HbT Hb1]. apply Nat.leb_le in HbT.
        cbn [lh] in Hf, HbT.
        assert (H1 : run f ESkip a s pos <> OutOfFuel).
        { apply (IH _ _ _ _ n Hs); [|cbn [lh]; lia]. cbn [bounded lh]. rewrite andb_true_r. apply Nat.leb_le. lia. }
        destruct (run f ESkip a s pos) as [| |s1 p1 t1] eqn:E1; try discriminate; [contradiction|].
        destruct (run_len _ _ _ _ _ _ _ _ E1) as [L1 P1].
        assert (H2 : run f e a s1 p1 <> OutOfFuel) by (apply (IH _ _ _ _ n); [lia|exact Hb1|lia]).
        destruct (run f e a s1 p1) as [| |s2 p2 t2] eqn:E2; try discriminate; [contradiction|].
        destruct (Nat.eqb_spec p2 pos) as [Ep|Ep]; [discriminate|].
        pose proof (run_pos _ _ _ _ _ _ _ _ E1) as Q1. pose proof (run_pos _ _ _ _ _ _ _ _ E2) as Q2.
        destruct (run_len _ _ _ _ _ _ _ _ E2) as [L2 P2].
        assert (Hlt : length s2 < length s) by lia.
        assert (H3 : run f (ERepTail e) a s2 p2 <> OutOfFuel).
        { destruct n as [|n']; [lia|]. apply (IH _ _ _ _ n'); [lia|exact Hbt|]. cbn [lh Nat.mul] in *. lia. }
        destruct (run f (ERepTail e) a s2 p2); try discriminate; contradiction.
      + (* not *)
        cbn [bounded] in Hb. apply andb_true_iff in Hb. destruct Hb as [_ Hb1]. cbn [lh] in Hf.
        assert (H1 : run f e a s pos <> OutOfFuel) by (apply (IH _ _ _ _ n Hs Hb1); lia).
        destruct (run f e a s pos); try discriminate; contradiction.
      + (* and *)
        cbn [bounded] in Hb. apply andb_true_iff in Hb. destruct Hb as [_ Hb1]. cbn [lh] in Hf.
        assert (H1 : run f e a s pos <> OutOfFuel) by (apply (IH _ _ _ _ n Hs Hb1); lia).
        destruct (run f e a s pos); try discriminate; contradiction.
      + (* skip *)
        destruct a; try discriminate.
        destruct ws_rep_bounded as [Hwb Hwl]. cbn [lh] in Hf. unfold skh in Hf. cbn [isat] in Hf.
        assert (H1 : run f (ERep (ECall (g_ws g))) AAtomic s pos <> OutOfFuel) by (apply (IH _ _ _ _ n Hs Hwb); lia).
        destruct (run f (ERep (ECall (g_ws g))) AAtomic s pos); try discriminate; contradiction.
      + destruct (Nat.eqb pos 0); discriminate.
      + destruct s; discriminate.
  Qed.
End Term.
