(* Concrete.v — RFC 9535 concrete syntax (section 2 and the collected ABNF of Appendix A) as an
   executable reference recogniser written independently of pest: a scannerless recursive descent
   that follows the ABNF rule by rule and builds the AST in the conventions of parser/model.rs
   (raw names and string bodies), plus the RFC's validity rules: integer range of index and slice
   (2.1), well-typedness of function expressions (2.4.3). *)
From Coq Require Import List NArith ZArith Bool.
From JP Require Import Base Ast Dec2Bin.
Import ListNotations.
Open Scope Z_scope.

Definition P (A : Type) := str -> option (A * str).

Definition bindp {A B} (o : option A) (f : A -> option B) : option B :=
  match o with Some x => f x | None => None end.
Notation "'do' x <- o ; f" := (bindp o (fun x => f)) (at level 200, x pattern, o at level 100, f at level 200).

(* B = SP / HT / LF / CR ;  S = *B *)
Definition is_B (c : N) : bool := N.eqb c 32 || N.eqb c 9 || N.eqb c 10 || N.eqb c 13.
Fixpoint skipS (s : str) : str := match s with c :: r => if is_B c then skipS r else s | [] => [] end.

Definition lit1 (c : N) (s : str) : option str :=
  match s with x :: r => if N.eqb x c then Some r else None | [] => None end.
Definition lit2 (c d : N) (s : str) : option str :=
  match s with x :: y :: r => if N.eqb x c && N.eqb y d then Some r else None | _ => None end.

Definition is_DIGIT (c : N) : bool := (N.leb 48 c && N.leb c 57)%N.
Definition is_DIGIT1 (c : N) : bool := (N.leb 49 c && N.leb c 57)%N.
Definition is_ALPHA (c : N) : bool := ((N.leb 65 c && N.leb c 90) || (N.leb 97 c && N.leb c 122))%N.
Definition is_LCALPHA (c : N) : bool := (N.leb 97 c && N.leb c 122)%N.
Definition is_HEXDIG (c : N) : bool :=
  (is_DIGIT c || (N.leb 65 c && N.leb c 70) || (N.leb 97 c && N.leb c 102))%N.
Definition is_name_first (c : N) : bool :=
  (is_ALPHA c || N.eqb c 95 || (N.leb 128 c && N.leb c 55295) || (N.leb 57344 c && N.leb c 1114111))%N.
Definition is_name_char (c : N) : bool := is_name_first c || is_DIGIT c.
Definition is_unescaped (c : N) : bool :=
  ((N.leb 32 c && N.leb c 33) || (N.leb 35 c && N.leb c 38) || (N.leb 40 c && N.leb c 91)
   || (N.leb 93 c && N.leb c 55295) || (N.leb 57344 c && N.leb c 1114111))%N.

Fixpoint span_while (f : N -> bool) (s : str) : str * str :=
  match s with
  | c :: r => if f c then let '(a, b) := span_while f r in (c :: a, b) else ([], s)
  | [] => ([], [])
  end.

(* int = "0" / (["-"] DIGIT1 *DIGIT) : returns the matched text *)
Definition p_int_text : P str := fun s =>
  match s with
  | 48%N :: r => Some ([48%N], r)
  | 45%N :: c :: r => if is_DIGIT1 c then let '(ds, rest) := span_while is_DIGIT r in Some (45%N :: c :: ds, rest) else None
  | c :: r => if is_DIGIT1 c then let '(ds, rest) := span_while is_DIGIT r in Some (c :: ds, rest) else None
  | [] => None
  end.
Definition int_value (t : str) : Z :=
  match t with
  | 45%N :: ds => - match digits_val 0 ds with Some v => v | None => 0 end
  | ds => match digits_val 0 ds with Some v => v | None => 0 end
  end.
Definition in_ijson (z : Z) : bool := Z.leb (-9007199254740991) z && Z.leb z 9007199254740991.
(* an int of an index or slice selector: must be within the I-JSON range (2.1) *)
Definition p_int_ranged : P Z := fun s =>
  do (t, r) <- p_int_text s; let z := int_value t in if in_ijson z then Some (z, r) else None.

(* hexchar after "\u" *)
Definition hexv (c : N) : N :=
  if is_DIGIT c then (c - 48)%N else if N.leb 97 c then (c - 87)%N else (c - 55)%N.
Definition p_hex4 (s : str) : option (N * str) :=
  match s with
  | a :: b :: c :: d :: r =>
      if is_HEXDIG a && is_HEXDIG b && is_HEXDIG c && is_HEXDIG d
      then Some ((hexv a * 4096 + hexv b * 256 + hexv c * 16 + hexv d)%N, r) else None
  | _ => None
  end.
Definition p_hexchar (s : str) : option str :=
  do (u, r) <- p_hex4 s;
  if (N.leb 55296 u && N.leb u 56319)%N then           (* high surrogate: a low one must follow *)
    match r with
    | 92%N :: 117%N :: r2 =>
        do (l, r3) <- p_hex4 r2;
        if (N.leb 56320 l && N.leb l 57343)%N then Some r3 else None
    | _ => None
    end
  else if (N.leb 56320 u && N.leb u 57343)%N then None
  else Some r.

(* the body of a string literal up to (not including) the closing quote [q] *)
Fixpoint p_str_body (fuel : nat) (q : N) (s : str) : option str :=
  match fuel with
  | O => None
  | S f =>
      match s with
      | [] => None
      | c :: r =>
          if N.eqb c q then Some s
          else if N.eqb c 92 then
            match r with
            | e :: r2 =>
                if N.eqb e q || N.eqb e 98 || N.eqb e 102 || N.eqb e 110 || N.eqb e 114 || N.eqb e 116
                   || N.eqb e 47 || N.eqb e 92
                then p_str_body f q r2
                else if N.eqb e 117 then do r3 <- p_hexchar r2; p_str_body f q r3
                else None
            | [] => None
            end
          else if is_unescaped c || N.eqb c 39 || N.eqb c 34 then p_str_body f q r
          else None
      end
  end.
(* string-literal: returns (raw text including quotes, raw body) *)
Definition p_string : P (str * str) := fun s =>
  match s with
  | q :: r =>
      if N.eqb q 39 || N.eqb q 34 then
        do rest <- p_str_body (S (length r)) q r;
        match rest with
        | _ :: after =>
            let body := firstn (length r - length rest) r in
            Some ((q :: body ++ [q], body), after)
        | [] => None
        end
      else None
  | [] => None
  end.

Definition p_shorthand : P str := fun s =>
  match s with
  | c :: r => if is_name_first c then let '(cs, rest) := span_while is_name_char r in Some (c :: cs, rest) else None
  | [] => None
  end.

Definition p_fname : P str := fun s =>
  match s with
  | c :: r =>
      if is_LCALPHA c then
        let '(cs, rest) := span_while (fun x => is_LCALPHA x || N.eqb x 95 || is_DIGIT x) r in Some (c :: cs, rest)
      else None
  | [] => None
  end.

(* number = (int / "-0") [frac] [exp];  true / false / null; string-literal *)
Definition p_number_text : P str := fun s =>
  do (ip, r) <- match s with
                | 45%N :: 48%N :: r => Some ([45%N; 48%N], r)
                | _ => p_int_text s
                end;
  let '(fp, r1) :=
    match r with
    | 46%N :: c :: _ =>
        if is_DIGIT c then let '(ds, rest) := span_while is_DIGIT (tl r) in (46%N :: ds, rest) else ([], r)
    | _ => ([], r)
    end in
  let '(ep, r2) :=
    match r1 with
    | e :: r' =>
        if N.eqb e 101 || N.eqb e 69 then
          match r' with
          | sg :: c :: _ =>
              if (N.eqb sg 45 || N.eqb sg 43) && is_DIGIT c
              then let '(ds, rest) := span_while is_DIGIT (tl r') in (e :: sg :: ds, rest)
              else if is_DIGIT sg then let '(ds, rest) := span_while is_DIGIT r' in (e :: ds, rest)
              else ([], r1)
          | [c] => if is_DIGIT c then ([e; c], []) else ([], r1)
          | [] => ([], r1)
          end
        else ([], r1)
    | [] => ([], r1)
    end in
  Some (ip ++ fp ++ ep, r2).

Inductive lit_or_inf := LOk (l : literal) | LInfinite.

Definition p_literal : P lit_or_inf := fun s =>
  match s with
  | 116%N :: 114%N :: 117%N :: 101%N :: r => Some (LOk (LBool true), r)
  | 102%N :: 97%N :: 108%N :: 115%N :: 101%N :: r => Some (LOk (LBool false), r)
  | 110%N :: 117%N :: 108%N :: 108%N :: r => Some (LOk LNull, r)
  | _ =>
      match p_string s with
      | Some ((_, body), r) => Some (LOk (LStr body), r)
      | None =>
          do (t, r) <- p_number_text s;
          if existsb (fun c => N.eqb c 46 || N.eqb c 101 || N.eqb c 69) t then
            match parse_f64 t with
            | Some (neg, res) =>
                match f64_signed neg res with
                | FFinite d => Some (LOk (LFloat d), r)
                | FInf => Some (LInfinite, r)
                end
            | None => None
            end
          else Some (LOk (LInt (int_value t)), r)
      end
  end.

Definition inf_marker : dy := (1, 1025).
Definition lit_ast (l : lit_or_inf) : literal := match l with LOk x => x | LInfinite => LFloat inf_marker end.

Definition p_cmp_op : P cmpop := fun s =>
  match s with
  | 61%N :: 61%N :: r => Some (OpEq, r)
  | 33%N :: 61%N :: r => Some (OpNe, r)
  | 60%N :: 61%N :: r => Some (OpLe, r)
  | 62%N :: 61%N :: r => Some (OpGe, r)
  | 60%N :: r => Some (OpLt, r)
  | 62%N :: r => Some (OpGt, r)
  | _ => None
  end.

(* singular-query-segments = *(S (name-segment / index-segment)), no blank inside the brackets *)
Fixpoint p_sqsegs (fuel : nat) (s : str) : list sqseg * str :=
  match fuel with
  | O => ([], s)
  | S f =>
      let s1 := skipS s in
      match s1 with
      | 91%N :: r =>
          match p_string r with
          | Some ((raw, _), 93%N :: r2) => let '(l, rest) := p_sqsegs f r2 in (SqName raw :: l, rest)
          | _ =>
              match p_int_text r with
              | Some (t, 93%N :: r2) => let '(l, rest) := p_sqsegs f r2 in (SqIndex (int_value t) :: l, rest)
              | _ => ([], s)
              end
          end
      | 46%N :: r =>
          match p_shorthand r with
          | Some (n, r2) => let '(l, rest) := p_sqsegs f r2 in (SqName n :: l, rest)
          | None => ([], s)
          end
      | _ => ([], s)
      end
  end.
Definition sq_in_range (l : list sqseg) : bool :=
  forallb (fun x => match x with SqIndex i => in_ijson i | SqName _ => true end) l.

(* slice-selector = [start S] ":" S [end S] [":" [S step]] *)
Definition p_slice : P selector := fun s =>
  let '(st, s1) := match p_int_ranged s with Some (z, r) => (Some z, skipS r) | None => (None, s) end in
  do s2 <- lit1 58 s1;
  let s3 := skipS s2 in
  let '(en, s4) := match p_int_ranged s3 with Some (z, r) => (Some z, skipS r) | None => (None, s3) end in
  match lit1 58 s4 with
  | Some s5 =>
      match p_int_ranged (skipS s5) with
      | Some (z, r) => Some (SelSlice st en (Some z), r)
      | None => Some (SelSlice st en None, s5)
      end
  | None => Some (SelSlice st en None, (match en with Some _ => s4 | None => s3 end))
  end.

Definition c_selectors_of_list (l : list selector) : selectors := fold_right SCons SNil l.
Definition c_filters_of_list (l : list filter) : filters := fold_right FCons FNil l.
Definition c_fnargs_of_list (l : list fnarg) : fnargs := fold_right ACons ANil l.

Definition n_length : str := [108; 101; 110; 103; 116; 104]%N.
Definition n_value : str := [118; 97; 108; 117; 101]%N.
Definition n_count : str := [99; 111; 117; 110; 116]%N.
Definition n_search : str := [115; 101; 97; 114; 99; 104]%N.
Definition n_match : str := [109; 97; 116; 99; 104]%N.

Definition mk_tfun (name : str) (args : list fnarg) : option tfun :=
  if str_eqb name n_length then match args with [a] => Some (FnLength a) | _ => None end
  else if str_eqb name n_value then match args with [a] => Some (FnValue a) | _ => None end
  else if str_eqb name n_count then match args with [a] => Some (FnCount a) | _ => None end
  else if str_eqb name n_search then match args with [a; b] => Some (FnSearch a b) | _ => None end
  else if str_eqb name n_match then match args with [a; b] => Some (FnMatch a b) | _ => None end
  else Some (FnCustom name (c_fnargs_of_list args)).

(* the mutually recursive part, on fuel (every call consumes fuel; fuel is linear in the input) *)
Fixpoint p_segments (fuel : nat) (s : str) : option (segments * str) :=
  match fuel with
  | O => None
  | S f =>
      match p_segment f (skipS s) with
      | Some (seg, r) => do (l, rest) <- p_segments f r; Some (GCons seg l, rest)
      | None => Some (GNil, s)
      end
  end
with p_segment (fuel : nat) (s : str) : option (segment * str) :=
  match fuel with
  | O => None
  | S f =>
      match s with
      | 46%N :: 46%N :: r =>
          match r with
          | 42%N :: r2 => Some (SegDesc (SegSel SelWild), r2)
          | 91%N :: _ => do (seg, r2) <- p_bracketed f r; Some (SegDesc seg, r2)
          | _ => do (n, r2) <- p_shorthand r; Some (SegDesc (SegSel (SelName n)), r2)
          end
      | 46%N :: r =>
          match r with
          | 42%N :: r2 => Some (SegSel SelWild, r2)
          | _ => do (n, r2) <- p_shorthand r; Some (SegSel (SelName n), r2)
          end
      | 91%N :: _ => p_bracketed f s
      | _ => None
      end
  end
(* bracketed-selection = "[" S selector *(S "," S selector) S "]" *)
with p_bracketed (fuel : nat) (s : str) : option (segment * str) :=
  match fuel with
  | O => None
  | S f =>
      do r <- lit1 91 s;
      do (first, r1) <- p_selector f (skipS r);
      do (more, r2) <- p_more_selectors f r1;
      do r3 <- lit1 93 (skipS r2);
      match more with
      | [] => Some (SegSel first, r3)
      | _ => Some (SegSels (c_selectors_of_list (first :: more)), r3)
      end
  end
with p_more_selectors (fuel : nat) (s : str) : option (list selector * str) :=
  match fuel with
  | O => None
  | S f =>
      match lit1 44 (skipS s) with
      | Some r => do (x, r1) <- p_selector f (skipS r); do (l, r2) <- p_more_selectors f r1; Some (x :: l, r2)
      | None => Some ([], s)
      end
  end
with p_selector (fuel : nat) (s : str) : option (selector * str) :=
  match fuel with
  | O => None
  | S f =>
      match s with
      | 42%N :: r => Some (SelWild, r)
      | 63%N :: r => do (e, r1) <- p_or f (skipS r); Some (SelFilter e, r1)
      | _ =>
          match p_string s with
          | Some ((raw, _), r) => Some (SelName raw, r)
          | None =>
              match p_slice s with
              | Some x => Some x
              | None => do (z, r) <- p_int_ranged s; Some (SelIndex z, r)
              end
          end
      end
  end
(* logical-or-expr = logical-and-expr *(S "||" S logical-and-expr) *)
with p_or (fuel : nat) (s : str) : option (filter * str) :=
  match fuel with
  | O => None
  | S f =>
      do (first, r) <- p_and f s;
      do (more, r1) <- p_more_or f r;
      match more with
      | [] => Some (first, r1)
      | _ => Some (FOr (c_filters_of_list (first :: more)), r1)
      end
  end
with p_more_or (fuel : nat) (s : str) : option (list filter * str) :=
  match fuel with
  | O => None
  | S f =>
      match lit2 124 124 (skipS s) with
      | Some r => do (x, r1) <- p_and f (skipS r); do (l, r2) <- p_more_or f r1; Some (x :: l, r2)
      | None => Some ([], s)
      end
  end
with p_and (fuel : nat) (s : str) : option (filter * str) :=
  match fuel with
  | O => None
  | S f =>
      do (first, r) <- p_basic f s;
      do (more, r1) <- p_more_and f r;
      match more with
      | [] => Some (FAtom first, r1)
      | _ => Some (FAnd (c_filters_of_list (map FAtom (first :: more))), r1)
      end
  end
with p_more_and (fuel : nat) (s : str) : option (list atom * str) :=
  match fuel with
  | O => None
  | S f =>
      match lit2 38 38 (skipS s) with
      | Some r => do (x, r1) <- p_basic f (skipS r); do (l, r2) <- p_more_and f r1; Some (x :: l, r2)
      | None => Some ([], s)
      end
  end
(* basic-expr = paren-expr / comparison-expr / test-expr *)
with p_basic (fuel : nat) (s : str) : option (atom * str) :=
  match fuel with
  | O => None
  | S f =>
      let '(neg, s1) := match s with 33%N :: r => (true, skipS r) | _ => (false, s) end in
      match s1 with
      | 40%N :: r =>
          do (e, r1) <- p_or f (skipS r);
          do r2 <- lit1 41 (skipS r1);
          Some (AFilter e neg, r2)
      | _ =>
          let as_test :=
            do (t, r) <- p_test f s1; Some (ATest t neg, r) in
          if neg then as_test
          else
            match p_comparable f s with
            | Some (l, r) =>
                match p_cmp_op (skipS r) with
                | Some (op, r1) =>
                    match p_comparable f (skipS r1) with
                    | Some (rc, r2) => Some (ACmp op l rc, r2)
                    | None => as_test
                    end
                | None => as_test
                end
            | None => as_test
            end
      end
  end
(* comparable = literal / singular-query / function-expr *)
with p_comparable (fuel : nat) (s : str) : option (comparable * str) :=
  match fuel with
  | O => None
  | S f =>
      match s with
      | 64%N :: r => let '(l, rest) := p_sqsegs (S (length r)) r in
                     if sq_in_range l then Some (CSq (SqCur l), rest) else None
      | 36%N :: r => let '(l, rest) := p_sqsegs (S (length r)) r in
                     if sq_in_range l then Some (CSq (SqRoot l), rest) else None
      | _ =>
          match p_literal s with
          | Some (l, r) => Some (CLit (lit_ast l), r)
          | None => do (fn, r) <- p_function f s; Some (CFn fn, r)
          end
      end
  end
(* filter-query / function-expr *)
with p_test (fuel : nat) (s : str) : option (test * str) :=
  match fuel with
  | O => None
  | S f =>
      match s with
      | 64%N :: r => do (segs, r1) <- p_segments f r; Some (TRel segs, r1)
      | 36%N :: r => do (segs, r1) <- p_segments f r; Some (TAbs segs, r1)
      | _ => do (fn, r) <- p_function f s; Some (TFn fn, r)
      end
  end
(* function-expr = function-name "(" S [function-argument *(S "," S function-argument)] S ")" *)
with p_function (fuel : nat) (s : str) : option (tfun * str) :=
  match fuel with
  | O => None
  | S f =>
      do (name, r) <- p_fname s;
      do r1 <- lit1 40 r;
      let r2 := skipS r1 in
      match lit1 41 r2 with
      | Some r3 => do fn <- mk_tfun name []; Some (fn, r3)
      | None =>
          do (first, r3) <- p_argument f r2;
          do (more, r4) <- p_more_args f r3;
          do r5 <- lit1 41 (skipS r4);
          do fn <- mk_tfun name (first :: more);
          Some (fn, r5)
      end
  end
with p_more_args (fuel : nat) (s : str) : option (list fnarg * str) :=
  match fuel with
  | O => None
  | S f =>
      match lit1 44 (skipS s) with
      | Some r => do (x, r1) <- p_argument f (skipS r); do (l, r2) <- p_more_args f r1; Some (x :: l, r2)
      | None => Some ([], s)
      end
  end
(* function-argument = literal / filter-query / function-expr / logical-expr; an argument ends
   at (S) "," or ")" — the alternative is chosen so that it does *)
with p_argument (fuel : nat) (s : str) : option (fnarg * str) :=
  match fuel with
  | O => None
  | S f =>
      let ends_arg := fun r : str => match skipS r with 44%N :: _ | 41%N :: _ => true | _ => false end in
      let as_logical := do (e, r) <- p_or f s; Some (ArgFilter e, r) in
      match p_literal s with
      | Some (l, r) => if ends_arg r then Some (ArgLit (lit_ast l), r) else as_logical
      | None =>
          match p_test f s with
          | Some (t, r) => if ends_arg r then Some (ArgTest t, r) else as_logical
          | None => as_logical
          end
      end
  end.

(* ---------- validity: well-typedness of function expressions (2.4.3) ---------- *)
Definition singular_seg' (s : segment) : bool :=
  match s with SegSel (SelName _) | SegSel (SelIndex _) => true | _ => false end.
Fixpoint singular' (l : segments) : bool :=
  match l with GNil => true | GCons s l' => singular_seg' s && singular' l' end.
Definition std_value_fn (f : tfun) : bool := match f with FnLength _ | FnCount _ | FnValue _ => true | _ => false end.
Definition std_logical_fn (f : tfun) : bool := match f with FnMatch _ _ | FnSearch _ _ => true | _ => false end.

Fixpoint t_segment (s : segment) : bool :=
  match s with
  | SegDesc s' => t_segment s'
  | SegSel x => t_selector x
  | SegSels l => t_selectors l
  end
with t_selector (s : selector) : bool :=
  match s with SelFilter f => t_filter f | _ => true end
with t_selectors (l : selectors) : bool :=
  match l with SNil => true | SCons s l' => t_selector s && t_selectors l' end
with t_segments (l : segments) : bool :=
  match l with GNil => true | GCons s l' => t_segment s && t_segments l' end
with t_filter (f : filter) : bool :=
  match f with FOr l | FAnd l => t_filters l | FAtom a => t_atom a end
with t_filters (l : filters) : bool :=
  match l with FNil => true | FCons f l' => t_filter f && t_filters l' end
with t_atom (a : atom) : bool :=
  match a with
  | AFilter f _ => t_filter f
  | ATest t _ =>
      match t with
      | TRel l | TAbs l => t_segments l
      | TFn f => std_logical_fn f && t_tfun f          (* a test needs LogicalType (or NodesType) *)
      end
  | ACmp _ l r => t_comparable l && t_comparable r
  end
with t_comparable (c : comparable) : bool :=
  match c with
  | CLit _ | CSq _ => true
  | CFn f => std_value_fn f && t_tfun f                 (* a comparable needs ValueType *)
  end
with t_tfun (f : tfun) : bool :=
  match f with
  | FnLength a => t_value_arg a
  | FnCount a | FnValue a => t_nodes_arg a
  | FnMatch a b | FnSearch a b => t_value_arg a && t_value_arg b
  | FnCustom _ _ => false                               (* not a function the RFC defines *)
  end
with t_value_arg (a : fnarg) : bool :=
  match a with
  | ArgLit _ => true
  | ArgTest t =>
      match t with
      | TRel l | TAbs l => singular' l && t_segments l
      | TFn f => std_value_fn f && t_tfun f
      end
  | ArgFilter _ => false
  end
with t_nodes_arg (a : fnarg) : bool :=
  match a with
  | ArgTest t => match t with TRel l | TAbs l => t_segments l | TFn _ => false end
  | _ => false
  end.

(* ---------- does the query call a function the RFC does not define? (outside C07) ---------- *)
Fixpoint x_segment (s : segment) : bool :=
  match s with SegDesc s' => x_segment s' | SegSel x => x_selector x | SegSels l => x_selectors l end
with x_selector (s : selector) : bool := match s with SelFilter f => x_filter f | _ => false end
with x_selectors (l : selectors) : bool := match l with SNil => false | SCons s l' => x_selector s || x_selectors l' end
with x_segments (l : segments) : bool := match l with GNil => false | GCons s l' => x_segment s || x_segments l' end
with x_filter (f : filter) : bool := match f with FOr l | FAnd l => x_filters l | FAtom a => x_atom a end
with x_filters (l : filters) : bool := match l with FNil => false | FCons f l' => x_filter f || x_filters l' end
with x_atom (a : atom) : bool :=
  match a with
  | AFilter f _ => x_filter f
  | ATest t _ => x_test t
  | ACmp _ l r => x_comparable l || x_comparable r
  end
with x_comparable (c : comparable) : bool := match c with CFn f => x_tfun f | _ => false end
with x_test (t : test) : bool := match t with TRel l | TAbs l => x_segments l | TFn f => x_tfun f end
with x_tfun (f : tfun) : bool :=
  match f with
  | FnCustom _ _ => true
  | FnLength a | FnCount a | FnValue a => x_fnarg a
  | FnMatch a b | FnSearch a b => x_fnarg a || x_fnarg b
  end
with x_fnarg (a : fnarg) : bool :=
  match a with ArgLit _ => false | ArgTest t => x_test t | ArgFilter f => x_filter f end
with x_fnargs (l : fnargs) : bool := match l with ANil => false | ACons a l' => x_fnarg a || x_fnargs l' end.

Inductive rfc_res :=
| RfcValid (q : query)          (* well-formed and valid *)
| RfcExtension (q : query)      (* well-formed; calls a function the RFC does not define *)
| RfcIllTyped (q : query)       (* well-formed, not well-typed *)
| RfcInvalid.                   (* not in the grammar (or an integer out of range) *)

(* jsonpath-query = root-identifier segments, the whole input *)
Definition rfc_parse (s : str) : rfc_res :=
  match s with
  | 36%N :: r =>
      match p_segments (200 + 40 * length s) r with
      | Some (q, []) =>
          if x_segments q then RfcExtension q
          else if t_segments q then RfcValid q else RfcIllTyped q
      | _ => RfcInvalid
      end
  | _ => RfcInvalid
  end.
