(* PathFacts.v — C03: on documents whose member names need no escaping, and for queries whose name
   selectors are shorthand or single-quoted (and plain), every pointer the model produces carries
   as its path string the RFC 9535 Normalized Path of its location, however the query reached
   it (index normalisation, slices, wildcards, descendants, filters). *)
From Coq Require Import List NArith ZArith Bool Lia.
From JP Require Import Base Ast Eval ValueModel Spec NormPath BaseFacts DataFacts ValueFacts IndexFacts
  SliceFacts SelFacts Known WellFormed.
Import ListNotations.

Lemma np_snoc l s : np (l ++ [s]) = np l ++ np_step s.
Proof. unfold np. rewrite flat_map_app'. cbn [flat_map]. rewrite app_nil_r, app_assoc. reflexivity. Qed.

Lemma escape_plain k : docname_plain k = true -> flat_map np_escape_char k = k.
Proof.
  induction k as [|c k IH]; [reflexivity|]. cbn [docname_plain forallb]. intros H.
  apply andb_true_iff in H. destruct H as [Hc Hk]. cbn [flat_map]. rewrite (IH Hk).
  apply andb_true_iff in Hc. destruct Hc as [Hc H92]. apply andb_true_iff in Hc. destruct Hc as [H32 H39].
  apply negb_true_iff in H92. apply negb_true_iff in H39. apply N.leb_le in H32.
  unfold np_escape_char.
  destruct (N.eqb_spec c 8); [lia|]. destruct (N.eqb_spec c 12); [lia|].
  destruct (N.eqb_spec c 10); [lia|]. destruct (N.eqb_spec c 13); [lia|].
  destruct (N.eqb_spec c 9); [lia|]. rewrite H39, H92.
  destruct (N.ltb_spec c 32); [lia|]. reflexivity.
Qed.

Lemma docname_plain_no_quote k : docname_plain k = true -> starts_with [c_quote] k = false.
Proof.
  destruct k as [|c k]; [reflexivity|]. cbn [docname_plain forallb starts_with]. intros H.
  apply andb_true_iff in H. destruct H as [Hc _]. apply andb_true_iff in Hc. destruct Hc as [Hc _].
  apply andb_true_iff in Hc. destruct Hc as [_ H39]. apply negb_true_iff in H39.
  unfold c_quote. rewrite N.eqb_sym, H39. reflexivity.
Qed.

(* the invariant of a top-level pointer *)
Definition PInv (p : ptr json) : Prop :=
  path p = np (ploc p) /\ doc_plain (inner p) = true.

Lemma pinv_idx (p : ptr json) e i :
  PInv p -> doc_plain e = true -> PInv (ptr_idx e (path p) (ploc p) i).
Proof.
  intros [Hp Hd] He. split; [|exact He]. cbn [path ploc ptr_idx]. rewrite np_snoc, Hp. reflexivity.
Qed.

Lemma pinv_key_doc (p : ptr json) v k :
  PInv p -> docname_plain k = true -> doc_plain v = true -> PInv (ptr_key v (path p) (ploc p) k k).
Proof.
  intros [Hp Hd] Hk Hv. split; [|exact Hv]. cbn [path ploc ptr_key].
  rewrite (docname_plain_no_quote k Hk). cbn [andb]. rewrite np_snoc, Hp.
  cbn [np_step]. rewrite (escape_plain k Hk). rewrite <- ?app_assoc. reflexivity.
Qed.

Lemma doc_plain_arr l e : doc_plain (JArr l) = true -> In e l -> doc_plain e = true.
Proof. cbn [doc_plain]. rewrite forallb_forall. intros H Hin. apply H. exact Hin. Qed.
Lemma doc_plain_obj m k v :
  doc_plain (JObj m) = true -> In (k, v) m -> docname_plain k = true /\ doc_plain v = true.
Proof.
  cbn [doc_plain]. rewrite forallb_forall. intros H Hin. specialize (H (k, v) Hin).
  apply andb_true_iff in H. exact H.
Qed.

Definition AllP (d : data json) : Prop := Forall PInv (refs_of d).

Lemma allp_flat_map (f : ptr json -> data json) d :
  AllP d -> (forall p, PInv p -> AllP (f p)) -> AllP (flat_map_data f d).
Proof.
  unfold AllP. intros Hd Hf. destruct d as [p|l|v|]; cbn [flat_map_data refs_of] in *.
  - apply Hf. inversion Hd. assumption.
  - rewrite Forall_forall in *. intros q Hq. apply in_flat_map in Hq. destruct Hq as [p [Hp Hq]].
    specialize (Hf p (Hd p Hp)). rewrite Forall_forall in Hf. apply Hf. exact Hq.
  - constructor.
  - constructor.
Qed.

Lemma refs_reduce_incl (a b : data json) q :
  In q (refs_of (reduce a b)) -> In q (refs_of a) \/ In q (refs_of b).
Proof.
  destruct a as [p|l|v|], b as [p2|l2|v2|]; cbn [reduce refs_of]; intros H;
    repeat (rewrite in_app_iff in H); cbn [In] in *; tauto.
Qed.

Lemma allp_reduce a b : AllP a -> AllP b -> AllP (reduce a b).
Proof.
  unfold AllP. rewrite !Forall_forall. intros Ha Hb q Hq.
  destruct (refs_reduce_incl a b q Hq); auto.
Qed.

Lemma in_enum_from' {A} (l : list A) i n x : In (n, x) (enum_from i l) -> In x l.
Proof.
  revert i. induction l as [|y l IH]; intros i; [intros []|]. cbn [enum_from].
  intros [E|H]; [inversion E; left; reflexivity|right; eapply IH; exact H].
Qed.

Lemma allp_kids_arr (p : ptr json) l (sel : nat * json -> bool) :
  PInv p -> inner p = JArr l ->
  Forall PInv (map (fun '(i, e) => ptr_idx e (path p) (ploc p) i) (List.filter sel (enum_from 0 l))).
Proof.
  intros Hp Hi. rewrite Forall_forall. intros q Hq. apply in_map_iff in Hq.
  destruct Hq as [[i e] [<- Hie]]. apply filter_In in Hie. destruct Hie as [Hie _].
  apply pinv_idx; [exact Hp|]. destruct Hp as [_ Hd]. rewrite Hi in Hd.
  eapply doc_plain_arr; [exact Hd|]. eapply in_enum_from'. exact Hie.
Qed.

Lemma allp_kids_obj (p : ptr json) m (sel : str * json -> bool) :
  PInv p -> inner p = JObj m ->
  Forall PInv (map (fun '(k, v) => ptr_key v (path p) (ploc p) k k) (List.filter sel m)).
Proof.
  intros Hp Hi. rewrite Forall_forall. intros q Hq. apply in_map_iff in Hq.
  destruct Hq as [[k v] [<- Hkv]]. apply filter_In in Hkv. destruct Hkv as [Hkv _].
  destruct Hp as [Hpp Hd]. rewrite Hi in Hd.
  destruct (doc_plain_obj m k v Hd Hkv) as [Hk Hv].
  apply pinv_key_doc; [split; [exact Hpp|rewrite Hi; exact Hd]|exact Hk|exact Hv].
Qed.

Lemma filter_true {A} (l : list A) : List.filter (fun _ => true) l = l.
Proof. induction l as [|x l IH]; [reflexivity|]. cbn. rewrite IH. reflexivity. Qed.

Lemma allp_wildcard p : PInv p -> AllP (process_wildcard J p).
Proof.
  intros Hp. unfold AllP, process_wildcard. cbn [q_as_array q_as_object J value_ops].
  destruct (inner p) as [| | | | l | m] eqn:Ei; try constructor.
  - destruct l as [|x l]; [constructor|]. cbn [refs_of].
    rewrite <- (filter_true (enum_from 0 (x :: l))). apply allp_kids_arr; assumption.
  - destruct m as [|x m]; [constructor|]. cbn [refs_of].
    rewrite <- (filter_true (x :: m)). apply allp_kids_obj; assumption.
Qed.

Lemma allp_children_of elem p : PInv p -> AllP (children_of J elem p).
Proof.
  intros Hp. unfold AllP, children_of. cbn [q_as_array q_as_object J value_ops].
  destruct (inner p) as [| | | | l | m] eqn:Ei; try constructor; cbn [refs_of].
  - apply allp_kids_arr; assumption.
  - apply allp_kids_obj; assumption.
Qed.

Lemma allp_index p i : PInv p -> AllP (process_index J p i).
Proof.
  intros Hp. unfold AllP.
  destruct (inner p) as [| | | | arr | m] eqn:Ei;
    try (rewrite process_index_non_array by (rewrite Ei; reflexivity); constructor).
  rewrite (process_index_rfc json J p arr i) by (rewrite Ei; reflexivity).
  destruct (rfc_index (Z.of_nat (length arr)) i) as [j|]; [|constructor].
  destruct (nth_error arr (Z.to_nat j)) as [e|] eqn:En; [|constructor].
  cbn [refs_of]. constructor; [|constructor]. apply pinv_idx; [exact Hp|].
  destruct Hp as [_ Hd]. rewrite Ei in Hd. eapply doc_plain_arr; [exact Hd|].
  eapply nth_error_In. exact En.
Qed.

Lemma allp_slice p s e st : PInv p -> AllP (process_slice J p s e st).
Proof.
  intros Hp. unfold AllP.
  destruct (inner p) as [| | | | arr | m] eqn:Ei;
    try (rewrite process_slice_non_array by (rewrite Ei; reflexivity); constructor).
  rewrite (process_slice_rfc json J p arr s e st) by (rewrite Ei; reflexivity).
  cbn [refs_of]. rewrite Forall_forall. intros q Hq. apply in_flat_map in Hq.
  destruct Hq as [j [_ Hq]]. destruct (nth_error arr (Z.to_nat j)) as [x|] eqn:En; [|destruct Hq].
  destruct Hq as [<-|[]]. apply pinv_idx; [exact Hp|].
  destruct Hp as [_ Hd]. rewrite Ei in Hd. eapply doc_plain_arr; [exact Hd|].
  eapply nth_error_In. exact En.
Qed.

(* a name selector spelled in shorthand or single quotes, plain *)
Lemma allp_key p raw :
  name_plain raw = true -> name_single_or_short raw = true -> PInv p -> AllP (process_key J p raw).
Proof.
  intros Hpl Hsingle Hp. unfold AllP.
  destruct (decode_name_plain raw Hpl) as [k [Hd Hg]].
  assert (Hnb : no_bslash raw = true).
  { unfold name_plain in Hpl. apply andb_true_iff in Hpl. destruct Hpl as [Hpl _].
    apply andb_true_iff in Hpl. apply Hpl. }
  unfold process_key. rewrite (normalize_no_bslash raw Hnb). cbn [q_get J value_ops]. rewrite Hg.
  destruct (inner p) as [| | | | |m] eqn:Ei; try constructor.
  destruct (assoc k m) as [x|] eqn:Ea; [|constructor]. cbn [refs_of]. constructor; [|constructor].
  destruct Hp as [Hpp Hdp]. rewrite Ei in Hdp.
  destruct (doc_plain_obj m k x Hdp (assoc_in k m x Ea)) as [Hk Hx].
  split; [|exact Hx]. cbn [path ploc ptr_key]. rewrite np_snoc, Hpp. cbn [np_step].
  rewrite (escape_plain k Hk).
  (* the raw text is either k itself (shorthand) or 'k' *)
  unfold name_plain in Hpl. apply andb_true_iff in Hpl. destruct Hpl as [Hbc Hshape].
  apply andb_true_iff in Hbc. destruct Hbc as [Hb Hc].
  unfold name_single_or_short, name_kind in Hsingle.
  destruct raw as [|c rest].
  - cbn in Hd. inversion Hd. subst k. reflexivity.
  - unfold name_kind in Hshape.
    destruct (N.eqb_spec c 39) as [->|Hn39].
    + cbn [N.eqb Pos.eqb] in Hshape.
      destruct (decode_name_quoted 39 rest (or_introl eq_refl) Hb Hc Hshape) as [body [Er [Hbody Hd2]]].
      rewrite Hd2 in Hd. inversion Hd. subst k.
      assert (Hs : starts_with [c_quote] (39%N :: rest) = true) by reflexivity.
      assert (He : ends_with [c_quote] (39%N :: rest) = true).
      { unfold ends_with. cbn [rev]. rewrite Er, rev_app_distr. reflexivity. }
      rewrite Hs, He. cbn [andb]. rewrite Er. f_equal. unfold c_lbr, c_rbr. cbn [app].
      rewrite <- app_assoc. reflexivity.
    + destruct (N.eqb_spec c 34) as [->|Hn34]; [discriminate|].
      assert (Hk2 : k = c :: rest).
      { cbn [decode_name] in Hd. destruct (N.eqb_spec c 39); [contradiction|].
        destruct (N.eqb_spec c 34); [contradiction|]. cbn [orb] in Hd. inversion Hd. reflexivity. }
      subst k.
      assert (Hs : starts_with [c_quote] (c :: rest) = false).
      { cbn [starts_with]. unfold c_quote. destruct (N.eqb_spec 39 c); [congruence|reflexivity]. }
      rewrite Hs. cbn [andb]. rewrite <- ?app_assoc. reflexivity.
Qed.

Lemma allp_flat_map_in (f : ptr json -> data json) d :
  (forall p, In p (refs_of d) -> AllP (f p)) -> AllP (flat_map_data f d).
Proof.
  unfold AllP. intros Hf. destruct d as [p|l|v|]; cbn [flat_map_data refs_of] in *.
  - apply Hf. left. reflexivity.
  - rewrite Forall_forall. intros q Hq. apply in_flat_map in Hq. destruct Hq as [p [Hp Hq]].
    specialize (Hf p Hp). rewrite Forall_forall in Hf. apply Hf. exact Hq.
  - constructor.
  - constructor.
Qed.

Lemma allp_descendant (v : json) : forall fuel (p : ptr json),
  inner p = v -> PInv p -> AllP (process_descendant J fuel p).
Proof.
  induction v as [| b | n | s | l IH | m IH] using json_ind'; intros fuel p Hi Hp;
    (destruct fuel as [|fuel]; [constructor|]);
    cbn [process_descendant q_as_array q_as_object J value_ops]; rewrite Hi.
  - constructor.
  - constructor.
  - constructor.
  - constructor.
  - apply allp_reduce; [constructor; [exact Hp|constructor]|].
    apply allp_flat_map_in. cbn [refs_of]. intros q Hq.
    pose proof (allp_kids_arr p l (fun _ => true) Hp Hi) as Hk. rewrite filter_true in Hk.
    rewrite Forall_forall in Hk. specialize (Hk q Hq).
    apply in_map_iff in Hq. destruct Hq as [[i e] [<- Hie]].
    rewrite Forall_forall in IH. apply (IH e (in_enum_from' l 0 i e Hie)); [reflexivity|exact Hk].
  - apply allp_reduce; [constructor; [exact Hp|constructor]|].
    apply allp_flat_map_in. cbn [refs_of]. intros q Hq.
    pose proof (allp_kids_obj p m (fun _ => true) Hp Hi) as Hk. rewrite filter_true in Hk.
    rewrite Forall_forall in Hk. specialize (Hk q Hq).
    apply in_map_iff in Hq. destruct Hq as [[k e] [<- Hke]].
    rewrite Forall_forall in IH. apply (IH (k, e) Hke); [reflexivity|exact Hk].
Qed.

Lemma allp_descend p : PInv p -> AllP (descend J p).
Proof. intros Hp. unfold descend. apply (allp_descendant (inner p)); [reflexivity|exact Hp]. Qed.

(* ---------- the top-level induction: segments, selectors ---------- *)
Section Paths.
  Variable rx_search : str -> str -> option bool.
  Variable root : json.

  (* shorthand / single-quoted plain names at top level (inside filters names do not reach paths) *)
  Definition sel_path_ok (s : selector) : bool :=
    match s with SelName k => name_plain k && name_single_or_short k | _ => true end.
  Fixpoint sels_path_ok (l : selectors) : bool :=
    match l with SNil => true | SCons s l' => sel_path_ok s && sels_path_ok l' end.
  Fixpoint seg_path_ok (s : segment) : bool :=
    match s with
    | SegDesc s' => seg_path_ok s'
    | SegSel x => sel_path_ok x
    | SegSels l => match l with SNil => false | _ => sels_path_ok l end
    end.
  Fixpoint segs_path_ok (l : segments) : bool :=
    match l with GNil => true | GCons s l' => seg_path_ok s && segs_path_ok l' end.

  Lemma allp_selector s d :
    sel_path_ok s = true -> AllP d -> AllP (e_selector J rx_search root s d).
  Proof.
    intros Hok Hd. destruct s as [k| |i|a b c|f].
    - cbn [sel_path_ok] in Hok. apply andb_true_iff in Hok. destruct Hok as [Hp Hs].
      change (AllP (flat_map_data (fun p => process_key J p k) d)).
      apply allp_flat_map; [exact Hd|]. intros p Hpp. apply allp_key; assumption.
    - change (AllP (flat_map_data (process_wildcard J) d)).
      apply allp_flat_map; [exact Hd|]. intros p Hpp. apply allp_wildcard. exact Hpp.
    - change (AllP (flat_map_data (fun p => process_index J p i) d)).
      apply allp_flat_map; [exact Hd|]. intros p Hpp. apply allp_index. exact Hpp.
    - change (AllP (flat_map_data (fun p => process_slice J p a b c) d)).
      apply allp_flat_map; [exact Hd|]. intros p Hpp. apply allp_slice. exact Hpp.
    - change (AllP (fselect J (e_felem J rx_search root f) d)). unfold fselect.
      apply allp_flat_map; [exact Hd|]. intros p Hpp. apply allp_children_of. exact Hpp.
  Qed.

  Lemma allp_selectors l : forall d acc,
    sels_path_ok l = true -> AllP d -> AllP acc -> AllP (e_selectors J rx_search root l d acc).
  Proof.
    induction l as [|s l IH]; intros d acc Hok Hd Ha; [exact Ha|].
    cbn [sels_path_ok] in Hok. apply andb_true_iff in Hok. destruct Hok as [Hs Hl].
    change (AllP (e_selectors J rx_search root l d (reduce acc (e_selector J rx_search root s d)))).
    apply IH; [exact Hl|exact Hd|]. apply allp_reduce; [exact Ha|]. apply allp_selector; assumption.
  Qed.

  Lemma allp_segment s : forall d,
    seg_path_ok s = true -> AllP d -> AllP (e_segment J rx_search root s d).
  Proof.
    induction s as [s IH|sel|l]; intros d Hok Hd.
    - change (AllP (e_segment J rx_search root s (flat_map_data (descend J) d))).
      apply IH; [exact Hok|]. apply allp_flat_map; [exact Hd|]. intros p Hp. apply allp_descend. exact Hp.
    - apply allp_selector; assumption.
    - destruct l as [|s0 l']; [discriminate|]. cbn [seg_path_ok sels_path_ok] in Hok.
      apply andb_true_iff in Hok. destruct Hok as [H0 Hl].
      change (AllP (e_selectors J rx_search root l' d (e_selector J rx_search root s0 d))).
      apply allp_selectors; [exact Hl|exact Hd|]. apply allp_selector; assumption.
  Qed.

  Lemma allp_segments l : forall d,
    segs_path_ok l = true -> AllP d -> AllP (e_segments J rx_search root l d).
  Proof.
    induction l as [|s l IH]; intros d Hok Hd; [exact Hd|].
    cbn [segs_path_ok] in Hok. apply andb_true_iff in Hok. destruct Hok as [Hs Hl].
    change (AllP (e_segments J rx_search root l (e_segment J rx_search root s d))).
    apply IH; [exact Hl|]. apply allp_segment; assumption.
  Qed.

  (* every reported path is the Normalized Path of the reported node's location *)
  Theorem paths_are_normalized (q : query) ps :
    segs_path_ok q = true -> doc_plain root = true ->
    js_path_process J rx_search q root = Some ps ->
    Forall (fun p => path p = np (ploc p)) ps.
  Proof.
    intros Hok Hd Hres.
    assert (H0 : AllP (DRef (root_ptr root))).
    { constructor; [|constructor]. split; [reflexivity|exact Hd]. }
    pose proof (allp_segments q _ Hok H0) as H. unfold js_path_process in Hres. unfold AllP in H.
    destruct (e_segments J rx_search root q (DRef (root_ptr root))) as [p|l|v|];
      inversion Hres; subst; cbn [refs_of] in H.
    - inversion H as [|? ? Hpi _]; subst. constructor; [apply Hpi|constructor].
    - rewrite Forall_forall in *. intros p Hp. apply (H p Hp).
    - constructor.
  Qed.
End Paths.
