(* Refine.v — Theorem A: for every well-formed query AST and every JSON document the model of the
   evaluator (Eval.v at the serde_json::Value instance) computes the RFC 9535 semantics (Spec.v,
   with the one switch sel_major on): same nodes (location and value), same order, same
   multiplicity; filters compute the RFC truth value on every current node; functions and
   comparisons compute the RFC values.  One mutual induction over the 12 syntactic categories. *)
From Coq Require Import List NArith ZArith Bool Lia.
From JP Require Import Base Ast Eval ValueModel Spec BaseFacts DataFacts ValueFacts IndexFacts
  SliceFacts SelFacts Known WellFormed.
Import ListNotations.

Definition vt_of (d : data json) : vtype :=
  match d with DVal v => Some v | DRef p => Some (inner p) | _ => None end.
(* the shape a ValueType operand has in the code: never a list; a computed value is a scalar *)
Definition vshape (d : data json) : Prop :=
  match d with DRefs _ => False | DVal v => scalar v = true | _ => True end.
Definition cur (v : json) : data json := DRef (ptr_empty v).

Fixpoint somes {A} (l : list (option A)) : list A :=
  match l with [] => [] | Some x :: l' => x :: somes l' | None :: l' => somes l' end.

Lemma flat_map_filter_irrelevant {A B} (f : A -> list B) (p : A -> bool) l :
  (forall x, p x = false -> f x = []) -> flat_map f l = flat_map f (List.filter p l).
Proof.
  intros H. induction l as [|x l IH]; [reflexivity|]. cbn [flat_map List.filter].
  destruct (p x) eqn:E; cbn [flat_map]; rewrite IH; [reflexivity|]. rewrite (H x E). reflexivity.
Qed.

Section Refine.
  Variable rx_search : str -> str -> option bool.
  Variable rx_full rx_sub : str -> str -> bool.
  (* what the regex model has to provide (discharged in RegexFacts for the modelled dialect) *)
  Hypothesis Hrx_full : forall p s, no_bslash p = true -> regex_result rx_search p s false = rx_full p s.
  Hypothesis Hrx_sub : forall p s, no_bslash p = true -> regex_result rx_search p s true = rx_sub p s.
  Variable root : json.

  Notation Esegment := (e_segment J rx_search root).
  Notation Eselector := (e_selector J rx_search root).
  Notation Eselectors := (e_selectors J rx_search root).
  Notation Esegments := (e_segments J rx_search root).
  Notation Efelem := (e_felem J rx_search root).
  Notation Eany := (e_any J rx_search root).
  Notation Eall := (e_all J rx_search root).
  Notation Eatom := (e_atom J rx_search root).
  Notation Ecomparable := (e_comparable J rx_search root).
  Notation Etest := (e_test J rx_search root).
  Notation Etfun := (e_tfun J rx_search root).
  Notation Efnarg := (e_fnarg J rx_search root).
  Notation Efnargs := (e_fnargs J rx_search root).
  Notation Rsegment := (r_segment rx_full rx_sub jeqb true root).
  Notation Rselector := (r_selector rx_full rx_sub jeqb true root).
  Notation Rselectors_major := (r_selectors_major rx_full rx_sub jeqb true root).
  Notation Rsegments := (r_segments rx_full rx_sub jeqb true root).
  Notation Rholds := (r_holds rx_full rx_sub jeqb true root).
  Notation Rany := (r_any rx_full rx_sub jeqb true root).
  Notation Rall := (r_all rx_full rx_sub jeqb true root).
  Notation Ratom := (r_atom rx_full rx_sub jeqb true root).
  Notation Rcomparable := (r_comparable rx_full rx_sub jeqb true root).
  Notation Rtest := (r_test rx_full rx_sub jeqb true root).
  Notation Rtfun := (r_tfun rx_full rx_sub jeqb true root).
  Notation Rfnarg := (r_fnarg rx_full rx_sub jeqb true root).
  Notation Rfnargs := (r_fnargs rx_full rx_sub jeqb true root).

  (* ---------- one-step equations of the two mutual fixpoints (all by reflexivity) ---------- *)
  Lemma step_0 s d : Esegment (SegDesc s) d = Esegment s (flat_map_data (descend J) d).
  Proof. reflexivity. Qed.
  Lemma step_1 x d : Esegment (SegSel x) d = Eselector x d.
  Proof. reflexivity. Qed.
  Lemma step_2 d : Esegment (SegSels SNil) d = DRef (root_ptr root).
  Proof. reflexivity. Qed.
  Lemma step_3 s0 l d : Esegment (SegSels (SCons s0 l)) d = Eselectors l d (Eselector s0 d).
  Proof. reflexivity. Qed.
  Lemma step_4 k d : Eselector (SelName k) d = flat_map_data (fun p => process_key J p k) d.
  Proof. reflexivity. Qed.
  Lemma step_5 d : Eselector SelWild d = flat_map_data (process_wildcard J) d.
  Proof. reflexivity. Qed.
  Lemma step_6 i d : Eselector (SelIndex i) d = flat_map_data (fun p => process_index J p i) d.
  Proof. reflexivity. Qed.
  Lemma step_7 a b c d : Eselector (SelSlice a b c) d = flat_map_data (fun p => process_slice J p a b c) d.
  Proof. reflexivity. Qed.
  Lemma step_8 f d : Eselector (SelFilter f) d = fselect J (Efelem f) d.
  Proof. reflexivity. Qed.
  Lemma step_9 d acc : Eselectors SNil d acc = acc.
  Proof. reflexivity. Qed.
  Lemma step_10 s l d acc : Eselectors (SCons s l) d acc = Eselectors l d (reduce acc (Eselector s d)).
  Proof. reflexivity. Qed.
  Lemma step_11 d : Esegments GNil d = d.
  Proof. reflexivity. Qed.
  Lemma step_12 s l d : Esegments (GCons s l) d = Esegments l (Esegment s d).
  Proof. reflexivity. Qed.
  Lemma step_13 l d : Efelem (FOr l) d = d_bool J (Eany l d).
  Proof. reflexivity. Qed.
  Lemma step_14 l d : Efelem (FAnd l) d = d_bool J (Eall l d).
  Proof. reflexivity. Qed.
  Lemma step_15 a d : Efelem (FAtom a) d = Eatom a d.
  Proof. reflexivity. Qed.
  Lemma step_16 d : Eany FNil d = false.
  Proof. reflexivity. Qed.
  Lemma step_17 f l d : Eany (FCons f l) d = val_bool J (fproc J (Efelem f) d) || Eany l d.
  Proof. reflexivity. Qed.
  Lemma step_18 d : Eall FNil d = true.
  Proof. reflexivity. Qed.
  Lemma step_19 f l d : Eall (FCons f l) d = val_bool J (fproc J (Efelem f) d) && Eall l d.
  Proof. reflexivity. Qed.
  Lemma step_20 f neg d : Eatom (AFilter f neg) d = (if neg then invert_bool J (fproc J (Efelem f) d) else fproc J (Efelem f) d).
  Proof. reflexivity. Qed.
  Lemma step_21 op l r d : Eatom (ACmp op l r) d = d_bool J (compare_data J op (Ecomparable l d) (Ecomparable r d)).
  Proof. reflexivity. Qed.
  Lemma step_22 l d : Ecomparable (CLit l) d = e_literal J l.
  Proof. reflexivity. Qed.
  Lemma step_23 f d : Ecomparable (CFn f) d = Etfun f d.
  Proof. reflexivity. Qed.
  Lemma step_24 q d : Ecomparable (CSq q) d = e_squery J root q d.
  Proof. reflexivity. Qed.
  Lemma step_25 l d : Etest (TRel l) d = Esegments l d.
  Proof. reflexivity. Qed.
  Lemma step_26 l d : Etest (TAbs l) d = Esegments l (DRef (root_ptr root)).
  Proof. reflexivity. Qed.
  Lemma step_27 f d : Etest (TFn f) d = Etfun f d.
  Proof. reflexivity. Qed.
  Lemma step_28 a d : Etfun (FnLength a) d = fn_length J (Efnarg a d).
  Proof. reflexivity. Qed.
  Lemma step_29 a d : Etfun (FnCount a) d = fn_count J (Efnarg a d).
  Proof. reflexivity. Qed.
  Lemma step_30 a d : Etfun (FnValue a) d = fn_value (Efnarg a d).
  Proof. reflexivity. Qed.
  Lemma step_31 a b d : Etfun (FnMatch a b) d = fn_regex J rx_search (Efnarg a d) (Efnarg b d) false.
  Proof. reflexivity. Qed.
  Lemma step_32 a b d : Etfun (FnSearch a b) d = fn_regex J rx_search (Efnarg a d) (Efnarg b d) true.
  Proof. reflexivity. Qed.
  Lemma step_33 name args d : Etfun (FnCustom name args) d = DVal (q_custom J name (custom_args (Efnargs args d))).
  Proof. reflexivity. Qed.
  Lemma step_34 l d : Efnarg (ArgLit l) d = e_literal J l.
  Proof. reflexivity. Qed.
  Lemma step_35 t d : Efnarg (ArgTest t) d = Etest t d.
  Proof. reflexivity. Qed.
  Lemma step_36 f d : Efnarg (ArgFilter f) d = fproc J (Efelem f) d.
  Proof. reflexivity. Qed.
  Lemma step_37 d : Efnargs ANil d = [].
  Proof. reflexivity. Qed.
  Lemma step_38 a l d : Efnargs (ACons a l) d = Efnarg a d :: Efnargs l d.
  Proof. reflexivity. Qed.
  Lemma step_39 s ns : Rsegment (SegDesc s) ns = Rsegment s (flat_map (fun n => descendants_or_self (fst n) (snd n)) ns).
  Proof. reflexivity. Qed.
  Lemma step_40 x ns : Rsegment (SegSel x) ns = flat_map (Rselector x) ns.
  Proof. reflexivity. Qed.
  Lemma step_41 l ns : Rsegment (SegSels l) ns = Rselectors_major l ns.
  Proof. reflexivity. Qed.
  Lemma step_42 k n : Rselector (SelName k) n = sel_name k n.
  Proof. reflexivity. Qed.
  Lemma step_43 n : Rselector SelWild n = children n.
  Proof. reflexivity. Qed.
  Lemma step_44 i n : Rselector (SelIndex i) n = sel_index i n.
  Proof. reflexivity. Qed.
  Lemma step_45 a b c n : Rselector (SelSlice a b c) n = sel_slice a b c n.
  Proof. reflexivity. Qed.
  Lemma step_46 f n : Rselector (SelFilter f) n = List.filter (fun c => Rholds f (snd c)) (children n).
  Proof. reflexivity. Qed.
  Lemma step_47 ns : Rselectors_major SNil ns = [].
  Proof. reflexivity. Qed.
  Lemma step_48 s l ns : Rselectors_major (SCons s l) ns = flat_map (Rselector s) ns ++ Rselectors_major l ns.
  Proof. reflexivity. Qed.
  Lemma step_49 ns : Rsegments GNil ns = ns.
  Proof. reflexivity. Qed.
  Lemma step_50 s l ns : Rsegments (GCons s l) ns = Rsegments l (Rsegment s ns).
  Proof. reflexivity. Qed.
  Lemma step_51 l v : Rholds (FOr l) v = Rany l v.
  Proof. reflexivity. Qed.
  Lemma step_52 l v : Rholds (FAnd l) v = Rall l v.
  Proof. reflexivity. Qed.
  Lemma step_53 a v : Rholds (FAtom a) v = Ratom a v.
  Proof. reflexivity. Qed.
  Lemma step_54 v : Rany FNil v = false.
  Proof. reflexivity. Qed.
  Lemma step_55 f l v : Rany (FCons f l) v = Rholds f v || Rany l v.
  Proof. reflexivity. Qed.
  Lemma step_56 v : Rall FNil v = true.
  Proof. reflexivity. Qed.
  Lemma step_57 f l v : Rall (FCons f l) v = Rholds f v && Rall l v.
  Proof. reflexivity. Qed.
  Lemma step_58 f neg v : Ratom (AFilter f neg) v = xorb neg (Rholds f v).
  Proof. reflexivity. Qed.
  Lemma step_59 t neg v : Ratom (ATest t neg) v = xorb neg (as_logical (Rtest t v)).
  Proof. reflexivity. Qed.
  Lemma step_60 op l r v : Ratom (ACmp op l r) v = rfc_compare op (Rcomparable l v) (Rcomparable r v).
  Proof. reflexivity. Qed.
  Lemma step_61 l v : Rcomparable (CLit l) v = lit_denot l.
  Proof. reflexivity. Qed.
  Lemma step_62 f v : Rcomparable (CFn f) v = as_value (Rtfun f v).
  Proof. reflexivity. Qed.
  Lemma step_63 q v : Rcomparable (CSq q) v = as_value (RNodes (r_squery root q v)).
  Proof. reflexivity. Qed.
  Lemma step_64 l v : Rtest (TRel l) v = RNodes (Rsegments l [([], v)]).
  Proof. reflexivity. Qed.
  Lemma step_65 l v : Rtest (TAbs l) v = RNodes (Rsegments l [([], root)]).
  Proof. reflexivity. Qed.
  Lemma step_66 f v : Rtest (TFn f) v = Rtfun f v.
  Proof. reflexivity. Qed.
  Lemma step_67 a v : Rtfun (FnLength a) v = RValue (rfc_length (as_value (Rfnarg a v))).
  Proof. reflexivity. Qed.
  Lemma step_68 a v : Rtfun (FnCount a) v = RValue (rfc_count (as_nodes (Rfnarg a v))).
  Proof. reflexivity. Qed.
  Lemma step_69 a v : Rtfun (FnValue a) v = RValue (rfc_value (as_nodes (Rfnarg a v))).
  Proof. reflexivity. Qed.
  Lemma step_70 name args v : Rtfun (FnCustom name args) v = RLogical (ext_fn jeqb name (Rfnargs args v)).
  Proof. reflexivity. Qed.
  Lemma step_71 l v : Rfnarg (ArgLit l) v = RValue (lit_denot l).
  Proof. reflexivity. Qed.
  Lemma step_72 t v : Rfnarg (ArgTest t) v = Rtest t v.
  Proof. reflexivity. Qed.
  Lemma step_73 f v : Rfnarg (ArgFilter f) v = RLogical (Rholds f v).
  Proof. reflexivity. Qed.
  Lemma step_74 v : Rfnargs ANil v = [].
  Proof. reflexivity. Qed.
  Lemma step_75 a l v : Rfnargs (ACons a l) v = as_value (Rfnarg a v) :: Rfnargs l v.
  Proof. reflexivity. Qed.
  Hint Rewrite step_0 step_1 step_2 step_3 step_4 step_5 step_6 step_7 step_8 step_9 step_10 step_11 step_12 step_13 step_14 step_15 step_16 step_17 step_18 step_19 step_20 step_21 step_22 step_23 step_24 step_25 step_26 step_27 step_28 step_29 step_30 step_31 step_32 step_33 step_34 step_35 step_36 step_37 step_38 step_39 step_40 step_41 step_42 step_43 step_44 step_45 step_46 step_47 step_48 step_49 step_50 step_51 step_52 step_53 step_54 step_55 step_56 step_57 step_58 step_59 step_60 step_61 step_62 step_63 step_64 step_65 step_66 step_67 step_68 step_69 step_70 step_71 step_72 step_73 step_74 step_75 : steps.
  Ltac steps := autorewrite with steps.
  Lemma step_atest t neg d :
    Eatom (ATest t neg) d
    = if is_res_bool t then (if neg then invert_bool J (Etest t d) else Etest t d)
      else if match Etest t d with
              | DRef _ => true
              | DRefs [] => false
              | DRefs _ => true
              | _ => false
              end
           then d_bool J (negb neg) else d_bool J neg.
  Proof. reflexivity. Qed.
  Lemma step_rmatch a b v :
    Rtfun (FnMatch a b) v
    = RLogical (match as_value (Rfnarg a v), as_value (Rfnarg b v) with
                | Some (JStr s), Some (JStr p) => rx_full p s
                | _, _ => false
                end).
  Proof. reflexivity. Qed.
  Lemma step_rsearch a b v :
    Rtfun (FnSearch a b) v
    = RLogical (match as_value (Rfnarg a v), as_value (Rfnarg b v) with
                | Some (JStr s), Some (JStr p) => rx_sub p s
                | _, _ => false
                end).
  Proof. reflexivity. Qed.

  (* ---------- small facts ---------- *)
  Lemma val_bool_d_bool b : val_bool J (d_bool J b) = b.
  Proof. reflexivity. Qed.
  Lemma nodes_cur v : nodes_of (cur v) = [([], v)].
  Proof. reflexivity. Qed.
  Lemma nodes_root : nodes_of (DRef (root_ptr root)) = [([], root)].
  Proof. reflexivity. Qed.

  Lemma fproc_cur elem v :
    fproc J elem (cur v) = DVal (JBool (val_bool J (elem (cur v)))).
  Proof. reflexivity. Qed.

  Lemma fselect_sel elem d :
    ll (fselect J elem d) /\
    nodes_of (fselect J elem d)
    = flat_map (fun n => List.filter (fun c => filter_item_of J elem (snd c)) (children n)) (nodes_of d).
  Proof.
    unfold fselect. split.
    - apply ll_flat_map. intros p. apply children_of_sel.
    - rewrite nodes_flat_map. unfold nodes_of' at 2. rewrite flat_map_map.
      apply flat_map_ext'. intros p _. apply children_of_sel.
  Qed.

  (* a selector applied through State::flat_map *)
  Lemma sel_via_flat_map (f : ptr json -> data json) (g : node -> list node) d :
    (forall p, ll (f p) /\ nodes_of (f p) = g (node_of p)) ->
    ll (flat_map_data f d) /\ nodes_of (flat_map_data f d) = flat_map g (nodes_of d).
  Proof.
    intros H. split.
    - apply ll_flat_map. intros p. apply H.
    - rewrite nodes_flat_map. unfold nodes_of' at 2. rewrite flat_map_map.
      apply flat_map_ext'. intros p _. apply H.
  Qed.

  (* scalars have no children, so no selector selects anything on them *)
  Lemma rselector_scalar s n : container_node n = false -> Rselector s n = [].
  Proof.
    destruct n as [l v]. unfold container_node. cbn [snd]. intros H.
    destruct s as [k| |i|a b c|f]; cbn [r_selector].
    - unfold sel_name. cbn [snd]. destruct (decode_name k); [|reflexivity].
      destruct v; try reflexivity; discriminate.
    - unfold children, children_steps. cbn [snd]. destruct v; try reflexivity; discriminate.
    - unfold sel_index. cbn [snd]. destruct v; try reflexivity; discriminate.
    - unfold sel_slice. cbn [snd]. destruct v; try reflexivity; discriminate.
    - unfold children, children_steps. cbn [snd]. destruct v; try reflexivity; discriminate.
  Qed.

  Lemma rselectors_major_scalar l ns :
    Rselectors_major l ns = Rselectors_major l (List.filter container_node ns).
  Proof.
    induction l as [|s l IH]; [reflexivity|]. cbn [r_selectors_major]. rewrite IH. f_equal.
    apply flat_map_filter_irrelevant. intros n Hn. apply rselector_scalar. exact Hn.
  Qed.

  Lemma desc_filter_scalar ns :
    List.filter container_node (flat_map (fun n => descendants_or_self (fst n) (snd n)) ns)
    = List.filter container_node
        (flat_map (fun n => descendants_or_self (fst n) (snd n)) (List.filter container_node ns)).
  Proof.
    rewrite !filter_flat_map. apply flat_map_filter_irrelevant.
    intros [l v] H. unfold container_node in H. cbn [fst snd] in *.
    destruct v; try discriminate; reflexivity.
  Qed.

  Lemma rsegment_scalar s : forall ns, Rsegment s ns = Rsegment s (List.filter container_node ns).
  Proof.
    induction s as [s IH|sel|l]; intros ns; cbn [r_segment].
    - rewrite IH. rewrite (IH (flat_map _ (List.filter container_node ns))).
      rewrite desc_filter_scalar. reflexivity.
    - apply flat_map_filter_irrelevant. intros n Hn. apply rselector_scalar. exact Hn.
    - apply rselectors_major_scalar.
  Qed.

  (* singular queries keep the Ref / Nothing shape *)
  Lemma singular_shape l : singular l = true -> forall d,
    (exists p, d = DRef p) \/ d = DNothing ->
    (exists p, Esegments l d = DRef p) \/ Esegments l d = DNothing.
  Proof.
    induction l as [|s l IH]; intros Hs d Hd; [exact Hd|].
    cbn [singular] in Hs. apply andb_true_iff in Hs. destruct Hs as [Hs Hl].
    cbn [e_segments]. apply IH; [exact Hl|].
    destruct s as [s'|sel|sl]; try discriminate.
    destruct sel as [k| |i|a b c|f]; try discriminate; cbn [e_segment e_selector];
      destruct Hd as [[p ->]| ->]; try (right; reflexivity); cbn [flat_map_data].
    - unfold process_key. destruct (q_get J (inner p) (normalize_json_key k)) as [[k' x]|];
        [left; eexists; reflexivity|right; reflexivity].
    - destruct (process_index_sel p i) as [_ _].
      unfold process_index. destruct (q_as_array J (inner p)); [|right; reflexivity].
      destruct (Z.leb 0 i).
      + destruct (Z.leb (len_z l0) i); [right; reflexivity|].
        destruct (get_z l0 i) as [[? ?]|]; [left; eexists; reflexivity|right; reflexivity].
      + destruct (Z.ltb (len_z l0) (Z.abs i)); [right; reflexivity|].
        destruct (get_z l0 (len_z l0 - Z.abs i)) as [[? ?]|]; [left; eexists; reflexivity|right; reflexivity].
  Qed.

  (* ---------- literals ---------- *)
  Lemma decode_esc_hits_quote q s : forall fuel,
    no_bslash s = true -> no_ctl s = true ->
    existsb (N.eqb q) s = true -> decode_esc fuel q s = None.
  Proof.
    induction s as [|c s IH]; intros fuel Hb Hc Hq; [discriminate|].
    destruct fuel as [|fuel]; [reflexivity|].
    cbn [no_bslash no_ctl forallb existsb] in *.
    apply andb_true_iff in Hb. destruct Hb as [Hb1 Hb2].
    apply andb_true_iff in Hc. destruct Hc as [Hc1 Hc2].
    apply negb_true_iff in Hb1. cbn [decode_esc]. rewrite Hb1.
    destruct (N.eqb_spec c q) as [->|Hne]; [reflexivity|].
    assert (Hlt : N.ltb c 32 = false) by (apply N.ltb_ge; apply N.leb_le; exact Hc1).
    rewrite Hlt. apply orb_true_iff in Hq. destruct Hq as [Hq|Hq].
    - apply N.eqb_eq in Hq. congruence.
    - rewrite IH by assumption. reflexivity.
  Qed.

  Lemma lit_denot_plain l :
    lit_plain l = true ->
    exists v, e_literal J l = DVal v /\ scalar v = true /\ lit_denot l = Some v.
  Proof.
    destruct l as [z|d|s|b|]; intros H; cbn [e_literal q_of_i64 q_of_f64 q_of_str q_of_bool q_null J value_ops];
      try (eexists; split; [reflexivity|split; reflexivity]).
    exists (JStr s). split; [reflexivity|]. split; [reflexivity|].
    cbn [lit_plain] in H. apply andb_true_iff in H. destruct H as [H Hq].
    apply andb_true_iff in H. destruct H as [Hb Hc].
    cbn [lit_denot]. unfold decode_body.
    destruct (forallb (fun x => negb (N.eqb x 39)) s) eqn:E39.
    - rewrite decode_esc_plain by (try assumption; lia). reflexivity.
    - cbn [orb] in Hq.
      rewrite decode_esc_hits_quote; try assumption.
      + rewrite decode_esc_plain by (try assumption; lia). reflexivity.
      + clear -E39. induction s as [|c s IH]; [discriminate|]. cbn [forallb existsb] in *.
        destruct (N.eqb_spec c 39) as [->|Hne]; [reflexivity|].
        cbn [negb andb] in E39. rewrite (IH E39). rewrite orb_true_r. reflexivity.
  Qed.

  (* ---------- comparisons ---------- *)
  Lemma eq_data_rfc l r :
    vshape l -> vshape r -> eq_data J l r = rfc_eq (vt_of l) (vt_of r).
  Proof.
    intros Hl Hr. destruct l as [p|ll0|a|], r as [q|lr|b|]; cbn [vshape] in *; try contradiction;
      cbn [eq_data vt_of rfc_eq]; try reflexivity; try apply eq_val_rfc.
    rewrite eq_val_rfc. apply rfc_json_eq_scalar_sym. exact Hr.
  Qed.

  Lemma lt_data_rfc l r :
    vshape l -> vshape r -> lt_data J l r = rfc_lt (vt_of l) (vt_of r).
  Proof.
    intros Hl Hr. destruct l as [p|ll0|a|], r as [q|lr|b|]; cbn [vshape] in *; try contradiction;
      cbn [lt_data vt_of]; try apply cmp_lt_rfc; try reflexivity.
    - destruct (inner p) as [| |n|s| |]; reflexivity.
    - destruct a as [| |n|s| |]; reflexivity.
  Qed.

  Lemma compare_data_rfc op l r :
    vshape l -> vshape r -> compare_data J op l r = rfc_compare op (vt_of l) (vt_of r).
  Proof.
    intros Hl Hr. destruct op; cbn [compare_data rfc_compare];
      rewrite ?eq_data_rfc, ?lt_data_rfc by assumption; reflexivity.
  Qed.

  (* ---------- singular queries in comparisons ---------- *)
  Lemma squery_steps l : forall d ns,
    forallb (sqseg_ok name_plain) l = true ->
    ((exists p, d = DRef p) \/ d = DNothing) -> nodes_of d = ns ->
    let d' := fold_left (fun acc s => e_sqseg J s acc) l d in
    ((exists p, d' = DRef p) \/ d' = DNothing) /\
    nodes_of d' = fold_left (fun ns s => flat_map (sq_step s) ns) l ns.
  Proof.
    induction l as [|s l IH]; intros d ns Hok Hd Hn; cbn [fold_left].
    - split; assumption.
    - cbn [forallb] in Hok. apply andb_true_iff in Hok. destruct Hok as [Hs Hl].
      apply IH; [exact Hl| |].
      + destruct Hd as [[p ->]| ->]; [|right; destruct s; reflexivity].
        destruct s as [i|k]; cbn [e_sqseg flat_map_data].
        * unfold process_index. destruct (q_as_array J (inner p)) as [arr|]; [|right; reflexivity].
          destruct (Z.leb 0 i).
          -- destruct (Z.leb (len_z arr) i); [right; reflexivity|].
             destruct (get_z arr i) as [[? ?]|]; [left; eexists; reflexivity|right; reflexivity].
          -- destruct (Z.ltb (len_z arr) (Z.abs i)); [right; reflexivity|].
             destruct (get_z arr (len_z arr - Z.abs i)) as [[? ?]|];
               [left; eexists; reflexivity|right; reflexivity].
        * unfold process_key. destruct (q_get J (inner p) (normalize_json_key k)) as [[k' x]|];
            [left; eexists; reflexivity|right; reflexivity].
      + subst ns. destruct s as [i|k]; cbn [e_sqseg sq_step].
        * apply (sel_via_flat_map (fun p => process_index J p i) (sel_index i)).
          intros p. apply process_index_sel.
        * apply (sel_via_flat_map (fun p => process_key J p k) (sel_name k)).
          intros p. apply process_key_sel. exact Hs.
  Qed.

  Lemma vt_of_ref_or_nothing d :
    ((exists p, d = DRef p) \/ d = DNothing) -> vshape d /\ vt_of d = as_value (RNodes (nodes_of d)).
  Proof. intros [[p ->]| ->]; split; try exact I; reflexivity. Qed.

  (* ---------- the three value functions ---------- *)
  Lemma fn_length_spec A :
    vshape A -> vshape (fn_length J A) /\ vt_of (fn_length J A) = rfc_length (vt_of A).
  Proof.
    assert (H : forall x, vshape (match q_as_str J x with
                                  | Some s => d_i64 J (len_z s)
                                  | None => match q_as_array J x with
                                            | Some l => d_i64 J (len_z l)
                                            | None => match q_as_object J x with
                                                      | Some m => d_i64 J (len_z m)
                                                      | None => DNothing
                                                      end
                                            end
                                  end)
              /\ vt_of (match q_as_str J x with
                        | Some s => d_i64 J (len_z s)
                        | None => match q_as_array J x with
                                  | Some l => d_i64 J (len_z l)
                                  | None => match q_as_object J x with
                                            | Some m => d_i64 J (len_z m)
                                            | None => DNothing
                                            end
                                  end
                        end) = rfc_length (Some x)).
    { intros x. destruct x; cbn; split; try exact I; reflexivity. }
    intros HA. destruct A as [p|l|v|]; cbn [vshape] in HA; try contradiction; cbn [fn_length vt_of].
    - apply H.
    - apply H.
    - split; [exact I|reflexivity].
  Qed.

  Lemma fn_count_spec A :
    ll A -> vshape (fn_count J A) /\ vt_of (fn_count J A) = rfc_count (nodes_of A).
  Proof.
    intros HA. destruct A as [p|l|v|]; cbn [ll] in HA; try contradiction;
      cbn [fn_count]; split; try reflexivity.
    unfold rfc_count, nodes_of'. cbn [refs_of vt_of d_i64 q_of_i64 J value_ops]. rewrite map_length. reflexivity.
  Qed.

  Lemma fn_value_spec A :
    ll A -> vshape (fn_value A) /\ vt_of (fn_value A) = rfc_value (nodes_of A).
  Proof.
    intros HA. destruct A as [p|l|v|]; cbn [ll] in HA; try contradiction; cbn [fn_value].
    - split; [exact I|reflexivity].
    - destruct l as [|p [|p2 l]]; split; try exact I; reflexivity.
    - split; [exact I|reflexivity].
  Qed.

  Lemma data_str_vt A : vshape A ->
    data_str J A = match vt_of A with Some (JStr s) => Some s | _ => None end.
  Proof.
    intros HA. destruct A as [p|l|v|]; cbn [vshape] in HA; try contradiction; cbn [data_str vt_of q_as_str J value_ops].
    - destruct (inner p); reflexivity.
    - destruct v; reflexivity.
    - reflexivity.
  Qed.

  (* ---------- extension functions ---------- *)
  Lemma forallb_negb_existsb {A} (P : A -> bool) l :
    forallb (fun x => negb (P x)) l = negb (existsb P l).
  Proof. induction l as [|x l IH]; [reflexivity|]. cbn [forallb existsb]. rewrite IH, negb_orb. reflexivity. Qed.

  Ltac name_cases :=
    repeat match goal with
           | |- context [str_eqb ?n ?c] =>
               is_var n; let E := fresh "E" in
               destruct (str_eqb n c) eqn:E; [apply str_eqb_eq in E; subst n|]
           end.

  Lemma value_custom_two name x y :
    val_bool J (DVal (value_custom name [x; y])) = ext_fn jeqb name [Some x; Some y].
  Proof.
    unfold value_custom, ext_fn, val_bool, s_in, s_nin, s_none_of, s_any_of, s_subset_of, jbool,
      ext_in, ext_any_of, ext_subset_of.
    cbn [ok_val q_as_bool J value_ops].
    name_cases; cbn [str_eqb N.eqb Pos.eqb andb];
      destruct y as [| | | | l |]; try reflexivity;
      try (destruct x as [| | | | a |]; try reflexivity);
      try (rewrite forallb_negb_existsb; reflexivity).
  Qed.

  Lemma value_custom_other name args :
    length args <> 2%nat -> value_custom name args = JNull.
  Proof.
    intros Hl. unfold value_custom.
    destruct args as [|a [|b [|c r]]]; try (exfalso; apply Hl; reflexivity);
      repeat (destruct (str_eqb name _); try reflexivity);
      try (destruct a; try reflexivity; destruct b; reflexivity);
      try (destruct b; reflexivity).
  Qed.

  Lemma somes_length_le {A} (l : list (option A)) : (length (somes l) <= length l)%nat.
  Proof. induction l as [|[x|] l IH]; cbn [somes length]; lia. Qed.

  Lemma custom_spec name (vts : list vtype) :
    (is_ext_name name = false \/ length vts = 2%nat) ->
    val_bool J (DVal (value_custom name (somes vts))) = ext_fn jeqb name vts.
  Proof.
    intros [Hn|Hlen].
    - unfold is_ext_name in Hn. repeat (apply orb_false_iff in Hn; destruct Hn as [Hn ?]).
      unfold value_custom, ext_fn, s_in, s_nin, s_none_of, s_any_of, s_subset_of.
      repeat match goal with H : str_eqb name _ = false |- _ => rewrite H; clear H end.
      destruct vts as [|[x|] [|[y|] [|? ?]]]; try reflexivity.
      all: destruct y; try reflexivity; destruct x; reflexivity.
    - destruct vts as [|a [|b [|? ?]]]; try discriminate.
      destruct a as [x|], b as [y|]; cbn [somes].
      + apply value_custom_two.
      + rewrite value_custom_other by (cbn; lia). reflexivity.
      + rewrite value_custom_other by (cbn; lia). reflexivity.
      + rewrite value_custom_other by (cbn; lia). reflexivity.
  Qed.

  (* ---------- the statements, one per syntactic category ---------- *)
  Definition P_segment (s : segment) : Prop :=
    ok_segment s = true -> forall d, ll d ->
    ll (Esegment s d) /\ nodes_of (Esegment s d) = Rsegment s (nodes_of d).
  Definition P_selector (s : selector) : Prop :=
    ok_selector s = true -> forall d, ll d ->
    ll (Eselector s d) /\ nodes_of (Eselector s d) = flat_map (Rselector s) (nodes_of d).
  Definition P_selectors (l : selectors) : Prop :=
    ok_selectors l = true -> forall d acc, ll d -> ll acc ->
    ll (Eselectors l d acc) /\
    nodes_of (Eselectors l d acc) = nodes_of acc ++ Rselectors_major l (nodes_of d).
  Definition P_segments (l : segments) : Prop :=
    ok_segments l = true -> forall d, ll d ->
    ll (Esegments l d) /\ nodes_of (Esegments l d) = Rsegments l (nodes_of d).
  Definition P_filter (f : filter) : Prop :=
    ok_filter f = true -> forall v, val_bool J (Efelem f (cur v)) = Rholds f v.
  Definition P_filters (l : filters) : Prop :=
    ok_filters l = true -> forall v, Eany l (cur v) = Rany l v /\ Eall l (cur v) = Rall l v.
  Definition P_atom (a : atom) : Prop :=
    ok_atom a = true -> forall v, val_bool J (Eatom a (cur v)) = Ratom a v.
  Definition P_comparable (c : comparable) : Prop :=
    ok_comparable c = true -> forall v,
    vshape (Ecomparable c (cur v)) /\ vt_of (Ecomparable c (cur v)) = Rcomparable c v.
  Definition F_tfun (f : tfun) (v : json) : Prop :=
    (value_fn f = true ->
     vshape (Etfun f (cur v)) /\ vt_of (Etfun f (cur v)) = as_value (Rtfun f v)) /\
    (logical_fn f = true -> val_bool J (Etfun f (cur v)) = as_logical (Rtfun f v)).
  Definition P_tfun (f : tfun) : Prop := ok_tfun f = true -> forall v, F_tfun f v.
  Definition P_test (t : test) : Prop :=
    forall v,
    match t with
    | TRel l | TAbs l =>
        ok_segments l = true ->
        ll (Etest t (cur v)) /\ Rtest t v = RNodes (nodes_of (Etest t (cur v)))
    | TFn f => ok_tfun f = true -> F_tfun f v
    end.
  Definition P_fnarg (a : fnarg) : Prop :=
    forall v,
    (ok_arg_value a = true ->
     vshape (Efnarg a (cur v)) /\ vt_of (Efnarg a (cur v)) = as_value (Rfnarg a v)) /\
    (ok_arg_nodes a = true ->
     ll (Efnarg a (cur v)) /\ nodes_of (Efnarg a (cur v)) = as_nodes (Rfnarg a v)).
  Definition P_fnargs (l : fnargs) : Prop :=
    ok_args_value l = true -> forall v,
    custom_args (Efnargs l (cur v)) = somes (Rfnargs l v) /\
    length (Rfnargs l v) = fnargs_len l.

  Lemma reduce_nothing_l (x : data json) : ll x -> reduce DNothing x = x.
  Proof. destruct x; cbn; try reflexivity; contradiction. Qed.

  Theorem refine_all :
    (forall s, P_segment s) /\ (forall s, P_selector s) /\ (forall l, P_selectors l) /\
    (forall l, P_segments l) /\ (forall f, P_filter f) /\ (forall l, P_filters l) /\
    (forall a, P_atom a) /\ (forall c, P_comparable c) /\ (forall t, P_test t) /\
    (forall f, P_tfun f) /\ (forall a, P_fnarg a) /\ (forall l, P_fnargs l).
  Proof.
    apply ast_mutind.
    - (* SegDesc *)
      intros s IH Hok d Hd. cbn [ok_segment] in Hok. steps.
      assert (Hdd : ll (flat_map_data (descend J) d) /\
                    nodes_of (flat_map_data (descend J) d)
                    = flat_map (fun n => List.filter container_node (descendants_or_self (fst n) (snd n)))
                        (nodes_of d)).
      { apply (sel_via_flat_map (descend J)
                 (fun n => List.filter container_node (descendants_or_self (fst n) (snd n)))).
        intros p. apply descend_sel. }
      destruct Hdd as [Hl Hn].
      destruct (IH Hok _ Hl) as [Hl2 Hn2]. split; [exact Hl2|].
      rewrite Hn2, Hn.
      rewrite (rsegment_scalar s (flat_map (fun n => descendants_or_self (fst n) (snd n)) (nodes_of d))).
      rewrite filter_flat_map. reflexivity.
    - (* SegSel *)
      intros sel IH Hok d Hd. cbn [ok_segment] in Hok. steps. apply IH; assumption.
    - (* SegSels *)
      intros l IH Hok d Hd. cbn [ok_segment] in Hok. steps.
      destruct l as [|s0 l']; [discriminate|].
      specialize (IH Hok d DNothing Hd I).
      change (Eselectors (SCons s0 l') d DNothing)
        with (Eselectors l' d (reduce DNothing (Eselector s0 d))) in IH.
      change (Rselectors_major (SCons s0 l') (nodes_of d))
        with (flat_map (Rselector s0) (nodes_of d) ++ Rselectors_major l' (nodes_of d)) in IH.
      assert (Hx : ll (Eselector s0 d)).
      { destruct s0; steps; try (apply ll_flat_map; intros p).
        - unfold process_key. destruct (q_get J (inner p) _) as [[? ?]|]; exact I.
        - apply process_wildcard_sel.
        - apply process_index_sel.
        - apply process_slice_sel.
        - apply children_of_sel. }
      rewrite (reduce_nothing_l _ Hx) in IH. exact IH.
    - (* SelName *)
      intros k Hok d Hd. cbn [ok_selector] in Hok. steps.
      apply (sel_via_flat_map (fun p => process_key J p k) (sel_name k)).
      intros p. apply process_key_sel. exact Hok.
    - (* SelWild *)
      intros _ d Hd. steps.
      apply (sel_via_flat_map (process_wildcard J) children). intros p. apply process_wildcard_sel.
    - (* SelIndex *)
      intros i _ d Hd. steps.
      apply (sel_via_flat_map (fun p => process_index J p i) (sel_index i)).
      intros p. apply process_index_sel.
    - (* SelSlice *)
      intros a b c _ d Hd. steps.
      apply (sel_via_flat_map (fun p => process_slice J p a b c) (sel_slice a b c)).
      intros p. apply process_slice_sel.
    - (* SelFilter *)
      intros f IH Hok d Hd. cbn [ok_selector] in Hok. steps.
      destruct (fselect_sel (Efelem f) d) as [Hl Hn]. split; [exact Hl|]. rewrite Hn.
      apply flat_map_ext'. intros n _. steps.
      induction (children n) as [|c cs IHc]; [reflexivity|]. cbn [List.filter].
      unfold filter_item_of at 1. fold (cur (snd c)). rewrite (IH Hok (snd c)). rewrite IHc. reflexivity.
    - (* SNil *)
      intros _ d acc Hd Ha. steps. rewrite app_nil_r. split; [exact Ha|reflexivity].
    - (* SCons *)
      intros s IHs l IHl Hok d acc Hd Ha. cbn [ok_selectors] in Hok.
      apply andb_true_iff in Hok. destruct Hok as [Hs Hl].
      steps.
      destruct (IHs Hs d Hd) as [Hx Hnx].
      destruct (IHl Hl d (reduce acc (Eselector s d)) Hd (ll_reduce _ _ _)) as [Hr Hnr].
      split; [exact Hr|]. rewrite Hnr, nodes_reduce by assumption. rewrite Hnx, app_assoc. reflexivity.
    - (* GNil *)
      intros _ d Hd. split; [exact Hd|reflexivity].
    - (* GCons *)
      intros s IHs l IHl Hok d Hd. cbn [ok_segments] in Hok.
      apply andb_true_iff in Hok. destruct Hok as [Hs Hl].
      steps. destruct (IHs Hs d Hd) as [Hx Hnx].
      destruct (IHl Hl _ Hx) as [Hr Hnr]. split; [exact Hr|]. rewrite Hnr, Hnx. reflexivity.
    - (* FOr *)
      intros l IH Hok v. cbn [ok_filter] in Hok. steps.
      rewrite val_bool_d_bool. apply IH. exact Hok.
    - (* FAnd *)
      intros l IH Hok v. cbn [ok_filter] in Hok. steps.
      rewrite val_bool_d_bool. apply IH. exact Hok.
    - (* FAtom *)
      intros a IH Hok v. cbn [ok_filter] in Hok. steps. apply IH. exact Hok.
    - (* FNil *)
      intros _ v. split; reflexivity.
    - (* FCons *)
      intros f IHf l IHl Hok v. cbn [ok_filters] in Hok.
      apply andb_true_iff in Hok. destruct Hok as [Hf Hl].
      steps. rewrite fproc_cur.
      change (val_bool J (DVal (JBool (val_bool J (Efelem f (cur v)))))) with (val_bool J (Efelem f (cur v))).
      rewrite (IHf Hf v). destruct (IHl Hl v) as [-> ->]. split; reflexivity.
    - (* AFilter *)
      intros f IH neg Hok v. cbn [ok_atom] in Hok. steps. rewrite fproc_cur.
      destruct neg; cbn [xorb].
      + unfold invert_bool. rewrite val_bool_d_bool.
        change (val_bool J (DVal (JBool (val_bool J (Efelem f (cur v)))))) with (val_bool J (Efelem f (cur v))).
        rewrite (IH Hok v). reflexivity.
      + change (val_bool J (DVal (JBool (val_bool J (Efelem f (cur v)))))) with (val_bool J (Efelem f (cur v))).
        rewrite (IH Hok v). destruct (Rholds f v); reflexivity.
    - (* ATest *)
      intros t IH neg Hok v. cbn [ok_atom] in Hok. steps. rewrite step_atest. specialize (IH v).
      destruct t as [l|l|f]; cbn [ok_test] in Hok.
      + cbn [is_res_bool]. destruct (IH Hok) as [Hl Hr]. rewrite Hr. cbn [as_logical].
        destruct (Etest (TRel l) (cur v)) as [p|[|p ps]|x|]; cbn [ll] in Hl; try contradiction;
          destruct neg; reflexivity.
      + cbn [is_res_bool]. destruct (IH Hok) as [Hl Hr]. rewrite Hr. cbn [as_logical].
        destruct (Etest (TAbs l) (cur v)) as [p|[|p ps]|x|]; cbn [ll] in Hl; try contradiction;
          destruct neg; reflexivity.
      + apply andb_true_iff in Hok. destruct Hok as [Hlog Hok].
        destruct (IH Hok) as [_ Hb]. specialize (Hb Hlog).
        assert (Hres : is_res_bool (TFn f) = true).
        { destruct f; try reflexivity; discriminate. }
        rewrite Hres. steps.
        destruct neg; cbn [xorb].
        * unfold invert_bool. rewrite val_bool_d_bool, Hb. reflexivity.
        * rewrite Hb. destruct (as_logical (Rtfun f v)); reflexivity.
    - (* ACmp *)
      intros op l IHl r IHr Hok v. cbn [ok_atom] in Hok.
      apply andb_true_iff in Hok. destruct Hok as [Hl Hr].
      steps. rewrite val_bool_d_bool.
      destruct (IHl Hl v) as [Sl Vl]. destruct (IHr Hr v) as [Sr Vr].
      rewrite compare_data_rfc by assumption. rewrite Vl, Vr. reflexivity.
    - (* CLit *)
      intros l Hok v. cbn [ok_comparable] in Hok. steps.
      destruct (lit_denot_plain l Hok) as [x [-> [Hs ->]]]. split; [exact Hs|reflexivity].
    - (* CFn *)
      intros f IH Hok v. cbn [ok_comparable] in Hok.
      apply andb_true_iff in Hok. destruct Hok as [Hv Hok].
      steps. destruct (IH Hok v) as [Hval _]. apply Hval. exact Hv.
    - (* CSq *)
      intros q Hok v. cbn [ok_comparable] in Hok. steps.
      unfold e_squery, r_squery, squery_ok in *.
      destruct q as [l|l].
      + destruct (squery_steps l (cur v) [([], v)] Hok (or_introl (ex_intro _ _ eq_refl)) eq_refl) as [Hsh Hn].
        destruct (vt_of_ref_or_nothing _ Hsh) as [Hv Hvt]. split; [exact Hv|]. rewrite Hvt, Hn. reflexivity.
      + destruct (squery_steps l (DRef (root_ptr root)) [([], root)] Hok (or_introl (ex_intro _ _ eq_refl)) eq_refl) as [Hsh Hn].
        destruct (vt_of_ref_or_nothing _ Hsh) as [Hv Hvt]. split; [exact Hv|]. rewrite Hvt, Hn. reflexivity.
    - (* TRel *)
      intros l IH v Hok. steps.
      destruct (IH Hok (cur v) I) as [Hl Hn]. split; [exact Hl|]. rewrite Hn. reflexivity.
    - (* TAbs *)
      intros l IH v Hok. steps.
      destruct (IH Hok (DRef (root_ptr root)) I) as [Hl Hn]. split; [exact Hl|]. rewrite Hn. reflexivity.
    - (* TFn *)
      intros f IH v Hok. apply IH. exact Hok.
    - (* FnCustom *)
      intros name args IH Hok v. cbn [ok_tfun] in Hok.
      apply andb_true_iff in Hok. destruct Hok as [Har Hargs].
      split; [discriminate|]. intros _. steps; cbn [as_logical].
      destruct (IH Hargs v) as [Hc Hlen]. rewrite Hc. apply custom_spec.
      apply orb_true_iff in Har. destruct Har as [Hn|Hn].
      + left. apply negb_true_iff. exact Hn.
      + right. rewrite Hlen. apply Nat.eqb_eq. exact Hn.
    - (* FnLength *)
      intros a IH Hok v. cbn [ok_tfun] in Hok. split; [|discriminate]. intros _.
      steps; cbn [as_value]. destruct (IH v) as [Hv _]. destruct (Hv Hok) as [Hs Hvt].
      destruct (fn_length_spec _ Hs) as [Hs2 Hvt2]. split; [exact Hs2|]. rewrite Hvt2, Hvt. reflexivity.
    - (* FnValue *)
      intros a IH Hok v. cbn [ok_tfun] in Hok. split; [|discriminate]. intros _.
      steps; cbn [as_value]. destruct (IH v) as [_ Hn]. destruct (Hn Hok) as [Hl Hnn].
      destruct (fn_value_spec _ Hl) as [Hs2 Hvt2]. split; [exact Hs2|]. rewrite Hvt2, Hnn. reflexivity.
    - (* FnCount *)
      intros a IH Hok v. cbn [ok_tfun] in Hok. split; [|discriminate]. intros _.
      steps; cbn [as_value]. destruct (IH v) as [_ Hn]. destruct (Hn Hok) as [Hl Hnn].
      destruct (fn_count_spec _ Hl) as [Hs2 Hvt2]. split; [exact Hs2|]. rewrite Hvt2, Hnn. reflexivity.
    - (* FnSearch *)
      intros a IHa b IHb Hok v. cbn [ok_tfun] in Hok.
      apply andb_true_iff in Hok. destruct Hok as [Ha Hb].
      split; [discriminate|]. intros _. steps. rewrite step_rsearch. cbn [as_logical].
      destruct b as [lb|tb|fb]; try discriminate.
      destruct (IHa v) as [Hva _]. destruct (Hva Ha) as [Sa Va].
      destruct (lit_denot_plain lb Hb) as [x [Ex [Sx Dx]]].
      steps; cbn [as_value]. rewrite Ex, Dx. unfold fn_regex.
      rewrite (data_str_vt _ Sa), Va. cbn [data_str q_as_str J value_ops].
      destruct (as_value (Rfnarg a v)) as [[| | |s| |]|]; try reflexivity.
      destruct x as [| | |pat| |]; try reflexivity.
      assert (Hnb : no_bslash pat = true).
      { destruct lb; cbn in Ex; inversion Ex; subst. cbn [lit_plain] in Hb.
        apply andb_true_iff in Hb. destruct Hb as [Hb _]. apply andb_true_iff in Hb. apply Hb. }
      rewrite <- (Hrx_sub pat s Hnb). reflexivity.
    - (* FnMatch *)
      intros a IHa b IHb Hok v. cbn [ok_tfun] in Hok.
      apply andb_true_iff in Hok. destruct Hok as [Ha Hb].
      split; [discriminate|]. intros _. steps. rewrite step_rmatch. cbn [as_logical].
      destruct b as [lb|tb|fb]; try discriminate.
      destruct (IHa v) as [Hva _]. destruct (Hva Ha) as [Sa Va].
      destruct (lit_denot_plain lb Hb) as [x [Ex [Sx Dx]]].
      steps; cbn [as_value]. rewrite Ex, Dx. unfold fn_regex.
      rewrite (data_str_vt _ Sa), Va. cbn [data_str q_as_str J value_ops].
      destruct (as_value (Rfnarg a v)) as [[| | |s| |]|]; try reflexivity.
      destruct x as [| | |pat| |]; try reflexivity.
      assert (Hnb : no_bslash pat = true).
      { destruct lb; cbn in Ex; inversion Ex; subst. cbn [lit_plain] in Hb.
        apply andb_true_iff in Hb. destruct Hb as [Hb _]. apply andb_true_iff in Hb. apply Hb. }
      rewrite <- (Hrx_full pat s Hnb). reflexivity.
    - (* ArgLit *)
      intros l v. split; [|discriminate]. cbn [ok_arg_value]. intros Hok.
      steps; cbn [as_value]. destruct (lit_denot_plain l Hok) as [x [-> [Hs ->]]].
      split; [exact Hs|reflexivity].
    - (* ArgTest *)
      intros t IH v. specialize (IH v). split.
      + cbn [ok_arg_value]. intros Hok. steps.
        destruct t as [l|l|f].
        * apply andb_true_iff in Hok. destruct Hok as [Hsing Hok].
          destruct (IH Hok) as [Hl Hr]. rewrite Hr.
          apply vt_of_ref_or_nothing. steps. apply singular_shape; [exact Hsing|].
          left. eexists. reflexivity.
        * apply andb_true_iff in Hok. destruct Hok as [Hsing Hok].
          destruct (IH Hok) as [Hl Hr]. rewrite Hr.
          apply vt_of_ref_or_nothing. steps. apply singular_shape; [exact Hsing|].
          left. eexists. reflexivity.
        * apply andb_true_iff in Hok. destruct Hok as [Hv Hok].
          destruct (IH Hok) as [Hval _]. apply Hval. exact Hv.
      + cbn [ok_arg_nodes]. intros Hok. steps.
        destruct t as [l|l|f]; try discriminate.
        * destruct (IH Hok) as [Hl Hr]. rewrite Hr. split; [exact Hl|reflexivity].
        * destruct (IH Hok) as [Hl Hr]. rewrite Hr. split; [exact Hl|reflexivity].
    - (* ArgFilter *)
      intros f IH v. split; discriminate.
    - (* ANil *)
      intros _ v. split; reflexivity.
    - (* ACons *)
      intros a IHa l IHl Hok v. cbn [ok_args_value] in Hok.
      apply andb_true_iff in Hok. destruct Hok as [Ha Hl].
      steps; cbn [fnargs_len length]. destruct (IHl Hl v) as [Hc Hlen].
      destruct (IHa v) as [Hva _]. destruct (Hva Ha) as [Sa Va].
      split; [|rewrite Hlen; reflexivity].
      unfold custom_args in *. cbn [flat_map]. rewrite Hc, <- Va.
      destruct (Efnarg a (cur v)) as [p|ps|x|]; cbn [vshape] in Sa; try contradiction; reflexivity.
  Qed.
End Refine.

(* ---------- Theorem A at the public entry point ---------- *)
Section TheoremA.
  Variable rx_search : str -> str -> option bool.
  Variable rx_full rx_sub : str -> str -> bool.
  Hypothesis Hrx_full : forall p s, no_bslash p = true -> regex_result rx_search p s false = rx_full p s.
  Hypothesis Hrx_sub : forall p s, no_bslash p = true -> regex_result rx_search p s true = rx_sub p s.

  (* js_path_process never takes its Err arm and returns exactly the nodelist of the semantics *)
  Theorem js_path_process_refines (q : query) (root : json) :
    wf_query q = true ->
    exists ps, js_path_process J rx_search q root = Some ps /\
               map node_of ps = r_query rx_full rx_sub jeqb true root q.
  Proof.
    intros Hwf.
    destruct (refine_all rx_search rx_full rx_sub Hrx_full Hrx_sub root)
      as [_ [_ [_ [Hsegs _]]]].
    destruct (Hsegs q Hwf (DRef (root_ptr root)) I) as [Hl Hn].
    unfold js_path_process, r_query.
    change (nodes_of (DRef (root_ptr root))) with [(@nil step, root)] in Hn.
    destruct (e_segments J rx_search root q (DRef (root_ptr root))) as [p|l|v|];
      cbn [ll] in Hl; try contradiction; eexists; (split; [reflexivity|]); exact Hn.
  Qed.

  (* the filter selector keeps exactly the children for which the RFC truth value holds *)
  Theorem filter_refines (f : filter) (root cur_v : json) :
    ok_filter f = true ->
    val_bool J (e_felem J rx_search root f (cur cur_v))
    = r_holds rx_full rx_sub jeqb true root f cur_v.
  Proof.
    intros Hok.
    destruct (refine_all rx_search rx_full rx_sub Hrx_full Hrx_sub root)
      as [_ [_ [_ [_ [Hf _]]]]].
    apply Hf. exact Hok.
  Qed.
End TheoremA.
